/* C16 driver: executes records against the real runtime/core/bigint.c.
 *
 * Built at check time by /verif/src/c16/c16.go:
 *   clang -fsanitize=address,undefined -fno-sanitize-recover=all -O1 -g \
 *         -I <repo>/runtime/core driver.c <repo>/runtime/core/bigint.c -lm
 * (a second build adds -U__SIZEOF_INT128__ so that bigint.h selects 32-bit limbs).
 *
 * Protocol (all little endian). Operands travel as raw W-byte little-endian two's
 * complement images (W = 16 or 32), which is exactly the in-memory image of the
 * ferret_{i,u}{128,256} structs for either limb width on a little-endian host.
 *
 *   request  : kind(1) type(1) payload
 *   type     : 0=i128 1=u128 2=i256 3=u256
 *   kind 'B' : a[W] b[W]      -> for op in add sub mul div mod and or xor: r[W] mask(1)
 *                                then for op in eq lt gt: r(1) mask(1)
 *   kind 'P' : a[W] e[W]      -> pow r[W] mask(1)
 *   kind 'S' : a[W] n(int32)  -> shl r[W], shr r[W]
 *   kind 'U' : a[W]           -> not r[W] mask(1); to_{i,u}64 r(8) mask(1);
 *                                to_string len(1, 255 = NULL) bytes[len] mask(1)
 *   kind 'F' : len(2) bytes   -> from_string r[W] mask(1)
 *   kind 'I' : v(8)           -> from_{i,u}64 r[W] mask(1)
 *
 * mask: the value-passing function's result r is what is sent back; the *_ptr wrapper
 * (the entry point generated code calls) is run as well and compared with r in the
 * driver: bit0 = out distinct from inputs differs, bit1 = out aliased to a differs,
 * bit2 = out aliased to b differs, bit3 = a, b and out all the same object differs
 * (only when a == b), bit4 = a const input operand was modified.
 *
 * argv[1] == "sync": flush stdout after every record (used to pinpoint the record on
 * which a sanitizer report killed the process).
 */
#include "bigint.h"
#include <stdio.h>
#include <stdlib.h>
#include <string.h>
#include <stdint.h>

static int sync_mode = 0;

static void out(const void* p, size_t n) {
    if (fwrite(p, 1, n, stdout) != n) {
        exit(4);
    }
}

static void out1(unsigned v) {
    unsigned char c = (unsigned char)v;
    out(&c, 1);
}

static int in(void* p, size_t n) {
    return fread(p, 1, n, stdin) == n;
}

#define BIN_OP(T, NAME, OP)                                                        \
    do {                                                                           \
        T r_ = ferret_##NAME##_##OP(a, b);                                         \
        unsigned m_ = 0;                                                           \
        T* p_ = (T*)hp; T* qa_ = (T*)ha; T* qb_ = (T*)hb;                          \
        memset(p_, 0xA5, sizeof(T)); *qa_ = a; *qb_ = b;                           \
        ferret_##NAME##_##OP##_ptr(qa_, qb_, p_);                                  \
        if (memcmp(p_, &r_, sizeof(T)) != 0) m_ |= 1;                              \
        if (memcmp(qa_, &a, sizeof(T)) != 0 || memcmp(qb_, &b, sizeof(T)) != 0) m_ |= 16; \
        *qa_ = a; *qb_ = b;                                                        \
        ferret_##NAME##_##OP##_ptr(qa_, qb_, qa_);                                 \
        if (memcmp(qa_, &r_, sizeof(T)) != 0) m_ |= 2;                             \
        if (memcmp(qb_, &b, sizeof(T)) != 0) m_ |= 16;                             \
        *qa_ = a; *qb_ = b;                                                        \
        ferret_##NAME##_##OP##_ptr(qa_, qb_, qb_);                                 \
        if (memcmp(qb_, &r_, sizeof(T)) != 0) m_ |= 4;                             \
        if (memcmp(qa_, &a, sizeof(T)) != 0) m_ |= 16;                             \
        if (memcmp(&a, &b, sizeof(T)) == 0) {                                      \
            *qa_ = a;                                                              \
            ferret_##NAME##_##OP##_ptr(qa_, qa_, qa_);                             \
            if (memcmp(qa_, &r_, sizeof(T)) != 0) m_ |= 8;                         \
        }                                                                          \
        out(&r_, sizeof(T));                                                       \
        out1(m_);                                                                  \
    } while (0)

#define CMP_OP(T, NAME, OP)                                                        \
    do {                                                                           \
        bool r_ = ferret_##NAME##_##OP(a, b);                                      \
        unsigned m_ = 0;                                                           \
        T* qa_ = (T*)ha; T* qb_ = (T*)hb;                                          \
        *qa_ = a; *qb_ = b;                                                        \
        if (ferret_##NAME##_##OP##_ptr(qa_, qb_) != r_) m_ |= 1;                   \
        if (memcmp(qa_, &a, sizeof(T)) != 0 || memcmp(qb_, &b, sizeof(T)) != 0) m_ |= 16; \
        if (memcmp(&a, &b, sizeof(T)) == 0) {                                      \
            if (ferret_##NAME##_##OP##_ptr(qa_, qa_) != r_) m_ |= 8;               \
        }                                                                          \
        out1(r_ ? 1 : 0);                                                          \
        out1(m_);                                                                  \
    } while (0)

/* NOTP(T,NAME): not + not_ptr where the wrapper exists (256-bit types only). */
#define NOT_WITH_PTR(T, NAME)                                                      \
    do {                                                                           \
        T r_ = ferret_##NAME##_not(a);                                             \
        unsigned m_ = 0;                                                           \
        T* p_ = (T*)hp; T* qa_ = (T*)ha;                                           \
        memset(p_, 0xA5, sizeof(T)); *qa_ = a;                                     \
        ferret_##NAME##_not_ptr(qa_, p_);                                          \
        if (memcmp(p_, &r_, sizeof(T)) != 0) m_ |= 1;                              \
        if (memcmp(qa_, &a, sizeof(T)) != 0) m_ |= 16;                             \
        ferret_##NAME##_not_ptr(qa_, qa_);                                         \
        if (memcmp(qa_, &r_, sizeof(T)) != 0) m_ |= 2;                             \
        out(&r_, sizeof(T));                                                       \
        out1(m_);                                                                  \
    } while (0)

#define NOT_NO_PTR(T, NAME)                                                        \
    do {                                                                           \
        T r_ = ferret_##NAME##_not(a);                                             \
        out(&r_, sizeof(T));                                                       \
        out1(0);                                                                   \
    } while (0)

#define DEFINE_TYPE(T, NAME, X64T, X64, NOTMACRO)                                  \
    static int do_##NAME(int kind) {                                               \
        T a, b;                                                                    \
        /* exact-size heap objects (ASan red zones on both sides), allocated once */ \
        static void *hp, *ha, *hb;                                                 \
        if (!hp) { hp = malloc(sizeof(T)); ha = malloc(sizeof(T)); hb = malloc(sizeof(T)); } \
        switch (kind) {                                                            \
        case 'B':                                                                  \
            if (!in(&a, sizeof(T)) || !in(&b, sizeof(T))) return 0;                \
            BIN_OP(T, NAME, add); BIN_OP(T, NAME, sub); BIN_OP(T, NAME, mul);      \
            BIN_OP(T, NAME, div); BIN_OP(T, NAME, mod);                            \
            BIN_OP(T, NAME, and); BIN_OP(T, NAME, or); BIN_OP(T, NAME, xor);       \
            CMP_OP(T, NAME, eq); CMP_OP(T, NAME, lt); CMP_OP(T, NAME, gt);         \
            return 1;                                                              \
        case 'P':                                                                  \
            if (!in(&a, sizeof(T)) || !in(&b, sizeof(T))) return 0;                \
            BIN_OP(T, NAME, pow);                                                  \
            return 1;                                                              \
        case 'S': {                                                                \
            int32_t n;                                                             \
            if (!in(&a, sizeof(T)) || !in(&n, 4)) return 0;                        \
            T l = ferret_##NAME##_shl(a, (int)n);                                  \
            T r = ferret_##NAME##_shr(a, (int)n);                                  \
            out(&l, sizeof(T)); out(&r, sizeof(T));                                \
            return 1;                                                              \
        }                                                                          \
        case 'U': {                                                                \
            if (!in(&a, sizeof(T))) return 0;                                      \
            NOTMACRO(T, NAME);                                                     \
            {                                                                      \
                X64T v = ferret_##NAME##_to_##X64(a);                              \
                T* qa = (T*)malloc(sizeof(T)); *qa = a;                            \
                X64T v2 = ferret_##NAME##_to_##X64##_ptr(qa);                      \
                unsigned m = (v2 != v) ? 1u : 0u;                                  \
                if (memcmp(qa, &a, sizeof(T)) != 0) m |= 16;                       \
                free(qa);                                                          \
                out(&v, 8); out1(m);                                               \
            }                                                                      \
            {                                                                      \
                char* s = ferret_##NAME##_to_string(a);                            \
                T* qa = (T*)malloc(sizeof(T)); *qa = a;                            \
                char* s2 = ferret_##NAME##_to_string_ptr(qa);                      \
                unsigned m = 0;                                                    \
                if ((s == NULL) != (s2 == NULL) || (s && s2 && strcmp(s, s2) != 0)) m |= 1; \
                if (memcmp(qa, &a, sizeof(T)) != 0) m |= 16;                       \
                free(qa);                                                          \
                if (!s) {                                                          \
                    out1(255);                                                     \
                } else {                                                           \
                    size_t len = strlen(s);                                        \
                    if (len > 254) len = 254;                                      \
                    out1((unsigned)len); out(s, len);                              \
                }                                                                  \
                out1(m);                                                           \
                free(s); free(s2);                                                 \
            }                                                                      \
            return 1;                                                              \
        }                                                                          \
        case 'F': {                                                                \
            uint16_t len;                                                          \
            if (!in(&len, 2)) return 0;                                            \
            char* s = (char*)malloc((size_t)len + 1); /* exact size: over-reads trap */ \
            if (len && !in(s, len)) return 0;                                      \
            s[len] = '\0';                                                         \
            T r = ferret_##NAME##_from_string(s);                                  \
            T* p = (T*)malloc(sizeof(T)); memset(p, 0xA5, sizeof(T));              \
            ferret_##NAME##_from_string_ptr(s, p);                                 \
            unsigned m = memcmp(p, &r, sizeof(T)) != 0 ? 1u : 0u;                  \
            free(p); free(s);                                                      \
            out(&r, sizeof(T)); out1(m);                                           \
            return 1;                                                              \
        }                                                                          \
        case 'I': {                                                                \
            X64T v;                                                                \
            if (!in(&v, 8)) return 0;                                              \
            T r = ferret_##NAME##_from_##X64(v);                                   \
            T* p = (T*)malloc(sizeof(T)); memset(p, 0xA5, sizeof(T));              \
            ferret_##NAME##_from_##X64##_ptr(v, p);                                \
            unsigned m = memcmp(p, &r, sizeof(T)) != 0 ? 1u : 0u;                  \
            free(p);                                                               \
            out(&r, sizeof(T)); out1(m);                                           \
            return 1;                                                              \
        }                                                                          \
        }                                                                          \
        exit(5);                                                                   \
    }

DEFINE_TYPE(ferret_i128, i128, int64_t, i64, NOT_NO_PTR)
DEFINE_TYPE(ferret_u128, u128, uint64_t, u64, NOT_NO_PTR)
DEFINE_TYPE(ferret_i256, i256, int64_t, i64, NOT_WITH_PTR)
DEFINE_TYPE(ferret_u256, u256, uint64_t, u64, NOT_WITH_PTR)

int main(int argc, char** argv) {
    if (argc > 1 && strcmp(argv[1], "sync") == 0) {
        sync_mode = 1;
    }
    if (argc > 1 && strcmp(argv[1], "limbbits") == 0) {
        printf("%d\n", (int)FERRET_LIMB_BITS);
        return 0;
    }
    static char ibuf[1 << 16], obuf[1 << 16];
    setvbuf(stdin, ibuf, _IOFBF, sizeof ibuf);
    setvbuf(stdout, obuf, _IOFBF, sizeof obuf);
    if (sizeof(ferret_i128) != 16 || sizeof(ferret_u256) != 32) {
        return 6;
    }
    for (;;) {
        unsigned char hdr[2];
        size_t got = fread(hdr, 1, 2, stdin);
        if (got == 0) {
            break;
        }
        if (got != 2) {
            return 3;
        }
        int ok;
        switch (hdr[1]) {
        case 0: ok = do_i128(hdr[0]); break;
        case 1: ok = do_u128(hdr[0]); break;
        case 2: ok = do_i256(hdr[0]); break;
        case 3: ok = do_u256(hdr[0]); break;
        default: return 5;
        }
        if (!ok) {
            return 3;
        }
        if (sync_mode) {
            fflush(stdout);
        }
    }
    fflush(stdout);
    return 0;
}
