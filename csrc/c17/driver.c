/* C17 driver: explicit-state model checking of the Ferret runtime map and dynamic array.
 *
 * The transition function is the REAL runtime code (map.c, array.c, len.c, append.c,
 * optional.c, alloc.c are compiled from the current tree next to this file, under
 * ASan+UBSan).  A state is reached by replaying an operation history on a fresh object;
 * it is canonicalised from the CONCRETE structure (map: bucket count, every chain in
 * order with key / value / cached hash; array: length, capacity, elements) and
 * deduplicated in an exact hash set (the canonical bytes are stored, not only a digest).
 * In EVERY distinct state the full invariant is evaluated against a boring reference
 * model (association list indexed by key id / plain C array): every read operation of the
 * alphabet is executed for every key / index and compared, and the canonical form is
 * recomputed afterwards to prove that the reads were self-loops.  Breadth-first, level by
 * level, no sampling.
 *
 *   driver map   <i32|i64|str|bytes> <vsize> <empty|pre11|pre12|pre24|frompairs> <depth> <codegen_ignores_begin 0|1>
 *   driver array <elem_size> <cap0> <depth>
 *
 * Prints one JSON line.  "transitions" counts every operation executed on the real code
 * (mutating ones, each on a freshly replayed object, plus the read / refused operations
 * evaluated in every state); "mutating" counts only the former.
 */
#define _GNU_SOURCE
#include <inttypes.h>
#include <stdarg.h>
#include <stdbool.h>
#include <stdint.h>
#include <stdio.h>
#include <stdlib.h>
#include <string.h>

#include "array.h"
#include "map.h"

/* public entry points of runtime/libs and core/optional.c, core/alloc.c (no headers) */
int32_t ferret_len_array(void *arr);
int32_t ferret_len_map(void *map);
bool ferret_append_array(void *arr, const void *elem);
void ferret_optional_unwrap_or(const void *opt, const void *default_val, void *out, uint64_t val_size);
void *ferret_alloc(uint64_t size);

void __sanitizer_set_death_callback(void (*cb)(void));

/* ------------------------------------------------------------------ generic pieces */

#define MAXD 24
typedef struct {
    uint16_t root;
    uint8_t depth;
    uint8_t ops[MAXD];
} Node;

static char g_scenario[128];
static const Node *g_cur_node;
static int g_cur_op = -1;
static const char *g_phase = "init";
static int g_is_map;

static uint64_t n_states, n_trans, n_mut, n_viol;
static uint64_t level_new[MAXD + 2];
static int max_depth_reached;
static bool g_fixpoint;

#define NOUT 32
static const char *out_name[NOUT];
static uint64_t out_cnt[NOUT];
static int n_out;
static int outcome_slot(const char *name) {
    for (int i = 0; i < n_out; i++)
        if (out_name[i] == name || strcmp(out_name[i], name) == 0) return i;
    out_name[n_out] = name;
    return n_out++;
}
#define OUTCOME(name)                                  \
    do {                                               \
        static int slot_ = -1;                         \
        if (slot_ < 0) slot_ = outcome_slot(name);     \
        out_cnt[slot_]++;                              \
    } while (0)

/* exact hash set of canonical states */
typedef struct {
    uint64_t h;
    uint32_t off, len;
} Slot;
static Slot *hs_tab;
static size_t hs_cap, hs_n;
static uint8_t *arena;
static size_t arena_len, arena_cap;

static uint64_t hash64(const uint8_t *p, size_t n) {
    uint64_t h = 1469598103934665603ull;
    for (size_t i = 0; i < n; i++) {
        h ^= p[i];
        h *= 1099511628211ull;
    }
    h ^= h >> 29;
    h *= 0xbf58476d1ce4e5b9ull;
    h ^= h >> 32;
    return h ? h : 1;
}
static void hs_grow(void) {
    size_t ncap = hs_cap ? hs_cap * 2 : (1u << 16);
    Slot *nt = calloc(ncap, sizeof(Slot));
    if (!nt) { fprintf(stderr, "driver: out of memory\n"); exit(3); }
    for (size_t i = 0; i < hs_cap; i++) {
        if (!hs_tab[i].h) continue;
        size_t j = hs_tab[i].h & (ncap - 1);
        while (nt[j].h) j = (j + 1) & (ncap - 1);
        nt[j] = hs_tab[i];
    }
    free(hs_tab);
    hs_tab = nt;
    hs_cap = ncap;
}
/* returns true if new */
static bool hs_insert(const uint8_t *p, size_t n) {
    if ((hs_n + 1) * 10 >= hs_cap * 6) hs_grow();
    uint64_t h = hash64(p, n);
    size_t j = h & (hs_cap - 1);
    while (hs_tab[j].h) {
        if (hs_tab[j].h == h && hs_tab[j].len == n && memcmp(arena + hs_tab[j].off, p, n) == 0) return false;
        j = (j + 1) & (hs_cap - 1);
    }
    if (arena_len + n > arena_cap) {
        size_t nc = arena_cap ? arena_cap * 2 : (1u << 20);
        while (nc < arena_len + n) nc *= 2;
        if (nc > 0xffffffffu) { fprintf(stderr, "driver: state arena exceeds 4 GiB\n"); exit(3); }
        arena = realloc(arena, nc);
        if (!arena) { fprintf(stderr, "driver: out of memory\n"); exit(3); }
        arena_cap = nc;
    }
    memcpy(arena + arena_len, p, n);
    hs_tab[j].h = h;
    hs_tab[j].off = (uint32_t)arena_len;
    hs_tab[j].len = (uint32_t)n;
    arena_len += n;
    hs_n++;
    return true;
}

/* BFS queue */
static Node *queue;
static size_t q_len, q_cap;
static void q_push(const Node *n) {
    if (q_len == q_cap) {
        q_cap = q_cap ? q_cap * 2 : 4096;
        queue = realloc(queue, q_cap * sizeof(Node));
        if (!queue) { fprintf(stderr, "driver: out of memory\n"); exit(3); }
    }
    queue[q_len++] = *n;
}

/* value patterns: every byte position differs between the values 1, 2 and 3 (3 = the
 * "default" of unwrap_or) and from the poison bytes 0xCD / 0xA5 / 0xBE */
static void pat(uint8_t *dst, int v, size_t n) {
    for (size_t i = 0; i < n; i++) dst[i] = (uint8_t)(0x10 * v + i + 1);
}
static int valid_of(const uint8_t *p, size_t n) {
    for (int v = 1; v <= 2; v++) {
        size_t i = 0;
        while (i < n && p[i] == (uint8_t)(0x10 * v + i + 1)) i++;
        if (i == n) return v;
    }
    return 0;
}

/* exact-size heap scratch buffers, allocated once (ASan red zones on both sides stay in
 * place for the whole run; allocating them per call only cost time) */
static uint8_t *sb_val, *sb_opt, *sb_res, *sb_elem;
static void *sb_iter;
static uint8_t *exact(size_t n) {
    uint8_t *p = malloc(n ? n : 1);
    if (!p) { fprintf(stderr, "driver: out of memory\n"); exit(3); }
    return p;
}

/* operation names */
static void op_name(const Node *nd, int idx, int op, char *buf, size_t n);
static void root_name(int root, char *buf, size_t n);

static void json_str(FILE *f, const char *s) {
    fputc('"', f);
    for (; *s; s++) {
        unsigned char c = (unsigned char)*s;
        if (c == '"' || c == '\\') fprintf(f, "\\%c", c);
        else if (c < 0x20 || c >= 0x7f) fprintf(f, "\\u%04x", c);
        else fputc(c, f);
    }
    fputc('"', f);
}

static void print_history(FILE *f, const Node *nd, int extra_op) {
    char b[512];
    fputc('[', f);
    root_name(nd ? nd->root : 0, b, sizeof b);
    json_str(f, b);
    if (nd) {
        for (int i = 0; i < nd->depth; i++) {
            op_name(nd, i, nd->ops[i], b, sizeof b);
            fputc(',', f);
            json_str(f, b);
        }
        if (extra_op >= 0) {
            op_name(nd, nd->depth, extra_op, b, sizeof b);
            fputc(',', f);
            json_str(f, b);
        }
    }
    fputc(']', f);
}

#define MAXV 20
typedef struct {
    Node nd;
    int extra_op;
    char what[400];
} Viol;
static Viol viols[MAXV];

__attribute__((format(printf, 3, 4))) static void violation(const Node *nd, int extra_op, const char *fmt, ...) {
    if (n_viol < MAXV) {
        Viol *v = &viols[n_viol];
        v->nd = *nd;
        v->extra_op = extra_op;
        va_list ap;
        va_start(ap, fmt);
        vsnprintf(v->what, sizeof v->what, fmt, ap);
        va_end(ap);
    }
    n_viol++;
}

static void on_death(void) {
    fprintf(stderr, "C17-DEATH {\"scenario\":");
    json_str(stderr, g_scenario);
    fprintf(stderr, ",\"phase\":");
    json_str(stderr, g_phase);
    fprintf(stderr, ",\"history\":");
    print_history(stderr, g_cur_node, g_cur_op);
    fprintf(stderr, ",\"states_so_far\":%" PRIu64 ",\"violations_before_death\":%" PRIu64, n_states, n_viol);
    if (n_viol > 0) {
        fprintf(stderr, ",\"first_violation\":{\"history\":");
        print_history(stderr, &viols[0].nd, viols[0].extra_op);
        fprintf(stderr, ",\"what\":");
        json_str(stderr, viols[0].what);
        fprintf(stderr, "}");
    }
    fprintf(stderr, "}\n");
    fflush(stderr);
}

/* ------------------------------------------------------------------ map scenario */

enum { K_I32, K_I64, K_STR, K_BYTES };
#define NALPHA 8   /* keys 0..7 take part in set operations */
#define PROBE 8    /* key 8 is never inserted; it shares the colliders' bucket */
#define FILL0 9    /* fillers start here */
#define MAXKEYS 64
#define BYTES_KEY 12

static int g_kind;
static size_t g_ksize, g_vsize;
static int g_nfill, g_nkeys;
static int g_ignore_begin;
static const char *g_start;
static bool g_full_collision;

static uint8_t *g_keyA[MAXKEYS]; /* exact-size heap copy used for insertion */
static uint8_t *g_keyB[MAXKEYS]; /* a second, distinct copy used for lookups */
static char *g_strA[MAXKEYS], *g_strB[MAXKEYS];
static uint8_t g_raw[MAXKEYS][48]; /* key content (text for str) */
static size_t g_rawlen[MAXKEYS];
static uint32_t g_hash[MAXKEYS];
static char g_desc[MAXKEYS][64];

typedef struct {
    uint8_t present[MAXKEYS];
    uint8_t val[MAXKEYS];
    int count;
} MModel;

static void mm_set(MModel *mm, int k, int v) {
    if (!mm->present[k]) {
        mm->present[k] = 1;
        mm->count++;
    }
    mm->val[k] = (uint8_t)v;
}

/* candidate n -> key content */
static size_t gen_raw(int kind, uint32_t n, int variant, uint8_t *raw, char *desc, size_t dn) {
    switch (kind) {
    case K_I32: {
        uint32_t v = n * 0x9E3779B1u; /* spread over all four bytes; n=0 -> 0 */
        if (variant) v ^= 0x01000000u; /* same low 3 bytes */
        memcpy(raw, &v, 4);
        if (desc) snprintf(desc, dn, "i32:%" PRId32, (int32_t)v);
        return 4;
    }
    case K_I64: {
        uint64_t v = (uint64_t)n * 0x9E3779B97F4A7C15ull; /* spread over all eight bytes; n=0 -> 0 */
        if (variant) v ^= 1ull << 32; /* same low 4 bytes */
        memcpy(raw, &v, 8);
        if (desc) snprintf(desc, dn, "i64:%" PRId64, (int64_t)v);
        return 8;
    }
    case K_STR: {
        if (n == 0) raw[0] = 0;
        else snprintf((char *)raw, 40, "k%u%s", n, variant ? "~" : ""); /* variant: proper extension */
        if (desc) snprintf(desc, dn, "str:'%s'", (char *)raw);
        return strlen((char *)raw) + 1;
    }
    default: {
        uint32_t a = n, b = n * 2654435761u, c = n % 251u;
        if (n == 0) a = b = c = 0;
        memcpy(raw, &a, 4);
        memcpy(raw + 4, &b, 4);
        memcpy(raw + 8, &c, 4);
        if (variant) raw[11] ^= 0x80; /* same first 11 bytes */
        if (desc) {
            int o = snprintf(desc, dn, "bytes:");
            for (int i = 0; i < BYTES_KEY; i++) o += snprintf(desc + o, dn - (size_t)o, "%02x", raw[i]);
        }
        return BYTES_KEY;
    }
    }
}

static uint32_t real_hash_raw(int kind, const uint8_t *raw) {
    switch (kind) {
    case K_I32: return ferret_map_hash_i32(raw, 4);
    case K_I64: return ferret_map_hash_i64(raw, 8);
    case K_STR: {
        const char *p = (const char *)raw;
        return ferret_map_hash_str(&p, sizeof(char *));
    }
    default: return ferret_map_hash_bytes(raw, BYTES_KEY);
    }
}

static void install_key(int id, uint32_t n, int variant) {
    g_rawlen[id] = gen_raw(g_kind, n, variant, g_raw[id], g_desc[id], sizeof g_desc[id]);
    g_hash[id] = real_hash_raw(g_kind, g_raw[id]);
    if (g_kind == K_STR) {
        g_strA[id] = malloc(g_rawlen[id]);
        g_strB[id] = malloc(g_rawlen[id]);
        memcpy(g_strA[id], g_raw[id], g_rawlen[id]);
        memcpy(g_strB[id], g_raw[id], g_rawlen[id]);
        g_keyA[id] = malloc(sizeof(char *));
        g_keyB[id] = malloc(sizeof(char *));
        memcpy(g_keyA[id], &g_strA[id], sizeof(char *));
        memcpy(g_keyB[id], &g_strB[id], sizeof(char *));
    } else {
        g_keyA[id] = malloc(g_ksize);
        g_keyB[id] = malloc(g_ksize);
        memcpy(g_keyA[id], g_raw[id], g_ksize);
        memcpy(g_keyB[id], g_raw[id], g_ksize);
    }
    size_t l = strlen(g_desc[id]);
    snprintf(g_desc[id] + l, sizeof g_desc[id] - l, " h=%08x", g_hash[id]);
}

/* start-up search of the key alphabet (uses the runtime's own hash functions):
 * k0 zero/empty; k1..k4 share a bucket at 16, 32 and 64 buckets (k1,k2 even share the full
 * 32-bit hash when such a pair exists among the candidates); k5 shares that bucket at 16
 * buckets only; k6,k7 have equal low bytes / common prefix; k8 (probe) sits in the
 * colliders' bucket and is never inserted. */
#define NMAX (1u << 21)   /* candidates tried at most for the full-hash collision */
#define NSCAN 100000u     /* candidates always hashed (bucket searches) */
static uint32_t NCAND;
static void choose_keys(void) {
    uint32_t *hh = malloc(sizeof(uint32_t) * (NMAX + 1));
    uint32_t tcap = 1u << 19;
    uint32_t *tab = calloc(tcap, sizeof(uint32_t)); /* open addressing: candidate number by hash */
    if (!hh || !tab) { fprintf(stderr, "driver: out of memory\n"); exit(3); }
    uint8_t raw[48];
    uint32_t a = 0, b = 0, n;
    /* candidates in ascending order; stop at the first one whose full 32-bit hash equals
     * that of an earlier candidate */
    for (n = 1; n <= NMAX && !a; n++) {
        if (n > tcap / 2) { /* grow the table */
            uint32_t nc2 = tcap * 2;
            uint32_t *t2 = calloc(nc2, sizeof(uint32_t));
            if (!t2) { fprintf(stderr, "driver: out of memory\n"); exit(3); }
            for (uint32_t i = 0; i < tcap; i++) {
                if (!tab[i]) continue;
                uint32_t j2 = (hh[tab[i]] * 2654435761u) & (nc2 - 1);
                while (t2[j2]) j2 = (j2 + 1) & (nc2 - 1);
                t2[j2] = tab[i];
            }
            free(tab);
            tab = t2;
            tcap = nc2;
        }
        gen_raw(g_kind, n, 0, raw, NULL, 0);
        uint32_t h = real_hash_raw(g_kind, raw);
        hh[n] = h;
        uint32_t j = (h * 2654435761u) & (tcap - 1);
        while (tab[j]) {
            if (hh[tab[j]] == h) { a = tab[j]; b = n; break; }
            j = (j + 1) & (tcap - 1);
        }
        if (!a) tab[j] = n;
    }
    for (; n <= NSCAN; n++) {
        gen_raw(g_kind, n, 0, raw, NULL, 0);
        hh[n] = real_hash_raw(g_kind, raw);
    }
    NCAND = n - 1;
    free(tab);
    uint32_t used[16];
    int nu = 0;
    uint32_t col[5];
    int nc = 0;
    if (a) {
        g_full_collision = true;
        col[nc++] = a;
        col[nc++] = b;
    } else {
        col[nc++] = 1;
    }
    uint32_t hb = hh[col[0]];
    for (uint32_t n = 1; n <= NCAND && nc < 5; n++) {
        if (hh[n] % 64 != hb % 64) continue;
        bool dup = false;
        for (int i = 0; i < nc; i++) dup |= col[i] == n;
        if (!dup) col[nc++] = n;
    }
    uint32_t x = 0, l1 = 0;
    for (uint32_t n = 1; n <= NCAND && !x; n++)
        if (hh[n] % 16 == hb % 16 && hh[n] % 32 != hb % 32) x = n;
    for (uint32_t n = 1; n <= NCAND && !l1; n++)
        if (hh[n] % 16 != hb % 16) l1 = n;
    if (nc < 5 || !x || !l1) { fprintf(stderr, "driver: key search failed\n"); exit(3); }
    install_key(0, 0, 0);
    for (int i = 0; i < 4; i++) install_key(1 + i, col[i], 0);
    install_key(5, x, 0);
    install_key(6, l1, 0);
    install_key(7, l1, 1);
    install_key(PROBE, col[4], 0);
    for (int i = 0; i < 5; i++) used[nu++] = col[i];
    used[nu++] = x;
    used[nu++] = l1;
    n = 1000;
    for (int f = 0; f < g_nfill; f++) {
        for (;; n++) {
            bool u = false;
            for (int i = 0; i < nu; i++) u |= used[i] == n;
            if (!u) break;
        }
        install_key(FILL0 + f, n++, 0);
    }
    free(hh);
    g_nkeys = FILL0 + g_nfill;
    for (int i = 0; i < g_nkeys; i++)
        for (int j = i + 1; j < g_nkeys; j++)
            if (g_rawlen[i] == g_rawlen[j] && memcmp(g_raw[i], g_raw[j], g_rawlen[i]) == 0) {
                fprintf(stderr, "driver: key alphabet not pairwise distinct (%d,%d)\n", i, j);
                exit(3);
            }
}

static int key_id_of(const void *stored) {
    /* identify a key stored in the map by its content */
    for (int k = 0; k < g_nkeys; k++) {
        if (g_kind == K_STR) {
            const char *p;
            memcpy(&p, stored, sizeof p);
            if (p == g_strA[k] || p == g_strB[k]) return k;
        } else if (memcmp(stored, g_raw[k], g_ksize) == 0) {
            return k;
        }
    }
    return -1;
}

static ferret_map_t *map_new_kind(void) {
    switch (g_kind) {
    case K_I32: return ferret_map_new_i32(g_ksize, g_vsize);
    case K_I64: return ferret_map_new_i64(g_ksize, g_vsize);
    case K_STR: return ferret_map_new_str(g_ksize, g_vsize);
    default: return ferret_map_new_bytes(g_ksize, g_vsize);
    }
}

/* from_pairs scenario: fixed pair list with duplicate keys */
#define NPAIRS 40
static int fp_key[NPAIRS], fp_val[NPAIRS];
static void build_pair_list(void) {
    int f = 0, al = 0;
    for (int j = 0; j < NPAIRS; j++) {
        if (j == 3) { fp_key[j] = 0; fp_val[j] = 2; }                    /* duplicate of k0 (j=1), other value */
        else if (j == 13) { fp_key[j] = FILL0; fp_val[j] = 2; }           /* duplicate of the first filler */
        else if (j == 28) { fp_key[j] = 1; fp_val[j] = 2; }               /* duplicate of k1 after a pre-sizing step */
        else if (j % 5 == 1 && al < NALPHA) { fp_key[j] = al; fp_val[j] = 1; al++; }
        else { fp_key[j] = FILL0 + f; fp_val[j] = 1 + (f % 2); f++; }
    }
    g_nfill = f;
}

static bool g_frompairs;

static ferret_map_t *map_build_root(int root, MModel *mm) {
    memset(mm, 0, sizeof *mm);
    uint8_t vb[32];
    if (!g_frompairs) {
        ferret_map_t *m = map_new_kind();
        if (!m) { fprintf(stderr, "driver: map_new failed\n"); exit(3); }
        for (int f = 0; f < g_nfill; f++) {
            int v = 1 + (f % 2);
            pat(vb, v, g_vsize);
            if (!ferret_map_set(m, g_keyA[FILL0 + f], vb)) { fprintf(stderr, "driver: prefill set failed\n"); exit(3); }
            mm_set(mm, FILL0 + f, v);
        }
        return m;
    }
    size_t n = (size_t)root;
    /* exact-size arrays so that any over-read is caught */
    uint8_t *keys = malloc(n * g_ksize ? n * g_ksize : 1);
    uint8_t *vals = malloc(n * g_vsize ? n * g_vsize : 1);
    for (size_t j = 0; j < n; j++) {
        memcpy(keys + j * g_ksize, g_keyA[fp_key[j]], g_ksize);
        pat(vals + j * g_vsize, fp_val[j], g_vsize);
        mm_set(mm, fp_key[j], fp_val[j]);
    }
    ferret_map_t *m;
    switch (g_kind) {
    case K_I32: m = ferret_map_from_pairs_i32(g_ksize, g_vsize, keys, vals, n); break;
    case K_I64: m = ferret_map_from_pairs_i64(g_ksize, g_vsize, keys, vals, n); break;
    case K_STR: m = ferret_map_from_pairs_str(g_ksize, g_vsize, keys, vals, n); break;
    default: m = ferret_map_from_pairs_bytes(g_ksize, g_vsize, keys, vals, n); break;
    }
    free(keys);
    free(vals);
    if (!m) { fprintf(stderr, "driver: from_pairs failed\n"); exit(3); }
    return m;
}

/* apply set op on real map + model; returns false when the runtime reported failure */
static bool map_apply(ferret_map_t *m, MModel *mm, int op, bool *resized) {
    int k = op >> 1, v = 1 + (op & 1);
    uint8_t *vb = sb_val; /* exact size: over-read is caught */
    pat(vb, v, g_vsize);
    size_t bc = m->bucket_count;
    bool ok = ferret_map_set(m, g_keyA[k], vb);
    if (resized) *resized = m->bucket_count != bc;
    mm_set(mm, k, v);
    return ok;
}

static ferret_map_t *map_replay(const Node *nd, MModel *mm) {
    ferret_map_t *m = map_build_root(nd->root, mm);
    for (int i = 0; i < nd->depth; i++) map_apply(m, mm, nd->ops[i], NULL);
    return m;
}

/* canonical form of the concrete structure. Encoding: bucket_count, size, then per
 * non-empty bucket its index and the chain in order; each entry = key id, value id and
 * (only when it differs from the key's true hash) the cached hash. Keys / values that are
 * not those of the alphabet are embedded raw (and are an invariant violation). */
static uint8_t canon_buf[2][1 << 16];
static size_t map_canon(const ferret_map_t *m, uint8_t *out, size_t cap, const Node *nd, int extra_op, bool report) {
    size_t o = 0;
    uint32_t bc = (uint32_t)m->bucket_count, sz = (uint32_t)m->size;
    memcpy(out + o, &bc, 4); o += 4;
    memcpy(out + o, &sz, 4); o += 4;
    if (m->bucket_count > (1u << 20) || m->buckets == NULL) {
        if (report) violation(nd, extra_op, "map structure: bucket_count=%zu buckets=%p", m->bucket_count, (void *)m->buckets);
        return o;
    }
    size_t visited = 0;
    for (size_t b = 0; b < m->bucket_count; b++) {
        const ferret_map_entry_t *e = m->buckets[b];
        if (!e) continue;
        uint16_t bi = (uint16_t)b;
        memcpy(out + o, &bi, 2); o += 2;
        for (; e; e = e->next) {
            if (++visited > m->size + 64 || o + 128 > cap) {
                if (report) violation(nd, extra_op, "map structure: chains hold more than size+64 entries (cycle?) size=%zu", m->size);
                return o;
            }
            int k = key_id_of(e->key);
            if (k < 0) {
                out[o++] = 0xFE;
                memcpy(out + o, e->key, g_ksize); o += g_ksize;
                if (report) violation(nd, extra_op, "map holds a key that was never inserted (bucket %zu)", b);
            } else {
                out[o++] = (uint8_t)k;
            }
            int v = valid_of(e->value, g_vsize);
            if (v == 0) {
                out[o++] = 0xFE;
                memcpy(out + o, e->value, g_vsize); o += g_vsize;
            } else {
                out[o++] = (uint8_t)v;
            }
            if (k < 0 || e->hash != g_hash[k]) {
                out[o++] = 0xFD;
                memcpy(out + o, &e->hash, 4); o += 4;
            }
        }
        out[o++] = 0xFF;
    }
    return o;
}

static void map_iterate(const ferret_map_t *m, const MModel *mm, const Node *nd, ferret_map_iter_t *it, const char *proto) {
    /* `it` was initialised by iter_begin; drive iter_next the way generated code does:
     * while (next(&k,&v)) visit(k,v) */
    uint8_t seen[MAXKEYS];
    memset(seen, 0, sizeof seen);
    size_t n = 0;
    uint8_t pv[32];
    for (;;) {
        void *kp = NULL, *vp = NULL;
        n_trans++;
        if (!ferret_map_iter_next(m, it, &kp, &vp)) break;
        n++;
        OUTCOME("map:iter-entry");
        if (n > (size_t)mm->count + 2) {
            violation(nd, -1, "iterate(%s): more than size+2 entries yielded (size %d)", proto, mm->count);
            return;
        }
        if (!kp || !vp) {
            violation(nd, -1, "iterate(%s): iter_next returned true with key=%p value=%p", proto, kp, vp);
            return;
        }
        int k = key_id_of(kp);
        if (k < 0) {
            violation(nd, -1, "iterate(%s): yielded a key that is not in the map", proto);
            continue;
        }
        seen[k]++;
        if (!mm->present[k]) {
            violation(nd, -1, "iterate(%s): yielded absent key k%d (%s)", proto, k, g_desc[k]);
            continue;
        }
        pat(pv, mm->val[k], g_vsize);
        if (memcmp(vp, pv, g_vsize) != 0)
            violation(nd, -1, "iterate(%s): key k%d yielded with a value other than the one last stored (v%d)", proto, k, mm->val[k]);
    }
    if (n != (size_t)mm->count) violation(nd, -1, "iterate(%s): %zu entries yielded, map holds %d", proto, n, mm->count);
    for (int k = 0; k < g_nkeys; k++) {
        if (mm->present[k] && seen[k] != 1)
            violation(nd, -1, "iterate(%s): key k%d (%s) yielded %d times", proto, k, g_desc[k], seen[k]);
    }
}

/* the full invariant; every read op of the alphabet for every key */
static void map_check_state(ferret_map_t *m, const MModel *mm, const Node *nd) {
    g_phase = "invariant";
    size_t c1 = map_canon(m, canon_buf[0], sizeof canon_buf[0], nd, -1, true);
    uint8_t pv[32], dv[32];
    pat(dv, 3, g_vsize);
    for (int k = 0; k < g_nkeys; k++) {
        const void *key = g_keyB[k];
        bool present = mm->present[k];
        if (present) pat(pv, mm->val[k], g_vsize);
        /* get */
        void *p = ferret_map_get(m, key);
        n_trans++;
        if (present) {
            if (!p) violation(nd, -1, "get(k%d %s) = absent, reference holds v%d", k, g_desc[k], mm->val[k]);
            else if (memcmp(p, pv, g_vsize) != 0) violation(nd, -1, "get(k%d %s) returns other bytes than the value last stored (v%d)", k, g_desc[k], mm->val[k]);
            else OUTCOME("map:get-hit");
        } else {
            if (p) violation(nd, -1, "get(k%d %s) = present, reference says absent", k, g_desc[k]);
            else OUTCOME("map:get-miss");
        }
        /* has */
        bool h = ferret_map_has(m, key);
        n_trans++;
        if (h != present) violation(nd, -1, "has(k%d %s) = %d, reference %d", k, g_desc[k], h, present);
        else if (h) OUTCOME("map:has-true");
        else OUTCOME("map:has-false");
        /* get_optional */
        ferret_map_get_result_t r = ferret_map_get_optional(m, key);
        n_trans++;
        if ((r.is_some != 0) != present || (present && r.value_ptr != p) || (!present && r.is_some != 0))
            violation(nd, -1, "get_optional(k%d %s): is_some=%d value_ptr %s get()", k, g_desc[k], r.is_some, r.value_ptr == p ? "==" : "!=");
        /* get_optional_out into a buffer of exactly value_size+1 bytes (ASan red zones
         * on both sides are the canaries; they are stricter than in-band canaries) */
        uint8_t *ob = sb_opt;
        memset(ob, 0xCD, g_vsize + 1);
        ferret_map_get_optional_out(m, key, ob);
        n_trans++;
        if (present) {
            if (ob[g_vsize] != 1) violation(nd, -1, "get_optional_out(k%d): flag byte %u for a present key", k, ob[g_vsize]);
            else if (memcmp(ob, pv, g_vsize) != 0) violation(nd, -1, "get_optional_out(k%d): value bytes differ from the value last stored", k);
            else OUTCOME("map:optional-some");
        } else {
            if (ob[g_vsize] != 0) violation(nd, -1, "get_optional_out(k%d): flag byte %u for an absent key", k, ob[g_vsize]);
            else OUTCOME("map:optional-none");
        }
        /* optional.c: unwrap with default (the `m[k] ?? d` path) */
        if (ob[g_vsize] <= 1) {
            uint8_t *res = sb_res;
            memset(res, 0xCD, g_vsize);
            ferret_optional_unwrap_or(ob, dv, res, g_vsize);
            n_trans++;
            if (memcmp(res, present ? pv : dv, g_vsize) != 0)
                violation(nd, -1, "optional_unwrap_or after get_optional_out(k%d): result is not %s", k, present ? "the stored value" : "the default");
        }
    }
    /* size */
    size_t sz = ferret_map_size(m);
    int32_t ln = ferret_len_map(m);
    n_trans += 2;
    if (sz != (size_t)mm->count) violation(nd, -1, "size() = %zu, reference holds %d distinct keys", sz, mm->count);
    if (ln != mm->count) violation(nd, -1, "len(map) = %d, reference holds %d distinct keys", ln, mm->count);
    OUTCOME("map:size");
    /* iterate, API contract: use the result of iter_begin */
    {
        ferret_map_iter_t *it = sb_iter;
        memset(it, 0xA5, sizeof *it);
        bool b = ferret_map_iter_begin(m, it);
        n_trans++;
        if (!b) {
            if (mm->count != 0) violation(nd, -1, "iter_begin = false on a map holding %d keys", mm->count);
            else OUTCOME("map:iter-empty");
        } else {
            map_iterate(m, mm, nd, it, "contract");
        }
    }
    /* iterate, the call sequence emitted by the compiler (internal/mir/gen/builder.go
     * lowerMapIterInit / lowerMapIterNext, hir/lower lowerMapFor): the iterator is an
     * uninitialised stack slot, the result of iter_begin is discarded, then
     * while (iter_next(...)) { body }.  The slot is poisoned here; if iter_begin leaves
     * it untouched, iter_next would follow an indeterminate pointer - reported instead
     * of executed. */
    if (g_ignore_begin) {
        ferret_map_iter_t *it = sb_iter;
        memset(it, 0xA5, sizeof *it);
        (void)ferret_map_iter_begin(m, it);
        n_trans++;
        ferret_map_iter_t poison;
        memset(&poison, 0xA5, sizeof poison);
        if (memcmp(&it->entry, &poison.entry, sizeof it->entry) == 0) {
            violation(nd, -1,
                      "iterate(codegen protocol): iter_begin left the caller's iterator uninitialised (map size %d); generated code ignores its result and calls iter_next, which dereferences the indeterminate iter->entry",
                      mm->count);
            OUTCOME("map:iter-uninitialised");
        } else {
            map_iterate(m, mm, nd, it, "codegen");
        }
    }
    /* the reads must be self-loops */
    size_t c2 = map_canon(m, canon_buf[1], sizeof canon_buf[1], nd, -1, false);
    if (c1 != c2 || memcmp(canon_buf[0], canon_buf[1], c1) != 0) violation(nd, -1, "read operations changed the concrete map structure");
}

static void map_root_name(int root, char *buf, size_t n) {
    if (g_frompairs) {
        int o = snprintf(buf, n, "from_pairs(n=%d:", root);
        for (int j = 0; j < root && (size_t)o + 12 < n; j++) {
            if (fp_key[j] >= FILL0) o += snprintf(buf + o, n - (size_t)o, " f%d=%d", fp_key[j] - FILL0, fp_val[j]);
            else o += snprintf(buf + o, n - (size_t)o, " k%d=%d", fp_key[j], fp_val[j]);
        }
        snprintf(buf + o, n - (size_t)o, ")");
    } else {
        snprintf(buf, n, "new+prefill(%d fillers)", g_nfill);
    }
}

static int run_map(int argc, char **argv) {
    if (argc < 7) return 2;
    const char *kind = argv[2];
    g_vsize = (size_t)atoi(argv[3]);
    g_start = argv[4];
    int depth = atoi(argv[5]);
    g_ignore_begin = atoi(argv[6]);
    if (depth > MAXD) depth = MAXD;
    if (g_vsize < 1 || g_vsize > 24) return 2;
    if (!strcmp(kind, "i32")) { g_kind = K_I32; g_ksize = 4; }
    else if (!strcmp(kind, "i64")) { g_kind = K_I64; g_ksize = 8; }
    else if (!strcmp(kind, "str")) { g_kind = K_STR; g_ksize = sizeof(char *); }
    else if (!strcmp(kind, "bytes")) { g_kind = K_BYTES; g_ksize = BYTES_KEY; }
    else return 2;
    int nroots = 1;
    if (!strcmp(g_start, "empty")) g_nfill = 0;
    else if (!strcmp(g_start, "pre11")) g_nfill = 11;
    else if (!strcmp(g_start, "pre12")) g_nfill = 12;
    else if (!strcmp(g_start, "pre24")) g_nfill = 24;
    else if (!strcmp(g_start, "frompairs")) { g_frompairs = true; build_pair_list(); nroots = NPAIRS + 1; }
    else return 2;
    snprintf(g_scenario, sizeof g_scenario, "map-%s-v%zu-%s", kind, g_vsize, g_start);
    g_is_map = 1;
    sb_val = exact(g_vsize);
    sb_opt = ferret_alloc(g_vsize + 1); /* core/alloc.c */
    sb_res = exact(g_vsize);
    sb_iter = exact(sizeof(ferret_map_iter_t));
    choose_keys();

    /* roots */
    MModel mm;
    Node nd;
    size_t level_start = 0;
    for (int r = 0; r < nroots; r++) {
        memset(&nd, 0, sizeof nd);
        nd.root = (uint16_t)(g_frompairs ? r : 0);
        g_cur_node = &nd;
        g_cur_op = -1;
        g_phase = "build-root";
        ferret_map_t *m = map_build_root(nd.root, &mm);
        if (g_frompairs) { n_trans++; n_mut++; OUTCOME("map:from_pairs"); if (m->bucket_count > 16) OUTCOME("map:from_pairs-presized"); }
        size_t cl = map_canon(m, canon_buf[0], sizeof canon_buf[0], &nd, -1, false);
        if (hs_insert(canon_buf[0], cl)) { q_push(&nd); level_new[0]++; }
        ferret_map_destroy(m);
    }
    for (int d = 0; d <= depth; d++) {
        size_t level_end = q_len;
        if (level_end == level_start) { g_fixpoint = true; break; }
        max_depth_reached = d;
        for (size_t qi = level_start; qi < level_end; qi++) {
            nd = queue[qi];
            g_cur_node = &nd;
            g_cur_op = -1;
            g_phase = "replay";
            ferret_map_t *m = map_replay(&nd, &mm);
            n_states++;
            map_check_state(m, &mm, &nd);
            ferret_map_destroy(m);
            if (d == depth) continue;
            for (int op = 0; op < 2 * NALPHA; op++) {
                g_cur_op = op;
                g_phase = "replay";
                m = map_replay(&nd, &mm);
                bool was = mm.present[op >> 1], resized = false;
                g_phase = "transition";
                bool ok = map_apply(m, &mm, op, &resized);
                n_trans++;
                n_mut++;
                if (!ok) violation(&nd, op, "set returned false");
                if (was) OUTCOME("map:set-update"); else OUTCOME("map:set-insert");
                if (resized) OUTCOME("map:resized");
                /* immediate post-condition of the transition */
                uint8_t pv[32];
                pat(pv, 1 + (op & 1), g_vsize);
                void *p = ferret_map_get(m, g_keyB[op >> 1]);
                if (!p || memcmp(p, pv, g_vsize) != 0) violation(&nd, op, "get of the key just stored does not return the value just stored");
                size_t cl = map_canon(m, canon_buf[0], sizeof canon_buf[0], &nd, op, false);
                if (hs_insert(canon_buf[0], cl)) {
                    Node ch = nd;
                    ch.ops[ch.depth++] = (uint8_t)op;
                    q_push(&ch);
                    level_new[d + 1]++;
                }
                g_phase = "destroy";
                ferret_map_destroy(m);
            }
        }
        level_start = level_end;
    }
    return (int)(q_len - level_start); /* unexplored frontier (0 = fixpoint) */
}

/* ------------------------------------------------------------------ array scenario */

static size_t g_esize;
static int g_cap0;

typedef struct {
    int n;
    uint8_t v[MAXD + 1];
} AModel;

/* op encoding: 0,1 = append(1|2); 2+2*j+(v-1) = set(index(j), v) with
 * j in [0,99] -> index j-1 (so -1 .. len), j=100 -> capacity, 101 -> INT32_MAX,
 * 102 -> INT32_MIN, 103 -> capacity-1 */
static int32_t a_index(int j, const ferret_array_t *a) {
    if (j < 100) return j - 1;
    if (j == 100) return a->capacity;
    if (j == 101) return INT32_MAX;
    if (j == 102) return INT32_MIN;
    return a->capacity - 1;
}

static ferret_array_t *arr_new(void) {
    ferret_array_t *a = ferret_array_new(g_esize, g_cap0);
    if (!a) { fprintf(stderr, "driver: array_new failed\n"); exit(3); }
    return a;
}

/* resize ops: 200+k, k = 0..6 -> new capacity -1, 0, len-1, len, len+1, capacity, 2*capacity+1.
 * The abstract list does not change; the call is refused exactly for a negative capacity and
 * the capacity afterwards is max(requested, length). */
#define RESIZE_OP0 200
#define RESIZE_OPS 7
static int32_t resize_target(int k, const ferret_array_t *a) {
    switch (k) {
    case 0: return -1;
    case 1: return 0;
    case 2: return a->length - 1;
    case 3: return a->length;
    case 4: return a->length + 1;
    case 5: return a->capacity;
    default: return 2 * a->capacity + 1;
    }
}

static const Node *g_apply_node; /* for violations raised inside arr_apply */

static bool arr_apply(ferret_array_t *a, AModel *am, int op, bool *grew) {
    uint8_t *eb = sb_elem; /* exact size */
    bool ok;
    if (op >= RESIZE_OP0) {
        int32_t t = resize_target(op - RESIZE_OP0, a);
        int32_t len0 = a->length;
        ok = ferret_array_resize(a, t);
        if (grew) *grew = false;
        if (t < 0) return !ok; /* must be refused: report "true" (= as expected) iff it was */
        if (ok && g_apply_node) {
            int32_t want = t < len0 ? len0 : t;
            if (a->capacity != want) violation(g_apply_node, op, "resize(%d) left capacity %d, length is %d", t, a->capacity, len0);
            if (a->length != len0) violation(g_apply_node, op, "resize(%d) changed the length from %d to %d", t, len0, a->length);
            if (a->capacity > 0 && a->data == NULL) violation(g_apply_node, op, "resize(%d) left no storage for capacity %d", t, a->capacity);
        }
        return ok;
    }
    if (op < 2) {
        int v = op + 1;
        pat(eb, v, g_esize);
        int32_t c = a->capacity;
        ok = ferret_append_array(a, eb); /* libs/append.c -> core ferret_array_append */
        if (grew) *grew = a->capacity != c;
        am->v[am->n++] = (uint8_t)v;
    } else {
        int j = (op - 2) >> 1, v = 1 + ((op - 2) & 1);
        int32_t i = a_index(j, a);
        pat(eb, v, g_esize);
        ok = ferret_array_set(a, i, eb);
        if (i >= 0 && i < am->n) am->v[i] = (uint8_t)v;
    }
    return ok;
}

static ferret_array_t *arr_replay(const Node *nd, AModel *am) {
    ferret_array_t *a = arr_new();
    am->n = 0;
    for (int i = 0; i < nd->depth; i++) arr_apply(a, am, nd->ops[i], NULL);
    return a;
}

static size_t arr_canon(const ferret_array_t *a, uint8_t *out, size_t cap) {
    size_t o = 0;
    memcpy(out + o, &a->length, 4); o += 4;
    memcpy(out + o, &a->capacity, 4); o += 4;
    uint32_t es = (uint32_t)a->elem_size;
    memcpy(out + o, &es, 4); o += 4;
    /* only a sane prefix is read: never beyond the capacity the structure claims */
    int32_t n = a->length;
    if (n < 0 || n > a->capacity || a->data == NULL) return o;
    for (int32_t i = 0; i < n && o + 64 < cap; i++) {
        const uint8_t *e = (const uint8_t *)a->data + (size_t)i * g_esize;
        int v = valid_of(e, g_esize);
        if (v) out[o++] = (uint8_t)v;
        else {
            out[o++] = 0xFE;
            memcpy(out + o, e, g_esize); o += g_esize;
        }
    }
    return o;
}

static void arr_check_state(ferret_array_t *a, const AModel *am, const Node *nd) {
    g_phase = "invariant";
    size_t c1 = arr_canon(a, canon_buf[0], sizeof canon_buf[0]);
    int32_t l1 = ferret_array_len(a), l2 = ferret_len_array(a), cp = ferret_array_cap(a);
    n_trans += 3;
    OUTCOME("array:len");
    if (l1 != am->n || l2 != am->n) violation(nd, -1, "len = %d (len(arr) = %d), %d appends were made", l1, l2, am->n);
    if (cp < l1) violation(nd, -1, "capacity %d < length %d", cp, l1);
    if (l1 != am->n || cp < l1) return; /* do not walk a structure whose shape is wrong */
    uint8_t pv[32];
    /* every index of [-1, len] plus far-out ones */
    int32_t idx[MAXD + 8];
    int ni = 0;
    for (int32_t i = -1; i <= am->n; i++) idx[ni++] = i;
    idx[ni++] = am->n + 1;
    idx[ni++] = a->capacity - 1;
    idx[ni++] = a->capacity;
    idx[ni++] = INT32_MAX;
    idx[ni++] = INT32_MIN;
    for (int q = 0; q < ni; q++) {
        int32_t i = idx[q];
        void *p = ferret_array_get(a, i);
        n_trans++;
        if (i >= 0 && i < am->n) {
            pat(pv, am->v[i], g_esize);
            if (!p) violation(nd, -1, "get(%d) refused, length is %d", i, am->n);
            else if (p != (char *)a->data + (size_t)i * g_esize) violation(nd, -1, "get(%d) does not point at element %d", i, i);
            else if (memcmp(p, pv, g_esize) != 0) violation(nd, -1, "get(%d) holds other bytes than the value appended/set there (v%d)", i, am->v[i]);
            else OUTCOME("array:get-ok");
        } else {
            if (p) violation(nd, -1, "get(%d) not refused, length is %d (capacity %d)", i, am->n, a->capacity);
            else OUTCOME("array:get-refused");
        }
    }
    /* refused sets, evaluated in place: must return false and leave every byte of the
     * allocation (also the part between length and capacity) unchanged */
    size_t bytes = (size_t)a->capacity * g_esize;
    uint8_t *snap = malloc(bytes ? bytes : 1);
    if (bytes) memcpy(snap, a->data, bytes);
    void *data0 = a->data;
    for (int q = 0; q < ni; q++) {
        int32_t i = idx[q];
        if (i >= 0 && i < am->n) continue;
        for (int v = 1; v <= 2; v++) {
            uint8_t *eb = sb_elem;
            pat(eb, v, g_esize);
            bool ok = ferret_array_set(a, i, eb);
            n_trans++;
            if (ok) violation(nd, -1, "set(%d,v%d) not refused, length is %d (capacity %d)", i, v, am->n, a->capacity);
            else OUTCOME("array:set-refused");
            if (a->data != data0 || a->length != am->n || a->capacity != cp || (bytes && memcmp(a->data, snap, bytes) != 0)) {
                violation(nd, -1, "refused set(%d,v%d) changed the array", i, v);
                size_t nb = (size_t)a->capacity * g_esize <= bytes ? (size_t)a->capacity * g_esize : bytes;
                if (nb && a->data) memcpy(snap, a->data, nb);
            }
        }
    }
    free(snap);
    size_t c2 = arr_canon(a, canon_buf[1], sizeof canon_buf[1]);
    if (c1 != c2 || memcmp(canon_buf[0], canon_buf[1], c1) != 0) violation(nd, -1, "read/refused operations changed the array");
}

static int run_array(int argc, char **argv) {
    if (argc < 5) return 2;
    g_esize = (size_t)atoi(argv[2]);
    g_cap0 = atoi(argv[3]);
    int depth = atoi(argv[4]);
    if (depth > MAXD) depth = MAXD;
    if (g_esize < 1 || g_esize > 24) return 2;
    snprintf(g_scenario, sizeof g_scenario, "array-e%zu-cap%d", g_esize, g_cap0);
    sb_elem = exact(g_esize);
    AModel am;
    Node nd;
    memset(&nd, 0, sizeof nd);
    g_cur_node = &nd;
    g_phase = "build-root";
    ferret_array_t *a = arr_new();
    size_t cl = arr_canon(a, canon_buf[0], sizeof canon_buf[0]);
    hs_insert(canon_buf[0], cl);
    q_push(&nd);
    level_new[0]++;
    ferret_array_destroy(a);
    size_t level_start = 0;
    for (int d = 0; d <= depth; d++) {
        size_t level_end = q_len;
        if (level_end == level_start) { g_fixpoint = true; break; }
        max_depth_reached = d;
        for (size_t qi = level_start; qi < level_end; qi++) {
            nd = queue[qi];
            g_cur_node = &nd;
            g_cur_op = -1;
            g_phase = "replay";
            a = arr_replay(&nd, &am);
            n_states++;
            arr_check_state(a, &am, &nd);
            ferret_array_destroy(a);
            if (d == depth) continue;
            int len = am.n;
            /* mutating ops: 2 appends + in-range sets (out-of-range sets were evaluated
             * in place above; they are self-loops) */
            for (int op = 0; op < 2 + 2 * (len + 1); op++) {
                if (op >= 2 && ((op - 2) >> 1) == 0) continue; /* j=0 is index -1: refused, done above */
                g_cur_op = op;
                g_phase = "replay";
                a = arr_replay(&nd, &am);
                bool grew = false;
                g_phase = "transition";
                bool ok = arr_apply(a, &am, op, &grew);
                n_trans++;
                n_mut++;
                if (!ok) violation(&nd, op, "%s returned false", op < 2 ? "append" : "in-range set");
                if (op < 2) { OUTCOME("array:append"); if (grew) OUTCOME("array:grew"); }
                else OUTCOME("array:set-ok");
                cl = arr_canon(a, canon_buf[0], sizeof canon_buf[0]);
                if (hs_insert(canon_buf[0], cl)) {
                    Node ch = nd;
                    ch.ops[ch.depth++] = (uint8_t)op;
                    q_push(&ch);
                    level_new[d + 1]++;
                }
                g_phase = "destroy";
                ferret_array_destroy(a);
            }
            /* resize: the list stays, the capacity (part of the concrete state) moves */
            for (int k = 0; k < RESIZE_OPS; k++) {
                int op = RESIZE_OP0 + k;
                g_cur_op = op;
                g_phase = "replay";
                a = arr_replay(&nd, &am);
                if (resize_target(k, a) > 64) { ferret_array_destroy(a); continue; } /* keeps the space finite */
                g_phase = "transition";
                g_apply_node = &nd;
                bool ok = arr_apply(a, &am, op, NULL);
                g_apply_node = NULL;
                n_trans++;
                n_mut++;
                if (!ok) violation(&nd, op, k == 0 ? "resize(-1) was not refused" : "resize to a non-negative capacity returned false");
                OUTCOME(k == 0 ? "array:resize-refused" : "array:resize");
                cl = arr_canon(a, canon_buf[0], sizeof canon_buf[0]);
                if (hs_insert(canon_buf[0], cl)) {
                    Node ch = nd;
                    ch.ops[ch.depth++] = (uint8_t)op;
                    q_push(&ch);
                    level_new[d + 1]++;
                }
                g_phase = "destroy";
                ferret_array_destroy(a);
            }
        }
        level_start = level_end;
    }
    return (int)(q_len - level_start);
}

/* ------------------------------------------------------------------ naming, main */

static void root_name(int root, char *buf, size_t n) {
    if (g_is_map) map_root_name(root, buf, n);
    else snprintf(buf, n, "array_new(elem_size=%zu,cap=%d)", g_esize, g_cap0);
}

static void op_name(const Node *nd, int idx, int op, char *buf, size_t n) {
    (void)nd;
    (void)idx;
    if (g_is_map) {
        snprintf(buf, n, "set(k%d,%d)", op >> 1, 1 + (op & 1));
    } else if (op < 2) {
        snprintf(buf, n, "append(%d)", op + 1);
    } else {
        int j = (op - 2) >> 1, v = 1 + ((op - 2) & 1);
        if (j < 100) snprintf(buf, n, "set[%d](%d)", j - 1, v);
        else snprintf(buf, n, "set[%s](%d)", j == 100 ? "cap" : j == 101 ? "INT32_MAX" : j == 102 ? "INT32_MIN" : "cap-1", v);
    }
}

int main(int argc, char **argv) {
    if (argc < 2) {
        fprintf(stderr, "usage: driver map <kind> <vsize> <start> <depth> <ignore_begin> | array <esize> <cap0> <depth>\n");
        return 2;
    }
    __sanitizer_set_death_callback(on_death);
    int frontier;
    if (!strcmp(argv[1], "map")) frontier = run_map(argc, argv);
    else if (!strcmp(argv[1], "array")) frontier = run_array(argc, argv);
    else return 2;
    g_phase = "report";
    g_cur_node = NULL;
    FILE *f = stdout;
    fprintf(f, "{\"scenario\":");
    json_str(f, g_scenario);
    fprintf(f, ",\"states\":%" PRIu64 ",\"transitions\":%" PRIu64 ",\"mutating\":%" PRIu64 ",\"max_depth\":%d,\"fixpoint\":%s,\"unexpanded_frontier\":%d",
            n_states, n_trans, n_mut, max_depth_reached, g_fixpoint ? "true" : "false", frontier);
    fprintf(f, ",\"levels\":[");
    for (int d = 0; d <= max_depth_reached; d++) fprintf(f, "%s%" PRIu64, d ? "," : "", level_new[d]);
    fprintf(f, "],\"outcomes\":{");
    for (int i = 0; i < n_out; i++) {
        fprintf(f, "%s", i ? "," : "");
        json_str(f, out_name[i]);
        fprintf(f, ":%" PRIu64, out_cnt[i]);
    }
    fprintf(f, "}");
    if (g_is_map) {
        fprintf(f, ",\"full_hash_collision_pair\":%s,\"keys\":[", g_full_collision ? "true" : "false");
        for (int k = 0; k < g_nkeys; k++) {
            char b[96];
            snprintf(b, sizeof b, "%s%d=%s b16=%u b32=%u b64=%u", k >= FILL0 ? "f" : "k", k >= FILL0 ? k - FILL0 : k, g_desc[k], g_hash[k] % 16, g_hash[k] % 32, g_hash[k] % 64);
            fprintf(f, "%s", k ? "," : "");
            json_str(f, b);
        }
        fprintf(f, "]");
    }
    if (q_len > 0) {
        fprintf(f, ",\"sample_history\":");
        print_history(f, &queue[q_len - 1], -1);
    }
    fprintf(f, ",\"violations\":%" PRIu64, n_viol);
    if (n_viol > 0) {
        fprintf(f, ",\"first_violation\":{\"history\":");
        print_history(f, &viols[0].nd, viols[0].extra_op);
        fprintf(f, ",\"what\":");
        json_str(f, viols[0].what);
        fprintf(f, "},\"violation_list\":[");
        for (uint64_t i = 0; i < n_viol && i < MAXV; i++) {
            fprintf(f, "%s{\"history\":", i ? "," : "");
            print_history(f, &viols[i].nd, viols[i].extra_op);
            fprintf(f, ",\"what\":");
            json_str(f, viols[i].what);
            fprintf(f, "}");
        }
        fprintf(f, "]");
    }
    fprintf(f, "}\n");
    return 0;
}
