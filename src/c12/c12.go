// Package c12: visibility by capitalisation.
//
// Bounded-exhaustive products, every program compiled by the real front end (fe pool):
//
//	sym    module-level symbol kind x case (Upper/lower twin) x import shape x access site
//	       (expression contexts for values, position x type-constructor for types)
//	field  field case x accessor kind x use x placement of the type (same / other module)
//	lit    struct literals initialising a private field (must be accepted)
//	method lowercase method called from another module (the text does not list methods:
//	       three-valued "either", counted and not judged)
//
// Oracle: rejected <=> (lowercase and named from another module) or (lowercase field and the
// access is not `receiver.field` inside a method of its type). Every Upper twin, every
// same-module use of a lowercase name and every struct literal is a control that must be
// accepted; a rejected control is reported as `<case>/control`.
//
// Deviations from DESIGN.md C12 (all forced by what the compiler accepts for the Upper twin;
// each was first reported by this check as a `/control` failure and then removed from the
// templates):
//   - a variable of another module cannot be written or borrowed at all, exported or not
//     (`=`/`+=`: T0007, `&`: T0004, `++`/`--`: "MIR lowering unsupported: lvalue"), so a foreign
//     variable has read sites only; `util::Arr[i]`, `util::Org.X`, `for v in util::Arr` are
//     "MIR lowering unsupported: qualified value" and are not enumerated.
//   - a function body cannot name a module-level constant/variable of its own module ("MIR
//     lowering unsupported: identifier"): same-module controls of const/var exist at top level
//     only, and the re-export controls go through functions and types only.
//   - methods cannot be declared on a type of another module (T0022), so "receiver inside a
//     method of the type" exists only in the defining module; with the type in another module
//     the method-hosted accessors live in that module and the free-function accessors in main.
//   - fields of elements of a dynamic array are "MIR lowering unsupported": fixed arrays only.
//   - `E ! T` cannot be a variable's or a cast's type; it is enumerated in result positions.
//     Values of `union { T, i32 }` do not lower ("union variant mismatch"): value-free positions.
//   - an optional local inside a capturing closure does not lower ("capture box size").
//   - "method" and "(receiver).field" are either-cases (counted, not judged).
//   - quick tier = complete product on the `plain` shape + core sites on the other 8 shapes
//     (the design's 1.5 k estimate assumed 24 sites; there are ~45 expression sites and ~140
//     position x constructor type sites); thorough = complete product on all 12 shapes plus
//     depth-2 contexts/constructors.
package c12

import (
	"fmt"
	"path/filepath"
	"sort"
	"strings"
	"sync"

	"compiler/verifh/fe"
	"compiler/verifh/vl"
)

const (
	mustAccept = iota
	mustReject
	either
)

type prog struct {
	id     string
	twin   string // id of the control twin ("" for controls)
	files  map[string]string
	expect int
	what   string // what is named / accessed (for the observation text)
}

// ---------------------------------------------------------------------------------
// library module: both cases of every kind, plus exported makers so that a value of a
// private type can be obtained without naming the type

type tkind struct{ name, up, lo, castSrc string }

var tkinds = []tkind{
	{"struct", "Rec", "rec", "{ .X = 1 }"},
	{"enum", "Enm", "enm", "$QMkEnm$L()"},
	{"named", "Num", "num", "1"},
}

// type constructors applied to the type under test
type wrapper struct {
	name  string
	ty    string // $T = qualified type
	setup string // statements before the value ($MK = maker of a plain value)
	val   string // value of type ty that does not name $T ("" = no value available)
	cast  string // source expression for `src as ty` ("" = not castable)
	ref   bool   // refers to a local (not usable in return / global positions)
	ret   bool   // usable only as a function result type
}

var wrappers = []wrapper{
	{name: "T", ty: "$T", val: "$MK()", cast: "$SRC"},
	{name: "ref", ty: "&$T", setup: "let v0 := $MK();", val: "&v0", cast: "(&v0)", ref: true},
	{name: "mutref", ty: "&'$T", setup: "let v0 := $MK();", val: "&'v0", cast: "(&'v0)", ref: true},
	{name: "slice", ty: "[]$T", val: "$MKSlice()", cast: "[$MK()]"},
	{name: "array", ty: "[1]$T", val: "$MKArray()", cast: "[$MK()]"},
	{name: "optional", ty: "$T?", val: "$MKOpt()", cast: "$MK()"},
	{name: "result-ok", ty: "str ! $T", val: "$MK()", ret: true},
	{name: "result-err", ty: "$T ! i32", val: "1", ret: true},
	{name: "map", ty: "map[str]$T", val: "$MKMap()", cast: "$MKMap()"},
	{name: "struct", ty: "struct { .V: $T }", val: "$MKSt()", cast: "{ .V = $MK() }"},
	{name: "fn-param", ty: "fn(a: $T) -> i32", val: "$MKFnP()"},
	{name: "fn-result", ty: "fn() -> $T", val: "$MKFnR()"},
	{name: "union", ty: "union { $T, i32 }"}, // no value: "MIR lowering unsupported: union variant mismatch"
}

// libBase is in every library module (the diamond's other users need Cst and Fun).
const libBase = "const Cst: i32 = 1;\nconst cst: i32 = 1;\nfn Fun(a: i32) -> i32 { return a + 1; }\nfn fun(a: i32) -> i32 { return a + 1; }\n"

var libPieces = map[string]string{
	"var":       "let Vr: i32 = 1;\nlet vr: i32 = 1;\n",
	"result-fn": "fn Res(a: i32) -> str ! i32 { return a; }\nfn res(a: i32) -> str ! i32 { return a; }\n",
	"struct":    "type Rec struct { .X: i32 };\ntype rec struct { .X: i32 };\nfn MkRec() -> Rec { return { .X = 1 } as Rec; }\nfn MkRecL() -> rec { return { .X = 1 } as rec; }\n",
	"enum": "type Enm enum { A, B };\ntype enm enum { A, B };\nfn MkEnm() -> Enm { return Enm::A; }\nfn MkEnmL() -> enm { return enm::A; }\n" +
		"fn TakeEnm(a: Enm) -> i32 { return 1; }\nfn TakeEnmL(a: enm) -> i32 { return 1; }\n",
	"named":    "type Num i32;\ntype num i32;\nfn MkNum() -> Num { return 1 as Num; }\nfn MkNumL() -> num { return 1 as num; }\n",
	"reexport": "fn WrapFun(a: i32) -> i32 { return fun(a); }\n",
}

func init() {
	libPieces["enum-variant"] = libPieces["enum"]
}

var makerFmt = map[string]string{
	"slice":     "fn $MSlice() -> []$t { return [$M()]; }\n",
	"array":     "fn $MArray() -> [1]$t { return [$M()]; }\n",
	"optional":  "fn $MOpt() -> $t? { return $M(); }\n",
	"map":       "fn $MMap() -> map[str]$t { let m: map[str]$t = {} as map[str]$t; return m; }\n",
	"struct":    "fn $MSt() -> struct { .V: $t } { return { .V = $M() }; }\n",
	"fn-param":  "fn $MFnP() -> fn(a: $t) -> i32 { return fn(a: $t) -> i32 { return 1; }; }\n",
	"fn-result": "fn $MFnR() -> fn() -> $t { return fn() -> $t { return $M(); }; }\n",
}

// libFor: the library module for one symbol kind (both cases) and, for types, the maker of
// one constructor.
func libFor(kind, wrapperName string) string {
	s := libBase + libPieces[kind]
	for _, k := range tkinds {
		if k.name == kind {
			if f, ok := makerFmt[wrapperName]; ok {
				s += rep(f, "$M", "Mk"+k.up, "$t", k.up) + rep(f, "$M", "Mk"+k.up+"L", "$t", k.lo)
			}
		}
	}
	return s
}

// helpers of the module that hosts the access site
const prelude = `type Bx struct { .V: i32 };
fn (b: Bx) M(a: i32) -> i32 { return a; }
fn take(a: i32) -> i32 { return a; }
fn mkarr(a: i32) -> []i32 { let zz: []i32 = [a, a]; return zz; }
fn resf(a: i32) -> str ! i32 { return a; }
fn tref(a: &i32) -> i32 { return 1; }
fn tmut(a: &'i32) -> i32 { return 1; }
fn ap(f: fn(a: i32) -> i32) -> i32 { return f(1); }
`

// ---------------------------------------------------------------------------------
// access sites

const (
	useRead = iota
	useWrite
	useBorrow
	useBorrowMut
)

type site struct {
	name   string
	decls  string // top-level text ($E allowed only when closed)
	body   string // statements of `fn site0() -> i32 { ... return 0; }`
	term   bool   // body ends in a return
	closed bool   // $E occurs at top level: the expression must not depend on locals
	use    int
}

// expression contexts for an i32-typed expression $E
var exprSites = []site{
	{name: "let-annotated", body: "let za: i32 = $E;"},
	{name: "let-inferred", body: "let za := $E;"},
	{name: "assign-rhs", body: "let za: i32 = 0; za = $E;"},
	{name: "compound-rhs", body: "let za: i32 = 0; za += $E;"},
	{name: "call-arg", body: "take($E);"},
	{name: "call-arg-nested", body: "take(take($E));"},
	{name: "method-arg", body: "let zb := { .V = 1 } as Bx; zb.M($E);"},
	{name: "native-arg", body: "io::Println($E);"},
	{name: "return", body: "return $E;", term: true},
	{name: "if-cond", body: "if $E > 0 { }"},
	{name: "elseif-cond", body: "let za: i32 = 0; if za > 5 { } else if $E > 0 { }"},
	{name: "while-cond", body: "let zn: i32 = 0; while zn < $E { zn = zn + 1; }"},
	{name: "range-high", body: "for zi in 0..$E { }"},
	{name: "range-low", body: "for zi in $E..5 { }"},
	{name: "range-inclusive", body: "for zi in 0..=$E { }"},
	{name: "match-subject", body: "match $E { 1 => { } _ => { } }"},
	{name: "match-arm", body: "let za: i32 = 1; match za { 1 => { let zb := $E; } _ => { } }"},
	{name: "if-body", body: "let za: i32 = 1; if za > 0 { let zb := $E; }"},
	{name: "else-body", body: "let za: i32 = 1; if za > 0 { } else { let zb := $E; }"},
	{name: "while-body", body: "let zn: i32 = 0; while zn < 3 { zn = zn + 1; let zb := $E; }"},
	{name: "for-body", body: "for zi in 0..3 { let zb := $E; }"},
	{name: "block", body: "{ let zb := $E; }"},
	{name: "closure-body", body: "let zf := fn() -> i32 { return $E; };"},
	{name: "struct-literal-field", body: "let zb := { .V = $E } as Bx;"},
	{name: "array-literal-elem", body: "let za: [2]i32 = [1, $E];"},
	{name: "index", body: "let za: []i32 = [1, 2, 3, 4]; let zb := za[$E];"},
	{name: "indexed-literal", body: "let za := [$E, 1][0];"},
	{name: "binary-right", body: "let za := 1 + $E;"},
	{name: "binary-left", body: "let za := $E + 1;"},
	{name: "paren", body: "let za := ($E);"},
	{name: "negate", body: "let za := -$E;"},
	{name: "not-of-compare", body: "let za := !($E == 1);"},
	{name: "logical", body: "let za := $E == 1 && true;"},
	{name: "power", body: "let za := $E ** 2;"},
	{name: "catch-block", body: "let za := resf(1) catch ze { let zb := $E; } 0;"},
	{name: "catch-fallback", body: "let za := resf(1) catch $E;"},
	{name: "catch-block-fallback", body: "let za := resf(1) catch ze { } $E;"},
	{name: "catch-call-arg", body: "let za := resf($E) catch 0;"},
	{name: "cast-operand", body: "let za := $E as i64;"},
	{name: "coalesce-default", body: "let zo: i32? = none; let za := zo ?? $E;"},
	{name: "optional-init", body: "let zo: i32? = $E;"},
	{name: "expr-stmt", body: "$E;"},
	// below the compiler's own functions (len / append / panic are resolved apart)
	{name: "builtin-append-value", body: "let zd: []i32 = [1]; append(&'zd, $E);"},
	{name: "builtin-append-value-nested", body: "let zd: []i32 = [1]; append(&'zd, take($E));"},
	{name: "builtin-len-arg", body: "let za := len(mkarr($E));"},
	{name: "method-body", decls: "fn (b: Bx) Body() -> i32 { return $E; }\n", closed: true},
	{name: "result-fn-return", decls: "fn rr() -> str ! i32 { return $E; }\n", closed: true},
	{name: "global-let", decls: "let g1: i32 = $E;\n", closed: true},
}

// sites that need an lvalue
var lvSites = []site{
	{name: "assign-target", body: "$E = 3;", use: useWrite},
	{name: "compound-target", body: "$E += 3;", use: useWrite},
	{name: "post-inc", body: "$E++;", use: useWrite},
	{name: "post-dec", body: "$E--;", use: useWrite},
	{name: "pre-inc", body: "++$E;", use: useWrite},
	{name: "post-inc-value", body: "let za := $E++;", use: useWrite},
	{name: "borrow", body: "let zr: &i32 = &$E;", use: useBorrow},
	{name: "borrow-arg", body: "tref(&$E);", use: useBorrow},
	{name: "borrow-mut", body: "let zr: &'i32 = &'$E;", use: useBorrowMut},
	{name: "borrow-mut-arg", body: "tmut(&'$E);", use: useBorrowMut},
}

var constOnlySites = []site{
	{name: "match-pattern", body: "let za: i32 = 1; match za { $E => { } _ => { } }"},
	{name: "global-const", decls: "const k1: i32 = $E;\n", closed: true},
	{name: "local-const", body: "const k2: i32 = $E;"},
}

// a kind of module-level value symbol together with the expression that names it
type vkind struct {
	name, up, lo string
	expr         string // $S = qualified symbol
	sites        []site
}

func cat(l ...[]site) []site {
	var o []site
	for _, x := range l {
		o = append(o, x...)
	}
	return o
}

var vkinds = []vkind{
	{"const", "Cst", "cst", "$S", cat(exprSites, constOnlySites)},
	{"var", "Vr", "vr", "$S", exprSites},
	{"fn", "Fun", "fun", "$S(1)", exprSites},
	{"fn-value", "Fun", "fun", "$S", []site{
		{name: "let-inferred", body: "let zf := $E;"},
		{name: "call-arg", body: "ap($E);"},
		{name: "let-annotated", body: "let zf: fn(a: i32) -> i32 = $E;"},
	}},
	{"result-fn", "Res", "res", "$S(1)", []site{
		{name: "catch-fallback-subject", body: "let za := $E catch 0;"},
		{name: "catch-block-subject", body: "let za := $E catch ze { } 0;"},
	}},
	{"enum-variant", "Enm", "enm", "$S::A", []site{
		{name: "let-inferred", body: "let za := $E;"},
		{name: "assign-rhs", body: "let za := $QMkEnm$L(); za = $E;"},
		{name: "equal-right", body: "let za := $QMkEnm$L() == $E;"},
		{name: "equal-left", body: "let za := $E == $QMkEnm$L();"},
		{name: "match-pattern", body: "let za := $QMkEnm$L(); match za { $E => { } _ => { } }"},
		{name: "match-subject", body: "match $E { _ => { } }"},
		{name: "call-arg", body: "$QTakeEnm$L($E);"},
		{name: "array-literal-elem", body: "let za := [$E, $QMkEnm$L()];"},
		{name: "closure-body", body: "let zf := fn() -> i32 { return $QTakeEnm$L($E); };"},
		{name: "if-cond", body: "if $QMkEnm$L() == $E { }"},
		{name: "global-let", decls: "let g1 := $E;\n", closed: true},
	}},
}

// positions in which a type can be written
type tpos struct {
	name     string
	decls    string // $W = the (wrapped) type, $SETUP/$VAL as in wrapper
	body     string
	term     bool
	needVal  bool
	noRef    bool // value must not refer to a local
	castSite bool
	retPos   bool // a function result position (accepts E ! T)
}

var tposs = []tpos{
	{name: "let", body: "$SETUP let a: $W = $VAL;", needVal: true},
	{name: "global-let", decls: "let g1: $W = $VAL;\n", needVal: true, noRef: true},
	{name: "param", decls: "fn fp(a: $W) { }\n"},
	{name: "return", decls: "fn fr() -> $W { return $VAL; }\n", needVal: true, noRef: true, retPos: true},
	{name: "struct-field", decls: "type Bt struct { .V: $W };\n"},
	{name: "type-decl", decls: "type My $W;\n"},
	{name: "interface-method-param", decls: "type Ifc interface { M(a: $W) -> i32 };\n"},
	{name: "interface-method-result", decls: "type Ifc interface { M() -> $W };\n", retPos: true},
	{name: "method-param", decls: "fn (b: Bx) Mp(a: $W) { }\n"},
	{name: "method-return", decls: "fn (b: Bx) Mr() -> $W { return $VAL; }\n", needVal: true, noRef: true, retPos: true},
	{name: "closure-param", body: "let f := fn(a: $W) -> i32 { return 1; };"},
	{name: "closure-return", body: "let f := fn() -> $W { return $VAL; };", needVal: true, noRef: true, retPos: true},
	{name: "cast-target", body: "$SETUP let a := $CAST as $W;", castSite: true},
	{name: "cast-target-in-closure", body: "$SETUP let zf := fn() -> i32 { let za := $CAST as $W; return 1; };", castSite: true},
}

// ---------------------------------------------------------------------------------
// import shapes

type shape struct {
	name  string
	q     string
	build func(site func(entryFooter string) string, lib, io string) map[string]string
	quick bool
}

const mainFooter = "fn main() { }\n"
const goFooter = "fn Go() -> i32 { return 0; }\n"
const validUser = "import \"proj/md\";\nfn Go() -> i32 { return md::Cst + md::Fun(1); }\n"
const validUserAliased = "import \"proj/md\" as dd;\nfn Go() -> i32 { return dd::Cst + dd::Fun(1); }\n"

var shapes = []shape{
	{"same-module", "", func(s func(string) string, lib, io string) map[string]string {
		return map[string]string{"main.fer": io + lib + s(mainFooter)}
	}, true},
	{"plain", "util::", func(s func(string) string, lib, io string) map[string]string {
		return map[string]string{"util.fer": lib, "main.fer": io + "import \"proj/util\";\n" + s(mainFooter)}
	}, true},
	{"aliased", "u::", func(s func(string) string, lib, io string) map[string]string {
		return map[string]string{"util.fer": lib, "main.fer": io + "import \"proj/util\" as u;\n" + s(mainFooter)}
	}, true},
	{"aliased-upper", "U::", func(s func(string) string, lib, io string) map[string]string {
		return map[string]string{"util.fer": lib, "main.fer": io + "import \"proj/util\" as U;\n" + s(mainFooter)}
	}, true},
	{"subdir", "util::", func(s func(string) string, lib, io string) map[string]string {
		return map[string]string{"lib/util.fer": lib, "main.fer": io + "import \"proj/lib/util\";\n" + s(mainFooter)}
	}, true},
	{"subdir-deep-aliased", "k::", func(s func(string) string, lib, io string) map[string]string {
		return map[string]string{"lib/deep/core.fer": lib, "main.fer": io + "import \"proj/lib/deep/core\" as k;\n" + s(mainFooter)}
	}, true},
	{"from-subdir", "util::", func(s func(string) string, lib, io string) map[string]string {
		return map[string]string{"util.fer": lib,
			"app/site.fer": io + "import \"proj/util\";\n" + s(goFooter),
			"main.fer":     "import \"proj/app/site\";\nfn main() { let r := site::Go(); }\n"}
	}, true},
	{"diamond", "md::", func(s func(string) string, lib, io string) map[string]string {
		return map[string]string{"md.fer": lib,
			"mb.fer":   io + "import \"proj/md\";\n" + s(goFooter),
			"mc.fer":   validUserAliased,
			"main.fer": "import \"proj/mb\";\nimport \"proj/mc\";\nfn main() { let r := mb::Go() + mc::Go(); }\n"}
	}, true},
	{"diamond-top", "md::", func(s func(string) string, lib, io string) map[string]string {
		return map[string]string{"md.fer": lib,
			"mb.fer":   validUser,
			"mc.fer":   validUserAliased,
			"main.fer": io + "import \"proj/mb\";\nimport \"proj/mc\";\nimport \"proj/md\";\n" + s("fn main() { let r := mb::Go() + mc::Go(); }\n")}
	}, true},
	// thorough only
	{"chain3-middle", "md::", func(s func(string) string, lib, io string) map[string]string {
		return map[string]string{"md.fer": lib,
			"mb.fer":   io + "import \"proj/md\";\n" + s(goFooter),
			"main.fer": "import \"proj/mb\";\nfn main() { let r := mb::Go(); }\n"}
	}, false},
	{"chain3-top", "md::", func(s func(string) string, lib, io string) map[string]string {
		return map[string]string{"md.fer": lib,
			"mb.fer":   validUser,
			"main.fer": io + "import \"proj/mb\";\nimport \"proj/md\";\n" + s("fn main() { let r := mb::Go(); }\n")}
	}, false},
	{"subdir-to-subdir", "util::", func(s func(string) string, lib, io string) map[string]string {
		return map[string]string{"lib/util.fer": lib,
			"app/site.fer": io + "import \"proj/lib/util\";\n" + s(goFooter),
			"main.fer":     "import \"proj/app/site\";\nfn main() { let r := site::Go(); }\n"}
	}, false},
}

func siteModule(decls, body string, term bool) func(footer string) string {
	return func(footer string) string {
		var b strings.Builder
		b.WriteString(prelude)
		b.WriteString(decls)
		b.WriteString("fn site0() -> i32 {\n    ")
		b.WriteString(body)
		if !term {
			b.WriteString("\n    return 0;")
		}
		b.WriteString("\n}\n")
		b.WriteString(footer)
		return b.String()
	}
}

func rep(s string, kv ...string) string { return strings.NewReplacer(kv...).Replace(s) }

func caseName(lower bool) string {
	if lower {
		return "lower"
	}
	return "upper"
}

// expression wrappers for depth-2 nesting (thorough): i32 -> i32
var exprWrap = []struct{ name, tpl string }{
	{"paren", "($E)"}, {"negate", "(-$E)"}, {"add", "(1 + $E)"}, {"call", "take($E)"},
	{"indexed-literal", "[$E, 1][0]"}, {"cast-chain", "($E as i64 as i32)"},
	{"catch", "(resf($E) catch 0)"},
}

// quick tier: the complete product on the `plain` shape; on every other shape the core
// sites below (one per distinct path through resolver / type checker). thorough: everything.
var coreExpr = map[string]bool{"let-inferred": true, "call-arg": true, "return": true, "range-high": true,
	"closure-body": true, "global-let": true, "match-pattern": true, "post-inc": true, "coalesce-default": true}
var coreKind = map[string]bool{"const": true, "var": true, "fn": true, "enum-variant": true}
var coreType = map[string]bool{"struct|let/T": true, "struct|param/optional": true, "struct|return/slice": true,
	"struct|struct-field/ref": true, "struct|cast-target/T": true, "struct|cast-target/optional": true,
	"struct|closure-param/array": true, "struct|global-let/T": true,
	"enum|let/T": true, "enum|cast-target/T": true, "named|let/T": true, "named|cast-target/T": true}

// In the entry module a function body cannot name a module-level constant or variable
// ("MIR lowering unsupported: identifier"), so the same-module controls of these kinds exist
// only at top level.
var globalValueKind = map[string]bool{"const": true, "var": true}
var topLevelSite = map[string]bool{"global-let": true, "global-const": true}

func genSym(c *vl.Ctx) []prog {
	var out []prog
	quick := c.Quick()
	for _, sh := range shapes {
		if quick && !sh.quick {
			continue
		}
		same := sh.q == ""
		full := !quick || sh.name == "plain"
		deep := !quick && (sh.name == "plain" || sh.name == "same-module" || sh.name == "diamond")
		add := func(kind, libKind, wrapperName string, lower bool, siteName, decls, body string, term bool, what string) {
			id := fmt.Sprintf("C12/sym/%s/%s/%s/%s", kind, caseName(lower), sh.name, siteName)
			io := ""
			if strings.Contains(body, "io::") {
				io = "import \"std/io\";\n"
			}
			p := prog{id: id, files: sh.build(siteModule(decls, body, term), libFor(libKind, wrapperName), io), what: what}
			if lower && !same {
				p.expect = mustReject
				p.twin = fmt.Sprintf("C12/sym/%s/%s/%s/%s", kind, caseName(false), sh.name, siteName)
			}
			out = append(out, p)
		}
		for _, lower := range []bool{false, true} {
			L := ""
			if lower {
				L = "L"
			}
			// values
			for _, k := range vkinds {
				n := k.up
				if lower {
					n = k.lo
				}
				e := rep(k.expr, "$S", sh.q+n)
				for _, st := range k.sites {
					if same && globalValueKind[k.name] && !topLevelSite[st.name] {
						continue
					}
					if !full && !(coreKind[k.name] && coreExpr[st.name]) {
						continue
					}
					add(k.name, k.name, "", lower, st.name, rep(st.decls, "$E", e, "$Q", sh.q, "$L", L), rep(st.body, "$E", e, "$Q", sh.q, "$L", L), st.term, sh.q+n)
				}
				if deep && (k.name == "const" || k.name == "var" || k.name == "fn") && !(same && globalValueKind[k.name]) {
					// depth 2: context inside context
					for _, w := range exprWrap {
						e2 := rep(w.tpl, "$E", e)
						for _, st := range exprSites {
							add(k.name, k.name, "", lower, st.name+"+"+w.name, rep(st.decls, "$E", e2), rep(st.body, "$E", e2), st.term, sh.q+n)
						}
					}
				}
			}
			// types
			for _, k := range tkinds {
				n := k.up
				if lower {
					n = k.lo
				}
				T := sh.q + n
				MK := sh.q + "Mk" + k.up + L
				src := rep(k.castSrc, "$Q", sh.q, "$L", L)
				type wv struct {
					name, ty, setup, val, cast string
					ref, ret                   bool
				}
				var ws []wv
				for _, w := range wrappers {
					ws = append(ws, wv{w.name, rep(w.ty, "$T", T), rep(w.setup, "$MK", MK), rep(w.val, "$MK", MK), rep(w.cast, "$MK", MK, "$SRC", src), w.ref, w.ret})
				}
				if deep {
					// depth 2 constructors (no values: value-free positions only)
					for _, a := range []struct{ n, t string }{{"slice", "[]$X"}, {"optional", "$X?"}, {"ref", "&$X"}, {"array", "[2]$X"}, {"map", "map[str]$X"}} {
						for _, b := range []struct{ n, t string }{{"slice", "[]$X"}, {"optional", "$X?"}, {"array", "[2]$X"}, {"map", "map[i32]$X"}, {"struct", "struct { .V: $X }"}, {"fn-param", "fn(a: $X) -> i32"}} {
							if a.n == "optional" && b.n == "optional" {
								continue
							}
							ws = append(ws, wv{name: a.n + "-of-" + b.n, ty: rep(a.t, "$X", rep(b.t, "$X", T))})
						}
					}
				}
				for _, tp := range tposs {
					for _, w := range ws {
						if w.ret && !tp.retPos {
							continue
						}
						if tp.needVal && (w.val == "" || (tp.noRef && w.ref)) {
							continue
						}
						if tp.castSite && w.cast == "" {
							continue
						}
						if !full && !coreType[k.name+"|"+tp.name+"/"+w.name] {
							continue
						}
						r := []string{"$W", w.ty, "$SETUP", w.setup, "$VAL", w.val, "$CAST", w.cast}
						add(k.name, k.name, w.name, lower, "type:"+tp.name+"/"+w.name, rep(tp.decls, r...), rep(tp.body, r...), tp.term, T)
					}
				}
			}
		}
		if !same {
			// re-export through exported functions: must be accepted
			for _, w := range []struct{ name, lib, e string }{{"fn", "reexport", "WrapFun(1)"},
				{"struct-value", "struct", "MkRecL().X"}, {"enum-value", "enum", "TakeEnmL(" + sh.q + "MkEnmL())"}} {
				out = append(out, prog{id: fmt.Sprintf("C12/sym/reexport/%s/%s", sh.name, w.name),
					files: sh.build(siteModule("", "let za := "+sh.q+w.e+";", false), libFor(w.lib, ""), ""), what: sh.q + w.e})
			}
		}
	}
	return out
}

// ---------------------------------------------------------------------------------
// fields

// accessor: how a value of the struct type is reached
type accessor struct {
	name    string
	expr    string // $P = the struct type, $MKP = maker call
	fn      string // the function hosting the body: $BODY, $RET (trailing return or empty)
	decls   string
	method  bool // hosted by a method of P (lives in P's module)
	recv    bool // the accessor is the receiver of a method of P
	either  bool
	mutable bool // writes / mutable borrows through it are accepted for Upper fields
	lvalue  bool // borrows are accepted
}

var accessors = []accessor{
	{name: "receiver-value", expr: "p", fn: "fn (p: $P) Site0() -> i32 {\n    $BODY$RET\n}\n", method: true, recv: true, mutable: true, lvalue: true},
	{name: "receiver-ref", expr: "p", fn: "fn (p: &$P) Site0() -> i32 {\n    $BODY$RET\n}\n", method: true, recv: true, lvalue: true},
	{name: "receiver-mutref", expr: "p", fn: "fn (p: &'$P) Site0() -> i32 {\n    $BODY$RET\n}\n", method: true, recv: true, mutable: true, lvalue: true},
	{name: "receiver-in-closure", expr: "p", fn: "fn (p: &'$P) Site0() -> i32 {\n    let f0 := fn() -> i32 {\n    $BODY$RET\n    };\n    return 0;\n}\n", method: true, recv: true, mutable: true, lvalue: true},
	{name: "receiver-in-nested-block", expr: "p", fn: "fn (p: &'$P) Site0() -> i32 {\n    if true { for k0 in 0..1 {\n    $BODY\n    } }\n    return 0;\n}\n", method: true, recv: true, mutable: true, lvalue: true},
	{name: "receiver-parenthesised", expr: "(p)", fn: "fn (p: &'$P) Site0() -> i32 {\n    $BODY$RET\n}\n", method: true, either: true, mutable: true, lvalue: true},
	{name: "method-other-param", expr: "o", fn: "fn (p: &'$P) Site0(o: &'$P) -> i32 {\n    $BODY$RET\n}\n", method: true, mutable: true, lvalue: true},
	{name: "method-other-param-value", expr: "o", fn: "fn (p: $P) Site0(o: $P) -> i32 {\n    $BODY$RET\n}\n", method: true, mutable: true, lvalue: true},
	{name: "method-local", expr: "o", fn: "fn (p: $P) Site0() -> i32 {\n    let o := $MKP;\n    $BODY$RET\n}\n", method: true, mutable: true, lvalue: true},
	{name: "method-copy-of-receiver", expr: "o", fn: "fn (p: $P) Site0() -> i32 {\n    let o := p;\n    $BODY$RET\n}\n", method: true, mutable: true, lvalue: true},
	{name: "method-result", expr: "$MKP", fn: "fn (p: $P) Site0() -> i32 {\n    $BODY$RET\n}\n", method: true},
	{name: "method-shadowing-local", expr: "p", fn: "fn (p: $P) Site0() -> i32 {\n    if true {\n    let p := $MKP;\n    $BODY\n    }\n    return 0;\n}\n", method: true, mutable: true, lvalue: true},
	{name: "method-closure-param-named-as-receiver", expr: "p", fn: "fn (p: $P) Site0() -> i32 {\n    let f0 := fn(p: $P) -> i32 {\n    $BODY$RET\n    };\n    return 0;\n}\n", method: true, mutable: true, lvalue: true},
	{name: "method-array-elem", expr: "arr0[0]", fn: "fn (p: $P) Site0() -> i32 {\n    let arr0: [2]$P = [$MKP, $MKP];\n    $BODY$RET\n}\n", method: true, mutable: true, lvalue: true},
	{name: "other-type-method-param", expr: "a", decls: "type Q struct { .Z: i32 };\n", fn: "fn (q: Q) Site0(a: &'$P) -> i32 {\n    $BODY$RET\n}\n", mutable: true, lvalue: true},
	{name: "other-type-method-nested-public", expr: "o.In", decls: "type O struct { .In: $P, .inn: $P };\n", fn: "fn (o: &'O) Site0() -> i32 {\n    $BODY$RET\n}\n", mutable: true, lvalue: true},
	{name: "other-type-method-nested-private", expr: "o.inn", decls: "type O struct { .In: $P, .inn: $P };\n", fn: "fn (o: &'O) Site0() -> i32 {\n    $BODY$RET\n}\n", mutable: true, lvalue: true},
	{name: "free-param-value", expr: "a", fn: "fn site0(a: $P) -> i32 {\n    $BODY$RET\n}\n", mutable: true, lvalue: true},
	{name: "free-param-ref", expr: "a", fn: "fn site0(a: &$P) -> i32 {\n    $BODY$RET\n}\n", lvalue: true},
	{name: "free-param-mutref", expr: "a", fn: "fn site0(a: &'$P) -> i32 {\n    $BODY$RET\n}\n", mutable: true, lvalue: true},
	{name: "free-local", expr: "l", fn: "fn site0() -> i32 {\n    let l := $MKP;\n    $BODY$RET\n}\n", mutable: true, lvalue: true},
	{name: "free-result", expr: "$MKP", fn: "fn site0() -> i32 {\n    $BODY$RET\n}\n"},
	{name: "free-array-elem", expr: "arr0[0]", fn: "fn site0() -> i32 {\n    let arr0: [2]$P = [$MKP, $MKP];\n    $BODY$RET\n}\n", mutable: true, lvalue: true},
	{name: "free-through-ref", expr: "r", fn: "fn site0() -> i32 {\n    let l := $MKP;\n    let r: &'$P = &'l;\n    $BODY$RET\n}\n", mutable: true, lvalue: true},
	{name: "free-nested", expr: "o.In", decls: "type O struct { .In: $P, .Z: i32 };\n", fn: "fn site0() -> i32 {\n    let o := { .In = $MKP, .Z = 1 } as O;\n    $BODY$RET\n}\n", mutable: true, lvalue: true},
	{name: "free-nested-twice", expr: "o2.Mid.In", decls: "type O struct { .In: $P, .Z: i32 };\ntype O2 struct { .Mid: O };\n", fn: "fn site0() -> i32 {\n    let o2 := { .Mid = { .In = $MKP, .Z = 1 } as O } as O2;\n    $BODY$RET\n}\n", mutable: true, lvalue: true},
	{name: "free-global", expr: "gp", decls: "let gp: $P = $MKP;\n", fn: "fn site0() -> i32 {\n    $BODY$RET\n}\n", mutable: true, lvalue: true},
	{name: "free-closure-capture", expr: "l", fn: "fn site0() -> i32 {\n    let l := $MKP;\n    let f0 := fn() -> i32 {\n    $BODY$RET\n    };\n    return 0;\n}\n", mutable: true, lvalue: true},
}

const structDecl = "type P struct { .Pub: i32, .prv: i32 };\nfn Mk() -> P { return { .Pub = 1, .prv = 2 } as P; }\n"

func fieldSites() []site {
	var l []site
	for _, s := range exprSites {
		if !s.closed {
			l = append(l, s)
		}
	}
	return append(l, lvSites...)
}

var coreUse = map[string]bool{"let-inferred": true, "call-arg": true, "return": true, "if-cond": true, "range-high": true,
	"match-subject": true, "closure-body": true, "coalesce-default": true, "binary-left": true, "index": true,
	"struct-literal-field": true, "assign-target": true, "compound-target": true, "post-inc": true, "borrow": true, "borrow-mut": true}
var coreAcc = map[string]bool{"receiver-mutref": true, "method-other-param": true, "free-local": true, "free-param-value": true}

// Variants of the declaring side: the struct also has methods spelled like its fields; the using
// module declares a type of its own with the struct's name and a method spelled like the
// private field. Neither changes which accesses are allowed.
const methodsNamedAsFields = "fn (q: P) prv() -> i32 { return 7; }\nfn (q: P) Pub() -> i32 { return 8; }\n"
const localNamesake = "type P struct { .V: i32 };\nfn (x: P) prv() -> i32 { return x.V; }\nfn (x: P) Pub() -> i32 { return x.V; }\n"

func genField(c *vl.Ctx) []prog {
	out := genFieldV(c, "")
	for _, v := range []string{"method-named-as-field", "local-namesake"} {
		for _, p := range genFieldV(c, v) {
			// the variants only with the field uses of the quick tier's core
			out = append(out, p)
		}
	}
	return out
}

func genFieldV(c *vl.Ctx, variant string) []prog {
	var out []prog
	quick := c.Quick() || variant != ""
	for _, place := range []string{"same-module", "other-module"} {
		if variant == "local-namesake" && place == "same-module" {
			continue
		}
		for _, a := range accessors {
			if variant == "local-namesake" && a.method {
				continue // the namesake lives in the using module: free accessors only
			}
			for _, st := range fieldSites() {
				if (st.use == useWrite || st.use == useBorrowMut) && !a.mutable {
					continue
				}
				if st.use == useBorrow && !a.lvalue {
					continue
				}
				if quick {
					if place == "same-module" && !(coreUse[st.name] || coreAcc[a.name]) {
						continue
					}
					if place == "other-module" && !(coreUse[st.name] && (!a.method || coreAcc[a.name])) {
						continue
					}
				}
				if strings.Contains(a.fn, "let f0 := fn(") && (st.name == "coalesce-default" || st.name == "optional-init") {
					continue // an optional local inside a capturing closure: "MIR lowering unsupported: capture box size"
				}
				nested := strings.Contains(a.fn, "$BODY\n") // hosted in a nested block: no `return` site
				if st.term && nested {
					continue
				}
				for _, lower := range []bool{false, true} {
					f := "Pub"
					if lower {
						f = "prv"
					}
					P, MKP := "P", "Mk()"
					if place == "other-module" && !a.method {
						P, MKP = "util::P", "util::Mk()"
					}
					ax := rep(a.expr, "$P", P, "$MKP", MKP)
					e := ax + "." + f
					ret := "\n    return 0;"
					if st.term {
						ret = ""
					}
					host := prelude + rep(a.decls, "$P", P, "$MKP", MKP) + st.decls +
						rep(a.fn, "$BODY", rep(st.body, "$E", e), "$RET", ret, "$P", P, "$MKP", MKP)
					files := map[string]string{}
					io := ""
					if strings.Contains(host, "io::") {
						io = "import \"std/io\";\n"
					}
					sd, extra, vtag := structDecl, "", ""
					switch variant {
					case "method-named-as-field":
						sd += methodsNamedAsFields
						vtag = "+methods-named-as-fields"
					case "local-namesake":
						extra = localNamesake
						vtag = "+local-namesake"
					}
					switch {
					case place == "same-module":
						files["main.fer"] = io + sd + host + mainFooter
					case a.method:
						files["util.fer"] = io + sd + host
						files["main.fer"] = "import \"proj/util\";\nfn main() { let v := util::Mk(); }\n"
					default:
						files["util.fer"] = sd
						files["main.fer"] = io + "import \"proj/util\";\n" + extra + host + mainFooter
					}
					id := fmt.Sprintf("C12/field%s/%s/%s/%s/%s", vtag, caseName(lower), place, a.name, st.name)
					p := prog{id: id, files: files, what: e}
					if lower {
						switch {
						case a.either:
							p.expect = either
						case !a.recv:
							p.expect = mustReject
							p.twin = fmt.Sprintf("C12/field%s/%s/%s/%s/%s", vtag, caseName(false), place, a.name, st.name)
						}
					}
					out = append(out, p)
				}
			}
		}
	}
	return out
}

// ---------------------------------------------------------------------------------
// struct literals initialising private fields, and methods

func genLit() []prog {
	var out []prog
	const lit = "{ .Pub = 1, .prv = 2 }"
	sites := []site{
		{name: "cast-let", body: "let a := $LIT as $P;"},
		{name: "annotated-let", body: "let a: $P = $LIT;"},
		{name: "call-arg-cast", decls: "fn takep(a: $P) { }\n", body: "takep($LIT as $P);"},
		{name: "call-arg-untyped", decls: "fn takep(a: $P) { }\n", body: "takep($LIT);"},
		{name: "return-cast", decls: "fn mkp() -> $P { return $LIT as $P; }\n"},
		{name: "return-untyped", decls: "fn mkp() -> $P { return $LIT; }\n"},
		{name: "array-elem", body: "let a: [1]$P = [$LIT as $P];"},
		{name: "array-elem-untyped", body: "let a: [1]$P = [$LIT];"},
		{name: "nested-literal", decls: "type O struct { .In: $P };\n", body: "let o := { .In = $LIT as $P } as O;"},
		{name: "nested-literal-untyped", decls: "type O struct { .In: $P };\n", body: "let o := { .In = $LIT } as O;"},
		{name: "global", decls: "let gp: $P = $LIT as $P;\n"},
		{name: "assign", body: "let a := $MKP; a = $LIT as $P;"},
		{name: "optional", body: "let a: $P? = $LIT as $P;"},
		{name: "closure", body: "let f := fn() -> $P { return $LIT as $P; };"},
		{name: "method-of-other-type", decls: "fn (b: Bx) Mkp() -> $P { return $LIT as $P; }\n"},
		{name: "field-order-swapped", body: "let a := { .prv = 2, .Pub = 1 } as $P;"},
	}
	for _, place := range []string{"same-module", "other-module"} {
		P, MKP := "P", "Mk()"
		if place == "other-module" {
			P, MKP = "util::P", "util::Mk()"
		}
		for _, st := range sites {
			r := []string{"$LIT", lit, "$P", P, "$MKP", MKP}
			host := siteModule(rep(st.decls, r...), rep(st.body, r...), false)(mainFooter)
			files := map[string]string{}
			if place == "same-module" {
				files["main.fer"] = structDecl + host
			} else {
				files["util.fer"] = structDecl
				files["main.fer"] = "import \"proj/util\";\n" + host
			}
			out = append(out, prog{id: fmt.Sprintf("C12/lit/%s/%s", place, st.name), files: files, what: "struct literal with .prv"})
		}
	}
	return out
}

func genMethod() []prog {
	var out []prog
	const decl = "type P struct { .Pub: i32, .prv: i32 };\nfn Mk() -> P { return { .Pub = 1, .prv = 2 } as P; }\nfn (p: P) Get() -> i32 { return p.prv; }\nfn (p: P) get() -> i32 { return p.prv; }\n"
	sites := []site{
		{name: "call-on-local", body: "let v := $MKP; let a := v.$M();"},
		{name: "call-on-result", body: "let a := $MKP.$M();"},
		{name: "call-in-arg", body: "let v := $MKP; take(v.$M());"},
	}
	for _, place := range []string{"same-module", "other-module"} {
		MKP := "Mk()"
		if place == "other-module" {
			MKP = "util::Mk()"
		}
		for _, st := range sites {
			for _, lower := range []bool{false, true} {
				m := "Get"
				if lower {
					m = "get"
				}
				host := siteModule("", rep(st.body, "$MKP", MKP, "$M", m), false)(mainFooter)
				files := map[string]string{}
				if place == "same-module" {
					files["main.fer"] = decl + host
				} else {
					files["util.fer"] = decl
					files["main.fer"] = "import \"proj/util\";\n" + host
				}
				p := prog{id: fmt.Sprintf("C12/method/%s/%s/%s", caseName(lower), place, st.name), files: files, what: "method " + m}
				if lower && place == "other-module" {
					p.expect = either
				}
				out = append(out, p)
			}
		}
	}
	return out
}

// ---------------------------------------------------------------------------------

func Run(c *vl.Ctx) {
	var progs []prog
	progs = append(progs, genLit()...)
	progs = append(progs, genMethod()...)
	progs = append(progs, genField(c)...)
	progs = append(progs, genSym(c)...)
	seen := map[string]bool{}
	for _, p := range progs {
		if seen[p.id] {
			panic("duplicate case id " + p.id)
		}
		seen[p.id] = true
	}
	if c.Quick() {
		c.SetBudget(300e9)
	} else {
		c.SetBudget(840e9)
	}
	pool := fe.NewPool(c.W, filepath.Join(c.Repo, "ferret_libs"), 16)
	defer pool.Close()

	type res struct {
		done     bool
		accepted bool
		noAnswer string
		errs     string
	}
	results := make([]res, len(progs))
	var mu sync.Mutex
	pool.Map(len(progs), func(i int) *fe.Project {
		if c.OverBudget() {
			return nil
		}
		return &fe.Project{ID: progs[i].id, Files: progs[i].files, Entry: "main.fer", Mode: "check", NoRender: true}
	}, func(i int, r *fe.Result) {
		x := res{done: true, accepted: r.Success, errs: r.ErrSummary()}
		if r.Panic != "" || r.Timeout || r.Crash != "" {
			x.noAnswer = fmt.Sprintf("panic=%q frame=%s timeout=%v crash=%v", r.Panic, r.PanicFrame, r.Timeout, r.Crash != "")
		}
		mu.Lock()
		results[i] = x
		mu.Unlock()
	})

	idx := map[string]int{}
	for i, p := range progs {
		idx[p.id] = i
	}
	var evals int64
	fam := func(id string) string { return strings.SplitN(id, "/", 3)[1] }
	reason := func(errs string) string {
		switch {
		case strings.Contains(errs, "is not exported"):
			return "not-exported"
		case strings.Contains(errs, "is private"):
			return "is-private"
		}
		return "other-diagnostic"
	}
	for i, p := range progs {
		r := results[i]
		if !r.done {
			continue
		}
		evals++
		c.Count("programs/"+fam(p.id), 1)
		if r.noAnswer != "" {
			c.Outcome(fam(p.id) + " no-answer")
			c.Fail(vl.Fail{Case: p.id + "/no-answer", Obs: "front end did not answer: " + r.noAnswer, Files: p.files})
			continue
		}
		switch p.expect {
		case mustAccept:
			c.Outcome(fmt.Sprintf("%s control accepted=%v", fam(p.id), r.accepted))
			if !r.accepted {
				c.Fail(vl.Fail{Case: p.id + "/control", Obs: "control (" + p.what + ") rejected: " + r.errs, Files: p.files})
			}
		case either:
			c.Outcome(fmt.Sprintf("%s either accepted=%v", fam(p.id), r.accepted))
			c.Count(fmt.Sprintf("either/%s/accepted=%v", fam(p.id), r.accepted), 1)
		case mustReject:
			t := results[idx[p.twin]]
			if !t.done || !t.accepted || t.noAnswer != "" {
				// the twin did not compile: this case says nothing (the twin is reported itself)
				c.Count("mutants_without_valid_control", 1)
				continue
			}
			c.Distinct(p.id)
			if r.accepted {
				c.Outcome(fam(p.id) + " private access accepted")
				c.Fail(vl.Fail{Case: p.id, Obs: "accepted without an error although " + p.what + " is private here (its Upper twin is accepted too)", Files: p.files})
			} else {
				c.Outcome(fam(p.id) + " private access rejected: " + reason(r.errs))
			}
		}
	}
	// samples: simplest of each family
	var ids []string
	for _, want := range []string{"C12/sym/const/lower/plain/let-inferred", "C12/sym/struct/lower/aliased/type:param/optional",
		"C12/field/lower/same-module/method-other-param/post-inc", "C12/lit/other-module/cast-let", "C12/sym/fn/lower/diamond/return"} {
		if _, ok := idx[want]; ok {
			ids = append(ids, want)
		}
	}
	sort.Strings(ids)
	for _, id := range ids {
		c.Sample(map[string]any{"id": id, "files": progs[idx[id]].files})
	}
	c.Assume = append(c.Assume,
		"the verdict is the front end's (check pipeline up to MIR lowering), reached in-process exactly as compiler.Compile builds it",
		"methods are not listed by the property text: a lowercase method called from another module, and `(receiver).field`, are either-cases (counted)",
		"a closure literal written inside a method counts as 'inside the method' for receiver.field")
	bound := "quick: depth-1 contexts and type constructors, 9 import shapes"
	if !c.Quick() {
		bound = "thorough: adds depth-2 expression contexts and type constructors, three-module chains, sub-directory to sub-directory imports"
	}
	c.Finish(vl.Coverage{Evaluations: evals, Exhaustive: true,
		Rule:  "complete product kind x case x import shape x site (values: expression contexts; types: position x constructor) + field case x accessor x use x placement + struct literals + methods; distinct_nontrivial = private-access programs whose Upper twin is accepted",
		Bound: bound})
}
