// Package run compiles Ferret projects with the real `ferret` binary built from the working
// tree and executes the results (native directly, wasm under node with the shipped runtime.js).
package run

import (
	"bytes"
	"context"
	"encoding/json"
	"fmt"
	"os"
	"os/exec"
	"path/filepath"
	"strconv"
	"strings"
	"sync"
	"sync/atomic"
	"syscall"
	"time"

	"compiler/verifh/fe"
	"compiler/verifh/vl"
)

type Runner struct {
	Ferret, Libs, W, Repo, Dir string
	seq                        int64
	CompileTimeout, RunTimeout time.Duration
	// Fast: native compilations run the real pipeline (front end, QBE, as, ld) inside
	// long-lived worker processes instead of starting `ferret` once per program. Process
	// creation is what limits throughput in this sandbox (about 100 exec/s for the whole
	// machine, whatever the parallelism), and a ferret run costs twelve. Callers re-observe
	// every disagreement with the real binary (Real*), and FastCross() programs are compiled
	// both ways and compared.
	Fast     bool
	realOnce sync.Once
	real     *Runner
	prefix   string
	poolOnce sync.Once
	pool     *fe.Pool
	FastN    int64 // programs compiled in-process
	FastFell int64 // in-process attempts that fell back to the binary (worker died / timed out)
}

func New(c *vl.Ctx) *Runner {
	return &Runner{Ferret: c.BuildFerret(), Libs: c.BuildRuntime(), W: c.W, Repo: c.Repo, Dir: c.Dir,
		CompileTimeout: 120 * time.Second, RunTimeout: 20 * time.Second}
}

// Proc is the observation of one process.
type Proc struct {
	Stdout, Stderr string
	Exit           int    // exit status (-1 if signalled / not started)
	Signal         string // name of the terminating signal, if any
	Timeout        bool
	StartErr       string
}

func (p Proc) OK() bool { return p.Exit == 0 && p.Signal == "" && !p.Timeout && p.StartErr == "" }

func (p Proc) Term() string {
	switch {
	case p.StartErr != "":
		return "starterr:" + p.StartErr
	case p.Timeout:
		return "timeout"
	case p.Signal != "":
		return "signal:" + p.Signal
	default:
		return fmt.Sprintf("exit:%d", p.Exit)
	}
}

func runProc(timeout time.Duration, dir string, env []string, name string, args ...string) Proc {
	ctx, cancel := context.WithTimeout(context.Background(), timeout)
	defer cancel()
	cmd := exec.CommandContext(ctx, name, args...)
	cmd.Dir = dir
	if env != nil {
		cmd.Env = append(os.Environ(), env...)
	}
	var so, se bytes.Buffer
	cmd.Stdout, cmd.Stderr = &so, &se
	cmd.SysProcAttr = &syscall.SysProcAttr{Setpgid: true}
	cmd.Cancel = func() error { return syscall.Kill(-cmd.Process.Pid, syscall.SIGKILL) }
	cmd.WaitDelay = 2 * time.Second
	err := cmd.Run()
	p := Proc{Stdout: so.String(), Stderr: se.String()}
	if ctx.Err() == context.DeadlineExceeded {
		p.Timeout = true
		p.Exit = -1
		return p
	}
	if err != nil {
		if ee, ok := err.(*exec.ExitError); ok {
			ws := ee.Sys().(syscall.WaitStatus)
			if ws.Signaled() {
				p.Signal = ws.Signal().String()
				p.Exit = -1
			} else {
				p.Exit = ws.ExitStatus()
			}
		} else {
			p.StartErr = err.Error()
			p.Exit = -1
		}
	}
	return p
}

// Real returns a runner on the same scratch area that always starts the `ferret` binary
// (used to confirm what a fast runner observed before it is reported).
func (r *Runner) Real() *Runner {
	if !r.Fast {
		return r
	}
	r.realOnce.Do(func() {
		r.real = &Runner{Ferret: r.Ferret, Libs: r.Libs, W: r.W, Repo: r.Repo, Dir: r.Dir, CompileTimeout: r.CompileTimeout, RunTimeout: r.RunTimeout, prefix: "r"}
	})
	return r.real
}

// NewDir returns a fresh project directory.
func (r *Runner) NewDir() string {
	pre := r.prefix
	if pre == "" {
		pre = "p"
	}
	d := filepath.Join(r.W, "run", fmt.Sprintf("%s%d", pre, atomic.AddInt64(&r.seq, 1)))
	os.MkdirAll(d, 0o755)
	return d
}

func WriteFiles(dir string, files map[string]string) {
	for name, content := range files {
		fp := filepath.Join(dir, name)
		os.MkdirAll(filepath.Dir(fp), 0o755)
		os.WriteFile(fp, []byte(content), 0o644)
	}
}

// Built is the outcome of one compilation.
type Built struct {
	Dir      string
	Compile  Proc
	Artifact string // path of executable / .wasm ("" if absent)
	Exists   bool
}

var ansi = strings.NewReplacer()

// compilerEnv: throughput-oriented runners (Fast) start the compiler with GOMAXPROCS=1, which
// doubles the number of compilations per second on a busy machine; what the compiler produces
// does not depend on it (that is property C14, checked separately under every schedule).
func (r *Runner) compilerEnv() []string {
	env := []string{"FERRET_LIBS_PATH=" + r.Libs}
	if r.Fast {
		env = append(env, "GOMAXPROCS=1")
	}
	return env
}

// FastWorkers is the size of the in-process compile pool: throughput peaks at 6-8 workers here.
var FastWorkers = 8

func (r *Runner) fastPool() *fe.Pool {
	r.poolOnce.Do(func() {
		n := FastWorkers
		if v, err := strconv.Atoi(os.Getenv("VERIF_FASTWORKERS")); err == nil && v > 0 {
			n = v
		}
		r.pool = fe.NewPool(filepath.Join(r.W, "fastfe"), r.Libs, n)
		r.pool.Env = []string{"FERRET_LIBS_PATH=" + r.Libs, "GOMAXPROCS=1"}
	})
	return r.pool
}

// FrontEnd runs the front end alone (no code generation) on n single-file programs in the
// in-process workers and reports acceptance and the rendered diagnostics of each.
func (r *Runner) FrontEnd(n int, src func(i int) string, f func(i int, ok bool, msg string)) {
	r.fastPool().Map(n, func(i int) *fe.Project {
		return &fe.Project{Files: map[string]string{"main.fer": src(i)}, Entry: "main.fer", Mode: "check", WantText: true}
	}, func(i int, res *fe.Result) {
		if res.Timeout || res.Crash != "" {
			f(i, true, "") // no answer: let the pack decide
			return
		}
		if res.Panic != "" {
			f(i, false, "panic: "+res.Panic)
			return
		}
		f(i, res.Success, res.Rendered)
	})
}

// Close stops the in-process compile workers (if any were started).
func (r *Runner) Close() {
	if r.pool != nil {
		r.pool.Close()
	}
}

// CompileNative compiles <dir>/<entry> to <dir>/out.bin: in-process when r.Fast, else by
// running the `ferret` binary.
func (r *Runner) CompileNative(dir, entry string, extra ...string) Built {
	if r.Fast && len(extra) == 0 {
		res := r.fastPool().Do(&fe.Project{Dir: dir, Entry: entry, Mode: "native", WantText: true})
		if !res.Timeout && res.Crash == "" {
			atomic.AddInt64(&r.FastN, 1)
			out := filepath.Join(dir, "out.bin")
			b := Built{Dir: dir, Artifact: out}
			switch {
			case res.Panic != "":
				b.Compile = Proc{Exit: 2, Stderr: "panic: " + res.Panic + "\n\tat " + res.PanicFrame}
			case !res.Success:
				b.Compile = Proc{Exit: 1, Stderr: res.Rendered}
			default:
				b.Compile = Proc{Exit: 0, Stderr: res.Rendered}
			}
			if _, err := os.Stat(out); err == nil {
				b.Exists = true
			}
			return b
		}
		atomic.AddInt64(&r.FastFell, 1)
	}
	return r.RealCompileNative(dir, entry, extra...)
}

// RealCompileNative runs `ferret -o <dir>/out.bin <entry>`.
func (r *Runner) RealCompileNative(dir, entry string, extra ...string) Built {
	out := filepath.Join(dir, "out.bin")
	os.Remove(out)
	args := append(append([]string{}, extra...), "-o", out, filepath.Join(dir, entry))
	p := runProc(r.CompileTimeout, dir, r.compilerEnv(), r.Ferret, args...)
	b := Built{Dir: dir, Compile: p, Artifact: out}
	if _, err := os.Stat(out); err == nil {
		b.Exists = true
	}
	return b
}

// CompileWasm runs `ferret -target wasm -o <dir>/out.wasm <entry>`.
func (r *Runner) CompileWasm(dir, entry string) Built {
	out := filepath.Join(dir, "out.wasm")
	p := runProc(r.CompileTimeout, dir, r.compilerEnv(), r.Ferret, "-target", "wasm", "-o", out, filepath.Join(dir, entry))
	b := Built{Dir: dir, Compile: p, Artifact: out}
	if _, err := os.Stat(out); err == nil {
		b.Exists = true
	}
	return b
}

// Exec runs a native executable with stdout/stderr on pipes.
// A run that does not finish in RunTimeout (thousands of times the normal cost) is repeated
// once with six times that before it is reported as a timeout: only a program that hangs
// twice counts, never a loaded machine.
func (r *Runner) Exec(b Built) Proc {
	p := runProc(r.RunTimeout, b.Dir, nil, b.Artifact)
	if p.Timeout {
		p = runProc(6*r.RunTimeout, b.Dir, nil, b.Artifact)
	}
	return p
}

// NodeResult is the observation of one wasm module run under node.
type NodeResult struct {
	Stdout  string `json:"stdout"`
	Kind    string `json:"kind"` // ok | panic | trap | invalid | timeout
	Message string `json:"message"`
}

// Node runs a batch of modules in one node process (each in its own fresh runtime
// instance); a hang of the batch falls back to one process per module.
func (r *Runner) Node(wasms []string) []NodeResult {
	script := filepath.Join(r.Dir, "tools", "wasmrun.js")
	rt := filepath.Join(r.Repo, "runtime", "wasm", "runtime.js")
	args := append([]string{script, rt}, wasms...)
	p := runProc(r.RunTimeout+time.Duration(len(wasms))*200*time.Millisecond, r.W, nil, "node", args...)
	var res []NodeResult
	if !p.Timeout {
		dec := json.NewDecoder(strings.NewReader(p.Stdout))
		for dec.More() {
			var x NodeResult
			if err := dec.Decode(&x); err != nil {
				break
			}
			res = append(res, x)
		}
	}
	if len(res) == len(wasms) {
		return res
	}
	if len(wasms) == 1 {
		if p.Timeout {
			return []NodeResult{{Kind: "timeout"}}
		}
		return []NodeResult{{Kind: "invalid", Message: "node runner failed: " + p.Term() + " " + firstLine(p.Stderr)}}
	}
	res = res[:0]
	for _, w := range wasms {
		res = append(res, r.Node([]string{w})[0])
	}
	return res
}

func firstLine(s string) string {
	s = strings.TrimSpace(s)
	if i := strings.IndexByte(s, '\n'); i >= 0 {
		return s[:i]
	}
	return s
}

// StripANSI removes colour escapes.
func StripANSI(s string) string {
	var b strings.Builder
	for i := 0; i < len(s); i++ {
		if s[i] == 0x1b && i+1 < len(s) && s[i+1] == '[' {
			j := i + 2
			for j < len(s) && !(s[j] >= '@' && s[j] <= '~') {
				j++
			}
			i = j
			continue
		}
		b.WriteByte(s[i])
	}
	return b.String()
}
