package c01

import (
	"fmt"
	"math/big"

	"compiler/verifh/fl"
	"compiler/verifh/prog"
)

func mainProg(p *fl.Program, body ...fl.Stmt) *fl.Program {
	p.Funcs = append(p.Funcs, &fl.Func{Name: "main", Body: body})
	return p
}

// ------------------------------------------------------------------ order

// tracer t<i>() prints its own name and returns i (i32); bt<i>_<v>() prints and returns a bool.
func tracer(p *fl.Program, k K, i int) fl.Expr {
	name := k.N(fmt.Sprintf("t%d", i))
	if p.Func(name) == nil {
		p.Funcs = append(p.Funcs, &fl.Func{Name: name, Ret: fl.I32, Body: []fl.Stmt{fl.P(fl.S(fmt.Sprintf("t%d", i))), &fl.Return{X: fl.L(fl.I32, int64(i))}}})
	}
	return fl.C(name)
}
func btracer(p *fl.Program, k K, i int, v bool) fl.Expr {
	name := k.N(fmt.Sprintf("b%d", i))
	if p.Func(name) == nil {
		p.Funcs = append(p.Funcs, &fl.Func{Name: name, Ret: fl.Bool, Body: []fl.Stmt{fl.P(fl.S(fmt.Sprintf("b%d", i))), &fl.Return{X: &fl.BoolLit{V: v}}}})
	}
	return fl.C(name)
}

type shape struct {
	op   string // "" leaf, "+", "-", "*", "call2", "call3"
	kids []*shape
}

func shapes(depth int) []*shape {
	if depth == 0 {
		return []*shape{{}}
	}
	sub := shapes(depth - 1)
	out := []*shape{{}}
	for _, op := range []string{"+", "-", "call2"} {
		for _, a := range sub {
			for _, b := range sub {
				out = append(out, &shape{op, []*shape{a, b}})
			}
		}
	}
	for _, a := range sub {
		for _, b := range sub {
			for _, c := range sub {
				if depth > 1 && a.op != "" && b.op != "" && c.op != "" && a.op != c.op {
					continue // thin the ternary nodes a little at depth 2
				}
				out = append(out, &shape{"call3", []*shape{a, b, c}})
			}
		}
	}
	return out
}

func (s *shape) String() string {
	if s.op == "" {
		return "t"
	}
	r := s.op + "("
	for i, k := range s.kids {
		if i > 0 {
			r += ","
		}
		r += k.String()
	}
	return r + ")"
}

func (s *shape) build(p *fl.Program, k K, next *int) fl.Expr {
	if s.op == "" {
		*next++
		return tracer(p, k, *next)
	}
	var xs []fl.Expr
	for _, c := range s.kids {
		xs = append(xs, c.build(p, k, next))
	}
	switch s.op {
	case "+", "-", "*":
		return fl.B(s.op, xs[0], xs[1])
	case "call2":
		name := k.N("f2")
		if p.Func(name) == nil {
			p.Funcs = append(p.Funcs, &fl.Func{Name: name, Params: []fl.Param{{"a", fl.I32}, {"b", fl.I32}}, Ret: fl.I32,
				Body: []fl.Stmt{fl.P(fl.S("f2")), &fl.Return{X: fl.B("-", fl.B("*", fl.V("a"), fl.L(fl.I32, 3)), fl.V("b"))}}})
		}
		return fl.C(name, xs...)
	default:
		name := k.N("f3")
		if p.Func(name) == nil {
			p.Funcs = append(p.Funcs, &fl.Func{Name: name, Params: []fl.Param{{"a", fl.I32}, {"b", fl.I32}, {"c", fl.I32}}, Ret: fl.I32,
				Body: []fl.Stmt{fl.P(fl.S("f3")), &fl.Return{X: fl.B("+", fl.B("-", fl.B("*", fl.V("a"), fl.L(fl.I32, 5)), fl.V("b")), fl.B("*", fl.V("c"), fl.L(fl.I32, 7)))}}})
		}
		return fl.C(name, xs...)
	}
}

func famOrder(quick bool) []*prog.Case {
	var out []*prog.Case
	d := 2
	seen := map[string]bool{}
	for _, s := range shapes(d) {
		if s.op == "" || seen[s.String()] {
			continue
		}
		seen[s.String()] = true
		s := s
		for _, ctx := range []string{"print", "let", "arg"} {
			ctx := ctx
			if quick && ctx != "print" && len(s.String()) > 24 {
				continue
			}
			out = append(out, mk("C01/order/expr/"+ctx+"/"+s.String(), func(k K) *fl.Program {
				p := &fl.Program{}
				n := 0
				e := s.build(p, k, &n)
				switch ctx {
				case "print":
					return mainProg(p, fl.P(e))
				case "let":
					return mainProg(p, &fl.Let{Name: "v", T: fl.I32, Init: e}, fl.P(fl.V("v")))
				default:
					p.Funcs = append(p.Funcs, &fl.Func{Name: k.N("show"), Params: []fl.Param{{"v", fl.I32}}, Body: []fl.Stmt{fl.P(fl.V("v"))}})
					return mainProg(p, &fl.ExprStmt{X: fl.C(k.N("show"), e)})
				}
			}))
		}
	}
	// statements with several evaluated parts
	out = append(out, mk("C01/order/structlit", func(k K) *fl.Program {
		p := &fl.Program{}
		st := &fl.TStruct{Name: k.N("Pair"), Fields: []fl.Field{{"A", fl.I32}, {"B", fl.I32}, {"C", fl.I32}}}
		p.Structs = append(p.Structs, st)
		return mainProg(p, &fl.Let{Name: "s", Init: &fl.StructLit{T: st, Vals: []fl.Expr{tracer(p, k, 1), tracer(p, k, 2), tracer(p, k, 3)}}},
			fl.P(fl.F(fl.V("s"), "A")), fl.P(fl.F(fl.V("s"), "B")), fl.P(fl.F(fl.V("s"), "C")))
	}))
	out = append(out, mk("C01/order/arrlit-fixed", func(k K) *fl.Program {
		p := &fl.Program{}
		return mainProg(p, &fl.Let{Name: "a", T: fl.TArr{N: 3, Elem: fl.I32}, Init: &fl.ArrLit{Elems: []fl.Expr{tracer(p, k, 1), tracer(p, k, 2), tracer(p, k, 3)}}},
			fl.P(fl.Ix(fl.V("a"), fl.L(fl.I32, 0))), fl.P(fl.Ix(fl.V("a"), fl.L(fl.I32, 2))))
	}))
	out = append(out, mk("C01/order/arrlit-dyn", func(k K) *fl.Program {
		p := &fl.Program{}
		return mainProg(p, &fl.Let{Name: "a", T: fl.TDyn{Elem: fl.I32}, Init: &fl.ArrLit{Elems: []fl.Expr{tracer(p, k, 1), tracer(p, k, 2), tracer(p, k, 3)}}},
			fl.P(fl.Ix(fl.V("a"), fl.L(fl.I32, 0))), fl.P(fl.Ix(fl.V("a"), fl.L(fl.I32, 2))))
	}))
	for _, form := range []string{"assign", "opassign", "read"} {
		form := form
		out = append(out, mk("C01/order/dyn-index-"+form, func(k K) *fl.Program {
			p := &fl.Program{}
			body := []fl.Stmt{&fl.Let{Name: "d", T: fl.TDyn{Elem: fl.I32}, Init: &fl.ArrLit{Elems: []fl.Expr{fl.L(fl.I32, 10), fl.L(fl.I32, 20), fl.L(fl.I32, 30), fl.L(fl.I32, 40)}}}}
			switch form {
			case "assign":
				body = append(body, &fl.Assign{LHS: fl.Ix(fl.V("d"), tracer(p, k, 1)), RHS: tracer(p, k, 2)})
			case "opassign":
				body = append(body, &fl.OpAssign{Op: "+=", LHS: fl.Ix(fl.V("d"), tracer(p, k, 1)), RHS: tracer(p, k, 2)})
			case "read":
				body = append(body, fl.P(fl.B("+", fl.Ix(fl.V("d"), tracer(p, k, 1)), fl.Ix(fl.V("d"), tracer(p, k, 2)))))
			}
			for i := 0; i < 4; i++ {
				body = append(body, fl.P(fl.Ix(fl.V("d"), fl.L(fl.I32, int64(i)))))
			}
			return mainProg(p, body...)
		}))
	}
	// logical operators on pure operands (the statement pins left-to-right order, not
	// short-circuiting, so operands with side effects are deliberately not used)
	for _, op := range []string{"&&", "||"} {
		for _, a := range []bool{false, true} {
			for _, b := range []bool{false, true} {
				for _, c := range []bool{false, true} {
					op, a, b, c := op, a, b, c
					out = append(out, mk(fmt.Sprintf("C01/order/logical/%s/%v%v%v", opName2(op), a, b, c), func(k K) *fl.Program {
						p := &fl.Program{}
						other := map[string]string{"&&": "||", "||": "&&"}[op]
						pre := []fl.Stmt{&fl.Let{Name: "a", T: fl.Bool, Init: &fl.BoolLit{V: a}}, &fl.Let{Name: "b", T: fl.Bool, Init: &fl.BoolLit{V: b}}, &fl.Let{Name: "c", T: fl.Bool, Init: &fl.BoolLit{V: c}}}
						e1 := fl.B(op, fl.V("a"), fl.V("b"))
						e2 := fl.B(other, fl.B(op, fl.V("a"), fl.V("b")), fl.V("c"))
						e3 := fl.B(op, fl.V("a"), fl.B(other, fl.V("b"), &fl.Un{Op: "!", X: fl.V("c")}))
						return mainProg(p, append(pre, fl.P(e1), fl.P(e3), &fl.If{Cond: e2, Then: []fl.Stmt{fl.P(fl.S("then"))}, Else: []fl.Stmt{fl.P(fl.S("else"))}})...)
					}))
				}
			}
		}
	}
	out = append(out, mk("C01/order/method-recv-args", func(k K) *fl.Program {
		p := &fl.Program{}
		st := &fl.TStruct{Name: k.N("Acc"), Fields: []fl.Field{{"V", fl.I32}}}
		p.Structs = append(p.Structs, st)
		p.Funcs = append(p.Funcs, &fl.Func{Name: "mix", Recv: &fl.Param{"s", st}, Params: []fl.Param{{"a", fl.I32}, {"b", fl.I32}}, Ret: fl.I32,
			Body: []fl.Stmt{fl.P(fl.S("mix")), &fl.Return{X: fl.B("+", fl.B("*", fl.F(fl.V("s"), "V"), fl.L(fl.I32, 100)), fl.B("-", fl.B("*", fl.V("a"), fl.L(fl.I32, 10)), fl.V("b")))}}})
		p.Funcs = append(p.Funcs, &fl.Func{Name: k.N("mkacc"), Ret: st, Body: []fl.Stmt{fl.P(fl.S("mkacc")), &fl.Return{X: &fl.StructLit{T: st, Vals: []fl.Expr{fl.L(fl.I32, 4)}}}}})
		return mainProg(p, &fl.Let{Name: "o", Init: fl.C(k.N("mkacc"))}, fl.P(&fl.MCall{Recv: fl.V("o"), Name: "mix", Args: []fl.Expr{tracer(p, k, 1), tracer(p, k, 2)}}))
	}))
	return out
}

func opName2(op string) string { return map[string]string{"&&": "and", "||": "or"}[op] }

// ------------------------------------------------------------------ by-value composites

type comp struct {
	name   string
	t      fl.Type
	decls  func(p *fl.Program)
	mk     func(base int64) fl.Expr         // constructor with sentinels base+1, base+2, ...
	leaves []func(x fl.Expr) fl.Expr        // all leaf paths
	leafT  []fl.TInt
}

func comps(k K) []comp {
	s1 := &fl.TStruct{Name: k.N("S1"), Fields: []fl.Field{{"A", fl.I32}}}
	s2 := &fl.TStruct{Name: k.N("S2"), Fields: []fl.Field{{"A", fl.I8}, {"B", fl.I64}}}
	s3 := &fl.TStruct{Name: k.N("S3"), Fields: []fl.Field{{"A", fl.I32}, {"B", fl.I64}, {"C", fl.I8}}}
	nest := &fl.TStruct{Name: k.N("Nest"), Fields: []fl.Field{{"In", s2}, {"Z", fl.I32}}}
	sarr := &fl.TStruct{Name: k.N("SArr"), Fields: []fl.Field{{"Arr", fl.TArr{N: 2, Elem: fl.I32}}, {"Z", fl.I32}}}
	i0 := func(i int64) fl.Expr { return fl.L(fl.I32, i) }
	fld := func(n string) func(fl.Expr) fl.Expr { return func(x fl.Expr) fl.Expr { return fl.F(x, n) } }
	idx := func(i int64) func(fl.Expr) fl.Expr { return func(x fl.Expr) fl.Expr { return fl.Ix(x, i0(i)) } }
	then := func(f, g func(fl.Expr) fl.Expr) func(fl.Expr) fl.Expr {
		return func(x fl.Expr) fl.Expr { return g(f(x)) }
	}
	mkS2 := func(b int64) fl.Expr {
		return &fl.StructLit{T: s2, Vals: []fl.Expr{fl.L(fl.I8, b+1), fl.L(fl.I64, b+2)}}
	}
	return []comp{
		{"S1", s1, func(p *fl.Program) { p.Structs = append(p.Structs, s1) }, func(b int64) fl.Expr { return &fl.StructLit{T: s1, Vals: []fl.Expr{fl.L(fl.I32, b+1)}} },
			[]func(fl.Expr) fl.Expr{fld("A")}, []fl.TInt{fl.I32}},
		{"S2", s2, func(p *fl.Program) { p.Structs = append(p.Structs, s2) }, mkS2, []func(fl.Expr) fl.Expr{fld("A"), fld("B")}, []fl.TInt{fl.I8, fl.I64}},
		{"S3", s3, func(p *fl.Program) { p.Structs = append(p.Structs, s3) }, func(b int64) fl.Expr {
			return &fl.StructLit{T: s3, Vals: []fl.Expr{fl.L(fl.I32, b+1), fl.L(fl.I64, b+2), fl.L(fl.I8, b+3)}}
		}, []func(fl.Expr) fl.Expr{fld("A"), fld("B"), fld("C")}, []fl.TInt{fl.I32, fl.I64, fl.I8}},
		{"Nest", nest, func(p *fl.Program) { p.Structs = append(p.Structs, s2, nest) }, func(b int64) fl.Expr {
			return &fl.StructLit{T: nest, Vals: []fl.Expr{mkS2(b), fl.L(fl.I32, b+3)}}
		}, []func(fl.Expr) fl.Expr{then(fld("In"), fld("A")), then(fld("In"), fld("B")), fld("Z")}, []fl.TInt{fl.I8, fl.I64, fl.I32}},
		{"Arr3", fl.TArr{N: 3, Elem: fl.I32}, func(p *fl.Program) {}, func(b int64) fl.Expr {
			return &fl.ArrLit{Elems: []fl.Expr{fl.L(fl.I32, b+1), fl.L(fl.I32, b+2), fl.L(fl.I32, b+3)}}
		}, []func(fl.Expr) fl.Expr{idx(0), idx(1), idx(2)}, []fl.TInt{fl.I32, fl.I32, fl.I32}},
		{"ArrS2", fl.TArr{N: 2, Elem: s2}, func(p *fl.Program) { p.Structs = append(p.Structs, s2) }, func(b int64) fl.Expr {
			return &fl.ArrLit{Elems: []fl.Expr{mkS2(b), mkS2(b + 2)}}
		}, []func(fl.Expr) fl.Expr{then(idx(0), fld("A")), then(idx(0), fld("B")), then(idx(1), fld("A")), then(idx(1), fld("B"))}, []fl.TInt{fl.I8, fl.I64, fl.I8, fl.I64}},
		{"SArr", sarr, func(p *fl.Program) { p.Structs = append(p.Structs, sarr) }, func(b int64) fl.Expr {
			return &fl.StructLit{T: sarr, Vals: []fl.Expr{&fl.ArrLit{Elems: []fl.Expr{fl.L(fl.I32, b+1), fl.L(fl.I32, b+2)}}, fl.L(fl.I32, b+3)}}
		}, []func(fl.Expr) fl.Expr{then(fld("Arr"), idx(0)), then(fld("Arr"), idx(1)), fld("Z")}, []fl.TInt{fl.I32, fl.I32, fl.I32}},
	}
}

func printAll(c comp, x fl.Expr) []fl.Stmt {
	var s []fl.Stmt
	for _, l := range c.leaves {
		s = append(s, fl.P(l(x)))
	}
	return s
}

func famByValue(quick bool) []*prog.Case {
	var out []*prog.Case
	ncomp := len(comps(K{}))
	scen := []string{"copy-mutate-copy", "copy-mutate-orig", "assign-then-mutate", "pass-mutate-param", "return-fresh", "return-param", "method-value-recv", "method-mutref-recv", "method-ref-recv-read", "mutref-param"}
	for ci := 0; ci < ncomp; ci++ {
		for _, sc := range scen {
			for _, decl := range []string{"typed", "inferred"} {
				nl := len(comps(K{})[ci].leaves)
				for li := 0; li < nl; li++ {
					if quick && li != 0 && li != nl-1 {
						continue
					}
					ci, sc, decl, li := ci, sc, decl, li
					cname := comps(K{})[ci].name
					isStruct := cname[0] == 'S' || cname == "Nest"
					if (sc == "method-value-recv" || sc == "method-mutref-recv" || sc == "method-ref-recv-read") && !isStruct {
						continue
					}
					if decl == "inferred" && (cname == "Arr3" || cname == "ArrS2") {
						continue // `let a := [..]` infers a dynamic array, not [N]T
					}
					out = append(out, mk(fmt.Sprintf("C01/byvalue/%s/%s/%s/leaf%d", cname, sc, decl, li), func(k K) *fl.Program {
						c := comps(k)[ci]
						p := &fl.Program{}
						c.decls(p)
						let := func(name string, init fl.Expr) fl.Stmt {
							if decl == "typed" {
								return &fl.Let{Name: name, T: c.t, Init: bare(init)}
							}
							return &fl.Let{Name: name, Init: init}
						}
						lt := c.leafT[li]
						mut := func(x fl.Expr) fl.Stmt { return &fl.Assign{LHS: c.leaves[li](x), RHS: fl.L(lt, 77)} }
						var body []fl.Stmt
						a, b := fl.V("a"), fl.V("b")
						switch sc {
						case "copy-mutate-copy":
							body = append(body, let("a", c.mk(10)), let("b", a), mut(b))
							body = append(append(body, printAll(c, a)...), printAll(c, b)...)
						case "copy-mutate-orig":
							body = append(body, let("a", c.mk(10)), let("b", a), mut(a))
							body = append(append(body, printAll(c, a)...), printAll(c, b)...)
						case "assign-then-mutate":
							body = append(body, let("a", c.mk(10)), let("b", c.mk(20)), &fl.Assign{LHS: a, RHS: b}, mut(b))
							body = append(append(body, printAll(c, a)...), printAll(c, b)...)
						case "pass-mutate-param":
							fb := append([]fl.Stmt{mut(fl.V("v"))}, printAll(c, fl.V("v"))...)
							p.Funcs = append(p.Funcs, &fl.Func{Name: k.N("take"), Params: []fl.Param{{"v", c.t}}, Body: fb})
							body = append(body, let("a", c.mk(10)), &fl.ExprStmt{X: fl.C(k.N("take"), a)})
							body = append(body, printAll(c, a)...)
						case "return-fresh":
							p.Funcs = append(p.Funcs, &fl.Func{Name: k.N("make"), Ret: c.t, Body: []fl.Stmt{let("v", c.mk(30)), mut(fl.V("v")), &fl.Return{X: fl.V("v")}}})
							body = append(body, let("a", fl.C(k.N("make"))), let("b", fl.C(k.N("make"))), mut(a))
							body = append(append(body, printAll(c, a)...), printAll(c, b)...)
						case "return-param":
							p.Funcs = append(p.Funcs, &fl.Func{Name: k.N("same"), Params: []fl.Param{{"v", c.t}}, Ret: c.t, Body: []fl.Stmt{&fl.Return{X: fl.V("v")}}})
							body = append(body, let("a", c.mk(10)), let("b", fl.C(k.N("same"), a)), mut(b))
							body = append(append(body, printAll(c, a)...), printAll(c, b)...)
						case "method-value-recv":
							fb := append([]fl.Stmt{mut(fl.V("s"))}, printAll(c, fl.V("s"))...)
							p.Funcs = append(p.Funcs, &fl.Func{Name: "poke", Recv: &fl.Param{"s", c.t}, Body: fb})
							body = append(body, let("a", c.mk(10)), &fl.ExprStmt{X: &fl.MCall{Recv: a, Name: "poke"}})
							body = append(body, printAll(c, a)...)
						case "method-mutref-recv":
							p.Funcs = append(p.Funcs, &fl.Func{Name: "poke", Recv: &fl.Param{"s", fl.TRef{Elem: c.t, Mut: true}}, Body: []fl.Stmt{mut(fl.V("s"))}})
							body = append(body, let("a", c.mk(10)), let("b", a), &fl.ExprStmt{X: &fl.MCall{Recv: a, Name: "poke"}})
							body = append(append(body, printAll(c, a)...), printAll(c, b)...)
						case "method-ref-recv-read":
							p.Funcs = append(p.Funcs, &fl.Func{Name: "peek", Recv: &fl.Param{"s", fl.TRef{Elem: c.t}}, Ret: lt, Body: []fl.Stmt{&fl.Return{X: c.leaves[li](fl.V("s"))}}})
							body = append(body, let("a", c.mk(10)), fl.P(&fl.MCall{Recv: a, Name: "peek"}), mut(a), fl.P(&fl.MCall{Recv: a, Name: "peek"}))
						case "mutref-param":
							p.Funcs = append(p.Funcs, &fl.Func{Name: k.N("poke"), Params: []fl.Param{{"r", fl.TRef{Elem: c.t, Mut: true}}}, Body: []fl.Stmt{mut(fl.V("r"))}})
							body = append(body, let("a", c.mk(10)), let("b", a), &fl.ExprStmt{X: fl.C(k.N("poke"), &fl.Borrow{X: a, Mut: true})})
							body = append(append(body, printAll(c, a)...), printAll(c, b)...)
						}
						return mainProg(p, body...)
					}))
				}
			}
		}
	}
	return out
}

// bare drops the `as T` of a top-level struct literal when the binding is typed.
func bare(e fl.Expr) fl.Expr {
	if s, ok := e.(*fl.StructLit); ok {
		c := *s
		c.Bare = true
		return &c
	}
	return e
}

// ------------------------------------------------------------------ enums and match

func subsets(n int) [][]int {
	var out [][]int
	for m := 1; m < 1<<n; m++ {
		var s []int
		for i := 0; i < n; i++ {
			if m&(1<<i) != 0 {
				s = append(s, i)
			}
		}
		out = append(out, s)
	}
	return out
}

func famEnum(quick bool) []*prog.Case {
	var out []*prog.Case
	names := []string{"Red", "Green", "Blue", "Cyan"}
	for n := 1; n <= 4; n++ {
		for _, arms := range subsets(n) {
			for _, subj := range []string{"local", "param", "field", "call"} {
				if quick && n == 4 && subj != "local" && subj != "param" {
					continue
				}
				n, arms, subj := n, arms, subj
				out = append(out, mk(fmt.Sprintf("C01/enum/n%d/arms%v/%s", n, arms, subj), func(k K) *fl.Program {
					p := &fl.Program{}
					en := &fl.TEnum{Name: k.N("Color"), Variants: names[:n]}
					p.Enums = append(p.Enums, en)
					mkMatch := func(s fl.Expr) fl.Stmt {
						m := &fl.Match{Subj: s}
						for _, a := range arms {
							m.Arms = append(m.Arms, fl.Arm{Pat: &fl.EnumVal{T: en, V: names[a]}, Body: []fl.Stmt{fl.P(fl.S(names[a]))}})
						}
						if len(arms) < n {
							m.Arms = append(m.Arms, fl.Arm{Body: []fl.Stmt{fl.P(fl.S("other"))}})
						}
						return m
					}
					var body []fl.Stmt
					switch subj {
					case "param":
						p.Funcs = append(p.Funcs, &fl.Func{Name: k.N("show"), Params: []fl.Param{{"c", en}}, Body: []fl.Stmt{mkMatch(fl.V("c")), fl.P(fl.S("done"))}})
					case "field":
						st := &fl.TStruct{Name: k.N("Holder"), Fields: []fl.Field{{"C", en}, {"N", fl.I32}}}
						p.Structs = append(p.Structs, st)
						for v := 0; v < n; v++ {
							body = append(body, &fl.Let{Name: fmt.Sprintf("h%d", v), Init: &fl.StructLit{T: st, Vals: []fl.Expr{&fl.EnumVal{T: en, V: names[v]}, fl.L(fl.I32, int64(v))}}},
								mkMatch(fl.F(fl.V(fmt.Sprintf("h%d", v)), "C")))
						}
					case "call":
						for v := 0; v < n; v++ {
							p.Funcs = append(p.Funcs, &fl.Func{Name: k.N(fmt.Sprintf("get%d", v)), Ret: en, Body: []fl.Stmt{&fl.Return{X: &fl.EnumVal{T: en, V: names[v]}}}})
						}
					}
					for v := 0; v < n; v++ {
						switch subj {
						case "local":
							body = append(body, &fl.Let{Name: fmt.Sprintf("c%d", v), T: en, Init: &fl.EnumVal{T: en, V: names[v]}}, mkMatch(fl.V(fmt.Sprintf("c%d", v))))
						case "param":
							body = append(body, &fl.ExprStmt{X: fl.C(k.N("show"), &fl.EnumVal{T: en, V: names[v]})})
						case "call":
							body = append(body, mkMatch(fl.C(k.N(fmt.Sprintf("get%d", v)))))
						}
					}
					return mainProg(p, body...)
				}))
			}
		}
	}
	// match on integers and on strings
	for _, t := range []fl.TInt{fl.I32, fl.I8, fl.U8, fl.I64, fl.U64} {
		for _, arms := range subsets(3) {
			t, arms := t, arms
			pats := []int64{0, 1, 100}
			out = append(out, mk(fmt.Sprintf("C01/match-int/%s/arms%v", t, arms), func(k K) *fl.Program {
				p := &fl.Program{}
				m := &fl.Match{Subj: fl.V("x")}
				for _, a := range arms {
					m.Arms = append(m.Arms, fl.Arm{Pat: fl.L(t, pats[a]), Body: []fl.Stmt{fl.P(fl.S(fmt.Sprintf("is%d", pats[a])))}})
				}
				m.Arms = append(m.Arms, fl.Arm{Body: []fl.Stmt{fl.P(fl.S("other"))}})
				p.Funcs = append(p.Funcs, &fl.Func{Name: k.N("cls"), Params: []fl.Param{{"x", t}}, Body: []fl.Stmt{m}})
				var body []fl.Stmt
				for _, v := range []int64{0, 1, 2, 100} {
					body = append(body, &fl.ExprStmt{X: fl.C(k.N("cls"), fl.L(t, v))})
				}
				return mainProg(p, body...)
			}))
		}
	}
	for _, arms := range subsets(3) {
		arms := arms
		pats := []string{"", "a", "ab"}
		out = append(out, mk(fmt.Sprintf("C01/match-str/arms%v", arms), func(k K) *fl.Program {
			p := &fl.Program{}
			m := &fl.Match{Subj: fl.V("x")}
			for _, a := range arms {
				m.Arms = append(m.Arms, fl.Arm{Pat: fl.S(pats[a]), Body: []fl.Stmt{fl.P(fl.S(fmt.Sprintf("arm%d", a)))}})
			}
			m.Arms = append(m.Arms, fl.Arm{Body: []fl.Stmt{fl.P(fl.S("other"))}})
			p.Funcs = append(p.Funcs, &fl.Func{Name: k.N("cls"), Params: []fl.Param{{"x", fl.Str}}, Body: []fl.Stmt{m}})
			var body []fl.Stmt
			for _, v := range []string{"", "a", "ab", "b"} {
				body = append(body, &fl.ExprStmt{X: fl.C(k.N("cls"), fl.S(v))})
			}
			return mainProg(p, body...)
		}))
	}
	return out
}

// ------------------------------------------------------------------ functions, recursion, closures

func famFunc(quick bool) []*prog.Case {
	var out []*prog.Case
	for _, t := range []fl.TInt{fl.I32, fl.I64, fl.U8, fl.U64, fl.I8, fl.I128} {
		t := t
		out = append(out, mk("C01/func/factorial/"+t.String(), func(k K) *fl.Program {
			p := &fl.Program{}
			f := k.N("fact")
			p.Funcs = append(p.Funcs, &fl.Func{Name: f, Params: []fl.Param{{"n", t}}, Ret: t, Body: []fl.Stmt{
				&fl.Let{Name: "one", T: t, Init: fl.L(t, 1)},
				&fl.If{Cond: fl.B("<=", fl.V("n"), fl.V("one")), Then: []fl.Stmt{&fl.Return{X: fl.V("one")}}},
				&fl.Return{X: fl.B("*", fl.V("n"), fl.C(f, fl.B("-", fl.V("n"), fl.V("one"))))}}})
			var body []fl.Stmt
			for _, n := range []int64{0, 1, 5, 6, 10, 13} {
				body = append(body, fl.P(fl.C(f, fl.L(t, n))))
			}
			return mainProg(p, body...)
		}))
		out = append(out, mk("C01/func/fib/"+t.String(), func(k K) *fl.Program {
			p := &fl.Program{}
			f := k.N("fib")
			p.Funcs = append(p.Funcs, &fl.Func{Name: f, Params: []fl.Param{{"n", t}}, Ret: t, Body: []fl.Stmt{
				&fl.Let{Name: "two", T: t, Init: fl.L(t, 2)},
				&fl.If{Cond: fl.B("<", fl.V("n"), fl.V("two")), Then: []fl.Stmt{&fl.Return{X: fl.V("n")}}},
				&fl.Return{X: fl.B("+", fl.C(f, fl.B("-", fl.V("n"), fl.L(t, 1))), fl.C(f, fl.B("-", fl.V("n"), fl.V("two"))))}}})
			var body []fl.Stmt
			for _, n := range []int64{0, 1, 2, 10, 14} {
				body = append(body, fl.P(fl.C(f, fl.L(t, n))))
			}
			return mainProg(p, body...)
		}))
		out = append(out, mk("C01/func/evenodd/"+t.String(), func(k K) *fl.Program {
			p := &fl.Program{}
			ev, od := k.N("even"), k.N("odd")
			zero := fl.L(t, 0)
			p.Funcs = append(p.Funcs,
				&fl.Func{Name: ev, Params: []fl.Param{{"n", t}}, Ret: fl.Bool, Body: []fl.Stmt{&fl.Let{Name: "z", T: t, Init: zero},
					&fl.If{Cond: fl.B("==", fl.V("n"), fl.V("z")), Then: []fl.Stmt{&fl.Return{X: &fl.BoolLit{V: true}}}}, &fl.Return{X: fl.C(od, fl.B("-", fl.V("n"), fl.L(t, 1)))}}},
				&fl.Func{Name: od, Params: []fl.Param{{"n", t}}, Ret: fl.Bool, Body: []fl.Stmt{&fl.Let{Name: "z", T: t, Init: zero},
					&fl.If{Cond: fl.B("==", fl.V("n"), fl.V("z")), Then: []fl.Stmt{&fl.Return{X: &fl.BoolLit{V: false}}}}, &fl.Return{X: fl.C(ev, fl.B("-", fl.V("n"), fl.L(t, 1)))}}})
			var body []fl.Stmt
			for _, n := range []int64{0, 1, 7, 20} {
				body = append(body, fl.P(fl.C(ev, fl.L(t, n))))
			}
			return mainProg(p, body...)
		}))
	}
	// Ackermann(2, n) on i32
	out = append(out, mk("C01/func/ackermann", func(k K) *fl.Program {
		p := &fl.Program{}
		a := k.N("ack")
		z, o := fl.L(fl.I32, 0), fl.L(fl.I32, 1)
		p.Funcs = append(p.Funcs, &fl.Func{Name: a, Params: []fl.Param{{"m", fl.I32}, {"n", fl.I32}}, Ret: fl.I32, Body: []fl.Stmt{
			&fl.If{Cond: fl.B("==", fl.V("m"), z), Then: []fl.Stmt{&fl.Return{X: fl.B("+", fl.V("n"), o)}}},
			&fl.If{Cond: fl.B("==", fl.V("n"), z), Then: []fl.Stmt{&fl.Return{X: fl.C(a, fl.B("-", fl.V("m"), o), o)}}},
			&fl.Return{X: fl.C(a, fl.B("-", fl.V("m"), o), fl.C(a, fl.V("m"), fl.B("-", fl.V("n"), o)))}}})
		return mainProg(p, fl.P(fl.C(a, fl.L(fl.I32, 2), fl.L(fl.I32, 3))), fl.P(fl.C(a, fl.L(fl.I32, 1), fl.L(fl.I32, 5))))
	}))
	// parameters of every integer type, mixed in one signature; argument order
	for n := 1; n <= 6; n++ {
		n := n
		out = append(out, mk(fmt.Sprintf("C01/func/params/%d", n), func(k K) *fl.Program {
			p := &fl.Program{}
			ts := []fl.TInt{fl.I8, fl.I64, fl.U16, fl.I32, fl.U8, fl.U64}[:n]
			var ps []fl.Param
			var body []fl.Stmt
			var args []fl.Expr
			for i, t := range ts {
				ps = append(ps, fl.Param{fmt.Sprintf("p%d", i), t})
				body = append(body, fl.P(fl.V(fmt.Sprintf("p%d", i))))
				args = append(args, fl.LB(t, new(big.Int).Sub(t.Max(), big.NewInt(int64(i)))))
			}
			p.Funcs = append(p.Funcs, &fl.Func{Name: k.N("show"), Params: ps, Body: body})
			return mainProg(p, &fl.ExprStmt{X: fl.C(k.N("show"), args...)})
		}))
	}
	// closures: capture 0-3 never-reassigned locals of different types
	capT := []fl.TInt{fl.I32, fl.I64, fl.I8}
	for ncap := 0; ncap <= 3; ncap++ {
		for _, use := range []string{"direct", "passed", "returned", "nested"} {
			ncap, use := ncap, use
			out = append(out, mk(fmt.Sprintf("C01/closure/cap%d/%s", ncap, use), func(k K) *fl.Program {
				p := &fl.Program{}
				var pre []fl.Stmt
				sum := fl.Expr(fl.V("y"))
				for i := 0; i < ncap; i++ {
					n := fmt.Sprintf("c%d", i)
					pre = append(pre, &fl.Let{Name: n, T: capT[i], Init: fl.L(capT[i], int64(10*(i+1)))})
					sum = fl.B("+", sum, &fl.Cast{X: fl.V(n), T: fl.I64})
				}
				ft := fl.TFunc{Params: []fl.Type{fl.I64}, Ret: fl.I64}
				lit := &fl.FuncLit{Params: []fl.Param{{"y", fl.I64}}, Ret: fl.I64, Body: []fl.Stmt{&fl.Return{X: sum}}}
				switch use {
				case "direct":
					return mainProg(p, append(pre, &fl.Let{Name: "f", Init: lit}, fl.P(&fl.Call{Fn: "f", Args: []fl.Expr{fl.L(fl.I64, 1)}}), fl.P(&fl.Call{Fn: "f", Args: []fl.Expr{fl.L(fl.I64, 2)}}))...)
				case "passed":
					p.Funcs = append(p.Funcs, &fl.Func{Name: k.N("apply"), Params: []fl.Param{{"g", ft}, {"v", fl.I64}}, Ret: fl.I64,
						Body: []fl.Stmt{&fl.Return{X: fl.B("+", &fl.Call{Fn: "g", Args: []fl.Expr{fl.V("v")}}, &fl.Call{Fn: "g", Args: []fl.Expr{fl.L(fl.I64, 100)}})}}})
					return mainProg(p, append(pre, &fl.Let{Name: "f", Init: lit}, fl.P(fl.C(k.N("apply"), fl.V("f"), fl.L(fl.I64, 5))))...)
				case "returned":
					mkBody := append(append([]fl.Stmt{}, pre...), &fl.Return{X: lit})
					p.Funcs = append(p.Funcs, &fl.Func{Name: k.N("mk"), Ret: ft, Body: mkBody})
					return mainProg(p, &fl.Let{Name: "f", Init: fl.C(k.N("mk"))}, fl.P(&fl.Call{Fn: "f", Args: []fl.Expr{fl.L(fl.I64, 3)}}))
				default: // nested
					inner := &fl.FuncLit{Params: []fl.Param{{"z", fl.I64}}, Ret: fl.I64, Body: []fl.Stmt{&fl.Return{X: fl.B("*", fl.V("z"), sum)}}}
					outer := &fl.FuncLit{Params: []fl.Param{{"y", fl.I64}}, Ret: fl.I64, Body: []fl.Stmt{&fl.Let{Name: "h", Init: inner}, &fl.Return{X: &fl.Call{Fn: "h", Args: []fl.Expr{fl.L(fl.I64, 2)}}}}}
					return mainProg(p, append(pre, &fl.Let{Name: "f", Init: outer}, fl.P(&fl.Call{Fn: "f", Args: []fl.Expr{fl.L(fl.I64, 4)}}))...)
				}
			}))
		}
	}
	// closures over a variable that was assigned BEFORE the literal is created (and only read
	// afterwards, so by-value and by-reference capture agree): parameters live in registers
	// until their first assignment spills them, which is where a capture can pick up a stale copy
	for _, t := range []fl.TInt{fl.I32, fl.I64, fl.U8} {
		for _, kind := range []string{"param", "param2", "local", "recv-param"} {
			for _, asg := range []string{"assign", "op-assign", "incdec", "if-assign", "loop-assign", "two-assigns"} {
				for _, use := range []string{"call", "call-then-read", "call-twice"} {
					t, kind, asg, use := t, kind, asg, use
					out = append(out, mk(fmt.Sprintf("C01/closure-assigned/%s/%s/%s/%s", t, kind, asg, use), func(k K) *fl.Program {
						p := &fl.Program{}
						n := fl.V("n")
						var body []fl.Stmt
						if kind == "local" {
							body = append(body, &fl.Let{Name: "n", T: t, Init: fl.V("start")})
						}
						switch asg {
						case "assign":
							body = append(body, &fl.Assign{LHS: n, RHS: fl.B("+", n, fl.L(t, 7))})
						case "op-assign":
							body = append(body, &fl.OpAssign{Op: "*=", LHS: n, RHS: fl.L(t, 3)})
						case "incdec":
							body = append(body, &fl.IncDec{LHS: n, Inc: true})
						case "if-assign":
							body = append(body, &fl.If{Cond: fl.B(">", n, fl.L(t, 2)), Then: []fl.Stmt{&fl.Assign{LHS: n, RHS: fl.B("-", n, fl.L(t, 2))}}})
						case "loop-assign":
							body = append(body, &fl.Let{Name: "i", T: fl.I32, Init: fl.L(fl.I32, 0)},
								&fl.While{Cond: fl.B("<", fl.V("i"), fl.L(fl.I32, 3)), Body: []fl.Stmt{&fl.OpAssign{Op: "+=", LHS: n, RHS: fl.L(t, 5)}, &fl.IncDec{LHS: fl.V("i"), Inc: true}}})
						case "two-assigns":
							body = append(body, &fl.Assign{LHS: n, RHS: fl.B("+", n, fl.L(t, 1))}, fl.P(n), &fl.Assign{LHS: n, RHS: fl.B("*", n, fl.L(t, 2))})
						}
						lit := &fl.FuncLit{Params: []fl.Param{{"d", t}}, Ret: t, Body: []fl.Stmt{&fl.Return{X: fl.B("+", n, fl.V("d"))}}}
						body = append(body, &fl.Let{Name: "plus", Init: lit})
						call := func(v int64) fl.Expr { return &fl.Call{Fn: "plus", Args: []fl.Expr{fl.L(t, v)}} }
						switch use {
						case "call":
							body = append(body, &fl.Return{X: call(1)})
						case "call-then-read":
							body = append(body, fl.P(call(1)), &fl.Return{X: n})
						case "call-twice":
							body = append(body, fl.P(call(1)), &fl.Return{X: call(2)})
						}
						f := &fl.Func{Name: k.N("f"), Ret: t, Body: body}
						args := []fl.Expr{fl.L(t, 4)}
						switch kind {
						case "param":
							f.Params = []fl.Param{{"n", t}}
						case "param2":
							f.Params = []fl.Param{{"a", fl.I64}, {"n", t}}
							args = []fl.Expr{fl.L(fl.I64, 99), fl.L(t, 4)}
						case "local":
							f.Params = []fl.Param{{"start", t}}
						case "recv-param":
							st := &fl.TStruct{Name: k.N("R"), Fields: []fl.Field{{"A", fl.I32}}}
							p.Structs = append(p.Structs, st)
							f.Name = "run"
							f.Recv = &fl.Param{Name: "self", T: st}
							f.Params = []fl.Param{{"n", t}}
							p.Funcs = append(p.Funcs, f)
							recv := &fl.StructLit{T: st, Vals: []fl.Expr{fl.L(fl.I32, 1)}}
							return mainProg(p, &fl.Let{Name: "r", Init: recv}, fl.P(&fl.MCall{Recv: fl.V("r"), Name: "run", Args: args}))
						}
						p.Funcs = append(p.Funcs, f)
						return mainProg(p, fl.P(fl.C(k.N("f"), args...)))
					}))
				}
			}
		}
	}
	return out
}
