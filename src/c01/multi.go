package c01

import (
	"fmt"
	"os"
	"path/filepath"
	"strings"

	"compiler/verifh/prog"
	"compiler/verifh/run"
	"compiler/verifh/vl"
)

// ---------------------------------------------------------------------------------
// multi-module projects: what a back end calls a function, a type or a constant of another
// module must keep two modules apart whatever their paths and names have in common.

// MProj is a multi-file project with the lines its main must print.
type MProj struct {
	ID    string
	Files map[string]string
	Want  []string
}

func MultiProjects() []MProj {
	var out []MProj
	// two modules with the same last path segment / the same file name in different directories,
	// declaring the same names
	bodies := func(k int) string {
		return fmt.Sprintf("const Unit: i32 = %d;\ntype Shape struct { .W: i32 };\nfn (s: Shape) Area() -> i32 { return s.W * %d; }\nfn Make(w: i32) -> Shape { return { .W = w } as Shape; }\nfn Size(w: i32) -> i32 { return w * %d + helper(); }\nfn helper() -> i32 { return %d; }\n", k, k, k, k)
	}
	mainOf := func(a, b string) string {
		return "import \"std/io\";\nimport \"proj/" + a + "\" as ma;\nimport \"proj/" + b + "\" as mb;\n" +
			"fn helper() -> i32 { return 1000; }\nfn Size(w: i32) -> i32 { return w + helper(); }\n" +
			"fn main() {\n    io::Println(ma::Size(3));\n    io::Println(mb::Size(3));\n    io::Println(Size(3));\n    io::Println(ma::Unit);\n    io::Println(mb::Unit);\n" +
			"    let sa := ma::Make(2);\n    let sb := mb::Make(2);\n    io::Println(sa.Area());\n    io::Println(sb.Area());\n}\n"
	}
	for _, pr := range [][2]string{{"geo/plane/metrics", "geo/solid/metrics"}, {"a/util", "b/util"}, {"util", "sub/util"}, {"x/y/z", "x/z"}, {"one", "two"}, {"p_q/r", "p/q_r"}} {
		out = append(out, MProj{"same-names/" + strings.ReplaceAll(pr[0], "/", ".") + "+" + strings.ReplaceAll(pr[1], "/", "."),
			map[string]string{"main.fer": mainOf(pr[0], pr[1]), pr[0] + ".fer": bodies(3), pr[1] + ".fer": bodies(9)},
			[]string{"12", "36", "1003", "3", "9", "6", "18"}})
	}
	// the same module imported under two aliases, and a chain a -> b where both declare Size
	out = append(out, MProj{"two-aliases", map[string]string{
		"main.fer": "import \"std/io\";\nimport \"proj/lib\" as p;\nimport \"proj/lib\" as q;\nfn main() {\n    io::Println(p::Size(1));\n    io::Println(q::Size(2));\n}\n",
		"lib.fer":  bodies(5)}, []string{"10", "15"}})
	out = append(out, MProj{"chain-same-names", map[string]string{
		"main.fer":      "import \"std/io\";\nimport \"proj/outer/lib\" as o;\nfn main() {\n    io::Println(o::Size(1));\n    io::Println(o::Both(1));\n}\n",
		"outer/lib.fer": "import \"proj/inner/lib\" as inn;\n" + bodies(2) + "fn Both(w: i32) -> i32 { return Size(w) * 100 + inn::Size(w); }\n",
		"inner/lib.fer": bodies(7)}, []string{"4", "414"}})
	// two importers bind the same alias to different modules
	valOf := func(k int) string { return fmt.Sprintf("fn Val() -> i32 { return %d; }\nfn Twice(v: i32) -> i32 { return v * %d; }\n", k, k) }
	user := func(path string, k int) string {
		return "import \"proj/" + path + "\";\nfn Get() -> i32 { return util::Val() + util::Twice(1) + " + fmt.Sprint(k) + "; }\n"
	}
	out = append(out, MProj{"same-alias-different-modules", map[string]string{
		"main.fer":    "import \"std/io\";\nimport \"proj/left\";\nimport \"proj/right\";\nimport \"proj/l/util\";\nfn main() {\n    io::Println(left::Get());\n    io::Println(right::Get());\n    io::Println(util::Val());\n    io::Println(left::Get());\n}\n",
		"left.fer":    user("l/util", 100),
		"right.fer":   user("r/util", 200),
		"l/util.fer": valOf(1),
		"r/util.fer": valOf(5)}, []string{"102", "210", "1", "102"}})
	out = append(out, MProj{"same-alias-different-modules-reversed", map[string]string{
		"main.fer":    "import \"std/io\";\nimport \"proj/right\";\nimport \"proj/left\";\nfn main() {\n    io::Println(right::Get());\n    io::Println(left::Get());\n    io::Println(right::Get());\n}\n",
		"left.fer":    user("l/util", 100),
		"right.fer":   user("r/util", 200),
		"l/util.fer": valOf(1),
		"r/util.fer": valOf(5)}, []string{"210", "102", "210"}})
	// strings that are not ASCII: length, indexing from both ends, comparison, concatenation
	for i, sv := range []string{"entrée", "naïve café", "日本", "aé", "é", "x\u00e9y"} {
		n := len(sv) // bytes
		src := "import \"std/io\";\nfn main() {\n    let s: str = \"" + sv + "\";\n    io::Println(len(s));\n    io::Println(s);\n    io::Println(s == \"" + sv + "\");\n    io::Println(s + \"!\");\n    let n: i32 = len(s);\n    let k: i32 = 0;\n    let t: i32 = 0;\n    while k < n {\n        t = t + 1;\n        k = k + 1;\n    }\n    io::Println(t);\n    io::Println(len(s + s));\n}\n"
		out = append(out, MProj{fmt.Sprintf("non-ascii-string/%d", i), map[string]string{"main.fer": src},
			[]string{fmt.Sprint(n), sv, "true", sv + "!", fmt.Sprint(n), fmt.Sprint(2 * n)}})
	}
	// the amount of literal text in one program: the data of a module starts at a fixed address,
	// what follows it (the heap) has to start behind it, and the memory has to hold it
	for _, k := range []int{1, 4, 8, 12, 15, 16, 17, 34, 67, 69, 72, 140} {
		var b strings.Builder
		b.WriteString("import \"std/io\";\nfn main() {\n    let total: i32 = 0;\n")
		for i := 0; i < k; i++ {
			fmt.Fprintf(&b, "    let s%d: str = \"%04d%s\";\n    total = total + len(s%d);\n", i, i, strings.Repeat(string(rune('a'+i%26)), 956), i)
		}
		last := k - 1
		fmt.Fprintf(&b, "    io::Println(total);\n    let j := s0 + s%d;\n    io::Println(len(j));\n    io::Println(s%d == s0);\n    io::Println(s%d == s%d);\n", last, last, last, last)
		b.WriteString("    let d: []i32 = [1, 2, 3];\n    append(&'d, 4);\n    io::Println(d[3]);\n    io::Println(len(j + j));\n}\n")
		out = append(out, MProj{fmt.Sprintf("literal-data/%dx960", k), map[string]string{"main.fer": b.String()},
			[]string{fmt.Sprint(k * 960), "1920", fmt.Sprint(k == 1), "true", "4", "3840"}})
	}
	return out
}

// runProjects compiles every multi-module project natively (with the ferret binary) and compares
// what it prints with the closed-form expectation.
func runProjects(c *vl.Ctx, r *prog.Runner) {
	for _, mp := range MultiProjects() {
		id := "C01/project/" + mp.ID
		if f := os.Getenv("VERIF_FILTER"); f != "" && !strings.Contains(id, f) {
			continue
		}
		dir := filepath.Join(r.R.NewDir(), "proj")
		run.WriteFiles(dir, mp.Files)
		b := r.R.RealCompileNative(dir, "main.fer")
		files := map[string]string{"expected.txt": strings.Join(mp.Want, "\n") + "\n"}
		for name, content := range mp.Files {
			files["proj/"+name] = content
		}
		c.Count("family:project", 1)
		c.Distinct(id)
		if !b.Compile.OK() || !b.Exists {
			c.Outcome("rejected")
			c.Fail(vl.Fail{Case: id, Obs: "rejected: " + prog.CanonErr(b.Compile.Stderr+"\n"+b.Compile.Stdout), Files: files})
			os.RemoveAll(filepath.Dir(dir))
			continue
		}
		p := r.R.Exec(b)
		os.RemoveAll(filepath.Dir(dir))
		got := strings.TrimRight(p.Stdout, "\n")
		if p.OK() && got == strings.Join(mp.Want, "\n") {
			c.Outcome("agrees:exit")
			continue
		}
		c.Outcome("misbehaves")
		files["observed.txt"] = got + "\n[" + p.Term() + "]\n"
		c.Fail(vl.Fail{Case: id, Obs: fmt.Sprintf("want %s got %s [%s]", strings.Join(mp.Want, "|"), strings.ReplaceAll(got, "\n", "|"), p.Term()), Files: files})
	}
}

// FloatProjects: f64 values through printing, string concatenation, arithmetic, comparison and
// conversion to integers. There is no reference semantics for the text of a float here: the
// projects are judged differentially (C02), numbers compared as numbers.
func FloatProjects() []MProj {
	head := "import \"std/io\";\nfn zero() -> f64 { return 0.0; }\nfn show(name: str, x: f64) {\n    io::Println(name + \"=\" + x);\n    io::Println(x);\n    io::Println(len(\"\" + x));\n" +
		"    io::Println(x * 2.0);\n    io::Println(x / 3.0);\n    io::Println(-x);\n    io::Println(x + 0.5);\n    io::Println(x - 1000000.0);\n}\n" +
		"fn cmp(x: f64, y: f64) {\n    io::Println(x < y);\n    io::Println(x <= y);\n    io::Println(x > y);\n    io::Println(x >= y);\n    io::Println(x == y);\n    io::Println(x != y);\n}\n" +
		"fn toint(x: f64) {\n    io::Println(x as i64);\n    io::Println(x as i32);\n    io::Println((x as i64) as f64);\n    io::Println((x as i32) as f64);\n}\n"
	groups := []struct {
		id    string
		lines []string
	}{
		{"plain", []string{`show("half", 0.5);`, `show("eight", 8.0);`, `show("zero", 0.0);`, `show("neg", -123456.789);`, `show("one", 1.0);`, `show("ten", 10.0);`, `show("frac", 2.75);`}},
		{"inexact", []string{`let one: f64 = 1.0;`, `show("third", one / 3.0);`, `show("sum", 0.1 + 0.2);`, `show("tenth", 0.1);`, `show("pi", 3.14159265358979);`}},
		{"exponent-large", []string{`show("e20", 1000000000000.0 * 100000000.0);`, `show("15e19", 1500000000000.0 * 100000000.0);`, `show("e15", 1000000000000000.0);`, `show("2e15", 2000000000000000.0);`,
			`show("e16", 1000000000000000.0 * 10.0);`, `show("p53", 9007199254740992.0);`, `show("p53m1", 9007199254740991.0);`, `show("e14", 100000000000000.0);`, `show("e21", 1000000000000.0 * 1000000000.0);`}},
		{"exponent-small", []string{`show("5e-5", 0.00005);`, `show("125e-7", 0.0000125);`, `show("e-4", 0.0001);`, `show("e-5", 0.00001);`, `show("e-7", 0.0000001);`, `show("3e-4", 0.0003);`}},
		{"compare", []string{`cmp(0.5, 0.5);`, `cmp(0.5, 0.25);`, `cmp(-0.5, 0.5);`, `cmp(0.0, -0.0);`, `cmp(1000000000000.0 * 100000000.0, 1500000000000.0 * 100000000.0);`}},
		{"to-int", []string{`toint(0.5);`, `toint(-0.5);`, `toint(2.5);`, `toint(-2.5);`, `toint(123456.789);`, `toint(-123456.789);`, `toint(2147483647.0);`, `toint(-2147483648.0);`, `toint(0.999999);`}},
		{"infinity", []string{`let z: f64 = zero();`, `show("inf", 1.0 / z);`, `show("ninf", -1.0 / z);`, `cmp(1.0 / z, 1.0);`, `cmp(-1.0 / z, 1.0 / z);`}},
		{"nan-text", []string{`let z: f64 = zero();`, `let n: f64 = z / z;`, `io::Println("nan=" + n);`, `io::Println(len("" + n));`, `io::Println(n);`, `io::Println(n + 1.0);`}},
		{"nan-compare", []string{`let z: f64 = zero();`, `let n: f64 = z / z;`, `cmp(n, 1.0);`, `cmp(1.0, n);`, `cmp(n, n);`}},
	}
	var out []MProj
	for _, g := range groups {
		out = append(out, MProj{"float/" + g.id, map[string]string{"main.fer": head + "fn main() {\n    " + strings.Join(g.lines, "\n    ") + "\n}\n"}, nil})
	}
	return out
}
