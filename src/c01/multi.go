package c01

import (
	"fmt"
	"os"
	"path/filepath"
	"strings"

	"compiler/verifh/prog"
	"compiler/verifh/run"
	"compiler/verifh/vl"
)

// ---------------------------------------------------------------------------------
// multi-module projects: what a back end calls a function, a type or a constant of another
// module must keep two modules apart whatever their paths and names have in common.

// MProj is a multi-file project with the lines its main must print.
type MProj struct {
	ID    string
	Files map[string]string
	Want  []string
}

func MultiProjects() []MProj {
	var out []MProj
	// two modules with the same last path segment / the same file name in different directories,
	// declaring the same names
	bodies := func(k int) string {
		return fmt.Sprintf("const Unit: i32 = %d;\ntype Shape struct { .W: i32 };\nfn (s: Shape) Area() -> i32 { return s.W * %d; }\nfn Make(w: i32) -> Shape { return { .W = w } as Shape; }\nfn Size(w: i32) -> i32 { return w * %d + helper(); }\nfn helper() -> i32 { return %d; }\n", k, k, k, k)
	}
	mainOf := func(a, b string) string {
		return "import \"std/io\";\nimport \"proj/" + a + "\" as ma;\nimport \"proj/" + b + "\" as mb;\n" +
			"fn helper() -> i32 { return 1000; }\nfn Size(w: i32) -> i32 { return w + helper(); }\n" +
			"fn main() {\n    io::Println(ma::Size(3));\n    io::Println(mb::Size(3));\n    io::Println(Size(3));\n    io::Println(ma::Unit);\n    io::Println(mb::Unit);\n" +
			"    let sa := ma::Make(2);\n    let sb := mb::Make(2);\n    io::Println(sa.Area());\n    io::Println(sb.Area());\n}\n"
	}
	for _, pr := range [][2]string{{"geo/plane/metrics", "geo/solid/metrics"}, {"a/util", "b/util"}, {"util", "sub/util"}, {"x/y/z", "x/z"}, {"one", "two"}, {"p_q/r", "p/q_r"}} {
		out = append(out, MProj{"same-names/" + strings.ReplaceAll(pr[0], "/", ".") + "+" + strings.ReplaceAll(pr[1], "/", "."),
			map[string]string{"main.fer": mainOf(pr[0], pr[1]), pr[0] + ".fer": bodies(3), pr[1] + ".fer": bodies(9)},
			[]string{"12", "36", "1003", "3", "9", "6", "18"}})
	}
	// the same module imported under two aliases, and a chain a -> b where both declare Size
	out = append(out, MProj{"two-aliases", map[string]string{
		"main.fer": "import \"std/io\";\nimport \"proj/lib\" as p;\nimport \"proj/lib\" as q;\nfn main() {\n    io::Println(p::Size(1));\n    io::Println(q::Size(2));\n}\n",
		"lib.fer":  bodies(5)}, []string{"10", "15"}})
	out = append(out, MProj{"chain-same-names", map[string]string{
		"main.fer":      "import \"std/io\";\nimport \"proj/outer/lib\" as o;\nfn main() {\n    io::Println(o::Size(1));\n    io::Println(o::Both(1));\n}\n",
		"outer/lib.fer": "import \"proj/inner/lib\" as inn;\n" + bodies(2) + "fn Both(w: i32) -> i32 { return Size(w) * 100 + inn::Size(w); }\n",
		"inner/lib.fer": bodies(7)}, []string{"4", "414"}})
	// two importers bind the same alias to different modules
	valOf := func(k int) string { return fmt.Sprintf("fn Val() -> i32 { return %d; }\nfn Twice(v: i32) -> i32 { return v * %d; }\n", k, k) }
	user := func(path string, k int) string {
		return "import \"proj/" + path + "\";\nfn Get() -> i32 { return util::Val() + util::Twice(1) + " + fmt.Sprint(k) + "; }\n"
	}
	out = append(out, MProj{"same-alias-different-modules", map[string]string{
		"main.fer":    "import \"std/io\";\nimport \"proj/left\";\nimport \"proj/right\";\nimport \"proj/l/util\";\nfn main() {\n    io::Println(left::Get());\n    io::Println(right::Get());\n    io::Println(util::Val());\n    io::Println(left::Get());\n}\n",
		"left.fer":    user("l/util", 100),
		"right.fer":   user("r/util", 200),
		"l/util.fer": valOf(1),
		"r/util.fer": valOf(5)}, []string{"102", "210", "1", "102"}})
	out = append(out, MProj{"same-alias-different-modules-reversed", map[string]string{
		"main.fer":    "import \"std/io\";\nimport \"proj/right\";\nimport \"proj/left\";\nfn main() {\n    io::Println(right::Get());\n    io::Println(left::Get());\n    io::Println(right::Get());\n}\n",
		"left.fer":    user("l/util", 100),
		"right.fer":   user("r/util", 200),
		"l/util.fer": valOf(1),
		"r/util.fer": valOf(5)}, []string{"210", "102", "210"}})
	// strings that are not ASCII: length, indexing from both ends, comparison, concatenation
	for i, sv := range []string{"entrée", "naïve café", "日本", "aé", "é", "x\u00e9y"} {
		n := len(sv) // bytes
		src := "import \"std/io\";\nfn main() {\n    let s: str = \"" + sv + "\";\n    io::Println(len(s));\n    io::Println(s);\n    io::Println(s == \"" + sv + "\");\n    io::Println(s + \"!\");\n    let n: i32 = len(s);\n    let k: i32 = 0;\n    let t: i32 = 0;\n    while k < n {\n        t = t + 1;\n        k = k + 1;\n    }\n    io::Println(t);\n    io::Println(len(s + s));\n}\n"
		out = append(out, MProj{fmt.Sprintf("non-ascii-string/%d", i), map[string]string{"main.fer": src},
			[]string{fmt.Sprint(n), sv, "true", sv + "!", fmt.Sprint(n), fmt.Sprint(2 * n)}})
	}
	return out
}

// runProjects compiles every multi-module project natively (with the ferret binary) and compares
// what it prints with the closed-form expectation.
func runProjects(c *vl.Ctx, r *prog.Runner) {
	for _, mp := range MultiProjects() {
		id := "C01/project/" + mp.ID
		if f := os.Getenv("VERIF_FILTER"); f != "" && !strings.Contains(id, f) {
			continue
		}
		dir := filepath.Join(r.R.NewDir(), "proj")
		run.WriteFiles(dir, mp.Files)
		b := r.R.RealCompileNative(dir, "main.fer")
		files := map[string]string{"expected.txt": strings.Join(mp.Want, "\n") + "\n"}
		for name, content := range mp.Files {
			files["proj/"+name] = content
		}
		c.Count("family:project", 1)
		c.Distinct(id)
		if !b.Compile.OK() || !b.Exists {
			c.Outcome("rejected")
			c.Fail(vl.Fail{Case: id, Obs: "rejected: " + prog.CanonErr(b.Compile.Stderr+"\n"+b.Compile.Stdout), Files: files})
			os.RemoveAll(filepath.Dir(dir))
			continue
		}
		p := r.R.Exec(b)
		os.RemoveAll(filepath.Dir(dir))
		got := strings.TrimRight(p.Stdout, "\n")
		if p.OK() && got == strings.Join(mp.Want, "\n") {
			c.Outcome("agrees:exit")
			continue
		}
		c.Outcome("misbehaves")
		files["observed.txt"] = got + "\n[" + p.Term() + "]\n"
		c.Fail(vl.Fail{Case: id, Obs: fmt.Sprintf("want %s got %s [%s]", strings.Join(mp.Want, "|"), strings.ReplaceAll(got, "\n", "|"), p.Term()), Files: files})
	}
}
