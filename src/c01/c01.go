package c01

import (
	"fmt"
	"os"
	"strings"

	"compiler/verifh/fl"
	"compiler/verifh/prog"
	"compiler/verifh/vl"
)

// Families returns the cases of every family (also used by C02 and C09).
func Families(quick bool) []*prog.Case {
	types := fl.IntTypes
	var cases []*prog.Case
	cases = append(cases, famArith(quick, types)...)
	cases = append(cases, famCmp(quick, types)...)
	cases = append(cases, famCast(quick, types)...)
	cases = append(cases, famUnary(quick, types)...)
	cases = append(cases, famOrder(quick)...)
	cases = append(cases, famByValue(quick)...)
	cases = append(cases, famEnum(quick)...)
	cases = append(cases, famFunc(quick)...)
	cases = append(cases, famResult(quick)...)
	cases = append(cases, famRef(quick)...)
	cases = append(cases, famStr(quick)...)
	cases = append(cases, famPanic(quick)...)
	cases = append(cases, famFlow(quick)...)
	cases = append(cases, famLoops(quick)...)
	cases = append(cases, famSeq(quick)...)
	cases = append(cases, famImplicit(quick, types)...)
	cases = append(cases, famSeqW(quick)...)
	cases = append(cases, famByValueX(quick)...)
	return cases
}

// Bases returns the reduced-alphabet base programs used by the metamorphic checks (C09)
// and by the differential back-end check (C02).
func Bases(quick bool) []*prog.Case {
	types := []fl.TInt{fl.I8, fl.U8, fl.I32, fl.I64}
	if quick {
		types = []fl.TInt{fl.I8, fl.I32}
	}
	var cases []*prog.Case
	for _, k := range famArith(true, types) {
		if strings.Contains(k.ID, "/let/print/") || strings.Contains(k.ID, "/let/eq/") || strings.Contains(k.ID, "/call/eq/") || strings.Contains(k.ID, "/let/store/") {
			if quick && !(strings.Contains(k.ID, "/add/") || strings.Contains(k.ID, "/div/")) {
				continue
			}
			cases = append(cases, k)
		}
	}
	for _, k := range famCmp(true, types) {
		if strings.Contains(k.ID, "/let/") && (!quick || strings.Contains(k.ID, "/lt/")) {
			cases = append(cases, k)
		}
	}
	for _, k := range famCast(true, types) {
		cases = append(cases, k)
	}
	cases = append(cases, famFlow(true)...)
	cases = append(cases, famEnum(true)...)
	cases = append(cases, famByValue(true)...)
	for _, k := range famLoops(true) {
		// quick: the stepped ranges with literal bounds and the for-in loops
		if !quick || (strings.Contains(k.ID, "/step/") && strings.Contains(k.ID, "bounds=untyped-lit")) || strings.Contains(k.ID, "/forin") {
			cases = append(cases, k)
		}
	}
	for _, k := range famRef(true) {
		if !quick || strings.Contains(k.ID, "/i32/") {
			cases = append(cases, k)
		}
	}
	if quick {
		var thin []*prog.Case
		nflow := 0
		for _, k := range cases {
			if strings.HasPrefix(k.ID, "C01/flow/") {
				nflow++
				if nflow > 120 {
					continue
				}
			}
			if strings.HasPrefix(k.ID, "C01/byvalue/") && !strings.Contains(k.ID, "/typed/") {
				continue
			}
			thin = append(thin, k)
		}
		cases = thin
	}
	return cases
}

// Small returns the families that are small enough to be used whole by other checks.
func Small(quick bool) []*prog.Case {
	var cases []*prog.Case
	cases = append(cases, famOrder(quick)...)
	cases = append(cases, famFunc(quick)...)
	cases = append(cases, famResult(quick)...)
	cases = append(cases, famRef(quick)...)
	cases = append(cases, famStr(quick)...)
	cases = append(cases, famPanic(quick)...)
	cases = append(cases, famUnary(true, []fl.TInt{fl.I8, fl.U8, fl.I32, fl.U32, fl.I64, fl.U64})...)
	return cases
}

func Filter(cases []*prog.Case) []*prog.Case {
	f := os.Getenv("VERIF_FILTER")
	if f == "" {
		return cases
	}
	var out []*prog.Case
	alts := strings.Split(f, "|")
	for _, k := range cases {
		for _, a := range alts {
			if strings.Contains(k.ID, a) {
				out = append(out, k)
				break
			}
		}
	}
	return out
}

func Run(c *vl.Ctx) {
	cases := Filter(Families(c.Quick()))
	if os.Getenv("VERIF_GENONLY") != "" {
		fams := map[string]int{}
		for _, k := range cases {
			fams[strings.SplitN(k.ID, "/", 3)[1]]++
			if strings.HasPrefix(k.Want.Term, "fault:") {
				fmt.Println("FAULT", k.ID, k.Want.Term)
			}
		}
		fmt.Println(len(cases), "cases", fams)
		if len(cases) > 0 && os.Getenv("VERIF_GENONLY") == "show" {
			for _, k := range cases {
				fmt.Println("=====", k.ID)
				fmt.Println(fl.Render(k.P))
				fmt.Println("--- expected:", k.Want.String())
			}
		}
		os.Exit(0)
	}
	r := prog.New(c)
	// generator self-check: a reference fault means the generator left defined semantics
	var live []*prog.Case
	for _, k := range cases {
		if strings.HasPrefix(k.Want.Term, "fault:") {
			c.Fail(vl.Fail{Case: k.ID + "/HARNESS", Obs: "reference interpreter fault: " + k.Want.Term, Files: map[string]string{"main.fer": fl.Render(k.P)}})
			continue
		}
		live = append(live, k)
	}
	// cases that the compiler is allowed to reject go through the front-end pre-pass first, so
	// that a rejected one does not take its pack apart; everything else is packed directly
	obs := make([]prog.Obs, len(live))
	var plain, mayRej []int
	for i, k := range live {
		if k.Tag == "may-reject" {
			mayRej = append(mayRej, i)
		} else {
			plain = append(plain, i)
		}
	}
	for _, part := range [][]int{plain, mayRej} {
		sub := make([]*prog.Case, len(part))
		for j, i := range part {
			sub[j] = live[i]
		}
		r.Prefilter = len(part) > 0 && live[part[0]].Tag == "may-reject"
		po := r.Observe(sub, "native", func(j int) *prog.Obs { return prog.WantObs(sub[j].Want) })
		for j, i := range part {
			obs[i] = po[j]
		}
	}
	r.Prefilter = false
	for i, k := range live {
		o := obs[i]
		fam := strings.SplitN(k.ID, "/", 3)[1]
		c.Count("family:"+fam, 1)
		if len(k.Want.Lines) > 0 {
			c.Distinct(k.ID)
		}
		switch {
		case !o.Accepted && k.Tag == "may-reject":
			// whether the conversion is allowed without a cast is decided elsewhere (C11)
			c.Outcome("rejected (allowed: a cast may be demanded)")
			c.Count("implicit_conversions_rejected", 1)
		case !o.Accepted:
			c.Outcome("rejected")
			c.Fail(vl.Fail{Case: k.ID, Obs: "rejected: " + o.Reject, Files: map[string]string{"main.fer": fl.Render(k.P), "expected.txt": k.Want.String()}})
		case !o.SameBehaviour(k.Want):
			c.Outcome("misbehaves")
			c.Fail(vl.Fail{Case: k.ID, Obs: fmt.Sprintf("want %s got %s", prog.WantObs(k.Want), o), Files: map[string]string{"main.fer": fl.Render(k.P), "expected.txt": k.Want.String(), "observed.txt": o.String()}})
		default:
			c.Outcome("agrees:" + k.Want.Term[:4])
		}
	}
	runProjects(c, r)
	for _, i := range []int{0, len(live) / 2, len(live) - 1} {
		if i >= 0 && i < len(live) {
			c.Sample(map[string]string{"id": live[i].ID, "program": fl.Render(live[i].P), "expected": live[i].Want.String()})
		}
	}
	r.Report()
	r.Close()
	c.Assume = append(c.Assume, "the definitional interpreter src/fl/interp.go is the reference semantics (wrapping two's complement, truncating / and %, left-to-right, by-value structs/arrays, write-through references)",
		"cases whose packed observation agrees with the reference are not re-run alone; every reported disagreement was observed on a single-case program")
	c.Finish(vl.Coverage{Evaluations: int64(len(live)), Exhaustive: true,
		Rule:  "every family is a complete product over its stated domains (see DESIGN C01); each case is compiled natively and its stdout lines and termination compared with the reference interpreter; distinct_nontrivial = unique case ids whose reference output has >=1 line",
		Bound: fmt.Sprintf("quick=%v", c.Quick())})
}
