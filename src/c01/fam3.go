package c01

import (
	"fmt"

	"compiler/verifh/fl"
	"compiler/verifh/prog"
)

// ------------------------------------------------------------------ results and catch

func famResult(quick bool) []*prog.Case {
	var out []*prog.Case
	type tv struct {
		name string
		t    func(k K, p *fl.Program) fl.Type
		val  func(k K, p *fl.Program, t fl.Type, n int64) fl.Expr
		show func(x fl.Expr) []fl.Stmt
	}
	strT := tv{"str", func(K, *fl.Program) fl.Type { return fl.Str }, func(_ K, _ *fl.Program, _ fl.Type, n int64) fl.Expr { return fl.S(fmt.Sprintf("s%d", n)) },
		func(x fl.Expr) []fl.Stmt { return []fl.Stmt{fl.P(x)} }}
	i32T := tv{"i32", func(K, *fl.Program) fl.Type { return fl.I32 }, func(_ K, _ *fl.Program, _ fl.Type, n int64) fl.Expr { return fl.L(fl.I32, 40+n) },
		func(x fl.Expr) []fl.Stmt { return []fl.Stmt{fl.P(x)} }}
	i64T := tv{"i64", func(K, *fl.Program) fl.Type { return fl.I64 }, func(_ K, _ *fl.Program, _ fl.Type, n int64) fl.Expr { return fl.L(fl.I64, 5000000000+n) },
		func(x fl.Expr) []fl.Stmt { return []fl.Stmt{fl.P(x)} }}
	structT := tv{"struct", func(k K, p *fl.Program) fl.Type {
		st := &fl.TStruct{Name: k.N("Rec"), Fields: []fl.Field{{"A", fl.I32}, {"B", fl.I64}}}
		for _, s := range p.Structs {
			if s.Name == st.Name {
				return s
			}
		}
		p.Structs = append(p.Structs, st)
		return st
	}, func(_ K, _ *fl.Program, t fl.Type, n int64) fl.Expr {
		return &fl.StructLit{T: t.(*fl.TStruct), Vals: []fl.Expr{fl.L(fl.I32, 7+n), fl.L(fl.I64, 8+n)}}
	}, func(x fl.Expr) []fl.Stmt { return []fl.Stmt{fl.P(fl.F(x, "A")), fl.P(fl.F(x, "B"))} }}
	tvs := []tv{strT, i32T, i64T, structT}
	for _, et := range []tv{strT, i32T, structT} {
		for _, ot := range tvs {
			for _, outcome := range []string{"ok", "err"} {
				for _, form := range []string{"fallback", "handler+fallback", "handler-returns", "propagate2", "handler-if+fallback", "handler-loop+fallback", "handler-arrstore+fallback", "handler-if-returns"} {
					et, ot, outcome, form := et, ot, outcome, form
					out = append(out, mk(fmt.Sprintf("C01/result/%s!%s/%s/%s", et.name, ot.name, outcome, form), func(k K) *fl.Program {
						p := &fl.Program{}
						E, O := et.t(k, p), ot.t(k, p)
						f := k.N("f")
						p.Funcs = append(p.Funcs, &fl.Func{Name: f, Params: []fl.Param{{"fail", fl.Bool}}, Ret: fl.TResult{Err: E, Ok: O}, Body: []fl.Stmt{
							fl.P(fl.S("in f")),
							&fl.If{Cond: fl.V("fail"), Then: []fl.Stmt{&fl.ReturnErr{X: et.val(k, p, E, 1)}}},
							&fl.Return{X: ot.val(k, p, O, 2)}}})
						arg := &fl.BoolLit{V: outcome == "err"}
						call := fl.Expr(fl.C(f, arg))
						var body []fl.Stmt
						switch form {
						case "fallback":
							body = append(body, &fl.Let{Name: "v", Init: &fl.Catch{X: call, Fallback: ot.val(k, p, O, 3)}})
							body = append(body, ot.show(fl.V("v"))...)
						case "handler+fallback":
							h := append([]fl.Stmt{fl.P(fl.S("handler"))}, et.show(fl.V("e"))...)
							body = append(body, &fl.Let{Name: "v", Init: &fl.Catch{X: call, ErrName: "e", Handler: h, Fallback: ot.val(k, p, O, 3)}})
							body = append(body, ot.show(fl.V("v"))...)
						case "handler-if+fallback", "handler-loop+fallback", "handler-arrstore+fallback":
							// handlers that open further basic blocks before the fallback value is produced
							h := []fl.Stmt{fl.P(fl.S("handler"))}
							body = append(body, &fl.Let{Name: "n", T: fl.I32, Init: fl.L(fl.I32, 2)})
							switch form {
							case "handler-if+fallback":
								h = append(h, &fl.If{Cond: fl.B(">", fl.V("n"), fl.L(fl.I32, 1)), Then: et.show(fl.V("e")), Else: []fl.Stmt{fl.P(fl.S("small"))}})
							case "handler-loop+fallback":
								h = append(h, &fl.While{Cond: fl.B(">", fl.V("n"), fl.L(fl.I32, 0)), Body: append(et.show(fl.V("e")), &fl.OpAssign{Op: "-=", LHS: fl.V("n"), RHS: fl.L(fl.I32, 1)})})
							case "handler-arrstore+fallback":
								h = append(h, &fl.Let{Name: "a", T: fl.TArr{Elem: fl.I32, N: 2}, Init: &fl.ArrLit{Elems: []fl.Expr{fl.L(fl.I32, 1), fl.L(fl.I32, 2)}}},
									&fl.Assign{LHS: &fl.Index{X: fl.V("a"), I: fl.L(fl.I32, 1)}, RHS: fl.V("n")}, fl.P(&fl.Index{X: fl.V("a"), I: fl.L(fl.I32, 1)}))
								h = append(h, et.show(fl.V("e"))...)
							}
							body = append(body, &fl.Let{Name: "v", Init: &fl.Catch{X: call, ErrName: "e", Handler: h, Fallback: ot.val(k, p, O, 3)}})
							body = append(body, ot.show(fl.V("v"))...)
							body = append(body, fl.P(fl.V("n")))
						case "handler-if-returns":
							body = append(body, &fl.Let{Name: "n", T: fl.I32, Init: fl.L(fl.I32, 2)})
							h := []fl.Stmt{fl.P(fl.S("handler")), &fl.If{Cond: fl.B(">", fl.V("n"), fl.L(fl.I32, 1)), Then: append(et.show(fl.V("e")), &fl.Return{}), Else: []fl.Stmt{fl.P(fl.S("small")), &fl.Return{}}}}
							body = append(body, &fl.Let{Name: "v", Init: &fl.Catch{X: call, ErrName: "e", Handler: h}})
							body = append(body, ot.show(fl.V("v"))...)
							body = append(body, fl.P(fl.S("after")))
						case "handler-returns":
							h := append(append([]fl.Stmt{fl.P(fl.S("handler"))}, et.show(fl.V("e"))...), &fl.Return{})
							body = append(body, &fl.Let{Name: "v", Init: &fl.Catch{X: call, ErrName: "e", Handler: h}})
							body = append(body, ot.show(fl.V("v"))...)
							body = append(body, fl.P(fl.S("after")))
						case "propagate2":
							g := k.N("g")
							p.Funcs = append(p.Funcs, &fl.Func{Name: g, Params: []fl.Param{{"fail", fl.Bool}}, Ret: fl.TResult{Err: E, Ok: O}, Body: []fl.Stmt{
								&fl.Let{Name: "v", Init: &fl.Catch{X: fl.C(f, fl.V("fail")), ErrName: "e", Handler: []fl.Stmt{fl.P(fl.S("g forwards")), &fl.ReturnErr{X: fl.V("e")}}}},
								fl.P(fl.S("g ok")), &fl.Return{X: fl.V("v")}}})
							h := append([]fl.Stmt{fl.P(fl.S("handler"))}, et.show(fl.V("e"))...)
							body = append(body, &fl.Let{Name: "v", Init: &fl.Catch{X: fl.C(g, arg), ErrName: "e", Handler: h, Fallback: ot.val(k, p, O, 3)}})
							body = append(body, ot.show(fl.V("v"))...)
						}
						// keep the catching code out of main so that `return;` in a handler leaves a helper
						p.Funcs = append(p.Funcs, &fl.Func{Name: k.N("user"), Body: body})
						return mainProg(p, &fl.ExprStmt{X: fl.C(k.N("user"))}, fl.P(fl.S("end")))
					}))
				}
			}
		}
	}
	return out
}

// ------------------------------------------------------------------ references

func famRef(quick bool) []*prog.Case {
	var out []*prog.Case
	places := []string{"local", "field", "nested-field", "arr-elem"}
	uses := []string{"read-through", "write-through", "write-referent-read-through", "callee-writes", "method-mutref", "callee-reads"}
	for _, t := range []fl.TInt{fl.I32, fl.I8, fl.I64} {
		for _, pl := range places {
			for _, use := range uses {
				t, pl, use := t, pl, use
				if use == "method-mutref" && pl != "field" && pl != "nested-field" {
					continue
				}
				out = append(out, mk(fmt.Sprintf("C01/ref/%s/%s/%s", t, pl, use), func(k K) *fl.Program {
					p := &fl.Program{}
					in := &fl.TStruct{Name: k.N("In"), Fields: []fl.Field{{"P", fl.I8}, {"V", t}, {"Q", fl.I64}}}
					outer := &fl.TStruct{Name: k.N("Out"), Fields: []fl.Field{{"X", fl.I32}, {"I", in}}}
					var pre []fl.Stmt
					var place fl.Expr
					var others []fl.Expr
					mkIn := &fl.StructLit{T: in, Vals: []fl.Expr{fl.L(fl.I8, 11), fl.L(t, 22), fl.L(fl.I64, 33)}}
					switch pl {
					case "local":
						pre = []fl.Stmt{&fl.Let{Name: "g1", T: fl.I64, Init: fl.L(fl.I64, 1111)}, &fl.Let{Name: "x", T: t, Init: fl.L(t, 22)}, &fl.Let{Name: "g2", T: fl.I64, Init: fl.L(fl.I64, 2222)}}
						place = fl.V("x")
						others = []fl.Expr{fl.V("g1"), fl.V("g2")}
					case "field":
						p.Structs = append(p.Structs, in)
						pre = []fl.Stmt{&fl.Let{Name: "s", Init: mkIn}}
						place = fl.F(fl.V("s"), "V")
						others = []fl.Expr{fl.F(fl.V("s"), "P"), fl.F(fl.V("s"), "Q")}
					case "nested-field":
						p.Structs = append(p.Structs, in, outer)
						pre = []fl.Stmt{&fl.Let{Name: "o", Init: &fl.StructLit{T: outer, Vals: []fl.Expr{fl.L(fl.I32, 5), mkIn}}}}
						place = fl.F(fl.F(fl.V("o"), "I"), "V")
						others = []fl.Expr{fl.F(fl.V("o"), "X"), fl.F(fl.F(fl.V("o"), "I"), "P"), fl.F(fl.F(fl.V("o"), "I"), "Q")}
					case "arr-elem":
						pre = []fl.Stmt{&fl.Let{Name: "a", T: fl.TArr{N: 3, Elem: t}, Init: &fl.ArrLit{Elems: []fl.Expr{fl.L(t, 21), fl.L(t, 22), fl.L(t, 23)}}}}
						place = fl.Ix(fl.V("a"), fl.L(fl.I32, 1))
						others = []fl.Expr{fl.Ix(fl.V("a"), fl.L(fl.I32, 0)), fl.Ix(fl.V("a"), fl.L(fl.I32, 2))}
					}
					body := append([]fl.Stmt{}, pre...)
					showAll := func() {
						body = append(body, fl.P(place))
						for _, o := range others {
							body = append(body, fl.P(o))
						}
					}
					switch use {
					case "read-through":
						body = append(body, &fl.Block{Body: []fl.Stmt{&fl.Let{Name: "r", T: fl.TRef{Elem: t}, Init: &fl.Borrow{X: place}}, fl.P(fl.V("r")), fl.P(fl.B("+", fl.V("r"), fl.L(t, 1)))}})
						showAll()
					case "write-through":
						body = append(body, &fl.Block{Body: []fl.Stmt{&fl.Let{Name: "r", T: fl.TRef{Elem: t, Mut: true}, Init: &fl.Borrow{X: place, Mut: true}}, &fl.Assign{LHS: fl.V("r"), RHS: fl.L(t, 55)}, fl.P(fl.V("r"))}})
						showAll()
					case "write-referent-read-through":
						// the shared borrow is taken after the write: the reference must see the new value
						body = append(body, &fl.Assign{LHS: place, RHS: fl.L(t, 66)}, &fl.Block{Body: []fl.Stmt{&fl.Let{Name: "r", T: fl.TRef{Elem: t}, Init: &fl.Borrow{X: place}}, fl.P(fl.V("r"))}})
						showAll()
					case "callee-writes":
						p.Funcs = append(p.Funcs, &fl.Func{Name: k.N("set"), Params: []fl.Param{{"r", fl.TRef{Elem: t, Mut: true}}, {"v", t}}, Body: []fl.Stmt{&fl.Assign{LHS: fl.V("r"), RHS: fl.V("v")}}})
						body = append(body, &fl.ExprStmt{X: fl.C(k.N("set"), &fl.Borrow{X: place, Mut: true}, fl.L(t, 77))})
						showAll()
						body = append(body, &fl.ExprStmt{X: fl.C(k.N("set"), &fl.Borrow{X: place, Mut: true}, fl.L(t, 78))})
						showAll()
					case "callee-reads":
						p.Funcs = append(p.Funcs, &fl.Func{Name: k.N("get"), Params: []fl.Param{{"r", fl.TRef{Elem: t}}}, Ret: t, Body: []fl.Stmt{&fl.Return{X: fl.B("+", fl.V("r"), fl.L(t, 1))}}})
						body = append(body, fl.P(fl.C(k.N("get"), &fl.Borrow{X: place})), &fl.Assign{LHS: place, RHS: fl.L(t, 88)}, fl.P(fl.C(k.N("get"), &fl.Borrow{X: place})))
						showAll()
					case "method-mutref":
						p.Funcs = append(p.Funcs, &fl.Func{Name: "bump", Recv: &fl.Param{"s", fl.TRef{Elem: in, Mut: true}}, Body: []fl.Stmt{&fl.Assign{LHS: fl.F(fl.V("s"), "V"), RHS: fl.B("+", fl.F(fl.V("s"), "V"), fl.L(t, 1))}}})
						recv := fl.Expr(fl.V("s"))
						if pl == "nested-field" {
							recv = fl.F(fl.V("o"), "I")
						}
						body = append(body, &fl.ExprStmt{X: &fl.MCall{Recv: recv, Name: "bump"}}, &fl.ExprStmt{X: &fl.MCall{Recv: recv, Name: "bump"}})
						showAll()
					}
					return mainProg(p, body...)
				}))
			}
		}
	}
	return out
}

// ------------------------------------------------------------------ strings

func famStr(quick bool) []*prog.Case {
	var out []*prog.Case
	lits := []string{"", "a", "abc", "a\nb", "t\tx", "b\\s", "sp ace", "A1!"}
	for i, s := range lits {
		s := s
		out = append(out, mk(fmt.Sprintf("C01/str/lit/%d", i), func(k K) *fl.Program {
			return mainProg(&fl.Program{}, &fl.Let{Name: "s", T: fl.Str, Init: fl.S(s)}, fl.P(fl.V("s")), fl.P(&fl.Len{X: fl.V("s")}), fl.P(fl.B("==", fl.V("s"), fl.S(s))), fl.P(fl.B("!=", fl.V("s"), fl.S("abc"))))
		}))
		for idx := -len(s) - 1; idx <= len(s); idx++ {
			idx := idx
			for _, how := range []string{"lit", "var"} {
				how := how
				out = append(out, mk(fmt.Sprintf("C01/str/index/%d/%s/%d", i, how, idx), func(k K) *fl.Program {
					p := &fl.Program{}
					var ix fl.Expr = fl.L(fl.I32, int64(idx))
					body := []fl.Stmt{&fl.Let{Name: "s", T: fl.Str, Init: fl.S(s)}, fl.P(fl.S("before"))}
					if how == "var" {
						p.Funcs = append(p.Funcs, &fl.Func{Name: k.N("ix"), Ret: fl.I32, Body: []fl.Stmt{&fl.Return{X: fl.L(fl.I32, int64(idx))}}})
						ix = fl.C(k.N("ix"))
					}
					body = append(body, &fl.Let{Name: "c", Init: fl.Ix(fl.V("s"), ix)}, fl.P(fl.V("c")), fl.P(fl.S("after")))
					return mainProg(p, body...)
				}))
			}
		}
	}
	parts := []struct {
		n string
		e fl.Expr
	}{{"str", fl.S("xy")}, {"empty", fl.S("")}, {"i32", fl.L(fl.I32, -42)}, {"i64", fl.L(fl.I64, 9000000000)}, {"u8", fl.L(fl.U8, 200)}, {"bool", &fl.BoolLit{V: true}}}
	for _, a := range parts {
		for _, b := range parts {
			a, b := a, b
			out = append(out, mk(fmt.Sprintf("C01/str/concat/%s+%s", a.n, b.n), func(k K) *fl.Program {
				var pre []fl.Stmt
				ea, eb := a.e, b.e
				if il, ok := ea.(*fl.IntLit); ok {
					pre = append(pre, &fl.Let{Name: "na", T: il.T, Init: il})
					ea = fl.V("na")
				}
				if il, ok := eb.(*fl.IntLit); ok {
					pre = append(pre, &fl.Let{Name: "nb", T: il.T, Init: il})
					eb = fl.V("nb")
				}
				body := append(pre, &fl.Let{Name: "s", T: fl.Str, Init: fl.B("+", fl.B("+", fl.S("<"), ea), eb)}, fl.P(fl.V("s")), fl.P(&fl.Len{X: fl.V("s")}),
					fl.P(fl.B("+", fl.V("s"), fl.S(">"))))
				return mainProg(&fl.Program{}, body...)
			}))
		}
	}
	return out
}

// ------------------------------------------------------------------ panic

func famPanic(quick bool) []*prog.Case {
	var out []*prog.Case
	for _, n := range []int{0, 1, 3} {
		for _, where := range []string{"main", "callee", "loop", "method"} {
			n, where := n, where
			out = append(out, mk(fmt.Sprintf("C01/panic/%s/after%d", where, n), func(k K) *fl.Program {
				p := &fl.Program{}
				var body []fl.Stmt
				for i := 0; i < n; i++ {
					body = append(body, fl.P(fl.S(fmt.Sprintf("line %d", i))))
				}
				pn := &fl.Panic{Msg: fmt.Sprintf("stop %d", n)}
				switch where {
				case "main":
					body = append(body, pn)
				case "callee":
					p.Funcs = append(p.Funcs, &fl.Func{Name: k.N("die"), Params: []fl.Param{{"x", fl.I32}}, Ret: fl.I32, Body: []fl.Stmt{&fl.If{Cond: fl.B(">", fl.V("x"), fl.L(fl.I32, 0)), Then: []fl.Stmt{pn}}, &fl.Return{X: fl.V("x")}}})
					body = append(body, fl.P(fl.C(k.N("die"), fl.L(fl.I32, 0))), fl.P(fl.C(k.N("die"), fl.L(fl.I32, 1))))
				case "loop":
					body = append(body, &fl.Let{Name: "i", T: fl.I32, Init: fl.L(fl.I32, 0)}, &fl.While{Cond: fl.B("<", fl.V("i"), fl.L(fl.I32, 5)), Body: []fl.Stmt{fl.P(fl.V("i")), &fl.If{Cond: fl.B("==", fl.V("i"), fl.L(fl.I32, 2)), Then: []fl.Stmt{pn}}, &fl.IncDec{LHS: fl.V("i"), Inc: true}}})
				case "method":
					st := &fl.TStruct{Name: k.N("B"), Fields: []fl.Field{{"V", fl.I32}}}
					p.Structs = append(p.Structs, st)
					p.Funcs = append(p.Funcs, &fl.Func{Name: "die", Recv: &fl.Param{"s", st}, Body: []fl.Stmt{fl.P(fl.F(fl.V("s"), "V")), pn}})
					body = append(body, &fl.Let{Name: "b", Init: &fl.StructLit{T: st, Vals: []fl.Expr{fl.L(fl.I32, 9)}}}, &fl.ExprStmt{X: &fl.MCall{Recv: fl.V("b"), Name: "die"}})
				}
				body = append(body, fl.P(fl.S("unreachable")))
				return mainProg(p, body...)
			}))
		}
	}
	return out
}

// ------------------------------------------------------------------ control flow

// flowBodies enumerates function bodies over a parameter x (i32) and a counter n.
// Every block starts with a site marker so the path taken is observable.
type flowGen struct {
	site int
}

func (g *flowGen) mark() fl.Stmt {
	g.site++
	return fl.P(fl.S(fmt.Sprintf("@%d", g.site)))
}

// stmtKinds at a nesting level; inLoop allows break/continue.
func flowStmts(depth int, inLoop bool) []func(g *flowGen) []fl.Stmt {
	x := fl.V("x")
	c := func(v int64) fl.Expr { return fl.L(fl.I32, v) }
	var kinds []func(g *flowGen) []fl.Stmt
	kinds = append(kinds, func(g *flowGen) []fl.Stmt { return []fl.Stmt{g.mark()} })
	kinds = append(kinds, func(g *flowGen) []fl.Stmt {
		return []fl.Stmt{&fl.Assign{LHS: fl.V("n"), RHS: fl.B("+", fl.V("n"), c(10))}}
	})
	if inLoop {
		kinds = append(kinds, func(g *flowGen) []fl.Stmt {
			return []fl.Stmt{&fl.If{Cond: fl.B("==", fl.V("i"), c(1)), Then: []fl.Stmt{g.mark(), &fl.Break{}}}}
		})
		kinds = append(kinds, func(g *flowGen) []fl.Stmt {
			return []fl.Stmt{&fl.If{Cond: fl.B("==", fl.V("i"), c(1)), Then: []fl.Stmt{g.mark(), &fl.Continue{}}}}
		})
	}
	kinds = append(kinds, func(g *flowGen) []fl.Stmt {
		return []fl.Stmt{&fl.If{Cond: fl.B(">", x, c(1)), Then: []fl.Stmt{g.mark(), &fl.Return{X: fl.B("+", fl.V("n"), c(int64(g.site)))}}}}
	})
	if depth == 0 {
		return kinds
	}
	for _, inner := range flowBlocks(depth-1, inLoop, 1) {
		inner := inner
		kinds = append(kinds, func(g *flowGen) []fl.Stmt {
			return []fl.Stmt{&fl.If{Cond: fl.B("<", x, c(1)), Then: append([]fl.Stmt{g.mark()}, inner(g)...)}}
		})
		kinds = append(kinds, func(g *flowGen) []fl.Stmt {
			return []fl.Stmt{&fl.If{Cond: fl.B("<", x, c(1)), Then: append([]fl.Stmt{g.mark()}, inner(g)...), Else: []fl.Stmt{g.mark()}}}
		})
		kinds = append(kinds, func(g *flowGen) []fl.Stmt {
			return []fl.Stmt{&fl.If{Cond: fl.B("<", x, c(0)), Then: []fl.Stmt{g.mark()}, Else: []fl.Stmt{&fl.If{Cond: fl.B("==", x, c(0)), Then: append([]fl.Stmt{g.mark()}, inner(g)...), Else: append([]fl.Stmt{g.mark()}, inner(g)...)}}}}
		})
		kinds = append(kinds, func(g *flowGen) []fl.Stmt {
			return []fl.Stmt{&fl.Block{Body: append([]fl.Stmt{g.mark()}, inner(g)...)}}
		})
	}
	if !inLoop {
		for _, inner := range flowBlocks(depth-1, true, 1) {
			inner := inner
			kinds = append(kinds, func(g *flowGen) []fl.Stmt {
				return []fl.Stmt{&fl.Let{Name: "i", T: fl.I32, Init: c(-1)}, &fl.While{Cond: fl.B("<", fl.V("i"), x), Body: append([]fl.Stmt{&fl.IncDec{LHS: fl.V("i"), Inc: true}, g.mark()}, inner(g)...)}}
			})
			kinds = append(kinds, func(g *flowGen) []fl.Stmt {
				return []fl.Stmt{&fl.Let{Name: "lo", T: fl.I32, Init: c(0)}, &fl.ForRange{Var: "i", Lo: fl.V("lo"), Hi: x, Body: append([]fl.Stmt{g.mark()}, inner(g)...)}}
			})
			kinds = append(kinds, func(g *flowGen) []fl.Stmt {
				return []fl.Stmt{&fl.Let{Name: "lo", T: fl.I32, Init: c(0)}, &fl.ForRange{Var: "i", Lo: fl.V("lo"), Hi: x, Incl: true, Body: append([]fl.Stmt{g.mark()}, inner(g)...)}}
			})
		}
	}
	return kinds
}

// flowBlocks: all blocks of 1..maxLen statements.
func flowBlocks(depth int, inLoop bool, maxLen int) []func(g *flowGen) []fl.Stmt {
	kinds := flowStmts(depth, inLoop)
	out := append([]func(g *flowGen) []fl.Stmt{}, kinds...)
	if maxLen >= 2 {
		for _, a := range kinds {
			for _, b := range kinds {
				a, b := a, b
				out = append(out, func(g *flowGen) []fl.Stmt { return append(a(g), b(g)...) })
			}
		}
	}
	return out
}

func famFlow(quick bool) []*prog.Case {
	var out []*prog.Case
	depth, maxLen := 1, 2
	if !quick {
		depth = 2
	}
	blocks := flowBlocks(depth, false, maxLen)
	for bi, blk := range blocks {
		if !quick && bi%1 != 0 {
			continue
		}
		blk, bi := blk, bi
		out = append(out, mk(fmt.Sprintf("C01/flow/d%d/%05d", depth, bi), func(k K) *fl.Program {
			p := &fl.Program{}
			g := &flowGen{}
			body := append([]fl.Stmt{&fl.Let{Name: "n", T: fl.I32, Init: fl.L(fl.I32, 0)}}, blk(g)...)
			body = append(body, g.mark(), &fl.Return{X: fl.B("+", fl.V("n"), fl.L(fl.I32, 1000))})
			f := k.N("f")
			p.Funcs = append(p.Funcs, &fl.Func{Name: f, Params: []fl.Param{{"x", fl.I32}}, Ret: fl.I32, Body: dedupLets(body)})
			var mb []fl.Stmt
			for _, v := range []int64{-1, 0, 1, 2, 3} {
				mb = append(mb, fl.P(fl.C(f, fl.L(fl.I32, v))))
			}
			return mainProg(p, mb...)
		}))
	}
	return out
}

// dedupLets turns a second `let i`/`let lo` in the same block into distinct names is not
// needed: each loop statement sits in its own statement list position, but two loops in one
// block would redeclare `i`/`lo`. Wrap every loop (with its lets) in a nested block.
func dedupLets(body []fl.Stmt) []fl.Stmt {
	var out []fl.Stmt
	for i := 0; i < len(body); i++ {
		if l, ok := body[i].(*fl.Let); ok && (l.Name == "i" || l.Name == "lo") && i+1 < len(body) {
			out = append(out, &fl.Block{Body: []fl.Stmt{body[i], body[i+1]}})
			i++
			continue
		}
		out = append(out, body[i])
	}
	return out
}

// ------------------------------------------------------------------ loops over ranges and arrays

func famLoops(quick bool) []*prog.Case {
	var out []*prog.Case
	bound := func(kind string, v int64, name string) (fl.Expr, []fl.Stmt) {
		switch kind {
		case "untyped-lit":
			return &fl.IntLit{T: fl.I32, V: fl.N(v)}, nil
		case "typed-let":
			return fl.V(name), []fl.Stmt{&fl.Let{Name: name, T: fl.I32, Init: fl.L(fl.I32, v)}}
		case "const":
			return fl.V(name), []fl.Stmt{&fl.Let{Name: name, T: fl.I32, Init: fl.L(fl.I32, v), Const: true}}
		default: // call
			return nil, nil
		}
	}
	for _, lk := range []string{"untyped-lit", "typed-let", "const", "call"} {
		for _, hk := range []string{"untyped-lit", "typed-let", "const", "call"} {
			for _, incl := range []bool{false, true} {
				for _, span := range [][2]int64{{0, 3}, {2, 2}, {-2, 1}} {
					lk, hk, incl, span := lk, hk, incl, span
					out = append(out, mk(fmt.Sprintf("C01/loops/range/%s..%s/incl=%v/%d..%d", lk, hk, incl, span[0], span[1]), func(k K) *fl.Program {
						p := &fl.Program{}
						var pre []fl.Stmt
						mkb := func(kind string, v int64, name string) fl.Expr {
							if kind == "call" {
								fn := k.N("b" + name)
								p.Funcs = append(p.Funcs, &fl.Func{Name: fn, Ret: fl.I32, Body: []fl.Stmt{&fl.Return{X: fl.L(fl.I32, v)}}})
								return fl.C(fn)
							}
							e, s := bound(kind, v, name)
							pre = append(pre, s...)
							return e
						}
						lo := mkb(lk, span[0], "lo")
						hi := mkb(hk, span[1], "hi")
						body := append(pre, fl.P(fl.S("start")), &fl.ForRange{Var: "i", Lo: lo, Hi: hi, Incl: incl, Body: []fl.Stmt{fl.P(fl.V("i"))}}, fl.P(fl.S("end")))
						return mainProg(p, body...)
					}))
				}
			}
		}
	}
	// for-in over an expression that is evaluated once: the index variable (or the variable that
	// holds the array) changes inside the body, the iteration goes on over the value it started with
	// (iterating a plain variable that the body re-assigns is left out: the lowering iterates
	// such a variable in place, and nothing in the language's documents says which is meant)
	for _, shape := range []string{"dyn-of-fixed", "dyn-of-dyn"} {
		for _, when := range []string{"first-iteration", "every-iteration"} {
			shape, when := shape, when
			out = append(out, mk(fmt.Sprintf("C01/loops/forin-once/%s/%s", shape, when), func(k K) *fl.Program {
				i32 := fl.I32
				l := func(v int64) fl.Expr { return fl.L(i32, v) }
				row := func(a, b, c int64) fl.Expr { return &fl.ArrLit{Elems: []fl.Expr{l(a), l(b), l(c)}} }
				var pre []fl.Stmt
				var over fl.Expr
				var change fl.Stmt
				switch shape {
				case "dyn-of-fixed":
					pre = []fl.Stmt{&fl.Let{Name: "rows", T: fl.TDyn{Elem: fl.TArr{N: 3, Elem: i32}}, Init: &fl.ArrLit{Elems: []fl.Expr{row(1, 2, 3), row(10, 20, 30)}}}, &fl.Let{Name: "i", T: i32, Init: l(0)}}
					over, change = fl.Ix(fl.V("rows"), fl.V("i")), &fl.Assign{LHS: fl.V("i"), RHS: l(1)}
				case "dyn-of-dyn":
					pre = []fl.Stmt{&fl.Let{Name: "rows", T: fl.TDyn{Elem: fl.TDyn{Elem: i32}}, Init: &fl.ArrLit{Elems: []fl.Expr{row(1, 2, 3), row(10, 20, 30)}}}, &fl.Let{Name: "i", T: i32, Init: l(0)}}
					over, change = fl.Ix(fl.V("rows"), fl.V("i")), &fl.Assign{LHS: fl.V("i"), RHS: l(1)}
				case "strs":
					pre = []fl.Stmt{&fl.Let{Name: "rows", T: fl.TDyn{Elem: fl.Str}, Init: &fl.ArrLit{Elems: []fl.Expr{fl.S("abc"), fl.S("xyz")}}}, &fl.Let{Name: "i", T: i32, Init: l(0)}}
					over, change = fl.Ix(fl.V("rows"), fl.V("i")), &fl.Assign{LHS: fl.V("i"), RHS: l(1)}
				case "fixed-var-reassigned":
					pre = []fl.Stmt{&fl.Let{Name: "cur", T: fl.TArr{N: 3, Elem: i32}, Init: row(1, 2, 3)}}
					over, change = fl.V("cur"), &fl.Assign{LHS: fl.V("cur"), RHS: row(10, 20, 30)}
				case "dyn-var-reassigned":
					pre = []fl.Stmt{&fl.Let{Name: "cur", T: fl.TDyn{Elem: i32}, Init: row(1, 2, 3)}}
					over, change = fl.V("cur"), &fl.Assign{LHS: fl.V("cur"), RHS: row(10, 20, 30)}
				}
				body := []fl.Stmt{fl.P(fl.V("v"))}
				if when == "first-iteration" {
					body = append(body, &fl.If{Cond: fl.B("==", fl.V("n"), l(0)), Then: []fl.Stmt{change}}, &fl.OpAssign{Op: "+=", LHS: fl.V("n"), RHS: l(1)})
				} else {
					body = append(body, change)
				}
				all := append(pre, &fl.Let{Name: "n", T: i32, Init: l(0)}, &fl.ForIn{Idx: "_", Val: "v", X: over, Body: body}, fl.P(fl.S("end")))
				// in a helper: main's frame is not special
				p := &fl.Program{}
				p.Funcs = append(p.Funcs, &fl.Func{Name: k.N("it"), Body: all})
				return mainProg(p, &fl.ExprStmt{X: fl.C(k.N("it"))})
			}))
		}
	}
	// ranges with a step: the step's form (literal, let, const, call) decides whether the
	// compiler knows its sign; the iteration must not depend on that
	for _, sk := range []string{"untyped-lit", "typed-let", "const", "call"} {
		for _, incl := range []bool{false, true} {
			for _, sp := range [][3]int64{{0, 6, 2}, {0, 5, 2}, {3, 0, -1}, {6, 0, -2}, {5, 0, -2}, {2, 2, -1}, {2, 2, 1}, {0, 3, -1}, {3, 0, 1}} {
				for _, bk := range []string{"untyped-lit", "typed-let"} {
					sk, incl, sp, bk := sk, incl, sp, bk
					out = append(out, mk(fmt.Sprintf("C01/loops/step/%s/bounds=%s/incl=%v/%d..%d:%d", sk, bk, incl, sp[0], sp[1], sp[2]), func(k K) *fl.Program {
						p := &fl.Program{}
						var pre []fl.Stmt
						mkb := func(kind string, v int64, name string) fl.Expr {
							if kind == "call" {
								fn := k.N("b" + name)
								p.Funcs = append(p.Funcs, &fl.Func{Name: fn, Ret: fl.I32, Body: []fl.Stmt{&fl.Return{X: fl.L(fl.I32, v)}}})
								return fl.C(fn)
							}
							e, s := bound(kind, v, name)
							pre = append(pre, s...)
							return e
						}
						lo := mkb(bk, sp[0], "lo")
						hi := mkb(bk, sp[1], "hi")
						st := mkb(sk, sp[2], "st")
						body := append(pre, fl.P(fl.S("start")), &fl.ForRange{Var: "i", Lo: lo, Hi: hi, Incl: incl, Step: st, Body: []fl.Stmt{fl.P(fl.V("i"))}}, fl.P(fl.S("end")))
						return mainProg(p, body...)
					}))
				}
			}
		}
	}
	for _, arr := range []string{"fixed", "dyn"} {
		for _, binds := range [][2]string{{"i", "v"}, {"_", "v"}, {"i", "_"}, {"_", "_"}} {
			for _, n := range []int{0, 1, 3} {
				if arr == "fixed" && n == 0 {
					continue
				}
				arr, binds, n := arr, binds, n
				out = append(out, mk(fmt.Sprintf("C01/loops/forin/%s/%s,%s/n%d", arr, binds[0], binds[1], n), func(k K) *fl.Program {
					var elems []fl.Expr
					for j := 0; j < n; j++ {
						elems = append(elems, fl.L(fl.I32, int64(10*(j+1))))
					}
					var t fl.Type = fl.TDyn{Elem: fl.I32}
					if arr == "fixed" {
						t = fl.TArr{N: n, Elem: fl.I32}
					}
					var lb []fl.Stmt
					if binds[0] != "_" {
						lb = append(lb, fl.P(fl.V("i")))
					}
					if binds[1] != "_" {
						lb = append(lb, fl.P(fl.V("v")))
					}
					lb = append(lb, fl.P(fl.S("it")))
					return mainProg(&fl.Program{}, &fl.Let{Name: "a", T: t, Init: &fl.ArrLit{Elems: elems}}, &fl.ForIn{Idx: binds[0], Val: binds[1], X: fl.V("a"), Body: lb}, fl.P(fl.S("end")))
				}))
			}
		}
	}
	return out
}
