// Package c01: native executables behave as the source semantics prescribe.
// Families of generated programs (each a complete product over small domains) are run
// natively and compared with the definitional interpreter fl.Run.
package c01

import (
	"fmt"
	"math/big"

	"compiler/verifh/fl"
	"compiler/verifh/prog"
)

// K namespaces the top-level names of one case so that cases can be packed together.
type K struct{ S string }

func (k K) N(s string) string { return s + k.S }

var seq int

// mk builds a case; the reference outcome is computed here.
func mk(id string, build func(k K) *fl.Program) *prog.Case {
	seq++
	p := build(K{fmt.Sprintf("_%d", seq)})
	return &prog.Case{ID: id, P: p, Want: fl.Run(p)}
}

// boundary values of an integer type
func bvals(t fl.TInt, quick bool) []*big.Int {
	m := map[string]*big.Int{}
	var order []string
	add := func(v *big.Int) {
		if !t.Fits(v) {
			return
		}
		if _, ok := m[v.String()]; !ok {
			m[v.String()] = v
			order = append(order, v.String())
		}
	}
	one := big.NewInt(1)
	add(big.NewInt(0))
	add(big.NewInt(1))
	add(big.NewInt(-1))
	add(t.Max())
	add(t.Min())
	if !quick {
		add(big.NewInt(2))
		add(big.NewInt(-2))
		add(new(big.Int).Sub(t.Max(), one))
		add(new(big.Int).Add(t.Min(), one))
		h := new(big.Int).Lsh(one, uint(t.Bits/2))
		add(new(big.Int).Add(h, one))
		add(new(big.Int).Sub(h, one))
		add(big.NewInt(100))
		add(big.NewInt(7))
		add(big.NewInt(-7))
	} else {
		add(big.NewInt(7))
		add(big.NewInt(100))
	}
	var l []*big.Int
	for _, k := range order {
		l = append(l, m[k])
	}
	return l
}

func wider(t fl.TInt) (fl.TInt, bool) {
	switch t.Bits {
	case 8, 16:
		return fl.TInt{Bits: 32, Signed: t.Signed}, true
	case 32:
		return fl.TInt{Bits: 64, Signed: t.Signed}, true
	case 64:
		return fl.TInt{Bits: 128, Signed: t.Signed}, true
	case 128:
		return fl.TInt{Bits: 256, Signed: t.Signed}, true
	}
	return t, false
}

// operands sets up two operands of type t by the named producer; returns declarations to
// add to the program, statements to put before the use, the two operand expressions and,
// for the "param" producer, a wrapper that places the body into a function.
type operands struct {
	pre  []fl.Stmt
	a, b fl.Expr
	wrap func(p *fl.Program, k K, body []fl.Stmt) []fl.Stmt // returns main body
}

func produce(kind string, t fl.TInt, av, bv *big.Int, p *fl.Program, k K) operands {
	la, lb := fl.LB(t, av), fl.LB(t, bv)
	switch kind {
	case "let":
		return operands{pre: []fl.Stmt{&fl.Let{Name: "a", T: t, Init: la}, &fl.Let{Name: "b", T: t, Init: lb}}, a: fl.V("a"), b: fl.V("b")}
	case "param":
		return operands{a: fl.V("a"), b: fl.V("b"), wrap: func(p *fl.Program, k K, body []fl.Stmt) []fl.Stmt {
			p.Funcs = append(p.Funcs, &fl.Func{Name: k.N("body"), Params: []fl.Param{{"a", t}, {"b", t}}, Body: body})
			return []fl.Stmt{&fl.ExprStmt{X: fl.C(k.N("body"), la, lb)}}
		}}
	case "field":
		st := &fl.TStruct{Name: k.N("Ops"), Fields: []fl.Field{{"A", t}, {"B", t}}}
		p.Structs = append(p.Structs, st)
		return operands{pre: []fl.Stmt{&fl.Let{Name: "s", Init: &fl.StructLit{T: st, Vals: []fl.Expr{la, lb}}}}, a: fl.F(fl.V("s"), "A"), b: fl.F(fl.V("s"), "B")}
	case "arr":
		return operands{pre: []fl.Stmt{&fl.Let{Name: "v", T: fl.TArr{N: 2, Elem: t}, Init: &fl.ArrLit{Elems: []fl.Expr{la, lb}}}}, a: fl.Ix(fl.V("v"), fl.L(fl.I32, 0)), b: fl.Ix(fl.V("v"), fl.L(fl.I32, 1))}
	case "dyn":
		return operands{pre: []fl.Stmt{&fl.Let{Name: "v", T: fl.TDyn{Elem: t}, Init: &fl.ArrLit{Elems: []fl.Expr{la, lb}}}}, a: fl.Ix(fl.V("v"), fl.L(fl.I32, 0)), b: fl.Ix(fl.V("v"), fl.L(fl.I32, 1))}
	case "call":
		p.Funcs = append(p.Funcs,
			&fl.Func{Name: k.N("ga"), Ret: t, Body: []fl.Stmt{&fl.Return{X: la}}},
			&fl.Func{Name: k.N("gb"), Ret: t, Body: []fl.Stmt{&fl.Return{X: lb}}})
		return operands{a: fl.C(k.N("ga")), b: fl.C(k.N("gb"))}
	}
	panic(kind)
}

// consume turns an expression e of type t into observing statements.
func consume(kind string, t fl.TInt, e fl.Expr, ref *big.Int) []fl.Stmt {
	switch kind {
	case "print":
		return []fl.Stmt{fl.P(e)}
	case "eq":
		return []fl.Stmt{&fl.Let{Name: "r", T: t, Init: fl.LB(t, ref)}, fl.P(fl.B("==", e, fl.V("r"))), fl.P(fl.B("!=", e, fl.V("r")))}
	case "ord":
		return []fl.Stmt{&fl.Let{Name: "r", T: t, Init: fl.LB(t, ref)}, fl.P(fl.B("<", e, fl.V("r"))), fl.P(fl.B(">=", e, fl.V("r")))}
	case "store":
		return []fl.Stmt{&fl.Let{Name: "s0", T: t, Init: e}, fl.P(fl.V("s0"))}
	case "div":
		return []fl.Stmt{&fl.Let{Name: "d", T: t, Init: fl.L(t, 2)}, fl.P(fl.B("/", e, fl.V("d")))}
	case "widen":
		w, _ := wider(t)
		return []fl.Stmt{&fl.Let{Name: "w0", T: w, Init: &fl.Cast{X: e, T: w}}, fl.P(fl.V("w0"))}
	case "print-cast":
		// a cast expression directly as a print argument (its own sub-family)
		w, _ := wider(t)
		return []fl.Stmt{fl.P(&fl.Cast{X: e, T: w})}
	case "if":
		return []fl.Stmt{&fl.Let{Name: "r", T: t, Init: fl.LB(t, ref)}, &fl.If{Cond: fl.B("==", e, fl.V("r")), Then: []fl.Stmt{fl.P(fl.S("same"))}, Else: []fl.Stmt{fl.P(fl.S("different"))}}}
	}
	panic(kind)
}

func vname(v *big.Int, t fl.TInt) string {
	switch {
	case v.Cmp(t.Max()) == 0:
		return "max"
	case v.Cmp(t.Min()) == 0 && t.Signed:
		return "min"
	case v.Cmp(new(big.Int).Sub(t.Max(), big.NewInt(1))) == 0:
		return "max-1"
	case t.Signed && v.Cmp(new(big.Int).Add(t.Min(), big.NewInt(1))) == 0:
		return "min+1"
	}
	if v.BitLen() > 40 {
		return fmt.Sprintf("b%d", v.BitLen()) + map[int]string{-1: "n", 0: "", 1: "p"}[v.Sign()]
	}
	return v.String()
}

var opName = map[string]string{"+": "add", "-": "sub", "*": "mul", "/": "div", "%": "rem", "==": "eq", "!=": "ne", "<": "lt", "<=": "le", ">": "gt", ">=": "ge"}

// famArith: T x op x (a,b) x producer x consumer.
func famArith(quick bool, types []fl.TInt) []*prog.Case {
	var out []*prog.Case
	combos := [][2]string{{"let", "print"}, {"let", "eq"}, {"let", "ord"}, {"let", "store"}, {"let", "div"}, {"let", "widen"}, {"let", "print-cast"}, {"let", "if"},
		{"param", "print"}, {"param", "eq"}, {"field", "print"}, {"field", "eq"}, {"arr", "print"}, {"arr", "eq"}, {"dyn", "print"}, {"dyn", "eq"}, {"call", "print"}, {"call", "eq"}}
	for _, t := range types {
		vals := bvals(t, quick)
		for _, op := range []string{"+", "-", "*", "/", "%"} {
			for _, a := range vals {
				for _, b := range vals {
					if (op == "/" || op == "%") && b.Sign() == 0 {
						continue
					}
					sub := ""
					if (op == "/" || op == "%") && t.Signed && a.Cmp(t.Min()) == 0 && b.Cmp(big.NewInt(-1)) == 0 {
						sub = "minneg1/" // min / -1 overflows: own sub-family
					}
					for ci, cb := range combos {
						prod, cons := cb[0], cb[1]
						// quick: the 128/256-bit types (each operation is a runtime call on memory
						// operands; their programs are the slowest to build) take the first
						// combination of every producer and the comparing consumers only
						if quick && t.Bits > 64 && !(ci == 0 || ci == 1 || ci == 3 || cons == "eq") {
							continue
						}
						if cons == "widen" || cons == "print-cast" {
							if _, ok := wider(t); !ok {
								continue
							}
						}
						a, b, t, op := a, b, t, op
						id := fmt.Sprintf("C01/arith/%s%s/%s/%s/%s/(%s,%s)", sub, t, opName[op], prod, cons, vname(a, t), vname(b, t))
						out = append(out, mk(id, func(k K) *fl.Program {
							p := &fl.Program{}
							o := produce(prod, t, a, b, p, k)
							// reference value of the operation, for the comparing consumers
							var ref *big.Int
							switch op {
							case "+":
								ref = t.Wrap(new(big.Int).Add(a, b))
							case "-":
								ref = t.Wrap(new(big.Int).Sub(a, b))
							case "*":
								ref = t.Wrap(new(big.Int).Mul(a, b))
							case "/":
								ref = t.Wrap(new(big.Int).Quo(a, b))
							case "%":
								ref = t.Wrap(new(big.Int).Rem(a, b))
							}
							body := append(append([]fl.Stmt{}, o.pre...), consume(cons, t, fl.B(op, o.a, o.b), ref)...)
							if o.wrap != nil {
								body = o.wrap(p, k, body)
							}
							p.Funcs = append(p.Funcs, &fl.Func{Name: "main", Body: body})
							return p
						}))
					}
				}
			}
		}
	}
	return out
}

// famCmp: T x comparison x (a,b), operands from lets and from calls.
func famCmp(quick bool, types []fl.TInt) []*prog.Case {
	var out []*prog.Case
	for _, t := range types {
		vals := bvals(t, quick)
		for _, op := range []string{"==", "!=", "<", "<=", ">", ">="} {
			for _, a := range vals {
				for _, b := range vals {
					for _, prod := range []string{"let", "call", "field"} {
						a, b, t, op, prod := a, b, t, op, prod
						id := fmt.Sprintf("C01/cmp/%s/%s/%s/(%s,%s)", t, opName[op], prod, vname(a, t), vname(b, t))
						out = append(out, mk(id, func(k K) *fl.Program {
							p := &fl.Program{}
							o := produce(prod, t, a, b, p, k)
							body := append(append([]fl.Stmt{}, o.pre...), fl.P(fl.B(op, o.a, o.b)),
								&fl.If{Cond: fl.B(op, o.a, o.b), Then: []fl.Stmt{fl.P(fl.S("T"))}, Else: []fl.Stmt{fl.P(fl.S("F"))}})
							p.Funcs = append(p.Funcs, &fl.Func{Name: "main", Body: body})
							return p
						}))
					}
				}
			}
		}
	}
	return out
}

// famCast: all ordered pairs of integer types x boundary values of the source.
func famCast(quick bool, types []fl.TInt) []*prog.Case {
	var out []*prog.Case
	for _, s := range types {
		for _, t := range types {
			if s == t {
				continue
			}
			for _, v := range bvals(s, quick) {
				s, t, v := s, t, v
				id := fmt.Sprintf("C01/cast/%s->%s/%s", s, t, vname(v, s))
				out = append(out, mk(id, func(k K) *fl.Program {
					body := []fl.Stmt{&fl.Let{Name: "x", T: s, Init: fl.LB(s, v)},
						&fl.Let{Name: "y", T: t, Init: &fl.Cast{X: fl.V("x"), T: t}}, fl.P(fl.V("y")),
						&fl.Let{Name: "r", T: t, Init: fl.LB(t, t.Wrap(v))}, fl.P(fl.B("==", fl.V("y"), fl.V("r")))}
					return &fl.Program{Funcs: []*fl.Func{{Name: "main", Body: body}}}
				}))
			}
		}
	}
	return out
}

// famUnary: negation, ++/--, compound assignments.
func famUnary(quick bool, types []fl.TInt) []*prog.Case {
	var out []*prog.Case
	for _, t := range types {
		vals := bvals(t, quick)
		for _, a := range vals {
			a, t := a, t
			if t.Signed {
				out = append(out, mk(fmt.Sprintf("C01/unary/%s/neg/%s", t, vname(a, t)), func(k K) *fl.Program {
					body := []fl.Stmt{&fl.Let{Name: "x", T: t, Init: fl.LB(t, a)}, &fl.Let{Name: "y", T: t, Init: &fl.Un{Op: "-", X: fl.V("x")}}, fl.P(fl.V("y"))}
					return &fl.Program{Funcs: []*fl.Func{{Name: "main", Body: body}}}
				}))
			}
			for _, inc := range []bool{true, false} {
				inc := inc
				out = append(out, mk(fmt.Sprintf("C01/unary/%s/incdec%v/%s", t, inc, vname(a, t)), func(k K) *fl.Program {
					body := []fl.Stmt{&fl.Let{Name: "x", T: t, Init: fl.LB(t, a)}, &fl.IncDec{LHS: fl.V("x"), Inc: inc}, fl.P(fl.V("x")),
						&fl.Let{Name: "r", T: t, Init: fl.LB(t, t.Wrap(new(big.Int).Add(a, big.NewInt(map[bool]int64{true: 1, false: -1}[inc]))))}, fl.P(fl.B("==", fl.V("x"), fl.V("r")))}
					return &fl.Program{Funcs: []*fl.Func{{Name: "main", Body: body}}}
				}))
			}
			for _, op := range []string{"+=", "-=", "*=", "/=", "%="} {
				for _, b := range vals {
					if (op == "/=" || op == "%=") && b.Sign() == 0 {
						continue
					}
					if (op == "/=" || op == "%=") && t.Signed && a.Cmp(t.Min()) == 0 && b.Cmp(big.NewInt(-1)) == 0 {
						continue
					}
					op, b := op, b
					out = append(out, mk(fmt.Sprintf("C01/unary/%s/%s/(%s,%s)", t, opName[op[:1]]+"assign", vname(a, t), vname(b, t)), func(k K) *fl.Program {
						body := []fl.Stmt{&fl.Let{Name: "x", T: t, Init: fl.LB(t, a)}, &fl.Let{Name: "y", T: t, Init: fl.LB(t, b)},
							&fl.OpAssign{Op: op, LHS: fl.V("x"), RHS: fl.V("y")}, fl.P(fl.V("x"))}
						return &fl.Program{Funcs: []*fl.Func{{Name: "main", Body: body}}}
					}))
				}
			}
			// the right operand as a literal (it has to take the target's type) on every kind of
			// target place
			for _, op := range []string{"+=", "-=", "*=", "/=", "%="} {
				for _, lhs := range []string{"var", "field", "elem", "ref", "param"} {
					op, lhs := op, lhs
					out = append(out, mk(fmt.Sprintf("C01/unary/%s/%s-lit/%s/%s", t, opName[op[:1]]+"assign", lhs, vname(a, t)), func(k K) *fl.Program {
						p := &fl.Program{}
						lit := fl.L(t, 3)
						var body []fl.Stmt
						switch lhs {
						case "var":
							body = []fl.Stmt{&fl.Let{Name: "x", T: t, Init: fl.LB(t, a)}, &fl.OpAssign{Op: op, LHS: fl.V("x"), RHS: lit}, fl.P(fl.V("x"))}
						case "field":
							st := &fl.TStruct{Name: k.N("Acc"), Fields: []fl.Field{{"P", fl.I8}, {"V", t}, {"Q", fl.I8}}}
							p.Structs = append(p.Structs, st)
							body = []fl.Stmt{&fl.Let{Name: "s", Init: &fl.StructLit{T: st, Vals: []fl.Expr{fl.L(fl.I8, 1), fl.LB(t, a), fl.L(fl.I8, 2)}}},
								&fl.OpAssign{Op: op, LHS: fl.F(fl.V("s"), "V"), RHS: lit}, fl.P(fl.F(fl.V("s"), "V")), fl.P(fl.F(fl.V("s"), "P")), fl.P(fl.F(fl.V("s"), "Q"))}
						case "elem":
							body = []fl.Stmt{&fl.Let{Name: "e", T: fl.TArr{N: 2, Elem: t}, Init: &fl.ArrLit{Elems: []fl.Expr{fl.LB(t, a), fl.L(t, 1)}}},
								&fl.OpAssign{Op: op, LHS: fl.Ix(fl.V("e"), fl.L(fl.I32, 0)), RHS: lit}, fl.P(fl.Ix(fl.V("e"), fl.L(fl.I32, 0))), fl.P(fl.Ix(fl.V("e"), fl.L(fl.I32, 1)))}
						case "ref":
							body = []fl.Stmt{&fl.Let{Name: "x", T: t, Init: fl.LB(t, a)},
								&fl.Block{Body: []fl.Stmt{&fl.Let{Name: "r", T: fl.TRef{Elem: t, Mut: true}, Init: &fl.Borrow{X: fl.V("x"), Mut: true}}, &fl.OpAssign{Op: op, LHS: fl.V("r"), RHS: lit}}},
								fl.P(fl.V("x"))}
						case "param":
							p.Funcs = append(p.Funcs, &fl.Func{Name: k.N("upd"), Params: []fl.Param{{"v", t}}, Ret: t, Body: []fl.Stmt{&fl.OpAssign{Op: op, LHS: fl.V("v"), RHS: lit}, &fl.Return{X: fl.V("v")}}})
							body = []fl.Stmt{fl.P(fl.C(k.N("upd"), fl.LB(t, a)))}
						}
						p.Funcs = append(p.Funcs, &fl.Func{Name: "main", Body: body})
						return p
					}))
				}
			}
		}
	}
	return out
}

// ------------------------------------------------------------------ implicit widening
//
// famImplicit: a value of integer type S used where T is expected WITHOUT a cast, in every
// assignment-like position, for every ordered pair of integer types. Whether the compiler allows
// the conversion is C11's business (a rejection is not a failure here: Tag "may-reject"); when it
// does allow it, the running program must see the same value.
func famImplicit(quick bool, types []fl.TInt) []*prog.Case {
	var out []*prog.Case
	// the *-over positions store into a place whose old value has every upper byte different
	// from the extension of the new one
	positions := []string{"let", "assign", "arg", "return", "field", "elem", "method-arg", "second-arg",
		"assign-over", "ref-write", "ref-param-write", "field-assign", "elem-assign", "dyn-elem-assign", "append"}
	for _, sT := range types {
		for _, tT := range types {
			if sT == tT || !tT.Fits(sT.Min()) || !tT.Fits(sT.Max()) {
				continue // only embeddings: anything else has to be rejected (C11)
			}
			vals := []*big.Int{sT.Min(), big.NewInt(5), sT.Max()}
			if !sT.Signed {
				vals = vals[1:]
			}
			for _, pos := range positions {
				for _, v := range vals {
					sT, tT, pos, v := sT, tT, pos, v
					c := mk(fmt.Sprintf("C01/implicit/%s->%s/%s/%s", sT, tT, pos, vname(v, sT)), func(k K) *fl.Program {
						p := &fl.Program{}
						a := fl.V("a")
						body := []fl.Stmt{&fl.Let{Name: "a", T: sT, Init: fl.LB(sT, v)}}
						switch pos {
						case "let":
							body = append(body, &fl.Let{Name: "b", T: tT, Init: a}, fl.P(fl.V("b")))
						case "assign":
							body = append(body, &fl.Let{Name: "b", T: tT, Init: fl.L(tT, 1)}, &fl.Assign{LHS: fl.V("b"), RHS: a}, fl.P(fl.V("b")))
						case "arg":
							p.Funcs = append(p.Funcs, &fl.Func{Name: k.N("w"), Params: []fl.Param{{"v", tT}}, Ret: tT, Body: []fl.Stmt{&fl.Return{X: fl.V("v")}}})
							body = append(body, fl.P(fl.C(k.N("w"), a)))
						case "second-arg":
							p.Funcs = append(p.Funcs, &fl.Func{Name: k.N("w2"), Params: []fl.Param{{"u", fl.I8}, {"v", tT}}, Ret: tT, Body: []fl.Stmt{&fl.Return{X: fl.V("v")}}})
							body = append(body, fl.P(fl.C(k.N("w2"), fl.L(fl.I8, 3), a)))
						case "return":
							p.Funcs = append(p.Funcs, &fl.Func{Name: k.N("r"), Params: []fl.Param{{"v", sT}}, Ret: tT, Body: []fl.Stmt{&fl.Return{X: fl.V("v")}}})
							body = append(body, fl.P(fl.C(k.N("r"), a)))
						case "field":
							st := &fl.TStruct{Name: k.N("Wd"), Fields: []fl.Field{{"P", fl.I8}, {"W", tT}, {"Q", fl.I8}}}
							p.Structs = append(p.Structs, st)
							body = append(body, &fl.Let{Name: "s", Init: &fl.StructLit{T: st, Vals: []fl.Expr{fl.L(fl.I8, 1), a, fl.L(fl.I8, 2)}}},
								fl.P(fl.F(fl.V("s"), "W")), fl.P(fl.F(fl.V("s"), "P")), fl.P(fl.F(fl.V("s"), "Q")))
						case "elem":
							body = append(body, &fl.Let{Name: "e", T: fl.TArr{N: 2, Elem: tT}, Init: &fl.ArrLit{Elems: []fl.Expr{a, fl.L(tT, 1)}}},
								fl.P(fl.Ix(fl.V("e"), fl.L(fl.I32, 0))), fl.P(fl.Ix(fl.V("e"), fl.L(fl.I32, 1))))
						case "assign-over", "ref-write", "ref-param-write", "field-assign", "elem-assign", "dyn-elem-assign", "append":
							old := tT.Max()
							if v.Sign() >= 0 && tT.Signed {
								old = tT.Min()
							}
							oldL := fl.LB(tT, old)
							b := fl.V("b")
							switch pos {
							case "assign-over":
								body = append(body, &fl.Let{Name: "b", T: tT, Init: oldL}, fl.P(b), &fl.Assign{LHS: b, RHS: a}, fl.P(b))
							case "ref-write":
								body = append(body, &fl.Let{Name: "b", T: tT, Init: oldL}, fl.P(b),
									&fl.Block{Body: []fl.Stmt{&fl.Let{Name: "r", T: fl.TRef{Elem: tT, Mut: true}, Init: &fl.Borrow{X: b, Mut: true}}, &fl.Assign{LHS: fl.V("r"), RHS: a}, fl.P(fl.V("r"))}}, fl.P(b))
							case "ref-param-write":
								p.Funcs = append(p.Funcs, &fl.Func{Name: k.N("setr"), Params: []fl.Param{{"r", fl.TRef{Elem: tT, Mut: true}}, {"v", sT}}, Body: []fl.Stmt{&fl.Assign{LHS: fl.V("r"), RHS: fl.V("v")}}})
								body = append(body, &fl.Let{Name: "b", T: tT, Init: oldL}, fl.P(b), &fl.ExprStmt{X: fl.C(k.N("setr"), &fl.Borrow{X: b, Mut: true}, a)}, fl.P(b))
							case "field-assign":
								st := &fl.TStruct{Name: k.N("Wd"), Fields: []fl.Field{{"P", fl.I8}, {"W", tT}, {"Q", fl.I8}}}
								p.Structs = append(p.Structs, st)
								body = append(body, &fl.Let{Name: "s", Init: &fl.StructLit{T: st, Vals: []fl.Expr{fl.L(fl.I8, 1), oldL, fl.L(fl.I8, 2)}}}, &fl.Assign{LHS: fl.F(fl.V("s"), "W"), RHS: a},
									fl.P(fl.F(fl.V("s"), "W")), fl.P(fl.F(fl.V("s"), "P")), fl.P(fl.F(fl.V("s"), "Q")))
							case "elem-assign":
								body = append(body, &fl.Let{Name: "e", T: fl.TArr{N: 3, Elem: tT}, Init: &fl.ArrLit{Elems: []fl.Expr{oldL, oldL, oldL}}}, &fl.Assign{LHS: fl.Ix(fl.V("e"), fl.L(fl.I32, 1)), RHS: a},
									fl.P(fl.Ix(fl.V("e"), fl.L(fl.I32, 0))), fl.P(fl.Ix(fl.V("e"), fl.L(fl.I32, 1))), fl.P(fl.Ix(fl.V("e"), fl.L(fl.I32, 2))))
							case "dyn-elem-assign":
								body = append(body, &fl.Let{Name: "e", T: fl.TDyn{Elem: tT}, Init: &fl.ArrLit{Elems: []fl.Expr{oldL, oldL, oldL}}}, &fl.Assign{LHS: fl.Ix(fl.V("e"), fl.L(fl.I32, -2)), RHS: a},
									fl.P(fl.Ix(fl.V("e"), fl.L(fl.I32, 0))), fl.P(fl.Ix(fl.V("e"), fl.L(fl.I32, 1))), fl.P(fl.Ix(fl.V("e"), fl.L(fl.I32, 2))))
							case "append":
								body = append(body, &fl.Let{Name: "e", T: fl.TDyn{Elem: tT}, Init: &fl.ArrLit{Elems: []fl.Expr{oldL}}}, &fl.Append{Arr: fl.V("e"), Val: a}, &fl.Append{Arr: fl.V("e"), Val: oldL},
									fl.P(fl.Ix(fl.V("e"), fl.L(fl.I32, 0))), fl.P(fl.Ix(fl.V("e"), fl.L(fl.I32, 1))), fl.P(fl.Ix(fl.V("e"), fl.L(fl.I32, 2))))
							}
						case "method-arg":
							st := &fl.TStruct{Name: k.N("Rc"), Fields: []fl.Field{{"A", fl.I32}}}
							p.Structs = append(p.Structs, st)
							p.Funcs = append(p.Funcs, &fl.Func{Name: "keep", Recv: &fl.Param{Name: "s", T: st}, Params: []fl.Param{{"v", tT}}, Ret: tT, Body: []fl.Stmt{&fl.Return{X: fl.V("v")}}})
							body = append(body, &fl.Let{Name: "rc", Init: &fl.StructLit{T: st, Vals: []fl.Expr{fl.L(fl.I32, 1)}}}, fl.P(&fl.MCall{Recv: fl.V("rc"), Name: "keep", Args: []fl.Expr{a}}))
						}
						p.Funcs = append(p.Funcs, &fl.Func{Name: "main", Body: body})
						return p
					})
					c.Tag = "may-reject" // observed after a front-end pre-pass (see Run)
					out = append(out, c)
				}
			}
		}
	}
	return out
}
