package c01

import (
	"fmt"

	"compiler/verifh/fl"
	"compiler/verifh/prog"
)

// ------------------------------------------------------------------ value semantics of aggregates
//
// famByValueX (the holders and receivers famByValue does not have): structs, fixed arrays and 128-bit integers travel as pointers in the compiled
// code, yet they are values: whoever receives one (a callee, a method with a value receiver, a
// closure, a `let`, an assignment, a field or an element of a literal, the result of a call)
// owns a private copy. The family is the product
//
//	type x holder (where the passed value lives on the sending side)
//	     x receiver (how the receiving side gets it and writes to it)
//
// and every case writes on the receiving side, prints there, then prints the sender's value;
// for the receivers that bind a copy it then writes on the sending side and prints the copy.

type bvType struct {
	name   string
	t      fl.Type
	lit    func(seed int64) fl.Expr
	mutate func(pl fl.Expr) []fl.Stmt
	digest func(pl fl.Expr) fl.Expr // an i64
	named  bool                     // methods can be declared on it
}

var byVal struct {
	types  []bvType
	bv, ne *fl.TStruct
	wrap   map[string]*fl.TStruct
	sink   map[string]*fl.Func // fn sink_T(v: T) -> i64 { mutate(v); return digest(v); }
	sinkm  map[string]*fl.Func // fn (v: T) sinkm() -> i64
	id     map[string]*fl.Func // fn id_T(v: T) -> T { return v; }
}

func byValInit() {
	if byVal.types != nil {
		return
	}
	i32, i64 := fl.I32, fl.I64
	li := func(n int64) fl.Expr { return fl.L(i32, n) }
	c64 := func(e fl.Expr) fl.Expr { return &fl.Cast{X: e, T: i64} }
	as := func(l, r fl.Expr) fl.Stmt { return &fl.Assign{LHS: l, RHS: r} }
	bv := &fl.TStruct{Name: "BvS", Fields: []fl.Field{{"A", i32}, {"B", i64}, {"T", fl.TArr{N: 2, Elem: i32}}}}
	ne := &fl.TStruct{Name: "BvN", Fields: []fl.Field{{"K", fl.I8}, {"In", bv}}}
	byVal.bv, byVal.ne = bv, ne
	bvLit := func(s int64) fl.Expr {
		return &fl.StructLit{T: bv, Vals: []fl.Expr{li(s), fl.L(i64, 100*s), &fl.ArrLit{Elems: []fl.Expr{li(s + 1), li(s + 2)}}}}
	}
	bvMut := func(pl fl.Expr) []fl.Stmt {
		return []fl.Stmt{as(fl.F(pl, "A"), fl.B("+", fl.F(pl, "A"), li(1))), as(fl.Ix(fl.F(pl, "T"), li(1)), fl.B("+", fl.Ix(fl.F(pl, "T"), li(1)), li(10)))}
	}
	bvDig := func(pl fl.Expr) fl.Expr {
		return fl.B("+", fl.B("+", c64(fl.F(pl, "A")), fl.F(pl, "B")), fl.B("+", c64(fl.Ix(fl.F(pl, "T"), li(0))), c64(fl.Ix(fl.F(pl, "T"), li(1)))))
	}
	arr := fl.TArr{N: 3, Elem: i32}
	arrS := fl.TArr{N: 2, Elem: bv}
	byVal.types = []bvType{
		{"struct", bv, bvLit, bvMut, bvDig, true},
		{"arr3", arr,
			func(s int64) fl.Expr { return &fl.ArrLit{Elems: []fl.Expr{li(s), li(s + 1), li(s + 2)}} },
			func(pl fl.Expr) []fl.Stmt {
				return []fl.Stmt{as(fl.Ix(pl, li(0)), fl.B("*", fl.Ix(pl, li(0)), li(2))), &fl.OpAssign{Op: "+=", LHS: fl.Ix(pl, li(2)), RHS: li(1)}}
			},
			func(pl fl.Expr) fl.Expr {
				return c64(fl.B("+", fl.B("+", fl.Ix(pl, li(0)), fl.B("*", fl.Ix(pl, li(1)), li(100))), fl.B("*", fl.Ix(pl, li(2)), li(10000))))
			}, false},
		{"i128", fl.I128,
			func(s int64) fl.Expr { return fl.L(fl.I128, 1000000000000*s) },
			func(pl fl.Expr) []fl.Stmt { return []fl.Stmt{as(pl, fl.B("+", pl, fl.L(fl.I128, 1)))} },
			func(pl fl.Expr) fl.Expr { return c64(fl.B("%", pl, fl.L(fl.I128, 1000000007))) }, false},
		{"nested", ne,
			func(s int64) fl.Expr { return &fl.StructLit{T: ne, Vals: []fl.Expr{fl.L(fl.I8, s), bvLit(s + 3)}} },
			func(pl fl.Expr) []fl.Stmt {
				return append([]fl.Stmt{as(fl.F(pl, "K"), fl.B("+", fl.F(pl, "K"), fl.L(fl.I8, 1)))}, bvMut(fl.F(pl, "In"))...)
			},
			func(pl fl.Expr) fl.Expr { return fl.B("+", fl.B("*", c64(fl.F(pl, "K")), fl.L(i64, 1000000)), bvDig(fl.F(pl, "In"))) }, true},
		{"arr-of-struct", arrS,
			func(s int64) fl.Expr { return &fl.ArrLit{Elems: []fl.Expr{bvLit(s), bvLit(s + 5)}} },
			func(pl fl.Expr) []fl.Stmt { return bvMut(fl.Ix(pl, li(1))) },
			func(pl fl.Expr) fl.Expr {
				return fl.B("+", bvDig(fl.Ix(pl, li(0))), fl.B("*", bvDig(fl.Ix(pl, li(1))), fl.L(i64, 7)))
			}, false},
	}
	byVal.wrap = map[string]*fl.TStruct{}
	byVal.sink, byVal.sinkm, byVal.id = map[string]*fl.Func{}, map[string]*fl.Func{}, map[string]*fl.Func{}
	for _, t := range byVal.types {
		byVal.wrap[t.name] = &fl.TStruct{Name: "BvW" + idPart(t.name), Fields: []fl.Field{{"Tag", fl.I16}, {"V", t.t}}}
		v := fl.V("v")
		body := append(append([]fl.Stmt{}, t.mutate(v)...), &fl.Return{X: t.digest(v)})
		byVal.sink[t.name] = &fl.Func{Name: "bv_sink_" + idPart(t.name), Params: []fl.Param{{"v", t.t}}, Ret: i64, Body: body, Shared: true}
		byVal.id[t.name] = &fl.Func{Name: "bv_id_" + idPart(t.name), Params: []fl.Param{{"v", t.t}}, Ret: t.t, Body: []fl.Stmt{&fl.Return{X: v}}, Shared: true}
		if t.named {
			byVal.sinkm[t.name] = &fl.Func{Name: "sinkm", Recv: &fl.Param{Name: "v", T: t.t}, Ret: i64, Body: body, Shared: true}
		}
	}
}

func idPart(s string) string {
	out := []byte{}
	for i := 0; i < len(s); i++ {
		if c := s[i]; c >= 'a' && c <= 'z' || c >= '0' && c <= '9' {
			out = append(out, c)
		}
	}
	return string(out)
}

var bvHolders = []string{"local", "param", "param-written", "field", "elem", "param-field", "param-elem", "recursion-level", "loop-var", "captured"}
var bvReceivers = []string{"fn", "fn-twice", "method", "closure", "let", "assign", "wrap-field", "array-elem", "id-result", "fn-of-fn"}

func famByValueX(quick bool) []*prog.Case {
	byValInit()
	var out []*prog.Case
	for _, t := range byVal.types {
		for _, h := range bvHolders {
			for _, r := range bvReceivers {
				if r == "method" && !t.named {
					continue
				}
				t, h, r := t, h, r
				out = append(out, mk(fmt.Sprintf("C01/byvalue2/%s/%s/%s", t.name, h, r), func(k K) *fl.Program { return byValProgram(t, h, r, k) }))
			}
		}
	}
	return out
}

// byValProgram: fn hold(...) contains the sending side; `x` is the expression that names the
// held value there.
func byValProgram(t bvType, holder, recv string, k K) *fl.Program {
	i32, i64 := fl.I32, fl.I64
	li := func(n int64) fl.Expr { return fl.L(i32, n) }
	v := fl.V
	p := &fl.Program{Structs: []*fl.TStruct{byVal.bv, byVal.ne, byVal.wrap[t.name]}}
	sink, id := byVal.sink[t.name], byVal.id[t.name]
	p.Funcs = append(p.Funcs, sink, id)
	if t.named {
		p.Funcs = append(p.Funcs, byVal.sinkm[t.name])
	}
	wrapT := byVal.wrap[t.name]
	wrapLit := func(e fl.Expr) fl.Expr { return &fl.StructLit{T: wrapT, Vals: []fl.Expr{fl.L(fl.I16, 7), e}} }

	// the receiving side, as statements over the sender's expression x
	receive := func(x fl.Expr) []fl.Stmt {
		copyTail := func(w fl.Expr) []fl.Stmt {
			// write to the copy, print both; write to the sender, print both
			st := append([]fl.Stmt{}, t.mutate(w)...)
			st = append(st, fl.P(t.digest(w)), fl.P(t.digest(x)))
			st = append(st, t.mutate(x)...)
			st = append(st, t.mutate(x)...)
			return append(st, fl.P(t.digest(w)), fl.P(t.digest(x)))
		}
		switch recv {
		case "fn":
			return []fl.Stmt{fl.P(fl.C(sink.Name, x)), fl.P(t.digest(x))}
		case "fn-twice":
			return []fl.Stmt{&fl.Let{Name: "r1", T: i64, Init: fl.C(sink.Name, x)}, &fl.Let{Name: "r2", T: i64, Init: fl.C(sink.Name, x)}, fl.P(v("r1")), fl.P(v("r2")), fl.P(t.digest(x))}
		case "method":
			return []fl.Stmt{fl.P(&fl.MCall{Recv: x, Name: "sinkm"}), fl.P(t.digest(x)), fl.P(&fl.MCall{Recv: x, Name: "sinkm"}), fl.P(t.digest(x))}
		case "closure":
			body := append(append([]fl.Stmt{}, t.mutate(v("cv"))...), &fl.Return{X: t.digest(v("cv"))})
			return []fl.Stmt{&fl.Let{Name: "cl", Init: &fl.FuncLit{Params: []fl.Param{{"cv", t.t}}, Ret: i64, Body: body}},
				fl.P(&fl.Call{FnX: v("cl"), Args: []fl.Expr{x}}), fl.P(t.digest(x))}
		case "let":
			return append([]fl.Stmt{&fl.Let{Name: "w", T: t.t, Init: x}}, copyTail(v("w"))...)
		case "assign":
			return append([]fl.Stmt{&fl.Let{Name: "w", T: t.t, Init: t.lit(50)}, fl.P(t.digest(v("w"))), &fl.Assign{LHS: v("w"), RHS: x}}, copyTail(v("w"))...)
		case "wrap-field":
			return append([]fl.Stmt{&fl.Let{Name: "wo", Init: wrapLit(x)}}, copyTail(fl.F(v("wo"), "V"))...)
		case "array-elem":
			return append([]fl.Stmt{&fl.Let{Name: "wa", T: fl.TArr{N: 2, Elem: t.t}, Init: &fl.ArrLit{Elems: []fl.Expr{x, x}}}}, append(copyTail(fl.Ix(v("wa"), li(0))), fl.P(t.digest(fl.Ix(v("wa"), li(1)))))...)
		case "id-result":
			return append([]fl.Stmt{&fl.Let{Name: "w", T: t.t, Init: fl.C(id.Name, x)}}, copyTail(v("w"))...)
		case "fn-of-fn":
			// the callee forwards its own parameter once more and reads it afterwards
			fwd := &fl.Func{Name: k.N("bv_fwd"), Params: []fl.Param{{"q", t.t}}, Ret: i64, Body: []fl.Stmt{
				&fl.Let{Name: "a", T: i64, Init: fl.C(sink.Name, v("q"))}, &fl.Let{Name: "b", T: i64, Init: fl.C(sink.Name, v("q"))},
				&fl.Return{X: fl.B("+", fl.B("*", v("a"), fl.L(i64, 3)), fl.B("+", fl.B("*", v("b"), fl.L(i64, 5)), t.digest(v("q"))))}}}
			p.Funcs = append(p.Funcs, fwd)
			return []fl.Stmt{fl.P(fl.C(fwd.Name, x)), fl.P(t.digest(x))}
		}
		panic("receiver " + recv)
	}

	hold := k.N("bv_hold")
	var mainBody []fl.Stmt
	call := func(args ...fl.Expr) fl.Stmt { return &fl.ExprStmt{X: fl.C(hold, args...)} }
	switch holder {
	case "local":
		p.Funcs = append(p.Funcs, &fl.Func{Name: hold, Body: append([]fl.Stmt{&fl.Let{Name: "x", T: t.t, Init: t.lit(3)}}, receive(v("x"))...)})
		mainBody = []fl.Stmt{call()}
	case "param", "param-written":
		body := receive(v("x"))
		if holder == "param-written" {
			body = append(append([]fl.Stmt{}, t.mutate(v("x"))...), body...)
		}
		p.Funcs = append(p.Funcs, &fl.Func{Name: hold, Params: []fl.Param{{"x", t.t}}, Body: body})
		mainBody = []fl.Stmt{&fl.Let{Name: "m", T: t.t, Init: t.lit(3)}, call(v("m")), fl.P(t.digest(v("m")))}
	case "field":
		x := fl.F(v("o"), "V")
		p.Funcs = append(p.Funcs, &fl.Func{Name: hold, Body: append(append([]fl.Stmt{&fl.Let{Name: "o", Init: wrapLit(t.lit(3))}}, receive(x)...), fl.P(fl.F(v("o"), "Tag")))})
		mainBody = []fl.Stmt{call()}
	case "elem":
		x := fl.Ix(v("es"), li(1))
		p.Funcs = append(p.Funcs, &fl.Func{Name: hold, Body: append(append([]fl.Stmt{&fl.Let{Name: "es", T: fl.TArr{N: 2, Elem: t.t}, Init: &fl.ArrLit{Elems: []fl.Expr{t.lit(3), t.lit(4)}}}}, receive(x)...), fl.P(t.digest(fl.Ix(v("es"), li(0)))))})
		mainBody = []fl.Stmt{call()}
	case "param-field":
		x := fl.F(v("o"), "V")
		p.Funcs = append(p.Funcs, &fl.Func{Name: hold, Params: []fl.Param{{"o", wrapT}}, Body: append(receive(x), fl.P(fl.F(v("o"), "Tag")))})
		mainBody = []fl.Stmt{&fl.Let{Name: "m", Init: wrapLit(t.lit(3))}, call(v("m")), fl.P(t.digest(fl.F(v("m"), "V")))}
	case "param-elem":
		x := fl.Ix(v("es"), li(-1))
		p.Funcs = append(p.Funcs, &fl.Func{Name: hold, Params: []fl.Param{{"es", fl.TArr{N: 2, Elem: t.t}}}, Body: append(receive(x), fl.P(t.digest(fl.Ix(v("es"), li(0)))))})
		mainBody = []fl.Stmt{&fl.Let{Name: "m", T: fl.TArr{N: 2, Elem: t.t}, Init: &fl.ArrLit{Elems: []fl.Expr{t.lit(3), t.lit(4)}}}, call(v("m")), fl.P(t.digest(fl.Ix(v("m"), li(1))))}
	case "recursion-level":
		// every level writes to its own parameter, passes it down, and uses it afterwards
		body := append([]fl.Stmt{}, t.mutate(v("x"))...)
		body = append(body, &fl.If{Cond: fl.B(">", v("d"), li(0)), Then: []fl.Stmt{&fl.ExprStmt{X: fl.C(hold, v("x"), fl.B("-", v("d"), li(1)))}}})
		body = append(body, fl.P(v("d")))
		body = append(body, receive(v("x"))...)
		p.Funcs = append(p.Funcs, &fl.Func{Name: hold, Params: []fl.Param{{"x", t.t}, {"d", i32}}, Body: body})
		mainBody = []fl.Stmt{&fl.Let{Name: "m", T: t.t, Init: t.lit(3)}, call(v("m"), li(2)), fl.P(t.digest(v("m")))}
	case "loop-var":
		loop := &fl.ForIn{Idx: "_", Val: "x", X: v("es"), Body: receive(v("x"))}
		p.Funcs = append(p.Funcs, &fl.Func{Name: hold, Body: []fl.Stmt{&fl.Let{Name: "es", T: fl.TArr{N: 2, Elem: t.t}, Init: &fl.ArrLit{Elems: []fl.Expr{t.lit(3), t.lit(4)}}}, loop,
			fl.P(t.digest(fl.Ix(v("es"), li(0)))), fl.P(t.digest(fl.Ix(v("es"), li(1))))}})
		mainBody = []fl.Stmt{call()}
	case "captured":
		inner := &fl.FuncLit{Body: receive(v("x"))}
		p.Funcs = append(p.Funcs, &fl.Func{Name: hold, Body: []fl.Stmt{&fl.Let{Name: "x", T: t.t, Init: t.lit(3)}, &fl.Let{Name: "g", Init: inner}, &fl.ExprStmt{X: &fl.Call{FnX: v("g")}}, fl.P(t.digest(v("x")))}})
		mainBody = []fl.Stmt{call()}
	default:
		panic("holder " + holder)
	}
	p.Funcs = append(p.Funcs, &fl.Func{Name: "main", Body: mainBody})
	return p
}
