package c01

import (
	"os"
	"fmt"

	"compiler/verifh/fl"
	"compiler/verifh/prog"
)

// ------------------------------------------------------------------ operation sequences
//
// famSeq: every sequence of <=2 (thorough 3) operations from an alphabet of ~40 statements that
// act on ONE shared state (scalars of three widths, a struct, a fixed array, a dynamic array),
// followed by a dump of the whole state. The single-feature families above start every
// construct from freshly initialised variables; here each operation runs in the state the
// previous ones left (a spilled parameter, a borrowed-and-released local, an appended array, a
// value that went through a closure, a catch, a by-value copy ...), which is where defects that
// need two cooperating sites show.
//
// The helper declarations are shared by all cases (same pointers): prog.Pack emits them once.

type seqOp struct {
	id   string
	body func() []fl.Stmt
}

var seqShared struct {
	st    *fl.TStruct
	funcs []*fl.Func
}

func seqInit() {
	if seqShared.st != nil {
		return
	}
	st := &fl.TStruct{Name: "SeqS", Fields: []fl.Field{{"A", fl.I32}, {"B", fl.I64}, {"C", fl.U8}}}
	seqShared.st = st
	i32, i64 := fl.I32, fl.I64
	arr := fl.TArr{N: 3, Elem: i32}
	seqShared.funcs = []*fl.Func{
		{Name: "seq_inc", Params: []fl.Param{{"r", fl.TRef{Elem: i32, Mut: true}}}, Body: []fl.Stmt{
			&fl.Assign{LHS: fl.V("r"), RHS: fl.B("+", fl.V("r"), fl.L(i32, 1))}}},
		{Name: "seq_get", Params: []fl.Param{{"r", fl.TRef{Elem: i32}}}, Ret: i32, Body: []fl.Stmt{
			&fl.Return{X: fl.B("*", fl.V("r"), fl.L(i32, 2))}}},
		{Name: "bump", Recv: &fl.Param{Name: "s", T: fl.TRef{Elem: st, Mut: true}}, Body: []fl.Stmt{
			&fl.Assign{LHS: fl.F(fl.V("s"), "A"), RHS: fl.B("+", fl.F(fl.V("s"), "A"), fl.L(i32, 1))},
			&fl.Assign{LHS: fl.F(fl.V("s"), "B"), RHS: fl.B("+", fl.F(fl.V("s"), "B"), fl.L(i64, 2))}}},
		{Name: "total", Recv: &fl.Param{Name: "s", T: st}, Ret: i64, Body: []fl.Stmt{
			&fl.Return{X: fl.B("+", &fl.Cast{X: fl.F(fl.V("s"), "A"), T: i64}, fl.F(fl.V("s"), "B"))}}},
		// by-value parameters are assigned inside the callee: the caller's value must not move
		{Name: "seq_sum", Params: []fl.Param{{"q", st}}, Ret: i64, Body: []fl.Stmt{
			&fl.Assign{LHS: fl.F(fl.V("q"), "A"), RHS: fl.B("+", fl.F(fl.V("q"), "A"), fl.L(i32, 100))},
			&fl.Return{X: fl.B("+", &fl.Cast{X: fl.F(fl.V("q"), "A"), T: i64}, fl.F(fl.V("q"), "B"))}}},
		{Name: "seq_suma", Params: []fl.Param{{"p", arr}}, Ret: i32, Body: []fl.Stmt{
			&fl.Assign{LHS: fl.Ix(fl.V("p"), fl.L(i32, 0)), RHS: fl.L(i32, 0)},
			&fl.Return{X: fl.B("+", fl.Ix(fl.V("p"), fl.L(i32, 0)), fl.Ix(fl.V("p"), fl.L(i32, 1)))}}},
		// a scalar parameter that is assigned and then captured / returned
		{Name: "seq_par", Params: []fl.Param{{"v", i32}}, Ret: i32, Body: []fl.Stmt{
			&fl.OpAssign{Op: "+=", LHS: fl.V("v"), RHS: fl.L(i32, 3)},
			&fl.Let{Name: "k", Init: fl.V("v")},
			&fl.Let{Name: "f", Init: &fl.FuncLit{Params: []fl.Param{{"z", i32}}, Ret: i32, Body: []fl.Stmt{&fl.Return{X: fl.B("+", fl.V("z"), fl.V("k"))}}}},
			&fl.Return{X: &fl.Call{Fn: "f", Args: []fl.Expr{fl.L(i32, 1)}}}}},
		{Name: "seq_mk", Params: []fl.Param{{"v", i32}}, Ret: fl.TResult{Err: fl.Str, Ok: i32}, Body: []fl.Stmt{
			&fl.If{Cond: fl.B("<", fl.V("v"), fl.L(i32, 0)), Then: []fl.Stmt{&fl.ReturnErr{X: fl.S("neg")}}},
			&fl.Return{X: fl.B("*", fl.V("v"), fl.L(i32, 2))}}},
		{Name: "seq_neg", Params: []fl.Param{{"v", i32}}, Ret: i32, Body: []fl.Stmt{&fl.Return{X: fl.B("*", fl.V("v"), fl.L(i32, 3))}}},
		{Name: "seq_fact", Params: []fl.Param{{"n", i32}}, Ret: i32, Body: []fl.Stmt{
			&fl.If{Cond: fl.B("<=", fl.V("n"), fl.L(i32, 1)), Then: []fl.Stmt{&fl.Return{X: fl.L(i32, 1)}}},
			&fl.Return{X: fl.B("*", fl.V("n"), fl.C("seq_fact", fl.B("-", fl.V("n"), fl.L(i32, 1))))}}},
	}
	for _, f := range seqShared.funcs {
		f.Shared = true
	}
}

func seqOps() []seqOp {
	i32, i64, u8 := fl.I32, fl.I64, fl.U8
	x, y, b, w, s, a, d := fl.V("x"), fl.V("y"), fl.V("b"), fl.V("w"), fl.V("s"), fl.V("a"), fl.V("d")
	l := func(v int64) fl.Expr { return fl.L(i32, v) }
	as := func(lhs, rhs fl.Expr) fl.Stmt { return &fl.Assign{LHS: lhs, RHS: rhs} }
	one := func(st ...fl.Stmt) func() []fl.Stmt { return func() []fl.Stmt { return st } }
	blk := func(st ...fl.Stmt) func() []fl.Stmt {
		return func() []fl.Stmt { return []fl.Stmt{&fl.Block{Body: st}} }
	}
	return []seqOp{
		{"x=x+y", one(as(x, fl.B("+", x, y)))},
		{"x+=7", one(&fl.OpAssign{Op: "+=", LHS: x, RHS: l(7)})},
		{"x-=y", one(&fl.OpAssign{Op: "-=", LHS: x, RHS: y})},
		{"x=x/3", one(as(x, fl.B("/", x, l(3))))},
		{"x=x%-4", one(as(x, fl.B("%", x, l(-4))))},
		{"y=-y", one(as(y, &fl.Un{Op: "-", X: y}))},
		{"y--", one(&fl.IncDec{LHS: y, Inc: false})},
		{"b+=10", one(&fl.OpAssign{Op: "+=", LHS: b, RHS: fl.L(u8, 10)})},
		{"b=b*b", one(as(b, fl.B("*", b, b)))},
		{"b--", one(&fl.IncDec{LHS: b, Inc: false})},
		{"x=b-as-i32", one(as(x, fl.B("+", x, &fl.Cast{X: b, T: i32})))},
		{"x=x-as-u8", one(as(x, &fl.Cast{X: &fl.Cast{X: x, T: u8}, T: i32}))},
		{"w+=x*1e6", one(as(w, fl.B("+", w, fl.B("*", &fl.Cast{X: x, T: i64}, fl.L(i64, 1000000)))))},
		{"x=w-as-i32", one(as(x, &fl.Cast{X: fl.B("/", w, fl.L(i64, 1000000007)), T: i32}))},
		{"s.A=x", one(as(fl.F(s, "A"), x))},
		{"s.B+=x", one(&fl.OpAssign{Op: "+=", LHS: fl.F(s, "B"), RHS: &fl.Cast{X: x, T: i64}})},
		{"s.C=b", one(as(fl.F(s, "C"), b))},
		{"copy-s", blk(&fl.Let{Name: "t", Init: s}, as(fl.F(fl.V("t"), "A"), l(99)), fl.P(fl.F(fl.V("t"), "A")), fl.P(fl.F(fl.V("t"), "B")))},
		// the new value is a literal whose parts read the variable being assigned
		{"rot-a", one(as(a, &fl.ArrLit{Elems: []fl.Expr{fl.Ix(a, l(2)), fl.Ix(a, l(0)), fl.Ix(a, l(1))}}))},
		{"rot-s", func() []fl.Stmt {
			return []fl.Stmt{as(s, &fl.StructLit{T: seqShared.st, Vals: []fl.Expr{&fl.Cast{X: fl.F(s, "C"), T: i32}, &fl.Cast{X: fl.F(s, "A"), T: i64}, &fl.Cast{X: fl.F(s, "B"), T: u8}}})}
		}},
		// the fixed array through an index variable whose value the compiler knows
		{"a[j]=x", one(as(fl.Ix(a, fl.V("j")), x))},
		{"y=a[j]", one(as(y, fl.Ix(a, fl.V("j"))))},
		{"j=2", one(as(fl.V("j"), l(2)))},
		{"y=-j", one(as(y, &fl.Un{Op: "-", X: fl.V("j")}))},
		{"x+=j*2", one(&fl.OpAssign{Op: "+=", LHS: x, RHS: fl.B("*", fl.V("j"), l(2))})},
		{"a[-j]=y", one(as(fl.Ix(a, &fl.Un{Op: "-", X: fl.V("j")}), y))},
		{"swap-fields", blk(&fl.Let{Name: "t", Init: fl.F(s, "A")}, as(fl.F(s, "A"), &fl.Cast{X: fl.F(s, "C"), T: i32}), as(fl.F(s, "C"), &fl.Cast{X: fl.V("t"), T: u8}))},
		{"a[1]=x", one(as(fl.Ix(a, l(1)), x))},
		{"a[-1]=a[0]+1", one(as(fl.Ix(a, l(-1)), fl.B("+", fl.Ix(a, l(0)), l(1))))},
		{"copy-a", blk(&fl.Let{Name: "c", Init: a}, as(fl.Ix(fl.V("c"), l(0)), l(0)), fl.P(fl.Ix(fl.V("c"), l(0))), fl.P(fl.Ix(fl.V("c"), l(2))))},
		{"append-x", one(&fl.Append{Arr: d, Val: x})},
		{"d[0]=d[1]+1", one(as(fl.Ix(d, l(0)), fl.B("+", fl.Ix(d, l(1)), l(1))))},
		{"d[-1]=y", one(as(fl.Ix(d, l(-1)), y))},
		{"inc(&'x)", one(&fl.ExprStmt{X: fl.C("seq_inc", &fl.Borrow{X: x, Mut: true})})},
		{"inc(&'s.A)", one(&fl.ExprStmt{X: fl.C("seq_inc", &fl.Borrow{X: fl.F(s, "A"), Mut: true})})},
		{"inc(&'a[2])", one(&fl.ExprStmt{X: fl.C("seq_inc", &fl.Borrow{X: fl.Ix(a, l(2)), Mut: true})})},
		{"y=get(&x)", one(as(y, fl.C("seq_get", &fl.Borrow{X: x})))},
		{"ref-local", blk(&fl.Let{Name: "rr", T: fl.TRef{Elem: i32, Mut: true}, Init: &fl.Borrow{X: x, Mut: true}}, as(fl.V("rr"), fl.B("+", fl.V("rr"), l(5))), fl.P(fl.V("rr")))},
		{"s.bump()", one(&fl.ExprStmt{X: &fl.MCall{Recv: s, Name: "bump"}})},
		{"w=s.total()", one(as(w, &fl.MCall{Recv: s, Name: "total"}))},
		{"print-sum(s)", one(fl.P(fl.C("seq_sum", s)))},
		{"x=suma(a)", one(as(x, fl.C("seq_suma", a)))},
		{"x=par(x)", one(as(x, fl.C("seq_par", x)))},
		{"closure", blk(&fl.Let{Name: "k", Init: y},
			&fl.Let{Name: "f", Init: &fl.FuncLit{Params: []fl.Param{{"v", i32}}, Ret: i32, Body: []fl.Stmt{&fl.Return{X: fl.B("+", fl.V("v"), fl.V("k"))}}}},
			as(x, &fl.Call{Fn: "f", Args: []fl.Expr{x}}))},
		{"if-swap", one(&fl.If{Cond: fl.B(">", x, y), Then: []fl.Stmt{as(x, y)}, Else: []fl.Stmt{as(y, x)}})},
		{"while", one(&fl.While{Cond: fl.B("<", x, l(20)), Body: []fl.Stmt{&fl.OpAssign{Op: "+=", LHS: x, RHS: l(6)}}})},
		{"for-in-a", one(&fl.ForIn{Idx: "_", Val: "v", X: a, Body: []fl.Stmt{&fl.OpAssign{Op: "+=", LHS: y, RHS: fl.V("v")}}})},
		{"for-range", one(&fl.ForRange{Var: "i", Lo: l(0), Hi: l(3), Body: []fl.Stmt{&fl.OpAssign{Op: "+=", LHS: x, RHS: fl.V("i")}}})},
		{"match-x", one(&fl.Match{Subj: x, Arms: []fl.Arm{{Pat: l(5), Body: []fl.Stmt{as(x, l(50))}}, {Pat: l(6), Body: []fl.Stmt{as(y, l(60))}}, {Body: []fl.Stmt{&fl.OpAssign{Op: "+=", LHS: x, RHS: l(1)}}}}})},
		{"catch", blk(&fl.Let{Name: "r", Init: &fl.Catch{X: fl.C("seq_mk", x), ErrName: "e", Handler: []fl.Stmt{fl.P(fl.V("e")), as(y, l(0))}, Fallback: l(1)}},
			&fl.OpAssign{Op: "+=", LHS: x, RHS: fl.V("r")})},
		{"catch-neg", blk(&fl.Let{Name: "r", Init: &fl.Catch{X: fl.C("seq_mk", &fl.Un{Op: "-", X: fl.B("*", x, x)}), ErrName: "e", Handler: []fl.Stmt{fl.P(fl.V("e")), as(y, l(0))}, Fallback: l(1)}},
			&fl.OpAssign{Op: "+=", LHS: x, RHS: fl.V("r")})},
		{"x=fact(4)", one(as(x, fl.B("-", x, fl.C("seq_fact", l(4)))))},
		// an index variable of their own, assigned in one alternative and used in another: each
		// alternative starts from what was known before the construct
		{"elseif-idx", blk(&fl.Let{Name: "jj", T: i32, Init: l(0)}, &fl.If{Cond: fl.B(">", x, l(1000)), Then: []fl.Stmt{as(fl.V("jj"), l(2)), as(y, fl.Ix(a, fl.V("jj")))},
			Else: []fl.Stmt{&fl.If{Cond: fl.B(">", x, l(-1000)), Then: []fl.Stmt{as(y, fl.B("+", y, fl.Ix(a, fl.V("jj"))))}, Else: []fl.Stmt{as(fl.V("jj"), l(1)), as(y, fl.Ix(a, fl.V("jj")))}}}})},
		{"match-idx", blk(&fl.Let{Name: "jj", T: i32, Init: l(2)}, &fl.Match{Subj: x, Arms: []fl.Arm{{Pat: l(4), Body: []fl.Stmt{as(fl.V("jj"), l(0)), as(y, fl.Ix(a, fl.V("jj")))}},
			{Pat: l(5), Body: []fl.Stmt{as(fl.Ix(a, fl.V("jj")), fl.B("+", fl.Ix(a, fl.V("jj")), l(1)))}}, {Body: []fl.Stmt{as(y, fl.B("-", fl.Ix(a, fl.V("jj")), l(1)))}}}})},
		{"else-idx", blk(&fl.Let{Name: "jj", T: i32, Init: l(1)}, &fl.If{Cond: fl.B(">", y, x), Then: []fl.Stmt{as(fl.V("jj"), l(2)), as(fl.Ix(a, fl.V("jj")), x)}, Else: []fl.Stmt{as(fl.Ix(a, fl.V("jj")), y)}})},
		// ... and one whose value is not known before the construct (x % 2 is -1, 0 or 1: always
		// inside d, which never shrinks below two elements)
		{"else-dyn-idx", blk(&fl.Let{Name: "jj", T: i32, Init: fl.B("%", x, l(2))}, &fl.If{Cond: fl.B(">", y, l(100000)), Then: []fl.Stmt{as(fl.V("jj"), l(5)), fl.P(fl.V("jj"))},
			Else: []fl.Stmt{as(fl.Ix(d, fl.V("jj")), fl.B("+", fl.Ix(d, fl.V("jj")), l(1))), as(y, fl.Ix(d, fl.V("jj")))}})},
		{"match-dyn-idx", blk(&fl.Let{Name: "jj", T: i32, Init: l(1)}, &fl.Match{Subj: x, Arms: []fl.Arm{{Pat: l(4), Body: []fl.Stmt{as(fl.V("jj"), l(5)), fl.P(fl.V("jj"))}},
			{Pat: l(5), Body: []fl.Stmt{as(y, fl.Ix(d, fl.V("jj")))}}, {Body: []fl.Stmt{as(y, fl.B("+", fl.Ix(d, fl.V("jj")), l(1)))}}}})},
		// the index variable under an operator, as an argument
		{"print(-j)", one(fl.P(&fl.Un{Op: "-", X: fl.V("j")}))},
		{"x=get(-j)", one(as(x, fl.B("+", x, fl.C("seq_neg", &fl.Un{Op: "-", X: fl.V("j")}))))},
		// a range loop whose body changes the variable that was its bound (the range is evaluated once)
		{"for-range-n", blk(&fl.Let{Name: "n", T: i32, Init: l(4)}, &fl.ForRange{Var: "i", Lo: l(0), Hi: fl.V("n"), Body: []fl.Stmt{&fl.OpAssign{Op: "+=", LHS: x, RHS: fl.V("i")}, as(fl.V("n"), fl.B("-", fl.V("n"), l(1)))}}, as(y, fl.V("n")))},
		// a closure over two locals
		{"closure2", blk(&fl.Let{Name: "k", T: i32, Init: y}, &fl.Let{Name: "m", T: i32, Init: x},
			&fl.Let{Name: "f", Init: &fl.FuncLit{Params: []fl.Param{{"v", i32}}, Ret: i32, Body: []fl.Stmt{&fl.Return{X: fl.B("+", fl.B("+", fl.V("v"), fl.V("k")), fl.V("m"))}}}},
			as(x, &fl.Call{FnX: fl.V("f"), Args: []fl.Expr{l(1)}}))},
		// a shared reference whose last use is followed, in the same block, by a write to the referent
		{"ref-then-write", blk(&fl.Let{Name: "rs", T: fl.TRef{Elem: i32}, Init: &fl.Borrow{X: x}}, as(y, fl.B("+", y, fl.V("rs"))), as(x, fl.B("+", x, l(1))))},
		{"print-bool", one(fl.P(fl.B("&&", fl.B(">", x, y), fl.B("<", b, fl.L(u8, 100)))))},
	}
}

// seqNoHelper: helper functions left out of a case's program (SeqWithout).
var seqNoHelper map[string]bool

func seqCase(ops []seqOp, idx []int) *prog.Case {
	id := "C01/seq"
	for _, i := range idx {
		id += "/" + ops[i].id
	}
	return mk(id, func(k K) *fl.Program {
		seqInit()
		p := &fl.Program{Structs: []*fl.TStruct{seqShared.st}}
		for _, f := range seqShared.funcs {
			if !seqNoHelper[f.Name] {
				p.Funcs = append(p.Funcs, f)
			}
		}
		i32, i64, u8 := fl.I32, fl.I64, fl.U8
		l := func(v int64) fl.Expr { return fl.L(i32, v) }
		body := []fl.Stmt{
			&fl.Let{Name: "x", T: i32, Init: l(5)},
			&fl.Let{Name: "y", T: i32, Init: l(-3)},
			&fl.Let{Name: "b", T: u8, Init: fl.L(u8, 250)},
			&fl.Let{Name: "w", T: i64, Init: fl.L(i64, 1099511627776)},
			&fl.Let{Name: "s", Init: &fl.StructLit{T: seqShared.st, Vals: []fl.Expr{l(1), fl.L(i64, 2), fl.L(u8, 3)}}},
			&fl.Let{Name: "a", T: fl.TArr{N: 3, Elem: i32}, Init: &fl.ArrLit{Elems: []fl.Expr{l(10), l(20), l(30)}}},
			&fl.Let{Name: "d", T: fl.TDyn{Elem: i32}, Init: &fl.ArrLit{Elems: []fl.Expr{l(7), l(8)}}},
			// an index the compiler can follow (only ever assigned constants)
			&fl.Let{Name: "j", T: i32, Init: l(1)},
		}
		for _, i := range idx {
			body = append(body, ops[i].body()...)
		}
		x, s, a, d := fl.V("x"), fl.V("s"), fl.V("a"), fl.V("d")
		for _, e := range []fl.Expr{x, fl.V("y"), fl.V("b"), fl.V("w"), fl.F(s, "A"), fl.F(s, "B"), fl.F(s, "C"),
			fl.Ix(a, l(0)), fl.Ix(a, l(1)), fl.Ix(a, l(2)), &fl.Len{X: d}, fl.Ix(d, l(0)), fl.Ix(d, l(1)), fl.Ix(d, l(-1)), fl.V("j"), fl.Ix(a, fl.V("j"))} {
			body = append(body, fl.P(e))
		}
		// the state lives in a helper, not in main: its locals are ordinary stack variables
		p.Funcs = append(p.Funcs, &fl.Func{Name: k.N("seq"), Body: body})
		return mainProg(p, &fl.ExprStmt{X: fl.C(k.N("seq"))})
	})
}

// SeqWithout returns the operation-sequence family over the alphabet minus the named
// operations (C02 leaves out what the wasm back end documents as unsupported).
func SeqWithout(quick bool, skip ...string) []*prog.Case {
	var ops []seqOp
	for _, o := range seqOps() {
		drop := false
		for _, s := range skip {
			if o.id == s {
				drop = true
			}
		}
		if !drop {
			ops = append(ops, o)
		}
	}
	seqNoHelper = map[string]bool{}
	for _, sk := range skip {
		switch sk {
		case "catch":
			seqNoHelper["seq_mk"] = true
		case "x=par(x)":
			seqNoHelper["seq_par"] = true
		}
	}
	defer func() { seqNoHelper = nil }()
	return seqFrom(ops, quick)
}

func famSeq(quick bool) []*prog.Case { return seqFrom(seqOps(), quick) }

// SeqBases: the sequences used as base programs of the metamorphic check C09: every single
// operation, and every pair - quick: pairs over the operations whose compilation consults what
// the compiler knows about values (index variable, branches, loops, closures, references).
func SeqBases(quick bool) []*prog.Case {
	ops := seqOps()
	sens := map[string]bool{"a[j]=x": true, "y=a[j]": true, "j=2": true, "y=-j": true, "x+=j*2": true, "a[-j]=y": true, "if-swap": true, "while": true,
		"match-x": true, "closure": true, "ref-local": true, "y=get(&x)": true, "for-range": true, "catch": true,
		"elseif-idx": true, "match-idx": true, "else-idx": true, "else-dyn-idx": true, "ref-then-write": true, "match-dyn-idx": true, "print(-j)": true, "x=get(-j)": true, "for-range-n": true, "closure2": true}
	var out []*prog.Case
	for i := range ops {
		out = append(out, seqCase(ops, []int{i}))
	}
	core := map[string]bool{"a[j]=x": true, "y=a[j]": true, "j=2": true, "y=-j": true, "a[-j]=y": true, "if-swap": true}
	for i := range ops {
		for j := range ops {
			// quick: both operations from the core (index variable, branch); thorough: both
			// from the sensitive set
			if sens[ops[i].id] && sens[ops[j].id] && (!quick || (core[ops[i].id] && core[ops[j].id])) {
				out = append(out, seqCase(ops, []int{i, j}))
			}
		}
	}
	return out
}

func seqFrom(ops []seqOp, quick bool) []*prog.Case {
	var out []*prog.Case
	n := len(ops)
	for i := 0; i < n; i++ {
		out = append(out, seqCase(ops, []int{i}))
	}
	for i := 0; i < n; i++ {
		for j := 0; j < n; j++ {
			out = append(out, seqCase(ops, []int{i, j}))
		}
	}
	if !quick {
		// triples: every ordered pair (i, j) is continued by every 13th operation, the residue
		// chosen by (i + j), so that every operation follows every pair class and the tier stays
		// at n^3/13 (about 21 000) programs; the full cube (n^3 = 275 000) is one VERIF_SEQ_CUBE=1 away
		step := 13
		if os.Getenv("VERIF_SEQ_CUBE") != "" {
			step = 1
		}
		for i := 0; i < n; i++ {
			for j := 0; j < n; j++ {
				for h := (i + j) % step; h < n; h += step {
					out = append(out, seqCase(ops, []int{i, j, h}))
				}
			}
		}
	}
	return out
}

var _ = fmt.Sprintf
