package c01

import (
	"compiler/verifh/fl"
	"compiler/verifh/prog"
)

// ------------------------------------------------------------------ operation sequences, second world
//
// famSeqW: the same construction as famSeq over a different state: the integer widths famSeq
// does not use (i8, i16, u16, u32, u64, i128), an array of structs, a struct holding an array, a
// dynamic array of structs, a string, an enum value, methods with value and `&'` receivers that
// go through the nested places. Every sequence of 1 and 2 (thorough: 3) operations, then a dump.

var seqW struct {
	in, out *fl.TStruct
	col     *fl.TEnum
	funcs   []*fl.Func
}

func seqWInit() {
	if seqW.in != nil {
		return
	}
	in := &fl.TStruct{Name: "WIn", Fields: []fl.Field{{"K", fl.I8}, {"V", fl.I64}, {"F", fl.U16}}}
	out := &fl.TStruct{Name: "WOut", Fields: []fl.Field{{"T", fl.U8}, {"In", in}, {"Arr", fl.TArr{N: 2, Elem: fl.I16}}}}
	col := &fl.TEnum{Name: "WCol", Variants: []string{"Red", "Green", "Blue"}}
	seqW.in, seqW.out, seqW.col = in, out, col
	i64, i32 := fl.I64, fl.I32
	ev := func(v string) fl.Expr { return &fl.EnumVal{T: col, V: v} }
	seqW.funcs = []*fl.Func{
		{Name: "grow", Recv: &fl.Param{Name: "o", T: fl.TRef{Elem: out, Mut: true}}, Params: []fl.Param{{"by", fl.I64}}, Body: []fl.Stmt{
			&fl.Assign{LHS: fl.F(fl.F(fl.V("o"), "In"), "V"), RHS: fl.B("+", fl.F(fl.F(fl.V("o"), "In"), "V"), fl.V("by"))},
			&fl.Assign{LHS: fl.Ix(fl.F(fl.V("o"), "Arr"), fl.L(i32, 1)), RHS: fl.B("+", fl.Ix(fl.F(fl.V("o"), "Arr"), fl.L(i32, 1)), fl.L(fl.I16, 1))}}},
		{Name: "weight", Recv: &fl.Param{Name: "o", T: out}, Ret: i64, Body: []fl.Stmt{
			&fl.Return{X: fl.B("+", fl.F(fl.F(fl.V("o"), "In"), "V"), &fl.Cast{X: fl.Ix(fl.F(fl.V("o"), "Arr"), fl.L(i32, 0)), T: i64})}}},
		{Name: "w_next", Params: []fl.Param{{"c", col}}, Ret: col, Body: []fl.Stmt{
			&fl.Match{Subj: fl.V("c"), Arms: []fl.Arm{{Pat: ev("Red"), Body: []fl.Stmt{&fl.Return{X: ev("Green")}}}, {Pat: ev("Green"), Body: []fl.Stmt{&fl.Return{X: ev("Blue")}}}, {Body: []fl.Stmt{&fl.Return{X: ev("Red")}}}}}}},
		{Name: "w_code", Params: []fl.Param{{"c", col}}, Ret: i32, Body: []fl.Stmt{
			&fl.Match{Subj: fl.V("c"), Arms: []fl.Arm{{Pat: ev("Red"), Body: []fl.Stmt{&fl.Return{X: fl.L(i32, 1)}}}, {Pat: ev("Green"), Body: []fl.Stmt{&fl.Return{X: fl.L(i32, 2)}}}, {Pat: ev("Blue"), Body: []fl.Stmt{&fl.Return{X: fl.L(i32, 3)}}}}}}},
		{Name: "w_half", Params: []fl.Param{{"v", i64}}, Ret: fl.TResult{Err: fl.Str, Ok: i64}, Body: []fl.Stmt{
			&fl.If{Cond: fl.B("!=", fl.B("%", fl.V("v"), fl.L(i64, 2)), fl.L(i64, 0)), Then: []fl.Stmt{&fl.ReturnErr{X: fl.S("odd")}}},
			&fl.Return{X: fl.B("/", fl.V("v"), fl.L(i64, 2))}}},
		{Name: "w_sum", Params: []fl.Param{{"e", fl.TArr{N: 2, Elem: in}}}, Ret: i64, Body: []fl.Stmt{
			&fl.Assign{LHS: fl.F(fl.Ix(fl.V("e"), fl.L(i32, 0)), "V"), RHS: fl.L(i64, 0)},
			&fl.Return{X: fl.B("+", fl.F(fl.Ix(fl.V("e"), fl.L(i32, 0)), "V"), fl.F(fl.Ix(fl.V("e"), fl.L(i32, 1)), "V"))}}},
		{Name: "w_setf", Params: []fl.Param{{"r", fl.TRef{Elem: fl.U16, Mut: true}}, {"v", fl.U16}}, Body: []fl.Stmt{&fl.Assign{LHS: fl.V("r"), RHS: fl.V("v")}}},
	}
	for _, f := range seqW.funcs {
		f.Shared = true
	}
}

func seqWOps() []seqOp {
	seqWInit()
	i8, i16, u16, u32, u64, i64, i128, i32 := fl.I8, fl.I16, fl.U16, fl.U32, fl.U64, fl.I64, fl.I128, fl.I32
	_ = u32
	v := fl.V
	as := func(lhs, rhs fl.Expr) fl.Stmt { return &fl.Assign{LHS: lhs, RHS: rhs} }
	one := func(st ...fl.Stmt) func() []fl.Stmt { return func() []fl.Stmt { return st } }
	blk := func(st ...fl.Stmt) func() []fl.Stmt {
		return func() []fl.Stmt { return []fl.Stmt{&fl.Block{Body: st}} }
	}
	li := func(n int64) fl.Expr { return fl.L(i32, n) }
	o, es, ds := v("o"), v("es"), v("ds")
	inV := fl.F(fl.F(o, "In"), "V")
	mkIn := func(k, val, f int64) fl.Expr {
		return &fl.StructLit{T: seqW.in, Vals: []fl.Expr{fl.L(i8, k), fl.L(i64, val), fl.L(u16, f)}}
	}
	ev := func(s string) fl.Expr { return &fl.EnumVal{T: seqW.col, V: s} }
	return []seqOp{
		{"p+=100", one(&fl.OpAssign{Op: "+=", LHS: v("p"), RHS: fl.L(i8, 100)})},
		{"p=-p", one(as(v("p"), &fl.Un{Op: "-", X: v("p")}))},
		{"q*=q", one(as(v("q"), fl.B("*", v("q"), v("q"))))},
		{"q=p-as-i16*300", one(as(v("q"), fl.B("*", &fl.Cast{X: v("p"), T: i16}, fl.L(i16, 300))))},
		{"r-=1000", one(&fl.OpAssign{Op: "-=", LHS: v("r"), RHS: fl.L(u16, 1000)})},
		{"t=t*t", one(as(v("t"), fl.B("*", v("t"), v("t"))))},
		{"t/=7", one(&fl.OpAssign{Op: "/=", LHS: v("t"), RHS: fl.L(u32, 7)})},
		{"u=u*u", one(as(v("u"), fl.B("*", v("u"), v("u"))))},
		{"u-=t", one(as(v("u"), fl.B("-", v("u"), &fl.Cast{X: v("t"), T: u64})))},
		{"h=h*h", one(as(v("h"), fl.B("*", v("h"), v("h"))))},
		{"h+=u", one(as(v("h"), fl.B("+", v("h"), &fl.Cast{X: v("u"), T: i128})))},
		{"h=-h/3", one(as(v("h"), fl.B("/", &fl.Un{Op: "-", X: v("h")}, fl.L(i128, 3))))},
		{"u=h-as-u64", one(as(v("u"), &fl.Cast{X: v("h"), T: u64}))},
		{"cmp-mixed", one(fl.P(fl.B("<", &fl.Cast{X: v("p"), T: i64}, fl.L(i64, 0))), fl.P(fl.B(">", v("u"), fl.L(u64, 9223372036854775807))))},
		{"o.T+=200", one(&fl.OpAssign{Op: "+=", LHS: fl.F(o, "T"), RHS: fl.L(fl.U8, 200)})},
		{"o.In.V=u", one(as(inV, &fl.Cast{X: v("u"), T: i64}))},
		{"o.In.K=p", one(as(fl.F(fl.F(o, "In"), "K"), v("p")))},
		{"o.Arr[0]=q", one(as(fl.Ix(fl.F(o, "Arr"), li(0)), v("q")))},
		{"o.Arr[-1]++", one(&fl.IncDec{LHS: fl.Ix(fl.F(o, "Arr"), li(-1)), Inc: true})},
		{"o.grow(5)", one(&fl.ExprStmt{X: &fl.MCall{Recv: o, Name: "grow", Args: []fl.Expr{fl.L(i64, 5)}}})},
		{"print-o.weight()", one(fl.P(&fl.MCall{Recv: o, Name: "weight"}))},
		{"copy-o", blk(&fl.Let{Name: "c", Init: o}, as(fl.F(fl.F(v("c"), "In"), "V"), fl.L(i64, -1)), as(fl.Ix(fl.F(v("c"), "Arr"), li(0)), fl.L(i16, -1)), fl.P(fl.F(fl.F(v("c"), "In"), "V")), fl.P(fl.Ix(fl.F(v("c"), "Arr"), li(0))))},
		{"o.In=es[1]", one(as(fl.F(o, "In"), fl.Ix(es, li(1))))},
		{"es[0]=o.In", one(as(fl.Ix(es, li(0)), fl.F(o, "In")))},
		{"es[1].V*=3", one(&fl.OpAssign{Op: "*=", LHS: fl.F(fl.Ix(es, li(1)), "V"), RHS: fl.L(i64, 3)})},
		{"es[0].F=r", one(as(fl.F(fl.Ix(es, li(0)), "F"), v("r")))},
		{"swap-es", blk(&fl.Let{Name: "tmp", Init: fl.Ix(es, li(0))}, as(fl.Ix(es, li(0)), fl.Ix(es, li(1))), as(fl.Ix(es, li(1)), v("tmp")))},
		{"print-sum(es)", one(fl.P(fl.C("w_sum", es)))},
		{"setf(&'es[1].F)", one(&fl.ExprStmt{X: fl.C("w_setf", &fl.Borrow{X: fl.F(fl.Ix(es, li(1)), "F"), Mut: true}, fl.L(u16, 777))})},
		{"setf(&'o.In.F)", one(&fl.ExprStmt{X: fl.C("w_setf", &fl.Borrow{X: fl.F(fl.F(o, "In"), "F"), Mut: true}, v("r"))})},
		{"append-ds", one(&fl.Append{Arr: ds, Val: mkIn(9, 90, 900)})},
		{"append-ds-o.In", one(&fl.Append{Arr: ds, Val: fl.F(o, "In")})},
		{"ds[0].V+=1", one(&fl.OpAssign{Op: "+=", LHS: fl.F(fl.Ix(ds, li(0)), "V"), RHS: fl.L(i64, 1)})},
		{"ds[-1]=es[0]", one(as(fl.Ix(ds, li(-1)), fl.Ix(es, li(0))))},
		{"for-ds", one(&fl.ForIn{Idx: "_", Val: "e", X: ds, Body: []fl.Stmt{&fl.OpAssign{Op: "+=", LHS: inV, RHS: fl.F(v("e"), "V")}}})},
		{"name+=x", one(as(v("name"), fl.B("+", v("name"), fl.S("x"))))},
		{"name+=len", one(as(v("name"), fl.B("+", v("name"), &fl.Len{X: v("name")})))},
		{"print-name==", one(fl.P(fl.B("==", v("name"), fl.S("ab"))), fl.P(fl.B("!=", v("name"), fl.S("abx"))))},
		{"print-name[-1]", blk(&fl.Let{Name: "ch", Init: fl.Ix(v("name"), li(-1))}, fl.P(v("ch")))},
		{"col=next", one(as(v("col"), fl.C("w_next", v("col"))))},
		{"match-col", one(&fl.Match{Subj: v("col"), Arms: []fl.Arm{{Pat: ev("Red"), Body: []fl.Stmt{as(v("p"), fl.L(i8, 1))}}, {Pat: ev("Blue"), Body: []fl.Stmt{as(v("p"), fl.L(i8, 3))}}, {Body: []fl.Stmt{as(v("p"), fl.L(i8, 2))}}}})},
		{"half-ok", blk(&fl.Let{Name: "hv", Init: &fl.Catch{X: fl.C("w_half", inV), ErrName: "e", Handler: []fl.Stmt{fl.P(v("e"))}, Fallback: fl.L(i64, -7)}}, as(inV, v("hv")))},
		{"half-twice", blk(&fl.Let{Name: "hv", Init: &fl.Catch{X: fl.C("w_half", fl.B("+", inV, fl.L(i64, 1))), ErrName: "e", Handler: []fl.Stmt{fl.P(v("e")), as(v("q"), fl.L(i16, 0))}, Fallback: fl.L(i64, -7)}}, as(inV, v("hv")))},
		{"while-u", one(&fl.While{Cond: fl.B(">", v("u"), fl.L(u64, 1000)), Body: []fl.Stmt{as(v("u"), fl.B("/", v("u"), fl.L(u64, 1000)))}})},
		{"if-nested", one(&fl.If{Cond: fl.B("<", v("p"), fl.L(i8, 0)), Then: []fl.Stmt{&fl.If{Cond: fl.B(">", v("q"), fl.L(i16, 0)), Then: []fl.Stmt{as(v("q"), fl.L(i16, -1))}, Else: []fl.Stmt{as(v("q"), fl.L(i16, 1))}}}, Else: []fl.Stmt{as(v("p"), &fl.Un{Op: "-", X: v("p")})}})},
	}
}

// forIn2After: the two-variable for-in over the array of structs, after each single operation.
// It is a family of its own (and not an operation of the alphabet) because after some
// operations the embedded QBE aborts on it (finding C01-F4): kept apart, it cannot hide anything
// inside the sequences.
func famForIn2After() []*prog.Case {
	seqWInit()
	ops := seqWOps()
	v := fl.V
	loop := seqOp{"for-i-es", func() []fl.Stmt {
		return []fl.Stmt{&fl.ForIn{Idx: "i", Val: "e", X: v("es"), Body: []fl.Stmt{
			&fl.OpAssign{Op: "+=", LHS: v("t"), RHS: &fl.Cast{X: fl.B("+", v("i"), fl.L(fl.I32, 1)), T: fl.U32}}, fl.P(fl.F(v("e"), "K"))}}}
	}}
	all := append(append([]seqOp{}, ops...), loop)
	var out []*prog.Case
	out = append(out, seqWCaseID("C01/forin2-after/nothing", all, []int{len(ops)}))
	for i := range ops {
		out = append(out, seqWCaseID("C01/forin2-after/"+ops[i].id, all, []int{i, len(ops)}))
	}
	return out
}

func seqWCase(ops []seqOp, idx []int) *prog.Case {
	id := "C01/seqw"
	for _, i := range idx {
		id += "/" + ops[i].id
	}
	return seqWCaseID(id, ops, idx)
}

func seqWCaseID(id string, ops []seqOp, idx []int) *prog.Case {
	return mk(id, func(k K) *fl.Program {
		seqWInit()
		p := &fl.Program{Structs: []*fl.TStruct{seqW.in, seqW.out}, Enums: []*fl.TEnum{seqW.col}, Funcs: append([]*fl.Func{}, seqW.funcs...)}
		i8, i16, u16, u32, u64, i64, i128, i32 := fl.I8, fl.I16, fl.U16, fl.U32, fl.U64, fl.I64, fl.I128, fl.I32
		mkIn := func(kk, val, f int64) fl.Expr {
			return &fl.StructLit{T: seqW.in, Vals: []fl.Expr{fl.L(i8, kk), fl.L(i64, val), fl.L(u16, f)}}
		}
		li := func(n int64) fl.Expr { return fl.L(i32, n) }
		body := []fl.Stmt{
			&fl.Let{Name: "p", T: i8, Init: fl.L(i8, -100)},
			&fl.Let{Name: "q", T: i16, Init: fl.L(i16, 200)},
			&fl.Let{Name: "r", T: u16, Init: fl.L(u16, 500)},
			&fl.Let{Name: "t", T: u32, Init: fl.L(u32, 70000)},
			&fl.Let{Name: "u", T: u64, Init: fl.L(u64, 5000000000)},
			&fl.Let{Name: "h", T: i128, Init: fl.L(i128, 4000000000000)},
			&fl.Let{Name: "o", Init: &fl.StructLit{T: seqW.out, Vals: []fl.Expr{fl.L(fl.U8, 100), mkIn(1, 10, 100), &fl.ArrLit{Elems: []fl.Expr{fl.L(i16, 7), fl.L(i16, 8)}}}}},
			&fl.Let{Name: "es", T: fl.TArr{N: 2, Elem: seqW.in}, Init: &fl.ArrLit{Elems: []fl.Expr{mkIn(2, 20, 200), mkIn(3, 30, 300)}}},
			&fl.Let{Name: "ds", T: fl.TDyn{Elem: seqW.in}, Init: &fl.ArrLit{Elems: []fl.Expr{mkIn(4, 40, 400), mkIn(5, 50, 500)}}},
			&fl.Let{Name: "name", T: fl.Str, Init: fl.S("ab")},
			&fl.Let{Name: "col", Init: &fl.EnumVal{T: seqW.col, V: "Red"}},
		}
		for _, i := range idx {
			body = append(body, ops[i].body()...)
		}
		v := fl.V
		o, es, ds := v("o"), v("es"), v("ds")
		dump := []fl.Expr{v("p"), v("q"), v("r"), v("t"), v("u"), v("h"), fl.F(o, "T"), fl.F(fl.F(o, "In"), "K"), fl.F(fl.F(o, "In"), "V"), fl.F(fl.F(o, "In"), "F"),
			fl.Ix(fl.F(o, "Arr"), li(0)), fl.Ix(fl.F(o, "Arr"), li(1)),
			fl.F(fl.Ix(es, li(0)), "K"), fl.F(fl.Ix(es, li(0)), "V"), fl.F(fl.Ix(es, li(0)), "F"), fl.F(fl.Ix(es, li(1)), "K"), fl.F(fl.Ix(es, li(1)), "V"), fl.F(fl.Ix(es, li(1)), "F"),
			&fl.Len{X: ds}, fl.F(fl.Ix(ds, li(0)), "V"), fl.F(fl.Ix(ds, li(-1)), "K"), fl.F(fl.Ix(ds, li(-1)), "V"), fl.F(fl.Ix(ds, li(-1)), "F"),
			v("name"), &fl.Len{X: v("name")}, fl.C("w_code", v("col"))}
		for _, e := range dump {
			body = append(body, fl.P(e))
		}
		p.Funcs = append(p.Funcs, &fl.Func{Name: k.N("seqw"), Body: body})
		return mainProg(p, &fl.ExprStmt{X: fl.C(k.N("seqw"))})
	})
}

func famSeqW(quick bool) []*prog.Case {
	ops := seqWOps()
	out := famForIn2After()
	n := len(ops)
	for i := 0; i < n; i++ {
		out = append(out, seqWCase(ops, []int{i}))
	}
	for i := 0; i < n; i++ {
		for j := 0; j < n; j++ {
			out = append(out, seqWCase(ops, []int{i, j}))
		}
	}
	if !quick {
		// triples over every third operation (the full cube is famSeq's)
		for i := 0; i < n; i += 3 {
			for j := 0; j < n; j++ {
				for h := 1; h < n; h += 3 {
					out = append(out, seqWCase(ops, []int{i, j, h}))
				}
			}
		}
	}
	return out
}
