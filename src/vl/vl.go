// Package vl is the shared library of the verification checks: run context, evidence,
// known findings, violations/replays, worker pools, building /repo artefacts.
package vl

import (
	"crypto/sha256"
	"encoding/hex"
	"encoding/json"
	"fmt"
	"os"
	"os/exec"
	"path/filepath"
	"runtime"
	"sort"
	"strconv"
	"strings"
	"sync"
	"time"
)

// Ctx is one run of one check.
type Ctx struct {
	Prop  string
	Tier  string // quick | thorough
	Seed  int
	Dir   string // /verif
	Repo  string // /repo
	W     string // scratch dir (removed by ./check)
	Start time.Time

	mu         sync.Mutex
	findings   []*Finding
	fails      []Fail
	violations []string // replay paths
	known      map[string]int
	samples    []any
	counters   map[string]int64
	distinct   map[string]struct{}
	outcomes   map[string]int64
	Assume     []string
	Deadline   time.Time // internal tier budget; zero = none
	Capped     bool
	Triage     bool
	// Replay is the case id of a generic replay (./check <Cnn> --replay <dir>): the check runs at
	// the recorded tier (narrowed by VERIF_FILTER where the check supports it) and only this
	// case is judged.
	Replay       string
	replayFilter bool
}

// Fail is one failing case before classification.
type Fail struct {
	Case  string            // stable case id
	Obs   string            // deterministic description of the wrong observation
	Files map[string]string // replay artefact files
	Note  string
}

// Finding is an entry of findings/known.jsonl.
type Finding struct {
	Property string   `json:"property"`
	ID       string   `json:"finding"`
	Title    string   `json:"title"`
	Cases    []string `json:"cases"`              // globs over case ids
	Observed []string `json:"observed,omitempty"` // allowed observation hashes (12 hex) or "*"; empty = "*"
	Witness  string   `json:"witness,omitempty"`
	// CasesFile (relative to findings/) lists the exact failing inputs of this finding, one
	// per line: "<case id>\t<observation hash or *>". When present it is used instead of
	// Cases/Observed: only exactly these inputs failing in exactly this way are absorbed.
	CasesFile string `json:"cases_file,omitempty"`
	exact     map[string]string
	hits      int
}

func Hash(s string) string {
	h := sha256.Sum256([]byte(s))
	return hex.EncodeToString(h[:])[:12]
}

// Begin parses the command line (<prop> <tier>) and loads findings.
func Begin(prop, tier string) *Ctx {
	c := &Ctx{Prop: prop, Tier: tier, Start: time.Now(),
		Dir: getenv("VERIF_DIR", "/verif"), Repo: getenv("VERIF_REPO", "/repo"), W: os.Getenv("VERIF_W"),
		known: map[string]int{}, counters: map[string]int64{}, distinct: map[string]struct{}{}, outcomes: map[string]int64{}}
	if tier == "triage" {
		c.Triage = true
		c.Tier = getenv("VERIF_TIER", "quick")
	}
	if tier == "--replay" && prop != "C14" && prop != "C15" && prop != "C16" {
		if len(os.Args) < 4 {
			fmt.Fprintln(os.Stderr, "usage: check <Cnn> --replay <dir>")
			os.Exit(2)
		}
		b, err := os.ReadFile(filepath.Join(os.Args[3], "case.json"))
		var meta struct{ Case, Tier string }
		if err == nil {
			err = json.Unmarshal(b, &meta)
		}
		if err != nil || meta.Case == "" {
			fmt.Fprintf(os.Stderr, "replay: cannot read %s/case.json: %v\n", os.Args[3], err)
			os.Exit(2)
		}
		c.Replay = meta.Case
		c.Tier = meta.Tier
		if c.Tier != "thorough" {
			c.Tier = "quick"
		}
		os.Setenv("VERIF_NO_EVIDENCE", "1")
		if os.Getenv("VERIF_FILTER") == "" && os.Getenv("VERIF_REPLAY_NOFILTER") == "" {
			// case ids may carry a verdict suffix the generators do not know: filter on the
			// generated part (everything up to a trailing /UPPERCASE component)
			f := meta.Case
			if i := strings.LastIndex(f, "/"); i > 0 && f[i+1:] == strings.ToUpper(f[i+1:]) && strings.ToLower(f[i+1:]) != f[i+1:] {
				f = f[:i]
			}
			os.Setenv("VERIF_FILTER", f)
			c.replayFilter = true
		}
	}
	if c.W == "" {
		d, err := os.MkdirTemp("/dev/shm", "verif.w.")
		if err != nil {
			d, _ = os.MkdirTemp("", "verif.w.")
		}
		c.W = d
	}
	c.Seed, _ = strconv.Atoi(os.Getenv("VERIF_SEED"))
	c.loadFindings()
	return c
}

func getenv(k, d string) string {
	if v := os.Getenv(k); v != "" {
		return v
	}
	return d
}

func (c *Ctx) Quick() bool { return c.Tier != "thorough" }

// SetBudget sets an internal deadline; checks poll OverBudget() between shards and
// stop cleanly (exhaustive:false) when it is reached.
func (c *Ctx) SetBudget(d time.Duration) {
	if v := os.Getenv("VERIF_BUDGET_S"); v != "" {
		if n, err := strconv.Atoi(v); err == nil {
			d = time.Duration(n) * time.Second
		}
	}
	c.Deadline = c.Start.Add(d)
}
func (c *Ctx) OverBudget() bool {
	if c.Deadline.IsZero() {
		return false
	}
	if time.Now().After(c.Deadline) {
		c.mu.Lock()
		c.Capped = true
		c.mu.Unlock()
		return true
	}
	return false
}

func (c *Ctx) loadFindings() {
	b, err := os.ReadFile(filepath.Join(c.Dir, "findings", "known.jsonl"))
	if err != nil {
		return
	}
	for _, line := range strings.Split(string(b), "\n") {
		line = strings.TrimSpace(line)
		if line == "" || strings.HasPrefix(line, "#") || strings.HasPrefix(line, "fixed:") {
			continue
		}
		var f Finding
		if err := json.Unmarshal([]byte(line), &f); err != nil {
			fmt.Fprintf(os.Stderr, "findings: bad line: %v\n", err)
			os.Exit(2)
		}
		if f.Property == c.Prop {
			if f.CasesFile != "" {
				cb, err := os.ReadFile(filepath.Join(c.Dir, "findings", f.CasesFile))
				if err != nil {
					fmt.Fprintf(os.Stderr, "findings: %v\n", err)
					os.Exit(2)
				}
				f.exact = map[string]string{}
				for _, l := range strings.Split(string(cb), "\n") {
					if l == "" {
						continue
					}
					parts := strings.SplitN(l, "\t", 2)
					if len(parts) == 2 {
						f.exact[parts[0]] = parts[1]
					}
				}
			}
			c.findings = append(c.findings, &f)
		}
	}
}

// Count adds to a named counter reported in the evidence.
func (c *Ctx) Count(name string, n int64) {
	c.mu.Lock()
	c.counters[name] += n
	c.mu.Unlock()
}

// Distinct records a distinct non-trivial case key.
func (c *Ctx) Distinct(key string) {
	c.mu.Lock()
	c.distinct[key] = struct{}{}
	c.mu.Unlock()
}

// Outcome records an observed outcome class (for the vacuity report).
func (c *Ctx) Outcome(key string) {
	c.mu.Lock()
	c.outcomes[key]++
	c.mu.Unlock()
}

// Sample keeps up to 12 samples of explored cases.
func (c *Ctx) Sample(v any) {
	c.mu.Lock()
	if len(c.samples) < 12 {
		c.samples = append(c.samples, v)
	}
	c.mu.Unlock()
}

// Fail reports one failing case. It is classified against the known findings at Finish.
func (c *Ctx) Fail(f Fail) {
	c.mu.Lock()
	c.fails = append(c.fails, f)
	c.mu.Unlock()
}

func (c *Ctx) NFails() int {
	c.mu.Lock()
	defer c.mu.Unlock()
	return len(c.fails)
}

func globMatch(pat, s string) bool {
	// '*' matches any run of characters (including '/'); everything else literal.
	parts := strings.Split(pat, "*")
	if len(parts) == 1 {
		return pat == s
	}
	if !strings.HasPrefix(s, parts[0]) {
		return false
	}
	s = s[len(parts[0]):]
	for i := 1; i < len(parts)-1; i++ {
		j := strings.Index(s, parts[i])
		if j < 0 {
			return false
		}
		s = s[j+len(parts[i]):]
	}
	return strings.HasSuffix(s, parts[len(parts)-1])
}

func (c *Ctx) classify(f Fail) *Finding {
	h := Hash(f.Obs)
	for _, k := range c.findings {
		if k.exact != nil {
			if want, ok := k.exact[f.Case]; ok && (want == "*" || want == h) {
				return k
			}
			continue
		}
		okCase := false
		for _, g := range k.Cases {
			if globMatch(g, f.Case) {
				okCase = true
				break
			}
		}
		if !okCase {
			continue
		}
		if len(k.Observed) == 0 {
			return k
		}
		for _, o := range k.Observed {
			if o == "*" || o == h {
				return k
			}
		}
	}
	return nil
}

// Coverage is what a check reports at Finish.
type Coverage struct {
	Evaluations int64
	Rule        string
	Exhaustive  bool
	Bound       string
	States      int64
	Transitions int64
	Traces      int64
	Extra       map[string]any
}

// Finish classifies failures, writes replays and the evidence file, prints the verdict
// lines and exits.
func (c *Ctx) Finish(cov Coverage) {
	c.mu.Lock()
	defer c.mu.Unlock()
	if c.Replay != "" {
		c.finishReplay(cov)
	}
	sort.SliceStable(c.fails, func(i, j int) bool { return c.fails[i].Case < c.fails[j].Case })
	nviol := 0
	var triage []string
	for _, f := range c.fails {
		k := c.classify(f)
		if k != nil {
			k.hits++
			continue
		}
		nviol++
		if c.Triage {
			triage = append(triage, fmt.Sprintf("%s\t%s\t%s", f.Case, Hash(f.Obs), oneLine(f.Obs, 200)))
		}
		if nviol <= 25 {
			p := c.writeReplay(f, nviol)
			c.violations = append(c.violations, p)
		}
	}
	// evidence
	covm := map[string]any{
		"evaluations":         cov.Evaluations,
		"distinct_nontrivial": len(c.distinct),
		"rule":                cov.Rule,
		"exhaustive":          cov.Exhaustive && !c.Capped,
		"bound":               cov.Bound,
		"counters":            c.counters,
		"distinct_outcomes":   len(c.outcomes),
		"outcomes":            topOutcomes(c.outcomes, 40),
		"failing_cases":       len(c.fails),
		"capped_by_budget":    c.Capped,
	}
	if len(c.samples) == 0 {
		c.samples = append(c.samples, "(none)")
	}
	covm["samples"] = c.samples
	if cov.States > 0 {
		covm["states"] = cov.States
		covm["transitions"] = cov.Transitions
		covm["traces_validated_against_impl"] = cov.Traces
	}
	fm := map[string]int{}
	for _, k := range c.findings {
		fm[k.ID] = k.hits
	}
	covm["known_findings_absorbed"] = fm
	for k, v := range cov.Extra {
		covm[k] = v
	}
	if c.Assume == nil {
		c.Assume = []string{}
	}
	ev := map[string]any{
		"property_id": c.Prop, "tier": c.Tier, "seed": c.Seed, "level": "model_checking",
		"coverage": covm, "assumptions": c.Assume,
		"wall_s":     float64(int(time.Since(c.Start).Seconds()*10)) / 10,
		"violations": nviol,
	}
	if ev["assumptions"] == nil {
		ev["assumptions"] = []string{}
	}
	b, _ := json.MarshalIndent(ev, "", " ")
	if !c.Triage && os.Getenv("VERIF_NO_EVIDENCE") == "" {
		os.MkdirAll(filepath.Join(c.Dir, "evidence"), 0o755)
		if err := os.WriteFile(filepath.Join(c.Dir, "evidence", c.Prop+".json"), b, 0o644); err != nil {
			fmt.Fprintln(os.Stderr, "cannot write evidence:", err)
			os.Exit(2)
		}
	}
	fmt.Printf("%s %s: evaluations=%d distinct_nontrivial=%d outcomes=%d failing=%d exhaustive=%v wall=%.1fs\n",
		c.Prop, c.Tier, cov.Evaluations, len(c.distinct), len(c.outcomes), len(c.fails), cov.Exhaustive && !c.Capped, time.Since(c.Start).Seconds())
	if len(c.outcomes) <= 1 && cov.Evaluations > 1 {
		fmt.Printf("WARNING: %d evaluations but %d distinct outcome(s)\n", cov.Evaluations, len(c.outcomes))
	}
	for _, k := range c.findings {
		if k.hits > 0 {
			fmt.Printf("KNOWN-FINDING: property=%s %s: %s (%d cases)\n", c.Prop, k.ID, k.Title, k.hits)
		} else if cov.Exhaustive && !c.Capped {
			fmt.Printf("STALE-FINDING: property=%s %s did not reproduce in this tier\n", c.Prop, k.ID)
		}
	}
	if c.Triage {
		for _, t := range triage {
			fmt.Println("TRIAGE\t" + t)
		}
	}
	for _, p := range c.violations {
		fmt.Printf("VIOLATION property=%s replay=%s\n", c.Prop, p)
	}
	if nviol > len(c.violations) {
		fmt.Printf("(%d further violating cases not written out)\n", nviol-len(c.violations))
	}
	if nviol > 0 {
		os.Exit(1)
	}
	os.Exit(0)
}

// finishReplay judges only the replayed case.
func (c *Ctx) finishReplay(cov Coverage) {
	for _, f := range c.fails {
		if f.Case != c.Replay {
			continue
		}
		if k := c.classify(f); k != nil {
			fmt.Printf("REPLAY %s: fails again as recorded known finding %s\nKNOWN-FINDING: property=%s %s: %s (1 cases)\n", c.Replay, k.ID, c.Prop, k.ID, k.Title)
			os.Exit(0)
		}
		fmt.Printf("REPLAY %s: fails again\n  %s\n", c.Replay, oneLine(f.Obs, 600))
		fmt.Printf("VIOLATION property=%s replay=%s\n", c.Prop, os.Args[3])
		os.Exit(1)
	}
	if c.replayFilter {
		// not failing under the narrowed enumeration (the filter may not have selected the case, or
		// the failure needs its neighbours): run the whole tier before saying so
		cmd := exec.Command(os.Args[0], os.Args[1:]...)
		cmd.Env = append(os.Environ(), "VERIF_REPLAY_NOFILTER=1", "VERIF_FILTER=")
		cmd.Stdout, cmd.Stderr = os.Stdout, os.Stderr
		if err := cmd.Run(); err != nil {
			if ee, ok := err.(*exec.ExitError); ok {
				os.Exit(ee.ExitCode())
			}
			os.Exit(2)
		}
		os.Exit(0)
	}
	fmt.Printf("REPLAY %s: does not fail on this tree (%d cases evaluated)\n", c.Replay, cov.Evaluations)
	os.Exit(0)
}

func topOutcomes(m map[string]int64, n int) map[string]int64 {
	type kv struct {
		k string
		v int64
	}
	var l []kv
	for k, v := range m {
		l = append(l, kv{k, v})
	}
	sort.Slice(l, func(i, j int) bool {
		if l[i].v != l[j].v {
			return l[i].v > l[j].v
		}
		return l[i].k < l[j].k
	})
	out := map[string]int64{}
	for i, e := range l {
		if i >= n {
			break
		}
		out[e.k] = e.v
	}
	return out
}

func oneLine(s string, n int) string {
	s = strings.ReplaceAll(s, "\n", "\\n")
	if len(s) > n {
		s = s[:n] + "..."
	}
	return s
}

func (c *Ctx) writeReplay(f Fail, n int) string {
	dir := filepath.Join(c.Dir, "replays", c.Prop, fmt.Sprintf("%03d", n))
	os.RemoveAll(dir)
	os.MkdirAll(dir, 0o755)
	for name, content := range f.Files {
		p := filepath.Join(dir, name)
		os.MkdirAll(filepath.Dir(p), 0o755)
		os.WriteFile(p, []byte(content), 0o644)
	}
	meta := map[string]any{"property": c.Prop, "case": f.Case, "observation": f.Obs, "obs_hash": Hash(f.Obs), "note": f.Note, "tier": c.Tier}
	b, _ := json.MarshalIndent(meta, "", " ")
	os.WriteFile(filepath.Join(dir, "case.json"), b, 0o644)
	os.WriteFile(filepath.Join(dir, "replay.sh"), []byte(fmt.Sprintf("#!/bin/sh\ncd %s && exec ./check %s --replay %s\n", c.Dir, c.Prop, dir)), 0o755)
	return dir
}

// ---------------------------------------------------------------------------------
// worker pool

// ParDo runs f(i) for i in [0,n) on `workers` goroutines.
func ParDo(n, workers int, f func(i int)) {
	if workers <= 0 {
		workers = runtime.NumCPU()
	}
	var wg sync.WaitGroup
	ch := make(chan int, 256)
	for w := 0; w < workers; w++ {
		wg.Add(1)
		go func() {
			defer wg.Done()
			for i := range ch {
				f(i)
			}
		}()
	}
	for i := 0; i < n; i++ {
		ch <- i
	}
	close(ch)
	wg.Wait()
}

// ---------------------------------------------------------------------------------
// building artefacts of /repo

func (c *Ctx) goEnv() []string {
	env := os.Environ()
	env = append(env, "GOFLAGS=-mod=mod", "GOPROXY=off")
	return env
}

// BuildFerret builds the real compiler binary from the working tree.
func (c *Ctx) BuildFerret() string {
	out := filepath.Join(c.W, "bin", "ferret")
	if _, err := os.Stat(out); err == nil {
		return out
	}
	os.MkdirAll(filepath.Dir(out), 0o755)
	cmd := exec.Command("go", "build", "-o", out, ".")
	cmd.Dir = c.Repo
	cmd.Env = c.goEnv()
	if b, err := cmd.CombinedOutput(); err != nil {
		fmt.Fprintf(os.Stderr, "cannot build ferret (not a verdict): %v\n%s\n", err, b)
		os.Exit(2)
	}
	return out
}

// BuildRuntime compiles runtime/{core,libs}/*.c into libferret_runtime.a the way
// tools/main.go does, next to copies of ferret_libs/*.fer; returns the libs dir.
func (c *Ctx) BuildRuntime() string {
	libs := filepath.Join(c.W, "libs")
	if _, err := os.Stat(filepath.Join(libs, "libferret_runtime.a")); err == nil {
		return libs
	}
	obj := filepath.Join(c.W, "rtobj")
	os.MkdirAll(obj, 0o755)
	os.MkdirAll(libs, 0o755)
	var srcs []string
	for _, d := range []string{"runtime/core", "runtime/libs"} {
		m, _ := filepath.Glob(filepath.Join(c.Repo, d, "*.c"))
		sort.Strings(m)
		srcs = append(srcs, m...)
	}
	objs := make([]string, len(srcs))
	errs := make([]string, len(srcs))
	ParDo(len(srcs), 16, func(i int) {
		o := filepath.Join(obj, strings.ReplaceAll(strings.TrimPrefix(srcs[i], c.Repo+"/"), "/", "_")+".o")
		objs[i] = o
		cmd := exec.Command("gcc", "-std=c99", "-O2", "-w", "-fno-pie", "-I", filepath.Join(c.Repo, "runtime/core"), "-I", filepath.Join(c.Repo, "runtime/libs"), "-c", srcs[i], "-o", o)
		if b, err := cmd.CombinedOutput(); err != nil {
			errs[i] = fmt.Sprintf("%s: %v\n%s", srcs[i], err, b)
		}
	})
	for _, e := range errs {
		if e != "" {
			fmt.Fprintf(os.Stderr, "cannot build runtime (not a verdict): %s\n", e)
			os.Exit(2)
		}
	}
	args := append([]string{"rcs", filepath.Join(libs, "libferret_runtime.a")}, objs...)
	if b, err := exec.Command("ar", args...).CombinedOutput(); err != nil {
		fmt.Fprintf(os.Stderr, "ar: %v\n%s\n", err, b)
		os.Exit(2)
	}
	if b, err := exec.Command("cp", "-r", filepath.Join(c.Repo, "ferret_libs")+"/.", libs).CombinedOutput(); err != nil {
		fmt.Fprintf(os.Stderr, "cp libs: %v\n%s\n", err, b)
		os.Exit(2)
	}
	// Bundled-toolchain layout (what the repository's bootstrap installs next to the libraries:
	// <libs>/toolchain/lib with the C start files, the loader and libgcc): the compiler then
	// finds them by path instead of starting `gcc -print-file-name=...` six times per
	// compilation. Process creation is the scarcest resource of this sandbox.
	tc := filepath.Join(libs, "toolchain", "lib")
	os.MkdirAll(tc, 0o755)
	for _, f := range []string{"crt1.o", "crti.o", "crtn.o", "libgcc.a", "ld-linux-x86-64.so.2"} {
		out, err := exec.Command("gcc", "-print-file-name="+f).Output()
		p := strings.TrimSpace(string(out))
		if err != nil || p == "" || p == f {
			continue // not found: the compiler falls back to probing
		}
		if rp, err := filepath.EvalSymlinks(p); err == nil {
			os.Symlink(rp, filepath.Join(tc, f))
		}
	}
	return libs
}

// Selfexe returns the path of the running check binary (used to spawn workers).
func Selfexe() string {
	p, err := os.Executable()
	if err != nil {
		panic(err)
	}
	return p
}
