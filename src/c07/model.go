package c07

// Event sequences over two places and two reference variables, their enumeration, the
// reference loan model (the oracle) and the value semantics of accepted sequences.

import "strings"

type ev int

const (
	B1s ev = iota
	B1m
	B2s
	B2m
	U1
	U2
	W1
	W2
	R1
	R2
	M1
	M2
	T1m
	Open
	Close
	// C2s: r2 is bound as a COPY of the shared reference r1 (`let r2: &T = r1;`): a second
	// shared loan of place 1, and a use of r1
	C2s
	nEv
)

var evName = [...]string{"B1s", "B1m", "B2s", "B2m", "U1", "U2", "W1", "W2", "R1", "R2", "M1", "M2", "T1m", "bo", "bc", "C2s"}

type seq []ev

func (s seq) String() string {
	p := make([]string, len(s))
	for i, e := range s {
		p[i] = evName[e]
	}
	if len(p) == 0 {
		return "empty"
	}
	return strings.Join(p, ".")
}

// which variable / place an event is about (0 or 1), -1 for brackets
func (e ev) idx() int {
	switch e {
	case B1s, B1m, U1, W1, R1, M1, T1m:
		return 0
	case B2s, B2m, U2, W2, R2, M2, C2s:
		return 1
	}
	return -1
}
func (e ev) isBind() bool      { return e <= B2m || e == C2s }
func (e ev) bindMut() bool     { return e == B1m || e == B2m }
func (e ev) isUse() bool       { return e == U1 || e == U2 || e == W1 || e == W2 } // uses the reference variable
func (e ev) isWriteThru() bool { return e == W1 || e == W2 }

// enumerate calls f with every well-formed sequence of length <= maxLen, shortest first,
// then in the order of the event constants. Well-formed: a variable is used only after its
// bind and while the block of the bind is open, written through only when bound `&'`, bound
// at most once; brackets balanced.
func enumerate(maxLen int, f func(s seq)) {
	for n := 0; n <= maxLen; n++ {
		cur := make(seq, 0, n)
		var rec func(bound [2]int, scopeAt [2]int, depth int)
		// bound: 0 unbound, 1 shared, 2 mutable, 3 dead (its block closed);
		// scopeAt: block depth at which the variable was bound
		rec = func(bound [2]int, scopeAt [2]int, depth int) {
			if len(cur) == n {
				if depth == 0 {
					f(append(seq(nil), cur...))
				}
				return
			}
			if depth > n-len(cur) { // cannot close all blocks any more
				return
			}
			for e := ev(0); e < nEv; e++ {
				b2, s2, d2 := bound, scopeAt, depth
				i := e.idx()
				switch {
				case e.isBind():
					if bound[i] != 0 {
						continue
					}
					if e == C2s && bound[0] != 1 {
						continue
					}
					b2[i] = 1
					if e.bindMut() {
						b2[i] = 2
					}
					s2[i] = depth
				case e.isUse():
					if bound[i] != 1 && bound[i] != 2 {
						continue
					}
					if e.isWriteThru() && bound[i] != 2 {
						continue
					}
				case e == Open:
					d2 = depth + 1
				case e == Close:
					if depth == 0 {
						continue
					}
					d2 = depth - 1
					for v := 0; v < 2; v++ {
						if (b2[v] == 1 || b2[v] == 2) && s2[v] > d2 {
							b2[v] = 3
						}
					}
				}
				cur = append(cur, e)
				rec(b2, s2, d2)
				cur = cur[:len(cur)-1]
			}
		}
		rec([2]int{}, [2]int{}, 0)
	}
}

func wellFormed(s seq) bool {
	var bound, scopeAt [2]int
	depth := 0
	for _, e := range s {
		i := e.idx()
		switch {
		case e.isBind():
			if bound[i] != 0 {
				return false
			}
			if e == C2s && bound[0] != 1 {
				return false
			}
			bound[i] = 1
			if e.bindMut() {
				bound[i] = 2
			}
			scopeAt[i] = depth
		case e.isUse():
			if bound[i] != 1 && bound[i] != 2 {
				return false
			}
			if e.isWriteThru() && bound[i] != 2 {
				return false
			}
		case e == Open:
			depth++
		case e == Close:
			if depth == 0 {
				return false
			}
			depth--
			for v := 0; v < 2; v++ {
				if (bound[v] == 1 || bound[v] == 2) && scopeAt[v] > depth {
					bound[v] = 3
				}
			}
		}
	}
	return depth == 0
}

// ---------------------------------------------------------------------------------
// the reference loan model

type overlapKind int

const (
	ovNone  overlapKind = iota
	ovIndex             // the paths differ first in two different constant indices of one array
	ovReal              // one path is a prefix of the other
)

func overlap(a, b []string) overlapKind {
	n := len(a)
	if len(b) < n {
		n = len(b)
	}
	for i := 0; i < n; i++ {
		if a[i] != b[i] {
			if strings.HasPrefix(a[i], "[") && strings.HasPrefix(b[i], "[") {
				return ovIndex
			}
			return ovNone
		}
	}
	return ovReal
}

type conflict struct {
	at   int // index of the conflicting event
	v    int // variable whose loan is live there
	last int // index of the last use of that variable
	kind overlapKind
}

type verdict int

const (
	mustAccept verdict = iota
	mustReject
	either
)

func (v verdict) String() string { return [...]string{"must-accept", "must-reject", "either"}[v] }

// lastUses returns, per variable, the index of its bind (-1 if none) and the index until
// which its loan is live. precise: the last later event that uses the variable (the bind
// itself if none). blockGranular (used only to NAME a class of disagreements, never to
// judge): a use inside a block nested in the block of the bind counts as a use at the
// closing bracket of that nested block, which is how borrow.go computes it.
func lastUses(s seq, blockGranular bool) (bind [2]int, last [2]int) {
	bind = [2]int{-1, -1}
	last = [2]int{-1, -1}
	depth := 0
	var bindDepth [2]int
	// closeOf[j] = index of the bracket closing the block that is open at depth d at event j
	for j, e := range s {
		i := e.idx()
		switch {
		case e.isBind():
			bind[i], last[i], bindDepth[i] = j, j, depth
			if e == C2s && bind[0] >= 0 {
				// the copy reads r1: a use of r1, block-granular like every other use
				u := j
				if blockGranular && depth > bindDepth[0] {
					d := depth
					for k := j + 1; k < len(s); k++ {
						if s[k] == Open {
							d++
						} else if s[k] == Close {
							d--
							if d == bindDepth[0] {
								u = k
								break
							}
						}
					}
				}
				if u > last[0] {
					last[0] = u
				}
			}
		case e.isUse():
			u := j
			if blockGranular && depth > bindDepth[i] {
				// find the closing bracket of the enclosing block at depth bindDepth+1
				d := depth
				for k := j + 1; k < len(s); k++ {
					if s[k] == Open {
						d++
					} else if s[k] == Close {
						d--
						if d == bindDepth[i] {
							u = k
							break
						}
					}
				}
			}
			if u > last[i] {
				last[i] = u
			}
		case e == Open:
			depth++
		case e == Close:
			depth--
		}
	}
	return
}

// conflicts lists every (event, live loan) pair that the rules forbid.
func conflicts(s seq, paths [2][]string, blockGranular bool) []conflict {
	bind, last := lastUses(s, blockGranular)
	var mut [2]bool
	for _, e := range s {
		if e.isBind() {
			mut[e.idx()] = e.bindMut()
		}
	}
	loan := paths
	for _, e := range s {
		if e == C2s {
			loan[1] = paths[0]
		}
	}
	var out []conflict
	for j, e := range s {
		i := e.idx()
		var write, mutBorrow, access bool
		switch e {
		case R1, R2:
			access = true
		case M1, M2:
			access, write = true, true
		case B1s, B2s:
			access = true
		case B1m, B2m, T1m:
			access, mutBorrow = true, true
		}
		if !access {
			continue
		}
		for v := 0; v < 2; v++ {
			if bind[v] < 0 || !(bind[v] < j && j <= last[v]) {
				continue
			}
			k := overlap(loan[v], paths[i])
			if k == ovNone {
				continue
			}
			if mut[v] || write || mutBorrow {
				out = append(out, conflict{at: j, v: v, last: last[v], kind: k})
			}
		}
	}
	return out
}

func judge(cs []conflict) verdict {
	v := mustAccept
	for _, c := range cs {
		if c.kind == ovReal {
			return mustReject
		}
		v = either
	}
	return v
}

// controlTwin reorders a must-reject sequence so that every conflicting event comes
// directly after the last use of the loan it conflicts with; ok=false if that cannot be
// done while staying well-formed and conflict-free.
func controlTwin(s seq, paths [2][]string) (seq, bool) {
	t := append(seq(nil), s...)
	for iter := 0; iter <= len(s); iter++ {
		cs := conflicts(t, paths, false)
		if len(cs) == 0 {
			if !wellFormed(t) {
				return nil, false
			}
			return t, true
		}
		c := cs[0]
		// move t[c.at] to just after t[c.last]
		e := t[c.at]
		copy(t[c.at:c.last], t[c.at+1:c.last+1])
		t[c.last] = e
		if !wellFormed(t) {
			return nil, false
		}
	}
	return nil, false
}

// dropTwin is the second control construction: the uses of the conflicting loans that
// come after the conflicting event are removed (the loan is then dead at the event).
func dropTwin(s seq, paths [2][]string) (seq, bool) {
	t := append(seq(nil), s...)
	for iter := 0; iter <= len(s); iter++ {
		cs := conflicts(t, paths, false)
		if len(cs) == 0 {
			return t, wellFormed(t)
		}
		c := cs[0]
		var n seq
		for j, e := range t {
			if j > c.at && e.isUse() && e.idx() == c.v {
				continue
			}
			n = append(n, e)
		}
		if len(n) == len(t) {
			return nil, false
		}
		t = n
	}
	return nil, false
}
