package c07

// Fixed catalogue: functions returning references (family ret) and loans obtained through
// a callee that returns its reference parameter (family callee). Verdicts one program per
// entry; the accepted entries (must-accept entries and control twins) are run as ONE packed
// native program and compared line by line (a differing entry is re-run alone).

import (
	"fmt"
	"strings"
	"sync"

	"compiler/verifh/vl"
)

var catalogueEvals int64

type retCase struct {
	name   string
	pOfS   bool   // p refers to an S (otherwise to an i32)
	params string // further parameters of f
	args   string // further arguments of the call
	body   string // {R} = & or &', {RT} = &i32 or &'i32, {ID} = ids or idm
	ctrl   string // body of the control twin ("" for must-accept entries)
}

var retCases = []retCase{
	// must-reject: the result refers to storage of the returning function
	{name: "local", body: "let a: i32 = 5; return {R}a;", ctrl: "let a: i32 = 5; return p;"},
	{name: "local-field", body: "let t: S = { .A = 5, .B = 6 }; return {R}t.B;", ctrl: "let t: S = { .A = 5, .B = 6 }; return p;"},
	{name: "local-elem", body: "let a: [2]i32 = [5, 6]; return {R}a[1];", ctrl: "let a: [2]i32 = [5, 6]; return p;"},
	{name: "local-via-var", body: "let a: i32 = 5; let q: {RT} = {R}a; return q;", ctrl: "let a: i32 = 5; let q: {RT} = {R}a; return p;"},
	{name: "local-in-if", params: ", c: i32", args: ", 1", body: "if c > 0 { let a: i32 = 5; return {R}a; } return p;", ctrl: "if c > 0 { let a: i32 = 5; return p; } return p;"},
	{name: "value-param", params: ", v: i32", args: ", 7", body: "return {R}v;", ctrl: "return p;"},
	{name: "value-param-field", params: ", v: S", args: ", s", body: "return {R}v.B;", ctrl: "return p;"},
	{name: "local-via-callee-var", body: "let a: i32 = 5; let q: {RT} = {ID}({R}a); return q;", ctrl: "let a: i32 = 5; let q: {RT} = {ID}(p); return q;"},
	{name: "local-via-callee", body: "let a: i32 = 5; return {ID}({R}a);", ctrl: "let a: i32 = 5; return {ID}(p);"},
	// must-accept: the result refers to storage of the caller
	// (the product local-declaration-form x route is appended by init below)
	{name: "param", body: "return p;"},
	{name: "param-field", pOfS: true, body: "return {R}p.B;"},
	{name: "param-via-callee", body: "return {ID}(p);"},
	{name: "param-via-var", body: "let q: {RT} = p; return q;"},
	{name: "param-field-via-var", pOfS: true, body: "let q: {RT} = {R}p.B; return q;"},
}

// Every way a function can own storage x every route by which a reference to it can reach the
// `return`. {P} is the place inside the owned storage, the declaration makes it hold 5.
func init() {
	type own struct{ name, decl, place, params, args, tail string }
	owns := []own{
		{"uninit-let", "let a: i32; a = 5;", "a", "", "", ""},
		{"inferred-let", "let a := 5;", "a", "", "", ""},
		{"uninit-struct", "let t: S; t.B = 5;", "t.B", "", "", ""},
		{"local-from-param", "let a: i32 = p;", "a", "", "", ""},
		{"nested-block", "{ let a: i32 = 5; {RET} }", "a", "", "", ""},
		{"while-body", "let n: i32 = 0; while n < 1 { let a: i32 = 5; n = n + 1; {RET} }", "a", "", "", " return p;"},
		{"for-variable", "for a in 5..6 { {RET} }", "a", "", "", " return p;"},
		{"match-arm", "match c { 1 => { let a: i32 = 5; {RET} } _ => { } }", "a", ", c: i32", ", 1", " return p;"},
		{"else-branch", "if c > 1 { } else { let a: i32 = 5; {RET} }", "a", ", c: i32", ", 1", " return p;"},
		{"value-param-elem", "", "v[1]", ", v: [2]i32", ", [4, 5]", ""},
		{"value-param-assigned", "v = 5;", "v", ", v: i32", ", 7", ""},
	}
	routes := []struct{ name, ret string }{
		{"direct", "return {R}{P};"},
		{"via-var", "let q: {RT} = {R}{P}; return q;"},
		{"via-callee", "return {ID}({R}{P});"},
		{"via-callee-var", "let q: {RT} = {ID}({R}{P}); return q;"},
	}
	for _, o := range owns {
		for _, rt := range routes {
			mk := func(ret string) string {
				ret = strings.ReplaceAll(ret, "{P}", o.place)
				if strings.Contains(o.decl, "{RET}") {
					return strings.Replace(o.decl, "{RET}", ret, 1) + o.tail
				}
				return strings.TrimSpace(o.decl+" "+ret) + o.tail
			}
			retCases = append(retCases, retCase{name: o.name + "/" + rt.name, params: o.params, args: o.args, body: mk(rt.ret), ctrl: mk("return p;")})
		}
	}
}

// retProgram: the declaration of f<sfx> and the body of the function that calls it.
func retProgram(rc retCase, mut bool, body string, sfx string) (decls, main string, want []string) {
	R, RT, RS, ID := "&", "&i32", "&S", "ids"
	if mut {
		R, RT, RS, ID = "&'", "&'i32", "&'S", "idm"
	}
	sub := func(s string) string {
		return strings.NewReplacer("{RT}", RT, "{R}", R, "{ID}", ID).Replace(s)
	}
	pt, arg, back := RT, R+"x", "x"
	want = []string{"3"}
	if rc.pOfS {
		pt, arg, back = RS, R+"s", "s.B"
		want = []string{"2"}
	}
	decls = fmt.Sprintf("fn f%s(p: %s%s) -> %s { %s }\n", sfx, pt, rc.params, RT, sub(body))
	var b strings.Builder
	b.WriteString("    let x: i32 = 3;\n    let s: S = { .A = 1, .B = 2 };\n")
	fmt.Fprintf(&b, "    let r: %s = f%s(%s%s);\n    io::Println(r);", RT, sfx, arg, rc.args)
	if mut {
		fmt.Fprintf(&b, "\n    r = 9;\n    io::Println(%s);", back)
		want = append(want, "9")
	}
	return decls, b.String(), want
}

type calleeCase struct {
	name    string
	stmt    string
	mutOnly bool                    // conflicts with a `&'` loan only
	effect  func(x *int64) []string // what the statement does to x / prints
}

var calleeCases = []calleeCase{
	{"read", "io::Println(x);", true, func(x *int64) []string { return []string{fmt.Sprint(*x)} }},
	{"write", "x = 5;", false, func(x *int64) []string { *x = 5; return nil }},
	{"shared-borrow", "let q: &i32 = &x; io::Println(q);", true, func(x *int64) []string { return []string{fmt.Sprint(*x)} }},
	{"mutable-borrow", "let q: &'i32 = &'x; q = 6;", false, func(x *int64) []string { *x = 6; return nil }},
	{"temporary", "poke(&'x);", false, func(x *int64) []string { *x++; return nil }},
}

func calleeProgram(cc calleeCase, mut bool, conflictFirst bool) (main string, want []string) {
	R, RT, ID := "&", "&i32", "ids"
	if mut {
		R, RT, ID = "&'", "&'i32", "idm"
	}
	x := int64(3)
	use := "io::Println(r);"
	doUse := func() {
		if mut {
			x = 9
		} else {
			want = append(want, fmt.Sprint(x))
		}
	}
	if mut {
		use = "r = 9;"
	}
	var b strings.Builder
	fmt.Fprintf(&b, "    let x: i32 = 3;\n    let r: %s = %s(%sx);\n", RT, ID, R)
	if conflictFirst {
		fmt.Fprintf(&b, "    %s\n    %s\n", cc.stmt, use)
		want = append(want, cc.effect(&x)...)
		doUse()
	} else {
		fmt.Fprintf(&b, "    %s\n    %s\n", use, cc.stmt)
		doUse()
		want = append(want, cc.effect(&x)...)
	}
	b.WriteString("    io::Println(x);")
	want = append(want, fmt.Sprint(x))
	return b.String(), want
}

func catalogue(k *checker) {
	c := k.c
	type entry struct {
		id     string
		rc     runCase
		reject bool
		why    string
	}
	var es []entry
	add := func(id, decls, body string, want []string, reject bool, why string) {
		es = append(es, entry{id, runCase{id: strings.Replace(id, "C07/", "C07/run/", 1), decls: decls, body: body, want: want}, reject, why})
	}
	for _, rc := range retCases {
		for _, mut := range []bool{false, true} {
			m := "shared"
			if mut {
				m = "mutable"
			}
			sfx := fmt.Sprintf("_%d", len(es))
			d, b, want := retProgram(rc, mut, rc.body, sfx)
			if rc.ctrl == "" {
				add(fmt.Sprintf("C07/ret/%s/%s/rejected", rc.name, m), d, b, want, false, "the returned reference refers to the caller's storage")
				continue
			}
			add(fmt.Sprintf("C07/ret/%s/%s/accepted", rc.name, m), d, b, nil, true, "the returned reference refers to storage of the returning function (dangling)")
			d, b, want = retProgram(rc, mut, rc.ctrl, sfx+"c")
			add(fmt.Sprintf("C07/ret/%s/%s/control", rc.name, m), d, b, want, false, "control twin: the function returns its reference parameter instead")
		}
	}
	for _, cc := range calleeCases {
		for _, mut := range []bool{false, true} {
			if cc.mutOnly && !mut {
				continue
			}
			m := "shared"
			if mut {
				m = "mutable"
			}
			b, _ := calleeProgram(cc, mut, true)
			add(fmt.Sprintf("C07/callee/%s/%s/accepted", cc.name, m), "", b, nil, true, "x is accessed while the reference to x obtained from a callee (which returns its parameter) is still used later")
			b, want := calleeProgram(cc, mut, false)
			add(fmt.Sprintf("C07/callee/%s/%s/control", cc.name, m), "", b, want, false, "control twin: the access comes after the last use of the reference")
		}
	}
	var mu sync.Mutex
	var runnable []runCase
	vl.ParDo(len(es), 16, func(i int) {
		e := es[i]
		src := e.rc.single()
		r := k.pool.Do(project(src))
		files := map[string]string{"main.fer": src}
		if !answered(&r) {
			c.Fail(vl.Fail{Case: strings.Replace(e.id, "C07/", "C07/frontend/", 1), Obs: "front end did not answer: panic=" + r.Panic + " crash=" + r.Crash, Files: files})
			return
		}
		c.Outcome(fmt.Sprintf("catalogue want-reject=%v accepted=%v", e.reject, r.Success))
		c.Distinct(e.id)
		switch {
		case e.reject && r.Success:
			c.Count("failing:catalogue-accepted", 1)
			c.Fail(vl.Fail{Case: e.id, Obs: "accepted although " + e.why, Files: files})
		case !e.reject && !r.Success:
			c.Count("failing:catalogue-rejected", 1)
			c.Fail(vl.Fail{Case: e.id, Obs: "rejected although " + e.why + ": " + r.ErrSummary(), Files: files})
		case !e.reject:
			mu.Lock()
			runnable = append(runnable, e.rc)
			mu.Unlock()
		}
	})
	// deterministic pack order
	for i := 1; i < len(runnable); i++ {
		for j := i; j > 0 && runnable[j].id < runnable[j-1].id; j-- {
			runnable[j], runnable[j-1] = runnable[j-1], runnable[j]
		}
	}
	if len(runnable) > 0 {
		k.runPack(runnable)
	}
	catalogueEvals = int64(len(es))
}
