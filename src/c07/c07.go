// Package c07: references — aliasing xor mutation, no dangling references, write-through.
//
// Family seq: ALL well-formed event sequences up to a length bound over two places and two
// reference variables, for every place pair; oracle = a small loan model (model.go); front-end
// verdicts through fe.Pool, accepted sequences compiled natively, run, and their printed
// lines compared with the write-through value semantics (render.go). Family ret / callee: a
// fixed catalogue of reference-returning functions (catalogue.go).
//
// Deviations from DESIGN.md "### C07" / decisions where the text leaves room:
//   - verdicts are taken from PACKED programs (one function per sequence; the borrow checker
//     runs per function and its diagnostics carry the line of the conflicting access), and
//     every disagreement with the oracle is re-decided on a single-sequence program before it
//     is reported (up to four per pack; once four have confirmed the pack's per-function
//     attribution the remaining disagreements of that pack are taken from it); a pack with any
//     diagnostic that is not a T0004 inside a case's lines is re-decided case by case. This makes all place pairs affordable in the quick tier.
//   - an eighth place pair child-parent (s.A / s) is added: T1m exists for place 1 only, so
//     parent-child is not symmetric under swapping the places.
//   - T1m IS judged: the temporary `&'p1` is an argument of a callee that returns nothing, so
//     no reference can be used after that statement (borrow.go releases temp borrows at the end
//     of the statement): it is a `&'` borrow event that conflicts with every live overlapping
//     loan and leaves no loan behind.
//   - struct field names are upper case (lower-case fields are private outside methods).
//   - bounds: quick = length <= 4, thorough = length <= 5 (length 6 would be 4 M verdicts);
//     the quick tier judges every pair up to length 3 and four pairs (same-var, disjoint-fields,
//     parent-child, elem-field) at length 4; it executes the accepted sequences up to length 3
//     and those of length 4 for same-var and parent-child; the thorough tier does everything.
//   - sequences that print nothing are not executed (nothing to compare); direct stores to an
//     element of a fixed [N]i32 array are miscompiled today (another property's defect): one
//     sentinel case reports it and, while it fails, sequences with such a store are judged
//     for their VERDICT only.
//   - a rejected must-accept sequence that the block-granular variant of the model (a use in
//     a nested block counts at that block's closing bracket — what borrow.go computes) also
//     rejects is reported under its own class nested-last-use; the variant only names the
//     class, it never changes a verdict.
package c07

import (
	"fmt"
	"os"
	"path/filepath"
	"strconv"
	"strings"
	"sync"
	"sync/atomic"
	"time"

	"compiler/verifh/fe"
	"compiler/verifh/run"
	"compiler/verifh/vl"
)

const (
	resUnknown  = 0
	resAccepted = 1
	resRejected = 2
)

type checker struct {
	c                *vl.Ctx
	pool             *fe.Pool
	rn               *run.Runner
	pairs            []pair
	seqs             []seq
	index            map[string]int // seq string -> index
	res              [][]uint8      // [pair][seq]
	msgMu            sync.Mutex
	msgs             map[[2]int]string // rejection message of (pair, seq) for rejected cases that are not must-reject
	evals            int64
	progs            int64
	arrayStoreBroken bool
}

func project(src string) *fe.Project {
	return &fe.Project{Files: map[string]string{"main.fer": src}, Entry: "main.fer", Mode: "check", NoRender: true}
}

func answered(r *fe.Result) bool { return r.Panic == "" && !r.Timeout && r.Crash == "" }

// alone decides one sequence on a program of its own.
func (k *checker) alone(pi, si int) (accepted bool, msg string, ok bool) {
	r := k.pool.Do(project(single(k.pairs[pi], k.seqs[si])))
	atomic.AddInt64(&k.progs, 1)
	if !answered(&r) {
		k.c.Fail(vl.Fail{Case: fmt.Sprintf("C07/frontend/%s/%s", k.pairs[pi].name, k.seqs[si]),
			Obs:   "front end did not answer: panic=" + r.Panic + " crash=" + r.Crash + fmt.Sprintf(" timeout=%v", r.Timeout),
			Files: map[string]string{"main.fer": single(k.pairs[pi], k.seqs[si])}})
		return false, "", false
	}
	return r.Success, r.ErrSummary(), true
}

func describe(p pair, s seq, cf conflict) string {
	var mut [2]bool
	for _, e := range s {
		if e.isBind() {
			mut[e.idx()] = e.bindMut()
		}
	}
	kind := "&"
	if mut[cf.v] {
		kind = "&'"
	}
	e := s[cf.at]
	return fmt.Sprintf("event %d (%s on %s) happens while the %s loan of r%d on %s is still used at event %d (%s)",
		cf.at+1, evName[e], p.p[e.idx()].expr, kind, cf.v+1, p.p[cf.v].expr, cf.last+1, evName[s[cf.last]])
}

// verdictPack compiles the sequences [lo,hi) of pair pi as one program and records results.
func (k *checker) verdictPack(pi, lo, hi int) {
	p := k.pairs[pi]
	var b strings.Builder
	b.WriteString(prelude)
	ln := preludeLines + 1
	first := make([]int, hi-lo)
	lastl := make([]int, hi-lo)
	for i := lo; i < hi; i++ {
		if !p.takes(k.seqs[i]) {
			continue
		}
		lines := body(p, k.seqs[i])
		fmt.Fprintf(&b, "fn c%d() {\n", i-lo)
		first[i-lo] = ln
		ln++
		for _, l := range lines {
			b.WriteString(l + "\n")
			ln++
		}
		b.WriteString("}\n")
		lastl[i-lo] = ln
		ln++
	}
	b.WriteString("fn main() {\n}\n")
	r := k.pool.Do(project(b.String()))
	atomic.AddInt64(&k.progs, 1)
	rejected := make([]string, hi-lo)
	isRej := make([]bool, hi-lo)
	trust := answered(&r)
	if trust {
		for _, d := range r.Errors() {
			found := false
			if d.Code == "T0004" && d.File == "main.fer" {
				for j := range first {
					if d.Line >= first[j] && d.Line <= lastl[j] {
						found = true
						if !isRej[j] {
							isRej[j] = true
							rejected[j] = d.Code + ":" + d.Msg
						}
						break
					}
				}
			}
			if !found {
				trust = false
			}
		}
	}
	if !trust {
		k.c.Count("packs_redecided_case_by_case", 1)
	}
	// disagreements with the oracle are re-decided alone; after four of one pack have
	// confirmed the pack's own per-function attribution, the rest of that pack is believed
	confirmed, contradicted := 0, false
	for i := lo; i < hi; i++ {
		j := i - lo
		s := k.seqs[i]
		if !p.takes(s) {
			continue
		}
		cs := conflicts(s, p.paths(), false)
		want := judge(cs)
		rej, msg := isRej[j], rejected[j]
		if !trust || (((want == mustAccept && rej) || (want == mustReject && !rej)) && (confirmed < 4 || contradicted)) {
			acc, m, ok := k.alone(pi, i)
			if !ok {
				continue
			}
			confirmed++
			if trust && acc == rej {
				contradicted = true // the pack's attribution was wrong once: confirm every one
			}
			rej, msg = !acc, m
		}
		atomic.AddInt64(&k.evals, 1)
		if rej {
			k.res[pi][i] = resRejected
		} else {
			k.res[pi][i] = resAccepted
		}
		k.c.Outcome(fmt.Sprintf("%s want=%s rejected=%v", p.name, want, rej))
		if len(cs) > 0 {
			k.c.Distinct(p.name + "/" + s.String())
		}
		files := map[string]string{"main.fer": single(p, s)}
		id := p.name + "/" + s.String()
		switch {
		case want == mustReject && !rej:
			var real conflict
			for _, cf := range cs {
				if cf.kind == ovReal {
					real = cf
					break
				}
			}
			k.c.Count("failing:accepts-conflict", 1)
			k.c.Fail(vl.Fail{Case: "C07/accepts-conflict/" + id, Obs: "accepted although " + describe(p, s, real), Files: files})
		case want == mustAccept && rej:
			k.setMsg(pi, i, msg)
			class := "rejects-clean"
			if judge(conflicts(s, p.paths(), true)) != mustAccept {
				class = "nested-last-use"
			}
			k.c.Count("failing:"+class, 1)
			k.c.Fail(vl.Fail{Case: "C07/" + class + "/" + id, Obs: "rejected although no live loan conflicts with any access: " + msg, Files: files})
		case want == either:
			k.setMsg(pi, i, msg)
			if rej {
				k.c.Count("either_rejected(different constant indices)", 1)
			} else {
				k.c.Count("either_accepted(different constant indices)", 1)
			}
		}
	}
}

func (k *checker) setMsg(pi, si int, m string) {
	k.msgMu.Lock()
	k.msgs[[2]int{pi, si}] = m
	k.msgMu.Unlock()
}

// ---------------------------------------------------------------------------------
// execution of accepted sequences

// runCase is one accepted program to execute: top-level declarations of its own (names
// unique across a pack), the body of its entry function and the lines it must print.
type runCase struct {
	id    string // failing case id
	decls string
	body  string
	want  []string
}

func (k *checker) seqRunCase(pi, si int) runCase {
	p, s := k.pairs[pi], k.seqs[si]
	return runCase{id: fmt.Sprintf("C07/run/%s/%s", p.name, s), body: strings.Join(body(p, s), "\n"), want: expected(p, s)}
}

func (rc runCase) single() string {
	return prelude + rc.decls + "fn main() {\n" + rc.body + "\n}\n"
}

func (k *checker) execProgram(src string) (lines []string, detail string) {
	return k.execProgramOn(k.rn, src)
}

func (k *checker) execProgramOn(rn *run.Runner, src string) (lines []string, detail string) {
	dir := rn.NewDir()
	defer os.RemoveAll(dir)
	run.WriteFiles(dir, map[string]string{"main.fer": src})
	k.c.Count("native_programs", 1)
	b := rn.CompileNative(dir, "main.fer")
	if !b.Compile.OK() || !b.Exists {
		m := firstErr(run.StripANSI(b.Compile.Stderr + "\n" + b.Compile.Stdout))
		if b.Compile.OK() {
			return nil, "native compile: exit status 0 but no executable: " + m
		}
		return nil, "native compile failed (" + b.Compile.Term() + "): " + m
	}
	pr := rn.Exec(b)
	out := strings.TrimRight(pr.Stdout, "\n")
	if out != "" {
		lines = strings.Split(out, "\n")
	}
	if !pr.OK() {
		return lines, "run: " + pr.Term()
	}
	return lines, ""
}

func firstErr(s string) string {
	for _, l := range strings.Split(s, "\n") {
		l = strings.TrimSpace(l)
		if strings.Contains(l, "error") || strings.Contains(l, "panic") || strings.Contains(l, ".ssa:") {
			if len(l) > 160 {
				l = l[:160]
			}
			return reTmp(l)
		}
	}
	return ""
}

// reTmp removes scratch-directory names from a compiler message.
func reTmp(l string) string {
	f := strings.Fields(l)
	for i, w := range f {
		if strings.Contains(w, "/") {
			f[i] = filepath.Base(w)
		}
	}
	return strings.Join(f, " ")
}

// runAlone executes one case as a program of its own and judges it; it returns the lines.
func (k *checker) runAlone(rc runCase) []string {
	src := rc.single()
	got, detail := k.execProgram(src)
	if detail != "" || strings.Join(got, "|") != strings.Join(rc.want, "|") {
		// what is reported comes from the ferret binary, not from the in-process pipeline
		got, detail = k.execProgramOn(k.rn.Real(), src)
	}
	k.judgeRun(rc, got, detail)
	return got
}

func (k *checker) judgeRun(rc runCase, got []string, detail string) {
	if detail == "" && strings.Join(got, "|") != strings.Join(rc.want, "|") {
		detail = "printed lines differ"
	}
	if detail == "" {
		k.c.Count("outputs_matched", 1)
		return
	}
	k.c.Outcome("run-mismatch")
	k.c.Count("failing:run", 1)
	k.c.Fail(vl.Fail{Case: rc.id,
		Obs:   fmt.Sprintf("accepted, but the running program does not show write-through semantics: %s; want %s got %s", detail, strings.Join(rc.want, "|"), canonGarbage(got)),
		Files: map[string]string{"main.fer": rc.single(), "expected.txt": strings.Join(rc.want, "\n") + "\n"}})
}

func (k *checker) runPack(rcs []runCase) {
	if len(rcs) == 1 {
		k.runAlone(rcs[0])
		return
	}
	var b strings.Builder
	b.WriteString(prelude)
	for j, rc := range rcs {
		b.WriteString(rc.decls)
		fmt.Fprintf(&b, "fn c%d() {\n%s\n}\n", j, rc.body)
	}
	b.WriteString("fn main() {\n")
	for j := range rcs {
		fmt.Fprintf(&b, "    io::Println(\"#%d\");\n    c%d();\n", j, j)
	}
	b.WriteString("    io::Println(\"#end\");\n}\n")
	got, detail := k.execProgram(b.String())
	per := make([][]string, len(rcs))
	ok := detail == "" && len(got) > 0 && got[len(got)-1] == "#end"
	if ok {
		j := -1
		for _, l := range got[:len(got)-1] {
			if j+1 < len(rcs) && l == fmt.Sprintf("#%d", j+1) {
				j++
				continue
			}
			if j < 0 {
				ok = false
				break
			}
			per[j] = append(per[j], l)
		}
		if j != len(rcs)-1 {
			ok = false
		}
	}
	if !ok {
		k.c.Count("run_packs_redecided_case_by_case", 1)
	}
	// a case whose lines differ is re-run alone; after four single runs of this pack have
	// printed exactly what the pack printed for them, the pack's lines are believed
	same := 0
	for j, rc := range rcs {
		if ok && strings.Join(per[j], "|") == strings.Join(rc.want, "|") {
			k.c.Count("outputs_matched", 1)
			continue
		}
		if ok && same >= 4 {
			k.judgeRun(rc, per[j], "")
			continue
		}
		got := k.runAlone(rc)
		if ok && strings.Join(got, "|") == strings.Join(per[j], "|") {
			same++
		} else {
			same = -1 << 30
		}
	}
}

// canonGarbage keeps short printed lines and replaces anything else (stack garbage differs
// from run to run) by a fixed token, so that an observation is deterministic.
func canonGarbage(lines []string) string {
	out := make([]string, len(lines))
	for i, l := range lines {
		if len(l) <= 4 {
			out[i] = l
		} else {
			out[i] = "<garbage>"
		}
	}
	return strings.Join(out, "|")
}

// sentinel: a direct store to an element of a fixed [2]i32 array, no references involved.
const sentinelSrc = `import "std/io";
fn main() {
    let a: [2]i32 = [1, 2];
    a[0] = 3;
    io::Println(a[0]);
    io::Println(a[1]);
}
`

func (k *checker) sentinel() {
	got, detail := k.execProgram(sentinelSrc)
	if detail == "" && strings.Join(got, "|") == "3|2" {
		k.c.Outcome("array-store-sentinel ok")
		return
	}
	k.arrayStoreBroken = true
	k.c.Outcome("array-store-sentinel broken")
	g := "3|<not 3>|..."
	if len(got) == 2 && got[1] == "2" && got[0] != "3" {
		g = "<garbage>|2"
	} else if detail != "" {
		g = detail
	}
	k.c.Fail(vl.Fail{Case: "C07/run/array-store-sentinel",
		Obs:   "scaffolding defect (no reference involved): `a[0] = 3; io::Println(a[0]);` on a fixed [2]i32 array: want 3|2 got " + g + "; sequences that store directly into a[i] are judged for their verdict only",
		Files: map[string]string{"main.fer": sentinelSrc}})
}

// ---------------------------------------------------------------------------------

// the place pairs whose length-4 sequences the quick tier judges (all pairs up to length 3)
var quick4 = map[string]bool{"same-var": true, "disjoint-fields": true, "parent-child": true, "elem-field": true}

func Run(c *vl.Ctx) {
	quick := c.Quick()
	// thorough: length <= 5 (62 665 sequences x 8 pairs = 501 320 verdicts); length 6 has
	// 495 183 further sequences (4 M verdicts), which does not fit the tier
	maxLen := 5
	packV, packR := 32, 128
	if quick {
		maxLen = 4
	}
	if v := os.Getenv("VERIF_C07_LEN"); v != "" {
		maxLen, _ = strconv.Atoi(v)
	}
	k := &checker{c: c, pairs: allPairs(), index: map[string]int{}, msgs: map[[2]int]string{}}
	if f := os.Getenv("VERIF_C07_PAIRS"); f != "" {
		var sel []pair
		for _, p := range k.pairs {
			if strings.Contains(","+f+",", ","+p.name+",") {
				sel = append(sel, p)
			}
		}
		k.pairs = sel
	}
	levelEnd := make([]int, maxLen+1)
	enumerate(maxLen, func(s seq) {
		k.index[s.String()] = len(k.seqs)
		k.seqs = append(k.seqs, s)
		levelEnd[len(s)] = len(k.seqs)
	})
	for n := 1; n <= maxLen; n++ {
		if levelEnd[n] == 0 {
			levelEnd[n] = levelEnd[n-1]
		}
	}
	// the shortest sequences in which a reference bound outside a block has its last use
	// inside it need five events: the quick tier takes these few from the next level
	if maxLen == 4 {
		for _, s := range []seq{{B1m, Open, U1, R1, Close}, {B1m, Open, W1, T1m, Close}, {B1s, Open, U1, M1, Close}, {B2m, Open, U2, R1, Close}, {B1m, Open, U1, Close, R1}} {
			k.index[s.String()] = len(k.seqs)
			k.seqs = append(k.seqs, s)
		}
		levelEnd = append(levelEnd, len(k.seqs))
	}
	c.Count("sequences", int64(len(k.seqs)))
	k.res = make([][]uint8, len(k.pairs))
	for i := range k.res {
		k.res[i] = make([]uint8, len(k.seqs))
	}
	k.pool = fe.NewPool(c.W, filepath.Join(c.Repo, "ferret_libs"), 16)
	defer k.pool.Close()
	// a packed program can take seconds on a loaded machine; a spurious time-out would start
	// the pool's confirmation protocol (three fresh workers) and make the load worse
	k.pool.Timeout = 120 * time.Second
	k.pool.Confirm = 240 * time.Second
	k.rn = run.New(c)
	k.rn.Fast = os.Getenv("VERIF_NOFAST") == ""
	defer k.rn.Close()
	// budgets count from here (the compiler and the runtime are built); levels are done
	// shortest first, so a capped run is complete up to a smaller length
	if quick {
		c.SetBudget(time.Since(c.Start) + 400*time.Second)
	} else {
		c.SetBudget(13 * time.Minute)
	}
	dbg := func(what string) {
		if os.Getenv("VERIF_C07_DEBUG") != "" {
			fmt.Fprintf(os.Stderr, "c07: %6.1fs %s (fe programs %d)\n", time.Since(c.Start).Seconds(), what, atomic.LoadInt64(&k.progs))
		}
	}
	dbg("start")
	k.sentinel()
	dbg("sentinel")
	catalogue(k)
	dbg("catalogue")

	var executed, skippedSilent, skippedStore, skippedQuick int64
	nLevels := len(levelEnd)
	bounds := func(n int) (int, int) {
		if n == 0 {
			return 0, levelEnd[0]
		}
		return levelEnd[n-1], levelEnd[n]
	}
	verdictsDone := make([]bool, nLevels)
	runsDone := make([]bool, nLevels)
	verdictLevel := func(n int) {
		lo, hi := bounds(n)
		type item struct{ pi, lo, hi int }
		var items []item
		for pi, p := range k.pairs {
			if quick && n == 4 && !quick4[p.name] {
				continue
			}
			for a := lo; a < hi; a += packV {
				z := a + packV
				if z > hi {
					z = hi
				}
				items = append(items, item{pi, a, z})
			}
		}
		var capped int32
		vl.ParDo(len(items), 16, func(i int) {
			if c.OverBudget() {
				atomic.StoreInt32(&capped, 1)
				return
			}
			k.verdictPack(items[i].pi, items[i].lo, items[i].hi)
		})
		verdictsDone[n] = capped == 0
		dbg(fmt.Sprintf("verdicts of level %d", n))
	}
	runLevel := func(n int) {
		lo, hi := bounds(n)
		type ref struct{ pi, si int32 }
		var rcs []ref
		for pi, p := range k.pairs {
			for si := lo; si < hi; si++ {
				if k.res[pi][si] != resAccepted {
					continue
				}
				s := k.seqs[si]
				if judge(conflicts(s, p.paths(), false)) == mustReject {
					continue // already a failure
				}
				if !prints(s) || os.Getenv("VERIF_C07_NORUN") != "" {
					skippedSilent++
					continue
				}
				if quick && n >= 4 && !(p.name == "same-var" || p.name == "parent-child") {
					skippedQuick++ // the thorough tier runs them
					continue
				}
				if k.arrayStoreBroken && usesArrayStore(p, s) {
					skippedStore++
					continue
				}
				rcs = append(rcs, ref{int32(pi), int32(si)})
			}
		}
		// small levels are spread over all workers (a 128-function program has a long latency)
		packR := packR
		if per := (len(rcs) + 31) / 32; per < packR {
			packR = per
			if packR < 16 {
				packR = 16
			}
		}
		npacks := (len(rcs) + packR - 1) / packR
		var capped int32
		vl.ParDo(npacks, 16, func(i int) {
			if c.OverBudget() {
				atomic.StoreInt32(&capped, 1)
				return
			}
			a, z := i*packR, (i+1)*packR
			if z > len(rcs) {
				z = len(rcs)
			}
			pack := make([]runCase, 0, z-a)
			for _, r := range rcs[a:z] {
				pack = append(pack, k.seqRunCase(int(r.pi), int(r.si)))
			}
			k.runPack(pack)
			atomic.AddInt64(&executed, int64(z-a))
		})
		runsDone[n] = capped == 0 && verdictsDone[n]
		dbg(fmt.Sprintf("runs of level %d (%d packs)", n, npacks))
	}
	// order of work, cheapest and simplest first: verdicts up to length 3, their executions,
	// then the verdicts of the longer levels, then their executions
	for n := 0; n < nLevels && n <= 3; n++ {
		verdictLevel(n)
	}
	if nLevels > maxLen+1 { // the few nested-block sequences of the quick tier
		verdictLevel(nLevels - 1)
	}
	for n := 0; n < nLevels && n <= 3; n++ {
		runLevel(n)
	}
	if nLevels > maxLen+1 {
		runLevel(nLevels - 1)
	}
	for n := 4; n <= maxLen; n++ {
		verdictLevel(n)
	}
	for n := 4; n <= maxLen; n++ {
		runLevel(n)
	}
	doneV, doneR := -1, -1
	for n := 0; n < nLevels && verdictsDone[n]; n++ {
		doneV = n
	}
	for n := 0; n < nLevels && runsDone[n]; n++ {
		doneR = n
	}

	// control twins of the must-reject sequences
	var twins, noTwin, twinUnknown int64
	for pi, p := range k.pairs {
		for si, s := range k.seqs {
			if k.res[pi][si] == resUnknown {
				continue
			}
			cs := conflicts(s, p.paths(), false)
			if judge(cs) != mustReject {
				continue
			}
			how := "the conflicting event moved after the last use of the loan"
			t, ok := controlTwin(s, p.paths())
			if !ok {
				how = "the later uses of the conflicting loan removed"
				t, ok = dropTwin(s, p.paths())
			}
			if !ok {
				noTwin++
				continue
			}
			ti, in := k.index[t.String()]
			if !in || k.res[pi][ti] == resUnknown {
				twinUnknown++
				continue
			}
			twins++
			if k.res[pi][ti] == resRejected {
				class := "control"
				if judge(conflicts(t, p.paths(), true)) != mustAccept {
					class = "control-nested-last-use"
				}
				c.Count("failing:"+class, 1)
				c.Fail(vl.Fail{Case: fmt.Sprintf("C07/%s/%s/%s", class, p.name, s),
					Obs:   fmt.Sprintf("the control twin %s (%s) is rejected: %s", t, how, k.msgs[[2]int{pi, ti}]),
					Files: map[string]string{"main.fer": single(p, t), "conflicting.fer": single(p, s)}})
			}
		}
	}
	c.Count("control_twins_checked", twins)
	c.Count("must_reject_without_twin", noTwin)
	c.Count("control_twins_outside_the_explored_part", twinUnknown)
	c.Count("executed_sequences", executed)
	c.Count("not_executed_prints_nothing", skippedSilent)
	c.Count("not_executed_array_store_defect", skippedStore)
	c.Count("not_executed_in_quick_tier(length 4, other than same-var and parent-child)", skippedQuick)
	c.Count("front_end_programs", atomic.LoadInt64(&k.progs))

	for _, i := range []int{len(k.seqs) / 5, len(k.seqs) / 2, len(k.seqs) - 3} {
		if i >= 0 && i < len(k.seqs) {
			p := k.pairs[i%len(k.pairs)]
			c.Sample(map[string]string{"pair": p.name, "sequence": k.seqs[i].String(), "oracle": judge(conflicts(k.seqs[i], p.paths(), false)).String(), "program": single(p, k.seqs[i])})
		}
	}
	var names []string
	for _, p := range k.pairs {
		names = append(names, p.name)
	}
	c.Assume = append(c.Assume,
		"a temporary `&'p` passed to a callee that returns nothing is a `&'` borrow that ends with the statement",
		"packed programs are a filter: disagreements with the oracle are re-decided on single-sequence programs (at least the first four of every pack; the borrow checker works function by function)",
		"two different constant indices of one array (a[0] / a[1]) may or may not be treated as overlapping: counted, not judged",
		"a by-value parameter is a local of the function (its storage dies with the call)")
	c.Finish(vl.Coverage{Evaluations: atomic.LoadInt64(&k.evals) + catalogueEvals, Exhaustive: doneV == nLevels-1 && doneR == nLevels-1,
		Rule:  fmt.Sprintf("all well-formed event sequences (16 event kinds: bind r1/r2 shared/mutable, bind r2 as a copy of the shared r1, read/write through, read/write the place, temporary &' to a callee, open/close block) of length <= %d x %d place pairs; oracle = loan model (live from bind to last use; &' loan vs any access, & loan vs write/&' borrow; overlap = path prefix); each must-reject sequence has its control twin in the same space; accepted sequences that print are run natively and compared with write-through semantics; plus the return/callee catalogue; distinct_nontrivial = sequences with at least one conflicting (event, loan) pair", maxLen, len(k.pairs)),
		Bound: fmt.Sprintf("length<=%d%s (verdicts completed through level %d, executions through level %d) pairs=%s", maxLen, map[bool]string{true: " plus 5 nested-block sequences of length 5 as level 5", false: ""}[len(levelEnd) > maxLen+1], doneV, doneR, strings.Join(names, ",")+map[bool]string{true: " (at length 4: same-var,disjoint-fields,parent-child,elem-field)", false: ""}[quick && maxLen >= 4])})
}
