package c07

// Place pairs, rendering of a sequence as a Ferret function body, and the value semantics
// (write-through references) that gives the lines an accepted sequence must print.

import (
	"fmt"
	"strings"
)

type place struct {
	expr     string   // Ferret lvalue
	path     []string // for the overlap relation
	isStruct bool     // of type S (fields A, B), otherwise i32
	cells    []string // storage cells it covers, in print order
	arrStore bool     // a direct write is a store to an element of a fixed [N]i32 array
	ty       string   // scalar type of the place when it is not i32
}

type pair struct {
	name  string
	setup string           // typed let that declares the storage
	init  map[string]int64 // initial cell values
	p     [2]place
	// wstyle: how a write through a reference to an i32 place is spelled: "" `r = n;`,
	// "inc" `r++;`, "dec" `r--;`, "add" `r += n;`, "self" `r = r + n;`. A styled pair only
	// takes the sequences that write through a reference (the others are covered unstyled).
	wstyle string
	// ustyle: every use of a reference (read or write through it) sits inside a control
	// construct that executes it exactly once: "if", "else", "elseif" (second arm of a chain),
	// "chain-else" (trailing else of an else-if chain), "while", "for", "match". The loan must
	// stay alive up to that use wherever it is written.
	ustyle string
	// astyle: how the direct accesses to a place (R, M, T) are spelled. "method": on a place of
	// type S through methods (R: two getters declared on &S, M and T: methods declared on &'S,
	// which borrow the receiver mutably for the call). "closure": R and M happen inside a
	// function literal that is created and called on the spot (closures capture by reference).
	// "index-store", "index-field", "index-inner": a read of an i32 place happens as the index of
	// an element place that is not the outermost index of a plain read: `mm[x] = 7;` on a map,
	// `ef[x % 2].X` under a field selector, `gg[x % 2][0]` as the inner index.
	astyle string
}

const prelude = `import "std/io";
type S struct { .A: i32, .B: i32 };
type E struct { .X: i32, .Y: i32 };
fn poke(r: &'i32) { let v: i32 = r; r = v + 1; }
fn pokeS(r: &'S) { let v: i32 = r.B; r.B = v + 1; }
fn ids(p: &i32) -> &i32 { return p; }
fn idm(p: &'i32) -> &'i32 { return p; }
fn poke64(r: &'i64) { let v: i64 = r; r = v + 1; }
fn (q: &S) getA() -> i32 { return q.A; }
fn (q: &S) getB() -> i32 { return q.B; }
fn (q: &'S) setAB(a: i32, b: i32) { q.A = a; q.B = b; }
fn (q: &'S) pokeB() { let v: i32 = q.B; q.B = v + 1; }
`

var preludeLines = strings.Count(prelude, "\n")

func allPairs() []pair {
	x := place{expr: "x", path: []string{"x"}, cells: []string{"x"}}
	sA := place{expr: "s.A", path: []string{"s", "A"}, cells: []string{"s.A"}}
	sB := place{expr: "s.B", path: []string{"s", "B"}, cells: []string{"s.B"}}
	s := place{expr: "s", path: []string{"s"}, isStruct: true, cells: []string{"s.A", "s.B"}}
	a0 := place{expr: "a[0]", path: []string{"a", "[0]"}, cells: []string{"a0"}, arrStore: true}
	a1 := place{expr: "a[1]", path: []string{"a", "[1]"}, cells: []string{"a1"}, arrStore: true}
	e0x := place{expr: "e[0].X", path: []string{"e", "[0]", "X"}, cells: []string{"e0x"}}
	x64 := place{expr: "x", path: []string{"x"}, cells: []string{"x"}, ty: "i64"}
	letX := "let x: i32 = 1;"
	letS := "let s: S = { .A = 1, .B = 2 };"
	letA := "let a: [2]i32 = [1, 2];"
	letE := "let e: [2]E = [{ .X = 1, .Y = 2 }, { .X = 3, .Y = 4 }];"
	iS := map[string]int64{"s.A": 1, "s.B": 2}
	iA := map[string]int64{"a0": 1, "a1": 2}
	return []pair{
		{"same-var", letX, map[string]int64{"x": 1}, [2]place{x, x}, "", "", ""},
		{"disjoint-fields", letS, iS, [2]place{sA, sB}, "", "", ""},
		{"parent-child", letS, iS, [2]place{s, sA}, "", "", ""},
		{"same-field", letS, iS, [2]place{sA, sA}, "", "", ""},
		{"same-index", letA, iA, [2]place{a0, a0}, "", "", ""},
		{"diff-index", letA, iA, [2]place{a0, a1}, "", "", ""},
		{"elem-field", letE, map[string]int64{"e0x": 1}, [2]place{e0x, e0x}, "", "", ""},
		{"child-parent", letS, iS, [2]place{sA, s}, "", "", ""},
		// the same places with the other spellings of a write through a reference
		{"same-var/inc", letX, map[string]int64{"x": 1}, [2]place{x, x}, "inc", "", ""},
		{"same-var/dec", letX, map[string]int64{"x": 1}, [2]place{x, x}, "dec", "", ""},
		{"same-var/add", letX, map[string]int64{"x": 1}, [2]place{x, x}, "add", "", ""},
		{"same-var/self", letX, map[string]int64{"x": 1}, [2]place{x, x}, "self", "", ""},
		{"disjoint-fields/inc", letS, iS, [2]place{sA, sB}, "inc", "", ""},
		{"disjoint-fields/add", letS, iS, [2]place{sA, sB}, "add", "", ""},
		{"elem-field/inc", letE, map[string]int64{"e0x": 1}, [2]place{e0x, e0x}, "inc", "", ""},
		{"same-index/dec", letA, iA, [2]place{a0, a0}, "dec", "", ""},
		// uses of the references inside control constructs
		{"same-var/in-if", letX + " let t: i32 = 1;", map[string]int64{"x": 1}, [2]place{x, x}, "", "if", ""},
		{"same-var/in-else", letX + " let t: i32 = 1;", map[string]int64{"x": 1}, [2]place{x, x}, "", "else", ""},
		{"same-var/in-elseif", letX + " let t: i32 = 1;", map[string]int64{"x": 1}, [2]place{x, x}, "", "elseif", ""},
		{"same-var/in-chain-else", letX + " let t: i32 = 1;", map[string]int64{"x": 1}, [2]place{x, x}, "", "chain-else", ""},
		{"same-var/in-while", letX + " let t: i32 = 1;", map[string]int64{"x": 1}, [2]place{x, x}, "", "while", ""},
		{"same-var/in-for", letX + " let t: i32 = 1;", map[string]int64{"x": 1}, [2]place{x, x}, "", "for", ""},
		{"same-var/in-match", letX + " let t: i32 = 1;", map[string]int64{"x": 1}, [2]place{x, x}, "", "match", ""},
		{"same-field/in-elseif", letS + " let t: i32 = 1;", iS, [2]place{sA, sA}, "", "elseif", ""},
		{"parent-child/in-match", letS + " let t: i32 = 1;", iS, [2]place{s, sA}, "", "match", ""},
		// an i64 place written through the reference from a narrower (i32) variable: the old
		// value has other upper bytes than the extension of the new one
		{"same-var64/narrow", "let x: i64 = -4294967297;", map[string]int64{"x": -4294967297}, [2]place{x64, x64}, "narrow", "", ""},
		{"same-var/index-store", letX + " let mm: map[i32]i32 = { 1 => 10 };", map[string]int64{"x": 1}, [2]place{x, x}, "", "", "index-store"},
		{"same-var/index-field", letX + " let ef: []E = [{ .X = 1, .Y = 2 }, { .X = 1, .Y = 4 }];", map[string]int64{"x": 1}, [2]place{x, x}, "", "", "index-field"},
		{"same-var/index-inner", letX + " let gg: [][]i32 = [[1, 2], [1, 4]];", map[string]int64{"x": 1}, [2]place{x, x}, "", "", "index-inner"},
		{"disjoint-fields/index-store", letS + " let mm: map[i32]i32 = { 1 => 10 };", iS, [2]place{sA, sB}, "", "", "index-store"},
		{"parent-child/index-field", letS + " let ef: []E = [{ .X = 1, .Y = 2 }, { .X = 1, .Y = 4 }];", iS, [2]place{s, sA}, "", "", "index-field"},
		// direct accesses spelled as method calls / inside closures
		{"same-struct/method", letS, iS, [2]place{s, s}, "", "", "method"},
		{"parent-child/method", letS, iS, [2]place{s, sA}, "", "", "method"},
		{"child-parent/method", letS, iS, [2]place{sA, s}, "", "", "method"},
		{"same-var/closure", letX, map[string]int64{"x": 1}, [2]place{x, x}, "", "", "closure"},
		{"disjoint-fields/closure", letS, iS, [2]place{sA, sB}, "", "", "closure"},
		{"parent-child/closure", letS, iS, [2]place{s, sA}, "", "", "closure"},
	}
}

// wrapUse puts the statement(s) of a use inside the pair's control construct (executed once).
func (p pair) wrapUse(l string, j int) string {
	switch p.ustyle {
	case "if":
		return "if t > 0 { " + l + " }"
	case "else":
		return "if t > 5 { } else { " + l + " }"
	case "elseif":
		return "if t > 5 { } else if t > 0 { " + l + " } else { }"
	case "chain-else":
		return "if t > 5 { } else if t > 3 { } else { " + l + " }"
	case "while":
		return fmt.Sprintf("let w%d: i32 = 0; while w%d < t { w%d = w%d + 1; %s }", j, j, j, j, l)
	case "for":
		return fmt.Sprintf("for k%d in 0..t { %s }", j, l)
	case "match":
		return "match t { 1 => { " + l + " } _ => { } }"
	}
	return l
}

// takes: does pair p explore sequence s?
func (p pair) takes(s seq) bool {
	if p.astyle != "" {
		for _, e := range s {
			if p.styled(e) {
				return true
			}
		}
		return false
	}
	if p.ustyle != "" {
		for _, e := range s {
			if e.isUse() {
				return true
			}
		}
		return false
	}
	if p.wstyle == "" {
		return true
	}
	for _, e := range s {
		if e.isWriteThru() {
			return true
		}
	}
	return false
}

// styled: is event e spelled differently under the pair's access style?
func (p pair) styled(e ev) bool {
	if strings.HasPrefix(p.astyle, "index-") {
		return (e == R1 || e == R2) && !p.p[e.idx()].isStruct
	}
	switch e {
	case R1, R2, M1, M2:
		return p.astyle == "closure" || (p.astyle == "method" && p.p[e.idx()].isStruct)
	case T1m:
		return p.astyle == "method" && p.p[0].isStruct
	}
	return false
}

// written gives the value a write-through event at position j leaves in a cell that held old.
func (p pair) written(old int64, n int64) int64 {
	switch p.wstyle {
	case "inc":
		return old + 1
	case "dec":
		return old - 1
	case "add", "self":
		return old + n
	}
	return n
}

func (p pair) paths() [2][]string { return [2][]string{p.p[0].path, p.p[1].path} }

// body renders the sequence as the lines of a function body (one event per line).
func body(p pair, s seq) []string {
	lines := []string{"    " + p.setup}
	ind := 1
	copied := false // r2 was bound as a copy of r1: it refers to place 1
	for j, e := range s {
		i := e.idx()
		n := 10 * (j + 1)
		var l string
		if i >= 0 {
			pl := p.p[i]
			if i == 1 && copied && (e == U2) {
				pl = p.p[0]
			}
			if e == C2s {
				copied = true
			}
			r := fmt.Sprintf("r%d", i+1)
			ty := "i32"
			if pl.ty != "" {
				ty = pl.ty
			}
			if pl.isStruct {
				ty = "S"
			}
			switch e {
			case B1s, B2s:
				l = fmt.Sprintf("let %s: &%s = &%s;", r, ty, pl.expr)
			case C2s:
				t1 := "i32"
				if p.p[0].isStruct {
					t1 = "S"
				}
				l = fmt.Sprintf("let r2: &%s = r1;", t1)
			case B1m, B2m:
				l = fmt.Sprintf("let %s: &'%s = &'%s;", r, ty, pl.expr)
			case U1, U2:
				if pl.isStruct {
					l = fmt.Sprintf("io::Println(%s.A); io::Println(%s.B);", r, r)
				} else {
					l = fmt.Sprintf("io::Println(%s);", r)
				}
			case W1, W2:
				if pl.isStruct {
					l = fmt.Sprintf("%s.A = %d; %s.B = %d;", r, n, r, n+1)
				} else {
					switch p.wstyle {
					case "inc":
						l = fmt.Sprintf("%s++;", r)
					case "dec":
						l = fmt.Sprintf("%s--;", r)
					case "add":
						l = fmt.Sprintf("%s += %d;", r, n)
					case "self":
						l = fmt.Sprintf("%s = %s + %d;", r, r, n)
					case "narrow":
						l = fmt.Sprintf("let q%d: i32 = %d; %s = q%d;", j, n, r, j)
					default:
						l = fmt.Sprintf("%s = %d;", r, n)
					}
				}
			case R1, R2:
				if pl.isStruct {
					l = fmt.Sprintf("let t%d: S = %s; io::Println(t%d.A); io::Println(t%d.B);", j, pl.expr, j, j)
				} else {
					l = fmt.Sprintf("io::Println(%s);", pl.expr)
				}
			case M1, M2:
				if pl.isStruct {
					l = fmt.Sprintf("%s = { .A = %d, .B = %d };", pl.expr, n, n+1)
				} else {
					l = fmt.Sprintf("%s = %d;", pl.expr, n)
				}
			case T1m:
				if pl.isStruct {
					l = fmt.Sprintf("pokeS(&'%s);", pl.expr)
				} else if pl.ty == "i64" {
					l = fmt.Sprintf("poke64(&'%s);", pl.expr)
				} else {
					l = fmt.Sprintf("poke(&'%s);", pl.expr)
				}
			}
			if e.isUse() && p.ustyle != "" {
				l = p.wrapUse(l, j)
			}
			if p.styled(e) {
				switch {
				case p.astyle == "index-store":
					l = fmt.Sprintf("mm[%s] = 7;", pl.expr)
				case p.astyle == "index-field":
					l = fmt.Sprintf("io::Println(ef[%s %% 2].X);", pl.expr)
				case p.astyle == "index-inner":
					l = fmt.Sprintf("io::Println(gg[%s %% 2][0]);", pl.expr)
				case p.astyle == "closure":
					l = fmt.Sprintf("let f%d := fn() { %s }; f%d();", j, l, j)
				case e == R1 || e == R2:
					l = fmt.Sprintf("io::Println(%s.getA()); io::Println(%s.getB());", pl.expr, pl.expr)
				case e == M1 || e == M2:
					l = fmt.Sprintf("%s.setAB(%d, %d);", pl.expr, n, n+1)
				case e == T1m:
					l = fmt.Sprintf("%s.pokeB();", pl.expr)
				}
			}
		} else if e == Open {
			l = "{"
		} else {
			ind--
			l = "}"
		}
		lines = append(lines, strings.Repeat("    ", ind)+l)
		if e == Open {
			ind++
		}
	}
	return lines
}

// single renders one sequence as a whole program.
func single(p pair, s seq) string {
	return prelude + "fn main() {\n" + strings.Join(body(p, s), "\n") + "\n}\n"
}

// expected gives the lines an accepted sequence prints: references alias the cells of
// their place, so a write on either side is seen on the other.
func expected(p pair, s seq) []string {
	cell := map[string]int64{}
	for k, v := range p.init {
		cell[k] = v
	}
	var out []string
	copied := false
	for j, e := range s {
		i := e.idx()
		if i < 0 {
			continue
		}
		pl := p.p[i]
		if e == C2s {
			copied = true
			continue
		}
		if e == U2 && copied {
			pl = p.p[0]
		}
		n := int64(10 * (j + 1))
		switch e {
		case U1, U2, R1, R2:
			if strings.HasPrefix(p.astyle, "index-") && p.styled(e) {
				// the read is an index: index-store prints nothing, the others element 1
				if p.astyle != "index-store" {
					out = append(out, "1")
				}
				break
			}
			for _, c := range pl.cells {
				out = append(out, fmt.Sprint(cell[c]))
			}
		case W1, W2:
			for k, c := range pl.cells {
				if pl.isStruct {
					cell[c] = n + int64(k)
				} else {
					cell[c] = p.written(cell[c], n)
				}
			}
		case M1, M2:
			for k, c := range pl.cells {
				cell[c] = n + int64(k)
			}
		case T1m:
			cell[pl.cells[len(pl.cells)-1]]++
		}
	}
	return out
}

// usesArrayStore: the sequence stores directly into an element of a fixed [N]i32 array.
func usesArrayStore(p pair, s seq) bool {
	for _, e := range s {
		if (e == M1 || e == M2) && p.p[e.idx()].arrStore {
			return true
		}
	}
	return false
}

// prints: the sequence has at least one printing event.
func prints(s seq) bool {
	for _, e := range s {
		switch e {
		case U1, U2, R1, R2:
			return true
		}
	}
	return false
}
