package c13

import (
	"os"
	"path/filepath"
	"sort"
	"strings"
)

// prog is one valid corpus program (possibly several files). Every file is damaged in
// turn; the undamaged program is the CONTROL and must be accepted by the front end.
type prog struct {
	name  string
	files map[string]string
	own   bool // written for this check (a rejected control is a failure); smoke tests that do
	// not compile any more are counted and left out
}

func one(name, src string) prog {
	return prog{name: name, files: map[string]string{"main.fer": src}, own: true}
}

// ownCorpus: structs/methods, enums/match, arrays, closures, results, refs, imports,
// optionals/maps, loops, strings, and a program that compiles with a WARNING only
// (`if true {} else {}` gives W0002; the controls are checked for being accepted, and the
// warn program additionally for still warning, see Run).
var ownCorpus = []prog{
	one("warn", `import "std/io";

fn main() {
    if true {
        io::Println(1);
    } else {
        io::Println(2);
    }
}
`),
	one("methods", `import "std/io";

type Point struct {
    .X: i32,
    .Y: i32
};

fn (p: &Point) sum() -> i32 {
    return p.X + p.Y;
}

fn (p: &'Point) shift(d: i32) {
    p.X += d;
    p.Y -= d;
}

fn main() {
    let p := { .X = 1, .Y = 2 } as Point;
    p.shift(3);
    io::Println(p.sum());
}
`),
	one("enum", `import "std/io";

type Color enum { Red, Green, Blue };

fn name(c: Color) -> str {
    match c {
        Color::Red => { return "red"; }
        Color::Green => { return "green"; }
        _ => { return "blue"; }
    }
}

fn main() {
    io::Println(name(Color::Green));
    let n := 2;
    match n {
        1 => io::Println("one"),
        2 => io::Println("two"),
        _ => io::Println("many"),
    }
}
`),
	one("result", `import "std/io";

fn half(n: i32) -> str ! i32 {
    if n % 2 != 0 {
        return "odd"!;
    }
    return n / 2;
}

fn main() {
    let a := half(8) catch 0;
    io::Println(a);
    let b := half(7) catch e {
        io::Println(e);
    } -1;
    io::Println(b);
    let l := 3;
    let r: &i32 = &l;
    io::Println(r);
}
`),
	{name: "imports", own: true, files: map[string]string{
		"main.fer": `import "std/io";
import "proj/lib/util";
import "proj/shape" as sh;

fn main() {
    io::Println(util::Twice(4));
    let s := { .W = 2, .H = 3 } as sh::Rect;
    io::Println(sh::Area(s));
    io::Println(util::Limit);
}
`,
		"lib/util.fer": `const Limit: i32 = 100;

fn Twice(n: i32) -> i32 {
    return n * 2;
}
`,
		"shape.fer": `type Rect struct {
    .W: i32,
    .H: i32
};

fn Area(r: Rect) -> i32 {
    return r.W * r.H;
}
`}},
	one("closure", `import "std/io";

fn apply(f: fn(v: i32) -> i32, x: i32) -> i32 {
    return f(x);
}

fn main() {
    let k: i32 = 10;
    let addk := fn(v: i32) -> i32 {
        return v + k;
    };
    io::Println(apply(addk, 5));
}
`),
	one("arrays", `import "std/io";

fn total(xs: []i32) -> i32 {
    let t: i32 = 0;
    let i: i32 = 0;
    while i < 3 {
        t += xs[i];
        i++;
    }
    return t;
}

fn main() {
    let a: [3]i32 = [1, 2, 3];
    a[1] = 5;
    io::Println(a[1]);
    let d: []i32 = [4, 5];
    append(&'d, 6);
    io::Println(len(d));
    io::Println(d[0]);
    io::Println(total(d));
}
`),
	one("refs", `import "std/io";

fn bump(r: &'i32) {
    r = r + 1;
}

fn read(r: &i32) -> i32 {
    return r;
}

fn main() {
    let a: i32 = 1;
    bump(&'a);
    bump(&'a);
    io::Println(read(&a));
    let b: i32 = 7;
    io::Println(read(&b));
}
`),
	one("optmap", `import "std/io";

fn find(m: map[str]i32, k: str) -> i32 {
    return m[k] ?? -1;
}

fn main() {
    let m := { "a" => 1, "b" => 2 } as map[str]i32;
    io::Println(find(m, "a"));
    io::Println(find(m, "z"));
    let o: i32? = none;
    if o == none {
        io::Println("none");
    }
    let p: i32? = 4;
    io::Println(p ?? 0);
}
`),
	one("loops", `import "std/io";

fn main() {
    let s: i32 = 0;
    let lo: i32 = 0;
    let hi: i32 = 5;
    for i in lo..hi {
        if i == 3 { continue; }
        s += i;
    }
    io::Println(s);
    let xs: []i32 = [7, 8, 9];
    let j: i32 = 0;
    while true {
        if j >= 3 { break; }
        let v: i32 = xs[j];
        io::Println(v);
        j += 1;
    }
}
`),
	one("strings", `import "std/io";

fn main() {
    const Greeting: str = "hi";
    let s: str = Greeting + ", there";
    io::Println(s);
    io::Println(len(s));
    let c: byte = s[0];
    io::Println(c);
    let f: f64 = 1.5;
    io::Println(f * 2.0);
    let big: i64 = 1 as i64;
    io::Println(big);
    let ok: bool = !(1 > 2) && true;
    io::Println(ok);
}
`),
	one("refcatch", `import "std/io";

fn f() -> str ! i32 {
    return 1;
}

fn main() {
    let l := 3;
    let r: &i32 = &l;
    let z := f() catch 0;
    io::Println(r);
    io::Println(z);
}
`),
	one("recur", `import "std/io";

// classic recursion with an else-if chain
fn fib(n: i32) -> i32 {
    if n <= 0 {
        return 0;
    } else if n == 1 {
        return 1;
    } else {
        return fib(n - 1) + fib(n - 2);
    }
}

fn main() {
    let i: i32 = 0;
    while i < 6 {
        io::Println(fib(i));
        i += 1;
    }
}
`),
	one("nested", `import "std/io";

type Inner struct { .V: i32 };

type Outer struct {
    .In: Inner,
    .Tag: str
};

fn (o: &Outer) value() -> i32 {
    return o.In.V;
}

fn mk(v: i32) -> Outer {
    let o: Outer = { .In = { .V = v }, .Tag = "t" };
    return o;
}

fn main() {
    let o := mk(4);
    io::Println(o.value());
    io::Println(o.Tag);
    o.In.V = 9;
    io::Println(o.In.V);
}
`),
}

// quickSmoke: the smoke tests used in the quick tier (when they still compile).
var quickSmoke = map[string]bool{"00_basic": true, "06_result": true, "11_enum_match": true, "14_closure_nested": true}

// quickOwn: own programs of the quick tier.
var quickOwn = map[string]bool{"warn": true, "methods": true, "enum": true, "result": true, "imports": true, "closure": true,
	"arrays": true, "refs": true, "refcatch": true, "optmap": true, "loops": true, "nested": true}

// loadCorpus returns the corpus in a fixed order: own programs, then /repo/smoke_test.
func loadCorpus(repo string, quick bool) []prog {
	var ps []prog
	for _, p := range ownCorpus {
		if quick && !quickOwn[p.name] {
			continue
		}
		ps = append(ps, p)
	}
	var paths []string
	for _, g := range []string{"smoke_test/*.fer", "smoke_test/extra/*.fer", "smoke_test/advanced/*.fer"} {
		m, _ := filepath.Glob(filepath.Join(repo, g))
		sort.Strings(m)
		paths = append(paths, m...)
	}
	for _, p := range paths {
		base := strings.TrimSuffix(filepath.Base(p), ".fer")
		if quick && !quickSmoke[base] {
			continue
		}
		b, err := os.ReadFile(p)
		if err != nil {
			continue
		}
		ps = append(ps, prog{name: "smoke_" + base, files: map[string]string{"main.fer": string(b)}})
	}
	return ps
}

// ---------------------------------------------------------------------------------
// a simple splitter (NOT the real lexer): identifiers/numbers, string and byte literals,
// line comments, the multi-character operators, single characters. Each token carries the
// white space that follows it, so damaged programs keep their layout.

type tok struct{ text, gap string }

var multi = []string{"**=", "..=", "...", ":=", "::", "->", "=>", "==", "!=", "<=", ">=", "&&", "||", "++", "--", "+=", "-=", "*=", "/=", "%=", "..", "&'", "??", "**"}

func isWord(c byte) bool {
	return c == '_' || (c >= '0' && c <= '9') || (c >= 'a' && c <= 'z') || (c >= 'A' && c <= 'Z')
}
func isSpace(c byte) bool { return c == ' ' || c == '\t' || c == '\n' || c == '\r' }

// split returns leading white space and the tokens.
func split(s string) (lead string, ts []tok) {
	i := 0
	for i < len(s) && isSpace(s[i]) {
		i++
	}
	lead = s[:i]
	for i < len(s) {
		st := i
		c := s[i]
		switch {
		case isWord(c):
			for i < len(s) && (isWord(s[i]) || (s[i] == '.' && i+1 < len(s) && s[i+1] >= '0' && s[i+1] <= '9' && s[st] >= '0' && s[st] <= '9')) {
				i++
			}
		case c == '"':
			i++
			for i < len(s) && s[i] != '"' {
				i++
			}
			if i < len(s) {
				i++
			}
		case c == '\'' && i+2 < len(s) && s[i+2] == '\'':
			i += 3
		case c == '/' && i+1 < len(s) && s[i+1] == '/':
			for i < len(s) && s[i] != '\n' {
				i++
			}
		default:
			n := 1
			for _, m := range multi {
				if strings.HasPrefix(s[i:], m) {
					n = len(m)
					break
				}
			}
			i += n
		}
		e := i
		for i < len(s) && isSpace(s[i]) {
			i++
		}
		ts = append(ts, tok{s[st:e], s[e:i]})
	}
	return
}

func join(lead string, ts []tok) string {
	var b strings.Builder
	b.WriteString(lead)
	for _, t := range ts {
		b.WriteString(t.text)
		b.WriteString(t.gap)
	}
	return b.String()
}
