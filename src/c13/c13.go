// Package c13: the compiler is total and reports failure faithfully.
//
// Bounded-exhaustive enumeration of four input spaces (token strings in four frames,
// single-token damage of a corpus of valid programs, byte strings, project layouts), each
// judged by an in-process oracle (front end inside watchdog-supervised worker processes)
// and, for class representatives / every in-process failure / every project layout / every
// input the front end accepted in the small families, by a process-level oracle through the
// real `ferret` binary.
//
// Deviations from DESIGN.md "### C13" (all because of the given budgets or the real tree):
//   - the alphabet is DESIGN's list taken literally: 16 keywords, x _ 1 "s" 'c', 21
//     punctuation symbols, a line comment and the byte 0xFF = 44 symbols (DESIGN says "38");
//     quick enumerates length <=3, thorough length <=4 as far as the budget allows and says
//     so (exhaustive=false, counter tok_done_len<k>) when it is cut.
//   - corpus: 13 own programs + the /repo/smoke_test programs that still compile (about 20),
//     not 60; the C01/C03 controls are not reused (no dependency on other checks).
//   - "removing p.advance() in parseBlock's error path" is an EQUIVALENT edit in this tree
//     (parseStmt returns nil only at EOF, which the loop condition excludes); the hang edit
//     that is caught is the analogous advance() in parseStructType/parseEnumType.
//   - diagnostics that carry no location at all and whose cause is not a place in an input
//     file (entry file unusable, tool-chain/link failure, back-end "failed" summaries, missing
//     `main`) are counted (either), not judged for location.
//   - R4: no wall-clock oracle. Timeout/Crash come from fe.Pool's confirmation protocol; a
//     process-level timeout is reported only after three solo runs of 120 s each timed out.
//     After the first confirmed non-termination the enumeration stops (exhaustive=false):
//     every further hanging input would cost 190 s and up to 8 GB.
package c13

import (
	"fmt"
	"os"
	"path/filepath"
	"regexp"
	"sort"
	"strings"
	"sync"
	"sync/atomic"
	"time"

	"compiler/verifh/fe"
	"compiler/verifh/run"
	"compiler/verifh/vl"
)

// ---------------------------------------------------------------------------------
// inputs

type input struct {
	id      string
	fam     string // tok | dmg | byte | proj | ctl
	files   map[string]string
	dirs    []string
	entry   string
	ord     int64
	control bool // must be accepted by the front end
	small   bool // member of a small family: goes through the real binary when accepted
}

func (in *input) project(mode string) *fe.Project {
	return &fe.Project{ID: in.id, Files: in.files, Dirs: in.dirs, Entry: in.entry, Mode: mode}
}

func (in *input) replay() map[string]string {
	m := map[string]string{}
	for k, v := range in.files {
		m["proj/"+k] = v
	}
	layout := "entry: " + in.entry + "\n"
	for _, d := range in.dirs {
		layout += "directory: " + d + "\n"
	}
	var names []string
	for k := range in.files {
		names = append(names, k)
	}
	sort.Strings(names)
	for _, n := range names {
		layout += fmt.Sprintf("file: %s (%d bytes)\n", n, len(in.files[n]))
	}
	m["layout.txt"] = layout
	return m
}

// ---- (i) token strings

type sym struct{ text, name string }

var alphabet = []sym{
	{"fn", "fn"}, {"let", "let"}, {"const", "const"}, {"type", "type"}, {"struct", "struct"}, {"enum", "enum"},
	{"match", "match"}, {"if", "if"}, {"else", "else"}, {"while", "while"}, {"for", "for"}, {"in", "in"},
	{"return", "return"}, {"import", "import"}, {"as", "as"}, {"catch", "catch"},
	{"x", "x"}, {"_", "us"}, {"1", "1"}, {`"s"`, "str"}, {"'c'", "chr"},
	{"(", "lp"}, {")", "rp"}, {"[", "lb"}, {"]", "rb"}, {"{", "lc"}, {"}", "rc"}, {",", "comma"}, {";", "semi"},
	{":", "colon"}, {":=", "walrus"}, {"=", "eq"}, {".", "dot"}, {"::", "scope"}, {"->", "arrow"}, {"=>", "fat"},
	{"!", "bang"}, {"?", "q"}, {"&", "amp"}, {"&'", "ampq"}, {"+", "plus"}, {"-", "minus"},
	{"// c\n", "cmt"}, {"\xff", "xFF"},
	// (added later: the remaining keywords, operators and literal forms)
	{"interface", "interface"}, {"map", "map"}, {"is", "is"}, {"none", "none"}, {"break", "break"}, {"continue", "continue"}, {"true", "true"},
	{"..", "dotdot"}, {"..=", "dotdoteq"}, {"??", "qq"}, {"@", "at"}, {"|", "bar"}, {"*", "star"}, {"/", "slash"}, {"%", "pct"}, {"<", "lt"}, {"==", "eqeq"},
	{"&&", "andand"}, {"++", "inc"}, {"+=", "pluseq"}, {"**", "pow"}, {"1.5", "flt"}, {"0x1F", "hex"}, {"\"", "dq"}, {"'", "sq"}, {"/*", "bco"}, {"i32", "i32"}, {"str", "strty"},
}

type frame struct{ name, pre, post string }

// every frame with an empty hole is a valid program (the control of the frame)
var frames = []frame{
	{"bare", "", ""},
	{"top", "fn f() -> i32 { return 1; }\n", "\nfn main() { let a := f(); }\n"},
	{"main", "fn main() {\n    let x := 1;\n", "\n}\n"},
	{"struct", "type T struct {\n    .a: i32,\n", "\n};\nfn main() { }\n"},
}

func ipow(a, n int) int {
	r := 1
	for ; n > 0; n-- {
		r *= a
	}
	return r
}

// coreNames: the reduced alphabet used at the deepest level of a tier.
// `import` is left out of the reduced alphabets on purpose: in this tree a misplaced import
// kills the compiler process (parser goroutine), every such input costs five process
// spawns, and the class is already found at length <=2 over the full alphabet.
var coreNames = []string{"fn", "let", "type", "struct", "match", "if", "return", "for", "catch", "x", "1", "str",
	"lp", "rp", "lc", "rc", "semi", "colon", "walrus", "eq", "dot", "comma"}

// core4Names: the still smaller alphabet of the length-4 level (thorough).
var core4Names = []string{"fn", "let", "type", "struct", "match", "return", "if", "catch", "x", "1",
	"lp", "rp", "lc", "rc", "semi", "colon"}

func subAlphabet(names []string) []sym {
	var l []sym
	for _, n := range names {
		for _, s := range alphabet {
			if s.name == n {
				l = append(l, s)
			}
		}
	}
	return l
}

func tokInput(L, fr, j int) *input { return tokInputA(alphabet, L, fr, j) }

func tokInputA(alpha []sym, L, fr, j int) *input {
	A := len(alpha)
	texts := make([]string, L)
	names := make([]string, L)
	for p := L - 1; p >= 0; p-- {
		s := alpha[j%A]
		j /= A
		texts[p], names[p] = s.text, s.name
	}
	f := frames[fr]
	id := "empty"
	if L > 0 {
		id = strings.Join(names, ".")
	}
	return &input{id: "tok/" + f.name + "/" + id, fam: "tok", entry: "main.fer",
		files: map[string]string{"main.fer": f.pre + strings.Join(texts, " ") + f.post}, control: L == 0 && f.name != "bare"}
}

// ---- (iii) byte strings

var byteAlpha = []byte{'a', '0', '"', '\'', '/', '*', '\n', '\t', '{', '-', 0x80, 0xFF}

func byteInputs() []*input {
	var l []*input
	for _, f := range []frame{frames[0], frames[2]} {
		for L := 0; L <= 3; L++ {
			n := ipow(len(byteAlpha), L)
			for j := 0; j < n; j++ {
				bs := make([]byte, L)
				hx := make([]string, L)
				q := j
				for p := L - 1; p >= 0; p-- {
					bs[p] = byteAlpha[q%len(byteAlpha)]
					q /= len(byteAlpha)
					hx[p] = fmt.Sprintf("%02x", bs[p])
				}
				id := "empty"
				if L > 0 {
					id = strings.Join(hx, ".")
				}
				l = append(l, &input{id: "byte/" + f.name + "/" + id, fam: "byte", entry: "main.fer", small: true,
					files: map[string]string{"main.fer": f.pre + string(bs) + f.post}})
			}
		}
	}
	return l
}

// ---- (iii-b) literal bodies: the inside of string, character and number literals has its own
// little lexers (escapes, digit separators, prefixes, exponents). All bodies of length <= 4
// (quick 3) over an alphabet of the characters those lexers branch on, in each literal frame.

var litAlpha = []byte{'\\', 'x', 'u', 'n', '0', '4', 'A', 'g', '{', '}', '"', '\'', '_', '.', 'e', '-', 'b', 0xC3}

type litFrame struct{ name, pre, post string }

var litFrames = []litFrame{
	{"str", "fn main() { let s := \"", "\"; }\n"},
	{"str-eof", "fn main() { let s := \"", ""},
	{"char", "fn main() { let c := '", "'; }\n"},
	{"num", "fn main() { let n := 0", "; }\n"},
	{"num1", "fn main() { let n: i64 = 1", "; }\n"},
}

func litInputs(maxLen int) []*input {
	var l []*input
	fr := litFrames
	if maxLen <= 3 {
		fr = []litFrame{litFrames[0], litFrames[2], litFrames[3]} // quick: str, char, num
	}
	for _, f := range fr {
		for L := 0; L <= maxLen; L++ {
			n := ipow(len(litAlpha), L)
			for j := 0; j < n; j++ {
				bs := make([]byte, L)
				hx := make([]string, L)
				q := j
				for p := L - 1; p >= 0; p-- {
					bs[p] = litAlpha[q%len(litAlpha)]
					q /= len(litAlpha)
					hx[p] = fmt.Sprintf("%02x", bs[p])
				}
				id := "empty"
				if L > 0 {
					id = strings.Join(hx, ".")
				}
				l = append(l, &input{id: "lit/" + f.name + "/" + id, fam: "lit", entry: "main.fer", small: L <= 2,
					files: map[string]string{"main.fer": f.pre + string(bs) + f.post}})
			}
		}
	}
	return l
}

// ---- (iii-c) many diagnostics: n copies of a construct that produces a warning / an info / an
// error, followed (or preceded) by one error, for n around every power of ten and two up to
// 300: a failing compilation must still show an error, however many other diagnostics there are.
func manyDiagInputs() []*input {
	var l []*input
	kinds := []struct{ name, decl string }{
		{"warn-const-cond", "fn w%d() { if true { } }\n"},
		{"warn-unreachable", "fn w%d() -> i32 { return 1; return 2; }\n"},
		{"info-trailing-comma", "fn w%d(a: i32, b: i32,) { }\n"},
		{"warn-unused", "fn w%d() { let unused%d := 1; }\n"},
		{"error-undefined", "fn w%d() { nope%d(); }\n"},
	}
	errs := []struct{ name, decl string }{
		{"type-error", "fn bad() -> i32 { return \"s\"; }\n"},
		{"undefined", "fn bad() { nowhere(); }\n"},
		{"syntax", "fn bad() { let = ; }\n"},
	}
	for _, k := range kinds {
		for _, e := range errs {
			for _, n := range []int{1, 9, 10, 15, 16, 17, 31, 32, 33, 63, 64, 65, 99, 100, 101, 127, 128, 129, 255, 256, 257, 300} {
				for _, where := range []string{"error-last", "error-first"} {
					var sb strings.Builder
					if where == "error-first" {
						sb.WriteString(e.decl)
					}
					for i := 0; i < n; i++ {
						if strings.Count(k.decl, "%d") == 2 {
							fmt.Fprintf(&sb, k.decl, i, i)
						} else {
							fmt.Fprintf(&sb, k.decl, i)
						}
					}
					if where == "error-last" {
						sb.WriteString(e.decl)
					}
					sb.WriteString("fn main() { }\n")
					l = append(l, &input{id: fmt.Sprintf("many/%s/%s/%s/%d", k.name, e.name, where, n), fam: "many", entry: "main.fer", small: true,
						files: map[string]string{"main.fer": sb.String()}})
				}
			}
		}
	}
	return l
}

// ---- (ii) single-token damage

func damageInputs(ps []prog, bytePrefix bool) (ctl, dmg []*input) {
	for _, p := range ps {
		ctl = append(ctl, &input{id: "dmg/" + p.name + "/control", fam: "ctl", entry: "main.fer", files: p.files, control: true, small: true})
		var names []string
		for n := range p.files {
			names = append(names, n)
		}
		sort.Strings(names)
		for _, fn := range names {
			src := p.files[fn]
			lead, ts := split(src)
			mk := func(op string, pos int, text string) {
				files := map[string]string{}
				for k, v := range p.files {
					files[k] = v
				}
				files[fn] = text
				dmg = append(dmg, &input{id: fmt.Sprintf("dmg/%s/%s/%s/%d", p.name, fn, op, pos), fam: "dmg", entry: "main.fer", files: files, small: true})
			}
			for i := range ts {
				// delete
				d := append(append([]tok{}, ts[:i]...), ts[i+1:]...)
				mk("del", i, join(lead, d))
				// duplicate
				u := append(append([]tok{}, ts[:i]...), tok{ts[i].text, " "})
				u = append(u, ts[i:]...)
				mk("dup", i, join(lead, u))
				// swap with the right neighbour
				if i+1 < len(ts) {
					w := append([]tok{}, ts...)
					w[i].text, w[i+1].text = ts[i+1].text, ts[i].text
					mk("swap", i, join(lead, w))
				}
				// truncation before token i
				mk("prefix", i, join(lead, ts[:i]))
			}
			if bytePrefix {
				for b := 0; b < len(src); b++ {
					mk("byteprefix", b, src[:b])
				}
			}
		}
	}
	return
}

// renderInputs: erroneous constructs written over several lines (the label of the diagnostic
// spans lines), at three nesting depths, indented with six indentation units. They always go
// through the real binary: what is judged is the printing of the diagnostic.
func renderInputs() []*input {
	head := "import \"std/io\";\ntype Point struct { .X: i32, .Y: i32 };\ntype Color enum { Red, Green };\nfn add(a: i32, b: i32) -> i32 { return a + b; }\nfn take(a: i32, b: i32) { }\n"
	cons := []struct {
		name  string
		lines []string // a leading '>' marks a continuation line (one unit deeper)
	}{
		{"missing-field", []string{"let p: Point = {", ">.X = 1,", "};"}},
		{"unknown-field", []string{"let q := {", ">.X = 1,", ">.Z = 2", "} as Point;"}},
		{"arg-type", []string{"let s: i32 = add(", ">1,", ">\"two\"", ");"}},
		{"operand-type", []string{"let t: i32 = 1 +", ">\"x\";"}},
		{"arg-count", []string{"take(", ">1", ");"}},
		{"elem-type", []string{"let arr: [2]i32 = [", ">1,", ">\"b\"", "];"}},
		{"cond-type", []string{"if 1 +", ">2 {", "}"}},
		{"match-arms", []string{"let c := Color::Red;", "match c {", ">Color::Red => { }", "}"}},
		{"unknown-type", []string{"let u: Missing = {", ">.A = 1", "};"}},
		{"return-type", []string{"return {", ">.X = 1,", ">.Y = 2", "} as Point;"}},
	}
	units := []struct{ name, u string }{{"sp4", "    "}, {"tab", "\t"}, {"tab2", "\t\t"}, {"tab3", "\t\t\t"}, {"sp-tab", " \t"}, {"tab-sp", "\t "}}
	var out []*input
	for _, cn := range cons {
		for depth := 1; depth <= 3; depth++ {
			for _, un := range units {
				var b strings.Builder
				b.WriteString(head + "fn main() {\n")
				for d := 1; d < depth; d++ {
					b.WriteString(strings.Repeat(un.u, d) + "if true {\n")
				}
				for _, l := range cn.lines {
					ind := depth
					if strings.HasPrefix(l, ">") {
						ind, l = depth+1, l[1:]
					}
					b.WriteString(strings.Repeat(un.u, ind) + l + "\n")
				}
				for d := depth - 1; d >= 1; d-- {
					b.WriteString(strings.Repeat(un.u, d) + "}\n")
				}
				b.WriteString("}\n")
				out = append(out, &input{id: fmt.Sprintf("render/%s/depth%d/%s", cn.name, depth, un.name), fam: "render", entry: "main.fer", files: map[string]string{"main.fer": b.String()}, small: true})
			}
		}
	}
	return out
}

// doubleDamage: one token deleted, and the file cut off 1..window tokens later (error recovery
// that looks ahead for a synchronising token meets the end of the file instead).
func doubleDamage(ps []prog, window int) (dmg []*input) {
	for _, p := range ps {
		if len(p.files) != 1 {
			continue
		}
		for fn, src := range p.files {
			lead, ts := split(src)
			for i := range ts {
				d := append(append([]tok{}, ts[:i]...), ts[i+1:]...)
				for w := 1; w <= window && i+w <= len(d); w++ {
					dmg = append(dmg, &input{id: fmt.Sprintf("dmg2/%s/%s/del%d+prefix%d", p.name, fn, i, i+w), fam: "dmg", entry: "main.fer",
						files: map[string]string{fn: join(lead, d[:i+w])}, small: true})
				}
			}
		}
	}
	return
}

// ---- (iv) project layouts

var states = []string{"V", "M", "X", "E", "D", "S", "N", "U", "T", "Z", "W"}

// V valid, M malformed, X missing, E empty, D is a directory, S imports itself, N imports a
// missing module, U import path with `..`, T trailing slash, Z empty string, W two imports on
// one line.

type modSpec struct {
	name     string   // a, b, main
	children []string // modules it imports structurally
	sibling  string   // target of the `..` / trailing-slash imports
}

func modFile(m modSpec, st string) (content string, present bool, isDir bool) {
	var b strings.Builder
	imp := func(p string) { fmt.Fprintf(&b, "import \"%s\";\n", p) }
	switch st {
	case "X":
		return "", false, false
	case "E":
		return "", true, false
	case "D":
		return "", false, true
	case "S":
		imp("proj/" + m.name)
	case "N":
		imp("proj/nosuch")
	case "U":
		imp("proj/../proj/" + m.sibling)
	case "T":
		imp("proj/" + m.sibling + "/")
	case "Z":
		imp("")
	}
	if st == "W" {
		// all imports of the file on ONE line (at least two)
		var l []string
		for _, c := range m.children {
			l = append(l, "import \"proj/"+c+"\";")
		}
		l = append(l, "import \"std/io\";")
		if len(l) < 2 {
			l = append(l, "import \"random\";")
		}
		b.WriteString(strings.Join(l, " ") + "\n")
	} else {
		for _, c := range m.children {
			imp("proj/" + c)
		}
	}
	bad := st == "M"
	switch m.name {
	case "main":
		var terms []string
		for _, c := range m.children {
			terms = append(terms, c+"::F"+c+"()")
		}
		if len(terms) == 0 {
			terms = []string{"0"}
		}
		if bad {
			fmt.Fprintf(&b, "fn main( {\n    let r: i32 = %s\n}\n", strings.Join(terms, " + "))
		} else {
			fmt.Fprintf(&b, "fn main() {\n    let r: i32 = %s;\n}\n", strings.Join(terms, " + "))
		}
	default:
		body := "1"
		for _, c := range m.children {
			body += " + " + c + "::F" + c + "()"
		}
		if bad {
			fmt.Fprintf(&b, "fn F%s( -> i32 {\n    return %s\n}\n", m.name, body)
		} else {
			fmt.Fprintf(&b, "fn F%s() -> i32 {\n    return %s;\n}\n", m.name, body)
		}
	}
	return b.String(), true, false
}

func layoutInput(shape string, mods []modSpec, sts []string) *input {
	in := &input{id: "proj/" + shape + "/" + strings.Join(sts, "."), fam: "proj", entry: "main.fer", files: map[string]string{}, small: true}
	allV := true
	for i, m := range mods {
		if sts[i] != "V" {
			allV = false
		}
		content, present, isDir := modFile(m, sts[i])
		if isDir {
			in.dirs = append(in.dirs, m.name+".fer")
		} else if present {
			in.files[m.name+".fer"] = content
		}
	}
	in.control = allV
	return in
}

func projectInputs(thorough bool) []*input {
	var l []*input
	solo := []modSpec{{"main", nil, "main"}}
	pair := []modSpec{{"main", []string{"a"}, "a"}, {"a", nil, "main"}}
	fan := []modSpec{{"main", []string{"a", "b"}, "a"}, {"a", nil, "b"}, {"b", nil, "a"}}
	chain := []modSpec{{"main", []string{"a"}, "a"}, {"a", []string{"b"}, "b"}, {"b", nil, "a"}}
	for _, s := range states {
		l = append(l, layoutInput("solo", solo, []string{s}))
	}
	for _, s := range states {
		for _, t := range states {
			l = append(l, layoutInput("pair", pair, []string{s, t}))
		}
	}
	shapes := []struct {
		n string
		m []modSpec
	}{{"fan", fan}}
	if thorough {
		shapes = append(shapes, struct {
			n string
			m []modSpec
		}{"chain", chain})
	}
	for _, sh := range shapes {
		for _, s := range states {
			for _, t := range states {
				for _, u := range states {
					l = append(l, layoutInput(sh.n, sh.m, []string{s, t, u}))
				}
			}
		}
	}
	return l
}

// ---------------------------------------------------------------------------------
// the check

type failRec struct {
	kind, key string
	ord       int64
	id        string
	obs       string
	files     map[string]string
}

type rep struct {
	ord int64
	in  *input
}

type chk struct {
	c     *vl.Ctx
	mu    sync.Mutex
	fails []failRec
	reps  map[string]rep
	// inputs of the small families that the front end accepted (go through the real binary)
	accepted map[string]*input
	abort    atomic.Bool
	evals    int64
	ordSeq   int64
}

func (k *chk) dbg(f string, a ...any) {
	if os.Getenv("VERIF_DEBUG") != "" {
		fmt.Fprintf(os.Stderr, "[c13 %6.1fs] "+f+"\n", append([]any{time.Since(k.c.Start).Seconds()}, a...)...)
	}
}

func (k *chk) fail(kind, key string, in *input, suffix, obs string) {
	k.mu.Lock()
	k.fails = append(k.fails, failRec{kind: kind, key: key, ord: in.ord, id: in.id + suffix, obs: obs, files: in.replay()})
	k.mu.Unlock()
}

var (
	reHex    = regexp.MustCompile(`0x[0-9a-fA-F]+`)
	reQuoted = regexp.MustCompile("'[^']*'|`[^`]*`|\"[^\"]*\"")
	reNum    = regexp.MustCompile(`[0-9]+`)
	rePath   = regexp.MustCompile(`/[^\s:'"]*/proj\b`)
	reAbs    = regexp.MustCompile(`/[^\s:'"]+`)
)

// normMsg turns a diagnostic message into a class name (no identifiers, numbers, paths).
func normMsg(s string) string {
	s = rePath.ReplaceAllString(s, "<proj>")
	s = reQuoted.ReplaceAllString(s, "_")
	s = reAbs.ReplaceAllString(s, "<path>")
	s = reNum.ReplaceAllString(s, "N")
	if i := strings.IndexByte(s, '\n'); i >= 0 {
		s = s[:i]
	}
	w := strings.Fields(s)
	if len(w) > 7 {
		w = w[:7]
	}
	return strings.Join(w, "_")
}

func diagKey(d fe.Diag) string {
	if d.Code != "" {
		return d.Code
	}
	return "<" + normMsg(d.Msg) + ">"
}

func codeSet(ds []fe.Diag, sev string) string {
	m := map[string]bool{}
	for _, d := range ds {
		if d.Sev == sev {
			m[diagKey(d)] = true
		}
	}
	var l []string
	for c := range m {
		l = append(l, c)
	}
	sort.Strings(l)
	return strings.Join(l, ",")
}

// errors without any location whose cause is not a place in an input file: counted, not judged
var noLocEither = []string{"Failed to set entry point", "build failed", "wasm codegen failed", "failed to create wasm output",
	"failed to write wasm output", "missing entry point"}

func shortFrame(f string) string {
	f = strings.TrimPrefix(f, "compiler/internal/")
	f = strings.TrimPrefix(f, "compiler/")
	if f == "" {
		f = "unknown"
	}
	return f
}

func (k *chk) locProblem(in *input, d fe.Diag) (kind, detail string) {
	if !d.HasLoc {
		for _, p := range noLocEither {
			if strings.HasPrefix(d.Msg, p) {
				k.c.Count("error_without_location_cause_outside_inputs(either)", 1)
				return "", ""
			}
		}
		return "loc-none", "error diagnostic without a location: " + diagKey(d)
	}
	if d.NilFile {
		return "loc-nilfile", "error diagnostic whose location has no file name: " + diagKey(d)
	}
	src, ok := in.files[d.File]
	if !ok {
		f := d.File
		if strings.HasPrefix(f, "/") {
			f = "<outside>/" + filepath.Base(f)
		}
		return "loc-foreign-file", fmt.Sprintf("error diagnostic %s located in %s, which is not an input file", diagKey(d), f)
	}
	lines := strings.Split(src, "\n")
	n := len(lines)
	if d.Line < 1 || d.Line > n+1 {
		return "loc-line", fmt.Sprintf("error diagnostic %s at line %d of a %d-line file", diagKey(d), d.Line, n)
	}
	// columns are visual: source.Position.Advance counts a tab as 4 columns
	ll := 0
	if d.Line <= n {
		ll = len(lines[d.Line-1]) + 3*strings.Count(lines[d.Line-1], "\t")
	}
	if d.Col < 1 || d.Col > ll+2 {
		return "loc-col", fmt.Sprintf("error diagnostic %s at column %d of a line of %d columns (tabs counted as 4)", diagKey(d), d.Col, ll)
	}
	return "", ""
}

// judge applies the in-process oracle to one result.
func (k *chk) judge(in *input, mode string, r *fe.Result) {
	c := k.c
	atomic.AddInt64(&k.evals, 1)
	c.Count("inproc_"+mode+"_"+in.fam, 1)
	suffix := ""
	if mode != "check" {
		suffix = "@" + mode
	}
	if !in.control {
		c.Distinct(in.id + suffix)
	}
	if in.control && mode == "check" && (r.Timeout || r.Crash != "" || r.Panic != "") {
		k.fail(in.fam+"-control", "no-answer", in, suffix, "control (well-formed twin) not compiled: panic="+reHex.ReplaceAllString(r.Panic, "0x?")+" crash="+fmt.Sprint(r.Crash != "")+" timeout="+fmt.Sprint(r.Timeout))
	}
	switch {
	case r.Timeout:
		k.abort.Store(true)
		c.Outcome(mode + ":TIMEOUT")
		k.fail("hang", "inproc", in, suffix, "the front end did not terminate (three solo runs on fresh workers were killed by the watchdog)")
		return
	case r.Crash != "":
		// the text of r.Crash (tail of the dead worker's stderr) is not reliably captured and is
		// not part of the observation; the stack is taken from the real binary (proc-crash)
		if strings.Contains(r.Crash, "out of memory") || strings.Contains(r.Crash, "cannot allocate") {
			k.abort.Store(true)
			c.Outcome(mode + ":DIED-OOM")
			k.fail("died", "out-of-memory", in, suffix, "the compiler process exhausted its 8 GB address space and died")
			return
		}
		c.Outcome(mode + ":DIED")
		if i := strings.Index(r.Crash, "worker died "); i >= 0 && len(r.Crash) >= i+15 {
			c.Count("died_confirmations_"+r.Crash[i+12:i+15], 1)
		}
		k.fail("died", "worker", in, suffix, "the compiler process died of an unrecoverable crash (outside the goroutine that can be recovered)")
		return
	case r.Panic != "":
		fr := shortFrame(r.PanicFrame)
		c.Outcome(mode + ":PANIC " + fr)
		kind := "crash"
		if strings.HasPrefix(r.Panic, "while rendering") {
			kind = "render-crash"
		}
		k.fail(kind, fr, in, suffix, "panic in "+fr+": "+reHex.ReplaceAllString(r.Panic, "0x?"))
		return
	}
	errs := r.Errors()
	ecodes := codeSet(r.Diags, "error")
	wcodes := codeSet(r.Diags, "warning")
	var class string
	if len(errs) == 0 {
		class = "ok"
		if wcodes != "" {
			class = "ok+W[" + wcodes + "]"
		}
		if !r.Success {
			class = "FAILED-" + class
		}
	} else {
		class = "E[" + ecodes + "]"
		if r.Success {
			class = "SUCCESS-" + class
		}
	}
	c.Outcome(mode + ":" + class)
	// representative of the class (deterministic: smallest enumeration order)
	rk := mode + ":" + class
	if len(errs) == 0 {
		rk += ":" + in.fam + ":" + strings.SplitN(in.id, "/", 3)[1]
	}
	k.mu.Lock()
	if old, ok := k.reps[rk]; !ok || in.ord < old.ord {
		k.reps[rk] = rep{in.ord, in}
	}
	if mode == "check" && in.small && r.Success && len(errs) == 0 {
		k.accepted[in.id] = in
	}
	k.mu.Unlock()

	if r.Success && len(errs) > 0 {
		k.fail("success-with-error", ecodes, in, suffix, "Success reported although error diagnostics were emitted: "+ecodes)
	}
	if !r.Success && len(errs) == 0 {
		k.fail("failure-without-error", "W["+wcodes+"]", in, suffix, fmt.Sprintf("failure reported without any error diagnostic (%d diagnostics, warnings: %s)", len(r.Diags), wcodes))
	}
	if in.control && (!r.Success || len(errs) > 0) && mode == "check" {
		k.fail(in.fam+"-control", ecodes, in, suffix, "control (well-formed twin) rejected: "+r.ErrSummary())
	}
	if in.id == "dmg/warn/control" && mode == "check" && wcodes == "" {
		// vacuity guard: the corpus must contain a program that only warns (Success <=> no ERROR)
		k.fail("ctl-control", "no-warning", in, suffix, "the warning-only control compiled without any warning; the template no longer exercises `Success <=> no error diagnostic`")
	}
	seen := map[string]bool{}
	for _, d := range errs {
		if kind, detail := k.locProblem(in, d); kind != "" {
			key := kind + "/" + diagKey(d)
			if !seen[key] {
				seen[key] = true
				k.fail(kind, diagKey(d), in, suffix, detail)
			}
		}
	}
	if mode == "wasm" {
		switch {
		case !r.Success && r.WasmOnDisk:
			k.fail("artefact-after-failure", "inproc-wasm/"+ecodes, in, suffix, "out.wasm exists after a failed wasm compilation: "+ecodes)
		case r.Success && !r.WasmOnDisk:
			k.fail("success-without-artefact", "inproc-wasm", in, suffix, "wasm compilation succeeded but out.wasm was not written")
		}
	}
}

// runAll runs inputs[from:] through the pool until the deadline; returns how many were run.
func (k *chk) runAll(pool *fe.Pool, mode string, n int, get func(i int) *input, deadline time.Time) (done int64, complete bool) {
	var cnt, skipped int64
	type slow struct {
		d  time.Duration
		id string
	}
	var smu sync.Mutex
	var slowest []slow
	vl.ParDo(n, pool.N, func(i int) {
		if k.abort.Load() || (!deadline.IsZero() && time.Now().After(deadline)) {
			atomic.AddInt64(&skipped, 1)
			return
		}
		in := get(i)
		t0 := time.Now()
		r := pool.Do(in.project(mode))
		if d := time.Since(t0); d > 300*time.Millisecond {
			smu.Lock()
			slowest = append(slowest, slow{d, in.id})
			smu.Unlock()
		}
		atomic.AddInt64(&cnt, 1)
		k.judge(in, mode, &r)
	})
	if len(slowest) > 0 {
		sort.Slice(slowest, func(i, j int) bool { return slowest[i].d > slowest[j].d })
		var tot time.Duration
		for _, s := range slowest {
			tot += s.d
		}
		k.dbg("  %d slow inputs (>0.3s), total %.1fs; slowest: %v", len(slowest), tot.Seconds(), slowest[:min(8, len(slowest))])
	}
	return cnt, skipped == 0
}

func Run(c *vl.Ctx) {
	quick := c.Quick()
	budget, procReserve := 180*time.Second, 50*time.Second
	if !quick {
		budget, procReserve = 19*time.Minute, 4*time.Minute
	}
	c.SetBudget(budget)
	if !c.Deadline.IsZero() {
		budget = c.Deadline.Sub(c.Start)
		if procReserve > budget/2 {
			procReserve = budget / 2
		}
	}
	inprocDeadline := c.Start.Add(budget - procReserve)
	k := &chk{c: c, reps: map[string]rep{}, accepted: map[string]*input{}}
	libs := filepath.Join(c.Repo, "ferret_libs")
	// the real binary and the runtime library are built while the in-process stages run
	rnCh := make(chan *run.Runner, 1)
	go func() { rnCh <- run.New(c) }()
	exhaustive := true
	note := func(what string) {
		exhaustive = false
		c.Count("not_completed:"+what, 1)
	}

	// ---- enumerate the small families (simplest first; ord fixes the global order)
	type level struct {
		L     int
		alpha []sym
		name  string
	}
	core := subAlphabet(coreNames)
	levels := []level{{2, alphabet, "len2/full"}, {3, core, "len3/core"}}
	if !quick {
		levels = []level{{2, alphabet, "len2/full"}, {3, alphabet, "len3/full"}, {4, subAlphabet(core4Names), "len4/core16"}}
	}
	A := len(alphabet)
	var ord int64
	next := func(in *input) *input { in.ord = ord; ord++; return in }
	corpus := loadCorpus(c.Repo, quick)
	ctl, dmg := damageInputs(corpus, !quick)
	bytesIn := byteInputs()
	litLen := 3
	if !quick {
		litLen = 4
	}
	litIn := litInputs(litLen)
	manyIn := manyDiagInputs()
	renderIn := renderInputs()
	dmg2 := doubleDamage(corpus, map[bool]int{true: 6, false: 12}[quick])
	projIn := projectInputs(!quick)
	var canary []*input
	for fr := range frames {
		for L := 0; L <= 1; L++ {
			for j := 0; j < ipow(A, L); j++ {
				in := next(tokInput(L, fr, j))
				in.small = true
				canary = append(canary, in)
			}
		}
	}
	for _, in := range ctl {
		canary = append(canary, next(in))
	}
	for _, l := range [][]*input{projIn, renderIn, dmg, bytesIn, manyIn, litIn, dmg2} {
		for _, in := range l {
			next(in)
		}
	}
	tokBase := ord
	// debugging aid: VERIF_C13_DUMP=<dir> VERIF_C13_IDS=<id,id,...> writes those inputs out and stops
	if d := os.Getenv("VERIF_C13_DUMP"); d != "" {
		want := map[string]bool{}
		for _, id := range strings.Split(os.Getenv("VERIF_C13_IDS"), ",") {
			want[id] = true
		}
		for _, l := range [][]*input{canary, projIn, renderIn, dmg, bytesIn, manyIn, litIn, dmg2} {
			for _, in := range l {
				if want[in.id] {
					run.WriteFiles(filepath.Join(d, strings.ReplaceAll(in.id, "/", "_")), in.replay())
				}
			}
		}
		os.Exit(0)
	}

	// ---- stage 0: canary on a small pool (a hang reachable by the simplest inputs must not
	// be multiplied by 16 workers x 8 GB of address space each)
	func() {
		p0 := fe.NewPool(c.W, libs, 2)
		p0.Confirm = 120 * time.Second
		defer p0.Close()
		k.runAll(p0, "check", len(canary), func(i int) *input { return canary[i] }, time.Time{})
	}()
	k.dbg("canary done: %d inputs", len(canary))
	var droppedSmoke int64
	// a smoke test that does not compile any more is not a control: drop it (counted)
	{
		bad := map[string]bool{}
		k.mu.Lock()
		var keep []failRec
		for _, f := range k.fails {
			if f.kind == "ctl-control" && strings.HasPrefix(f.id, "dmg/smoke_") {
				bad[strings.Split(f.id, "/")[1]] = true
				continue
			}
			keep = append(keep, f)
		}
		k.fails = keep
		k.mu.Unlock()
		if len(bad) > 0 {
			var d2 []*input
			for _, in := range dmg {
				if !bad[strings.Split(in.id, "/")[1]] {
					d2 = append(d2, in)
				}
			}
			dmg = d2
			var c2 []*input
			for _, in := range ctl {
				if !bad[strings.Split(in.id, "/")[1]] {
					c2 = append(c2, in)
				}
			}
			ctl = c2
			droppedSmoke = int64(len(bad))
			c.Count("smoke_tests_not_compiling_left_out", droppedSmoke)
		}
	}
	c.Count("corpus_programs", int64(len(ctl)))

	pool := fe.NewPool(c.W, libs, 16)
	pool.Confirm = 120 * time.Second // a verdict of non-termination needs three solo runs of 120 s
	defer pool.Close()
	stage := func(name, mode string, l []*input) {
		t0 := time.Now()
		defer func() { k.dbg("stage %s: %d inputs in %.1fs", name, len(l), time.Since(t0).Seconds()) }()
		if k.abort.Load() {
			note(name + "(aborted after a confirmed non-termination)")
			return
		}
		if _, ok := k.runAll(pool, mode, len(l), func(i int) *input { return l[i] }, inprocDeadline); !ok {
			note(name)
		}
	}
	// ---- stage 1: projects (check and wasm), damage, byte strings
	stage("proj/check", "check", projIn)
	stage("render/check", "check", renderIn)
	stage("dmg/check", "check", dmg)
	stage("dmg2/check", "check", dmg2)
	stage("byte/check", "check", bytesIn)
	stage("many/check", "check", manyIn)
	stage("lit/check", "check", litIn)
	// the sample for the wasm back end: the controls and every damaged program / byte string
	// the front end accepted
	{
		var sample []*input
		sample = append(sample, ctl...)
		k.mu.Lock()
		for _, in := range k.accepted {
			sample = append(sample, in)
		}
		k.mu.Unlock()
		sort.Slice(sample, func(i, j int) bool { return sample[i].ord < sample[j].ord })
		var uniq []*input
		for i, in := range sample {
			if i == 0 || sample[i-1].id != in.id {
				uniq = append(uniq, in)
			}
		}
		stage("sample/wasm", "wasm", uniq)
	}
	// ---- stage 2: token strings, by length, all frames
	base := tokBase
	for _, lv := range levels {
		if k.abort.Load() {
			note("tok/" + lv.name + "(aborted)")
			continue
		}
		lv := lv
		n := ipow(len(lv.alpha), lv.L) * len(frames)
		b0 := base
		// interleave frames so that a cut by the budget leaves a prefix of every frame
		get := func(i int) *input {
			in := tokInputA(lv.alpha, lv.L, i%len(frames), i/len(frames))
			in.ord = b0 + int64(i)
			return in
		}
		base += int64(n)
		t0 := time.Now()
		done, ok := k.runAll(pool, "check", n, get, inprocDeadline)
		k.dbg("stage tok/%s: %d of %d inputs in %.1fs", lv.name, done, n, time.Since(t0).Seconds())
		c.Count("tok_done_"+lv.name, done)
		c.Count("tok_space_"+lv.name, int64(n))
		if !ok {
			note("tok/" + lv.name)
		}
	}

	// ---- stage 3: process-level oracle through the real binary
	k.procStage(<-rnCh, c.Start.Add(budget), projIn, append(append([]*input{}, ctl...), renderIn...), note)

	// ---- report: first 3 inputs per failure class are failures, the rest is counted
	sort.SliceStable(k.fails, func(i, j int) bool {
		a, b := k.fails[i], k.fails[j]
		if a.kind != b.kind {
			return a.kind < b.kind
		}
		if a.key != b.key {
			return a.key < b.key
		}
		if a.ord != b.ord {
			return a.ord < b.ord
		}
		return a.id < b.id
	})
	perClass := map[string]int{}
	firstOf := map[string]string{}
	for _, f := range k.fails {
		ck := f.kind + "/" + f.key
		perClass[ck]++
		if perClass[ck] == 1 {
			firstOf[ck] = f.id
		}
		if perClass[ck] <= 3 {
			c.Fail(vl.Fail{Case: "C13/" + ck + "/" + f.id, Obs: f.obs, Files: f.files, Note: "first input of this class: " + firstOf[ck]})
		} else {
			c.Count("further_inputs_of_class:"+ck, 1)
		}
	}
	c.Count("failure_classes", int64(len(perClass)))
	for _, i := range []int{0, len(dmg) / 2, len(dmg) - 1} {
		if i >= 0 && i < len(dmg) {
			c.Sample(map[string]string{"id": dmg[i].id})
		}
	}
	c.Sample(map[string]string{"id": tokInput(3, 2, 12345).id, "program": tokInput(3, 2, 12345).files["main.fer"]})
	c.Sample(map[string]string{"id": projIn[len(projIn)/2].id})
	lvNames := "len<=1/full"
	for _, lv := range levels {
		lvNames += "," + lv.name
	}
	c.OverBudget()
	c.Assume = append(c.Assume,
		"non-termination and process death are decided by fe.Pool's confirmation protocol (10 s, then three solo runs of 120 s on fresh workers), never by a single wall-clock reading",
		"the in-process front end is built exactly as compiler.Compile builds it (fe.Compile); exit status, stderr and artefacts are observed on the real binary built from the same tree",
		"error diagnostics with no location whose cause is not a place in an input file (unusable entry file, tool-chain failure, back-end summary, missing main) are counted, not judged",
		"a failing class is reported through its first three inputs in enumeration order; the remaining inputs of the class are counted")
	c.Finish(vl.Coverage{Evaluations: atomic.LoadInt64(&k.evals), Exhaustive: exhaustive,
		Rule: fmt.Sprintf("all token strings of the levels %s (full = %d symbols, core = %d symbols, core16 = 16 symbols) in 4 frames; delete/duplicate/swap/prefix at every token of %d corpus programs%s; all byte strings of length <=3 over 12 bytes (bare and inside main); all layouts of <=3 files over 11 file states (%d layouts), wasm in-process for every accepted input; real binary for every layout (quick: wasm target only for layouts of <=2 files and accepted ones), every control, every accepted input of the small families, every failing class and one representative per diagnostic-code class",
			lvNames, A, len(core), len(ctl), map[bool]string{true: "", false: " and every byte prefix"}[quick], len(projIn)),
		Bound: fmt.Sprintf("token levels=%s alphabet=%d/%d frames=4 corpus=%d bytes<=3 files<=3 states=11", lvNames, A, len(core), len(ctl))})
}

// ---------------------------------------------------------------------------------
// process-level oracle

var (
	reErrHdr    = regexp.MustCompile(`(?m)^error(\[[^\]\n]*\])?: (.*)$`)
	reGoPanic   = regexp.MustCompile(`(?m)^(panic: |fatal error: |runtime: )`)
	reFrame     = regexp.MustCompile(`(?m)^(compiler/.+|main\..+)\([^()]*\)$`)
	reGoroutine = regexp.MustCompile(`(?m)^goroutine \d+ \[`)
	reTemp      = regexp.MustCompile(`%[A-Za-z_.][A-Za-z0-9_.]*|\$[A-Za-z_.][A-Za-z0-9_.]*`)
)

type procJob struct {
	in     *input
	target string
	why    string
}

func (k *chk) procStage(rn *run.Runner, deadline time.Time, projIn, ctl []*input, note func(string)) {
	c := k.c
	if k.abort.Load() {
		note("process-level stage (aborted)")
		return
	}
	var jobs []procJob
	seen := map[string]bool{}
	add := func(in *input, why string, targets ...string) {
		for _, t := range targets {
			key := t + "|" + in.id
			if seen[key] {
				continue
			}
			seen[key] = true
			jobs = append(jobs, procJob{in, t, why})
		}
	}
	for _, in := range ctl {
		add(in, "control", "native", "wasm")
	}
	// every in-process failure (first three inputs per class), except non-terminating ones
	{
		k.mu.Lock()
		fs := append([]failRec{}, k.fails...)
		k.mu.Unlock()
		sort.SliceStable(fs, func(i, j int) bool { return fs[i].ord < fs[j].ord })
		per := map[string]int{}
		byID := map[string]*input{}
		_ = byID
		for _, f := range fs {
			if f.kind == "hang" {
				continue
			}
			ck := f.kind + "/" + f.key
			per[ck]++
			// crash classes are keyed by the topmost frame only; the real binary's stack trace
			// separates the callers, so more inputs of those classes are looked at
			if per[ck] > 3 && f.kind != "died" && !(f.kind == "crash" && per[ck] <= 40) {
				continue
			}
			in := k.lookup(f)
			if strings.HasSuffix(f.id, "@wasm") {
				add(in, "inproc-failure", "native", "wasm")
			} else {
				add(in, "inproc-failure", "native")
			}
		}
	}
	for _, in := range projIn {
		// quick: the wasm target is run for the layouts of <=2 files; three-file layouts that the
		// front end rejects take the same path for both targets and are run natively only (the
		// accepted ones get both targets below). thorough: both targets for every layout.
		if k.c.Quick() && strings.HasPrefix(in.id, "proj/fan/") {
			add(in, "layout", "native")
		} else {
			add(in, "layout", "native", "wasm")
		}
	}
	// accepted inputs of the small families
	{
		k.mu.Lock()
		var acc []*input
		for _, in := range k.accepted {
			acc = append(acc, in)
		}
		k.mu.Unlock()
		sort.Slice(acc, func(i, j int) bool { return acc[i].ord < acc[j].ord })
		for _, in := range acc {
			add(in, "accepted", "native", "wasm")
		}
	}
	// one representative per diagnostic-code class
	{
		k.mu.Lock()
		var keys []string
		for key := range k.reps {
			keys = append(keys, key)
		}
		sort.Strings(keys)
		var rs []*input
		okClass := map[string]bool{} // representatives of classes without errors: both targets
		for _, key := range keys {
			rs = append(rs, k.reps[key].in)
			if !strings.Contains(key, ":E[") {
				okClass[k.reps[key].in.id] = true
			}
		}
		k.mu.Unlock()
		sort.SliceStable(rs, func(i, j int) bool { return rs[i].ord < rs[j].ord })
		for _, in := range rs {
			if !okClass[in.id] {
				// the front end rejects it: both targets take the same path
				add(in, "representative", "native")
				continue
			}
			add(in, "representative", "native", "wasm")
		}
	}
	c.Count("proc_jobs", int64(len(jobs)))
	k.dbg("process stage: %d jobs", len(jobs))
	defer func() { k.dbg("process stage done") }()
	var skipped int64
	vl.ParDo(len(jobs), 16, func(i int) {
		if time.Now().After(deadline) {
			atomic.AddInt64(&skipped, 1)
			return
		}
		k.procOne(rn, jobs[i])
	})
	if skipped > 0 {
		c.Count("proc_jobs_skipped_by_budget", skipped)
		note("process-level stage")
	}
}

// lookup rebuilds the input of a failure record from its replay files.
func (k *chk) lookup(f failRec) *input {
	in := &input{id: strings.SplitN(f.id, "@", 2)[0], fam: "re", entry: "main.fer", files: map[string]string{}, ord: f.ord}
	for name, content := range f.files {
		if strings.HasPrefix(name, "proj/") {
			in.files[strings.TrimPrefix(name, "proj/")] = content
		}
	}
	for _, l := range strings.Split(f.files["layout.txt"], "\n") {
		if strings.HasPrefix(l, "directory: ") {
			in.dirs = append(in.dirs, strings.TrimPrefix(l, "directory: "))
		}
	}
	return in
}

func (k *chk) procOne(rn *run.Runner, j procJob) {
	c := k.c
	in := j.in
	compile := func() (run.Built, bool, bool, bool) {
		parent := rn.NewDir()
		dir := filepath.Join(parent, "proj")
		os.MkdirAll(dir, 0o755)
		for _, d := range in.dirs {
			os.MkdirAll(filepath.Join(dir, d), 0o755)
		}
		run.WriteFiles(dir, in.files)
		var b run.Built
		if j.target == "wasm" {
			b = rn.CompileWasm(dir, in.entry)
		} else {
			b = rn.CompileNative(dir, in.entry)
		}
		ex := func(n string) bool { _, err := os.Stat(filepath.Join(dir, n)); return err == nil }
		bin, wasm, gen := ex("out.bin"), ex("out.wasm"), ex("gen")
		os.RemoveAll(parent)
		return b, bin, wasm, gen
	}
	b, bin, wasm, gen := compile()
	atomic.AddInt64(&k.evals, 1)
	c.Count("proc_"+j.target+"_"+j.why, 1)
	suffix := "@proc-" + j.target
	p := b.Compile
	if p.StartErr != "" {
		fmt.Fprintln(os.Stderr, "cannot start ferret (not a verdict):", p.StartErr)
		os.Exit(2)
	}
	if p.Timeout {
		// R4: confirm alone, twice more
		n := 1
		for i := 0; i < 2; i++ {
			b, bin, wasm, gen = compile()
			p = b.Compile
			if p.Timeout {
				n++
			}
		}
		if n == 3 {
			c.Outcome("proc:" + j.target + ":TIMEOUT")
			k.fail("proc-hang", j.target, in, suffix, "ferret did not terminate (three runs of 120 s each were killed)")
			return
		}
		if p.Timeout {
			c.Count("proc_slow_not_judged", 1)
			return
		}
	}
	out := run.StripANSI(p.Stderr) + "\n" + run.StripANSI(p.Stdout)
	hdrs := reErrHdr.FindAllStringSubmatch(out, -1)
	hm := map[string]bool{}
	for _, h := range hdrs {
		code := strings.Trim(h[1], "[]")
		if code == "" {
			code = "<" + normMsg(h[2]) + ">"
		}
		hm[code] = true
	}
	var hl []string
	for h := range hm {
		hl = append(hl, h)
	}
	sort.Strings(hl)
	hcodes := strings.Join(hl, ",")
	exit0 := p.Exit == 0 && p.Signal == ""
	arte := bin
	if j.target == "wasm" {
		arte = wasm
	}
	if gen {
		c.Count("proc_gen_dir_left_behind(intermediate files, either)", 1)
	}
	desc := fmt.Sprintf("target=%s %s error-headers=[%s] out.bin=%v out.wasm=%v", j.target, p.Term(), hcodes, bin, wasm)
	c.Outcome(fmt.Sprintf("proc:%s:%s:%s:artefact=%v", j.target, p.Term(), map[bool]string{true: "E", false: "-"}[len(hdrs) > 0], bin || wasm))
	// a Go crash: a "panic:"/"fatal error:" line (possibly glued to a half-printed diagnostic)
	// followed by a goroutine dump
	goCrash := reGoPanic.MatchString(out) || ((strings.Contains(out, "panic: ") || strings.Contains(out, "fatal error: ")) && reGoroutine.MatchString(out))
	if p.Signal != "" || goCrash {
		// the topmost frame of the compiler; when that is one of the label builders of the
		// diagnostics package (WithLabel & co.), the caller that passed the bad location
		fr := "unknown"
		for _, m := range reFrame.FindAllStringSubmatch(out, -1) {
			f := shortFrame(m[1])
			if fr == "unknown" {
				fr = f
				if !strings.HasPrefix(f, "diagnostics.(*Diagnostic).With") {
					break
				}
			}
			if !strings.HasPrefix(f, "diagnostics.(*Diagnostic).With") {
				fr = f
				break
			}
		}
		first := ""
		if i := strings.Index(out, "panic: "); i >= 0 {
			first = out[i:]
			if j := strings.IndexByte(first, '\n'); j >= 0 {
				first = first[:j]
			}
		} else if m := reGoPanic.FindStringIndex(out); m != nil {
			first = out[m[0]:]
			if i := strings.IndexByte(first, '\n'); i >= 0 {
				first = first[:i]
			}
		}
		k.fail("proc-crash", fr, in, suffix, desc+"; internal crash: "+reHex.ReplaceAllString(first, "0x?")+" in "+fr)
		return
	}
	switch {
	case exit0 && len(hdrs) > 0:
		k.fail("proc-exit0-with-error", j.target, in, suffix, desc+": exit status 0 although error diagnostics were printed")
	case !exit0 && len(hdrs) == 0:
		t := strings.TrimSpace(out)
		switch {
		case strings.HasPrefix(t, "Invalid file path:") || strings.HasPrefix(t, "Failed to resolve path:"):
			c.Count("proc_entry_unusable_message_without_header(either)", 1)
		case t == "":
			k.fail("proc-silent-failure", j.target, in, suffix, desc+": non-zero exit status and nothing printed")
		default:
			k.fail("proc-failure-without-error", j.target, in, suffix, desc+": non-zero exit status but no error diagnostic was printed; first line: "+normLine(firstLine(t)))
		}
	}
	if !exit0 && (bin || wasm) {
		k.fail("proc-artefact-after-failure", j.target+"/"+hcodes, in, suffix, desc+": output artefact left behind after a failed compilation")
	}
	if exit0 && !arte && len(hdrs) == 0 {
		k.fail("proc-exit0-no-artefact", j.target+"/"+normMsg(reTemp.ReplaceAllString(firstLine(strings.TrimSpace(out)), "%v")), in, suffix,
			desc+": exit status 0 but no output artefact; first line printed: "+normLine(firstLine(strings.TrimSpace(out))))
	}
}

func firstLine(s string) string {
	if i := strings.IndexByte(s, '\n'); i >= 0 {
		return s[:i]
	}
	return s
}

func normLine(s string) string {
	s = rePath.ReplaceAllString(s, "<proj>")
	s = reAbs.ReplaceAllString(s, "<path>")
	if len(s) > 200 {
		s = s[:200]
	}
	return s
}
