// Package c02: the native (QBE) and the WebAssembly back ends agree.
// Every base program (reduced-alphabet C01 families) that both targets accept is run on
// both; stdout lines and termination kinds must be equal. Differential: no reference.
package c02

import (
	"math"
	"fmt"
	"os"
	"path/filepath"
	"strconv"
	"strings"

	"compiler/verifh/run"

	"compiler/verifh/c01"
	"compiler/verifh/fl"
	"compiler/verifh/prog"
	"compiler/verifh/vl"
)

// sameLine compares two printed lines; lines that parse as floats are compared as numbers.
func sameLine(a, b string) bool {
	if a == b {
		return true
	}
	fa, ea := strconv.ParseFloat(numText(a), 64)
	fb, eb := strconv.ParseFloat(numText(b), 64)
	if ea != nil || eb != nil {
		return false
	}
	if fa == fb || (math.IsNaN(fa) && math.IsNaN(fb)) {
		return true
	}
	// the native runtime prints 15 significant digits, the JS runtime the shortest text that
	// round-trips: the same number when they agree to 15 digits
	return strconv.FormatFloat(fa, 'g', 15, 64) == strconv.FormatFloat(fb, 'g', 15, 64) || math.Abs(fa-fb) <= 1e-14*math.Max(math.Abs(fa), math.Abs(fb))
}

// numText: the spellings of the non-finite values ("inf.0", "-nan.0", "Infinity") as ParseFloat
// knows them; the sign of a NaN is not a value.
func numText(s string) string {
	t := strings.TrimSuffix(s, ".0")
	switch strings.ToLower(strings.TrimLeft(t, "+-")) {
	case "nan":
		return "NaN"
	case "inf", "infinity":
		return strings.ReplaceAll(strings.ReplaceAll(t, "Infinity", "Inf"), "inf", "Inf")
	}
	return s
}

func agree(n, w prog.Obs) bool {
	if len(n.Lines) != len(w.Lines) {
		return false
	}
	for i := range n.Lines {
		if !sameLine(n.Lines[i], w.Lines[i]) {
			return false
		}
	}
	// termination: normal completion vs panic/trap
	kind := func(t string) string {
		switch {
		case t == "exit0":
			return "ok"
		case strings.HasPrefix(t, "panic:"):
			return t // same message expected
		case strings.HasPrefix(t, "trap:"), strings.HasPrefix(t, "signal:"):
			return "crash"
		}
		return t
	}
	return kind(n.Term) == kind(w.Term)
}

func Run(c *vl.Ctx) {
	quick := c.Quick()
	cases := append(c01.Bases(quick), c01.Small(quick)...)
	// operation sequences over one shared state, without the constructs the wasm back end rejects
	// (closures, results); quick: single operations and pairs, thorough: triples as well
	// (pairs in both tiers: every wasm program costs two process starts; the triples are C01's)
	cases = append(cases, c01.SeqWithout(true, "closure", "closure2", "catch", "catch-neg", "x=par(x)")...)
	if f := os.Getenv("VERIF_FILTER"); f != "" {
		var l []*prog.Case
		for _, k := range cases {
			if strings.Contains(k.ID, f) {
				l = append(l, k)
			}
		}
		cases = l
	}
	r := prog.New(c)
	nat := r.Observe(cases, "native", nil)
	was := r.Observe(cases, "wasm", nil)
	famCount := map[string]int{}
	for i, k := range cases {
		id := strings.Replace(k.ID, "C01/", "C02/", 1)
		fam := strings.SplitN(k.ID, "/", 3)[1]
		n, w := nat[i], was[i]
		if !n.Accepted || !w.Accepted {
			c.Outcome(fmt.Sprintf("outside-quantifier:native_accepts=%v wasm_accepts=%v", n.Accepted, w.Accepted))
			continue
		}
		if !agree(n, w) {
			if !n.Alone {
				n = r.ObserveAlone(k, "native")
			}
			if !w.Alone {
				w = r.ObserveAlone(k, "wasm")
			}
		}
		if !n.Accepted || !w.Accepted {
			c.Outcome("outside-quantifier:alone")
			continue
		}
		famCount[fam]++
		c.Distinct(id)
		if agree(n, w) {
			c.Outcome("agree:" + fam)
			continue
		}
		c.Outcome("disagree:" + fam)
		ref := "neither"
		if n.SameBehaviour(k.Want) {
			ref = "native"
		} else if w.SameBehaviour(k.Want) {
			ref = "wasm"
		}
		c.Fail(vl.Fail{Case: id, Obs: fmt.Sprintf("native: %s || wasm: %s", n, w),
			Files: map[string]string{"main.fer": fl.Render(k.P), "native.txt": n.String(), "wasm.txt": w.String(), "reference_agrees_with.txt": ref + "\n" + k.Want.String()}})
	}
	multiModule(c, r, famCount)
	for f, n := range famCount {
		c.Count("both_accept:"+f, int64(n))
	}
	for _, i := range []int{0, len(cases) / 2, len(cases) - 1} {
		if i >= 0 && i < len(cases) {
			c.Sample(map[string]string{"id": cases[i].ID, "program": fl.Render(cases[i].P)})
		}
	}
	r.Report()
	r.Close()
	c.Assume = append(c.Assume, "the quantifier is 'accepted by both targets': programs one back end rejects are counted per family, not judged",
		"a module the compiler produced with exit 0 but that cannot be instantiated with the shipped runtime.js counts as a disagreement (termination `invalid`)")
	c.Finish(vl.Coverage{Evaluations: int64(len(cases)), Exhaustive: true,
		Rule:  "reduced-alphabet C01 families (arith/cmp/cast/flow/enum/byvalue) plus the whole order/func/closure/result/ref/str/panic/unary families, each compiled for both targets; distinct_nontrivial = cases accepted by both",
		Bound: fmt.Sprintf("quick=%v", quick)})
}

// ---------------------------------------------------------------------------------
// multi-module projects: what a back end calls a function, a type or a constant of another
// module must keep two modules apart whatever their paths and names have in common.

func multiModule(c *vl.Ctx, r *prog.Runner, famCount map[string]int) {
	for _, mp := range append(c01.MultiProjects(), c01.FloatProjects()...) {
		if f := os.Getenv("VERIF_FILTER"); f != "" && !strings.Contains("C02/project/"+mp.ID, f) {
			continue
		}
		obs := map[string]prog.Obs{}
		for _, target := range []string{"native", "wasm"} {
			dir := filepath.Join(r.R.NewDir(), "proj")
			run.WriteFiles(dir, mp.Files)
			var o prog.Obs
			if target == "native" {
				b := r.R.RealCompileNative(dir, "main.fer")
				if !b.Compile.OK() || !b.Exists {
					o = prog.Obs{Reject: prog.CanonErr(b.Compile.Stderr + "\n" + b.Compile.Stdout)}
				} else {
					p := r.R.Exec(b)
					o = prog.Obs{Accepted: true, Lines: strings.Split(strings.TrimRight(p.Stdout, "\n"), "\n"), Term: "exit:" + fmt.Sprint(p.Exit)}
					if p.Exit == 0 && p.Signal == "" {
						o.Term = "exit0"
					}
				}
			} else {
				b := r.R.CompileWasm(dir, "main.fer")
				if !b.Compile.OK() || !b.Exists {
					o = prog.Obs{Reject: prog.CanonErr(b.Compile.Stderr + "\n" + b.Compile.Stdout)}
				} else {
					n := r.R.Node([]string{b.Artifact})[0]
					o = prog.Obs{Accepted: true, Lines: strings.Split(strings.TrimRight(n.Stdout, "\n"), "\n"), Term: "exit0"}
					if n.Kind != "ok" {
						o.Term = n.Kind + ":" + n.Message
					}
				}
			}
			obs[target] = o
			os.RemoveAll(filepath.Dir(dir))
		}
		n, w := obs["native"], obs["wasm"]
		id := "C02/project/" + mp.ID
		if !n.Accepted || !w.Accepted {
			c.Outcome(fmt.Sprintf("outside-quantifier:native_accepts=%v wasm_accepts=%v", n.Accepted, w.Accepted))
			c.Count("projects_outside_quantifier", 1)
			continue
		}
		famCount["project"]++
		c.Distinct(id)
		if agree(n, w) {
			c.Outcome("agree:project")
			continue
		}
		c.Outcome("disagree:project")
		files := map[string]string{"native.txt": n.String(), "wasm.txt": w.String()}
		for name, content := range mp.Files {
			files["proj/"+name] = content
		}
		c.Fail(vl.Fail{Case: id, Obs: fmt.Sprintf("native: %s || wasm: %s", n, w), Files: files})
	}
}
