// Package sched is Engine C's explorer: the worker side (runs inside the INSTRUMENTED binary
// `vsched`, built from the rewritten view of /repo) and the coordinator side (runs inside
// vcheck, builds the instrumented binary and shards the schedule tree over worker processes).
//
// Execution = two full in-process compiles of one project materialised on tmpfs, the first
// up to QBE IL (fe mode "il"), the second with the wasm back end (fe mode "wasm"), each on a
// managed main goroutine under the SAME schedule. (The schedule only has choice points in
// the concurrent discovery/parse phase, which does not depend on the back end; that the two
// traces coincide is checked on every execution and a mismatch is a hard error.)
package sched

import (
	"bufio"
	"crypto/sha256"
	"encoding/hex"
	"encoding/json"
	"fmt"
	"os"
	"path/filepath"
	"runtime/pprof"
	"sort"
	"strings"
	"syscall"
	"time"

	"compiler/internal/hir/analysis"
	"compiler/internal/utils"
	"compiler/verifh/fe"
	"compiler/verifh/vsync"
)

// Project is a multi-file project.
type Project struct {
	ID    string            `json:"id"`
	Files map[string]string `json:"files"`
	Entry string            `json:"entry"`
	// NoWasm skips the wasm half of every execution.
	NoWasm bool `json:"nowasm,omitempty"`
}

// Job is one request to a worker.
type Job struct {
	Op       string   `json:"op"` // root | explore | replay | free | first
	Proj     *Project `json:"proj"`
	RootSig  string   `json:"rootsig,omitempty"` // expected signature of the default trace (cross-worker R3)
	RootHash string   `json:"roothash,omitempty"`
	From     int      `json:"from"` // explore: children of the root at points [From,To)
	To       int      `json:"to"`
	Bound    int      `json:"bound"`
	MapBound int      `json:"mapbound"`           // bound on map-order deviations (vmap.Keys)
	NoSched  bool     `json:"nosched"`            // no branching on scheduling points (map deviations on the default schedule only)
	Deadline int64    `json:"deadline,omitempty"` // unix seconds; 0 = none
	Schedule []int    `json:"schedule,omitempty"` // replay: choices
	Runs     int      `json:"runs,omitempty"`     // free: repetitions
}

// Seen is one distinct observation found by a job.
type Seen struct {
	Hash     string `json:"hash"`
	N        int64  `json:"n"`
	Schedule []int  `json:"schedule"` // a cheapest schedule (fewest preemptions, then shortest) showing it
	Preempt  int    `json:"preempt"`
	Text     string `json:"text,omitempty"` // canonical observation (first time this worker sees it)
}

// Reply is a worker's answer.
type Reply struct {
	Err        string  `json:"err,omitempty"` // harness error (divergence, self-test failure): exit 2 upstream
	Complete   bool    `json:"complete"`
	Executions int64   `json:"executions"`
	Points     int64   `json:"points"` // choice points visited
	Steps      int64   `json:"steps"`  // scheduling decisions executed
	ByPreempt  []int64 `json:"bypreempt,omitempty"`
	Seen       []Seen  `json:"seen,omitempty"`
	// root
	RootSig   string `json:"rootsig,omitempty"`
	RootN     []int  `json:"rootn,omitempty"`   // options per choice point of the default schedule
	RootCur   []bool `json:"rootcur,omitempty"` // running goroutine enabled at that point
	RootMap   int    `json:"rootmap,omitempty"` // map-order choice points among them
	RootSteps int64  `json:"rootsteps,omitempty"`
	Gor       int    `json:"goroutines,omitempty"`
	CPUms     int64  `json:"cpums,omitempty"`
	// Nondet (set by the coordinator): the project's output varies between fresh processes
	// under the same schedule; it is reported, not explored
	Nondet bool `json:"nondet,omitempty"`
}

type workerState struct {
	dir, libs string
	proj      *Project
	projJSON  string
	root      *vsync.Result
	rootObs   string
	rootHash  string
	sent      map[string]bool
	maxSteps  int64
}

func scrub(s, dir string) string {
	return strings.ReplaceAll(s, dir, "$P")
}

func resetGlobals() {
	utils.VerifResetLiterals()
	analysis.VerifResetConstEval()
}

const secMark = "==# "

// obsText renders the canonical observation of one execution.
func obsText(dir string, a, b *fe.Result, ra, rb *vsync.Result, noWasm bool) string {
	var sb strings.Builder
	half := func(name string, r *fe.Result, vr *vsync.Result) {
		fmt.Fprintf(&sb, secMark+"status %s\n", name)
		fmt.Fprintf(&sb, "success=%v runerr=%q ilerr=%q panic=%q crash=%q\n", r.Success, r.RunErr, r.ILErr, r.Panic, r.Crash)
		ab := vr.Abort
		if ab != "" {
			ab += ": " + vr.AbortInfo
		}
		fmt.Fprintf(&sb, "abort=%q\n", ab)
		fmt.Fprintf(&sb, secMark+"diagnostics %s\n", name)
		for _, d := range r.Diags {
			fmt.Fprintf(&sb, "%s|%s|%s|%s|%d|%d\n", d.Sev, d.Code, d.Msg, d.File, d.Line, d.Col)
		}
		fmt.Fprintf(&sb, secMark+"counts %s\n", name)
		sb.WriteString(vsync.CountsText(vr.Counts))
	}
	half("il", a, ra)
	fmt.Fprintf(&sb, secMark+"il-order\n%s\n", strings.Join(a.ILOrder, " "))
	for _, m := range a.ILOrder {
		fmt.Fprintf(&sb, secMark+"il %s\n", m)
		sb.WriteString(a.IL[m])
		if !strings.HasSuffix(a.IL[m], "\n") {
			sb.WriteString("\n")
		}
	}
	if !noWasm {
		half("wasm", b, rb)
		fmt.Fprintf(&sb, secMark+"wasm\n")
		w := []byte(strings.ReplaceAll(string(b.Wasm), dir, strings.Repeat("P", len(dir))))
		h := sha256.Sum256(w)
		fmt.Fprintf(&sb, "len=%d sha256=%s ondisk=%v\n", len(w), hex.EncodeToString(h[:]), b.WasmOnDisk)
	}
	return scrub(sb.String(), dir)
}

func hashText(s string) string {
	h := sha256.Sum256([]byte(s))
	return hex.EncodeToString(h[:])[:16]
}

type execOut struct {
	res  *vsync.Result
	obs  string
	hash string
}

// execute runs one execution under the given schedule prefix.
func (w *workerState) execute(prefix []vsync.Choice) (*execOut, error) {
	var a, b fe.Result
	resetGlobals()
	ra := vsync.Run(prefix, w.maxSteps, func() {
		a = fe.Compile(w.dir, w.libs, &fe.Project{Files: w.proj.Files, Entry: w.proj.Entry, Mode: "il", NoRender: true})
	})
	if ra.Diverged != "" {
		return nil, fmt.Errorf("replay divergence (il half): %s", ra.Diverged)
	}
	rb := ra
	if !w.proj.NoWasm {
		resetGlobals()
		// the second half replays the complete trace of the first
		rb = vsync.Run(ra.Trace, w.maxSteps, func() {
			b = fe.Compile(w.dir, w.libs, &fe.Project{Files: w.proj.Files, Entry: w.proj.Entry, Mode: "wasm", NoRender: true})
		})
		if rb.Diverged != "" {
			return nil, fmt.Errorf("the wasm half does not follow the schedule of the il half: %s", rb.Diverged)
		}
		if len(rb.Trace) != len(ra.Trace) {
			return nil, fmt.Errorf("the wasm half has %d choice points, the il half %d", len(rb.Trace), len(ra.Trace))
		}
	}
	o := obsText(w.dir, &a, &b, ra, rb, w.proj.NoWasm)
	ra.Steps += 0
	return &execOut{res: ra, obs: o, hash: hashText(o)}, nil
}

func traceSig(t []vsync.Choice) string {
	h := sha256.New()
	for _, c := range t {
		fmt.Fprintf(h, "%d/%v/%v/%08x;", c.N, c.Cur, c.Map, c.Sig)
	}
	return hex.EncodeToString(h.Sum(nil))[:16]
}

// load switches the worker to a project: materialise, R3 self-test (default schedule twice).
func (w *workerState) load(p *Project) error {
	pj, _ := json.Marshal(p)
	if w.proj != nil && string(pj) == w.projJSON {
		return nil
	}
	w.proj, w.projJSON = p, string(pj)
	w.sent = map[string]bool{}
	w.maxSteps = 0
	e1, err := w.execute(nil)
	if err != nil {
		return err
	}
	w.maxSteps = e1.res.Steps*20 + 100000
	e2, err := w.execute(nil)
	if err != nil {
		return err
	}
	if e1.obs != e2.obs || traceSig(e1.res.Trace) != traceSig(e2.res.Trace) {
		return fmt.Errorf("R3 self-test failed for project %s: two runs of the default schedule differ (trace %s vs %s)\n--- first\n%s\n--- second\n%s",
			p.ID, traceSig(e1.res.Trace), traceSig(e2.res.Trace), e1.obs, e2.obs)
	}
	w.root, w.rootObs, w.rootHash = e1.res, e1.obs, e1.hash
	return nil
}

func cost(t []vsync.Choice) int {
	n := 0
	for _, c := range t {
		n += c.Cost() + c.MapCost()
	}
	return n
}

func choices(t []vsync.Choice) []int {
	// trailing zeros are implied
	n := len(t)
	for n > 0 && t[n-1].C == 0 {
		n--
	}
	out := make([]int, n)
	for i := 0; i < n; i++ {
		out[i] = t[i].C
	}
	return out
}

type agg struct {
	rep  Reply
	seen map[string]*Seen
}

func (a *agg) add(w *workerState, e *execOut, prefixLen int) {
	a.rep.Executions++
	a.rep.Points += int64(len(e.res.Trace))
	a.rep.Steps += e.res.Steps
	pc := cost(e.res.Trace)
	for len(a.rep.ByPreempt) <= pc {
		a.rep.ByPreempt = append(a.rep.ByPreempt, 0)
	}
	a.rep.ByPreempt[pc]++
	s := a.seen[e.hash]
	sch := choices(e.res.Trace)
	if s == nil {
		s = &Seen{Hash: e.hash, Schedule: sch, Preempt: pc}
		if !w.sent[e.hash] {
			s.Text = e.obs
			w.sent[e.hash] = true
		}
		a.seen[e.hash] = s
	} else if pc < s.Preempt || (pc == s.Preempt && len(sch) < len(s.Schedule)) {
		s.Schedule, s.Preempt = sch, pc
	}
	s.N++
}

func (a *agg) finish() *Reply {
	var ks []string
	for k := range a.seen {
		ks = append(ks, k)
	}
	sort.Strings(ks)
	for _, k := range ks {
		a.rep.Seen = append(a.rep.Seen, *a.seen[k])
	}
	return &a.rep
}

// children pushes the alternatives of trace t at points [from,to) (not below plen) whose
// preemption cost stays within bound and whose map-order deviations stay within mapBound.
func children(stack [][]vsync.Choice, t []vsync.Choice, plen, from, to, bound, mapBound int, noSched bool) [][]vsync.Choice {
	if from < plen {
		from = plen
	}
	if to > len(t) {
		to = len(t)
	}
	c, mc := 0, 0
	for i := 0; i < from && i < len(t); i++ {
		c += t[i].Cost()
		mc += t[i].MapCost()
	}
	for i := from; i < to; i++ {
		for alt := 1; alt < t[i].N; alt++ {
			if alt == t[i].C || (noSched && !t[i].Map) {
				continue
			}
			nc, nmc := c, mc
			if t[i].Map {
				nmc++
			} else if t[i].Cur {
				nc++
			}
			if nc > bound || nmc > mapBound {
				continue
			}
			p := make([]vsync.Choice, i+1)
			copy(p, t[:i])
			p[i] = t[i]
			p[i].C = alt
			stack = append(stack, p)
		}
		c += t[i].Cost()
		mc += t[i].MapCost()
	}
	return stack
}

// explore runs the DFS below the root's points [from,to).
func (w *workerState) explore(j *Job) (*Reply, error) {
	a := &agg{seen: map[string]*Seen{}}
	a.rep.Complete = true
	stack := children(nil, w.root.Trace, 0, j.From, j.To, j.Bound, j.MapBound, j.NoSched)
	n := 0
	for len(stack) > 0 {
		p := stack[len(stack)-1]
		stack = stack[:len(stack)-1]
		if j.Deadline != 0 && n%16 == 0 && time.Now().Unix() > j.Deadline {
			a.rep.Complete = false
			break
		}
		n++
		e, err := w.execute(p)
		if err != nil {
			return nil, fmt.Errorf("project %s schedule %v: %v", w.proj.ID, choices(p), err)
		}
		a.add(w, e, len(p))
		stack = children(stack, e.res.Trace, len(p), 0, 1<<30, j.Bound, j.MapBound, j.NoSched)
	}
	// shard epilogue (R3): the default schedule must still give the first observation
	e, err := w.execute(nil)
	if err != nil {
		return nil, err
	}
	if e.obs != w.rootObs {
		return nil, fmt.Errorf("R3: project %s: the default schedule no longer gives the first observation after %d executions (state leaked between executions)\n--- first\n%s\n--- now\n%s", w.proj.ID, n, w.rootObs, e.obs)
	}
	return a.finish(), nil
}

func (w *workerState) handle(j *Job) (rep *Reply) {
	var ru0 syscall.Rusage
	syscall.Getrusage(syscall.RUSAGE_SELF, &ru0)
	defer func() {
		var ru1 syscall.Rusage
		syscall.Getrusage(syscall.RUSAGE_SELF, &ru1)
		rep.CPUms = (ru1.Utime.Nano() + ru1.Stime.Nano() - ru0.Utime.Nano() - ru0.Stime.Nano()) / 1e6
	}()
	if j.Op == "free" {
		return w.free(j)
	}
	if j.Op == "first" {
		// one execution of the default schedule in this (fresh) process, no self-test: used by the
		// coordinator to tell a compiler whose output varies from run to run from state that
		// leaks between executions inside one worker
		pj, _ := json.Marshal(j.Proj)
		w.proj, w.projJSON = j.Proj, string(pj)+"#first"
		w.sent = map[string]bool{}
		w.maxSteps = 0
		e, err := w.execute(nil)
		if err != nil {
			return &Reply{Err: err.Error()}
		}
		return &Reply{Complete: true, Seen: []Seen{{Hash: e.hash, N: 1, Text: e.obs}}}
	}
	if err := w.load(j.Proj); err != nil {
		return &Reply{Err: err.Error()}
	}
	rs := traceSig(w.root.Trace)
	if j.RootSig != "" && (j.RootSig != rs || j.RootHash != w.rootHash) {
		return &Reply{Err: fmt.Sprintf("R3: project %s: this worker's default execution (trace %s obs %s) differs from the coordinator's (trace %s obs %s)\n%s", j.Proj.ID, rs, w.rootHash, j.RootSig, j.RootHash, w.rootObs)}
	}
	switch j.Op {
	case "root":
		a := &agg{seen: map[string]*Seen{}}
		a.add(w, &execOut{res: w.root, obs: w.rootObs, hash: w.rootHash}, 0)
		r := a.finish()
		r.Seen[0].Text = w.rootObs
		r.Complete = true
		r.RootSig = rs
		r.RootSteps = w.root.Steps
		r.Gor = w.root.Goroutines
		for _, c := range w.root.Trace {
			r.RootN = append(r.RootN, c.N)
			if c.Map {
				r.RootMap++
			}
			r.RootCur = append(r.RootCur, c.Cur)
		}
		return r
	case "explore":
		r, err := w.explore(j)
		if err != nil {
			return &Reply{Err: err.Error()}
		}
		return r
	case "replay":
		// choices only: N/Sig unknown (0 = unchecked), range still checked
		p := make([]vsync.Choice, len(j.Schedule))
		for i, c := range j.Schedule {
			p[i] = vsync.Choice{C: c}
		}
		// Cur is needed for nothing while replaying
		e, err := w.execute(p)
		if err != nil {
			return &Reply{Err: err.Error()}
		}
		a := &agg{seen: map[string]*Seen{}}
		a.add(w, e, len(p))
		r := a.finish()
		r.Seen[0].Text = e.obs
		r.Complete = true
		return r
	}
	return &Reply{Err: "unknown op " + j.Op}
}

// free runs the harness body without the scheduler (used by the -race build on the
// un-instrumented tree): Runs sequential compiles; reports the distinct observations.
func (w *workerState) free(j *Job) *Reply {
	w.proj = j.Proj
	a := &agg{seen: map[string]*Seen{}}
	for i := 0; i < j.Runs; i++ {
		resetGlobals()
		ra := fe.Compile(w.dir, w.libs, &fe.Project{Files: w.proj.Files, Entry: w.proj.Entry, Mode: "il", NoRender: true})
		var rb fe.Result
		if !w.proj.NoWasm {
			resetGlobals()
			rb = fe.Compile(w.dir, w.libs, &fe.Project{Files: w.proj.Files, Entry: w.proj.Entry, Mode: "wasm", NoRender: true})
		}
		empty := &vsync.Result{}
		o := obsText(w.dir, &ra, &rb, empty, empty, w.proj.NoWasm)
		h := hashText(o)
		a.rep.Executions++
		s := a.seen[h]
		if s == nil {
			s = &Seen{Hash: h, Text: o}
			a.seen[h] = s
		}
		s.N++
	}
	r := a.finish()
	r.Complete = true
	return r
}

// WorkerMain is the body of `vsched <dir> <libs>`: JSON jobs on stdin, JSON replies on a
// private copy of stdout (the compiler prints to stdout in places).
func WorkerMain(dir, libs string) {
	fd, err := syscall.Dup(1)
	if err != nil {
		panic(err)
	}
	syscall.Dup2(2, 1)
	out := bufio.NewWriterSize(os.NewFile(uintptr(fd), "results"), 1<<20)
	enc := json.NewEncoder(out)
	in := json.NewDecoder(bufio.NewReaderSize(os.Stdin, 1<<20))
	os.MkdirAll(filepath.Dir(dir), 0o755)
	if pf := os.Getenv("VSCHED_PROF"); pf != "" {
		f, _ := os.Create(pf)
		pprof.StartCPUProfile(f)
		defer pprof.StopCPUProfile()
	}
	w := &workerState{dir: dir, libs: libs}
	for {
		var j Job
		if err := in.Decode(&j); err != nil {
			return
		}
		r := w.handle(&j)
		enc.Encode(r)
		out.Flush()
		if r.Err != "" {
			if strings.HasPrefix(r.Err, "R3") {
				// the coordinator arbitrates (see Engine.arbitrate) and may go on: start afresh
				w = &workerState{dir: dir, libs: libs}
				continue
			}
			os.Exit(2)
		}
	}
}
