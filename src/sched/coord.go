package sched

// Coordinator side (runs inside vcheck): builds the instrumented binary from the CURRENT
// tree and shards schedule trees over worker processes.

import (
	"bufio"
	"bytes"
	"encoding/json"
	"fmt"
	"io"
	"os"
	"os/exec"
	"path/filepath"
	"sort"
	"strings"
	"sync"
	"time"

	"compiler/verifh/vl"
)

func broken(format string, a ...any) {
	fmt.Fprintf(os.Stderr, "Engine C harness error (not a verdict): "+format+"\n", a...)
	os.Exit(2)
}

type wproc struct {
	cmd *exec.Cmd
	in  io.WriteCloser
	enc *json.Encoder
	dec *json.Decoder
	err *bytes.Buffer
	dir string
}

// Engine is a pool of explorer workers on the instrumented binary.
type Engine struct {
	C       *vl.Ctx
	Bin     string
	Libs    string
	N       int
	Report  string // rewriter report
	free    chan *wproc
	all     []*wproc
	mu      sync.Mutex
	CPUms   int64
	started time.Time
	// Nondet: projects whose output varies between fresh processes under one schedule
	Nondet map[string]*NondetInfo
	arbMu  sync.Mutex
	arbSeq int
}

func run(dir string, env []string, name string, args ...string) (string, error) {
	cmd := exec.Command(name, args...)
	cmd.Dir = dir
	cmd.Env = append(os.Environ(), env...)
	b, err := cmd.CombinedOutput()
	return string(b), err
}

var goEnv = []string{"GOFLAGS=-mod=mod", "GOPROXY=off"}

// BuildInstrumented rewrites the current tree and builds $W/bin/vsched. Any failure is a
// harness error (exit 2).
func BuildInstrumented(c *vl.Ctx, maps bool) (bin, report string) {
	rw := filepath.Join(c.Dir, "bin", "rewriter")
	src := filepath.Join(c.Dir, "tools", "rewriter")
	// always rebuild the rewriter from its source (cheap; never a stale binary)
	rwLocal := filepath.Join(c.W, "bin", "rewriter")
	os.MkdirAll(filepath.Dir(rwLocal), 0o755)
	if out, err := run(src, []string{"GOFLAGS=-mod=mod", "GOPROXY=off", "GOTOOLCHAIN=local"}, "go", "build", "-o", rwLocal, "."); err != nil {
		if _, e2 := os.Stat(rw); e2 != nil {
			broken("cannot build the rewriter: %v\n%s", err, out)
		}
	} else {
		rw = rwLocal
	}
	rwDir := filepath.Join(c.W, "rw")
	os.RemoveAll(rwDir)
	frag := filepath.Join(c.W, "rw.json")
	args := []string{c.Repo, rwDir, frag}
	if maps {
		args = append([]string{"-maps"}, args...)
	}
	out, err := run(c.Dir, nil, rw, args...)
	if err != nil {
		broken("rewriter failed: %v\n%s", err, out)
	}
	report = out
	std := os.Getenv("VERIF_OVERLAY")
	merged := filepath.Join(c.W, "merged.json")
	if std == "" {
		broken("VERIF_OVERLAY is not set (run through ./check)")
	}
	if out, err := run(c.Dir, nil, "python3", filepath.Join(c.Dir, "tools", "mkoverlay.py"), filepath.Join(c.Dir, "src"), c.Repo, merged, frag); err != nil {
		broken("mkoverlay failed: %v\n%s", err, out)
	}
	bin = filepath.Join(c.W, "bin", "vsched")
	if out, err := run(c.Repo, goEnv, "go", "build", "-tags", "verif", "-overlay", merged, "-o", bin, "./verifh/schedmain"); err != nil {
		broken("cannot build the instrumented view of %s: %v\n%s", c.Repo, err, out)
	}
	return bin, report
}

// BuildFree builds the un-instrumented harness with the race detector ($W/bin/vfree).
func BuildFree(c *vl.Ctx) (string, error) {
	std := os.Getenv("VERIF_OVERLAY")
	bin := filepath.Join(c.W, "bin", "vfree")
	if out, err := run(c.Repo, append([]string{"CGO_ENABLED=1"}, goEnv...), "go", "build", "-race", "-tags", "verif", "-overlay", std, "-o", bin, "./verifh/schedmain"); err != nil {
		return "", fmt.Errorf("%v\n%s", err, out)
	}
	return bin, nil
}

// NewEngine builds the instrumented binary and prepares n workers.
func NewEngine(c *vl.Ctx, n int, maps bool) *Engine {
	bin, rep := BuildInstrumented(c, maps)
	e := &Engine{C: c, Bin: bin, Libs: filepath.Join(c.Repo, "ferret_libs"), N: n, Report: rep, free: make(chan *wproc, n), started: time.Now()}
	for i := 0; i < n; i++ {
		e.free <- e.spawn(bin, i, []string{"GOMAXPROCS=1"})
	}
	return e
}

func (e *Engine) spawn(bin string, i int, env []string) *wproc {
	dir := filepath.Join(e.C.W, "sched", fmt.Sprintf("w%02d", i), "proj")
	os.MkdirAll(filepath.Dir(dir), 0o755)
	cmd := exec.Command(bin, dir, e.Libs)
	cmd.Env = append(os.Environ(), env...)
	in, _ := cmd.StdinPipe()
	out, _ := cmd.StdoutPipe()
	eb := &bytes.Buffer{}
	cmd.Stderr = &capBuf{b: eb}
	if err := cmd.Start(); err != nil {
		broken("cannot start worker: %v", err)
	}
	w := &wproc{cmd: cmd, in: in, enc: json.NewEncoder(in), dec: json.NewDecoder(bufio.NewReaderSize(out, 1<<20)), err: eb, dir: dir}
	e.mu.Lock()
	e.all = append(e.all, w)
	e.mu.Unlock()
	return w
}

type capBuf struct {
	mu sync.Mutex
	b  *bytes.Buffer
}

func (c *capBuf) Write(p []byte) (int, error) {
	c.mu.Lock()
	defer c.mu.Unlock()
	if c.b.Len() < 1<<20 {
		c.b.Write(p)
	}
	return len(p), nil
}

func (e *Engine) Close() {
	e.mu.Lock()
	defer e.mu.Unlock()
	for _, w := range e.all {
		w.in.Close()
		w.cmd.Process.Kill()
		w.cmd.Wait()
	}
	e.all = nil
	os.RemoveAll(filepath.Join(e.C.W, "sched"))
}

// call sends one job; a worker error, death or a 15-minute silence is a harness error.
func (e *Engine) call(w *wproc, j *Job) *Reply {
	type rr struct {
		r   Reply
		err error
	}
	ch := make(chan rr, 1)
	go func() {
		if err := w.enc.Encode(j); err != nil {
			ch <- rr{err: err}
			return
		}
		var r Reply
		err := w.dec.Decode(&r)
		ch <- rr{r, err}
	}()
	select {
	case x := <-ch:
		if x.err != nil {
			w.cmd.Process.Kill()
			broken("worker died on job %s of project %s: %v\n%s", j.Op, j.Proj.ID, x.err, tail(w.err.String(), 4000))
		}
		if x.r.Err != "" {
			if strings.HasPrefix(x.r.Err, "R3") && j.Op != "first" && e.arbitrate(j.Proj, x.r.Err) {
				// the worker may hold half-loaded state of this project: forget it
				return &Reply{Nondet: true, Complete: true, Seen: []Seen{{Hash: "nondeterministic", N: 1, Text: "(output varies from run to run)"}}}
			}
			broken("%s", x.r.Err)
		}
		e.mu.Lock()
		e.CPUms += x.r.CPUms
		e.mu.Unlock()
		return &x.r
	case <-time.After(15 * time.Minute):
		w.cmd.Process.Kill()
		pj, _ := json.Marshal(j)
		broken("worker silent for 15 minutes on job %s", tail(string(pj), 3000))
	}
	return nil
}

func tail(s string, n int) string {
	if len(s) > n {
		return "..." + s[len(s)-n:]
	}
	return s
}

// NondetInfo: two observations of the default schedule made by two fresh processes.
type NondetInfo struct {
	Proj   *Project
	A, B   string
	Runs   int
	Reason string
}

// arbitrate is called when a worker reports that the same schedule gave two different
// observations (R3). That is either the compiler under test (its output depends on something
// the scheduler does not own: map iteration at a site that is not hooked, addresses, time) or
// state that leaks from one execution to the next inside a worker process - which a user,
// who starts a fresh process per compilation, never sees. Eight fresh processes each run the
// default schedule once: if their observations differ the project is recorded as
// nondeterministic (a C14 violation, reported by the check); if they all agree it is the
// harness, and the caller aborts with exit 2.
func (e *Engine) arbitrate(p *Project, reason string) bool {
	e.arbMu.Lock()
	defer e.arbMu.Unlock()
	if e.Nondet == nil {
		e.Nondet = map[string]*NondetInfo{}
	}
	if _, ok := e.Nondet[p.ID]; ok {
		return true
	}
	var first string
	for i := 0; i < 8; i++ {
		e.mu.Lock()
		e.arbSeq++
		n := 1000 + e.arbSeq
		e.mu.Unlock()
		w := e.spawn(e.Bin, n, []string{"GOMAXPROCS=1"})
		r := e.call(w, &Job{Op: "first", Proj: p})
		w.in.Close()
		w.cmd.Process.Kill()
		w.cmd.Wait()
		if len(r.Seen) == 0 {
			return false
		}
		if i == 0 {
			first = r.Seen[0].Text
			continue
		}
		if r.Seen[0].Text != first {
			e.Nondet[p.ID] = &NondetInfo{Proj: p, A: first, B: r.Seen[0].Text, Runs: i + 1, Reason: reason}
			return true
		}
	}
	return false
}

// Do runs one job on a free worker.
func (e *Engine) Do(j *Job) *Reply {
	w := <-e.free
	r := e.call(w, j)
	e.free <- w
	return r
}

// Task is one project to explore up to a preemption bound.
type Task struct {
	Proj     *Project
	Bound    int  // preemption bound
	MapBound int  // bound on map-order deviations
	NoSched  bool // no branching on scheduling points (map deviations on the default schedule)
}

// ObsInfo is one distinct observation of a project.
type ObsInfo struct {
	Hash     string
	N        int64
	Schedule []int
	Preempt  int
	Text     string
}

// ProjResult aggregates the exploration of one project.
type ProjResult struct {
	Task       Task
	Complete   bool
	Executions int64
	Points     int64
	Steps      int64
	ByPreempt  []int64
	RootHash   string
	RootSig    string
	RootPoints int
	RootMap    int
	RootSteps  int64
	Goroutines int
	Obs        map[string]*ObsInfo
	CPUms      int64
	Nondet     bool // see Engine.Nondet
	mu         sync.Mutex
}

func (p *ProjResult) merge(r *Reply) {
	p.mu.Lock()
	defer p.mu.Unlock()
	p.Executions += r.Executions
	p.Points += r.Points
	p.Steps += r.Steps
	p.CPUms += r.CPUms
	for i, n := range r.ByPreempt {
		for len(p.ByPreempt) <= i {
			p.ByPreempt = append(p.ByPreempt, 0)
		}
		p.ByPreempt[i] += n
	}
	if !r.Complete {
		p.Complete = false
	}
	for _, s := range r.Seen {
		o := p.Obs[s.Hash]
		if o == nil {
			o = &ObsInfo{Hash: s.Hash, Schedule: s.Schedule, Preempt: s.Preempt}
			p.Obs[s.Hash] = o
		} else if s.Preempt < o.Preempt || (s.Preempt == o.Preempt && lessSched(s.Schedule, o.Schedule)) {
			o.Schedule, o.Preempt = s.Schedule, s.Preempt
		}
		if o.Text == "" {
			o.Text = s.Text
		}
		o.N += s.N
	}
}

func lessSched(a, b []int) bool {
	if len(a) != len(b) {
		return len(a) < len(b)
	}
	for i := range a {
		if a[i] != b[i] {
			return a[i] < b[i]
		}
	}
	return false
}

// Hashes returns the observation hashes, the default one first, then by (preempt, schedule).
func (p *ProjResult) Hashes() []string {
	var hs []string
	for h := range p.Obs {
		if h != p.RootHash {
			hs = append(hs, h)
		}
	}
	sort.Slice(hs, func(i, j int) bool {
		a, b := p.Obs[hs[i]], p.Obs[hs[j]]
		if a.Preempt != b.Preempt {
			return a.Preempt < b.Preempt
		}
		if lessSched(a.Schedule, b.Schedule) != lessSched(b.Schedule, a.Schedule) {
			return lessSched(a.Schedule, b.Schedule)
		}
		return hs[i] < hs[j]
	})
	return append([]string{p.RootHash}, hs...)
}

// Explore explores every task; tasks are started in order (simplest first) and a task that
// cannot be finished before the deadline is reported Complete=false.
func (e *Engine) Explore(tasks []Task, deadline time.Time) []*ProjResult {
	res := make([]*ProjResult, len(tasks))
	// phase 1: roots
	vl.ParDo(len(tasks), e.N, func(i int) {
		t := tasks[i]
		r := e.Do(&Job{Op: "root", Proj: t.Proj})
		p := &ProjResult{Task: t, Complete: true, Obs: map[string]*ObsInfo{}}
		p.Nondet = r.Nondet
		p.RootSig, p.RootPoints, p.RootSteps, p.Goroutines, p.RootMap = r.RootSig, len(r.RootN), r.RootSteps, r.Gor, r.RootMap
		p.RootHash = r.Seen[0].Hash
		p.merge(r)
		res[i] = p
	})
	// phase 2: chunks of root points
	type job struct {
		i int
		j *Job
	}
	var jobs []job
	var dl int64
	if !deadline.IsZero() {
		dl = deadline.Unix()
	}
	for i, t := range tasks {
		k := res[i].RootPoints
		step := 4
		if t.Bound >= 2 {
			step = 1
		}
		for f := 0; f < k; f += step {
			jobs = append(jobs, job{i, &Job{Op: "explore", Proj: t.Proj, RootSig: res[i].RootSig, RootHash: res[i].RootHash, From: f, To: f + step, Bound: t.Bound, MapBound: t.MapBound, NoSched: t.NoSched, Deadline: dl}})
		}
	}
	vl.ParDo(len(jobs), e.N, func(n int) {
		jb := jobs[n]
		if dl != 0 && time.Now().Unix() > dl {
			res[jb.i].mu.Lock()
			res[jb.i].Complete = false
			res[jb.i].mu.Unlock()
			return
		}
		r := e.Do(jb.j)
		res[jb.i].merge(r)
	})
	return res
}

// Replay runs one schedule and returns the canonical observation.
func (e *Engine) Replay(p *Project, schedule []int) string {
	r := e.Do(&Job{Op: "replay", Proj: p, Schedule: schedule})
	return r.Seen[0].Text
}

// Sections splits a canonical observation into its sections (header -> body).
func Sections(text string) (order []string, sec map[string]string) {
	sec = map[string]string{}
	cur := ""
	for _, l := range strings.SplitAfter(text, "\n") {
		if strings.HasPrefix(l, secMark) {
			cur = strings.TrimSpace(l[len(secMark):])
			order = append(order, cur)
			sec[cur] = ""
			continue
		}
		sec[cur] += l
	}
	return
}

// DiffSections lists the sections in which two observations differ.
func DiffSections(a, b string) []string {
	oa, sa := Sections(a)
	ob, sb := Sections(b)
	seen := map[string]bool{}
	var d []string
	for _, k := range append(oa, ob...) {
		if seen[k] {
			continue
		}
		seen[k] = true
		if sa[k] != sb[k] {
			d = append(d, k)
		}
	}
	return d
}

// FirstDiff renders the first differing line of two texts.
func FirstDiff(a, b string) string {
	la, lb := strings.Split(a, "\n"), strings.Split(b, "\n")
	for i := 0; i < len(la) || i < len(lb); i++ {
		x, y := "<end>", "<end>"
		if i < len(la) {
			x = la[i]
		}
		if i < len(lb) {
			y = lb[i]
		}
		if x != y {
			return fmt.Sprintf("line %d: %q vs %q", i+1, strings.TrimSpace(x), strings.TrimSpace(y))
		}
	}
	return "(equal)"
}
