// Command check dispatches ./check <Cnn> <tier>.
package main

import (
	"fmt"
	"os"

	"compiler/verifh/c20"
	"compiler/verifh/vl"
)

var checks = map[string]func(*vl.Ctx){
	"C20": c20.Run,
}

func main() {
	if len(os.Args) < 3 {
		fmt.Fprintln(os.Stderr, "usage: check <Cnn> quick|thorough|triage")
		os.Exit(2)
	}
	prop, tier := os.Args[1], os.Args[2]
	f, ok := checks[prop]
	if !ok {
		fmt.Fprintln(os.Stderr, "unknown property", prop)
		os.Exit(2)
	}
	f(vl.Begin(prop, tier))
}
