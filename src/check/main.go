// Command check dispatches ./check <Cnn> <tier>.
package main

import (
	"encoding/json"
	"fmt"
	"os"
	"sync"
	"time"

	"compiler/verifh/c01"
	"compiler/verifh/c02"
	"compiler/verifh/c03"
	"compiler/verifh/c04"
	"compiler/verifh/c05"
	"compiler/verifh/c06"
	"compiler/verifh/c07"
	"compiler/verifh/c08"
	"compiler/verifh/c09"
	"compiler/verifh/c10"
	"compiler/verifh/c11"
	"compiler/verifh/c12"
	"compiler/verifh/c13"
	"compiler/verifh/c14"
	"compiler/verifh/c15"
	"compiler/verifh/c16"
	"compiler/verifh/c17"
	"compiler/verifh/c18"
	"compiler/verifh/c19"
	"compiler/verifh/c20"
	"compiler/verifh/fe"
	"compiler/verifh/vl"
)

var checks = map[string]func(*vl.Ctx){
	"C01": c01.Run,
	"C02": c02.Run,
	"C03": c03.Run,
	"C04": c04.Run,
	"C05": c05.Run,
	"C06": c06.Run,
	"C07": c07.Run,
	"C08": c08.Run,
	"C09": c09.Run,
	"C10": c10.Run,
	"C11": c11.Run,
	"C12": c12.Run,
	"C13": c13.Run,
	"C14": c14.Run,
	"C15": c15.Run,
	"C16": c16.Run,
	"C17": c17.Run,
	"C18": c18.Run,
	"C19": c19.Run,
	"C20": c20.Run,
}

func main() {
	if len(os.Args) >= 4 && os.Args[1] == "worker-fe" {
		fe.WorkerMain(os.Args[2], os.Args[3])
		return
	}
	if len(os.Args) >= 4 && os.Args[1] == "probe" {
		// probe <file.fer> <mode>: compile one file in-process, print the structured result
		b, err := os.ReadFile(os.Args[2])
		if err != nil {
			panic(err)
		}
		d, _ := os.MkdirTemp("/dev/shm", "probe")
		defer os.RemoveAll(d)
		r := fe.Compile(d+"/proj", os.Getenv("VERIF_REPO")+"/ferret_libs", &fe.Project{Files: map[string]string{"main.fer": string(b)}, Entry: "main.fer", Mode: os.Args[3]})
		r.Wasm = nil
		j, _ := json.MarshalIndent(r, "", " ")
		fmt.Println(string(j))
		return
	}
	if len(os.Args) >= 5 && os.Args[1] == "bench-native" {
		benchNative(os.Args[2], os.Args[3], os.Args[4])
		return
	}
	if len(os.Args) < 3 {
		fmt.Fprintln(os.Stderr, "usage: check <Cnn> quick|thorough|triage")
		os.Exit(2)
	}
	prop, tier := os.Args[1], os.Args[2]
	f, ok := checks[prop]
	if !ok {
		fmt.Fprintln(os.Stderr, "unknown property", prop)
		os.Exit(2)
	}
	f(vl.Begin(prop, tier))
}

// benchNative <file.fer> <n> <workers>: throughput of the in-process native pipeline.
func benchNative(file, ns, ws string) {
	b, err := os.ReadFile(file)
	if err != nil {
		panic(err)
	}
	var n, w int
	fmt.Sscan(ns, &n)
	fmt.Sscan(ws, &w)
	c := vl.Begin("C01", "quick")
	libs := c.BuildRuntime()
	os.Setenv("FERRET_LIBS_PATH", libs)
	pool := fe.NewPool(c.W, libs, w)
	t0 := time.Now()
	okc := int64(0)
	var mu sync.Mutex
	pool.Map(n, func(i int) *fe.Project {
		return &fe.Project{Files: map[string]string{"main.fer": string(b)}, Entry: "main.fer", Mode: "native", NoRender: true}
	}, func(i int, r *fe.Result) {
		mu.Lock()
		if r.ExeOnDisk {
			okc++
		} else if okc == 0 {
			fmt.Println("no exe:", r.Success, r.Panic, r.RunErr, r.Crash, r.ErrSummary())
		}
		mu.Unlock()
	})
	pool.Close()
	d := time.Since(t0)
	fmt.Printf("%d compiles, %d with exe, %d workers: %.2fs = %.1f/s\n", n, okc, w, d.Seconds(), float64(n)/d.Seconds())
}
