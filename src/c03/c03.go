// Package c03: statically ill-typed programs are rejected.
//
// Bounded-exhaustive product  rule class x variant (operator / form / type variation) x
// syntactic context chain.  Every ill-typed program (MUTANT, exactly one violation of a rule the
// property names) has a CONTROL twin that differs in one place and must be accepted.
// Case ids: C03/<rule>/<form>/<types>/<chain>  (chain = contexts innermost first, joined by '+';
// "let" / "stmt" = base context), controls: .../control.
//
// Oracle.  control: the front end reports no error.  mutant: front end Success==false with >=1
// error diagnostic.  The real `ferret` binary is the authority: it is run
//
//	(a) for the first front-end-rejected mutant of every (rule class, depth-1 context) pair - it
//	    must exit != 0 and leave no file at the -o path;
//	(b) for the mutants the front end does NOT reject: all of them at depth 0, and per class
//	    (rule, form, chain) [depth 2: (rule, chain)] in order until one is confirmed as compiled
//	    (at most three attempts per class).
//
// A mutant fails only when the real binary exits 0 or leaves a file at the -o path.  Three
// outcomes are counted and not judged ("either"): the compiler crashes on the mutant and no
// executable results (C13 owns crashes); the binary exits 0 without an executable and the
// control twin fares no better (the back end cannot build that context at all); members of a
// class after its confirmed witness.
//
// Deviations from DESIGN.md "### C03" (because of what the real compiler accepts):
//   - The in-process front end runs through MIR generation, which cannot lower `(lit as T).F`,
//     `(arr as [N]T)[0]` or module-level variables ("MIR lowering unsupported").  The contexts
//     "struct-literal field value" and "array-literal element" are therefore statement sinks
//     (`let b := { .F = E } as Box_T;`, `let a: [2]T = [E, z];`) and every operand is a call of a
//     generated module-level function (`g_i32()`), never a module-level variable.
//   - Contexts added beyond the 22 of the design: coalescing default (`o ?? E`), right operand of
//     a binary expression, typed struct literal, if/else/while/for bodies.  `**` has result type
//     f64 whatever the operands are, so a `**` case is placed where f64 is wanted.
//   - Rules whose violation exists only at a type-demanding position (implicit narrowing,
//     float->int, T? where T is required, too many initialisers, typed struct literals) are only
//     placed directly in demanding contexts (let, assignment, argument, return, field, element,
//     catch fallback); elsewhere they appear behind the default `let v: T = E;` sink.
//   - Quick: every variant in the base context + the core variants in every depth-1 context.
//     Thorough: every variant at depth <= 1 + the core variants in every depth-2 chain.
//   - Comparisons between different numeric types are not part of the property: they are
//     enumerated in the base context, counted in the evidence and never judged.
//   - The coalescing context is not used for array-typed fragments (`[2]T? ?? [2]T` is not
//     unwrapped by this compiler, the control would be rejected).
package c03

import (
	"fmt"
	"os"
	"path/filepath"
	"regexp"
	"sort"
	"strconv"
	"strings"
	"sync"
	"time"

	"compiler/verifh/fe"
	"compiler/verifh/run"
	"compiler/verifh/vl"
)

// ---------------------------------------------------------------------------------
// types and generated helper declarations

var arrRe = regexp.MustCompile(`^A(\d+)_(.+)$`)
var arrTy = regexp.MustCompile(`^\[(\d+)\](.+)$`)

// safe turns a type into an identifier fragment: "[2]i32" -> "A2_i32", "[]i32" -> "Dy_i32",
// "i32?" -> "Op_i32", "map[str]i32" -> "Mp_i32", "str ! i32" -> "Rs_i32".
func safe(t string) string {
	if m := arrTy.FindStringSubmatch(t); m != nil {
		return "A" + m[1] + "_" + safe(m[2])
	}
	switch {
	case strings.HasPrefix(t, "[]"):
		return "Dy_" + safe(t[2:])
	case strings.HasPrefix(t, "map[str]"):
		return "Mp_" + safe(t[8:])
	case strings.HasPrefix(t, "str ! "):
		return "Rs_" + safe(t[6:])
	case strings.HasSuffix(t, "?"):
		return "Op_" + safe(t[:len(t)-1])
	}
	return t
}

func unsafeT(s string) string {
	if m := arrRe.FindStringSubmatch(s); m != nil {
		return "[" + m[1] + "]" + unsafeT(m[2])
	}
	switch {
	case strings.HasPrefix(s, "Dy_"):
		return "[]" + unsafeT(s[3:])
	case strings.HasPrefix(s, "Mp_"):
		return "map[str]" + unsafeT(s[3:])
	case strings.HasPrefix(s, "Rs_"):
		return "str ! " + unsafeT(s[3:])
	case strings.HasPrefix(s, "Op_"):
		return unsafeT(s[3:]) + "?"
	}
	return s
}

func isInt(t string) bool {
	switch t {
	case "i8", "i16", "i32", "i64", "u8", "u16", "u32", "u64":
		return true
	}
	return false
}
func isFloat(t string) bool { return t == "f32" || t == "f64" }
func isNum(t string) bool   { return isInt(t) || isFloat(t) }

// g is the canonical well-typed expression of type t: a call of a generated function.
func g(t string) string { return "g_" + safe(t) + "()" }

func value(t string) string {
	switch {
	case isInt(t):
		return "1"
	case isFloat(t):
		return "1.5"
	case t == "str":
		return `"s"`
	case t == "bool":
		return "true"
	case t == "Mt" || t == "Ft":
		return "1"
	case t == "Kg":
		return "1.5"
	case t == "Pt":
		return "{ .X = 1 } as Pt"
	case t == "En":
		return "En::A"
	case strings.HasPrefix(t, "Box_"):
		return "{ .F = " + g(unsafeT(t[4:])) + " } as " + t
	case strings.HasPrefix(t, "Two_"):
		u := unsafeT(t[4:])
		return "{ .A = " + g(u) + ", .B = " + g(u) + " } as " + t
	}
	if m := arrTy.FindStringSubmatch(t); m != nil {
		n, _ := strconv.Atoi(m[1])
		var el []string
		for i := 0; i < n; i++ {
			el = append(el, g(m[2]))
		}
		return "[" + strings.Join(el, ", ") + "]"
	}
	switch {
	case strings.HasPrefix(t, "[]"):
		return "[" + g(t[2:]) + ", " + g(t[2:]) + "]"
	case strings.HasPrefix(t, "map[str]"):
		return "{ \"k\" => " + g(t[8:]) + " } as " + t
	case strings.HasPrefix(t, "str ! "):
		return g(t[6:])
	case strings.HasSuffix(t, "?"):
		return g(t[:len(t)-1])
	}
	panic("value: " + t)
}

// declFor returns the declaration a helper identifier stands for.
func declFor(id string) (string, bool) {
	switch id {
	case "Mt":
		return "type Mt i32;", true
	case "Ft":
		return "type Ft i32;", true
	case "Kg":
		return "type Kg f64;", true
	case "Pt":
		return "type Pt struct { .X: i32 };", true
	case "En":
		return "type En enum { A, B };", true
	case "g_arr":
		return "fn g_arr() -> []i32 { return [1, 2, 3]; }", true
	}
	cut := func(p string) (string, string, bool) {
		if strings.HasPrefix(id, p) && len(id) > len(p) {
			s := id[len(p):]
			return s, unsafeT(s), true
		}
		return "", "", false
	}
	if s, t, ok := cut("gopt_"); ok {
		return fmt.Sprintf("fn gopt_%s() -> %s? { return g_%s(); }", s, t, s), true
	}
	if s, t, ok := cut("g_"); ok {
		return fmt.Sprintf("fn g_%s() -> %s { return %s; }", s, t, value(t)), true
	}
	if s, t, ok := cut("id_"); ok {
		return fmt.Sprintf("fn id_%s(v: %s) -> %s { return v; }", s, t, t), true
	}
	if s, t, ok := cut("two_"); ok {
		return fmt.Sprintf("fn two_%s(a: %s, b: %s) -> %s { return a; }", s, t, t, t), true
	}
	if s, t, ok := cut("mres0_"); ok {
		return fmt.Sprintf("fn (p: Pt) mres0_%s() -> str ! %s { return g_%s(); }", s, t, s), true
	}
	if s, t, ok := cut("res0_"); ok {
		return fmt.Sprintf("fn res0_%s() -> str ! %s { return g_%s(); }", s, t, s), true
	}
	if s, t, ok := cut("res2_"); ok {
		return fmt.Sprintf("fn res2_%s(v: i32, w: str) -> str ! %s { if v == 0 { return w!; } return g_%s(); }", s, t, s), true
	}
	if s, t, ok := cut("mres_"); ok {
		return fmt.Sprintf("fn (p: Pt) mres_%s(v: i32) -> str ! %s { if v == 0 { return \"z\"!; } return g_%s(); }", s, t, s), true
	}
	if s, t, ok := cut("res_"); ok {
		return fmt.Sprintf("fn res_%s(v: i32) -> str ! %s { if v == 0 { return \"z\"!; } return g_%s(); }", s, t, s), true
	}
	if s, t, ok := cut("m_"); ok {
		return fmt.Sprintf("fn (p: Pt) m_%s(v: %s) -> %s { return v; }", s, t, t), true
	}
	if s, t, ok := cut("take_"); ok {
		return fmt.Sprintf("fn take_%s(v: %s) { }", s, t), true
	}
	if s, t, ok := cut("vd_"); ok {
		return fmt.Sprintf("fn vd_%s(v: %s) { }", s, t), true
	}
	if s, t, ok := cut("Box_"); ok {
		return fmt.Sprintf("type Box_%s struct { .F: %s };", s, t), true
	}
	if s, t, ok := cut("Two_"); ok {
		return fmt.Sprintf("type Two_%s struct { .A: %s, .B: %s };", s, t, t), true
	}
	return "", false
}

var identRe = regexp.MustCompile(`[A-Za-z_][A-Za-z0-9_]*`)

// assemble prepends exactly the helper declarations the host text (transitively) mentions;
// a declaration follows the declarations it depends on (struct field types are resolved in
// source order by the compiler).
func assemble(host string) string {
	seen := map[string]bool{}
	var types, funcs []string
	var visit func(txt string)
	visit = func(txt string) {
		for _, id := range identRe.FindAllString(txt, -1) {
			if seen[id] {
				continue
			}
			seen[id] = true
			if d, ok := declFor(id); ok {
				visit(d)
				if strings.HasPrefix(d, "type ") {
					types = append(types, d)
				} else {
					funcs = append(funcs, d)
				}
			}
		}
	}
	visit(host)
	var b strings.Builder
	for _, d := range types {
		b.WriteString(d + "\n")
	}
	for _, d := range funcs {
		b.WriteString(d + "\n")
	}
	b.WriteString(host)
	if !strings.HasSuffix(host, "\n") {
		b.WriteString("\n")
	}
	b.WriteString("fn main() { }\n")
	return b.String()
}

// ---------------------------------------------------------------------------------
// fragments and contexts

type frag struct {
	stmt   bool
	text   string
	typ    string // expression: its type (the type the position must demand when demand is set)
	demand bool   // the violation exists only where a position demands typ
	ret    string // statement: return type the enclosing function must have ("" = none needed)
	term   bool   // statement ends in a return: nothing may follow in its block
	tail   bool   // the violation exists only when the statement ends a function body
	pre    string // statements that must open the innermost enclosing function body
}

const (
	kEE   = iota // expression -> expression
	kES          // expression -> statement
	kSS          // statement -> statement
	kHost        // statement -> top-level declaration
)

type cx struct {
	name   string
	kind   int
	dem    bool // puts the hole where its type is demanded
	transp bool // passes a demand through
	f      func(fr frag, d int) (frag, bool)
}

func ee(fr frag, text, typ string) (frag, bool) {
	return frag{text: text, typ: typ, pre: fr.pre}, true
}
func es(fr frag, text string) (frag, bool) {
	return frag{stmt: true, text: text, pre: fr.pre}, true
}

// cond turns an expression into a condition without a second violation.
func cond(fr frag) (string, bool) {
	t := fr.typ
	switch {
	case t == "bool":
		return fr.text, true
	case isNum(t) || t == "str" || t == "En" || t == "Pt" || strings.HasPrefix(t, "Box_") || strings.HasPrefix(t, "Two_"):
		return fr.text + " == " + g(t), true
	}
	return "", false
}

// body closes a function body around a statement fragment.
func body(fr frag) (sig, text string) {
	text = fr.pre
	if text != "" {
		text += " "
	}
	text += fr.text
	if fr.ret != "" {
		sig = " -> " + fr.ret
		if !fr.term {
			text += " return " + g(fr.ret) + ";"
		}
	}
	return
}

var ctxLet = &cx{name: "let", kind: kES, dem: true, f: func(fr frag, d int) (frag, bool) {
	return es(fr, fmt.Sprintf("let v%d: %s = %s;", d, fr.typ, fr.text))
}}

var hostFn = &cx{name: "fn", kind: kHost, f: func(fr frag, d int) (frag, bool) {
	sig, b := body(fr)
	return frag{stmt: true, text: fmt.Sprintf("fn host()%s { %s }\n", sig, b)}, true
}}

var contexts = []*cx{
	// ---- expression -> expression
	{name: "paren", kind: kEE, transp: true, f: func(fr frag, d int) (frag, bool) {
		r, _ := ee(fr, "("+fr.text+")", fr.typ)
		r.demand = fr.demand
		return r, true
	}},
	{name: "binopl", kind: kEE, f: func(fr frag, d int) (frag, bool) {
		switch {
		case isNum(fr.typ) || fr.typ == "str":
			return ee(fr, "("+fr.text+" + "+g(fr.typ)+")", fr.typ)
		case fr.typ == "bool":
			return ee(fr, "("+fr.text+" && "+g("bool")+")", "bool")
		}
		return fr, false
	}},
	{name: "binopr", kind: kEE, f: func(fr frag, d int) (frag, bool) {
		switch {
		case isNum(fr.typ) || fr.typ == "str":
			return ee(fr, "("+g(fr.typ)+" + "+fr.text+")", fr.typ)
		case fr.typ == "bool":
			return ee(fr, "("+g("bool")+" || "+fr.text+")", "bool")
		}
		return fr, false
	}},
	{name: "callarg", kind: kEE, dem: true, f: func(fr frag, d int) (frag, bool) {
		return ee(fr, "id_"+safe(fr.typ)+"("+fr.text+")", fr.typ)
	}},
	{name: "nestedarg", kind: kEE, dem: true, f: func(fr frag, d int) (frag, bool) {
		s := safe(fr.typ)
		return ee(fr, "id_"+s+"(id_"+s+"("+fr.text+"))", fr.typ)
	}},
	{name: "methodarg", kind: kEE, dem: true, f: func(fr frag, d int) (frag, bool) {
		return ee(fr, "g_Pt().m_"+safe(fr.typ)+"("+fr.text+")", fr.typ)
	}},
	{name: "fallback", kind: kEE, dem: true, f: func(fr frag, d int) (frag, bool) {
		return ee(fr, "(res_"+safe(fr.typ)+"(1) catch ("+fr.text+"))", fr.typ)
	}},
	{name: "coalesce", kind: kEE, f: func(fr frag, d int) (frag, bool) {
		if strings.HasPrefix(fr.typ, "[") {
			return fr, false // `T? ?? T` is not unwrapped for array types by this compiler
		}
		return ee(fr, "(gopt_"+safe(fr.typ)+"() ?? "+fr.text+")", fr.typ)
	}},
	{name: "index", kind: kEE, f: func(fr frag, d int) (frag, bool) {
		if fr.typ != "i32" {
			return fr, false
		}
		return ee(fr, "g_arr()["+fr.text+"]", "i32")
	}},
	// ---- expression -> statement
	{name: "letinfer", kind: kES, f: func(fr frag, d int) (frag, bool) {
		return es(fr, fmt.Sprintf("let v%d := %s;", d, fr.text))
	}},
	{name: "assign", kind: kES, dem: true, f: func(fr frag, d int) (frag, bool) {
		return es(fr, fmt.Sprintf("let w%d: %s = %s; w%d = %s;", d, fr.typ, g(fr.typ), d, fr.text))
	}},
	{name: "compound", kind: kES, f: func(fr frag, d int) (frag, bool) {
		if !isNum(fr.typ) && fr.typ != "str" {
			return fr, false
		}
		return es(fr, fmt.Sprintf("let w%d: %s = %s; w%d += %s;", d, fr.typ, g(fr.typ), d, fr.text))
	}},
	{name: "return", kind: kES, dem: true, f: func(fr frag, d int) (frag, bool) {
		r, _ := es(fr, "return "+fr.text+";")
		r.ret, r.term = fr.typ, true
		return r, true
	}},
	{name: "ifcond", kind: kES, f: func(fr frag, d int) (frag, bool) {
		c, ok := cond(fr)
		if !ok {
			return fr, false
		}
		return es(fr, "if "+c+" { }")
	}},
	{name: "elseifcond", kind: kES, f: func(fr frag, d int) (frag, bool) {
		c, ok := cond(fr)
		if !ok {
			return fr, false
		}
		return es(fr, "if g_bool() { } else if "+c+" { }")
	}},
	{name: "whilecond", kind: kES, f: func(fr frag, d int) (frag, bool) {
		c, ok := cond(fr)
		if !ok {
			return fr, false
		}
		return es(fr, "while "+c+" { break; }")
	}},
	{name: "forbound", kind: kES, f: func(fr frag, d int) (frag, bool) {
		if !isInt(fr.typ) {
			return fr, false
		}
		return es(fr, fmt.Sprintf("for i%d in %s..%s { }", d, g(fr.typ), fr.text))
	}},
	{name: "matchsubj", kind: kES, f: func(fr frag, d int) (frag, bool) {
		return es(fr, "match "+fr.text+" { _ => { } }")
	}},
	{name: "matcharmexpr", kind: kES, f: func(fr frag, d int) (frag, bool) {
		return es(fr, "match g_i32() { 1 => "+fr.text+", _ => "+g(fr.typ)+" }")
	}},
	{name: "field", kind: kES, dem: true, f: func(fr frag, d int) (frag, bool) {
		return es(fr, fmt.Sprintf("let b%d := { .F = %s } as Box_%s;", d, fr.text, safe(fr.typ)))
	}},
	{name: "fieldtyped", kind: kES, dem: true, f: func(fr frag, d int) (frag, bool) {
		return es(fr, fmt.Sprintf("let b%d: Box_%s = { .F = %s };", d, safe(fr.typ), fr.text))
	}},
	{name: "elem", kind: kES, dem: true, f: func(fr frag, d int) (frag, bool) {
		return es(fr, fmt.Sprintf("let a%d: [2]%s = [%s, %s];", d, fr.typ, fr.text, g(fr.typ)))
	}},
	// ---- statement -> statement
	{name: "matcharm", kind: kSS, f: func(fr frag, d int) (frag, bool) {
		return frag{stmt: true, text: "match g_i32() { 1 => { " + fr.text + " } _ => { } }", ret: fr.ret, pre: fr.pre}, true
	}},
	{name: "funclit", kind: kSS, f: func(fr frag, d int) (frag, bool) {
		sig, b := body(fr)
		return frag{stmt: true, text: fmt.Sprintf("let fl%d := fn()%s { %s };", d, sig, b)}, true
	}},
	{name: "catchblock", kind: kSS, f: func(fr frag, d int) (frag, bool) {
		return frag{stmt: true, text: fmt.Sprintf("let cv%d: i32 = res_i32(1) catch e%d { %s } g_i32();", d, d, fr.text), ret: fr.ret, pre: fr.pre}, true
	}},
	{name: "ifbody", kind: kSS, f: func(fr frag, d int) (frag, bool) {
		return frag{stmt: true, text: "if g_bool() { " + fr.text + " }", ret: fr.ret, pre: fr.pre}, true
	}},
	{name: "elsebody", kind: kSS, f: func(fr frag, d int) (frag, bool) {
		return frag{stmt: true, text: "if g_bool() { } else { " + fr.text + " }", ret: fr.ret, pre: fr.pre}, true
	}},
	{name: "whilebody", kind: kSS, f: func(fr frag, d int) (frag, bool) {
		return frag{stmt: true, text: fmt.Sprintf("let k%d: i32 = 0; while k%d < 3 { k%d += 1; %s }", d, d, d, fr.text), ret: fr.ret, pre: fr.pre}, true
	}},
	{name: "forbody", kind: kSS, f: func(fr frag, d int) (frag, bool) {
		return frag{stmt: true, text: fmt.Sprintf("for j%d in g_i32()..g_i32() { %s }", d, fr.text), ret: fr.ret, pre: fr.pre}, true
	}},
	// ---- host
	{name: "method", kind: kHost, f: func(fr frag, d int) (frag, bool) {
		sig, b := body(fr)
		return frag{stmt: true, text: fmt.Sprintf("fn (p: Pt) hostm()%s { %s }\n", sig, b)}, true
	}},
}

func apply(c *cx, fr frag, d int) (frag, bool) {
	if fr.demand && !c.dem && !c.transp {
		return fr, false
	}
	if fr.tail && c.kind == kSS && c.name != "funclit" {
		return fr, false // wrapped in another statement it no longer ends the function body
	}
	return c.f(fr, d)
}

// build places a fragment in a chain of contexts (innermost first) and returns the program.
func build(fr frag, chain []*cx) (string, bool) {
	ok := true
	hosted := false
	for i, c := range chain {
		if fr.stmt && (c.kind == kEE || c.kind == kES) {
			return "", false
		}
		if !fr.stmt && (c.kind == kSS || c.kind == kHost) {
			if fr, ok = apply(ctxLet, fr, 0); !ok {
				return "", false
			}
		}
		if fr, ok = apply(c, fr, i+1); !ok {
			return "", false
		}
		hosted = c.kind == kHost
	}
	if !fr.stmt {
		if fr, ok = apply(ctxLet, fr, 0); !ok {
			return "", false
		}
	}
	if !hosted {
		fr, _ = hostFn.f(fr, 0)
	}
	return assemble(fr.text), true
}

// chains enumerates all context sequences of length n with the kinds in order
// EE* ES? SS* HOST?.
func chains(n int) [][]*cx {
	if n == 0 {
		return [][]*cx{nil}
	}
	var out [][]*cx
	var rec func(cur []*cx)
	rec = func(cur []*cx) {
		if len(cur) == n {
			out = append(out, append([]*cx(nil), cur...))
			return
		}
		for _, c := range contexts {
			if len(cur) > 0 {
				p := cur[len(cur)-1]
				if c.kind < p.kind || (c.kind == p.kind && (c.kind == kES || c.kind == kHost)) {
					continue
				}
			}
			rec(append(cur, c))
		}
	}
	rec(nil)
	return out
}

func chainName(fr frag, ch []*cx) string {
	if len(ch) == 0 {
		if fr.stmt {
			return "stmt"
		}
		return "let"
	}
	var n []string
	for _, c := range ch {
		n = append(n, c.name)
	}
	return strings.Join(n, "+")
}

// ---------------------------------------------------------------------------------
// rule classes and their variants

type variant struct {
	rule, form, ty string // case id: C03/<rule>/<form>/<ty>/<chain>
	cty            string // type key of the control (several mutants may share one control)
	mut, ctl       frag
	core           bool
	top            bool // mut/ctl texts are complete top-level hosts; base chain only
}

func ex(text, typ string) frag { return frag{text: text, typ: typ} }
func dm(text, typ string) frag { return frag{text: text, typ: typ, demand: true} }
func st(text string) frag      { return frag{stmt: true, text: text} }
func rt(text, ret string) frag { return frag{stmt: true, text: text, ret: ret, term: true} }
func in(s string, l ...string) bool {
	for _, x := range l {
		if x == s {
			return true
		}
	}
	return false
}

var numTypes = []string{"i8", "i32", "i64", "u8", "u32", "f32", "f64"}

type pair struct{ a, b string }

func variants() []variant {
	var vs []variant
	add := func(v variant) {
		if v.cty == "" {
			v.cty = v.ty
		}
		vs = append(vs, v)
	}

	// R1: arithmetic between two different numeric types (binary operators and compound assignment)
	ops := []struct{ name, op string }{{"add", "+"}, {"sub", "-"}, {"mul", "*"}, {"div", "/"}, {"mod", "%"}, {"pow", "**"}}
	corePairs := []pair{{"i32", "i64"}, {"i64", "i32"}, {"u8", "i32"}, {"i32", "f64"}, {"f32", "f64"}}
	for _, o := range ops {
		for _, a := range numTypes {
			for _, b := range numTypes {
				if a == b {
					continue
				}
				rtyp := a
				if o.op == "**" {
					rtyp = "f64" // the power operator always yields f64
				}
				core := false
				for _, p := range corePairs {
					if p.a == a && p.b == b && (in(o.name, "add", "mod", "pow") || p == corePairs[0]) {
						core = true
					}
				}
				add(variant{rule: "arith", form: o.name, ty: a + "." + b, cty: a, core: core,
					mut: ex(g(a)+" "+o.op+" "+g(b), rtyp), ctl: ex(g(a)+" "+o.op+" "+g(a), rtyp)})
			}
		}
	}
	// ... and between named numeric types (`type Mt i32; type Ft i32; type Kg f64;`): two names
	// over one base type, a name and its base type, either way round
	for _, o := range ops[:5] {
		for i, p := range []pair{{"Mt", "Ft"}, {"Mt", "i32"}, {"i32", "Mt"}, {"Kg", "f64"}, {"f64", "Kg"}, {"Mt", "Kg"}} {
			core := i < 3 && in(o.name, "add", "mul")
			add(variant{rule: "arith", form: o.name, ty: p.a + "." + p.b, cty: p.a, core: core,
				mut: ex(g(p.a)+" "+o.op+" "+g(p.b), p.a), ctl: ex(g(p.a)+" "+o.op+" "+g(p.a), p.a)})
			s := "let w: %s = %s; w %s= %s;"
			add(variant{rule: "arith", form: o.name + "assign", ty: p.a + "." + p.b, cty: p.a, core: i == 0 && o.name == "add",
				mut: st(fmt.Sprintf(s, p.a, g(p.a), o.op, g(p.b))), ctl: st(fmt.Sprintf(s, p.a, g(p.a), o.op, g(p.a)))})
		}
	}
	for _, o := range ops[:5] {
		for _, a := range numTypes {
			for _, b := range numTypes {
				if a == b {
					continue
				}
				core := (a == "i32" && b == "i64") || (a == "f32" && b == "f64" && o.name == "add")
				s := "let w: %s = %s; w %s= %s;"
				add(variant{rule: "arith", form: o.name + "assign", ty: a + "." + b, cty: a, core: core,
					mut: st(fmt.Sprintf(s, a, g(a), o.op, g(b))), ctl: st(fmt.Sprintf(s, a, g(a), o.op, g(a)))})
			}
		}
	}

	// R2: implicit narrowing   R3: float -> int
	for i, p := range []pair{{"i64", "i32"}, {"i32", "i8"}, {"u32", "u8"}, {"f64", "f32"}, {"i64", "i8"}, {"i64", "u32"}, {"u32", "i8"}, {"i64", "u8"}} {
		add(variant{rule: "narrow", form: "implicit", ty: p.a + "." + p.b, cty: p.b, core: i < 4, mut: dm(g(p.a), p.b), ctl: ex(g(p.b), p.b)})
	}
	for i, p := range []pair{{"f64", "i32"}, {"f32", "i32"}, {"f64", "i64"}, {"f32", "i8"}, {"f64", "u32"}, {"f32", "i64"}, {"f64", "u8"}} {
		add(variant{rule: "floatint", form: "implicit", ty: p.a + "." + p.b, cty: p.b, core: i < 3, mut: dm(g(p.a), p.b), ctl: ex(g(p.b), p.b)})
	}
	for _, t := range []string{"i32", "i64", "u8"} {
		add(variant{rule: "floatint", form: "literal", ty: t, core: t == "i32", mut: dm("2.5", t), ctl: ex("2", t)})
	}

	// R4: non-bool condition
	for _, t := range []string{"i32", "i64", "u8", "f64", "str", "Pt", "En", "i32?"} {
		e := g(t)
		tn := t
		if t == "i32?" {
			e, tn = "gopt_i32()", "opti32"
		}
		add(variant{rule: "cond", form: "if", ty: tn, cty: "bool", core: in(t, "i32", "str", "Pt"),
			mut: st("if " + e + " { }"), ctl: st("if g_bool() { }")})
		add(variant{rule: "cond", form: "elseif", ty: tn, cty: "bool", core: t == "i32",
			mut: st("if g_bool() { } else if " + e + " { }"), ctl: st("if g_bool() { } else if g_bool() { }")})
		add(variant{rule: "cond", form: "while", ty: tn, cty: "bool", core: in(t, "i32", "str"),
			mut: st("while " + e + " { break; }"), ctl: st("while g_bool() { break; }")})
	}

	// R5: non-bool operand of a logical operator
	for _, t := range []string{"i32", "i64", "u8", "f64", "str", "Pt", "En"} {
		b, x := g("bool"), g(t)
		add(variant{rule: "logic", form: "andl", ty: t, cty: "bool", core: t == "i32", mut: ex(x+" && "+b, "bool"), ctl: ex(b+" && "+b, "bool")})
		add(variant{rule: "logic", form: "andr", ty: t, cty: "bool", core: t == "str", mut: ex(b+" && "+x, "bool"), ctl: ex(b+" && "+b, "bool")})
		add(variant{rule: "logic", form: "orl", ty: t, cty: "bool", core: t == "Pt", mut: ex(x+" || "+b, "bool"), ctl: ex(b+" || "+b, "bool")})
		add(variant{rule: "logic", form: "orr", ty: t, cty: "bool", core: t == "i32", mut: ex(b+" || "+x, "bool"), ctl: ex(b+" || "+b, "bool")})
		add(variant{rule: "logic", form: "not", ty: t, cty: "bool", core: in(t, "i32", "str"), mut: ex("!"+x, "bool"), ctl: ex("!"+b, "bool")})
	}

	// R6: wrong argument count
	for _, t := range []string{"i32", "i64", "f64", "str", "bool", "Pt", "En"} {
		s, x := safe(t), g(t)
		add(variant{rule: "argcount", form: "few1of2", ty: t, core: t == "i32", mut: ex("two_"+s+"("+x+")", t), ctl: ex("two_"+s+"("+x+", "+x+")", t)})
		add(variant{rule: "argcount", form: "few0of1", ty: t, core: t == "str", mut: ex("id_"+s+"()", t), ctl: ex("id_"+s+"("+x+")", t)})
		add(variant{rule: "argcount", form: "many2of1", ty: t, core: t == "i32", mut: ex("id_"+s+"("+x+", "+x+")", t), ctl: ex("id_"+s+"("+x+")", t)})
		add(variant{rule: "argcount", form: "many3of2", ty: t, core: t == "Pt", mut: ex("two_"+s+"("+x+", "+x+", "+x+")", t), ctl: ex("two_"+s+"("+x+", "+x+")", t)})
		add(variant{rule: "argcount", form: "methodfew", ty: t, core: t == "i32", mut: ex("g_Pt().m_"+s+"()", t), ctl: ex("g_Pt().m_"+s+"("+x+")", t)})
		add(variant{rule: "argcount", form: "methodmany", ty: t, core: t == "str", mut: ex("g_Pt().m_"+s+"("+x+", "+x+")", t), ctl: ex("g_Pt().m_"+s+"("+x+")", t)})
		lit := fmt.Sprintf("let fq := fn(a: %s) -> %s { return a; };", t, t)
		f := frag{text: "fq()", typ: t, pre: lit}
		m := frag{text: "fq(" + x + ", " + x + ")", typ: t, pre: lit}
		c := frag{text: "fq(" + x + ")", typ: t, pre: lit}
		add(variant{rule: "argcount", form: "litfew", ty: t, core: t == "i32", mut: f, ctl: c})
		add(variant{rule: "argcount", form: "litmany", ty: t, core: t == "i32", mut: m, ctl: c})
		add(variant{rule: "argcount", form: "voidmany", ty: t, core: t == "i32", mut: st("vd_" + s + "(" + x + ", " + x + ");"), ctl: st("vd_" + s + "(" + x + ");")})
	}

	// R7: wrong argument type
	wrong := []pair{{"str", "i32"}, {"i32", "str"}, {"bool", "i32"}, {"Pt", "i32"}, {"i64", "i32"}, {"i32", "Pt"}, {"i32", "bool"}, {"str", "bool"},
		{"Pt", "str"}, {"En", "str"}, {"str", "En"}, {"Pt", "En"}, {"Box_i32", "Pt"}, {"f64", "i32"}, {"str", "f64"}, {"bool", "f64"}}
	for i, p := range wrong {
		s, x, y := safe(p.b), g(p.b), g(p.a)
		add(variant{rule: "argtype", form: "fn", ty: p.a + "." + p.b, cty: p.b, core: i < 5, mut: ex("id_"+s+"("+y+")", p.b), ctl: ex("id_"+s+"("+x+")", p.b)})
		add(variant{rule: "argtype", form: "method", ty: p.a + "." + p.b, cty: p.b, core: i == 0, mut: ex("g_Pt().m_"+s+"("+y+")", p.b), ctl: ex("g_Pt().m_"+s+"("+x+")", p.b)})
		add(variant{rule: "argtype", form: "second", ty: p.a + "." + p.b, cty: p.b, core: i == 0 || i == 5, mut: ex("two_"+s+"("+x+", "+y+")", p.b), ctl: ex("two_"+s+"("+x+", "+x+")", p.b)})
	}

	// R7b: the same constructor over a different element type (dynamic array, fixed array,
	// optional, map, result): no implicit conversion between them, whatever the elements allow
	for i, p := range []pair{{"[]i64", "[]i32"}, {"[]i32", "[]i64"}, {"[2]i64", "[2]i32"}, {"[2]i32", "[2]i64"}, {"[3]i32", "[2]i32"}, {"i64?", "i32?"}, {"str?", "i32?"},
		{"map[str]i64", "map[str]i32"}, {"map[str]f64", "map[str]i32"}, {"map[str]i32", "map[str]i64"}, {"map[str]str", "map[str]i32"}, {"[]str", "[]i32"}, {"[]f64", "[]i32"}, {"[]Pt", "[]i32"}} {
		s, x, y := safe(p.b), g(p.b), g(p.a)
		add(variant{rule: "composite", form: "arg", ty: safe(p.a) + "." + safe(p.b), cty: safe(p.b), core: i < 8, mut: st("take_" + s + "(" + y + ");"), ctl: st("take_" + s + "(" + x + ");")})
		add(variant{rule: "composite", form: "let", ty: safe(p.a) + "." + safe(p.b), cty: safe(p.b), core: i < 8, mut: st("let cq: " + p.b + " = " + y + ";"), ctl: st("let cq: " + p.b + " = " + x + ";")})
		add(variant{rule: "composite", form: "assign", ty: safe(p.a) + "." + safe(p.b), cty: safe(p.b), core: i == 0 || i == 7, mut: st("let cq: " + p.b + " = " + x + "; cq = " + y + ";"), ctl: st("let cq: " + p.b + " = " + x + "; cq = " + x + ";")})
		add(variant{rule: "composite", form: "field", ty: safe(p.a) + "." + safe(p.b), cty: safe(p.b), core: i == 0 || i == 7, mut: st("let cb := { .F = " + y + " } as Box_" + s + ";"), ctl: st("let cb := { .F = " + x + " } as Box_" + s + ";")})
	}

	// R8: undefined name
	for _, t := range []string{"i32", "str", "bool", "Pt"} {
		pre := fmt.Sprintf("let dv: %s = %s;", t, g(t))
		add(variant{rule: "undefined", form: "var", ty: t, core: in(t, "i32", "str"), mut: frag{text: "nope", typ: t, pre: pre}, ctl: frag{text: "dv", typ: t, pre: pre}})
		add(variant{rule: "undefined", form: "fn", ty: t, core: t == "i32", mut: ex("nope_f("+g(t)+")", t), ctl: ex("id_"+safe(t)+"("+g(t)+")", t)})
		add(variant{rule: "undefined", form: "type", ty: t, core: t == "i32", mut: st("let tv: NopeT = " + g(t) + ";"), ctl: st("let tv: " + t + " = " + g(t) + ";")})
		add(variant{rule: "undefined", form: "assign", ty: t, core: t == "i32", mut: st(pre + " nope = " + g(t) + ";"), ctl: st(pre + " dv = " + g(t) + ";")})
	}

	// R9: redeclared name in the same scope
	for _, t := range []string{"i32", "str", "Pt"} {
		for _, k := range []pair{{"let", "let"}, {"let", "const"}, {"const", "const"}, {"const", "let"}} {
			s := "%s r: %s = %s; %s %s: %s = %s;"
			core := (t == "i32" && k.a == "let") || (t == "str" && k == pair{"const", "const"}) || (t == "Pt" && k == pair{"let", "let"})
			add(variant{rule: "redeclared", form: k.a + k.b, ty: t, core: core,
				mut: st(fmt.Sprintf(s, k.a, t, g(t), k.b, "r", t, g(t))), ctl: st(fmt.Sprintf(s, k.a, t, g(t), k.b, "r2", t, g(t)))})
		}
	}
	add(variant{rule: "redeclared", form: "param", ty: "i32", top: true, mut: st("fn host(a: i32, a: i32) { }\n"), ctl: st("fn host(a: i32, a2: i32) { }\n")})
	add(variant{rule: "redeclared", form: "function", ty: "void", top: true, mut: st("fn host() { }\nfn host() { }\n"), ctl: st("fn host() { }\nfn host2() { }\n")})
	add(variant{rule: "redeclared", form: "type", ty: "struct", top: true, mut: st("type Q struct { .A: i32 };\ntype Q struct { .A: i32 };\n"), ctl: st("type Q struct { .A: i32 };\ntype Q2 struct { .A: i32 };\n")})

	// R10: wrong return value   R11: missing return value
	for i, p := range wrong {
		add(variant{rule: "returntype", form: "wrong", ty: p.a + "." + p.b, cty: p.b, core: i < 5, mut: rt("return "+g(p.a)+";", p.b), ctl: rt("return "+g(p.b)+";", p.b)})
	}
	for _, t := range []string{"i32", "str", "Pt"} {
		add(variant{rule: "returntype", form: "valueinvoid", ty: t, cty: "void", core: t == "i32", mut: frag{stmt: true, text: "return " + g(t) + ";", term: true}, ctl: frag{stmt: true, text: "return;", term: true}})
	}
	for _, t := range []string{"i32", "i64", "u8", "f64", "str", "bool", "Pt", "En"} {
		add(variant{rule: "returnmissing", form: "bare", ty: t, core: in(t, "i32", "str", "Pt", "bool"), mut: rt("return;", t), ctl: rt("return "+g(t)+";", t)})
	}

	// R11b: a path that reaches the end of a value-returning body (the return is there, but
	// not on every path)
	for _, t := range []string{"i32", "str", "Pt", "bool"} {
		v := g(t)
		for _, sh := range [][2]string{
			{"ifonly", "if g_bool() { return V; }"},
			{"ifelseif", "if g_bool() { return V; } else if g_bool() { return V; }"},
			{"while", "while g_bool() { return V; }"},
			{"foronly", "for fi in 0..3 { return V; }"},
			{"forcontinue", "for fi in 0..3 { if g_bool() { continue; } return V; }"},
			{"forin", "for fv in g_arr() { return V; }"},
			{"whilebreak", "while true { if g_bool() { break; } return V; }"},
			{"matchnodefault", "match g_i32() { 1 => { return V; } 2 => { return V; } }"},
			{"nestedif", "if g_bool() { if g_bool() { return V; } } else { return V; }"},
			{"enummissing", "match g_En() { En::A => { return V; } }"},
			{"enumduparm", "match g_En() { En::A => { return V; } En::A => { return V; } }"},
		} {
			text := strings.ReplaceAll(sh[1], "V", v)
			m := rt(text, t)
			m.tail = true
			add(variant{rule: "returnmissing", form: sh[0], ty: t, core: t == "i32", mut: m, ctl: rt(text+" return "+v+";", t)})
		}
	}

	// R12: T? where T is required
	for _, t := range []string{"i32", "i64", "f64", "str", "bool", "Pt", "En"} {
		add(variant{rule: "optional", form: "direct", ty: t, core: in(t, "i32", "str", "Pt", "bool"), mut: dm("gopt_"+safe(t)+"()", t), ctl: ex(g(t), t)})
	}
	for _, t := range []string{"i32", "i64", "f64"} {
		add(variant{rule: "optional", form: "arithl", ty: t, core: t == "i32", mut: ex("gopt_"+t+"() + "+g(t), t), ctl: ex(g(t)+" + "+g(t), t)})
		add(variant{rule: "optional", form: "arithr", ty: t, core: t == "i32", mut: ex(g(t)+" - gopt_"+t+"()", t), ctl: ex(g(t)+" - "+g(t), t)})
	}

	// R13: unknown / missing / mistyped struct field
	for _, t := range []string{"i32", "str", "Pt"} {
		s, x := safe(t), g(t)
		add(variant{rule: "field", form: "litunknown", ty: t, core: t == "i32", mut: ex("({ .F = "+x+", .Zz = "+x+" } as Box_"+s+")", "Box_"+s), ctl: ex("({ .F = "+x+" } as Box_"+s+")", "Box_"+s)})
		add(variant{rule: "field", form: "litmissing", ty: t, core: t == "i32", mut: ex("({ .A = "+x+" } as Two_"+s+")", "Two_"+s), ctl: ex("({ .A = "+x+", .B = "+x+" } as Two_"+s+")", "Two_"+s)})
		add(variant{rule: "field", form: "typedunknown", ty: t, core: t == "str", mut: dm("{ .F = "+x+", .Zz = "+x+" }", "Box_"+s), ctl: ex("{ .F = "+x+" }", "Box_"+s)})
		add(variant{rule: "field", form: "typedmissing", ty: t, core: t == "i32", mut: dm("{ .A = "+x+" }", "Two_"+s), ctl: ex("{ .A = "+x+", .B = "+x+" }", "Two_"+s)})
		add(variant{rule: "field", form: "selunknown", ty: t, core: in(t, "i32", "Pt"), mut: ex("g_Box_"+s+"().Zz", t), ctl: ex("g_Box_"+s+"().F", t)})
		pre := "let bx := g_Box_" + s + "();"
		add(variant{rule: "field", form: "assignunknown", ty: t, core: t == "i32", mut: st(pre + " bx.Zz = " + x + ";"), ctl: st(pre + " bx.F = " + x + ";")})
	}
	for i, p := range wrong[:6] {
		s, x, y := safe(p.b), g(p.b), g(p.a)
		add(variant{rule: "field", form: "litmistyped", ty: p.a + "." + p.b, cty: p.b, core: i < 2, mut: ex("({ .F = "+y+" } as Box_"+s+")", "Box_"+s), ctl: ex("({ .F = "+x+" } as Box_"+s+")", "Box_"+s)})
		add(variant{rule: "field", form: "typedmistyped", ty: p.a + "." + p.b, cty: p.b, core: i == 0, mut: dm("{ .F = "+y+" }", "Box_"+s), ctl: ex("{ .F = "+x+" }", "Box_"+s)})
		pre := "let bx := g_Box_" + s + "();"
		add(variant{rule: "field", form: "assignmistyped", ty: p.a + "." + p.b, cty: p.b, core: i == 0, mut: st(pre + " bx.F = " + y + ";"), ctl: st(pre + " bx.F = " + x + ";")})
	}

	// R14: more initialisers than a fixed array holds
	lits := func(t string, n int) string {
		var l []string
		for i := 0; i < n; i++ {
			l = append(l, g(t))
		}
		return "[" + strings.Join(l, ", ") + "]"
	}
	for _, t := range []string{"i32", "str", "f64", "Pt"} {
		for _, n := range []int{1, 2, 3} {
			for _, x := range []int{1, 2} {
				at := fmt.Sprintf("[%d]%s", n, t)
				ty := fmt.Sprintf("%s.%dof%d", t, n+x, n)
				cty := fmt.Sprintf("%s.%dof%d", t, n, n)
				core := (t == "i32" && n == 2 && x == 1) || (t == "str" && n == 1 && x == 1) || (t == "i32" && n == 3 && x == 2)
				add(variant{rule: "arrayinit", form: "typed", ty: ty, cty: cty, core: core, mut: dm(lits(t, n+x), at), ctl: ex(lits(t, n), at)})
				add(variant{rule: "arrayinit", form: "cast", ty: ty, cty: cty, core: t == "i32" && n == 2 && x == 1, mut: ex("("+lits(t, n+x)+" as "+at+")", at), ctl: ex("("+lits(t, n)+" as "+at+")", at)})
			}
		}
	}
	add(variant{rule: "arrayinit", form: "literals", ty: "i32.3of2", cty: "i32.2of2", core: true, mut: dm("[1, 2, 3]", "[2]i32"), ctl: ex("[1, 2]", "[2]i32")})

	// R15: calling a non-function
	for _, t := range []string{"i32", "str", "bool", "Pt", "En", "f64"} {
		pre := fmt.Sprintf("let nf: %s = %s; let fq := fn(a: i32) -> i32 { return a; };", t, g(t))
		add(variant{rule: "nonfunction", form: "var", ty: t, core: in(t, "i32", "str", "Pt"), mut: frag{text: "nf(g_i32())", typ: "i32", pre: pre}, ctl: frag{text: "fq(g_i32())", typ: "i32", pre: pre}})
	}
	add(variant{rule: "nonfunction", form: "field", ty: "i32", core: true, mut: ex("g_Box_i32().F(g_i32())", "i32"), ctl: ex("g_Pt().m_i32(g_i32())", "i32")})
	add(variant{rule: "nonfunction", form: "callresult", ty: "i32", core: true, mut: ex("g_i32()(g_i32())", "i32"), ctl: ex("id_i32(g_i32())", "i32")})
	add(variant{rule: "nonfunction", form: "enumvariant", ty: "En", mut: ex("En::A(g_i32())", "i32"), ctl: ex("id_i32(g_i32())", "i32")})

	// R16: unhandled result
	for _, t := range []string{"i32", "str", "Pt", "bool", "f64"} {
		s, x := safe(t), g(t)
		add(variant{rule: "unhandled", form: "fn", ty: t, core: in(t, "i32", "str"), mut: ex("res_"+s+"(1)", t), ctl: ex("(res_"+s+"(1) catch "+x+")", t)})
		add(variant{rule: "unhandled", form: "method", ty: t, core: t == "i32", mut: ex("g_Pt().mres_"+s+"(1)", t), ctl: ex("(g_Pt().mres_"+s+"(1) catch "+x+")", t)})
		add(variant{rule: "unhandled", form: "stmt", ty: t, core: t == "i32", mut: st("res_" + s + "(1);"), ctl: st("res_" + s + "(1) catch " + x + ";")})
		// callees of every arity: the check must not hang on the argument list
		add(variant{rule: "unhandled", form: "fn0", ty: t, core: in(t, "i32", "str"), mut: ex("res0_"+s+"()", t), ctl: ex("(res0_"+s+"() catch "+x+")", t)})
		add(variant{rule: "unhandled", form: "stmt0", ty: t, core: t == "i32", mut: st("res0_" + s + "();"), ctl: st("res0_" + s + "() catch " + x + ";")})
		add(variant{rule: "unhandled", form: "method0", ty: t, core: t == "i32", mut: ex("g_Pt().mres0_"+s+"()", t), ctl: ex("(g_Pt().mres0_"+s+"() catch "+x+")", t)})
		add(variant{rule: "unhandled", form: "fn2", ty: t, core: t == "i32", mut: ex("res2_"+s+"(1, \"w\")", t), ctl: ex("(res2_"+s+"(1, \"w\") catch "+x+")", t)})
		add(variant{rule: "unhandled", form: "stmt2", ty: t, core: false, mut: st("res2_" + s + "(1, \"w\");"), ctl: st("res2_" + s + "(1, \"w\") catch " + x + ";")})
	}

	// R17: `!` error return from a non-result function
	for i, p := range []pair{{"str", "i32"}, {"str", "void"}, {"i32", "str"}, {"str", "Pt"}, {"i32", "i32"}, {"str", "str"}, {"str", "bool"}, {"i32", "void"}} {
		if p.b == "void" {
			add(variant{rule: "errreturn", form: "bang", ty: p.a + "." + p.b, cty: "void", core: i < 4, mut: frag{stmt: true, text: "return " + g(p.a) + "!;", term: true}, ctl: frag{stmt: true, text: "return;", term: true}})
		} else {
			add(variant{rule: "errreturn", form: "bang", ty: p.a + "." + p.b, cty: p.b, core: i < 4, mut: rt("return "+g(p.a)+"!;", p.b), ctl: rt("return "+g(p.b)+";", p.b)})
		}
	}
	return vs
}

// ---------------------------------------------------------------------------------
// the run

type job struct {
	id    string // mutant case id
	cid   string // control case id
	rule  string
	form  string
	chain string
	depth int
	src   string
	csrc  string
	res   *fe.Result
}

type nat struct {
	term   string
	exists bool
	first  string
}

func (n nat) rejected() bool { return n.term != "exit:0" && !n.exists }
func (n nat) String() string {
	e := "no file at the -o path"
	if n.exists {
		e = "executable written"
	}
	return n.term + ", " + e
}

func Run(c *vl.Ctx) {
	quick := c.Quick()
	if quick {
		c.SetBudget(300 * time.Second)
	} else {
		c.SetBudget(13 * time.Minute)
	}
	vs := variants()
	filter := os.Getenv("VERIF_FILTER")

	// enumeration, simplest first: depth 0, 1 (, 2); quick: every variant in the base context
	// and the core variants in every depth-1 context; thorough: every variant at depth <= 1 and
	// the core variants in every depth-2 chain.
	maxDepth := 1
	if !quick {
		maxDepth = 2
	}
	var jobs []*job
	nApplicable := map[string]int{}
	for depth := 0; depth <= maxDepth; depth++ {
		chs := chains(depth)
		for vi := range vs {
			v := &vs[vi]
			if v.top && depth > 0 {
				continue
			}
			full := depth == 0 || (!quick && depth == 1)
			if !full && !v.core {
				continue
			}
			for _, ch := range chs {
				var src, csrc string
				var ok, cok bool
				if v.top {
					src, csrc, ok, cok = assemble(v.mut.text), assemble(v.ctl.text), true, true
				} else {
					src, ok = build(v.mut, ch)
					cf := v.ctl
					cf.demand = v.mut.demand // same applicability as the mutant
					cf.tail = v.mut.tail
					csrc, cok = build(cf, ch)
				}
				if !ok || !cok {
					if ok != cok {
						panic("applicability differs: " + v.rule + "/" + v.form + "/" + v.ty)
					}
					continue
				}
				cn := chainName(v.mut, ch)
				if v.top {
					cn = "top"
				}
				j := &job{id: fmt.Sprintf("C03/%s/%s/%s/%s", v.rule, v.form, v.ty, cn),
					cid:  fmt.Sprintf("C03/%s/%s/%s/%s/control", v.rule, v.form, v.cty, cn),
					rule: v.rule, form: v.form, chain: cn, depth: depth, src: src, csrc: csrc}
				if filter != "" && !strings.Contains(j.id, filter) {
					continue
				}
				if src == csrc {
					panic("mutant equals control: " + j.id)
				}
				jobs = append(jobs, j)
				nApplicable[v.rule]++
			}
		}
	}

	dbg("%d mutants enumerated", len(jobs))
	if d := os.Getenv("VERIF_C03_DUMP"); d != "" { // debugging aid: print the programs of matching cases
		for _, j := range jobs {
			if strings.Contains(j.id, d) {
				fmt.Printf("==== %s\n%s---- control\n%s", j.id, j.src, j.csrc)
			}
		}
		os.Exit(0)
	}
	pool := fe.NewPool(c.W, filepath.Join(c.Repo, "ferret_libs"), 16)
	defer pool.Close()
	// the real binary and the runtime library are built while the front end works
	var rn *run.Runner
	rnReady := make(chan struct{})
	go func() {
		rn = run.New(c)
		dbg("real binary and runtime built")
		close(rnReady)
	}()

	// controls (deduplicated by case id; identical ids have identical text)
	type ctl struct {
		id, src string
		ok      bool
		why     string
	}
	ctlIdx := map[string]*ctl{}
	var ctls []*ctl
	for _, j := range jobs {
		if _, ok := ctlIdx[j.cid]; !ok {
			k := &ctl{id: j.cid, src: j.csrc}
			ctlIdx[j.cid] = k
			ctls = append(ctls, k)
		} else if ctlIdx[j.cid].src != j.csrc {
			panic("control id reused for a different text: " + j.cid)
		}
	}
	project := func(src string) *fe.Project {
		return &fe.Project{Files: map[string]string{"main.fer": src}, Entry: "main.fer", Mode: "check", NoRender: true}
	}
	var evals int64
	var mu sync.Mutex
	capped := false
	pool.Map(len(ctls), func(i int) *fe.Project {
		if c.OverBudget() {
			capped = true
			return nil
		}
		return project(ctls[i].src)
	}, func(i int, r *fe.Result) {
		k := ctls[i]
		mu.Lock()
		evals++
		mu.Unlock()
		c.Count("controls", 1)
		switch {
		case r.Panic != "" || r.Timeout || r.Crash != "":
			k.why = "front end did not answer: panic=" + r.Panic + " frame=" + r.PanicFrame + " crash=" + r.Crash
		case !r.Success || len(r.Errors()) > 0:
			k.why = "control rejected: " + r.ErrSummary()
		default:
			k.ok = true
		}
		if !k.ok {
			c.Outcome("control: rejected")
			c.Fail(vl.Fail{Case: k.id, Obs: k.why, Files: map[string]string{"main.fer": k.src}})
		} else {
			c.Outcome("control: accepted")
		}
	})

	dbg("controls done")
	// mutants through the front end
	pool.Map(len(jobs), func(i int) *fe.Project {
		if c.OverBudget() {
			capped = true
			return nil
		}
		return project(jobs[i].src)
	}, func(i int, r *fe.Result) {
		rr := *r
		jobs[i].res = &rr
		mu.Lock()
		evals++
		mu.Unlock()
		c.Count("mutants", 1)
	})

	// the real binary: representatives and every mutant the front end does not reject
	native := func(src string) nat {
		dir := rn.NewDir()
		defer os.RemoveAll(dir)
		run.WriteFiles(dir, map[string]string{"main.fer": src})
		b := rn.CompileNative(dir, "main.fer")
		c.Count("native_compiles", 1)
		return nat{term: b.Compile.Term(), exists: b.Exists, first: firstErr(run.StripANSI(b.Compile.Stdout + b.Compile.Stderr))}
	}
	// Which mutants go through the real binary:
	//  - every mutant of depth 0 the front end does not reject (exact type lists in the base context);
	//  - at depth >= 1 the mutants the front end does not reject are grouped in classes
	//    (rule, form, chain) [depth 2: (rule, chain)]; the members of a class are run in order until
	//    one is confirmed as compiled; the members after the witness are counted, not reported;
	//  - the first mutant of every (rule, chain) pair of depth <= 1 that the front end rejects
	//    (representative of the gate "front end error => exit status != 0 and no executable").
	type class struct {
		members []*job
		rep     bool
	}
	var classes []*class
	classIdx := map[string]*class{}
	repSeen := map[string]bool{}
	nrep := 0
	for _, j := range jobs {
		if j.res == nil {
			continue
		}
		r := j.res
		feRejects := !r.Success && len(r.Errors()) > 0 && r.Panic == "" && !r.Timeout && r.Crash == ""
		if !feRejects {
			key := j.rule + "|" + j.form + "|" + j.chain
			if j.depth >= 2 {
				key = j.rule + "|" + j.chain
			}
			if j.depth == 0 {
				key = j.id
			}
			k, ok := classIdx[key]
			if !ok {
				k = &class{}
				classIdx[key] = k
				classes = append(classes, k)
			}
			k.members = append(k.members, j)
			continue
		}
		if j.depth <= 1 && !repSeen[j.rule+"|"+j.chain] {
			repSeen[j.rule+"|"+j.chain] = true
			classes = append(classes, &class{members: []*job{j}, rep: true})
			nrep++
			continue
		}
		c.Distinct(j.id)
		c.Outcome(j.rule + ": rejected " + codeOf(r))
	}
	sort.SliceStable(classes, func(a, b int) bool { return !classes[a].rep && classes[b].rep })
	<-rnReady
	dbg("front end done: %d controls, %d mutants; %d real-binary classes queued (%d representatives)", len(ctls), len(jobs), len(classes), nrep)

	// judge runs one mutant through the real binary; it returns true when the case failed.
	judge := func(j *job) bool {
		r := j.res
		n := native(j.src)
		c.Distinct(j.id)
		files := map[string]string{"main.fer": j.src, "control.fer": j.csrc}
		k := ctlIdx[j.cid]
		note := ""
		if !k.ok {
			note = "the control twin of this case is itself rejected: " + k.why
		}
		switch {
		case r.Panic != "" || r.Timeout || r.Crash != "":
			if n.rejected() {
				c.Outcome(j.rule + ": compiler crashed, no executable (not judged)")
				c.Count("mutant_crashes_not_judged", 1)
				addNote("crash", map[string]string{"crash_on": j.id, "panic": r.Panic, "frame": r.PanicFrame})
				return false
			}
			c.Outcome(j.rule + ": ACCEPTED")
			c.Fail(vl.Fail{Case: j.id, Obs: "ill-typed program compiled: front end crashed (" + r.PanicFrame + "), real binary: " + n.String(), Files: files, Note: note})
			return true
		case !r.Success && len(r.Errors()) > 0:
			// representative: the front end rejects; the real binary must do the same
			if n.rejected() {
				c.Outcome(j.rule + ": rejected " + codeOf(r))
				c.Count("representatives_confirmed_by_real_binary", 1)
				return false
			}
			c.Outcome(j.rule + ": ACCEPTED by the real binary only")
			c.Fail(vl.Fail{Case: j.id, Obs: "front end reports " + codeOf(r) + " but the real binary: " + n.String(), Files: files, Note: note})
			return true
		}
		if n.term == "exit:0" && !n.exists && k.ok {
			// "Success" without an executable (a QBE error is printed, the status is 0).  The case
			// is judged only if the back end can build this context at all: the control twin
			// goes through the real binary too.
			if cn := native(j.csrc); !(cn.term == "exit:0" && cn.exists) {
				c.Outcome(j.rule + ": front end silent; neither mutant nor control yields an executable (not judged)")
				c.Count("either_context_not_buildable_by_back_end", 1)
				addNote("notbuildable", map[string]string{"not_judged": j.id, "mutant": n.String(), "control": cn.String()})
				return false
			}
		}
		if n.rejected() {
			c.Outcome(j.rule + ": front end silent, real binary rejects")
			c.Count("front_end_silent_real_binary_rejects", 1)
			addNote("nativeonly", map[string]string{"front_end_silent_real_binary_rejects": j.id, "real_binary": n.String() + " " + n.first})
			return false
		}
		c.Outcome(j.rule + ": ACCEPTED")
		c.Fail(vl.Fail{Case: j.id, Obs: "ill-typed program compiled: no error diagnostic; real binary: " + n.String(), Files: files, Note: note})
		return true
	}
	vl.ParDo(len(classes), 16, func(i int) {
		k := classes[i]
		witnessed := false
		for n, j := range k.members {
			switch {
			case witnessed:
				c.Distinct(j.id)
				c.Count("front_end_silent_class_already_witnessed", 1)
				c.Outcome(j.rule + ": front end silent (class witnessed by an earlier member)")
			case n >= 3:
				// three members of the class went through the real binary and none was confirmed
				// as compiled (back end cannot build the context / rejects late / crash)
				c.Distinct(j.id)
				c.Count("front_end_silent_class_not_confirmed_after_3_attempts", 1)
				c.Outcome(j.rule + ": front end silent (class not confirmed by its first 3 members, not judged)")
			case c.OverBudget():
				capped = true
				c.Count("mutants_left_unjudged_by_budget", 1)
			default:
				witnessed = judge(j)
			}
		}
	})
	dbg("real binary done")
	// comparisons between different numeric types: enumerated and counted, never judged
	cmpStats := map[string]int{}
	if filter == "" && !c.OverBudget() {
		type cj struct{ op, src string }
		var cjs []cj
		for _, op := range []string{"==", "!=", "<", "<=", ">", ">="} {
			for _, a := range numTypes {
				for _, b := range numTypes {
					if a != b {
						s, _ := build(ex(g(a)+" "+op+" "+g(b), "bool"), nil)
						cjs = append(cjs, cj{op, s})
					}
				}
			}
		}
		pool.Map(len(cjs), func(i int) *fe.Project { return project(cjs[i].src) }, func(i int, r *fe.Result) {
			mu.Lock()
			evals++
			if r.Success {
				cmpStats["accepted "+cjs[i].op]++
			} else {
				cmpStats["rejected "+cjs[i].op]++
			}
			mu.Unlock()
			c.Count("either_mixed_comparisons_not_judged", 1)
		})
	}

	if len(jobs) > 0 {
		for _, i := range []int{0, len(jobs) / 4, len(jobs) / 2, 3 * len(jobs) / 4, len(jobs) - 1} {
			c.Sample(map[string]string{"id": jobs[i].id, "mutant": jobs[i].src, "control": jobs[i].csrc})
		}
	}
	rules := map[string]bool{}
	for _, v := range vs {
		rules[v.rule] = true
	}
	var rl []string
	for r := range rules {
		rl = append(rl, fmt.Sprintf("%s=%d", r, nApplicable[r]))
	}
	sort.Strings(rl)
	c.Assume = append(c.Assume,
		"a mutant counts as rejected when the front end reports Success==false with at least one error diagnostic; every mutant the front end does not reject, and the first mutant of every (rule class, depth-1 context) pair, is decided by the real binary (exit status and presence of the -o file)",
		"the front-end verdict of the remaining mutants carries over to the real binary because both run internal/pipeline.Run and the binary exits 1 whenever the context has errors (checked on the representatives)",
		"only rule classes the statement names are judged; comparisons between different numeric types are counted, not judged; compiler crashes on a mutant are counted and left to C13 when no executable results")
	c.Finish(vl.Coverage{Evaluations: evals, Exhaustive: !capped,
		Rule:  fmt.Sprintf("complete product of %d rule classes (%d variants: operator/form x type variation) x context chains of depth <= %d over %d contexts (+ default `let` sink / plain function host); one violation per program, each with a control twin; distinct_nontrivial = judged mutants", len(rules), len(vs), maxDepth, len(contexts)),
		Bound: fmt.Sprintf("depth<=%d; all variants at depth %s, core variants at depth %d; programs per rule: %s", maxDepth, map[bool]string{true: "0", false: "<=1"}[quick], maxDepth, strings.Join(rl, " ")),
		Extra: map[string]any{"mixed_numeric_comparisons": cmpStats,
			"examples_compiler_crash_on_mutant":                 notesFor("crash", "crash_on"),
			"examples_context_not_buildable_by_back_end":        notesFor("notbuildable", "not_judged"),
			"examples_front_end_silent_but_real_binary_rejects": notesFor("nativeonly", "front_end_silent_real_binary_rejects")}})
}

var t0 = time.Now()

var (
	noteMu sync.Mutex
	notes  = map[string][]map[string]string{}
)

// addNote keeps up to 8 examples per kind for the evidence (sorted at the end).
func addNote(kind string, m map[string]string) {
	noteMu.Lock()
	notes[kind] = append(notes[kind], m)
	noteMu.Unlock()
}

func notesFor(kind, key string) []map[string]string {
	l := notes[kind]
	sort.Slice(l, func(a, b int) bool { return l[a][key] < l[b][key] })
	if len(l) > 8 {
		l = l[:8]
	}
	return l
}

func dbg(f string, a ...any) {
	if os.Getenv("VERIF_DEBUG") != "" {
		fmt.Fprintf(os.Stderr, "[c03 %6.1fs] "+f+"\n", append([]any{time.Since(t0).Seconds()}, a...)...)
	}
}

func codeOf(r *fe.Result) string {
	e := r.Errors()
	if len(e) == 0 {
		return "(no error)"
	}
	m := e[0].Msg
	if i := strings.IndexAny(m, ":'("); i > 0 {
		m = m[:i]
	}
	if len(m) > 48 {
		m = m[:48]
	}
	return strings.TrimSpace(e[0].Code + " " + m)
}

func firstErr(s string) string {
	for _, l := range strings.Split(s, "\n") {
		l = strings.TrimSpace(l)
		if strings.Contains(l, "error") || strings.Contains(l, "panic") {
			if len(l) > 160 {
				l = l[:160]
			}
			return l
		}
	}
	return ""
}
