// Package c16: i128/u128/i256/u256 runtime arithmetic (runtime/core/bigint.c) is exact
// modulo 2^N — bounded-exhaustive enumeration of limb-alphabet operands through the real
// C code (built with ASan+UBSan) against a math/big reference model.
//
// Architecture: this package generates the operand records, shards them, pipes every
// shard through a driver process (/verif/csrc/c16/driver.c linked with the CURRENT
// <repo>/runtime/core/bigint.c) and compares every returned result with math/big.
//
// Deviations from DESIGN.md "### C16" (and why):
//   - bigint.c has no *_ptr wrappers for shl/shr at all and not_ptr only for the 256-bit
//     types, so shifts (and 128-bit not) are exercised through the value-passing
//     functions only. Every other operation is run through the value function AND its
//     _ptr wrapper with out distinct, out==a, out==b and (when a==b) a==b==out; the
//     driver compares the wrapper results with the value result and returns a mismatch
//     mask instead of four copies of the result.
//   - second configuration (-U__SIZEOF_INT128__, 32-bit limbs): "alphabet scaled" is
//     realised as: 128-bit operands over the scaled 32-bit-limb alphabet (4 limbs),
//     256-bit operands over the same 64-bit-chunk alphabet as configuration 1 (8 limbs
//     over a 5-letter alphabet would be 390 k operands).
//   - thorough 256-bit cut: {5-letter pairs} ∪ {9-letter x  paired with the 81 two-chunk
//     values, zero- AND one-extended (162), in BOTH operand orders} (DESIGN: 81, one
//     order) — affordable and covers negative small operands of the signed types.
//   - from_string: judged spellings are decimal, "+"decimal, `_`-separated decimal and
//     sign+0x/0X hex of in-range values. Octal/binary spellings, leading blanks,
//     out-of-range decimals (wrap), "-" on unsigned types and malformed texts are
//     executed for memory safety only (the property pins decimal text of the type's
//     values only).
//   - shifts: 0 <= n is judged for every n (n >= N: a*2^n mod 2^N = 0 and
//     floor(a/2^n) in {0,-1}; this is also what bigint.c spells out explicitly);
//     right shift of a signed value is floor division (arithmetic shift), as bigint.c's
//     ferret_shift_right_signed_limbs implements. Negative counts are memory-safety only.
//   - division/modulo by zero and negative pow exponents: executed (bigint.c returns 0,
//     does not abort), never judged.
//   - the operand sets for to_string/from_string additionally contain 10^k and 10^k-1
//     (digit-count boundaries) and their negations.
//   - failing cases are capped per class (config,type,op): at most 300 of the simplest
//     failing records are reported through c.Fail, the total per class is in the
//     counters ("failing:<class>").
//   - DESIGN lists "`shift >= total_bits` -> `>`" as must-catch: that edit is an
//     equivalent mutant (at shift == total_bits the general path yields the same limbs and
//     touches nothing out of bounds); the neighbouring boundaries `src >= n` -> `>`
//     (ASan) and `i >= n - word_shift` -> `>` (wrong shr value) are caught.
//
// Case ids:
//
//	C16/[limb32/]<type>/<op>/<a-hex>/<b-hex|n>          wrong value ("want X got Y")
//	C16/[limb32/]<type>/<op>_ptr/...                    _ptr wrapper != value function
//	C16/[limb32/]sanitizer/<kind>/<type>/...            ASan/UBSan report or crash on a judged input
//	C16/[limb32/]sanitizer-unpinned/<kind>/<type>/...   the same on a never-judged input
//
// A driver death is located by re-running the shard with per-record flushing; after 25
// deaths in one shard its remaining records are skipped and the run reports
// exhaustive=false.
//
// Test hook: env VERIF_C16_BIGINT=<path> replaces bigint.c by another file (used only to
// demonstrate that deliberate breakages are caught).
package c16

import (
	"bufio"
	"bytes"
	"encoding/binary"
	"encoding/hex"
	"errors"
	"fmt"
	"io"
	"math/big"
	"os"
	"os/exec"
	"path/filepath"
	"regexp"
	"sort"
	"strconv"
	"strings"
	"sync"

	"compiler/verifh/vl"
)

// ---------------------------------------------------------------------------------
// types and operands

type typ struct {
	id     int
	name   string
	bits   int
	W      int
	signed bool
	mod    *big.Int // 2^N
	half   *big.Int // 2^(N-1)
	min    *big.Int
	max    *big.Int
}

func mkTyp(id int, name string, bits int, signed bool) *typ {
	t := &typ{id: id, name: name, bits: bits, W: bits / 8, signed: signed}
	t.mod = new(big.Int).Lsh(big.NewInt(1), uint(bits))
	t.half = new(big.Int).Lsh(big.NewInt(1), uint(bits-1))
	if signed {
		t.min = new(big.Int).Neg(t.half)
		t.max = new(big.Int).Sub(t.half, big.NewInt(1))
	} else {
		t.min = big.NewInt(0)
		t.max = new(big.Int).Sub(t.mod, big.NewInt(1))
	}
	return t
}

var types = []*typ{
	mkTyp(0, "i128", 128, true), mkTyp(1, "u128", 128, false),
	mkTyp(2, "i256", 256, true), mkTyp(3, "u256", 256, false),
}

var two64 = new(big.Int).Lsh(big.NewInt(1), 64)

func (t *typ) inRange(x *big.Int) bool { return x.Cmp(t.min) >= 0 && x.Cmp(t.max) <= 0 }

type opnd struct {
	b     []byte   // little-endian image, len W
	u, s  *big.Int // unsigned / two's complement reading
	hex   string
	in5   bool // all chunks from the quick alphabet
	shape uint16
}

func (t *typ) val(o *opnd) *big.Int {
	if t.signed {
		return o.s
	}
	return o.u
}

func leHex(b []byte) string {
	r := make([]byte, len(b))
	for i := range b {
		r[len(b)-1-i] = b[i]
	}
	s := strings.TrimLeft(hex.EncodeToString(r), "0")
	if s == "" {
		s = "0"
	}
	return s
}

func mkOpnd(b []byte) *opnd {
	o := &opnd{b: b}
	be := make([]byte, len(b))
	for i := range b {
		be[len(b)-1-i] = b[i]
	}
	o.u = new(big.Int).SetBytes(be)
	o.s = new(big.Int).Set(o.u)
	if b[len(b)-1]&0x80 != 0 {
		o.s.Sub(o.s, new(big.Int).Lsh(big.NewInt(1), uint(8*len(b))))
	}
	o.hex = leHex(b)
	neg := 0
	if b[len(b)-1]&0x80 != 0 {
		neg = 1
	}
	hi := 0
	for c := len(b)/8 - 1; c >= 0; c-- {
		if binary.LittleEndian.Uint64(b[8*c:]) != 0 {
			hi = c + 1
			break
		}
	}
	low := 3
	switch binary.LittleEndian.Uint64(b) {
	case 0:
		low = 0
	case 1:
		low = 1
	case ^uint64(0):
		low = 2
	}
	o.shape = uint16(neg*20 + hi*4 + low)
	return o
}

// opndFromBig builds the W-byte image of x mod 2^(8W).
func opndFromBig(x *big.Int, W int) *opnd {
	m := new(big.Int).Lsh(big.NewInt(1), uint(8*W))
	r := new(big.Int).Mod(x, m)
	be := r.FillBytes(make([]byte, W))
	b := make([]byte, W)
	for i := range be {
		b[W-1-i] = be[i]
	}
	return mkOpnd(b)
}

func alphabet(chunkBits int, thorough bool) []uint64 {
	top := uint64(1) << uint(chunkBits-1)
	all := top<<1 - 1 // wraps to 2^64-1 for 64
	if chunkBits == 64 {
		all = ^uint64(0)
	}
	if !thorough {
		return []uint64{0, 1, top, all - 1, all}
	}
	h := uint64(1) << uint(chunkBits/2)
	return []uint64{0, 1, 2, h - 1, h, top - 1, top, all - 1, all}
}

func isQuickLetter(chunkBits int, v uint64) bool {
	for _, a := range alphabet(chunkBits, false) {
		if a == v {
			return true
		}
	}
	return false
}

// genSet: every vector of k chunks over alpha (index 0 = least significant chunk varies fastest).
func genSet(alpha []uint64, chunkBits, k int) []*opnd {
	W := chunkBits * k / 8
	n := 1
	for i := 0; i < k; i++ {
		n *= len(alpha)
	}
	set := make([]*opnd, 0, n)
	idx := make([]int, k)
	for i := 0; i < n; i++ {
		b := make([]byte, W)
		in5 := true
		for j := 0; j < k; j++ {
			v := alpha[idx[j]]
			if chunkBits == 64 {
				binary.LittleEndian.PutUint64(b[8*j:], v)
			} else {
				binary.LittleEndian.PutUint32(b[4*j:], uint32(v))
			}
			if !isQuickLetter(chunkBits, v) {
				in5 = false
			}
		}
		o := mkOpnd(b)
		o.in5 = in5
		set = append(set, o)
		for j := 0; j < k; j++ {
			idx[j]++
			if idx[j] < len(alpha) {
				break
			}
			idx[j] = 0
		}
	}
	return set
}

// embedded: the two-chunk values over alpha, zero- and one-extended to k chunks.
func embedded(alpha []uint64, chunkBits, k int) []*opnd {
	W := chunkBits * k / 8
	var set []*opnd
	for _, ext := range []byte{0x00, 0xff} {
		for _, hi := range alpha {
			for _, lo := range alpha {
				b := bytes.Repeat([]byte{ext}, W)
				if chunkBits == 64 {
					binary.LittleEndian.PutUint64(b[0:], lo)
					binary.LittleEndian.PutUint64(b[8:], hi)
				} else {
					binary.LittleEndian.PutUint32(b[0:], uint32(lo))
					binary.LittleEndian.PutUint32(b[4:], uint32(hi))
				}
				o := mkOpnd(b)
				o.in5 = isQuickLetter(chunkBits, lo) && isQuickLetter(chunkBits, hi)
				set = append(set, o)
			}
		}
	}
	return set
}

// ---------------------------------------------------------------------------------
// records

type rec struct {
	kind  byte // B P S U F I
	t     *typ
	a, b  *opnd
	n     int32
	s     string
	v     uint64
	judge bool     // F: compare with want; P/S: see check
	want  *big.Int // F
	tag   string   // F: spelling class
}

var kindName = map[byte]string{'B': "bin", 'P': "pow", 'S': "shift", 'U': "unary", 'F': "from_string", 'I': "from64"}

func (r *rec) encode(buf []byte) []byte {
	buf = append(buf, r.kind, byte(r.t.id))
	switch r.kind {
	case 'B', 'P':
		buf = append(buf, r.a.b...)
		buf = append(buf, r.b.b...)
	case 'S':
		buf = append(buf, r.a.b...)
		buf = binary.LittleEndian.AppendUint32(buf, uint32(r.n))
	case 'U':
		buf = append(buf, r.a.b...)
	case 'F':
		buf = binary.LittleEndian.AppendUint16(buf, uint16(len(r.s)))
		buf = append(buf, r.s...)
	case 'I':
		buf = binary.LittleEndian.AppendUint64(buf, r.v)
	}
	return buf
}

func (r *rec) text(cfg string) string {
	var sb strings.Builder
	fmt.Fprintf(&sb, "cfg=%s\nkind=%c\ntype=%s\n", cfg, r.kind, r.t.name)
	if r.a != nil {
		fmt.Fprintf(&sb, "a=%s\n", r.a.hex)
	}
	if r.b != nil {
		fmt.Fprintf(&sb, "b=%s\n", r.b.hex)
	}
	switch r.kind {
	case 'S':
		fmt.Fprintf(&sb, "n=%d\n", r.n)
	case 'F':
		fmt.Fprintf(&sb, "s=%s\njudge=%v\ntag=%s\n", strconv.Quote(r.s), r.judge, r.tag)
	case 'I':
		fmt.Fprintf(&sb, "v=%d\n", r.v)
	}
	return sb.String()
}

// operand part of a case id
func (r *rec) idTail() string {
	switch r.kind {
	case 'B', 'P':
		return r.a.hex + "/" + r.b.hex
	case 'S':
		return fmt.Sprintf("%s/%d", r.a.hex, r.n)
	case 'U':
		return r.a.hex
	case 'F':
		return fmt.Sprintf("%s/%q", r.tag, r.s)
	case 'I':
		return fmt.Sprintf("%x", r.v)
	}
	return "?"
}

// ---------------------------------------------------------------------------------
// per-shard statistics

type dkey struct {
	t, op  uint8
	sa, sb uint16
}

type failRec struct {
	class, id, obs string
	files          map[string]string
}

type stats struct {
	evals, safety, records int64
	outcomes               map[string]int64
	distinct               map[dkey]struct{}
	opCount                map[string]int64
	failTotal              map[string]int64
	fails                  []failRec
	skipped, skippedSafety int64
	crashCapHit            int
	sample                 string
}

func newStats() *stats {
	return &stats{outcomes: map[string]int64{}, distinct: map[dkey]struct{}{}, opCount: map[string]int64{}, failTotal: map[string]int64{}}
}

const perShardFailCap = 40
const perClassFailCap = 300
const crashCapPerShard = 25

var opNames = []string{"add", "sub", "mul", "div", "mod", "and", "or", "xor", "eq", "lt", "gt", "pow", "shl", "shr", "not", "to64", "to_string", "from_string", "from64"}
var opIndex = func() map[string]uint8 {
	m := map[string]uint8{}
	for i, n := range opNames {
		m[n] = uint8(i)
	}
	return m
}()

// ---------------------------------------------------------------------------------
// configurations (driver builds)

type config struct {
	name   string // limb64 | limb32
	exe    string
	bigint string
	repo   string
	drvSrc string
}

func (cf *config) pfx() string {
	if cf.name == "limb64" {
		return "C16/"
	}
	return "C16/" + cf.name + "/"
}

func (cf *config) compileArgs(out string) []string {
	args := []string{"-fsanitize=address,undefined", "-fno-sanitize-recover=all", "-O1", "-g"}
	if cf.name == "limb32" {
		args = append(args, "-U__SIZEOF_INT128__")
	}
	args = append(args, "-I", filepath.Join(cf.repo, "runtime", "core"), cf.drvSrc, cf.bigint, "-lm", "-o", out)
	return args
}

func (cf *config) build() (string, error) {
	b, err := exec.Command("clang", cf.compileArgs(cf.exe)...).CombinedOutput()
	return string(b), err
}

var errShort = errors.New("short response")

// exec runs the driver over recs; returns the number of records fully answered and
// checked, the captured stderr and whether the process exited cleanly.
func (cf *config) exec(recs []*rec, syncMode bool, st *stats) (int, string, bool) {
	var args []string
	if syncMode {
		args = append(args, "sync")
	}
	cmd := exec.Command(cf.exe, args...)
	cmd.Env = append(os.Environ(), "ASAN_OPTIONS=detect_leaks=0:abort_on_error=0:symbolize=0:quarantine_size_mb=8", "UBSAN_OPTIONS=print_stacktrace=0:symbolize=0")
	stdin, err := cmd.StdinPipe()
	if err != nil {
		harnessBroken("stdin pipe: %v", err)
	}
	stdout, err := cmd.StdoutPipe()
	if err != nil {
		harnessBroken("stdout pipe: %v", err)
	}
	var stderr bytes.Buffer
	cmd.Stderr = &limitWriter{w: &stderr, n: 64 << 10}
	if err := cmd.Start(); err != nil {
		harnessBroken("cannot start driver: %v", err)
	}
	go func() {
		w := bufio.NewWriterSize(stdin, 1<<16)
		var buf []byte
		for _, r := range recs {
			buf = r.encode(buf[:0])
			if _, err := w.Write(buf); err != nil {
				break
			}
		}
		w.Flush()
		stdin.Close()
	}()
	rd := bufio.NewReaderSize(stdout, 1<<16)
	done := 0
	scratch := make([]byte, 0, 1024)
	for _, r := range recs {
		resp, err := readResp(rd, r, scratch)
		if err != nil {
			break
		}
		cf.check(r, resp, st)
		done++
	}
	io.Copy(io.Discard, rd)
	werr := cmd.Wait()
	return done, stderr.String(), werr == nil
}

type limitWriter struct {
	w io.Writer
	n int
}

func (l *limitWriter) Write(p []byte) (int, error) {
	if l.n > 0 {
		q := p
		if len(q) > l.n {
			q = q[:l.n]
		}
		l.w.Write(q)
		l.n -= len(q)
	}
	return len(p), nil
}

func readResp(rd *bufio.Reader, r *rec, scratch []byte) ([]byte, error) {
	W := r.t.W
	full := func(n int) ([]byte, error) {
		if cap(scratch) < n {
			scratch = make([]byte, n)
		}
		b := scratch[:n]
		if _, err := io.ReadFull(rd, b); err != nil {
			return nil, errShort
		}
		return b, nil
	}
	switch r.kind {
	case 'B':
		return full(8*(W+1) + 6)
	case 'P', 'F', 'I':
		return full(W + 1)
	case 'S':
		return full(2 * W)
	case 'U':
		head := W + 1 + 9 + 1
		if cap(scratch) < head+256 {
			scratch = make([]byte, head+256)
		}
		b := scratch[:head]
		if _, err := io.ReadFull(rd, b); err != nil {
			return nil, errShort
		}
		l := int(b[head-1])
		if l == 255 {
			l = 0
		}
		b = scratch[:head+l+1]
		if _, err := io.ReadFull(rd, b[head:]); err != nil {
			return nil, errShort
		}
		return b, nil
	}
	harnessBroken("bad record kind %c", r.kind)
	return nil, nil
}

func harnessBroken(f string, a ...any) {
	fmt.Fprintf(os.Stderr, "C16: harness broken (not a verdict): "+f+"\n", a...)
	os.Exit(2)
}

// runShard pipes one shard through the driver, restarting after sanitizer deaths.
func (cf *config) runShard(recs []*rec, st *stats, safety bool) {
	pos, syncMode, crashes := 0, false, 0
	firstErr := ""
	for pos < len(recs) {
		n, stderr, clean := cf.exec(recs[pos:], syncMode, st)
		pos += n
		if pos >= len(recs) {
			if !clean {
				st.addFail(cf, "sanitizer/exit", cf.pfx()+"sanitizer/exit/"+recs[len(recs)-1].t.name+"/"+recs[len(recs)-1].idTail(),
					"driver failed after the last record: "+cf.canonReport(stderr), recs[len(recs)-1], "", "", stderr)
			} else if syncMode && crashes == 0 && firstErr != "" {
				st.addFail(cf, "sanitizer/unstable", cf.pfx()+"sanitizer/unstable/"+recs[0].t.name+"/"+recs[0].idTail(),
					"driver died in buffered mode but not in sync mode: "+cf.canonReport(firstErr), recs[0], "", "", firstErr)
			}
			return
		}
		if clean {
			harnessBroken("driver exited cleanly after answering %d of %d records (protocol desynchronised)\n%s", pos, len(recs), stderr)
		}
		if !syncMode {
			syncMode = true
			firstErr = stderr
			continue
		}
		r := recs[pos]
		obs := cf.canonReport(stderr)
		// "sanitizer": the input is inside the property's domain; "sanitizer-unpinned": the
		// record is one of the never-judged ones (negative shift count, negative exponent,
		// malformed or out-of-range text, ...), i.e. a robustness defect outside the statement.
		word := "sanitizer"
		if safety {
			word = "sanitizer-unpinned"
		}
		st.outcomes[word+"-report"]++
		if !safety {
			// reports on never-judged inputs (outside the statement's domain) are counted in the
			// evidence (outcome "sanitizer-unpinned-report"), not raised as violations of C16
			st.addFail(cf, word+"/"+kindName[r.kind]+"/"+r.t.name, cf.pfx()+word+"/"+kindName[r.kind]+"/"+r.t.name+"/"+r.idTail(), obs, r, "", "", stderr)
		}
		st.records++
		pos++
		crashes++
		if crashes >= crashCapPerShard && pos < len(recs) {
			if safety {
				st.skippedSafety += int64(len(recs) - pos)
			} else {
				st.skipped += int64(len(recs) - pos)
			}
			st.crashCapHit++
			return
		}
	}
}

var (
	reAsan   = regexp.MustCompile(`ERROR: AddressSanitizer: ([A-Za-z0-9_-]+)`)
	reRawFrm = regexp.MustCompile(`#\d+ 0x[0-9a-f]+\s+\((\S+)\+(0x[0-9a-f]+)\)`)
	reUbsan  = regexp.MustCompile(`([^\s/:]+):(\d+):(\d+): runtime error: (.*)`)
	reHexes  = regexp.MustCompile(`0x[0-9a-f]+`)
	rePid    = regexp.MustCompile(`==\d+==`)
	symMu    sync.Mutex
	symCache = map[string]string{}
)

// symbolize maps exe+offset to "function file:line" with addr2line (the in-process
// symbolizer is switched off: it needs seconds per report for the libc frames).
func symbolize(exe, off string) string {
	symMu.Lock()
	defer symMu.Unlock()
	k := exe + "+" + off
	if v, ok := symCache[k]; ok {
		return v
	}
	v := ""
	if b, err := exec.Command("addr2line", "-f", "-e", exe, off).Output(); err == nil {
		l := strings.Split(strings.TrimSpace(string(b)), "\n")
		if len(l) >= 2 {
			loc := l[1]
			if i := strings.Index(loc, " ("); i >= 0 {
				loc = loc[:i]
			}
			v = l[0] + " " + filepath.Base(loc)
		}
	}
	symCache[k] = v
	return v
}

// canonReport reduces a sanitizer report to a deterministic one-liner.
func (cf *config) canonReport(stderr string) string {
	if m := reUbsan.FindStringSubmatch(stderr); m != nil {
		// line:column are left out of the observation (they move with unrelated edits); the
		// full report is kept in the replay's driver_stderr.txt
		return fmt.Sprintf("UBSan: %s: runtime error: %s", m[1], reHexes.ReplaceAllString(strings.TrimSpace(m[4]), "0xADDR"))
	}
	if m := reAsan.FindStringSubmatch(stderr); m != nil {
		s := "AddressSanitizer: " + m[1]
		n := 0
		for _, f := range reRawFrm.FindAllStringSubmatch(stderr, 12) {
			if f[1] != cf.exe {
				continue
			}
			if sym := symbolize(cf.exe, f[2]); strings.HasPrefix(sym, "ferret_") {
				if i := strings.LastIndexByte(sym, ':'); i > 0 {
					sym = sym[:i] // drop the line number
				}
				s += " in " + sym
				break
			}
			if n++; n > 6 {
				break
			}
		}
		return s
	}
	line := strings.TrimSpace(stderr)
	if i := strings.IndexByte(line, '\n'); i >= 0 {
		line = line[:i]
	}
	line = rePid.ReplaceAllString(line, "")
	if line == "" {
		line = "(no diagnostic)"
	}
	return "driver died: " + reHexes.ReplaceAllString(line, "0xADDR")
}

// ---------------------------------------------------------------------------------
// reference model and comparison

func (st *stats) addFail(cf *config, class, id, obs string, r *rec, call, want, extra string) {
	class = cf.name + "/" + class
	st.failTotal[class]++
	n := 0
	for i := range st.fails {
		if st.fails[i].class == class {
			n++
		}
	}
	if n >= perShardFailCap {
		return
	}
	files := map[string]string{"record.txt": r.text(cf.name)}
	if call != "" {
		files["replay.c"] = replayC(cf, r, call, want)
	}
	if extra != "" {
		files["driver_stderr.txt"] = extra
	}
	st.fails = append(st.fails, failRec{class: class, id: id, obs: obs, files: files})
}

// patEq: does the little-endian image got equal x mod 2^N ?
func patEq(t *typ, x *big.Int, got []byte, tmp *big.Int, be []byte) bool {
	tmp.Mod(x, t.mod)
	tmp.FillBytes(be[:t.W])
	for i := 0; i < t.W; i++ {
		if be[t.W-1-i] != got[i] {
			return false
		}
	}
	return true
}

func patHex(t *typ, x *big.Int) string {
	r := new(big.Int).Mod(x, t.mod)
	return r.Text(16)
}

func signCls(x *big.Int) string {
	switch x.Sign() {
	case -1:
		return "neg"
	case 0:
		return "zero"
	}
	return "pos"
}

type checker struct {
	tmp big.Int
	x   big.Int
	be  [32]byte
}

var checkerPool = sync.Pool{New: func() any { return new(checker) }}

// value result with _ptr mask
func (cf *config) cmpW(st *stats, ck *checker, r *rec, op string, x *big.Int, got []byte, mask byte, call string) {
	t := r.t
	st.evals++
	st.opCount[op]++
	if st.sample == "" && st.records > 1 && x.Sign() != 0 {
		st.sample = fmt.Sprintf("%s %s %s %s: reference %s (mod 2^%d), runtime %s", cf.name, t.name, op, r.idTail(), patHex(t, x), t.bits, leHex(got))
	}
	if !patEq(t, x, got, &ck.tmp, ck.be[:]) {
		w := patHex(t, x)
		st.addFail(cf, t.name+"/"+op, cf.pfx()+t.name+"/"+op+"/"+r.idTail(), "want "+w+" got "+leHex(got), r, call, w, "")
	}
	if mask != 0 {
		st.addFail(cf, t.name+"/"+op+"_ptr", cf.pfx()+t.name+"/"+op+"_ptr/"+r.idTail(),
			fmt.Sprintf("_ptr wrapper disagrees with the value function (bit0 out distinct, bit1 out==a, bit2 out==b, bit3 a==b==out, bit4 input modified): mask=0x%02x", mask), r, "", "", "")
	}
	if ck.tmp.Sign() != 0 { // tmp holds x mod 2^N
		var sb uint16
		if r.b != nil {
			sb = r.b.shape
		} else if r.kind == 'S' {
			sb = uint16(r.n & 0x7fff)
		}
		var sa uint16
		if r.a != nil {
			sa = r.a.shape
		}
		st.distinct[dkey{uint8(t.id), opIndex[op], sa, sb}] = struct{}{}
	}
}

func (cf *config) check(r *rec, resp []byte, st *stats) {
	ck := checkerPool.Get().(*checker)
	defer checkerPool.Put(ck)
	t := r.t
	W := t.W
	st.records++
	x := &ck.x
	switch r.kind {
	case 'B':
		va, vb := t.val(r.a), t.val(r.b)
		off := 0
		for i, op := range opNames[:8] {
			got := resp[off : off+W]
			mask := resp[off+W]
			off += W + 1
			switch i {
			case 0:
				x.Add(va, vb)
				if t.inRange(x) {
					st.outcomes["add:exact"]++
				} else {
					st.outcomes["add:wraps"]++
				}
			case 1:
				x.Sub(va, vb)
				if t.inRange(x) {
					st.outcomes["sub:exact"]++
				} else {
					st.outcomes["sub:wraps"]++
				}
			case 2:
				x.Mul(va, vb)
				if t.inRange(x) {
					st.outcomes["mul:exact"]++
				} else {
					st.outcomes["mul:wraps"]++
				}
			case 3, 4:
				if vb.Sign() == 0 {
					st.safety++
					st.outcomes[op+":by-zero(not judged)"]++
					continue
				}
				if i == 3 {
					x.Quo(va, vb)
				} else {
					x.Rem(va, vb)
				}
				k := op + ":" + signCls(va) + "/" + signCls(vb) + "->" + signCls(x)
				if !t.inRange(x) {
					k = op + ":min/-1 wraps"
				}
				st.outcomes[k]++
			case 5:
				x.And(va, vb)
				st.outcomes["and"]++
			case 6:
				x.Or(va, vb)
				st.outcomes["or"]++
			case 7:
				x.Xor(va, vb)
				st.outcomes["xor"]++
			}
			cf.cmpW(st, ck, r, op, x, got, mask, "ferret_"+t.name+"_"+op+"(a, b)")
		}
		c := va.Cmp(vb)
		for i, op := range opNames[8:11] {
			got, mask := resp[off], resp[off+1]
			off += 2
			want := (i == 0 && c == 0) || (i == 1 && c < 0) || (i == 2 && c > 0)
			st.evals++
			st.opCount[op]++
			st.outcomes[fmt.Sprintf("%s:%v", op, want)]++
			if (got != 0) != want || got > 1 {
				st.addFail(cf, t.name+"/"+op, cf.pfx()+t.name+"/"+op+"/"+r.idTail(), fmt.Sprintf("want %v got %d", want, got), r, "ferret_"+t.name+"_"+op+"(a, b)", fmt.Sprint(want), "")
			}
			if mask != 0 {
				st.addFail(cf, t.name+"/"+op+"_ptr", cf.pfx()+t.name+"/"+op+"_ptr/"+r.idTail(), fmt.Sprintf("_ptr wrapper disagrees with the value function: mask=0x%02x", mask), r, "", "", "")
			}
			if want {
				st.distinct[dkey{uint8(t.id), opIndex[op], r.a.shape, r.b.shape}] = struct{}{}
			}
		}
	case 'P':
		base, e := t.val(r.a), t.val(r.b)
		if e.Sign() < 0 {
			st.safety++
			st.outcomes["pow:negative-exponent(not judged)"]++
			return
		}
		if e.BitLen() <= 9 { // e <= 511: the exact power is small enough to compute
			x.Exp(base, e, nil)
			if t.inRange(x) {
				st.outcomes["pow:exact"]++
			} else {
				st.outcomes["pow:wraps"]++
			}
		} else {
			x.Exp(r.a.u, e, t.mod) // (a mod 2^N)^e mod 2^N
			st.outcomes["pow:huge-exponent"]++
		}
		cf.cmpW(st, ck, r, "pow", x, resp[:W], resp[W], "ferret_"+t.name+"_pow(a, b)")
	case 'S':
		if r.n < 0 {
			st.safety += 2
			st.outcomes["shift:negative-count(not judged)"]++
			return
		}
		n := uint(r.n)
		if n > 4096 { // for n >= N the results no longer depend on n
			n = 4096
		}
		if int(r.n) >= t.bits {
			st.outcomes["shift:n>=N"]++
		} else if r.n == 0 {
			st.outcomes["shift:n=0"]++
		} else if int(r.n)%32 == 0 {
			st.outcomes["shift:multiple-of-32"]++
		} else {
			st.outcomes["shift:unaligned"]++
		}
		v := t.val(r.a)
		x.Lsh(v, n)
		cf.cmpW(st, ck, r, "shl", x, resp[:W], 0, fmt.Sprintf("ferret_%s_shl(a, %d)", t.name, r.n))
		x.Rsh(v, n) // floor division by 2^n (arithmetic for negatives)
		if v.Sign() < 0 {
			st.outcomes["shr:negative-operand"]++
		}
		cf.cmpW(st, ck, r, "shr", x, resp[W:2*W], 0, fmt.Sprintf("ferret_%s_shr(a, %d)", t.name, r.n))
	case 'U':
		v := t.val(r.a)
		x.Not(v)
		st.outcomes["not"]++
		cf.cmpW(st, ck, r, "not", x, resp[:W], resp[W], "ferret_"+t.name+"_not(a)")
		// to 64 bit
		got64 := resp[W+1 : W+9]
		m64 := resp[W+9]
		ck.tmp.Mod(v, two64)
		want64 := ck.tmp.Uint64()
		st.evals++
		st.opCount["to64"]++
		if v.BitLen() > 63 {
			st.outcomes["to64:truncates"]++
		} else {
			st.outcomes["to64:fits"]++
		}
		if binary.LittleEndian.Uint64(got64) != want64 {
			st.addFail(cf, t.name+"/to64", cf.pfx()+t.name+"/to64/"+r.idTail(), fmt.Sprintf("want %x got %x", want64, binary.LittleEndian.Uint64(got64)), r, "", "", "")
		}
		if m64 != 0 {
			st.addFail(cf, t.name+"/to64_ptr", cf.pfx()+t.name+"/to64_ptr/"+r.idTail(), fmt.Sprintf("_ptr wrapper disagrees with the value function: mask=0x%02x", m64), r, "", "", "")
		}
		if want64 != 0 {
			st.distinct[dkey{uint8(t.id), opIndex["to64"], r.a.shape, 0}] = struct{}{}
		}
		// to_string
		l := int(resp[W+10])
		var gotS string
		if l == 255 {
			gotS = "(NULL)"
			l = 0
		} else {
			gotS = string(resp[W+11 : W+11+l])
		}
		ms := resp[W+11+l]
		wantS := v.String()
		st.evals++
		st.opCount["to_string"]++
		st.outcomes[fmt.Sprintf("to_string:%s", signCls(v))]++
		if gotS != wantS {
			st.addFail(cf, t.name+"/to_string", cf.pfx()+t.name+"/to_string/"+r.idTail(), fmt.Sprintf("want %q got %q", wantS, gotS), r, "", "", "")
		}
		if ms != 0 {
			st.addFail(cf, t.name+"/to_string_ptr", cf.pfx()+t.name+"/to_string_ptr/"+r.idTail(), fmt.Sprintf("_ptr wrapper disagrees with the value function: mask=0x%02x", ms), r, "", "", "")
		}
		st.distinct[dkey{uint8(t.id), opIndex["to_string"], r.a.shape, uint16(len(wantS))}] = struct{}{}
	case 'F':
		if !r.judge {
			st.safety++
			st.outcomes["from_string:"+r.tag+"(not judged)"]++
			return
		}
		st.outcomes["from_string:"+r.tag]++
		cf.cmpW(st, ck, r, "from_string", r.want, resp[:W], resp[W], fmt.Sprintf("ferret_%s_from_string(%s)", t.name, strconv.Quote(r.s)))
	case 'I':
		if t.signed {
			x.SetInt64(int64(r.v))
			st.outcomes["from64:"+signCls(x)]++
		} else {
			x.SetUint64(r.v)
			st.outcomes["from64:unsigned"]++
		}
		call := fmt.Sprintf("ferret_%s_from_u64(UINT64_C(%d))", t.name, r.v)
		if t.signed {
			call = fmt.Sprintf("ferret_%s_from_i64((int64_t)UINT64_C(%d))", t.name, r.v)
		}
		cf.cmpW(st, ck, r, "from64", x, resp[:W], resp[W], call)
	}
}

// replayC renders a self-contained C program for one failing W-byte or bool result.
func replayC(cf *config, r *rec, call, want string) string {
	var sb strings.Builder
	flag := ""
	if cf.name == "limb32" {
		flag = " -U__SIZEOF_INT128__"
	}
	fmt.Fprintf(&sb, "// clang%s -fsanitize=address,undefined -I $REPO/runtime/core replay.c $REPO/runtime/core/bigint.c -lm && ./a.out\n", flag)
	sb.WriteString("#include \"bigint.h\"\n#include <stdio.h>\n#include <string.h>\n")
	sb.WriteString("static void hex(const void* p, int n) { int z = 1; for (int i = n - 1; i >= 0; i--) { unsigned c = ((const unsigned char*)p)[i]; if (z && c == 0 && i) continue; printf(z ? \"%x\" : \"%02x\", c); z = 0; } printf(\"\\n\"); }\n")
	arr := func(name string, o *opnd) {
		if o == nil {
			return
		}
		fmt.Fprintf(&sb, "static const unsigned char %s[%d] = {", name, len(o.b))
		for i, c := range o.b {
			if i > 0 {
				sb.WriteString(",")
			}
			fmt.Fprintf(&sb, "0x%02x", c)
		}
		sb.WriteString("}; // little endian\n")
	}
	arr("A", r.a)
	arr("B", r.b)
	T := "ferret_" + r.t.name
	sb.WriteString("int main(void) {\n")
	fmt.Fprintf(&sb, "  %s a, b; memset(&a, 0, sizeof a); memset(&b, 0, sizeof b);\n", T)
	if r.a != nil {
		sb.WriteString("  memcpy(&a, A, sizeof a);\n")
	}
	if r.b != nil {
		sb.WriteString("  memcpy(&b, B, sizeof b);\n")
	}
	if want == "true" || want == "false" {
		fmt.Fprintf(&sb, "  printf(\"got  %%d\\nwant %s\\n\", (int)%s);\n", want, call)
	} else {
		fmt.Fprintf(&sb, "  %s r = %s;\n  printf(\"got  \"); hex(&r, sizeof r);\n  printf(\"want %s\\n\");\n", T, call, want)
	}
	sb.WriteString("  return 0;\n}\n")
	return sb.String()
}

// ---------------------------------------------------------------------------------
// operand plans

type shard struct {
	cf     *config
	name   string
	gen    func() []*rec
	safety bool // only records that are never judged (kept apart so that a crash there cannot cut judged records short)
}

func chunkBitsFor(cf *config, bits int) int {
	if cf.name == "limb32" && bits == 128 {
		return 32
	}
	return 64
}

type sets struct {
	s5, s9, emb []*opnd
}

func powExps(t *typ) (judged []*opnd, unjudged []*opnd) {
	for _, v := range []int64{0, 1, 2, 3, 63, 64, 65, 127, 128, 255, 256} {
		judged = append(judged, opndFromBig(big.NewInt(v), t.W))
	}
	judged = append(judged, opndFromBig(two64, t.W), opndFromBig(t.max, t.W))
	if t.signed {
		unjudged = append(unjudged, opndFromBig(big.NewInt(-1), t.W), opndFromBig(t.min, t.W))
	}
	return
}

var shiftCounts = []int32{0, 1, 31, 32, 33, 63, 64, 65, 127, 128, 129, 255, 256, 257, 2147483647}
var shiftCountsUnjudged = []int32{-1, -64, -2147483648}

func b64() []uint64 {
	seen := map[uint64]bool{}
	var l []uint64
	add := func(v uint64) {
		if !seen[v] {
			seen[v] = true
			l = append(l, v)
		}
	}
	for _, k := range []uint{0, 1, 2, 7, 8, 15, 16, 31, 32, 33, 62, 63} {
		p := uint64(1) << k
		for _, v := range []uint64{p - 1, p, p + 1} {
			add(v)
			add(-v)
		}
	}
	add(1234567890123456789)
	sort.Slice(l, func(i, j int) bool { return l[i] < l[j] })
	return l
}

func groupDigits(d string) string {
	var sb strings.Builder
	for i, c := range d {
		if i > 0 && (len(d)-i)%3 == 0 {
			sb.WriteByte('_')
		}
		sb.WriteRune(c)
	}
	return sb.String()
}

// fromStringRecs: the spellings of one in-range value v of type t.
func fromStringRecs(t *typ, o *opnd, judged bool) []*rec {
	v := t.val(o)
	sign := ""
	mag := new(big.Int).Abs(v)
	if v.Sign() < 0 {
		sign = "-"
	}
	var rs []*rec
	add := func(tag, s string, judge bool) {
		if judge == judged {
			rs = append(rs, &rec{kind: 'F', t: t, s: s, tag: tag, judge: judge, want: v, a: nil})
		}
	}
	dec := mag.String()
	add("dec", sign+dec, true)
	if sign == "" {
		add("plus", "+"+dec, true)
	}
	add("underscore", sign+groupDigits(dec), true)
	add("hex", sign+"0x"+mag.Text(16), true)
	add("HEX", sign+"0X"+strings.ToUpper(mag.Text(16)), true)
	add("blank", " \t\n"+sign+dec, false)
	add("oct", sign+"0o"+mag.Text(8), false)
	add("bin", sign+"0b"+mag.Text(2), false)
	add("wrap", new(big.Int).Add(o.u, t.mod).String(), false)
	add("trailing", sign+dec+"xyz", false)
	if t.signed {
		if v.Sign() < 0 {
			add("unsigned-image", o.u.String(), false)
		}
	} else if v.Sign() > 0 {
		add("minus-on-unsigned", "-"+dec, false)
	}
	return rs
}

func malformedRecs(t *typ) []*rec {
	var rs []*rec
	for _, s := range []string{"", "-", "+", "0x", "-0x", "0b", "0o9", "_", "__1__", "1__", " ", "abc", "0xg", "--1", "+-1",
		strings.Repeat("9", 300), "0x" + strings.Repeat("f", 100), "-" + strings.Repeat("9", 300), strings.Repeat("_", 500) + "7", strings.Repeat(" ", 1000) + "5", "0b" + strings.Repeat("1", 600)} {
		rs = append(rs, &rec{kind: 'F', t: t, s: s, tag: "malformed", judge: false})
	}
	return rs
}

func decimalBoundaries(t *typ) []*opnd {
	var l []*opnd
	p := big.NewInt(1)
	ten := big.NewInt(10)
	for {
		p = new(big.Int).Mul(p, ten)
		if p.Cmp(t.max) > 0 {
			break
		}
		pm := new(big.Int).Sub(p, big.NewInt(1))
		l = append(l, opndFromBig(p, t.W), opndFromBig(pm, t.W))
		if t.signed {
			l = append(l, opndFromBig(new(big.Int).Neg(p), t.W), opndFromBig(new(big.Int).Neg(pm), t.W))
		}
	}
	return l
}

func plan(cf *config, quick bool) []shard {
	var shards []shard
	setCache := map[string]*sets{}
	getSets := func(bits int) *sets {
		cb := chunkBitsFor(cf, bits)
		key := fmt.Sprintf("%d/%d", bits, cb)
		if s, ok := setCache[key]; ok {
			return s
		}
		k := bits / cb
		s := &sets{s5: genSet(alphabet(cb, false), cb, k)}
		if !quick {
			s.s9 = genSet(alphabet(cb, true), cb, k)
			if k > 2 {
				s.emb = embedded(alphabet(cb, true), cb, k)
			}
		}
		setCache[key] = s
		return s
	}
	const target = 20000 // records per shard, roughly
	for _, t := range types {
		t := t
		ss := getSets(t.bits)
		full := ss.s5
		if !quick {
			full = ss.s9
		}
		// --- binary operations over ordered pairs
		pairShards := func(tag string, as, bs []*opnd, skipBoth5 bool) {
			step := target / len(bs)
			if step < 1 {
				step = 1
			}
			for lo := 0; lo < len(as); lo += step {
				lo := lo
				hi := lo + step
				if hi > len(as) {
					hi = len(as)
				}
				shards = append(shards, shard{cf: cf, name: fmt.Sprintf("%s/%s/pairs-%s/%d", cf.name, t.name, tag, lo), gen: func() []*rec {
					rs := make([]*rec, 0, (hi-lo)*len(bs))
					for _, a := range as[lo:hi] {
						for _, b := range bs {
							if skipBoth5 && a.in5 && b.in5 {
								continue
							}
							rs = append(rs, &rec{kind: 'B', t: t, a: a, b: b})
						}
					}
					return rs
				}})
			}
		}
		if quick || ss.emb != nil {
			pairShards("5x5", ss.s5, ss.s5, false)
		}
		if !quick {
			if ss.emb == nil {
				pairShards("9x9", ss.s9, ss.s9, false)
			} else {
				pairShards("9xE", ss.s9, ss.emb, true)
				pairShards("Ex9", ss.emb, ss.s9, true)
			}
		}
		// --- pow
		exps, expsUnjudged := powExps(t)
		// operands for the never-judged records: quick-alphabet values whose middle half is zero (25)
		var small []*opnd
		for _, o := range ss.s5 {
			z := true
			for _, c := range o.b[t.W/4 : 3*t.W/4] {
				if c != 0 {
					z = false
				}
			}
			if z || len(ss.s5) <= 25 {
				small = append(small, o)
			}
		}
		for lo := 0; lo < len(small); lo += 5 {
			lo := lo
			hi := lo + 5
			if hi > len(small) {
				hi = len(small)
			}
			shards = append(shards, shard{cf: cf, name: fmt.Sprintf("%s/%s/safety/%d", cf.name, t.name, lo), safety: true, gen: func() []*rec {
				var rs []*rec
				for _, a := range small[lo:hi] {
					for _, e := range expsUnjudged {
						rs = append(rs, &rec{kind: 'P', t: t, a: a, b: e})
					}
					for _, n := range shiftCountsUnjudged {
						rs = append(rs, &rec{kind: 'S', t: t, a: a, n: n})
					}
				}
				return rs
			}})
		}
		shards = append(shards, shard{cf: cf, name: fmt.Sprintf("%s/%s/malformed", cf.name, t.name), safety: true, gen: func() []*rec { return malformedRecs(t) }})
		for lo := 0; lo < len(full); lo += 256 {
			lo := lo
			hi := lo + 256
			if hi > len(full) {
				hi = len(full)
			}
			shards = append(shards, shard{cf: cf, name: fmt.Sprintf("%s/%s/pow/%d", cf.name, t.name, lo), gen: func() []*rec {
				var rs []*rec
				for _, a := range full[lo:hi] {
					for _, e := range exps {
						rs = append(rs, &rec{kind: 'P', t: t, a: a, b: e})
					}
				}
				return rs
			}})
		}
		// --- shifts
		for lo := 0; lo < len(full); lo += 400 {
			lo := lo
			hi := lo + 400
			if hi > len(full) {
				hi = len(full)
			}
			shards = append(shards, shard{cf: cf, name: fmt.Sprintf("%s/%s/shift/%d", cf.name, t.name, lo), gen: func() []*rec {
				var rs []*rec
				for _, a := range full[lo:hi] {
					for _, n := range shiftCounts {
						rs = append(rs, &rec{kind: 'S', t: t, a: a, n: n})
					}
				}
				return rs
			}})
		}
		// --- unary + text
		un := append(append([]*opnd{}, full...), decimalBoundaries(t)...)
		for lo := 0; lo < len(un); lo += 200 {
			lo := lo
			hi := lo + 200
			if hi > len(un) {
				hi = len(un)
			}
			shards = append(shards, shard{cf: cf, name: fmt.Sprintf("%s/%s/unary/%d", cf.name, t.name, lo), gen: func() []*rec {
				var rs []*rec
				for _, a := range un[lo:hi] {
					rs = append(rs, &rec{kind: 'U', t: t, a: a})
				}
				return rs
			}})
			for _, judged := range []bool{true, false} {
				judged := judged
				shards = append(shards, shard{cf: cf, name: fmt.Sprintf("%s/%s/from_string-%v/%d", cf.name, t.name, judged, lo), safety: !judged, gen: func() []*rec {
					var rs []*rec
					for _, a := range un[lo:hi] {
						rs = append(rs, fromStringRecs(t, a, judged)...)
					}
					return rs
				}})
			}
		}
		// --- from 64-bit
		shards = append(shards, shard{cf: cf, name: fmt.Sprintf("%s/%s/from64", cf.name, t.name), gen: func() []*rec {
			var rs []*rec
			for _, v := range b64() {
				rs = append(rs, &rec{kind: 'I', t: t, v: v})
			}
			return rs
		}})
	}
	return shards
}

// ---------------------------------------------------------------------------------

func Run(c *vl.Ctx) {
	if len(os.Args) >= 4 && os.Args[2] == "--replay" {
		replay(c, os.Args[3])
		return
	}
	quick := c.Quick()
	bigint := filepath.Join(c.Repo, "runtime", "core", "bigint.c")
	if p := os.Getenv("VERIF_C16_BIGINT"); p != "" {
		bigint = p
		fmt.Fprintf(os.Stderr, "C16: TEST HOOK: using %s instead of the repository's bigint.c\n", p)
	}
	cfgs := buildConfigs(c, bigint)

	var shards []shard
	for _, cf := range cfgs {
		shards = append(shards, plan(cf, quick)...)
	}
	// crash-prone never-judged shards first (they restart the driver per crash), so that they do not form the tail
	sort.SliceStable(shards, func(i, j int) bool { return shards[i].safety && !shards[j].safety })
	results := make([]*stats, len(shards))
	// big shards first for better packing: pair shards are generated first per type already;
	// run in index order, 16 workers.
	vl.ParDo(len(shards), 16, func(i int) {
		st := newStats()
		recs := shards[i].gen()
		if len(recs) > 0 {
			shards[i].cf.runShard(recs, st, shards[i].safety)
		}
		results[i] = st
	})

	// merge deterministically in shard order
	tot := newStats()
	byClass := map[string][]failRec{}
	var samples []map[string]string
	for i, st := range results {
		tot.evals += st.evals
		tot.safety += st.safety
		tot.records += st.records
		tot.skipped += st.skipped
		tot.skippedSafety += st.skippedSafety
		tot.crashCapHit += st.crashCapHit
		for k, v := range st.outcomes {
			tot.outcomes[k] += v
		}
		for k := range st.distinct {
			tot.distinct[k] = struct{}{}
		}
		for k, v := range st.opCount {
			tot.opCount[k] += v
		}
		for k, v := range st.failTotal {
			tot.failTotal[k] += v
		}
		for _, f := range st.fails {
			byClass[f.class] = append(byClass[f.class], f)
		}
		if st.sample != "" && i%(len(results)/9+1) == 0 {
			samples = append(samples, map[string]string{"shard": shards[i].name, "records": fmt.Sprint(st.records), "example": st.sample})
		}
	}
	reported := 0
	var classes []string
	for cl := range byClass {
		classes = append(classes, cl)
	}
	sort.Strings(classes)
	for _, cl := range classes {
		l := byClass[cl]
		sort.SliceStable(l, func(i, j int) bool {
			if len(l[i].id) != len(l[j].id) {
				return len(l[i].id) < len(l[j].id)
			}
			return l[i].id < l[j].id
		})
		if len(l) > perClassFailCap {
			l = l[:perClassFailCap]
		}
		for _, f := range l {
			c.Fail(vl.Fail{Case: f.id, Obs: f.obs, Files: f.files, Note: "class " + cl})
			reported++
		}
	}
	for k := range tot.distinct {
		c.Distinct(fmt.Sprintf("%s/%s/%d/%d", types[k.t].name, opNames[k.op], k.sa, k.sb))
	}
	for k, v := range tot.outcomes {
		for i := int64(0); i < v; i++ {
			c.Outcome(k)
		}
	}
	for k, v := range tot.opCount {
		c.Count("judged:"+k, v)
	}
	for k, v := range tot.failTotal {
		c.Count("failing:"+k, v)
	}
	c.Count("driver_records", tot.records)
	c.Count("safety_only_calls", tot.safety)
	c.Count("shards", int64(len(shards)))
	if tot.skipped > 0 {
		c.Count("judged_records_skipped_after_crash_cap", tot.skipped)
	}
	if tot.skippedSafety > 0 {
		c.Count("safety_only_records_skipped_after_crash_cap", tot.skippedSafety)
	}
	for _, s := range samples {
		c.Sample(s)
	}
	c.Sample(map[string]string{"record": "u256 sub a=0 b=2^128-2^64+1 (the DESIGN witness) is in the 5-letter pair set", "encoding": "kind,type,a[W],b[W] little endian; response = 8 results+masks, 3 comparisons+masks"})
	var totalFail int64
	for _, v := range tot.failTotal {
		totalFail += v
	}
	c.Assume = append(c.Assume,
		"host is little endian x86-64; clang 14 ASan/UBSan instrumentation is trusted to report out-of-bounds accesses and undefined behaviour",
		"math/big is the reference (Quo/Rem truncating, Rsh floor, And/Or/Xor/Not two's complement)",
		"division/modulo by zero, negative exponents, negative shift counts, out-of-range or malformed texts, octal/binary/blank-prefixed spellings are executed for memory safety only, never judged",
		"limb32 configuration is obtained with -U__SIZEOF_INT128__ on the same host (not a real 32-bit target)")
	limbNames := []string{}
	for _, cf := range cfgs {
		limbNames = append(limbNames, cf.name)
	}
	bound := "limb alphabet quick {0,1,2^63,2^64-2,2^64-1}: 128-bit 25^2 pairs, 256-bit 625^2 pairs"
	if !quick {
		bound = "limb alphabet thorough 9 letters: 128-bit 81^2 pairs; 256-bit = 625^2 five-letter pairs + 6561 nine-letter values x 162 two-chunk values (zero/one extended) in both orders; unary/shift/pow over all 6561 values"
	}
	bound += "; configurations " + strings.Join(limbNames, "+") + " (limb32 = -U__SIZEOF_INT128__: its 128-bit operands are 4 limbs over the scaled 32-bit alphabet, enumerated like the 256-bit operands of limb64; its 256-bit operands are the limb64 ones)"
	c.Finish(vl.Coverage{Evaluations: tot.evals, Exhaustive: tot.skipped == 0,
		Rule:  fmt.Sprintf("every ordered operand pair of the bound through add sub mul div mod and or xor eq lt gt (value function + _ptr wrapper with out distinct/aliased), every operand x 13 pow exponents {0,1,2,3,63,64,65,127,128,255,256,2^64,max}, x %d judged shift counts %v (shl and shr), not, to_i64/u64, to_string, from_string of the judged spellings (decimal, +decimal, _-grouped, 0x, 0X) of every operand and of +-10^k, +-(10^k-1), from_i64/u64 over %d boundary values; never-judged probes (shift counts %v, negative exponents, x/0, malformed/out-of-range/octal/binary text) run for sanitizer reports only; each judged result compared with math/big reduced mod 2^N; evaluations = judged comparisons; distinct_nontrivial = (type,op,operand-shape pair) classes with a non-zero reference result", len(shiftCounts), shiftCounts, len(b64()), shiftCountsUnjudged),
		Bound: bound,
		Extra: map[string]any{"failing_records_total": totalFail, "failing_records_reported": reported, "crash_cap_hit_shards": tot.crashCapHit, "bigint_source": bigint}})
}

func buildConfigs(c *vl.Ctx, bigint string) []*config {
	drv := filepath.Join(c.Dir, "csrc", "c16", "driver.c")
	cfgs := []*config{
		{name: "limb64", exe: filepath.Join(c.W, "c16drv64"), bigint: bigint, repo: c.Repo, drvSrc: drv},
		{name: "limb32", exe: filepath.Join(c.W, "c16drv32"), bigint: bigint, repo: c.Repo, drvSrc: drv},
	}
	outs := make([]string, len(cfgs))
	errs := make([]error, len(cfgs))
	vl.ParDo(len(cfgs), len(cfgs), func(i int) { outs[i], errs[i] = cfgs[i].build() })
	for i, cf := range cfgs {
		if errs[i] != nil {
			fmt.Fprintf(os.Stderr, "C16: cannot compile the driver (%s) — harness broken, not a verdict:\nclang %s\n%v\n%s\n", cf.name, strings.Join(cf.compileArgs(cf.exe), " "), errs[i], outs[i])
			os.Exit(2)
		}
		want := map[string]string{"limb64": "64", "limb32": "32"}[cf.name]
		b, err := exec.Command(cf.exe, "limbbits").Output()
		if err != nil || strings.TrimSpace(string(b)) != want {
			fmt.Fprintf(os.Stderr, "C16: driver %s reports limb width %q (want %s): %v — harness broken\n", cf.name, strings.TrimSpace(string(b)), want, err)
			os.Exit(2)
		}
	}
	return cfgs
}

// replay re-executes the record of one replay directory and prints the comparison.
func replay(c *vl.Ctx, dir string) {
	b, err := os.ReadFile(filepath.Join(dir, "record.txt"))
	if err != nil {
		harnessBroken("replay: %v", err)
	}
	kv := map[string]string{}
	for _, l := range strings.Split(string(b), "\n") {
		if i := strings.IndexByte(l, '='); i > 0 {
			kv[l[:i]] = l[i+1:]
		}
	}
	var t *typ
	for _, x := range types {
		if x.name == kv["type"] {
			t = x
		}
	}
	if t == nil || len(kv["kind"]) != 1 {
		harnessBroken("replay: bad record.txt")
	}
	parse := func(h string) *opnd {
		if h == "" {
			return nil
		}
		x, ok := new(big.Int).SetString(h, 16)
		if !ok {
			harnessBroken("replay: bad hex %q", h)
		}
		return opndFromBig(x, t.W)
	}
	r := &rec{kind: kv["kind"][0], t: t, a: parse(kv["a"]), b: parse(kv["b"]), tag: kv["tag"], judge: kv["judge"] == "true"}
	if v, err := strconv.ParseInt(kv["n"], 10, 32); err == nil {
		r.n = int32(v)
	}
	if v, err := strconv.ParseUint(kv["v"], 10, 64); err == nil {
		r.v = v
	}
	if s, err := strconv.Unquote(kv["s"]); err == nil {
		r.s = s
		if r.judge {
			// recover the value from the judged spelling
			txt := strings.ReplaceAll(strings.TrimPrefix(s, "+"), "_", "")
			neg := strings.HasPrefix(txt, "-")
			txt = strings.TrimPrefix(txt, "-")
			base := 10
			if strings.HasPrefix(txt, "0x") || strings.HasPrefix(txt, "0X") {
				base, txt = 16, txt[2:]
			}
			x, ok := new(big.Int).SetString(txt, base)
			if !ok {
				harnessBroken("replay: cannot parse %q", s)
			}
			if neg {
				x.Neg(x)
			}
			r.want = x
		}
	}
	bigint := filepath.Join(c.Repo, "runtime", "core", "bigint.c")
	if p := os.Getenv("VERIF_C16_BIGINT"); p != "" {
		bigint = p
	}
	var cf *config
	for _, x := range buildConfigs(c, bigint) {
		if x.name == kv["cfg"] {
			cf = x
		}
	}
	if cf == nil {
		harnessBroken("replay: unknown cfg %q", kv["cfg"])
	}
	st := newStats()
	cf.runShard([]*rec{r}, st, false)
	fmt.Printf("C16 replay %s: %d judged comparisons, %d failing\n", dir, st.evals, len(st.fails))
	for _, f := range st.fails {
		fmt.Printf("FAIL %s: %s\n", f.id, f.obs)
	}
	if len(st.fails) > 0 {
		os.Exit(1)
	}
	os.Exit(0)
}
