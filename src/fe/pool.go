package fe

import (
	"bufio"
	"encoding/json"
	"fmt"
	"io"
	"os"
	"os/exec"
	"path/filepath"
	"runtime/pprof"
	"strings"
	"sync"
	"sync/atomic"
	"syscall"
	"time"
)

// WorkerMain is the body of `vcheck worker-fe <dir> <libs>`: read Projects, write Results.
func WorkerMain(dir, libs string) {
	if pf := os.Getenv("VERIF_CPUPROFILE"); pf != "" {
		if f, err := os.Create(fmt.Sprintf("%s.%d", pf, os.Getpid())); err == nil {
			pprof.StartCPUProfile(f)
			defer pprof.StopCPUProfile()
		}
	}
	in := json.NewDecoder(bufio.NewReaderSize(os.Stdin, 1<<20))
	// the compiler may print to stdout; keep the result channel on a private descriptor
	fd, err := syscall.Dup(1)
	if err != nil {
		panic(err)
	}
	syscall.Dup2(2, 1)
	w := bufio.NewWriterSize(os.NewFile(uintptr(fd), "results"), 1<<20)
	out := json.NewEncoder(w)
	// the compiler prints debug chatter to stdout in places; keep our channel clean
	for {
		var p Project
		if err := in.Decode(&p); err != nil {
			return
		}
		r := Compile(dir, libs, &p)
		out.Encode(&r)
		w.Flush()
	}
}

type worker struct {
	cmd  *exec.Cmd
	in   io.WriteCloser
	enc  *json.Encoder
	dec  *json.Decoder
	dir  string
	errb *tailBuf
}

type tailBuf struct {
	mu sync.Mutex
	b  []byte
}

func (t *tailBuf) Write(p []byte) (int, error) {
	t.mu.Lock()
	t.b = append(t.b, p...)
	if len(t.b) > 8192 {
		t.b = t.b[len(t.b)-8192:]
	}
	t.mu.Unlock()
	return len(p), nil
}
func (t *tailBuf) String() string { t.mu.Lock(); defer t.mu.Unlock(); return string(t.b) }

// Pool is a set of worker processes running the in-process front end.
type Pool struct {
	W, Libs string
	N       int
	Timeout time.Duration // first attempt
	Confirm time.Duration // confirmation attempts (alone, fresh worker)
	seq     int32
	free    chan *worker
	Calls   int64
	// Env is added to the environment of the worker processes.
	Env []string
}

func NewPool(scratch, libs string, n int) *Pool {
	p := &Pool{W: scratch, Libs: libs, N: n, Timeout: 90 * time.Second, Confirm: 240 * time.Second, free: make(chan *worker, n)}
	for i := 0; i < n; i++ {
		p.free <- nil
	}
	return p
}

func (p *Pool) spawn() *worker {
	id := atomic.AddInt32(&p.seq, 1)
	dir := filepath.Join(p.W, fmt.Sprintf("fe.%d", id), "proj")
	os.MkdirAll(dir, 0o755)
	exe, _ := os.Executable()
	cmd := exec.Command("/bin/sh", "-c", "ulimit -v 8388608; exec \"$0\" worker-fe \"$1\" \"$2\"", exe, dir, p.Libs)
	in, _ := cmd.StdinPipe()
	out, _ := cmd.StdoutPipe()
	tb := &tailBuf{}
	cmd.Stderr = tb
	if len(p.Env) > 0 {
		cmd.Env = append(os.Environ(), p.Env...)
	}
	if err := cmd.Start(); err != nil {
		fmt.Fprintln(os.Stderr, "cannot start worker:", err)
		os.Exit(2)
	}
	return &worker{cmd: cmd, in: in, enc: json.NewEncoder(in), dec: json.NewDecoder(bufio.NewReaderSize(out, 1<<20)), dir: dir, errb: tb}
}

func (w *worker) kill() {
	if w == nil {
		return
	}
	w.in.Close()
	if os.Getenv("VERIF_CPUPROFILE") != "" {
		time.Sleep(1500 * time.Millisecond) // let the worker see EOF and flush its profile
	}
	w.cmd.Process.Kill()
	w.cmd.Wait()
	os.RemoveAll(filepath.Dir(w.dir))
}

func (w *worker) call(pr *Project, d time.Duration) (Result, string) {
	type rr struct {
		r   Result
		err error
	}
	ch := make(chan rr, 1)
	go func() {
		if err := w.enc.Encode(pr.Wire()); err != nil {
			ch <- rr{err: err}
			return
		}
		var r Result
		err := w.dec.Decode(&r)
		ch <- rr{r, err}
	}()
	select {
	case x := <-ch:
		if x.err != nil {
			return Result{}, "died: " + x.err.Error()
		}
		return x.r, ""
	case <-time.After(d):
		return Result{}, "timeout"
	}
}

// Do compiles one project; on a timeout or a dead worker the input is re-run alone on a
// fresh worker with the long deadline three times before Timeout/Crash is reported.
func (p *Pool) Do(pr *Project) Result {
	atomic.AddInt64(&p.Calls, 1)
	w := <-p.free
	if w == nil {
		w = p.spawn()
	}
	r, bad := w.call(pr, p.Timeout)
	if bad == "" {
		p.free <- w
		return r
	}
	stderr := w.errb.String()
	w.kill()
	// confirmation protocol
	nTimeout, nDied := 0, 0
	var last Result
	for i := 0; i < 3; i++ {
		w2 := p.spawn()
		r2, bad2 := w2.call(pr, p.Confirm)
		if bad2 == "" {
			last = r2
			w2.kill()
			continue
		}
		if bad2 == "timeout" {
			nTimeout++
		} else {
			nDied++
			stderr = w2.errb.String()
		}
		w2.kill()
	}
	p.free <- nil
	res := Result{ID: pr.ID}
	switch {
	case nTimeout == 3:
		res.Timeout = true
	case nDied > 0:
		res.Crash = fmt.Sprintf("worker died %d/3 (first: %s): %s", nDied, bad, firstFatal(stderr))
	case nTimeout > 0:
		// slow but terminating under confirmation: not a verdict of non-termination
		return last
	default:
		return last
	}
	return res
}

func firstFatal(s string) string {
	for _, l := range strings.Split(s, "\n") {
		if strings.HasPrefix(l, "fatal error:") || strings.HasPrefix(l, "panic:") || strings.Contains(l, "runtime:") {
			return l
		}
	}
	if len(s) > 300 {
		s = s[len(s)-300:]
	}
	return strings.TrimSpace(s)
}

// Map compiles all projects in parallel and calls f (concurrently) with each result.
func (p *Pool) Map(n int, gen func(i int) *Project, f func(i int, r *Result)) {
	var wg sync.WaitGroup
	ch := make(chan int, 4*p.N)
	for k := 0; k < p.N; k++ {
		wg.Add(1)
		go func() {
			defer wg.Done()
			for i := range ch {
				pr := gen(i)
				if pr == nil {
					continue
				}
				r := p.Do(pr)
				f(i, &r)
			}
		}()
	}
	for i := 0; i < n; i++ {
		ch <- i
	}
	close(ch)
	wg.Wait()
}

func (p *Pool) Close() {
	for i := 0; i < p.N; i++ {
		w := <-p.free
		w.kill()
	}
}
