// Package fe drives the real compiler front end (and in-memory code generation)
// in-process and returns structured results. Used inside worker processes.
package fe

import (
	"encoding/base64"
	"fmt"
	"os"
	"path/filepath"
	"runtime"
	"strings"
	"unicode/utf8"

	"compiler/colors"
	"compiler/internal/context_v2"
	"compiler/internal/diagnostics"
	"compiler/internal/pipeline"
)

// Project is a set of files plus an entry file and a mode.
type Project struct {
	ID    string            `json:"id,omitempty"`
	Files map[string]string `json:"files"`          // relative path -> content
	// FilesB64 carries the files whose content is not valid UTF-8 across the JSON channel to
	// the worker (encoding/json would replace every offending byte by U+FFFD); filled in by
	// the pool, never by callers.
	FilesB64 map[string]string `json:"files_b64,omitempty"`
	Dirs  []string          `json:"dirs,omitempty"` // relative paths created as directories
	Entry string            `json:"entry"`
	Mode  string            `json:"mode"` // check | il | wasm | native (whole native pipeline: QBE, as, ld -> out.bin)
	// NoRender skips the ANSI/HTML rendering of diagnostics.
	NoRender bool `json:"norender,omitempty"`
	// Dir, when set, is an existing project directory to compile in place (Files are not
	// materialised); WantText returns the rendered diagnostics in Result.Rendered.
	Dir      string `json:"dir,omitempty"`
	WantText bool   `json:"wanttext,omitempty"`
}

type Diag struct {
	Sev     string `json:"sev"`
	Code    string `json:"code"`
	Msg     string `json:"msg"`
	File    string `json:"file"` // relative to the project dir when inside it
	Line    int    `json:"line"`
	Col     int    `json:"col"`
	ELine   int    `json:"eline"`
	ECol    int    `json:"ecol"`
	NLabels int    `json:"nlabels"`
	HasLoc  bool   `json:"hasloc"`
	NilFile bool   `json:"nilfile,omitempty"`
}

type Result struct {
	ID         string            `json:"id,omitempty"`
	Success    bool              `json:"success"`
	Diags      []Diag            `json:"diags"` // emission order (after the bag's sort)
	NErr       int               `json:"nerr"`
	Panic      string            `json:"panic,omitempty"`
	PanicFrame string            `json:"panicframe,omitempty"`
	RunErr     string            `json:"runerr,omitempty"`
	Wasm       []byte            `json:"wasm,omitempty"`
	WasmOnDisk bool              `json:"wasmondisk,omitempty"`
	ExeOnDisk  bool              `json:"exeondisk,omitempty"`
	Dir        string            `json:"dir,omitempty"`
	ILOrder    []string          `json:"ilorder,omitempty"`
	IL         map[string]string `json:"il,omitempty"`
	ILErr      string            `json:"ilerr,omitempty"`
	ANSILen    int               `json:"ansilen"`
	HTMLLen    int               `json:"htmllen"`
	Rendered   string            `json:"rendered,omitempty"`
	Timeout    bool              `json:"timeout,omitempty"`
	Crash      string            `json:"crash,omitempty"` // worker died (fatal error, OOM kill)
}

func (r *Result) Errors() []Diag {
	var e []Diag
	for _, d := range r.Diags {
		if d.Sev == "error" {
			e = append(e, d)
		}
	}
	return e
}

// Codes returns the sorted-unique error codes/messages summary.
func (r *Result) ErrSummary() string {
	var s []string
	for _, d := range r.Errors() {
		s = append(s, d.Code+":"+d.Msg)
	}
	return strings.Join(s, " | ")
}

// Wire returns the project as it has to be sent over a JSON channel: files that are not valid
// UTF-8 travel base64-encoded.
func (p *Project) Wire() *Project {
	bad := false
	for _, c := range p.Files {
		if !utf8.ValidString(c) {
			bad = true
			break
		}
	}
	if !bad {
		return p
	}
	q := *p
	q.Files = map[string]string{}
	q.FilesB64 = map[string]string{}
	for n, c := range p.Files {
		if utf8.ValidString(c) {
			q.Files[n] = c
		} else {
			q.FilesB64[n] = base64.StdEncoding.EncodeToString([]byte(c))
		}
	}
	return &q
}

// Materialise writes the project into dir (which is emptied first).
func Materialise(dir string, p *Project) error {
	os.RemoveAll(dir)
	if err := os.MkdirAll(dir, 0o755); err != nil {
		return err
	}
	for _, d := range p.Dirs {
		os.MkdirAll(filepath.Join(dir, d), 0o755)
	}
	for name, content := range p.Files {
		fp := filepath.Join(dir, name)
		os.MkdirAll(filepath.Dir(fp), 0o755)
		if err := os.WriteFile(fp, []byte(content), 0o644); err != nil {
			return err
		}
	}
	for name, b64 := range p.FilesB64 {
		content, err := base64.StdEncoding.DecodeString(b64)
		if err != nil {
			return err
		}
		fp := filepath.Join(dir, name)
		os.MkdirAll(filepath.Dir(fp), 0o755)
		if err := os.WriteFile(fp, content, 0o644); err != nil {
			return err
		}
	}
	return nil
}

func topRepoFrame() string {
	pcs := make([]uintptr, 64)
	n := runtime.Callers(3, pcs)
	frames := runtime.CallersFrames(pcs[:n])
	for {
		f, more := frames.Next()
		if strings.HasPrefix(f.Function, "compiler/") && !strings.HasPrefix(f.Function, "compiler/verifh/") {
			return f.Function
		}
		if !more {
			break
		}
	}
	return "?"
}

// Compile materialises p in dir and runs the pipeline the way compiler.Compile does.
func Compile(dir, libs string, p *Project) (res Result) {
	res.ID = p.ID
	if p.Dir != "" {
		dir = p.Dir
	} else if err := Materialise(dir, p); err != nil {
		res.Crash = "materialise: " + err.Error()
		return
	}
	entry := filepath.Join(dir, p.Entry)
	backend := "qbe"
	psize := 0
	out := filepath.Join(dir, "out.bin")
	if p.Mode == "wasm" {
		backend = "wasm"
		psize = 4
		out = filepath.Join(dir, "out.wasm")
	}
	config := &context_v2.Config{
		ProjectName: filepath.Base(dir), ProjectRoot: dir, Extension: ".fer",
		BuiltinModulesPath: libs, RuntimePath: libs, OutputPath: out,
		SkipCodegen: p.Mode != "wasm" && p.Mode != "native", CodegenBackend: backend, PointerSize: psize,
	}
	var ctx *context_v2.CompilerContext
	var pl *pipeline.Pipeline
	func() {
		defer func() {
			if r := recover(); r != nil {
				res.Panic = fmt.Sprint(r)
				res.PanicFrame = topRepoFrame()
			}
		}()
		ctx = context_v2.New(config, false)
		if err := ctx.SetEntryPoint(entry); err != nil {
			ctx.ReportError(fmt.Sprintf("Failed to set entry point: %v", err), nil)
			return
		}
		pl = pipeline.New(ctx)
		if err := pl.Run(); err != nil {
			res.RunErr = err.Error()
		}
		if p.Mode == "il" && !ctx.HasErrors() {
			order, il, err := pl.VerifEmitQBE()
			res.ILOrder, res.IL = order, il
			if err != nil {
				res.ILErr = err.Error()
			}
		}
	}()
	if ctx == nil {
		return
	}
	func() {
		defer func() {
			if r := recover(); r != nil && res.Panic == "" {
				res.Panic = "while collecting diagnostics: " + fmt.Sprint(r)
				res.PanicFrame = topRepoFrame()
			}
		}()
		res.Success = !ctx.HasErrors()
		ds := ctx.Diagnostics.Diagnostics()
		diagnostics.VerifSort(ds)
		for _, d := range ds {
			res.Diags = append(res.Diags, conv(dir, d))
			if d.Severity == diagnostics.Error {
				res.NErr++
			}
		}
		if p.Mode == "native" {
			res.Dir = dir
			if _, err := os.Stat(out); err == nil {
				res.ExeOnDisk = true
			}
		}
		if p.Mode == "wasm" {
			res.Wasm = ctx.CodegenOutput
			if _, err := os.Stat(out); err == nil {
				res.WasmOnDisk = true
			}
		}
	}()
	if !p.NoRender {
		func() {
			defer func() {
				if r := recover(); r != nil && res.Panic == "" {
					res.Panic = "while rendering diagnostics: " + fmt.Sprint(r)
					res.PanicFrame = topRepoFrame()
				}
			}()
			s := ctx.Diagnostics.EmitAllToString()
			res.ANSILen = len(s)
			if p.WantText {
				res.Rendered = s
			}
			res.HTMLLen = len(colors.ConvertANSIToHTML(s))
		}()
	}
	return
}

func conv(dir string, d *diagnostics.Diagnostic) Diag {
	o := Diag{Sev: d.Severity.String(), Code: d.Code, Msg: d.Message, NLabels: len(d.Labels)}
	if len(d.Labels) > 0 && d.Labels[0].Location != nil {
		l := d.Labels[0].Location
		o.HasLoc = true
		if l.Filename != nil {
			o.File = rel(dir, *l.Filename)
		} else {
			o.NilFile = true
		}
		if l.Start != nil {
			o.Line, o.Col = l.Start.Line, l.Start.Column
		}
		if l.End != nil {
			o.ELine, o.ECol = l.End.Line, l.End.Column
		}
	}
	if o.File == "" && d.FilePath != "" {
		o.File = rel(dir, d.FilePath)
	}
	return o
}

func rel(dir, f string) string {
	f = filepath.ToSlash(f)
	d := filepath.ToSlash(dir)
	if strings.HasPrefix(f, d+"/") {
		return f[len(d)+1:]
	}
	return f
}
