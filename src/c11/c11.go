// Package c11: implicit numeric conversions never lose information.
// The space (17x17 ordered type pairs x 7 assignment-like positions x {implicit, `as`})
// is finite and enumerated completely through the real front end.
package c11

import (
	"fmt"
	"path/filepath"
	"strings"

	"compiler/verifh/fe"
	"compiler/verifh/vl"
)

type nt struct {
	name   string
	float  bool
	signed bool
	bits   int // width (ints) / significand precision (floats)
	emax   int // floats: max binary exponent
}

var types = []nt{
	{"i8", false, true, 8, 0}, {"i16", false, true, 16, 0}, {"i32", false, true, 32, 0}, {"i64", false, true, 64, 0},
	{"i128", false, true, 128, 0}, {"i256", false, true, 256, 0},
	{"u8", false, false, 8, 0}, {"u16", false, false, 16, 0}, {"u32", false, false, 32, 0}, {"u64", false, false, 64, 0},
	{"u128", false, false, 128, 0}, {"u256", false, false, 256, 0},
	// IEEE-754 binary32/64/128/256: significand 24/53/113/237 bits (the 7/16/34/71 decimal
	// digits the compiler's own getFloatPrecision documents), emax 127/1023/16383/262143
	{"f32", true, true, 24, 127}, {"f64", true, true, 53, 1023}, {"f128", true, true, 113, 16383}, {"f256", true, true, 237, 262143},
	{"byte", false, false, 8, 0},
}

// embeds: every value of s is exactly representable in t (computed, not tabulated).
func embeds(s, t nt) bool {
	if s.name == t.name {
		return true
	}
	switch {
	case !s.float && !t.float:
		if s.signed == t.signed {
			return s.bits <= t.bits
		}
		if !s.signed && t.signed {
			return s.bits < t.bits
		}
		return false // signed -> unsigned loses negatives
	case !s.float && t.float:
		vb := s.bits
		if s.signed {
			vb--
		}
		// magnitudes up to 2^vb need vb significant bits at most (2^vb itself, for the signed
		// minimum, is a power of two and always representable); exponent range is ample.
		return vb <= t.bits
	case s.float && t.float:
		return s.bits <= t.bits && s.emax <= t.emax
	default:
		return false // float -> int
	}
}

var positions = []string{"let", "assign", "arg", "return", "field", "elem", "result",
	// more places where a value meets an expected type
	"catch-fallback", "coalesce-default", "second-arg", "method-arg", "closure-return", "field-assign", "elem-assign"}

// forms of the source expression (all of static type S); "var" is the plain variable
var forms = []string{"var", "sum", "quot", "paren", "call", "field-read", "elem-read", "narrowed", "neg"}

func srcExpr(form string) string {
	switch form {
	case "sum":
		return "x + x"
	case "quot":
		return "x / x"
	case "paren":
		return "(x)"
	case "call":
		return "idS(x)"
	case "field-read":
		return "sb.V"
	case "elem-read":
		return "sa[0]"
	case "narrowed":
		return "o"
	case "neg":
		return "-x"
	}
	return "x"
}

func lit(s nt) string {
	if s.float {
		return "1.5"
	}
	return "1"
}

func program(s, t nt, pos string, cast bool) string { return programF(s, t, pos, cast, "var") }

func programF(s, t nt, pos string, cast bool, form string) string {
	x := srcExpr(form)
	if cast {
		if form == "var" || form == "narrowed" {
			x = x + " as " + t.name
		} else {
			x = "(" + x + ") as " + t.name
		}
	}
	var b strings.Builder
	b.WriteString("import \"std/io\";\n")
	fmt.Fprintf(&b, "fn idS(v: %s) -> %s { return v; }\ntype SBox struct { .V: %s };\n", s.name, s.name, s.name)
	switch pos {
	case "catch-fallback":
		fmt.Fprintf(&b, "fn okT(f: bool) -> str ! %s { if f { return \"e\"!; } return %s; }\n", t.name, lit(t))
	case "second-arg":
		fmt.Fprintf(&b, "fn take2(u: bool, v: %s) { }\n", t.name)
	case "method-arg":
		fmt.Fprintf(&b, "type Rc struct { .A: i32 };\nfn (r: Rc) take(v: %s) { }\n", t.name)
	case "field-assign":
		fmt.Fprintf(&b, "type Box struct { .V: %s };\n", t.name)
	}
	switch pos {
	case "arg":
		fmt.Fprintf(&b, "fn take(v: %s) { }\n", t.name)
	case "return":
		fmt.Fprintf(&b, "fn conv(x: %s) -> %s { return %s; }\n", s.name, t.name, x)
	case "field":
		fmt.Fprintf(&b, "type Box struct { .V: %s };\n", t.name)
	case "result":
		fmt.Fprintf(&b, "fn conv(x: %s) -> str ! %s { return %s; }\n", s.name, t.name, x)
	}
	fmt.Fprintf(&b, "fn main() {\n    let x: %s = %s;\n    let sb := { .V = x } as SBox;\n    let sa: [2]%s = [x, x];\n    let o: %s? = x;\n", s.name, lit(s), s.name, s.name)
	if form == "narrowed" {
		b.WriteString("    if o != none {\n")
	}
	switch pos {
	case "catch-fallback":
		fmt.Fprintf(&b, "    let y: %s = okT(false) catch %s;\n", t.name, x)
	case "coalesce-default":
		fmt.Fprintf(&b, "    let oy: %s? = none;\n    let y: %s = oy ?? %s;\n", t.name, t.name, x)
	case "second-arg":
		fmt.Fprintf(&b, "    take2(true, %s);\n", x)
	case "method-arg":
		fmt.Fprintf(&b, "    let rc := { .A = 1 } as Rc;\n    rc.take(%s);\n", x)
	case "closure-return":
		fmt.Fprintf(&b, "    let cf := fn() -> %s { return %s; };\n", t.name, x)
	case "field-assign":
		fmt.Fprintf(&b, "    let bx := { .V = %s } as Box;\n    bx.V = %s;\n", lit(t), x)
	case "elem-assign":
		fmt.Fprintf(&b, "    let arr: [2]%s = [%s, %s];\n    arr[1] = %s;\n", t.name, lit(t), lit(t), x)
	}
	switch pos {
	case "let":
		fmt.Fprintf(&b, "    let y: %s = %s;\n", t.name, x)
	case "assign":
		fmt.Fprintf(&b, "    let y: %s = %s;\n    y = %s;\n", t.name, lit(t), x)
	case "arg":
		fmt.Fprintf(&b, "    take(%s);\n", x)
	case "return":
		b.WriteString("    let y := conv(x);\n")
	case "field":
		fmt.Fprintf(&b, "    let bx := { .V = %s } as Box;\n", x)
	case "elem":
		fmt.Fprintf(&b, "    let arr: [2]%s = [%s, %s];\n", t.name, lit(t), x)
	case "result":
		b.WriteString("    let y := conv(x) catch e { return; };\n")
	}
	if form == "narrowed" {
		b.WriteString("    }\n")
	}
	b.WriteString("}\n")
	return b.String()
}

type tc struct {
	s, t nt
	pos  string
	cast bool
	id   string
	form string
}

func Run(c *vl.Ctx) {
	var cases []tc
	for _, s := range types {
		for _, t := range types {
			for _, pos := range positions {
				for _, cast := range []bool{false, true} {
					k := "implicit"
					if cast {
						k = "cast"
					}
					cases = append(cases, tc{s, t, pos, cast, fmt.Sprintf("C11/%s/%s->%s/%s", k, s.name, t.name, pos), "var"})
				}
			}
			// the other forms of the source expression, in four positions
			for _, form := range forms[1:] {
				if form == "neg" && !s.signed {
					continue
				}
				if s.name == "byte" && (form == "sum" || form == "quot" || form == "neg") {
					continue
				}
				for _, pos := range []string{"let", "arg", "field", "catch-fallback"} {
					if (pos == "return" || pos == "result") && form != "var" {
						continue
					}
					for _, cast := range []bool{false, true} {
						k := "implicit"
						if cast {
							k = "cast"
						}
						cases = append(cases, tc{s, t, pos, cast, fmt.Sprintf("C11/%s/%s->%s/%s/%s", k, s.name, t.name, pos, form), form})
					}
				}
			}
		}
	}
	pool := fe.NewPool(c.W, filepath.Join(c.Repo, "ferret_libs"), 16)
	defer pool.Close()
	// controls: identity conversions must be accepted in every position (R2: a front end
	// that rejects everything cannot satisfy the check)
	var evals int64
	pool.Map(len(cases), func(i int) *fe.Project {
		k := cases[i]
		return &fe.Project{ID: k.id, Files: map[string]string{"main.fer": programF(k.s, k.t, k.pos, k.cast, k.form)}, Entry: "main.fer", Mode: "check", NoRender: true}
	}, func(i int, r *fe.Result) {
		k := cases[i]
		c.Count("programs", 1)
		src := programF(k.s, k.t, k.pos, k.cast, k.form)
		files := map[string]string{"main.fer": src}
		if r.Panic != "" || r.Timeout || r.Crash != "" {
			c.Fail(vl.Fail{Case: k.id, Obs: "front end did not answer: panic=" + r.Panic + " crash=" + r.Crash, Files: files})
			return
		}
		emb := embeds(k.s, k.t)
		acc := r.Success
		c.Outcome(fmt.Sprintf("cast=%v embeds=%v accepted=%v", k.cast, emb, acc))
		if !(k.s.name == k.t.name) {
			c.Distinct(k.id)
		}
		switch {
		case k.s.name == k.t.name && !acc:
			c.Fail(vl.Fail{Case: k.id, Obs: "control (identity conversion) rejected: " + r.ErrSummary(), Files: files})
		case !k.cast && acc && !emb:
			c.Fail(vl.Fail{Case: k.id, Obs: fmt.Sprintf("accepted without a cast although %s does not embed in %s", k.s.name, k.t.name), Files: files})
		case !k.cast && !acc && emb:
			c.Count("lossless_but_cast_demanded", 1) // counted, not judged
		case k.cast && !acc:
			// "all other numeric conversions require the cast": with the cast they are conversions
			// the language offers; a rejection is recorded per pair and judged only for the
			// int/float types (byte's explicit-only rule is the code's own, see DESIGN C11)
			if k.s.name != "byte" && k.t.name != "byte" {
				c.Fail(vl.Fail{Case: k.id, Obs: "rejected even with an explicit cast: " + r.ErrSummary(), Files: files})
			} else {
				c.Count("byte_cast_rejected", 1)
			}
		}
	})
	evals = int64(len(cases))
	for _, i := range []int{3, 500, 1201, 2000} {
		c.Sample(map[string]string{"id": cases[i].id, "program": programF(cases[i].s, cases[i].t, cases[i].pos, cases[i].cast, cases[i].form)})
	}
	c.Assume = append(c.Assume, "float formats are IEEE binary32/64/128/256 (significands 24/53/113/237), as the compiler's getFloatPrecision documents (7/16/34/71 digits)",
		"the verdict is the front end's (typecheck-only pipeline), reached in-process exactly as compiler.Compile builds it")
	c.Finish(vl.Coverage{Evaluations: evals, Exhaustive: true,
		Rule:  "all 17x17 ordered pairs of numeric types x 7 assignment-like positions x {no cast, `as T`}; embedding computed from value bits vs target range/significand; distinct_nontrivial = cases with S != T",
		Bound: "complete (finite space)"})
}
