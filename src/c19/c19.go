// Package c19: source layout does not change meaning; diagnostics follow the text.
//
// Base programs are token lists (progs.go): the position of every token in every variant is
// known by construction. Variants insert one trivia of an 16-letter alphabet into one gap
// (every gap x every trivia), the same trivia into ALL gaps at once, and (thorough) every pair
// of single insertions for a subset of small programs. Each variant is compiled by the real
// front end (fe pool, Mode "il": verdict + diagnostics + QBE IL of accepted programs) and
// compared with its base:
//
//	accept    acceptance changed
//	diagset   the multiset of (severity, code, message, file) changed
//	pos       a diagnostic's primary Start or End no longer points at the same token boundary
//	il-error  IL emission fails for the variant only
//	output    IL differs textually AND the natively built programs print different things
//	died      the front end panicked / crashed / timed out on the variant only
//
// Expected positions: line = 1 + LFs before, column = 1 + columns since the last LF, TAB = 4
// columns. /repo/internal/source/positions.go additionally does not advance the column for the
// character that follows a tab inside one Advance call and position_test.go pins that
// (`a\tb` ends in column 6). The lexer calls Advance once per match (whitespace run, comment,
// token), so three uniform readings exist: (M1) a tab is 4 columns and nothing else is special,
// (M2) the character after a tab never counts, (M3) it does not count when it belongs to the
// same lexer match as the tab. The oracle accepts a position iff it equals the expected
// position under one of the three; without tabs they coincide and the check is exact. With the
// tab trivia (base separator + TAB) this is DESIGN's rule: exact for start anchors, computed
// column or one less for the end anchor of the token that follows the tab.
//
// Deviations from DESIGN.md C19:
//   - quick uses 36 hand-written programs (13 accepted incl. 3 multi-module, 23 rejected; 14-110
//     tokens), thorough 18 accepted + 53 hand-written mutants filled up to 100 USABLE programs
//     with one-token-removal mutants (`;` `)` `}` `]`) of the accepted programs. A removal
//     mutant on whose BASE text the front end panics (about 15 do, e.g. `fn main ( {`: nil
//     dereference in diagnostics.sortDiagnostics) is not a layout matter (C13): it is counted
//     (base_front_end_died_programs_skipped) and replaced by the next candidate.
//   - the variants are visited round-robin over the programs, so a run capped by its budget
//     (quick 75 s, thorough 13 min; the machine is shared) still covers every program.
//   - maps and interfaces are not in the program set: `m[k] ?? d` and returning a struct as an
//     interface do not compile in the pinned tree; a fixed array is indexed by constants only
//     ("MIR lowering unsupported: array index"), `for` ranges use typed bounds.
//   - base files start and end with one LF so that "start of file"/"end of file" are distinct
//     from "start of token 0"/"end of the last token" when a base diagnostic is anchored.
//   - a base position strictly inside a token is anchored as (token, byte offset) rather than
//     reported as unanchored; only positions on no byte of the file are `C19/base-unanchored`.
//   - messages: compared verbatim; `line N` / `N:M` inside a message are normalised only
//     when the verbatim comparison fails (counted as msg_position_embedded).
//   - IL: literal ids (`__func_lit__N` ...) come from a process-global counter (C14's
//     territory) and are renamed in order of first appearance before comparing.
//   - every failing variant is re-compiled together with a fresh base compile and reported only
//     if the same observation repeats (multi-module diagnostics are schedule dependent, C14).
package c19

import (
	"fmt"
	"os"
	"path/filepath"
	"regexp"
	"sort"
	"strings"
	"sync"
	"sync/atomic"
	"time"

	"compiler/verifh/fe"
	"compiler/verifh/run"
	"compiler/verifh/vl"
)

type trivia struct {
	name, text string
	pre        bool // placed before the base separator (directly after the previous token)
}

var alphabet = []trivia{
	{"sp", " ", false},
	{"sp2", "  ", false},
	{"tab", "\t", false},
	{"lf", "\n", false},
	{"lf2", "\n\n", false},
	{"crlf", "\r\n", false},
	{"line", "// c\n", false},
	{"block", "/* c */", false},
	{"block2", "/* a\nb */", false},
	{"docabove", "\n/// doc\n", false},
	{"trail", " // c\n", true},
	// comments whose text is not ASCII (columns count characters), and the block-comment
	// spellings with stars next to the delimiters
	{"blocku", "/* \u00e9\u00fc */", false},
	{"lineu", "// \u00e9\n", false},
	{"blockstars", "/** c **/", false},
	{"blockempty", "/**/", false},
	{"block3", "/***/", false},
}

// ins maps a gap index to the trivia inserted there (in order).
type ins map[int][]int

type laid struct {
	text       string
	start, end []int
	seg        []bool // seg[i]: a lexer match begins at byte i
}

func (f *tfile) layout(in ins) *laid {
	var b strings.Builder
	l := &laid{}
	var segs []int
	gap := func(g int) {
		pre, post := "", ""
		for _, t := range in[g] {
			if alphabet[t].pre || g == 0 {
				pre += alphabet[t].text
			} else {
				post += alphabet[t].text
			}
		}
		txt := pre + f.seps[g] + post
		off := b.Len()
		// split the gap into whitespace runs and comments (the trivia are mine)
		for i := 0; i < len(txt); {
			segs = append(segs, off+i)
			switch {
			case strings.HasPrefix(txt[i:], "//"):
				for i < len(txt) && txt[i] != '\n' && txt[i] != '\r' {
					i++
				}
			case strings.HasPrefix(txt[i:], "/*"):
				i += strings.Index(txt[i:], "*/") + 2
			default:
				for i < len(txt) && (txt[i] == ' ' || txt[i] == '\t' || txt[i] == '\n' || txt[i] == '\r') {
					i++
				}
			}
		}
		b.WriteString(txt)
	}
	for i, t := range f.toks {
		gap(i)
		segs = append(segs, b.Len())
		l.start = append(l.start, b.Len())
		b.WriteString(t)
		l.end = append(l.end, b.Len())
	}
	gap(len(f.toks))
	l.text = b.String()
	l.seg = make([]bool, len(l.text)+1)
	for _, s := range segs {
		l.seg[s] = true
	}
	return l
}

type lc struct{ line, col int }

func (p lc) String() string { return fmt.Sprintf("%d:%d", p.line, p.col) }

// positions returns, for every byte offset 0..len(text), the position under M1, M2, M3.
func (l *laid) positions() [3][]lc {
	var out [3][]lc
	n := len(l.text)
	for m := 0; m < 3; m++ {
		out[m] = make([]lc, n+1)
		p := lc{1, 1}
		prevTab := false
		for i := 0; i <= n; i++ {
			if m == 2 && l.seg[i] {
				prevTab = false
			}
			out[m][i] = p
			if i == n {
				break
			}
			switch ch := l.text[i]; ch {
			case '\n':
				p.line++
				p.col = 1
				prevTab = false
			case '\t':
				p.col += 4
				prevTab = true
			default:
				if ch&0xC0 == 0x80 {
					break // a continuation byte of a UTF-8 sequence: columns count characters
				}
				if m == 0 || !prevTab {
					p.col++
				}
				prevTab = false
			}
		}
	}
	return out
}

// anchor: a position expressed relative to the token table.
type anchor struct {
	kind byte // 'B' start of file, 'E' end of file, 'T' token idx + byte offset k, 'U' unanchored, '0' no position
	idx  int
	k    int
}

func (a anchor) describe(f *tfile) string {
	switch a.kind {
	case 'B':
		return "start-of-file"
	case 'E':
		return "end-of-file"
	case 'T':
		t := f.toks[a.idx]
		switch a.k {
		case 0:
			return fmt.Sprintf("start-of-token %d `%s`", a.idx, t)
		case len(t):
			return fmt.Sprintf("end-of-token %d `%s`", a.idx, t)
		}
		return fmt.Sprintf("byte %d of token %d `%s`", a.k, a.idx, t)
	}
	return "?"
}

func (a anchor) offset(l *laid) int {
	switch a.kind {
	case 'B':
		return 0
	case 'E':
		return len(l.text)
	}
	return l.start[a.idx] + a.k
}

type variant struct {
	prog          int
	gapID, trivID string
	in            map[int]ins // file index -> insertions
}

type diagAnch struct {
	file   int // -1: not a project file
	sa, ea anchor
}

type baseInfo struct {
	p       *program
	res     fe.Result
	il      string
	anch    []diagAnch
	skip    string // non-empty: program not usable (reason)
	natOnce sync.Once
	natOut  string
}

func (p *program) files2(in map[int]ins) (map[string]string, []*laid) {
	m := map[string]string{}
	ls := make([]*laid, len(p.files))
	for i, f := range p.files {
		l := f.layout(in[i])
		ls[i] = l
		m[f.name] = l.text
	}
	return m, ls
}

var posInMsg = regexp.MustCompile(`\bline \d+|\b\d+:\d+\b`)
var litRe = regexp.MustCompile(`__(func|struct|interface|enum)_lit__\d+`)

func normIL(r *fe.Result) string {
	var b strings.Builder
	for _, m := range r.ILOrder {
		b.WriteString("== " + m + "\n" + r.IL[m])
	}
	ren := map[string]string{}
	return litRe.ReplaceAllStringFunc(b.String(), func(s string) string {
		if v, ok := ren[s]; ok {
			return v
		}
		v := fmt.Sprintf("%s#%d", s[:strings.LastIndex(s, "_")+1], len(ren))
		ren[s] = v
		return v
	})
}

func died(r *fe.Result) string {
	switch {
	case r.Panic != "":
		return "panic: " + r.Panic + " in " + r.PanicFrame
	case r.Timeout:
		return "timeout"
	case r.Crash != "":
		return "crash"
	}
	return ""
}

func dkey(d fe.Diag, norm bool) string {
	msg := d.Msg
	if norm {
		msg = posInMsg.ReplaceAllString(msg, "#")
	}
	return fmt.Sprintf("%s|%s|%s|%s|loc=%v", d.Sev, d.Code, msg, d.File, d.HasLoc && d.Line > 0)
}

func sortDiags(ds []fe.Diag) []fe.Diag {
	out := append([]fe.Diag{}, ds...)
	sort.SliceStable(out, func(i, j int) bool {
		a, b := out[i], out[j]
		if a.Line != b.Line {
			return a.Line < b.Line
		}
		if a.Col != b.Col {
			return a.Col < b.Col
		}
		if a.ELine != b.ELine {
			return a.ELine < b.ELine
		}
		return a.ECol < b.ECol
	})
	return out
}

func diagSummary(ds []fe.Diag) string {
	var s []string
	for _, d := range ds {
		s = append(s, fmt.Sprintf("%s %s %q @%s", d.Sev, d.Code, d.Msg, d.File))
	}
	sort.Strings(s)
	return strings.Join(s, " ; ")
}

func (p *program) fileIndex(name string) int {
	for i, f := range p.files {
		if f.name == name {
			return i
		}
	}
	return -1
}

// analyseBase anchors every base diagnostic.
func analyseBase(p *program, r *fe.Result) (anch []diagAnch, unanch []string) {
	_, ls := p.files2(nil)
	type key struct{ line, col int }
	maps := make([]map[key]anchor, len(ls))
	for i, l := range ls {
		pos := l.positions()[0]
		m := map[key]anchor{}
		m[key{pos[len(l.text)].line, pos[len(l.text)].col}] = anchor{kind: 'E'}
		for ti := range l.start {
			for k := 0; k <= len(p.files[i].toks[ti]); k++ {
				q := pos[l.start[ti]+k]
				m[key{q.line, q.col}] = anchor{kind: 'T', idx: ti, k: k}
			}
		}
		if _, dup := m[key{1, 1}]; !dup {
			m[key{1, 1}] = anchor{kind: 'B'}
		}
		maps[i] = m
	}
	for _, d := range r.Diags {
		da := diagAnch{file: p.fileIndex(d.File), sa: anchor{kind: '0'}, ea: anchor{kind: '0'}}
		if da.file >= 0 && d.HasLoc && d.Line > 0 {
			find := func(line, col int, which string) anchor {
				if a, ok := maps[da.file][key{line, col}]; ok {
					return a
				}
				unanch = append(unanch, fmt.Sprintf("%s %s %q: %s %d:%d in %s is on no byte of the file", d.Sev, d.Code, d.Msg, which, line, col, d.File))
				return anchor{kind: 'U'}
			}
			da.sa = find(d.Line, d.Col, "start")
			if d.ELine > 0 {
				da.ea = find(d.ELine, d.ECol, "end")
			}
		}
		anch = append(anch, da)
	}
	return
}

type finding struct{ what, obs string }

// evaluate compares one variant result with the base.
func evaluate(c *vl.Ctx, b *baseInfo, v *variant, r *fe.Result, count bool) []finding {
	var out []finding
	if d := died(r); d != "" {
		return []finding{{"died", "front end did not answer on the variant (base answered): " + d}}
	}
	if r.Success != b.res.Success {
		return []finding{{"accept", fmt.Sprintf("base accepted=%v, variant accepted=%v; base diagnostics: [%s]; variant diagnostics: [%s]",
			b.res.Success, r.Success, diagSummary(b.res.Errors()), diagSummary(r.Errors()))}}
	}
	// multiset of diagnostics
	norm := false
	same := func(norm bool) bool {
		if len(r.Diags) != len(b.res.Diags) {
			return false
		}
		cnt := map[string]int{}
		for _, d := range b.res.Diags {
			cnt[dkey(d, norm)]++
		}
		for _, d := range r.Diags {
			cnt[dkey(d, norm)]--
		}
		for _, n := range cnt {
			if n != 0 {
				return false
			}
		}
		return true
	}
	if !same(false) {
		if same(true) {
			norm = true
			if count {
				c.Count("msg_position_embedded", 1)
			}
		} else {
			return []finding{{"diagset", fmt.Sprintf("base: [%s]; variant: [%s]", diagSummary(b.res.Diags), diagSummary(r.Diags))}}
		}
	}
	// positions
	_, ls := b.p.files2(v.in)
	posc := map[int][3][]lc{}
	groupsB := map[string][]int{}
	bs := b.res.Diags
	for i, d := range bs {
		groupsB[dkey(d, norm)] = append(groupsB[dkey(d, norm)], i)
	}
	groupsV := map[string][]fe.Diag{}
	for _, d := range sortDiags(r.Diags) {
		groupsV[dkey(d, norm)] = append(groupsV[dkey(d, norm)], d)
	}
	var bad []string
	for k, idxs := range groupsB {
		// base diagnostics of one key in position order
		sort.SliceStable(idxs, func(x, y int) bool {
			a, bb := bs[idxs[x]], bs[idxs[y]]
			if a.Line != bb.Line {
				return a.Line < bb.Line
			}
			if a.Col != bb.Col {
				return a.Col < bb.Col
			}
			if a.ELine != bb.ELine {
				return a.ELine < bb.ELine
			}
			return a.ECol < bb.ECol
		})
		vs := groupsV[k]
		for j, bi := range idxs {
			bd, vd, an := bs[bi], vs[j], b.anch[bi]
			if an.file < 0 {
				if bd.Line != vd.Line || bd.Col != vd.Col || bd.ELine != vd.ELine || bd.ECol != vd.ECol {
					bad = append(bad, fmt.Sprintf("%s %s %q in %s (not a project file): base %d:%d-%d:%d variant %d:%d-%d:%d", bd.Sev, bd.Code, bd.Msg, bd.File,
						bd.Line, bd.Col, bd.ELine, bd.ECol, vd.Line, vd.Col, vd.ELine, vd.ECol))
				}
				continue
			}
			chk := func(a anchor, line, col int, which string) {
				if a.kind == '0' || a.kind == 'U' {
					return
				}
				l := ls[an.file]
				ps, ok := posc[an.file]
				if !ok {
					ps = l.positions()
					posc[an.file] = ps
				}
				off := a.offset(l)
				got := lc{line, col}
				var exp []string
				okp := false
				for m := 0; m < 3; m++ {
					e := ps[m][off]
					if e == got {
						okp = true
					}
					s := e.String()
					dup := false
					for _, x := range exp {
						if x == s {
							dup = true
						}
					}
					if !dup {
						exp = append(exp, s)
					}
				}
				if count {
					if len(exp) > 1 {
						c.Count("anchors_checked_tab_either", 1)
					} else {
						c.Count("anchors_checked_exact", 1)
					}
				}
				if !okp {
					bad = append(bad, fmt.Sprintf("%s %s %q in %s: %s anchored at %s: expected %s observed %s", bd.Sev, bd.Code, bd.Msg, bd.File,
						which, a.describe(b.p.files[an.file]), strings.Join(exp, " or "), got))
				}
			}
			chk(an.sa, vd.Line, vd.Col, "start")
			chk(an.ea, vd.ELine, vd.ECol, "end")
		}
	}
	if len(bad) > 0 {
		sort.Strings(bad)
		out = append(out, finding{"pos", strings.Join(bad, " ; ")})
	}
	// generated code
	if b.res.Success {
		if r.ILErr != b.res.ILErr {
			out = append(out, finding{"il-error", fmt.Sprintf("IL emission: base error %q, variant error %q", b.res.ILErr, r.ILErr)})
		}
	}
	return out
}

func project(files map[string]string, entry, mode string) *fe.Project {
	return &fe.Project{Files: files, Entry: entry, Mode: mode, NoRender: true}
}

func Run(c *vl.Ctx) {
	quick := c.Quick()
	if quick {
		c.SetBudget(300 * time.Second)
	} else {
		c.SetBudget(13 * time.Minute)
	}
	progs, fill, err := buildPrograms(quick)
	if err != nil {
		fmt.Fprintln(os.Stderr, "c19: bad program table (not a verdict):", err)
		os.Exit(2)
	}
	nTotal := len(progs)
	if !quick {
		nTotal = 100
	}
	if only := os.Getenv("C19_ONLY"); only != "" { // debugging aid: restrict to programs by name prefix
		var sel []*program
		for _, p := range progs {
			for _, pre := range strings.Split(only, ",") {
				if strings.HasPrefix(p.name, pre) {
					sel = append(sel, p)
					break
				}
			}
		}
		progs = sel
	}
	pool := fe.NewPool(c.W, filepath.Join(c.Repo, "ferret_libs"), 16)
	defer pool.Close()
	var evals int64

	// ---- base phase -----------------------------------------------------------------
	doBase := func(p *program) *baseInfo {
		b := &baseInfo{p: p}
		files, _ := p.files2(nil)
		var rs [3]fe.Result
		for k := range rs {
			rs[k] = pool.Do(project(files, p.files[0].name, "il"))
			atomic.AddInt64(&evals, 1)
		}
		b.res = rs[0]
		b.il = normIL(&rs[0])
		if d := died(&rs[0]); d != "" {
			// not a layout matter (C13's territory): counted, the program is not used
			b.skip = "front end died on the base: " + d
			c.Count("base_front_end_died_programs_skipped", 1)
			return b
		}
		for k := 1; k < 3; k++ {
			if rs[k].Success != rs[0].Success || diagSummary(rs[k].Diags) != diagSummary(rs[0].Diags) || fmt.Sprint(sortDiags(rs[k].Diags)) != fmt.Sprint(sortDiags(rs[0].Diags)) {
				b.skip = "base diagnostics differ between identical compiles"
			}
		}
		if b.skip != "" {
			c.Count("base_unstable_programs_skipped", 1)
			return b
		}
		if rs[0].Success && (normIL(&rs[1]) != b.il || normIL(&rs[2]) != b.il) {
			c.Count("base_il_unstable_programs", 1)
			b.il = "" // IL not comparable for this program
		}
		switch {
		case p.expect && !rs[0].Success:
			c.Fail(vl.Fail{Case: "C19/" + p.name + "/base/control", Obs: "control program rejected: " + rs[0].ErrSummary(), Files: files})
		case p.expect && rs[0].ILErr != "":
			c.Fail(vl.Fail{Case: "C19/" + p.name + "/base/control-il", Obs: "control program: IL emission failed: " + rs[0].ILErr, Files: files})
		case !p.expect && rs[0].Success:
			c.Count("mutants_accepted_by_the_compiler(used_as_accepted_programs)", 1)
		}
		var un []string
		b.anch, un = analyseBase(p, &rs[0])
		sort.Strings(un)
		for k, u := range un {
			if k > 0 && un[k-1] == u {
				continue
			}
			c.Fail(vl.Fail{Case: fmt.Sprintf("C19/base-unanchored/%s/%d", p.name, k), Obs: u, Files: files})
		}
		for _, d := range rs[0].Diags {
			if posInMsg.MatchString(d.Msg) {
				c.Count("base_messages_embedding_positions", 1)
			}
			c.Outcome("base " + d.Sev + " " + d.Code)
		}
		if rs[0].Success {
			c.Outcome("base accepted")
		} else {
			c.Outcome(fmt.Sprintf("base rejected, %d error(s)", rs[0].NErr))
		}
		return b
	}
	var bases []*baseInfo
	runBases := func(ps []*program) {
		bs := make([]*baseInfo, len(ps))
		vl.ParDo(len(ps), 16, func(i int) { bs[i] = doBase(ps[i]) })
		bases = append(bases, bs...)
	}
	runBases(progs)
	usable := func() int {
		n := 0
		for _, b := range bases {
			if b.skip == "" {
				n++
			}
		}
		return n
	}
	for usable() < nTotal && len(fill) > 0 && os.Getenv("C19_ONLY") == "" {
		k := nTotal - usable()
		if k > len(fill) {
			k = len(fill)
		}
		progs = append(progs, fill[:k]...)
		runBases(fill[:k])
		fill = fill[k:]
	}
	if os.Getenv("C19_DUMP") != "" {
		for _, b := range bases {
			fmt.Printf("BASE %-28s accepted=%v ilerr=%q skip=%q\n", b.p.name, b.res.Success, b.res.ILErr, b.skip)
			for i, d := range b.res.Diags {
				if i >= len(b.anch) {
					break
				}
				a := b.anch[i]
				f := "?"
				if a.file >= 0 {
					f = a.sa.describe(b.p.files[a.file]) + " .. " + a.ea.describe(b.p.files[a.file])
				}
				fmt.Printf("     %s %s %q %s %d:%d-%d:%d  [%s]\n", d.Sev, d.Code, d.Msg, d.File, d.Line, d.Col, d.ELine, d.ECol, f)
			}
		}
	}

	// ---- variants -------------------------------------------------------------------
	var vars []variant
	gapName := func(p *program, fi, g int) string {
		if fi == 0 {
			return fmt.Sprint(g)
		}
		return strings.TrimSuffix(filepath.Base(p.files[fi].name), ".fer") + "." + fmt.Sprint(g)
	}
	nSingles, nAll, nPairs := 0, 0, 0
	perProg := make([][]variant, len(bases))
	for pi, b := range bases {
		if b.skip != "" {
			continue
		}
		p := b.p
		for t := range alphabet {
			in := map[int]ins{}
			for fi, f := range p.files {
				in[fi] = ins{}
				for g := 0; g <= len(f.toks); g++ {
					in[fi][g] = []int{t}
				}
			}
			perProg[pi] = append(perProg[pi], variant{pi, "all", alphabet[t].name, in})
			nAll++
		}
		for fi, f := range p.files {
			for g := 0; g <= len(f.toks); g++ {
				for t := range alphabet {
					perProg[pi] = append(perProg[pi], variant{pi, gapName(p, fi, g), alphabet[t].name, map[int]ins{fi: {g: {t}}}})
					nSingles++
				}
			}
		}
	}
	// round-robin over the programs, so that a run capped by its budget still covers all of them
	for k := 0; ; k++ {
		any := false
		for pi := range perProg {
			if k < len(perProg[pi]) {
				vars = append(vars, perProg[pi][k])
				any = true
			}
		}
		if !any {
			break
		}
	}
	pairProgs := map[string]bool{"tiny": true, "tiny.no-semi": true, "tiny.let-type": true, "tiny.undefined": true, "small.no-semi": true}
	if !quick {
		for pi, b := range bases {
			if b.skip != "" || !pairProgs[b.p.name] {
				continue
			}
			f := b.p.files[0]
			n := len(f.toks) + 1
			for g1 := 0; g1 < n; g1++ {
				for g2 := g1; g2 < n; g2++ {
					for t1 := range alphabet {
						for t2 := range alphabet {
							var in ins
							if g1 == g2 {
								in = ins{g1: {t1, t2}} // ordered pairs in one gap
							} else {
								in = ins{g1: {t1}, g2: {t2}}
							}
							vars = append(vars, variant{pi, fmt.Sprintf("%d+%d", g1, g2), alphabet[t1].name + "+" + alphabet[t2].name, map[int]ins{0: in}})
							nPairs++
						}
					}
				}
			}
		}
	}

	type ilDiff struct {
		v     *variant
		files map[string]string
	}
	var mu sync.Mutex
	var ilDiffs []ilDiff
	var capped int64
	pool.Map(len(vars), func(i int) *fe.Project {
		if i%512 == 0 && c.OverBudget() {
			atomic.StoreInt64(&capped, 1)
		}
		if atomic.LoadInt64(&capped) != 0 {
			return nil
		}
		v := &vars[i]
		p := progs[v.prog]
		files, _ := p.files2(v.in)
		return project(files, p.files[0].name, "il")
	}, func(i int, r *fe.Result) {
		atomic.AddInt64(&evals, 1)
		v := &vars[i]
		b := bases[v.prog]
		p := b.p
		id := fmt.Sprintf("C19/%s/%s/%s", p.name, v.gapID, v.trivID)
		fs := evaluate(c, b, v, r, true)
		files, _ := p.files2(v.in)
		if len(fs) > 0 {
			// confirmation: fresh base + fresh variant must give the same observation
			nb := &baseInfo{p: p}
			bf, _ := p.files2(nil)
			nb.res = pool.Do(project(bf, p.files[0].name, "il"))
			r2 := pool.Do(project(files, p.files[0].name, "il"))
			atomic.AddInt64(&evals, 2)
			var fs2 []finding
			if died(&nb.res) == "" {
				nb.anch, _ = analyseBase(p, &nb.res)
				fs2 = evaluate(c, nb, v, &r2, false)
			}
			if fmt.Sprint(fs) != fmt.Sprint(fs2) {
				c.Count("failures_not_reproduced(schedule_dependent)", 1)
				fs = nil
			}
		}
		for _, f := range fs {
			c.Fail(vl.Fail{Case: id + "/" + f.what, Obs: f.obs, Files: files})
			c.Outcome("FAIL " + f.what)
		}
		if len(fs) == 0 {
			if b.res.Success {
				c.Outcome("accepted, same diagnostics")
			} else {
				c.Outcome("rejected, same diagnostics, positions follow")
			}
		}
		c.Distinct(id)
		if b.res.Success && r.Success && b.il != "" && died(r) == "" {
			if normIL(r) == b.il {
				c.Count("il_identical", 1)
			} else {
				c.Count("il_differs_textually", 1)
				mu.Lock()
				ilDiffs = append(ilDiffs, ilDiff{v, files})
				mu.Unlock()
			}
		}
	})

	// ---- IL differences: run natively (at most 40) -----------------------------------
	sort.Slice(ilDiffs, func(i, j int) bool {
		a, b := ilDiffs[i].v, ilDiffs[j].v
		ka := progs[a.prog].name + "/" + a.gapID + "/" + a.trivID
		kb := progs[b.prog].name + "/" + b.gapID + "/" + b.trivID
		return ka < kb
	})
	if len(ilDiffs) > 0 {
		rn := run.New(c)
		native := func(files map[string]string, entry string) string {
			top := rn.NewDir()
			defer os.RemoveAll(top)
			dir := filepath.Join(top, "proj")
			os.MkdirAll(dir, 0o755)
			run.WriteFiles(dir, files)
			bl := rn.CompileNative(dir, entry)
			if !bl.Exists {
				return "compile failed (" + bl.Compile.Term() + ")"
			}
			pr := rn.Exec(bl)
			return pr.Term() + "\n" + pr.Stdout
		}
		n := len(ilDiffs)
		if n > 40 {
			c.Count("il_differs_not_run(over_the_40_sample)", int64(n-40))
			n = 40
		}
		vl.ParDo(n, 8, func(i int) {
			d := ilDiffs[i]
			b := bases[d.v.prog]
			b.natOnce.Do(func() {
				bf, _ := b.p.files2(nil)
				b.natOut = native(bf, b.p.files[0].name)
			})
			got := native(d.files, b.p.files[0].name)
			c.Count("il_differs_run_natively", 1)
			if got != b.natOut {
				c.Fail(vl.Fail{Case: fmt.Sprintf("C19/%s/%s/%s/output", b.p.name, d.v.gapID, d.v.trivID),
					Obs: fmt.Sprintf("IL differs and the programs behave differently: base %q, variant %q", b.natOut, got), Files: d.files})
			} else {
				c.Count("il_differs_same_output", 1)
			}
		})
	}

	nAcc, nRej := 0, 0
	for _, b := range bases {
		if b.res.Success {
			nAcc++
		} else {
			nRej++
		}
	}
	if len(vars) > 0 {
		v := vars[len(vars)/3]
		files, _ := progs[v.prog].files2(v.in)
		c.Sample(map[string]any{"case": fmt.Sprintf("C19/%s/%s/%s", progs[v.prog].name, v.gapID, v.trivID), "files": files})
	}
	c.Count("programs", int64(len(progs)))
	c.Count("programs_accepted", int64(nAcc))
	c.Count("programs_rejected", int64(nRej))
	c.Count("variants_single", int64(nSingles))
	c.Count("variants_all_gaps", int64(nAll))
	c.Count("variants_pairs", int64(nPairs))
	c.Assume = append(c.Assume,
		"token tables are written by hand (one space or LF between tokens); no lexer other than the compiler's is involved",
		"tab columns: a position is accepted if it matches one of three uniform readings of positions.go/position_test.go (tab = 4; the character after a tab not counted never / always / within one lexer match)",
		"comments never contain @extern; programs are ASCII",
		"IL equality (after renaming process-global literal ids) is taken as equal behaviour; textually different IL is decided by running natively (sample of at most 40)")
	c.Finish(vl.Coverage{Evaluations: atomic.LoadInt64(&evals), Exhaustive: atomic.LoadInt64(&capped) == 0,
		Rule: "for every base program (token list): every gap x every trivia of the 16-letter alphabet, each trivia in all gaps at once" +
			map[bool]string{true: "", false: ", and all pairs of single insertions (incl. ordered pairs in one gap) for 5 small programs"}[quick] +
			"; distinct_nontrivial = variants compiled",
		Bound: fmt.Sprintf("%d programs (%d accepted, %d rejected), %d variants", len(progs), nAcc, nRej, len(vars))})
}
