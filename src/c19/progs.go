package c19

import (
	"fmt"
	"strings"
)

// The base programs are written as TOKEN LISTS: in the texts below every lexical token is
// separated from its neighbours by exactly one space or exactly one newline (so `io::Println(x);`
// is spelled `io :: Println ( x ) ;`). Splitting on those two characters gives the token table and
// the base separator of every gap; no lexer is involved. A negative literal such as `-5` is ONE
// token (the minus is attached), `a - 5` is three; trivia is only ever ADDED next to the existing
// separator, so no adjacency is created or destroyed. String literals contain no blanks.

type srcFile struct {
	name string
	text string
}

type baseProg struct {
	name  string
	files []srcFile // files[0] is the entry
	tier  int       // 0 = quick and thorough, 1 = thorough only
}

// mutant: one edit of an accepted program that makes it ill-formed (exactly one error intended).
type mutant struct {
	base, name string
	file       string // which file is edited
	old, new   string // token-separated; old must occur exactly once
	tier       int
}

const ioImp = `import "std/io" ;` + "\n"

var accepted = []baseProg{
	{name: "structs", files: []srcFile{{"main.fer", ioImp +
		`type P struct { . X : i32 , . Y : i32 } ;
fn ( p : P ) sum ( ) -> i32 { return p . X + p . Y ; }
fn main ( ) {
let p := { . X = 1 , . Y = -5 } as P ;
io :: Println ( p . sum ( ) ) ;
io :: Println ( p . X - 3 ) ;
}`}}},
	{name: "enums", tier: 1, files: []srcFile{{"main.fer", ioImp +
		`type Status enum { Pending , Active , Done } ;
fn main ( ) {
let s : Status = Status :: Active ;
match s {
Status :: Pending => { io :: Println ( "pending" ) ; }
Status :: Active => { io :: Println ( "active" ) ; }
_ => { io :: Println ( "other" ) ; }
}
let v := 102 ;
match v { 10 => { io :: Println ( "ten" ) ; } _ => { io :: Println ( "not_ten" ) ; } }
}`}}},
	{name: "arrays", tier: 1, files: []srcFile{{"main.fer", ioImp +
		`fn main ( ) {
let arr : [ 3 ] i32 = [ 1 , -2 , 3 ] ;
let sum : i32 = arr [ 0 ] + arr [ 2 ] ;
let i : i32 = 0 ;
while i < 3 { sum += i ; i ++ ; }
io :: Println ( sum ) ;
let nums := [ 1 , 2 , 3 ] ;
append ( &' nums , 4 ) ;
io :: Println ( len ( nums ) ) ;
let j : i32 = 2 ;
io :: Println ( nums [ j ] ) ;
}`}}},
	{name: "closures", files: []srcFile{{"main.fer", ioImp +
		`fn main ( ) {
let x : i32 = 5 ;
let add := fn ( y : i32 ) -> i32 {
return x + y ;
} ;
io :: Println ( add ( 7 ) ) ;
}`}}},
	{name: "results", files: []srcFile{{"main.fer", ioImp +
		`fn divide ( a : i32 , b : i32 ) -> str ! i32 {
if b == 0 { return "div_by_zero" ! ; }
return a / b ;
}
fn main ( ) {
let ok := divide ( 10 , 2 ) catch -1 ;
io :: Println ( ok ) ;
let fb := divide ( 10 , 0 ) catch e { io :: Println ( e ) ; } -1 ;
io :: Println ( fb ) ;
}`}}},
	{name: "refs", files: []srcFile{{"main.fer", ioImp +
		`fn bump ( r : &' i32 ) { r = r + 1 ; }
fn main ( ) {
let a : i32 = 10 ;
{
let r : & i32 = & a ;
io :: Println ( r ) ;
}
bump ( &' a ) ;
io :: Println ( a ) ;
}`}}},
	{name: "loops", files: []srcFile{{"main.fer", ioImp +
		`fn main ( ) {
let i : i32 = 0 ;
let sum : i32 = 0 ;
while i < 5 {
i += 1 ;
if i == 3 { continue ; }
if i == 5 { break ; } else { sum += i ; }
}
let lo : i32 = 0 ;
let hi : i32 = 3 ;
for k in lo .. hi { sum = sum + k ; }
io :: Println ( sum ) ;
}`}}},
	{name: "strings", files: []srcFile{{"main.fer", ioImp +
		`fn greet ( name : str , n : i32 ) -> i32 {
io :: Println ( name ) ;
return n * -2 ;
}
fn main ( ) {
let s : str = "he//llo" ;
let t := "a\tb/*x*/" ;
io :: Println ( greet ( s , 4 ) ) ;
io :: Println ( t ) ;
let q : i32 = 7 - -3 ;
io :: Println ( q ) ;
}`}}},
	{name: "consts", files: []srcFile{{"main.fer", ioImp +
		`fn clamp ( v : i32 ) -> i32 {
if v > 40 { return 40 ; } else { return v ; }
}
fn main ( ) {
const k : i32 = 3 ;
let w : i32 = ( k + 2 ) * 9 - 1 ;
io :: Println ( clamp ( w ) ) ;
io :: Println ( k - 5 ) ;
}`}}},
	{name: "small", files: []srcFile{{"main.fer", ioImp +
		`fn main ( ) {
let a : i32 = 2 ;
io :: Println ( a + 1 ) ;
}`}}},
	{name: "trailing", files: []srcFile{{"main.fer", ioImp +
		`type P struct { . X : i32 , } ;
fn add ( a : i32 , b : i32 , ) -> i32 { return a + b ; }
fn main ( ) {
let p := { . X = 1 , } as P ;
io :: Println ( add ( p . X , 2 ) ) ;
}`}}},
	{name: "tiny", files: []srcFile{{"main.fer", `fn main ( ) {
let a : i32 = 2 ;
}`}}},
	{name: "modfn", files: []srcFile{
		{"main.fer", `import "std/io" ;
import "proj/util" ;
fn main ( ) {
io :: Println ( util :: Twice ( 4 ) ) ;
io :: Println ( util :: Base ) ;
}`},
		{"util.fer", `const Base : i32 = 7 ;
fn helper ( v : i32 ) -> i32 { return v + v ; }
fn Twice ( v : i32 ) -> i32 { return helper ( v ) ; }`}}},
	{name: "modtype", files: []srcFile{
		{"main.fer", `import "std/io" ;
import "proj/lib/shape" as sh ;
fn main ( ) {
let b := sh :: Make ( 3 ) ;
io :: Println ( b . Area ( ) ) ;
io :: Println ( b . W ) ;
}`},
		{"lib/shape.fer", `type Box struct { . W : i32 , . h : i32 } ;
fn ( b : Box ) Area ( ) -> i32 { return b . W * b . h ; }
fn Make ( n : i32 ) -> Box { return { . W = n , . h = 2 } as Box ; }`}}},
	{name: "modchain", files: []srcFile{
		{"main.fer", `import "std/io" ;
import "proj/mid" ;
fn main ( ) { io :: Println ( mid :: Go ( 2 ) ) ; }`},
		{"mid.fer", `import "proj/leaf" ;
fn Go ( n : i32 ) -> i32 { return leaf :: Inc ( n ) * 10 ; }`},
		{"leaf.fer", `fn Inc ( n : i32 ) -> i32 { return n + 1 ; }`}}},
	{name: "optionals", tier: 1, files: []srcFile{{"main.fer", ioImp +
		`fn main ( ) {
let a : i32 ? = 5 ;
let b : i32 ? = none ;
let z : i32 = 0 ;
let v := a ?? z ;
let w := b ?? z ;
io :: Println ( v ) ;
io :: Println ( w ) ;
}`}}},
	{name: "logic", tier: 1, files: []srcFile{{"main.fer", ioImp +
		`fn pick ( a : i32 , b : i32 ) -> i32 {
if a > b && ! ( a == 3 ) { return a ; } else if a < b || b == 0 { return b ; }
return - a ;
}
fn main ( ) {
io :: Println ( pick ( 5 , 2 ) ) ;
io :: Println ( pick ( 1 , 2 ) ) ;
io :: Println ( pick ( 3 , 3 ) ) ;
let ok : bool = true ;
if ok { io :: Println ( "yes" ) ; }
}`}}},
	{name: "nested", tier: 1, files: []srcFile{{"main.fer", ioImp +
		`type In struct { . A : i32 } ;
type Out struct { . I : In , . B : i32 } ;
fn main ( ) {
let o := { . I = { . A = 4 } as In , . B = -1 } as Out ;
let f := fn ( q : i32 ) -> i32 { let g := fn ( r : i32 ) -> i32 { return r * 2 ; } ; return g ( q ) + 1 ; } ;
io :: Println ( f ( o . I . A ) + o . B ) ;
}`}}},
}

var mutants = []mutant{
	// structs
	{base: "structs", name: "unknown-field", file: "main.fer", old: `( p . X - 3 )`, new: `( p . Z - 3 )`},
	{base: "structs", name: "field-type", file: "main.fer", old: `. Y = -5 }`, new: `. Y = "s" }`, tier: 1},
	{base: "structs", name: "no-semi-return", file: "main.fer", old: `p . X + p . Y ; }`, new: `p . X + p . Y }`},
	{base: "structs", name: "no-semi-type", file: "main.fer", old: `. Y : i32 } ;`, new: `. Y : i32 }`, tier: 1},
	{base: "structs", name: "unknown-method", file: "main.fer", old: `p . sum ( )`, new: `p . total ( )`, tier: 1},
	// enums
	{base: "enums", name: "unknown-variant", file: "main.fer", old: `= Status :: Active ;`, new: `= Status :: Nope ;`, tier: 1},
	{base: "enums", name: "no-arrow", file: "main.fer", old: `_ => { io :: Println ( "other" )`, new: `_ { io :: Println ( "other" )`, tier: 1},
	{base: "enums", name: "match-type", file: "main.fer", old: `match v { 10 =>`, new: `match v { "x" =>`, tier: 1},
	// arrays
	{base: "arrays", name: "elem-type", file: "main.fer", old: `sum += i ;`, new: `sum += "x" ;`, tier: 1},
	{base: "arrays", name: "no-bracket", file: "main.fer", old: `arr [ 0 ] + arr`, new: `arr [ 0 + arr`, tier: 1},
	{base: "arrays", name: "undefined", file: "main.fer", old: `len ( nums )`, new: `len ( numz )`, tier: 1},
	{base: "arrays", name: "index-type", file: "main.fer", old: `nums [ j ]`, new: `nums [ "k" ]`, tier: 1},
	// closures
	{base: "closures", name: "argcount", file: "main.fer", old: `add ( 7 )`, new: `add ( 7 , 8 )`},
	{base: "closures", name: "undefined", file: "main.fer", old: `return x + y ;`, new: `return x + z ;`},
	{base: "closures", name: "no-semi-lit", file: "main.fer", old: "} ;\nio", new: "}\nio", tier: 1},
	// results
	{base: "results", name: "no-paren", file: "main.fer", old: `divide ( 10 , 2 ) catch`, new: `divide ( 10 , 2 catch`},
	{base: "results", name: "ret-type", file: "main.fer", old: `return a / b ;`, new: `return "q" ;`},
	{base: "results", name: "argcount", file: "main.fer", old: `divide ( 10 , 0 )`, new: `divide ( 10 )`, tier: 1},
	// refs
	{base: "refs", name: "arg-type", file: "main.fer", old: `bump ( &' a ) ;`, new: `bump ( "s" ) ;`},
	{base: "refs", name: "no-semi-let", file: "main.fer", old: `let r : & i32 = & a ;`, new: `let r : & i32 = & a`},
	// loops
	{base: "loops", name: "const-assign", file: "main.fer", old: `let i : i32 = 0 ;`, new: `const i : i32 = 0 ;`, tier: 1},
	{base: "loops", name: "cond-type", file: "main.fer", old: `while i < 5 {`, new: `while "s" {`, tier: 1},
	{base: "loops", name: "no-semi-break", file: "main.fer", old: `{ break ; }`, new: `{ break }`},
	{base: "loops", name: "no-brace", file: "main.fer", old: `{ continue ; }`, new: `{ continue ;`, tier: 1},
	// strings
	{base: "strings", name: "argcount", file: "main.fer", old: `greet ( s , 4 )`, new: `greet ( s )`, tier: 1},
	{base: "strings", name: "let-type", file: "main.fer", old: `let s : str = "he//llo" ;`, new: `let s : i32 = "he//llo" ;`, tier: 1},
	{base: "strings", name: "no-semi-last", file: "main.fer", old: `( q ) ;`, new: `( q )`, tier: 1},
	{base: "strings", name: "no-paren-def", file: "main.fer", old: `n : i32 ) -> i32 {`, new: `n : i32 -> i32 {`, tier: 1},
	// consts
	{base: "consts", name: "const-assign", file: "main.fer", old: `let w : i32 =`, new: `k = 4 ; let w : i32 =`},
	{base: "consts", name: "missing-return", file: "main.fer", old: `else { return v ; }`, new: `else { }`},
	{base: "consts", name: "no-paren-expr", file: "main.fer", old: `( k + 2 ) * 9`, new: `( k + 2 * 9`, tier: 1},
	{base: "consts", name: "undefined-fn", file: "main.fer", old: `clamp ( w )`, new: `clump ( w )`, tier: 1},
	// small
	{base: "small", name: "no-semi", file: "main.fer", old: `( a + 1 ) ;`, new: `( a + 1 )`},
	{base: "small", name: "let-type", file: "main.fer", old: `let a : i32 = 2 ;`, new: `let a : i32 = "two" ;`},
	{base: "small", name: "undefined", file: "main.fer", old: `( a + 1 )`, new: `( b + 1 )`},
	{base: "small", name: "no-paren", file: "main.fer", old: `( a + 1 ) ;`, new: `( a + 1 ;`},
	{base: "trailing", name: "no-semi", file: "main.fer", old: `, } as P ;`, new: `, } as P`},
	{base: "tiny", name: "no-semi", file: "main.fer", old: `= 2 ;`, new: `= 2`},
	{base: "tiny", name: "let-type", file: "main.fer", old: `= 2 ;`, new: `= "s" ;`},
	{base: "tiny", name: "undefined", file: "main.fer", old: `= 2 ;`, new: `= zz ;`},
	// modules
	{base: "modfn", name: "private-fn", file: "main.fer", old: `util :: Twice ( 4 )`, new: `util :: helper ( 4 )`},
	{base: "modfn", name: "unknown-member", file: "main.fer", old: `util :: Base`, new: `util :: Nope`, tier: 1},
	{base: "modfn", name: "lib-type", file: "util.fer", old: `return v + v ;`, new: `return "s" ;`, tier: 1},
	{base: "modfn", name: "lib-no-semi", file: "util.fer", old: `return helper ( v ) ;`, new: `return helper ( v )`},
	{base: "modtype", name: "private-field", file: "main.fer", old: `( b . W )`, new: `( b . h )`},
	{base: "modtype", name: "argcount", file: "main.fer", old: `sh :: Make ( 3 )`, new: `sh :: Make ( )`, tier: 1},
	{base: "modtype", name: "lib-unknown-field", file: "lib/shape.fer", old: `b . W * b . h`, new: `b . W * b . d`, tier: 1},
	{base: "modchain", name: "leaf-type", file: "leaf.fer", old: `return n + 1 ;`, new: `return "s" ;`},
	{base: "modchain", name: "bad-import", file: "main.fer", old: `import "proj/mid" ;`, new: `import "proj/nomid" ;`, tier: 1},
	// thorough-only bases
	{base: "optionals", name: "none-to-int", file: "main.fer", old: `let z : i32 = 0 ;`, new: `let z : i32 = none ;`, tier: 1},
	{base: "logic", name: "bool-type", file: "main.fer", old: `let ok : bool = true ;`, new: `let ok : bool = 1 ;`, tier: 1},
	{base: "logic", name: "no-brace", file: "main.fer", old: `{ return a ; } else if`, new: `{ return a ; else if`, tier: 1},
	{base: "nested", name: "inner-undefined", file: "main.fer", old: `return r * 2 ;`, new: `return rr * 2 ;`, tier: 1},
}

// ---------------------------------------------------------------------------------------

// tfile is one source file as a token table.
type tfile struct {
	name string
	toks []string
	seps []string // len(toks)+1; seps[0] and seps[n] are "\n", inner ones " " or "\n"
}

type program struct {
	name    string
	files   []*tfile // files[0] = entry
	expect  bool     // true: control, must be accepted
	twin    string   // accepted twin of a mutant
	removal bool     // generated by removing one token
}

func tokenize(name, text string) (*tfile, error) {
	f := &tfile{name: name, seps: []string{"\n"}}
	cur := ""
	for i := 0; i < len(text); i++ {
		ch := text[i]
		if ch == ' ' || ch == '\n' {
			if cur == "" {
				return nil, fmt.Errorf("%s: empty token at byte %d", name, i)
			}
			f.toks = append(f.toks, cur)
			f.seps = append(f.seps, string(ch))
			cur = ""
			continue
		}
		if ch == '\t' || ch == '\r' || ch >= 0x80 {
			return nil, fmt.Errorf("%s: forbidden byte %q", name, ch)
		}
		cur += string(ch)
	}
	if cur == "" {
		return nil, fmt.Errorf("%s: text ends with a separator", name)
	}
	f.toks = append(f.toks, cur)
	f.seps = append(f.seps, "\n")
	for _, t := range f.toks {
		if strings.Contains(t, "@extern") {
			return nil, fmt.Errorf("%s: @extern", name)
		}
	}
	return f, nil
}

func (b baseProg) build() (*program, error) {
	p := &program{name: b.name, expect: true}
	for _, sf := range b.files {
		f, err := tokenize(sf.name, sf.text)
		if err != nil {
			return nil, fmt.Errorf("%s/%v", b.name, err)
		}
		p.files = append(p.files, f)
	}
	return p, nil
}

// buildPrograms returns the hand-written programs of the tier (controls and mutants) and the
// ordered list of one-token-removal candidates used to fill the thorough tier up.
func buildPrograms(quick bool) ([]*program, []*program, error) {
	var out []*program
	byName := map[string]baseProg{}
	var bases []baseProg
	for _, b := range accepted {
		if quick && b.tier > 0 {
			continue
		}
		byName[b.name] = b
		bases = append(bases, b)
		p, err := b.build()
		if err != nil {
			return nil, nil, err
		}
		out = append(out, p)
	}
	for _, m := range mutants {
		if quick && m.tier > 0 {
			continue
		}
		b, ok := byName[m.base]
		if !ok {
			return nil, nil, fmt.Errorf("mutant %s/%s: no base", m.base, m.name)
		}
		nb := baseProg{name: m.base + "." + m.name}
		found := false
		for _, sf := range b.files {
			if sf.name == m.file {
				// the edit is anchored on whole tokens: pad with separators
				padded := "\n" + sf.text + "\n"
				n := 0
				for _, l := range []string{" ", "\n"} {
					for _, r := range []string{" ", "\n"} {
						n += strings.Count(padded, l+m.old+r)
					}
				}
				if n != 1 {
					return nil, nil, fmt.Errorf("mutant %s/%s: pattern occurs %d times", m.base, m.name, n)
				}
				i := strings.Index(sf.text, m.old)
				sf.text = sf.text[:i] + m.new + sf.text[i+len(m.old):]
				found = true
			}
			nb.files = append(nb.files, sf)
		}
		if !found {
			return nil, nil, fmt.Errorf("mutant %s/%s: no file %s", m.base, m.name, m.file)
		}
		p, err := nb.build()
		if err != nil {
			return nil, nil, err
		}
		p.expect, p.twin = false, m.base
		out = append(out, p)
	}
	// one-token-removal mutants (`;` `)` `}` `]`) of every accepted program
	type cand struct {
		p    *program
		rank int
	}
	var cands []cand
	for bi, b := range bases {
		bp, _ := b.build()
		k := 0
		for fi, f := range bp.files {
			for ti, t := range f.toks {
				if t != ";" && t != ")" && t != "}" && t != "]" {
					continue
				}
				if fi == 0 && ti < 3 {
					continue // the std/io import line
				}
				np := &program{name: fmt.Sprintf("%s.rm%d_%d", b.name, fi, ti), twin: b.name, removal: true}
				for fj, g := range bp.files {
					ng := &tfile{name: g.name, toks: append([]string{}, g.toks...), seps: append([]string{}, g.seps...)}
					if fj == fi {
						ng.toks = append(ng.toks[:ti:ti], g.toks[ti+1:]...)
						// the removed token's left separator goes with it
						ng.seps = append(ng.seps[:ti:ti], g.seps[ti+1:]...)
						if ti == 0 {
							ng.seps[0] = "\n"
						}
					}
					np.files = append(np.files, ng)
				}
				cands = append(cands, cand{np, k*1000 + bi})
				k++
			}
		}
	}
	// per base, visit its removable tokens in a golden-ratio order (spreads over the text)
	perBase := map[int][]*program{}
	for _, c := range cands {
		perBase[c.rank%1000] = append(perBase[c.rank%1000], c.p)
	}
	for bi := range bases {
		l := perBase[bi]
		m := len(l)
		used := make([]bool, m)
		var ord []*program
		for k := 0; len(ord) < m; k++ {
			x := float64(k) * 0.6180339887
			j := int((x - float64(int(x))) * float64(m))
			for used[j] {
				j = (j + 1) % m
			}
			used[j] = true
			ord = append(ord, l[j])
		}
		perBase[bi] = ord
	}
	var fill []*program
	for k := 0; ; k++ {
		any := false
		for bi := range bases {
			if k < len(perBase[bi]) {
				fill = append(fill, perBase[bi][k])
				any = true
			}
		}
		if !any {
			break
		}
	}
	return out, fill, nil
}
