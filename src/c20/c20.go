// Package c20: TOML write/parse round trip — bounded-exhaustive enumeration of tables,
// trivia insertions and raw file contents against the real toml package.
package c20

import (
	"fmt"
	"math"
	"os"
	"path/filepath"
	"reflect"
	"sort"
	"strings"
	"sync/atomic"

	"compiler/toml"
	"compiler/verifh/vl"
)

type val struct {
	name string
	v    any
}

var sections = []string{"default", "compiler", "build", "cache", "external", "neighbors", "dependencies"}
var keys = []string{"a", "k_1", "A-b", "1"}

func values(quick bool) []val {
	vs := []val{
		{"s:empty", ""}, {"s:a", "a"}, {"s: a ", " a "}, {"s:#", "#"}, {"s:a#b", "a#b"}, {"s:a = b", "a = b"},
		{"s:[x]", "[x]"}, {"s:1", "1"}, {"s:-1", "-1"}, {"s:1.5", "1.5"}, {"s:1e3", "1e3"}, {"s:tru", "tru"},
		{"s:True", "True"}, {"s:é", "é"}, {"s:tab", "\t"}, {"s:a b", "a b"}, {"s:=", "="}, {"s: # c", " # c"},
		{"s:nan", "nan"}, {"s:0x10", "0x10"},
		{"b:true", true}, {"b:false", false},
		{"i:0", 0}, {"i:1", 1}, {"i:-1", -1}, {"i:max", math.MaxInt64}, {"i:min", math.MinInt64}, {"i:42", 42},
		{"f:0.5", 0.5}, {"f:-0.5", -0.5}, {"f:1.0", 1.0}, {"f:-0.0", math.Copysign(0, -1)}, {"f:0.0", 0.0}, {"f:100.0", 100.0},
		{"f:1e21", 1e21}, {"f:1e-7", 1e-7}, {"f:5e-324", 5e-324}, {"f:max", math.MaxFloat64}, {"f:0.1", 0.1},
		{"f:1/3", 1.0 / 3}, {"f:2^63", 9223372036854775808.0}, {"f:-2^63", -9223372036854775808.0}, {"f:-3.0", -3.0},
		{"s:0xFF-byte", "a\xffb"},
	}
	return vs
}

type entry struct {
	sec, key string
	v        val
}

func sameValue(a, b any) bool {
	if fa, ok := a.(float64); ok {
		fb, ok := b.(float64)
		return ok && math.Float64bits(fa) == math.Float64bits(fb)
	}
	return reflect.TypeOf(a) == reflect.TypeOf(b) && reflect.DeepEqual(a, b)
}

func sameData(want, got toml.TOMLData) string {
	if len(want) != len(got) {
		return fmt.Sprintf("sections: want %v got %v", secNames(want), secNames(got))
	}
	for s, t := range want {
		g, ok := got[s]
		if !ok {
			return fmt.Sprintf("section %q missing; got %v", s, secNames(got))
		}
		if len(t) != len(g) {
			return fmt.Sprintf("section %q: want %d keys got %d", s, len(t), len(g))
		}
		for k, v := range t {
			gv, ok := g[k]
			if !ok {
				return fmt.Sprintf("key %s.%s missing", s, k)
			}
			if !sameValue(v, gv) {
				return fmt.Sprintf("value %s.%s: want %T(%#v) got %T(%#v)", s, k, v, v, gv, gv)
			}
		}
	}
	return ""
}

func secNames(d toml.TOMLData) []string {
	var n []string
	for k := range d {
		n = append(n, k)
	}
	sort.Strings(n)
	return n
}

type tcase struct {
	id      string
	ents    []entry
	emptys  []string // sections present but empty
	comment map[string]map[string]string
}

func (t *tcase) data() toml.TOMLData {
	d := toml.TOMLData{}
	for _, s := range t.emptys {
		d[s] = toml.TOMLTable{}
	}
	for _, e := range t.ents {
		if d[e.sec] == nil {
			d[e.sec] = toml.TOMLTable{}
		}
		d[e.sec][e.key] = e.v.v
	}
	return d
}

func parseSafe(path string) (d toml.TOMLData, err error, pan any) {
	defer func() {
		if r := recover(); r != nil {
			pan = r
		}
	}()
	d, err = toml.ParseTOMLFile(path)
	return
}

func writeSafe(path string, d toml.TOMLData, cm map[string]map[string]string) (err error, pan any) {
	defer func() {
		if r := recover(); r != nil {
			pan = r
		}
	}()
	err = toml.WriteTOMLFile(path, d, cm)
	return
}

var trivia = []struct{ name, text string }{
	{"comment-line", "# c = 9\n"}, {"blank", "\n"}, {"blank-sp", "   \n"}, {"comment-indented", "  # x\n"},
}

// runCase: write, parse, compare; then trivia variants of the written file.
func runCase(c *vl.Ctx, dir string, t *tcase, withTrivia bool) (evals int64) {
	path := filepath.Join(dir, "t.toml")
	want := t.data()
	err, pan := writeSafe(path, want, t.comment)
	evals++
	fail := func(kind, obs string, extra map[string]string) {
		files := map[string]string{"table.txt": describe(t)}
		if b, e := os.ReadFile(path); e == nil {
			files["written.toml"] = string(b)
		}
		for k, v := range extra {
			files[k] = v
		}
		c.Fail(vl.Fail{Case: t.id + kind, Obs: obs, Files: files})
	}
	if pan != nil || err != nil {
		fail("/write", fmt.Sprintf("write failed: err=%v panic=%v", err, pan), nil)
		return
	}
	got, err, pan := parseSafe(path)
	if pan != nil || err != nil {
		fail("/parse", fmt.Sprintf("parse failed: err=%v panic=%v", err, pan), nil)
		return
	}
	if d := sameData(want, got); d != "" {
		c.Outcome("roundtrip-diff")
		fail("/roundtrip", d, nil)
		return
	}
	c.Outcome("roundtrip-ok")
	if !withTrivia {
		return
	}
	raw, _ := os.ReadFile(path)
	lines := strings.SplitAfter(string(raw), "\n")
	if len(lines) > 0 && lines[len(lines)-1] == "" {
		lines = lines[:len(lines)-1]
	}
	p2 := filepath.Join(dir, "v.toml")
	check := func(name, content string) {
		os.WriteFile(p2, []byte(content), 0o644)
		g2, err, pan := parseSafe(p2)
		evals++
		if pan != nil || err != nil {
			fail("/trivia/"+name, fmt.Sprintf("parse failed: err=%v panic=%v", err, pan), map[string]string{"variant.toml": content})
			return
		}
		if d := sameData(got, g2); d != "" {
			c.Outcome("trivia-diff")
			fail("/trivia/"+name, d, map[string]string{"variant.toml": content})
			return
		}
		c.Outcome("trivia-ok")
	}
	for i := 0; i <= len(lines); i++ {
		for _, tv := range trivia {
			check(fmt.Sprintf("%s@%d", tv.name, i), strings.Join(lines[:i], "")+tv.text+strings.Join(lines[i:], ""))
		}
	}
	for i := range lines {
		l := lines[i]
		body := strings.TrimSuffix(l, "\n")
		if strings.TrimSpace(body) == "" {
			continue
		}
		mod := func(nl string) string {
			return strings.Join(lines[:i], "") + nl + "\n" + strings.Join(lines[i+1:], "")
		}
		check(fmt.Sprintf("lead-blanks@%d", i), mod("  \t"+body))
		check(fmt.Sprintf("trail-blanks@%d", i), mod(body+" \t "))
		if !strings.HasPrefix(strings.TrimSpace(body), "[") && !strings.Contains(body, " # ") {
			check(fmt.Sprintf("inline-comment@%d", i), mod(body+" # note \"q\" = 1"))
			check(fmt.Sprintf("around-eq@%d", i), mod(strings.Replace(body, " = ", "   =\t", 1)))
		}
	}
	check("crlf", strings.ReplaceAll(string(raw), "\n", "\r\n"))
	return
}

func describe(t *tcase) string {
	var sb strings.Builder
	for _, s := range t.emptys {
		fmt.Fprintf(&sb, "[%s] (empty)\n", s)
	}
	for _, e := range t.ents {
		fmt.Fprintf(&sb, "%s.%s = %T(%#v)", e.sec, e.key, e.v.v, e.v.v)
		if cm, ok := t.comment[e.sec][e.key]; ok {
			fmt.Fprintf(&sb, "   # %s", cm)
		}
		sb.WriteString("\n")
	}
	return sb.String()
}

func Run(c *vl.Ctx) {
	quick := c.Quick()
	vs := values(quick)
	var cases []*tcase
	add := func(t *tcase) { cases = append(cases, t) }
	// 0 entries: every subset of ≤2 empty sections
	add(&tcase{id: "C20/empty-table"})
	for i, s := range sections {
		add(&tcase{id: "C20/empty-section/" + s, emptys: []string{s}})
		for _, s2 := range sections[i+1:] {
			add(&tcase{id: "C20/empty-section/" + s + "+" + s2, emptys: []string{s, s2}})
		}
	}
	// 1 entry, every section × key × value, with/without inline comment
	comments := []string{"", "c", "a # b", `say "hi"`}
	for _, s := range sections {
		for _, k := range keys {
			for _, v := range vs {
				for ci, cm := range comments {
					t := &tcase{id: fmt.Sprintf("C20/one/%s/%s/%s/c%d", s, k, v.name, ci), ents: []entry{{s, k, v}}}
					if cm != "" {
						t.comment = map[string]map[string]string{s: {k: cm}}
					}
					add(t)
				}
			}
		}
	}
	// 2 entries: same section (two keys) and two sections; thorough: all sections, quick: 3 section pairs
	secPairs := [][2]string{{"default", "default"}, {"build", "build"}, {"default", "build"}, {"compiler", "dependencies"}}
	if !quick {
		secPairs = nil
		for i, s := range sections {
			for _, s2 := range sections[i:] {
				secPairs = append(secPairs, [2]string{s, s2})
			}
		}
	}
	keyPairs := [][2]string{{"a", "k_1"}, {"1", "A-b"}}
	for _, sp := range secPairs {
		for _, kp := range keyPairs {
			k2 := kp[1]
			for _, v1 := range vs {
				for _, v2 := range vs {
					for ci := 0; ci < 2; ci++ {
						t := &tcase{id: fmt.Sprintf("C20/two/%s.%s=%s/%s.%s=%s/c%d", sp[0], kp[0], v1.name, sp[1], k2, v2.name, ci),
							ents: []entry{{sp[0], kp[0], v1}, {sp[1], k2, v2}}}
						if ci == 1 {
							t.comment = map[string]map[string]string{sp[0]: {kp[0]: "first"}}
						}
						add(t)
					}
				}
			}
		}
	}
	// same key in two sections; an entry next to an empty section
	for _, v := range vs {
		add(&tcase{id: "C20/samekey/" + v.name, ents: []entry{{"default", "a", v}, {"cache", "a", v}}})
		add(&tcase{id: "C20/with-empty/" + v.name, ents: []entry{{"build", "a", v}}, emptys: []string{"cache"}})
	}
	if !quick {
		// 3 entries over a reduced value alphabet
		red := []val{}
		for _, v := range vs {
			switch v.name {
			case "s:a#b", "s:1", "s:[x]", "b:true", "i:-1", "f:1.0", "f:0.5", "s:empty", "f:1e21":
				red = append(red, v)
			}
		}
		for _, s1 := range []string{"default", "build"} {
			for _, s2 := range []string{"default", "cache"} {
				for _, s3 := range []string{"build", "dependencies"} {
					for _, v1 := range red {
						for _, v2 := range red {
							for _, v3 := range red {
								add(&tcase{id: fmt.Sprintf("C20/three/%s=%s/%s=%s/%s=%s", s1, v1.name, s2, v2.name, s3, v3.name),
									ents: []entry{{s1, "a", v1}, {s2, "k_1", v2}, {s3, "A-b", v3}}})
							}
						}
					}
				}
			}
		}
	}
	// long values (line-length shortcut of the line scanner)
	for _, n := range []int{4095, 4096, 65535, 65536, 70000, 200000} {
		add(&tcase{id: fmt.Sprintf("C20/longstring/%d", n), ents: []entry{{"build", "a", val{fmt.Sprintf("s:a*%d", n), strings.Repeat("a", n)}}}})
	}

	var evals int64
	nw := 16
	dirs := make([]string, nw)
	for i := range dirs {
		dirs[i] = filepath.Join(c.W, fmt.Sprintf("c20.%d", i))
		os.MkdirAll(dirs[i], 0o755)
	}
	var slot int32
	ch := make(chan int, 64)
	done := make(chan struct{})
	for w := 0; w < nw; w++ {
		go func() {
			dir := dirs[atomic.AddInt32(&slot, 1)-1]
			for i := range ch {
				t := cases[i]
				withTrivia := len(t.ents) <= 1 || i%7 == 0 || !quick
				if strings.HasPrefix(t.id, "C20/longstring") {
					withTrivia = false
				}
				n := runCase(c, dir, t, withTrivia)
				atomic.AddInt64(&evals, n)
				if len(t.ents) > 0 {
					c.Distinct(t.id)
				}
			}
			done <- struct{}{}
		}()
	}
	for i := range cases {
		ch <- i
	}
	close(ch)
	for w := 0; w < nw; w++ {
		<-done
	}
	c.Count("tables", int64(len(cases)))
	for _, i := range []int{0, 30, 1000, len(cases) / 2, len(cases) - 1} {
		if i < len(cases) {
			c.Sample(map[string]string{"id": cases[i].id, "table": describe(cases[i])})
		}
	}

	// (iii) raw contents: no crash, (data,nil) or (nil,err)
	alpha := []string{"a", "=", "\"", "#", "[", "]", " ", "\n", "\\", "1", ".", "\xff"}
	maxLen := 4
	if !quick {
		maxLen = 6
	}
	var raws int64
	total := 0
	for l, n := 0, 1; l <= maxLen; l, n = l+1, n*len(alpha) {
		total += n
	}
	// shard by first two symbols
	shards := len(alpha) * len(alpha)
	vl.ParDo(shards+1, nw, func(sh int) {
		dir := filepath.Join(c.W, fmt.Sprintf("c20r.%d", sh))
		os.MkdirAll(dir, 0o755)
		defer os.RemoveAll(dir)
		p := filepath.Join(dir, "r.toml")
		try := func(content string) {
			os.WriteFile(p, []byte(content), 0o644)
			d, err, pan := parseSafe(p)
			atomic.AddInt64(&raws, 1)
			switch {
			case pan != nil:
				c.Outcome("raw-panic")
				c.Fail(vl.Fail{Case: "C20/raw/" + fmt.Sprintf("%q", content), Obs: fmt.Sprintf("panic: %v", pan), Files: map[string]string{"r.toml": content}})
			case err != nil && d != nil, err == nil && d == nil:
				c.Fail(vl.Fail{Case: "C20/raw/" + fmt.Sprintf("%q", content), Obs: fmt.Sprintf("inconsistent return: data=%v err=%v", d, err), Files: map[string]string{"r.toml": content}})
			case err != nil:
				c.Outcome("raw-error")
			default:
				c.Outcome(fmt.Sprintf("raw-ok-%dsec", len(d)))
			}
		}
		if sh == shards {
			try("")
			for _, a := range alpha {
				try(a)
			}
			try(strings.Repeat("a", 65*1024))
			try("a = \"" + strings.Repeat("b", 70000) + "\"\n")
			try(strings.Repeat("[", 70000))
			return
		}
		pre := alpha[sh/len(alpha)] + alpha[sh%len(alpha)]
		var rec func(s string, depth int)
		rec = func(s string, depth int) {
			try(s)
			if depth == maxLen {
				return
			}
			for _, a := range alpha {
				rec(s+a, depth+1)
			}
		}
		rec(pre, 2)
	})
	atomic.AddInt64(&evals, raws)
	c.Count("raw_contents", raws)
	c.Sample(map[string]string{"raw": fmt.Sprintf("all byte strings of length <=%d over %q", maxLen, alpha)})
	c.Assume = append(c.Assume,
		"string alphabet excludes quotes, backslashes, CR/LF and the spellings true/false (as the property does)",
		"the order in which the writer emits keys of one section follows Go map iteration and is not controlled; the parser is line-oriented so the comparison is order-independent",
		"files live on tmpfs; I/O errors are outside the model")
	c.Finish(vl.Coverage{Evaluations: evals, Exhaustive: true,
		Rule:  "tables = all combinations of <=2 (thorough <=3, reduced alphabet) entries over 7 sections x 4 keys x 44 values x inline-comment choices, plus empty sections; each written by WriteTOMLFile and re-read by ParseTOMLFile, then every single trivia insertion (comment/blank line at every line boundary, leading/trailing blanks, inline comment, CRLF) on the written file; raw = every byte string up to the length bound over a 12-symbol alphabet. distinct_nontrivial = tables with >=1 entry (unique ids)",
		Bound: fmt.Sprintf("entries<=%d raw_len<=%d", map[bool]int{true: 2, false: 3}[quick], maxLen)})
}
