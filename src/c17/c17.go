// Package c17: the runtime map and dynamic array behave like an abstract map / list and
// stay memory safe — explicit-state model checking whose transition function is the real
// runtime code.
//
// The search itself lives in csrc/c17/driver.c (breadth-first over operation histories on
// real ferret_map_t / ferret_array_t objects, exact hash set over the canonicalised
// CONCRETE structure, reference model, invariant evaluated in every distinct state). It is
// compiled here, at check time, together with the CURRENT runtime sources of c.Repo under
// `clang -fsanitize=address,undefined -fno-sanitize-recover=all -O1 -g`; this file chooses
// the scenarios, runs them on 16 cores and turns the JSON summaries into evidence.
//
// Deviations from DESIGN.md "### C17" (all because of the real API; none weakens the oracle):
//   - get / has / size / get_optional / get_optional_out / iterate do not change the map, so
//     they are not branching operations of the search: ALL of them are executed for EVERY key
//     of the alphabet (plus the fillers and a never-inserted probe key in the colliders'
//     bucket) in EVERY distinct state, and the canonical form is recomputed afterwards to
//     prove they were self-loops. The same holds for array get / len / refused set. Only
//     set(k,v) (16 ops) resp. append(v) and in-range set(i,v) branch. They are still counted
//     as transitions (each is one execution of real code checked against the model);
//     "mutating_transitions" gives the branching ones separately.
//   - from_pairs is a constructor, not an operation on an existing map: the "frompairs"
//     scenario takes EVERY prefix (0..40) of a fixed pair list with three duplicate keys as
//     a root state (pre-sizing 16 -> 32 -> 64 buckets) and searches on from each.
//   - The colliding keys share a bucket at 16, 32 AND 64 buckets (the pre24 start resizes to
//     64), two of them even share the full 32-bit FNV hash (found by a start-up search over
//     400 000 candidates with the runtime's own hash functions), so equals_fn is decisive;
//     one more key shares the bucket at 16 buckets only (chain split on resize).
//   - The out buffer of get_optional_out is a heap block of exactly value_size+1 bytes:
//     ASan's red zones are the canaries (stricter than in-band canaries); the result is then
//     fed to optional.c's ferret_optional_unwrap_or (the `m[k] ?? d` path).
//   - Keys, values and elements are passed in exact-size heap blocks so that an over-read of
//     the argument (e.g. hashing 8 bytes of a 4-byte key) is an ASan report. Lookups use a
//     different copy of the key than the insertion (string keys: a different char*).
//   - Iteration is driven in two ways: (contract) honouring iter_begin's result, and (codegen)
//     the call sequence the compiler really emits (hir/lower lowerMapFor + mir/gen
//     lowerMapIterInit: iterator = uninitialised stack slot, result of iter_begin DISCARDED,
//     `while iter_next(...) {}`); the slot is poisoned and, if iter_begin leaves it untouched,
//     the wild iter_next is reported instead of executed. Whether the compiler discards the
//     result is read from the current builder.go (see codegenIgnoresBegin).
//   - Array indices tried in every state: -1..len+1, capacity-1, capacity, INT32_MAX,
//     INT32_MIN. Negative indices are judged "must be refused" because array.h documents
//     "NULL if out of bounds" and generated code turns NULL into the bounds panic.
//     ferret_array_new is also started with capacity 5 (array literal of 5 elements: 5->10->20)
//     besides the minimum capacity (4->8->16->32). ferret_array_resize / from_data are not
//     called by generated code and are not exercised.
//   - Depths: quick 5 for one value size per key kind and 4 for the other three (the value
//     size does not change the shape of the state space), 2 (frompairs), 11 (arrays).
//     thorough: the paired scenarios are run to the FIXPOINT of the search (no new state at
//     the next level - reached at depth 8 - so every longer history over the alphabet ends in
//     an already checked state) instead of DESIGN's depth 7, the unpaired ones to depth 5,
//     frompairs 3, arrays 17 for capacity 0/1, 12 for capacity 5, 15 for capacity 7 (a
//     length-21 run, 4*10^6 states, took >10 CPU minutes and was dropped; capacity 7 covers a
//     third growth chain 7->14->28 instead).
//   - Leak detection is off (the property does not speak about leaks); the ASan quarantine is
//     2 MiB (a use-after-free within the same or the next few operations is still caught; the
//     default 256 MiB made the search 12x slower).
//
// VERIF_C17_MAP_C / VERIF_C17_ARRAY_C (testing only) substitute scratch copies of map.c /
// array.c, used to prove that deliberate breakage is detected.
package c17

import (
	"bytes"
	"context"
	"encoding/json"
	"fmt"
	"os"
	"os/exec"
	"path/filepath"
	"regexp"
	"sort"
	"strings"
	"time"

	"compiler/verifh/vl"
)

type scenario struct {
	args []string
	cost int // rough relative cost, only for scheduling (longest first)
	dl   int // depth limit handed to the driver
}

type violation struct {
	History []string `json:"history"`
	What    string   `json:"what"`
}

type summary struct {
	Scenario    string           `json:"scenario"`
	States      int64            `json:"states"`
	Transitions int64            `json:"transitions"`
	Mutating    int64            `json:"mutating"`
	MaxDepth    int              `json:"max_depth"`
	Fixpoint    bool             `json:"fixpoint"`
	Levels      []int64          `json:"levels"`
	Outcomes    map[string]int64 `json:"outcomes"`
	FullColl    bool             `json:"full_hash_collision_pair"`
	Keys        []string         `json:"keys"`
	Sample      []string         `json:"sample_history"`
	Violations  int64            `json:"violations"`
	First       *violation       `json:"first_violation"`
	List        []violation      `json:"violation_list"`
}

type result struct {
	sc      scenario
	name    string
	sum     *summary
	crash   string // deterministic first line of a sanitizer report / crash / timeout
	stderr  string
	history string
	wall    float64
}

func scenarioName(a []string) string {
	if a[0] == "map" {
		return fmt.Sprintf("map-%s-v%s-%s", a[1], a[2], a[3])
	}
	return fmt.Sprintf("array-e%s-cap%s", a[1], a[2])
}

// codegenIgnoresBegin reads the current compiler source: does the lowering of
// `for k, v in m` discard the result of ferret_map_iter_begin? (1 yes, 0 no, -1 unknown)
func codegenIgnoresBegin(repo string) int {
	b, err := os.ReadFile(filepath.Join(repo, "internal", "mir", "gen", "builder.go"))
	if err != nil {
		return -1
	}
	s := string(b)
	i := strings.Index(s, "func (b *functionBuilder) lowerMapIterInit(")
	if i < 0 {
		return -1
	}
	body := s[i:]
	if j := strings.Index(body[1:], "\nfunc "); j >= 0 {
		body = body[:j+1]
	}
	if !strings.Contains(body, `"ferret_map_iter_begin"`) {
		return -1
	}
	if regexp.MustCompile(`Result:\s*mir\.InvalidValue,\s*Target:\s*"ferret_map_iter_begin"`).MatchString(body) {
		return 1
	}
	return 0
}

func build(c *vl.Ctx) string {
	dir := filepath.Join(c.W, "c17")
	os.MkdirAll(dir, 0o755)
	bin := filepath.Join(dir, "driver")
	core := filepath.Join(c.Repo, "runtime", "core")
	libs := filepath.Join(c.Repo, "runtime", "libs")
	mapC := filepath.Join(core, "map.c")
	arrC := filepath.Join(core, "array.c")
	if v := os.Getenv("VERIF_C17_MAP_C"); v != "" {
		mapC = v
	}
	if v := os.Getenv("VERIF_C17_ARRAY_C"); v != "" {
		arrC = v
	}
	args := []string{"-fsanitize=address,undefined", "-fno-sanitize-recover=all", "-O1", "-g", "-w",
		"-I", core, "-I", libs,
		filepath.Join(c.Dir, "csrc", "c17", "driver.c"),
		mapC, arrC,
		filepath.Join(core, "optional.c"), filepath.Join(core, "alloc.c"), filepath.Join(core, "string_runtime.c"),
		filepath.Join(libs, "len.c"), filepath.Join(libs, "append.c"),
		"-o", bin}
	cmd := exec.Command("clang", args...)
	if out, err := cmd.CombinedOutput(); err != nil {
		fmt.Fprintf(os.Stderr, "C17: cannot compile the driver against %s (harness broken, not a verdict): %v\nclang %s\n%s\n",
			c.Repo, err, strings.Join(args, " "), out)
		os.Exit(2)
	}
	return bin
}

var (
	rePid  = regexp.MustCompile(`==\d+==`)
	reHex  = regexp.MustCompile(`0x[0-9a-fA-F]+`)
	reFrm  = regexp.MustCompile(`#\d+ \S+ in (\S+) (\S+?):(\d+)`)
	reSpc  = regexp.MustCompile(`\s+`)
	reTnum = regexp.MustCompile(`\bT\d+\b`)
)

// crashLine makes a deterministic one-line description out of a sanitizer report.
func crashLine(stderr string, exit string) string {
	lines := strings.Split(stderr, "\n")
	head := ""
	access := ""
	frame := ""
	for _, l := range lines {
		t := strings.TrimSpace(l)
		if head == "" && (strings.Contains(t, "ERROR: AddressSanitizer") || strings.Contains(t, "runtime error:") || strings.Contains(t, "ERROR: UndefinedBehaviorSanitizer")) {
			head = t
			continue
		}
		if head != "" && access == "" && (strings.HasPrefix(t, "READ of size") || strings.HasPrefix(t, "WRITE of size")) {
			access = t
		}
		if head != "" && frame == "" {
			if m := reFrm.FindStringSubmatch(t); m != nil && (strings.Contains(m[2], "/runtime/") || strings.HasSuffix(m[2], "map.c") || strings.HasSuffix(m[2], "array.c")) {
				frame = "in " + m[1] + " " + filepath.Base(m[2]) + ":" + m[3]
			}
		}
	}
	if head == "" {
		for _, l := range lines {
			if t := strings.TrimSpace(l); t != "" && !strings.HasPrefix(t, "C17-DEATH") {
				head = t
				break
			}
		}
	}
	if head == "" {
		head = "driver ended without a summary"
	}
	if i := strings.Index(head, " on address"); i >= 0 && strings.Contains(head, "AddressSanitizer") {
		head = head[:i]
	}
	if i := strings.Index(head, " (pc "); i >= 0 {
		head = head[:i]
	}
	s := head
	if access != "" {
		if i := strings.Index(access, " at "); i >= 0 {
			access = access[:i]
		}
		s += "; " + access
	}
	if frame != "" {
		s += "; " + frame
	}
	s = rePid.ReplaceAllString(s, "")
	s = reHex.ReplaceAllString(s, "0x?")
	s = reTnum.ReplaceAllString(s, "T?")
	s = strings.TrimSpace(reSpc.ReplaceAllString(s, " "))
	return s + " [" + exit + "]"
}

func runScenario(bin string, sc scenario, timeout time.Duration) result {
	r := result{sc: sc, name: scenarioName(sc.args)}
	ctx, cancel := context.WithTimeout(context.Background(), timeout)
	defer cancel()
	cmd := exec.CommandContext(ctx, bin, sc.args...)
	cmd.Env = append(os.Environ(),
		"ASAN_OPTIONS=detect_leaks=0:quarantine_size_mb=2:abort_on_error=0:exitcode=77",
		"UBSAN_OPTIONS=print_stacktrace=1:halt_on_error=1")
	var so, se bytes.Buffer
	cmd.Stdout, cmd.Stderr = &so, &se
	t0 := time.Now()
	err := cmd.Run()
	r.wall = time.Since(t0).Seconds()
	r.stderr = se.String()
	for _, l := range strings.Split(r.stderr, "\n") {
		if strings.HasPrefix(l, "C17-DEATH ") {
			r.history = strings.TrimPrefix(l, "C17-DEATH ")
		}
	}
	if ctx.Err() == context.DeadlineExceeded {
		r.crash = fmt.Sprintf("timeout: scenario did not finish within %d s", int(timeout.Seconds()))
		return r
	}
	if err != nil {
		exit := err.Error()
		if ee, ok := err.(*exec.ExitError); ok && ee.ExitCode() == 3 {
			fmt.Fprintf(os.Stderr, "C17: driver reports an internal problem in %s (harness broken, not a verdict):\n%s\n", r.name, r.stderr)
			os.Exit(2)
		}
		if ee, ok := err.(*exec.ExitError); ok && ee.ExitCode() == 2 && !strings.Contains(r.stderr, "Sanitizer") && !strings.Contains(r.stderr, "runtime error") {
			fmt.Fprintf(os.Stderr, "C17: driver rejected its arguments %v (harness broken, not a verdict):\n%s\n", sc.args, r.stderr)
			os.Exit(2)
		}
		r.crash = crashLine(r.stderr, exit)
		return r
	}
	line := strings.TrimSpace(so.String())
	var s summary
	if e := json.Unmarshal([]byte(line), &s); e != nil {
		fmt.Fprintf(os.Stderr, "C17: unreadable driver output for %s (harness broken, not a verdict): %v\n%s\n", r.name, e, line)
		os.Exit(2)
	}
	r.sum = &s
	return r
}

const fixpointLimit = 12

func scenarios(quick bool) (list []scenario, bound string) {
	kinds := []string{"i32", "i64", "str", "bytes"}
	vsizes := []string{"1", "4", "8", "24"}
	starts := []string{"empty", "pre11", "pre12", "pre24"}
	esizes := []string{"1", "4", "8", "24"}
	// Every key kind has one "paired" value size that is searched deeper than the other
	// three. The value size does not influence the shape of the state space (only the
	// number of bytes copied), so the full kind x size cross is kept and only its depth is
	// staggered to fit the budgets.
	paired := map[string]string{"i32": "4", "i64": "8", "str": "24", "bytes": "1"}
	// rough relative costs, for longest-first scheduling only
	costAt := func(start string, deep bool) int {
		c := map[string]int{"empty": 27, "pre11": 25, "pre12": 18, "pre24": 30}[start]
		if !deep {
			c /= 5
		}
		return c
	}
	var mdPaired, mdOther, fd int
	type acfg struct {
		esize, cap0 string
		depth       int
	}
	var arrays []acfg
	if quick {
		mdPaired, mdOther, fd = 5, 4, 2
		for _, e := range esizes {
			arrays = append(arrays, acfg{e, "0", 11}, acfg{e, "5", 11}) // 4->8->16, 5->10->20
		}
	} else {
		// thorough: the paired scenarios run to the FIXPOINT of the search (measured:
		// reached at depth 8 with 5*10^4..2.5*10^5 states each), i.e. every set-history of
		// ANY length over the alphabet from these start states ends in a checked state.
		// All 64 scenarios to the fixpoint took 17 min wall, paired-fixpoint + depth 6 for
		// the rest 11 min (both on a machine loaded by other jobs, load average 60-115), so
		// the 48 unpaired ones are bounded at depth 5 and frompairs at 3.
		mdPaired, mdOther, fd = fixpointLimit, 5, 3
		for _, e := range esizes {
			arrays = append(arrays, acfg{e, "0", 17}, acfg{e, "5", 12}) // 4->8->16->32, 5->10->20
		}
		arrays = append(arrays, acfg{"4", "1", 17}, acfg{"4", "7", 15}) // 7->14->28
	}
	for _, k := range kinds {
		for _, v := range vsizes {
			md := mdOther
			if paired[k] == v {
				md = mdPaired
			}
			for _, s := range starts {
				list = append(list, scenario{args: []string{"map", k, v, s, fmt.Sprint(md)}, cost: costAt(s, paired[k] == v), dl: md})
			}
			list = append(list, scenario{args: []string{"map", k, v, "frompairs", fmt.Sprint(fd)}, cost: 4, dl: fd})
		}
	}
	for _, a := range arrays {
		list = append(list, scenario{args: []string{"array", a.esize, a.cap0, fmt.Sprint(a.depth)}, cost: 1 + a.depth/6, dl: a.depth})
	}
	if quick {
		bound = fmt.Sprintf("map: set-histories of length<=%d (for the pairs i32/v4, i64/v8, str/v24, bytes/v1) resp. <=%d (the other 12 key-kind x value-size pairs; one level less to fit the quick budget) from each of {empty, 11, 12, 24 prefilled keys}, and of length<=%d from each of the 41 from_pairs prefixes; 8-key alphabet x 2 values, 4 key kinds x value sizes {1,4,8,24}; array: histories of length<=11, element sizes {1,4,8,24} x initial capacity {0,5}",
			mdPaired, mdOther, fd)
	} else {
		bound = fmt.Sprintf("map: set-histories of EVERY length (search run to its fixpoint, depth limit %d; whether it was reached is recorded per scenario) for the pairs i32/v4, i64/v8, str/v24, bytes/v1 and of length<=%d for the other 12 key-kind x value-size pairs (lowered from the fixpoint to fit the 10 min budget on a loaded machine), from each of {empty, 11, 12, 24 prefilled keys}; length<=%d from each of the 41 from_pairs prefixes; 8-key alphabet x 2 values, 4 key kinds x value sizes {1,4,8,24}; array: element sizes {1,4,8,24} with initial capacity 0 up to length 17 (4->8->16->32) and capacity 5 up to length 12 (5->10->20); element size 4 also capacity 1 (length 17) and 7 (length 15, 7->14->28)",
			fixpointLimit, mdOther, fd)
	}
	sort.SliceStable(list, func(i, j int) bool { return list[i].cost > list[j].cost })
	return
}

func Run(c *vl.Ctx) {
	quick := c.Quick()
	bin := build(c)
	ign := codegenIgnoresBegin(c.Repo)
	ignArg := "0"
	switch ign {
	case 1:
		ignArg = "1"
		c.Assume = append(c.Assume, "map iteration is also driven with the call sequence the compiler emits today (mir/gen/builder.go lowerMapIterInit discards the result of ferret_map_iter_begin; the iterator is an uninitialised stack slot)")
	case 0:
		c.Assume = append(c.Assume, "the compiler uses the result of ferret_map_iter_begin (read from mir/gen/builder.go), so only the contract protocol of iteration is driven")
	default:
		c.Outcome("map:codegen-protocol-unknown")
		c.Assume = append(c.Assume, "could not read from mir/gen/builder.go whether generated code discards the result of ferret_map_iter_begin; only the contract protocol of iteration is driven")
	}
	list, bound := scenarios(quick)
	for i := range list {
		if list[i].args[0] == "map" {
			list[i].args = append(list[i].args, ignArg)
		}
	}
	// generous per-scenario limits (a scenario takes 1-5 s quick, <=4 min thorough on an idle
	// machine); hitting one is reported as a failing case, never ignored
	timeout := 150 * time.Second
	if !quick {
		timeout = 20 * time.Minute
	}
	results := make([]result, len(list))
	vl.ParDo(len(list), 16, func(i int) {
		results[i] = runScenario(bin, list[i], timeout)
	})
	// stable order for everything that is reported; a second run of the same scenario
	// name (thorough fixpoint runs) gets a suffix
	sort.SliceStable(results, func(i, j int) bool { return results[i].name < results[j].name })

	var states, trans, mut, nviol int64
	table := map[string]any{}
	samples := map[string]int{}
	kindSeen := map[string]bool{}
	var notFix []string
	for _, r := range results {
		cmdline := "driver " + strings.Join(r.sc.args, " ")
		if r.crash != "" {
			c.Outcome("scenario:crashed")
			hist := r.history
			if hist == "" {
				hist = "(no history recorded)"
			}
			c.Fail(vl.Fail{Case: "C17/sanitizer/" + r.name, Obs: r.crash,
				Files: map[string]string{"history.txt": "scenario: " + r.name + "\ncommand: " + cmdline + "\nlast operation history (JSON): " + hist + "\n", "stderr.txt": r.stderr},
				Note:  "sanitizer report, crash or timeout while running the scenario; the history is the one being executed when the process died"})
			table[r.name] = map[string]any{"crashed": r.crash}
			continue
		}
		s := r.sum
		states += s.States
		trans += s.Transitions
		mut += s.Mutating
		nviol += s.Violations
		c.Count("states:"+r.name, s.States)
		c.Count("transitions:"+r.name, s.Transitions)
		table[r.name] = map[string]any{"states": s.States, "transitions": s.Transitions, "mutating_transitions": s.Mutating,
			"max_depth": s.MaxDepth, "depth_limit": r.sc.dl, "fixpoint": s.Fixpoint, "new_states_per_level": s.Levels, "violations": s.Violations, "wall_s": float64(int(r.wall*10)) / 10}
		if r.sc.dl == fixpointLimit && !s.Fixpoint {
			notFix = append(notFix, r.name)
		}
		for d, n := range s.Levels {
			if n > 0 {
				c.Distinct(fmt.Sprintf("%s/depth%d/%d-new-states", r.name, d, n))
			}
		}
		for o, n := range s.Outcomes {
			if n > 0 {
				c.Outcome(o)
				c.Count("outcome:"+o, n)
			}
		}
		if s.Fixpoint {
			c.Outcome("scenario:fixpoint-reached")
		} else {
			c.Outcome("scenario:depth-bounded")
		}
		if s.FullColl {
			c.Outcome("map:alphabet-has-full-32bit-hash-collision")
		}
		if r.sc.args[0] == "map" && !kindSeen[r.sc.args[1]] {
			kindSeen[r.sc.args[1]] = true
			k := s.Keys
			if len(k) > 9 {
				k = k[:9]
			}
			c.Sample(map[string]any{"key_alphabet": r.sc.args[1], "keys": k})
		}
		if samples[r.sc.args[0]] < 2 && len(s.Sample) > 0 {
			samples[r.sc.args[0]]++
			c.Sample(map[string]any{"scenario": r.name, "last_new_state_history": s.Sample})
		}
		dup := map[string]int{}
		for _, v := range s.List {
			h := strings.Join(v.History, "; ")
			id := "h" + vl.Hash(h)[:8]
			dup[id]++
			if dup[id] > 1 {
				id = fmt.Sprintf("%s.%d", id, dup[id])
			}
			var sb strings.Builder
			fmt.Fprintf(&sb, "scenario: %s\ncommand: %s\n", r.name, cmdline)
			if len(s.Keys) > 0 {
				sb.WriteString("keys (k0..k7 take part in set, k8 is never inserted, f* are prefilled):\n")
				for _, k := range s.Keys {
					sb.WriteString("  " + k + "\n")
				}
			}
			sb.WriteString("history:\n")
			for _, op := range v.History {
				sb.WriteString("  " + op + "\n")
			}
			sb.WriteString("violation: " + v.What + "\n")
			c.Fail(vl.Fail{Case: "C17/" + r.name + "/" + id, Obs: v.What, Files: map[string]string{"history.txt": sb.String()}})
		}
		if s.Violations > int64(len(s.List)) {
			c.Count("violations_not_listed:"+r.name, s.Violations-int64(len(s.List)))
		}
	}
	c.Count("scenarios", int64(len(results)))
	c.Count("violating_observations_total", nviol)
	if len(notFix) > 0 {
		bound += fmt.Sprintf("; NOT at a fixpoint within depth %d (bounded at that depth instead): ", fixpointLimit) + strings.Join(notFix, ",")
	}
	c.Assume = append(c.Assume,
		"malloc never fails (the allocation-failure branches of map.c / array.c are not reachable in the harness)",
		"string keys: the map stores the char* only; the strings outlive the map (as string literals and runtime strings do in generated code)",
		"no modification of a map during its iteration",
		"determinism: the behaviour of the runtime depends only on the canonicalised structure, not on heap addresses (needed for deduplication to be sound)")
	c.Finish(vl.Coverage{Evaluations: trans, States: states, Transitions: trans, Traces: trans, Exhaustive: true,
		Rule:  "breadth-first search over operation histories executed on the real runtime objects (compiled from the current tree with ASan+UBSan); states = canonicalised concrete structure, exact hash set; in every distinct state every read operation (get, has, get_optional, get_optional_out+unwrap_or, size, len, full iteration in contract and codegen protocol; array: get/len/cap and refused get/set at -1, len, len+1, cap-1, cap, INT32_MAX, INT32_MIN) is executed for every key/index and compared with an association-list / plain-array model, and must leave the structure unchanged; transitions = every operation executed on real code, mutating_transitions = the branching ones (set / append / in-range set), each on a freshly replayed object. distinct_nontrivial = (scenario, depth, number of new states) levels",
		Bound: bound,
		Extra: map[string]any{"distinct_states": states, "mutating_transitions": mut, "scenarios": table}})
}
