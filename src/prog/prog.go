// Package prog runs fl programs on the real compiler (native and wasm), packing many
// independent cases into one program and isolating disagreements on single-case programs.
package prog

import (
	"fmt"
	"os"
	"regexp"
	"strconv"
	"time"
	"strings"
	"sync"

	"compiler/verifh/fl"
	"compiler/verifh/run"
	"compiler/verifh/vl"
)

// Case is one generated program with a stable id. P must contain main and use names
// that are unique across the cases packed together (families suffix them with K.S).
type Case struct {
	ID   string
	P    *fl.Program
	Want fl.Outcome
	// NoPack forces a program of its own (panicking cases are never packed anyway).
	NoPack bool
	Tag    string
}

// Obs is the observation of one case on one target.
type Obs struct {
	Accepted bool     // the compiler produced an artefact with exit status 0
	Reject   string   // canonical first error (when not accepted)
	Lines    []string // stdout lines
	Term     string   // exit0 | panic:<msg> | signal:<name> | exit:<n> | timeout | trap:<msg> | invalid:<msg>
	Alone    bool     // observed on a single-case program
}

func (o Obs) String() string {
	if !o.Accepted {
		return "rejected: " + o.Reject
	}
	return strings.Join(o.Lines, "|") + " [" + o.Term + "]"
}

func (o Obs) SameBehaviour(w fl.Outcome) bool {
	// compared as text: a printed value may itself contain a line break
	return o.Accepted && o.Term == w.Term && strings.Join(o.Lines, "\n") == strings.Join(w.Lines, "\n")
}

func Equal(a, b Obs) bool {
	return a.Accepted == b.Accepted && a.Term == b.Term && strings.Join(a.Lines, "\n") == strings.Join(b.Lines, "\n")
}

var rePath = regexp.MustCompile(`(/[A-Za-z0-9_.\-]+)+/`)
var reHexAddr = regexp.MustCompile(`0x[0-9a-f]{6,}`)

// CanonErr extracts a stable one-line reason from compiler output.
func CanonErr(out string) string {
	out = run.StripANSI(out)
	var first string
	for _, l := range strings.Split(out, "\n") {
		t := strings.TrimSpace(l)
		if t == "" || strings.HasPrefix(t, "ld: warning") || strings.HasPrefix(t, "ld: NOTE") {
			continue
		}
		if strings.HasPrefix(t, "error") || strings.HasPrefix(t, "panic:") || strings.HasPrefix(t, "fatal error") || strings.Contains(t, ".ssa:") {
			first = t
			break
		}
		if first == "" {
			first = t
		}
	}
	first = rePath.ReplaceAllString(first, "")
	first = reHexAddr.ReplaceAllString(first, "0xADDR")
	first = regexp.MustCompile(`\.ssa:\d+`).ReplaceAllString(first, ".ssa:N")
	first = regexp.MustCompile(`%t\d+`).ReplaceAllString(first, "%t")
	if len(first) > 160 {
		first = first[:160]
	}
	return first
}

// Pack merges cases into one program: each case's main becomes case_<i>, and a new main
// prints a marker line before calling each.
func Pack(cases []*Case) (*fl.Program, []string) {
	p := &fl.Program{}
	main := &fl.Func{Name: "main"}
	markers := make([]string, len(cases))
	seenF, seenS, seenE := map[*fl.Func]bool{}, map[*fl.TStruct]bool{}, map[*fl.TEnum]bool{}
	for i, k := range cases {
		q := *k.P
		q.Funcs = nil
		for _, f := range k.P.Funcs {
			if f.Name == "main" && f.Recv == nil {
				g := *f
				g.Name = fmt.Sprintf("case_%d", i)
				q.Funcs = append(q.Funcs, &g)
			} else {
				q.Funcs = append(q.Funcs, f)
			}
		}
		// declarations shared between cases (same pointer) are emitted once
		q.Funcs = dedupF(seenF, q.Funcs)
		q.Structs = dedupS(seenS, q.Structs)
		var en []*fl.TEnum
		for _, e := range q.Enums {
			if !seenE[e] {
				seenE[e] = true
				en = append(en, e)
			}
		}
		q.Enums = en
		p.Merge(&q)
		markers[i] = fmt.Sprintf("#case %d", i)
		main.Body = append(main.Body, fl.P(fl.S(markers[i])), &fl.ExprStmt{X: fl.C(fmt.Sprintf("case_%d", i))})
	}
	main.Body = append(main.Body, fl.P(fl.S("#end")))
	p.Funcs = append(p.Funcs, main)
	return p, markers
}

func dedupF(seen map[*fl.Func]bool, l []*fl.Func) []*fl.Func {
	var out []*fl.Func
	for _, f := range l {
		if !seen[f] {
			seen[f] = true
			out = append(out, f)
		}
	}
	return out
}

func dedupS(seen map[*fl.TStruct]bool, l []*fl.TStruct) []*fl.TStruct {
	var out []*fl.TStruct
	for _, f := range l {
		if !seen[f] {
			seen[f] = true
			out = append(out, f)
		}
	}
	return out
}

// Runner observes cases on a target.
type Runner struct {
	C        *vl.Ctx
	R        *run.Runner
	PackSize int
	mu       sync.Mutex
	Programs int64
	// cross-check of the in-process pipeline (fast mode) against the ferret binary
	CrossChecked, CrossMismatch int64
	CrossNotes                  []string
	// Prefilter: see Observe.
	Prefilter bool
}

// MaxPackBytes bounds the source size of a packed program (sum of the cases' own renderings).
var MaxPackBytes = 16000

// CrossEvery: every CrossEvery-th pack is compiled both in-process and by the binary.
var CrossEvery = 16

func New(c *vl.Ctx) *Runner {
	r := &Runner{C: c, R: run.New(c), PackSize: 48}
	r.R.Fast = os.Getenv("VERIF_NOFAST") == ""
	if v, err := strconv.Atoi(os.Getenv("VERIF_PACK")); err == nil && v > 0 {
		r.PackSize = v
	}
	return r
}

// Close stops the compile workers.
func (r *Runner) Close() { r.R.Close() }

func (r *Runner) count() {
	r.mu.Lock()
	r.Programs++
	r.mu.Unlock()
}

func splitLines(s string) []string {
	s = strings.TrimRight(s, "\n")
	if s == "" {
		return nil
	}
	return strings.Split(s, "\n")
}

func nativeTerm(p run.Proc) string {
	switch {
	case p.Timeout:
		return "timeout"
	case p.Signal == "aborted" || p.Exit == 134:
		for _, l := range strings.Split(p.Stderr, "\n") {
			if strings.HasPrefix(l, "panic: ") {
				return "panic:" + strings.TrimPrefix(l, "panic: ")
			}
			if l == "panic" {
				return "panic:"
			}
		}
		return "signal:aborted"
	case p.Signal != "":
		return "signal:" + p.Signal
	case p.Exit == 0:
		return "exit0"
	default:
		return fmt.Sprintf("exit:%d", p.Exit)
	}
}

// runOne compiles and runs one program text on a target. real: use the `ferret` binary even
// when the runner is in fast (in-process) mode — every observation that is reported as a
// disagreement is made this way.
func (r *Runner) runOne(src string, target string, real bool) Obs {
	r.count()
	dir := r.R.NewDir()
	defer os.RemoveAll(dir)
	run.WriteFiles(dir, map[string]string{"main.fer": src})
	if target == "wasm" {
		b := r.R.CompileWasm(dir, "main.fer")
		if !b.Compile.OK() || !b.Exists {
			return Obs{Reject: CanonErr(b.Compile.Stderr + "\n" + b.Compile.Stdout)}
		}
		n := r.R.Node([]string{b.Artifact})[0]
		o := Obs{Accepted: true, Lines: splitLines(n.Stdout)}
		switch n.Kind {
		case "ok":
			o.Term = "exit0"
		case "panic":
			o.Term = "panic:" + n.Message
		case "timeout":
			o.Term = "timeout"
		default:
			o.Term = n.Kind + ":" + CanonErr(n.Message)
		}
		return o
	}
	var b run.Built
	if real {
		b = r.R.RealCompileNative(dir, "main.fer")
	} else {
		b = r.R.CompileNative(dir, "main.fer")
	}
	if !b.Compile.OK() || !b.Exists {
		msg := CanonErr(b.Compile.Stderr + "\n" + b.Compile.Stdout)
		if b.Compile.OK() {
			msg = "exit status 0 but no executable: " + msg
		}
		return Obs{Reject: msg}
	}
	p := r.R.Exec(b)
	return Obs{Accepted: true, Lines: splitLines(p.Stdout), Term: nativeTerm(p)}
}

// Observe returns, for every case, its observation on target. Non-panicking cases are
// packed; want(i) (may be nil) is what the caller expects: a case whose packed observation
// differs from it — or any case of a pack that did not run to completion — is re-observed
// alone, so that a reported observation that disagrees is always a single-program one.
func (r *Runner) Observe(cases []*Case, target string, want func(i int) *Obs) []Obs {
	res := make([]Obs, len(cases))
	fast := r.R.Fast && target == "native"
	// Prefilter: the front end alone (in-process, no process is started) decides which cases
	// are rejected before anything is packed, so that a pack is not taken apart case by case
	// because some of its members do not compile. A case the front end rejects is reported as
	// rejected; with an expectation (want) it is re-decided by the ferret binary first.
	rejected := make([]bool, len(cases))
	tPre := time.Now()
	defer func() {
		if r.Prefilter {
			r.C.Count("observe_seconds", int64(time.Since(tPre).Seconds()))
		}
	}()
	if fast && r.Prefilter {
		defer func(t time.Time) {}(tPre)
		r.R.FrontEnd(len(cases), func(i int) string { return fl.Render(cases[i].P) }, func(i int, ok bool, msg string) {
			if ok {
				return
			}
			rejected[i] = true
			res[i] = Obs{Reject: CanonErr(msg)}
		})
	}
	if fast && r.Prefilter {
		r.C.Count("prefilter_seconds", int64(time.Since(tPre).Seconds()))
	}
	var packs [][]int
	var cur []int
	curBytes := 0
	for i, k := range cases {
		if rejected[i] {
			continue
		}
		if k.NoPack || k.Want.Term != "exit0" {
			packs = append(packs, []int{i})
			continue
		}
		// a pack is closed at PackSize cases or MaxPackBytes of source, whichever comes first:
		// the compiler's lexer is quadratic in the size of a file
		sz := len(fl.Render(k.P))
		if len(cur) > 0 && curBytes+sz > MaxPackBytes {
			packs = append(packs, cur)
			cur, curBytes = nil, 0
		}
		cur = append(cur, i)
		curBytes += sz
		if len(cur) == r.PackSize {
			packs = append(packs, cur)
			cur, curBytes = nil, 0
		}
	}
	if len(cur) > 0 {
		packs = append(packs, cur)
	}
	// single observes one case as a program of its own. In fast mode the in-process result is
	// kept only if it is what the caller expects (or the caller has no expectation and will
	// re-observe differences itself: Alone stays false); everything else comes from the binary.
	single := func(i int) Obs {
		if fast {
			o := r.runOne(fl.Render(cases[i].P), target, false)
			if want == nil {
				return o
			}
			if w := want(i); w != nil && Equal(o, *w) {
				return o
			}
		}
		o := r.runOne(fl.Render(cases[i].P), target, true)
		o.Alone = true
		return o
	}
	var observe func(idx []int, top bool, pi int)
	observe = func(idx []int, top bool, pi int) {
		if len(idx) == 1 {
			res[idx[0]] = single(idx[0])
			return
		}
		sub := make([]*Case, len(idx))
		for j, i := range idx {
			sub[j] = cases[i]
		}
		pp, markers := Pack(sub)
		src := fl.Render(pp)
		o := r.runOne(src, target, false)
		if fast && top && pi%CrossEvery == 0 {
			// cross-check of the in-process pipeline against the binary on the same program
			o2 := r.runOne(src, target, true)
			r.mu.Lock()
			r.CrossChecked++
			if !Equal(o, o2) {
				r.CrossMismatch++
				if len(r.CrossNotes) < 5 {
					r.CrossNotes = append(r.CrossNotes, fmt.Sprintf("pack %d (%s..): in-process %s || binary %s", pi, sub[0].ID, clip(o.String(), 300), clip(o2.String(), 300)))
				}
			}
			r.mu.Unlock()
			o = o2
		}
		ok := o.Accepted && o.Term == "exit0" && len(o.Lines) > 0 && o.Lines[len(o.Lines)-1] == "#end"
		var per [][]string
		if ok {
			per = make([][]string, len(idx))
			j := -1
			for _, l := range o.Lines[:len(o.Lines)-1] {
				if j+1 < len(markers) && l == markers[j+1] {
					j++
					continue
				}
				if j < 0 {
					ok = false
					break
				}
				per[j] = append(per[j], l)
			}
			if j != len(idx)-1 {
				ok = false
			}
		}
		if !ok {
			// some case of the pack does not compile or stops the program: halve
			h := len(idx) / 2
			observe(idx[:h], false, pi)
			observe(idx[h:], false, pi)
			return
		}
		for j, i := range idx {
			po := Obs{Accepted: true, Lines: per[j], Term: "exit0"}
			if want != nil {
				if w := want(i); w != nil && !Equal(po, *w) {
					res[i] = single(i)
					continue
				}
			}
			res[i] = po
		}
	}
	vl.ParDo(len(packs), 16, func(pi int) { observe(packs[pi], true, pi) })
	if want != nil {
		var rej []int
		for i := range cases {
			if rejected[i] && cases[i].Tag != "may-reject" {
				rej = append(rej, i) // (a case that may be rejected needs no second opinion)
			}
		}
		vl.ParDo(len(rej), 8, func(j int) {
			o := r.runOne(fl.Render(cases[rej[j]].P), target, true)
			o.Alone = true
			res[rej[j]] = o
		})
	}
	return res
}

func clip(s string, n int) string {
	if len(s) > n {
		return s[:n] + "..."
	}
	return s
}

// Report adds the runner's counters to the evidence.
func (r *Runner) Report() {
	r.mu.Lock()
	defer r.mu.Unlock()
	r.C.Count("programs_compiled", r.Programs)
	r.C.Count("programs_compiled_in_process", r.R.FastN)
	r.C.Count("in_process_fell_back_to_binary", r.R.FastFell)
	r.C.Count("in_process_vs_binary_cross_checked", r.CrossChecked)
	r.C.Count("in_process_vs_binary_mismatch", r.CrossMismatch)
	for _, n := range r.CrossNotes {
		fmt.Println("NOTE: in-process pipeline and ferret binary differ (the binary's observation is used):", n)
	}
}

// ObserveAlone compiles and runs one case as a program of its own.
func (r *Runner) ObserveAlone(k *Case, target string) Obs {
	o := r.runOne(fl.Render(k.P), target, true)
	o.Alone = true
	return o
}

// WantObs converts a reference outcome to the observation it prescribes.
func WantObs(w fl.Outcome) *Obs {
	return &Obs{Accepted: true, Lines: w.Lines, Term: w.Term}
}
