// Package vatomic is the shim for sync/atomic under the controlled scheduler: every
// operation is a scheduling point (before the operation) and then a plain state update,
// legitimate because exactly one managed goroutine runs at a time.
package vatomic

import "compiler/verifh/vsync"

func AddInt32(p *int32, d int32) int32     { vsync.AtomicPoint("atomic.AddInt32"); *p += d; return *p }
func AddInt64(p *int64, d int64) int64     { vsync.AtomicPoint("atomic.AddInt64"); *p += d; return *p }
func AddUint32(p *uint32, d uint32) uint32 { vsync.AtomicPoint("atomic.AddUint32"); *p += d; return *p }
func AddUint64(p *uint64, d uint64) uint64 { vsync.AtomicPoint("atomic.AddUint64"); *p += d; return *p }
func LoadInt32(p *int32) int32             { vsync.AtomicPoint("atomic.LoadInt32"); return *p }
func LoadInt64(p *int64) int64             { vsync.AtomicPoint("atomic.LoadInt64"); return *p }
func LoadUint32(p *uint32) uint32          { vsync.AtomicPoint("atomic.LoadUint32"); return *p }
func LoadUint64(p *uint64) uint64          { vsync.AtomicPoint("atomic.LoadUint64"); return *p }
func StoreInt32(p *int32, v int32)         { vsync.AtomicPoint("atomic.StoreInt32"); *p = v }
func StoreInt64(p *int64, v int64)         { vsync.AtomicPoint("atomic.StoreInt64"); *p = v }
func StoreUint32(p *uint32, v uint32)      { vsync.AtomicPoint("atomic.StoreUint32"); *p = v }
func StoreUint64(p *uint64, v uint64)      { vsync.AtomicPoint("atomic.StoreUint64"); *p = v }
func SwapInt32(p *int32, v int32) int32 {
	vsync.AtomicPoint("atomic.SwapInt32")
	o := *p
	*p = v
	return o
}
func SwapInt64(p *int64, v int64) int64 {
	vsync.AtomicPoint("atomic.SwapInt64")
	o := *p
	*p = v
	return o
}
func CompareAndSwapInt32(p *int32, o, n int32) bool {
	vsync.AtomicPoint("atomic.CompareAndSwapInt32")
	if *p == o {
		*p = n
		return true
	}
	return false
}
func CompareAndSwapInt64(p *int64, o, n int64) bool {
	vsync.AtomicPoint("atomic.CompareAndSwapInt64")
	if *p == o {
		*p = n
		return true
	}
	return false
}
func CompareAndSwapUint32(p *uint32, o, n uint32) bool {
	vsync.AtomicPoint("atomic.CompareAndSwapUint32")
	if *p == o {
		*p = n
		return true
	}
	return false
}
func CompareAndSwapUint64(p *uint64, o, n uint64) bool {
	vsync.AtomicPoint("atomic.CompareAndSwapUint64")
	if *p == o {
		*p = n
		return true
	}
	return false
}

type Int32 struct{ v int32 }

func (x *Int32) Load() int32        { return LoadInt32(&x.v) }
func (x *Int32) Store(v int32)      { StoreInt32(&x.v, v) }
func (x *Int32) Add(d int32) int32  { return AddInt32(&x.v, d) }
func (x *Int32) Swap(v int32) int32 { return SwapInt32(&x.v, v) }
func (x *Int32) CompareAndSwap(o, n int32) bool {
	return CompareAndSwapInt32(&x.v, o, n)
}

type Int64 struct{ v int64 }

func (x *Int64) Load() int64        { return LoadInt64(&x.v) }
func (x *Int64) Store(v int64)      { StoreInt64(&x.v, v) }
func (x *Int64) Add(d int64) int64  { return AddInt64(&x.v, d) }
func (x *Int64) Swap(v int64) int64 { return SwapInt64(&x.v, v) }
func (x *Int64) CompareAndSwap(o, n int64) bool {
	return CompareAndSwapInt64(&x.v, o, n)
}

type Uint32 struct{ v uint32 }

func (x *Uint32) Load() uint32        { return LoadUint32(&x.v) }
func (x *Uint32) Store(v uint32)      { StoreUint32(&x.v, v) }
func (x *Uint32) Add(d uint32) uint32 { return AddUint32(&x.v, d) }
func (x *Uint32) CompareAndSwap(o, n uint32) bool {
	return CompareAndSwapUint32(&x.v, o, n)
}

type Uint64 struct{ v uint64 }

func (x *Uint64) Load() uint64        { return LoadUint64(&x.v) }
func (x *Uint64) Store(v uint64)      { StoreUint64(&x.v, v) }
func (x *Uint64) Add(d uint64) uint64 { return AddUint64(&x.v, d) }
func (x *Uint64) CompareAndSwap(o, n uint64) bool {
	return CompareAndSwapUint64(&x.v, o, n)
}

type Bool struct{ v bool }

func (x *Bool) Load() bool   { vsync.AtomicPoint("atomic.Bool.Load"); return x.v }
func (x *Bool) Store(v bool) { vsync.AtomicPoint("atomic.Bool.Store"); x.v = v }
func (x *Bool) Swap(v bool) bool {
	vsync.AtomicPoint("atomic.Bool.Swap")
	o := x.v
	x.v = v
	return o
}
func (x *Bool) CompareAndSwap(o, n bool) bool {
	vsync.AtomicPoint("atomic.Bool.CompareAndSwap")
	if x.v == o {
		x.v = n
		return true
	}
	return false
}

type Value struct{ v any }

func (x *Value) Load() any   { vsync.AtomicPoint("atomic.Value.Load"); return x.v }
func (x *Value) Store(v any) { vsync.AtomicPoint("atomic.Value.Store"); x.v = v }

type Pointer[T any] struct{ p *T }

func (x *Pointer[T]) Load() *T   { vsync.AtomicPoint("atomic.Pointer.Load"); return x.p }
func (x *Pointer[T]) Store(p *T) { vsync.AtomicPoint("atomic.Pointer.Store"); x.p = p }
func (x *Pointer[T]) CompareAndSwap(o, n *T) bool {
	vsync.AtomicPoint("atomic.Pointer.CompareAndSwap")
	if x.p == o {
		x.p = n
		return true
	}
	return false
}
