// Package vmap owns the iteration order of the map ranges the rewriter hooks (option
// -maps): `for k, v := range m` becomes `for _, k := range vmap.Keys(m, site) { v := m[k] }`.
// Keys is the second kind of choice point of Engine C: option 0 is the sorted key order;
// the deviations are every other permutation for <=3 keys, else the reversal and the n-1
// rotations of the sorted order. A deviation costs one unit of the map-deviation bound.
// Keys that are neither strings nor integers are left in Go's order and counted
// ("vmap-unowned:<site>") - the hand list of the rewriter contains no such site.
package vmap

import (
	"fmt"
	"reflect"
	"sort"

	"compiler/verifh/vsync"
)

func Keys[K comparable, V any](m map[K]V, site string) []K {
	keys := make([]K, 0, len(m))
	for k := range m {
		keys = append(keys, k)
	}
	n := len(keys)
	if n < 2 {
		return keys
	}
	var zero K
	switch reflect.TypeOf(zero).Kind() {
	case reflect.String:
		sort.Slice(keys, func(i, j int) bool { return reflect.ValueOf(keys[i]).String() < reflect.ValueOf(keys[j]).String() })
	case reflect.Int, reflect.Int8, reflect.Int16, reflect.Int32, reflect.Int64:
		sort.Slice(keys, func(i, j int) bool { return reflect.ValueOf(keys[i]).Int() < reflect.ValueOf(keys[j]).Int() })
	case reflect.Uint, reflect.Uint8, reflect.Uint16, reflect.Uint32, reflect.Uint64, reflect.Uintptr:
		sort.Slice(keys, func(i, j int) bool { return reflect.ValueOf(keys[i]).Uint() < reflect.ValueOf(keys[j]).Uint() })
	default:
		// pointer / struct / interface keys: canonical order by a key derived from their scalar
		// fields (names, numbers, nested two levels deep); keys that cannot be told apart that
		// way stay in Go's order and are counted as not owned
		ck := make([]string, n)
		for i := range keys {
			ck[i] = canonKey(reflect.ValueOf(keys[i]), 3)
		}
		idx := make([]int, n)
		for i := range idx {
			idx[i] = i
		}
		sort.SliceStable(idx, func(a, b int) bool { return ck[idx[a]] < ck[idx[b]] })
		sorted := make([]K, n)
		ties := false
		for i, j := range idx {
			sorted[i] = keys[j]
			if i > 0 && ck[j] == ck[idx[i-1]] {
				ties = true
			}
		}
		keys = sorted
		if ties {
			vsync.Count("vmap-unowned:" + site)
			return keys
		}
	}
	if !vsync.Active() {
		return keys
	}
	if n <= 3 {
		perms := permutations(n)
		c := vsync.Choose(fmt.Sprintf("vmap:%s:%d", site, n), len(perms))
		out := make([]K, n)
		for i, p := range perms[c] {
			out[i] = keys[p]
		}
		return out
	}
	// 0 = sorted, 1 = reversed, 2.. = rotations by 1..n-1
	c := vsync.Choose(fmt.Sprintf("vmap:%s:%d", site, n), n+1)
	switch {
	case c == 0:
		return keys
	case c == 1:
		out := make([]K, n)
		for i := range keys {
			out[i] = keys[n-1-i]
		}
		return out
	default:
		r := c - 1
		return append(append([]K(nil), keys[r:]...), keys[:r]...)
	}
}

// permutations of 0..n-1 in lexicographic order (identity first).
func permutations(n int) [][]int {
	var out [][]int
	var rec func(cur []int, used []bool)
	rec = func(cur []int, used []bool) {
		if len(cur) == n {
			out = append(out, append([]int(nil), cur...))
			return
		}
		for i := 0; i < n; i++ {
			if !used[i] {
				used[i] = true
				rec(append(cur, i), used)
				used[i] = false
			}
		}
	}
	rec(nil, make([]bool, n))
	return out
}

// canonKey renders the scalar content of v (strings, numbers, bools; through pointers,
// interfaces and struct fields, depth levels deep) as a sortable string. Addresses never enter.
func canonKey(v reflect.Value, depth int) string {
	if !v.IsValid() {
		return "~"
	}
	switch v.Kind() {
	case reflect.String:
		return "s" + v.String()
	case reflect.Bool:
		if v.Bool() {
			return "b1"
		}
		return "b0"
	case reflect.Int, reflect.Int8, reflect.Int16, reflect.Int32, reflect.Int64:
		return fmt.Sprintf("i%020d", v.Int()+(1<<62))
	case reflect.Uint, reflect.Uint8, reflect.Uint16, reflect.Uint32, reflect.Uint64:
		return fmt.Sprintf("u%020d", v.Uint())
	case reflect.Float32, reflect.Float64:
		return fmt.Sprintf("f%v", v.Float())
	case reflect.Ptr, reflect.Interface:
		if v.IsNil() || depth == 0 {
			return "~"
		}
		return canonKey(v.Elem(), depth-1)
	case reflect.Struct:
		if depth == 0 {
			return "~"
		}
		out := "{"
		for i := 0; i < v.NumField(); i++ {
			out += canonKey(v.Field(i), depth-1) + ","
		}
		return out + "}"
	}
	return "~"
}
