// Package c18: composite values keep every component intact.
//
// Part (i), layout function, explicit and exhaustive, in-process: every type expression up to
// the bound is built as a types.SemType and laid out by the real mir.NewDataLayout(4|8)
// SizeOf/AlignOf/StructLayout; the invariants of DESIGN C18 are evaluated on each.
// Part (ii), behavioural, both targets: for every type expression up to the bound a set of
// generated single-function cases (init, one store per component, cumulative stores, copy,
// copy + mutate, pass/return, callee mutates its parameter, in a fixed array, in a struct,
// value-receiver methods, inferred `let v := {..} as T`, results through catch) whose expected
// output comes from a value-semantics tree model (gen.go); run natively and under wasm.
//
// Deviations from DESIGN.md / notes:
//   - Bound. The full product "struct of 1-3 fields over all depth-1 types" has 10^9 members;
//     the grammar enumerated is: depth 1 complete (every struct of 1-3 leaves, [2]T, [3]T, T?,
//     E ! T); depth d+1 = every constructor applied with EXACTLY ONE composite argument of depth
//     d, all other arguments leaves ("one composite child"). Quick/thorough narrow the child and
//     sibling sets as stated in Coverage.Bound.
//   - `T??` does not parse (`??` is an operator token): optional of optional is left out of (ii);
//     an optional of an array needs a named alias (`[2]i8?` is an array of optionals).
//   - A result cannot be held in a variable (T0023), so results are exercised only as function
//     results through `catch` (both the handler-returns and the fallback form); nothing can be
//     stored "into" a result.
//   - The optional flag offset and the result tag offset are not functions of layout.go: the
//     consumers use SizeOf(inner) for the flag (emit.go emitOptional*, optional.c, map.c), and
//     SizeOf(result) = tag + max(align,1) by construction in layout.go, so the layout's tag
//     offset is recovered as SizeOf - max(AlignOf,1) and compared with emit.go's
//     resultTagOffset (exported by overlay, _add/internal/codegen/qbe_embeddings). The wasm
//     emitter has no result/optional support at all, hence no second tag computation.
//   - A program a target rejects is outside the quantifier for that target (counted by
//     constructor family); a (target, family) in which nothing at all is accepted is reported as
//     C18/vacuity/<target>/<family>.
//   - Observations that disagree inside a packed program are confirmed on a program of their
//     own (built by the real `ferret` binary) for the first confirmCap cases of every (target,
//     phase, store kind) class; the rest are reported from the packed run (counter
//     failing_cases_observed_in_pack_only).
//   - Cost. The compiler needs 5-10 ms of CPU per source line (front end, super-linear in the
//     size of a program) plus ~0.6 s per process, so the type sets are far below DESIGN's 1.2 k /
//     15 k types: quick 197 types (1.3 k cases per target), thorough 931 types (6.8 k cases per
//     target); see Coverage.Bound for the exact grammar. Every type gets the "lean" case set (each
//     phase of the property once, all store kinds together, components printed through a
//     per-type `show(x: T)` function, which also exercises passing the value), a few small types
//     additionally the "fine" set (one case per store target / store kind, printed inline).
//     Phases of one type share their declarations inside a packed program. Native programs are
//     built by the real binary; wasm programs by the compiler's own pipeline in worker
//     processes (fe pool, no process start per program) and run under node with the shipped
//     runtime.js; children run with GOMAXPROCS=1 (GC threads thrash on a loaded machine).
//   - A wasm module that cannot be instantiated because runtime.js lacks an import (i128
//     literals: ferret_i128_from_string_ptr) counts as rejected by the target (nothing ran).
//   - A time-out is re-observed alone with a 60 s limit; a second time-out is counted
//     (timeouts_not_judged), not raised.
//   - The internal budget stops new packs at 360 s (quick) / 17 min (thorough); packs are
//     ordered breadth first over (depth, phase group, optional-ness, i128, root constructor), so a
//     stopped run (exhaustive=false) has still touched every class; vacuity is raised only by a
//     run that was not stopped.
package c18

import (
	"fmt"
	"os"
	"path/filepath"
	"sort"
	"strings"
	"sync"
	"time"

	qbe "compiler/internal/codegen/qbe_embeddings"
	"compiler/internal/mir"
	"compiler/internal/types"
	"compiler/verifh/fe"
	"compiler/verifh/run"
	"compiler/verifh/vl"
)

// ---------------------------------------------------------------- (i) layout

var layoutLeaves = []string{"i8", "i16", "i32", "i64", "i128", "i256", "bool", "f32", "f64", "str", "&i32", "[]i32", "u8", "byte", "u64"}

func semLeaf(n string) types.SemType {
	switch n {
	case "i8":
		return types.TypeI8
	case "i16":
		return types.TypeI16
	case "i32":
		return types.TypeI32
	case "i64":
		return types.TypeI64
	case "i128":
		return types.TypeI128
	case "i256":
		return types.TypeI256
	case "bool":
		return types.TypeBool
	case "f32":
		return types.TypeF32
	case "f64":
		return types.TypeF64
	case "str":
		return types.TypeString
	case "u8":
		return types.TypeU8
	case "u16":
		return types.TypeU16
	case "u32":
		return types.TypeU32
	case "u64":
		return types.TypeU64
	case "byte":
		return types.TypeByte
	case "&i32":
		return types.NewReference(types.TypeI32)
	case "[]i32":
		return types.NewArray(types.TypeI32, -1)
	}
	panic("c18: leaf " + n)
}

// leafSize is the oracle for leaves: the width the name states; str, references and dynamic
// arrays are one pointer.
func leafSize(n string, ps int) int {
	switch n {
	case "i8", "bool", "u8", "byte":
		return 1
	case "i16", "u16":
		return 2
	case "i32", "f32", "u32":
		return 4
	case "i64", "f64", "u64":
		return 8
	case "i128":
		return 16
	case "i256":
		return 32
	}
	return ps
}

func sem(t *ty) types.SemType {
	switch t.k {
	case kLeaf:
		return semLeaf(t.leaf)
	case kStruct:
		fs := make([]types.StructField, len(t.fs))
		for i, f := range t.fs {
			fs[i] = types.StructField{Name: fmt.Sprintf("F%d", i), Type: sem(f)}
		}
		return types.NewStruct("", fs)
	case kArr:
		return types.NewArray(sem(t.el), t.n)
	case kOpt:
		return types.NewOptional(sem(t.in))
	default:
		return types.NewResult(sem(t.ok), sem(t.er))
	}
}

type layoutStats struct {
	states, invariants int64
}

// checkLayout evaluates the invariants on t (and, recursively, nothing else: children are
// types of the enumeration themselves). It returns the violated invariants.
func checkLayout(dl *mir.DataLayout, ps int, t *ty, st types.SemType, inv *int64) []string {
	var bad []string
	chk := func(ok bool, format string, a ...any) {
		*inv++
		if !ok {
			bad = append(bad, fmt.Sprintf(format, a...))
		}
	}
	S, A := dl.SizeOf(st), dl.AlignOf(st)
	chk(S > 0, "size %d is not positive", S)
	chk(A >= 1 && A&(A-1) == 0, "alignment %d is not a power of two", A)
	if A < 1 {
		return bad
	}
	chk(S%A == 0, "size %d is not a multiple of the alignment %d", S, A)
	switch t.k {
	case kLeaf:
		chk(S == leafSize(t.leaf, ps), "size of %s is %d with %d-byte pointers, its width is %d", t.leaf, S, ps, leafSize(t.leaf, ps))
	case kStruct:
		sty := st.(*types.StructType)
		L := dl.StructLayout(sty)
		chk(len(L.Fields) == len(sty.Fields), "%d of %d fields laid out", len(L.Fields), len(sty.Fields))
		chk(L.Size == S && L.Align == A, "StructLayout says size %d align %d, SizeOf/AlignOf say %d/%d", L.Size, L.Align, S, A)
		type iv struct{ lo, hi int }
		var ivs []iv
		for i, f := range L.Fields {
			fa, fs := dl.AlignOf(f.Type), dl.SizeOf(f.Type)
			chk(fa >= 1 && f.Offset%fa == 0, "field %d at offset %d is not aligned to %d", i, f.Offset, fa)
			chk(f.Offset >= 0 && f.Offset+fs <= S, "field %d [%d,%d) is not inside size %d", i, f.Offset, f.Offset+fs, S)
			chk(fa >= 1 && A%fa == 0, "struct alignment %d does not guarantee field %d's alignment %d", A, i, fa)
			if off, ok := L.FieldOffset(f.Name); true {
				chk(ok && off == f.Offset, "FieldOffset(%s) = %d,%v but the field list says %d", f.Name, off, ok, f.Offset)
			}
			for j, o := range ivs {
				chk(f.Offset >= o.hi || f.Offset+fs <= o.lo, "fields %d and %d overlap", j, i)
			}
			ivs = append(ivs, iv{f.Offset, f.Offset + fs})
		}
	case kArr:
		es, ea := dl.SizeOf(sem(t.el)), dl.AlignOf(sem(t.el))
		chk(S == t.n*es, "array size %d is not %d x element size %d (consumers index with element size)", S, t.n, es)
		chk(ea >= 1 && es%ea == 0, "array stride %d is not a multiple of the element alignment %d", es, ea)
		chk(ea >= 1 && A%ea == 0, "array alignment %d does not guarantee the element alignment %d", A, ea)
	case kOpt:
		vs, va := dl.SizeOf(sem(t.in)), dl.AlignOf(sem(t.in))
		flag := vs // emit.go emitOptionalNone/Some/IsSome, optional.c, map.c: flag at val_size
		chk(flag >= vs && flag < S, "optional flag at offset %d is not inside size %d", flag, S)
		chk(vs+1 <= S, "the runtime (optional.c, map.c) touches val_size+1 = %d bytes, the layout has %d", vs+1, S)
		chk(va >= 1 && A%va == 0, "optional alignment %d does not guarantee the value's alignment %d", A, va)
	case kRes:
		rt := st.(*types.ResultType)
		os_, es := dl.SizeOf(rt.Ok), dl.SizeOf(rt.Err)
		oa, ea := dl.AlignOf(rt.Ok), dl.AlignOf(rt.Err)
		a1 := A
		if a1 < 1 {
			a1 = 1
		}
		tagLayout := S - a1
		tagEmit, ok := qbe.VerifResultTagOffset(dl, rt)
		chk(ok, "emit.go resultTagOffset gives no offset")
		chk(tagEmit == tagLayout, "result tag: emit.go resultTagOffset = %d, layout.go places it at %d (size %d - align %d)", tagEmit, tagLayout, S, a1)
		chk(tagEmit >= os_ && tagEmit >= es, "result tag at %d lies inside a payload (ok %d bytes, err %d bytes)", tagEmit, os_, es)
		chk(tagEmit+1 <= S, "result tag at %d is not inside size %d", tagEmit, S)
		chk(oa >= 1 && ea >= 1 && A%oa == 0 && A%ea == 0, "result alignment %d does not guarantee the payload alignments %d/%d", A, oa, ea)
	}
	return bad
}

func layoutPart(c *vl.Ctx) (layoutStats, string) {
	leaves := leavesOf(layoutLeaves...)
	d1 := depth1(leaves, 3)
	d1 = append(d1, wideTypes()...)
	d1 = append(d1, results(nil, leaves)...)
	var all [][]*ty
	all = append(all, leaves, d1)
	// depth 2: one composite child from the complete depth 1, siblings from all leaves; quick
	// takes the 3-field structs only over the children with at most 2 fields
	d1n := depth1(leaves, 2)
	d1n = append(d1n, results(nil, leaves)...)
	var d2 []*ty
	if c.Quick() {
		d2 = wrap(d1, leaves, 2, true)
		d2 = append(d2, oneCompositeK(d1n, leaves, 3)...)
	} else {
		d2 = wrap(d1, leaves, 3, true)
	}
	d2 = append(d2, results(d1, leaves)...)
	all = append(all, d2)
	bound := fmt.Sprintf("layout: %d leaves, depth1 complete=%d, depth2 one-composite-child=%d (quick: 3-field structs only over children with <=2 fields)", len(leaves), len(d1), len(d2))
	if !c.Quick() {
		// depth 3: child from depth 2 built with structs of at most 2 fields, siblings all leaves,
		// structs of at most 2 fields
		d2n := wrap(d1n, leaves, 2, true)
		d2n = append(d2n, results(d1n, leaves)...)
		d3 := wrap(d2n, leaves, 2, true)
		d3 = append(d3, results(d2n, leaves)...)
		all = append(all, d3)
		bound += fmt.Sprintf(", depth3 over the 2-field sub-grammar=%d", len(d3))
	}
	bound += " x pointer size {4,8}"
	var st layoutStats
	var mu sync.Mutex
	for _, set := range all {
		const chunk = 4096
		nch := (len(set) + chunk - 1) / chunk
		vl.ParDo(nch, 0, func(ci int) {
			lo, hi := ci*chunk, (ci+1)*chunk
			if hi > len(set) {
				hi = len(set)
			}
			var states, inv int64
			for _, ps := range []int{4, 8} {
				dl := mir.NewDataLayout(ps)
				for _, t := range set[lo:hi] {
					states++
					bad := checkLayout(dl, ps, t, sem(t), &inv)
					if len(bad) > 0 {
						sort.Strings(bad)
						c.Fail(vl.Fail{Case: fmt.Sprintf("C18/layout/ptr%d/%s/%s", ps, t.rootName(), t.key()),
							Obs:   strings.Join(bad, "; "),
							Files: map[string]string{"type.txt": fmt.Sprintf("%s with %d-byte pointers\nsize %d align %d\n", t.key(), ps, dl.SizeOf(sem(t)), dl.AlignOf(sem(t)))}})
						c.Outcome("layout/" + t.rootName() + " VIOLATED")
					} else if states%97 == 0 {
						c.Outcome(fmt.Sprintf("layout/%s size%%8=%d", t.rootName(), dl.SizeOf(sem(t))%8))
					}
				}
			}
			mu.Lock()
			st.states += states
			st.invariants += inv
			mu.Unlock()
		})
	}
	return st, bound
}

// ---------------------------------------------------------------- (ii) behavioural

// wideTypes: structs of five and six fields that agree in their first two and their last field
// and differ in the middle (anything that identifies a struct by an abbreviated spelling mixes
// them up), and composites larger than 64 and 128 bytes (offsets that need a second LEB128 byte
// or a sign bit).
func wideTypes() []*ty {
	var out []*ty
	mid := leavesOf("i8", "i16", "i32", "i64")
	for _, a := range mid {
		for _, b := range mid {
			out = append(out, tStruct(tLeaf("i8"), tLeaf("i64"), a, b, tLeaf("i8")))
		}
	}
	out = append(out, tStruct(tLeaf("i8"), tLeaf("i64"), tLeaf("i32"), tLeaf("i8"), tLeaf("i64"), tLeaf("i8")),
		tStruct(tLeaf("i8"), tLeaf("i64"), tLeaf("i8"), tLeaf("i32"), tLeaf("i16"), tLeaf("i8")))
	i64t, i32t, i8t := tLeaf("i64"), tLeaf("i32"), tLeaf("i8")
	nine := make([]*ty, 9)
	for i := range nine {
		nine[i] = i64t
	}
	out = append(out, tArr(9, i64t), tArr(17, i64t), tArr(20, i32t), tStruct(nine...), tStruct(i64t, tArr(9, i64t), i8t),
		tArr(3, tStruct(i64t, i64t, i64t, i64t)), tStruct(i8t, tArr(17, i64t), i8t))
	return out
}

// behaviouralTypes returns the types that get the fine-grained case set, those that get only
// the lean set, and the result types.
func behaviouralTypes(quick bool) (fine, lean, res []*ty, bound string) {
	all6 := leavesOf("i8", "i16", "i32", "i64", "bool", "str")
	sib := leavesOf("i8", "i64", "str")
	if quick {
		// depth 1: structs of 1-2 fields over all six leaves, of 3 fields over {i8,i64,str} and
		// the six orders of (i8,i32,i64) (mixed widths), arrays and optionals over all six
		d1 := structsOver(all6, 2)
		d1 = append(d1, structsK(sib, 3)...)
		w3 := leavesOf("i8", "i32", "i64")
		for _, p := range [][3]int{{0, 1, 2}, {0, 2, 1}, {1, 0, 2}, {1, 2, 0}, {2, 0, 1}, {2, 1, 0}} {
			d1 = append(d1, tStruct(w3[p[0]], w3[p[1]], w3[p[2]]))
		}
		for _, l := range all6 {
			d1 = append(d1, tArr(2, l), tArr(3, l))
		}
		for _, l := range all6 {
			d1 = append(d1, tOpt(l))
		}
		// the unsigned leaves and byte: structs of 1-2 fields, arrays, optionals, and structs
		// in which a one-byte leaf is followed closely by other fields
		uns := leavesOf("u8", "byte", "u16", "u32", "u64")
		d1 = append(d1, structsOver(uns, 2)...)
		for _, l := range uns {
			d1 = append(d1, tArr(2, l), tArr(3, l), tOpt(l))
		}
		bt, u8t, u16t, u32t, u64t, i64t, bl := tLeaf("byte"), tLeaf("u8"), tLeaf("u16"), tLeaf("u32"), tLeaf("u64"), tLeaf("i64"), tLeaf("bool")
		d1 = append(d1, tStruct(bt, bt, u8t), tStruct(bt, u8t, i64t), tStruct(bt, u16t, bt), tStruct(u32t, bt, u64t), tStruct(bt, bl, bt), tStruct(u8t, bl, u16t), tStruct(u16t, u8t, u32t))
		// depth 2: children = structs of 1-2 fields, [2]T and T? over {i8,i64}; constructors
		// [2]C, C?, {C}, {C,i8}, {i8,C}
		two := leavesOf("i8", "i64")
		ch := structsOver(two, 2)
		for _, l := range two {
			ch = append(ch, tArr(2, l))
		}
		for _, l := range two {
			ch = append(ch, tOpt(l))
		}
		var d2 []*ty
		for _, c := range ch {
			d2 = append(d2, tArr(2, c))
			if c.k != kOpt {
				d2 = append(d2, tOpt(c))
			}
		}
		d2 = append(d2, oneComposite(ch, leavesOf("i8"), 2)...)
		fine = []*ty{tStruct(two[0], two[1]), tArr(2, two[0]), tOpt(two[1]), tStruct(bt, u8t), tArr(3, bt)}
		lean = append(append(lean, d1...), d2...)
		lean = append(lean, wideTypes()...)
		res = append(results(nil, all6), results(ch, leavesOf("i64"))...)
		bound = fmt.Sprintf("behavioural (quick): depth1 = structs of 1-2 fields over {i8,i16,i32,i64,bool,str}, of 3 fields over {i8,i64,str} and the six orders of (i8,i32,i64), [2]T/[3]T/T? over all six: %d types; depth2 = [2]C, C?, {C}, {C,i8}, {i8,C} for C in the structs of 1-2 fields, [2]T, T? over {i8,i64} (%d children): %d types; fine-grained case set on %d depth1 types; results: leaf x leaf over six leaves, and C ! i64, i64 ! C: %d", len(d1), len(ch), len(d2), len(fine), len(res))
		return
	}
	all7 := leavesOf("i8", "i16", "i32", "i64", "i128", "bool", "str")
	two := leavesOf("i8", "i64")
	// depth 1 complete (structs of 1-3 fields, [2]T, [3]T, T?) over seven leaves
	d1 := depth1(all7, 3)
	// depth 2: children = depth 1 over {i8,i64,str} with structs of 1-2 fields; constructors
	// [2]C, [3]C, C?, {C}, {C,s}, {s,C} for s in {i8,i64}; plus the same over the i128 children
	// with s = i8
	ch := depth1(sib, 2)
	d2 := wrap(ch, two, 2)
	d2 = append(d2, wrap(depth1(leavesOf("i128"), 2), leavesOf("i8"), 2)...)
	// depth 3: [2]D, D?, {D}, {D,i8} over the quick tier's depth 2
	chq := structsOver(two, 2)
	for _, l := range two {
		chq = append(chq, tArr(2, l))
	}
	for _, l := range two {
		chq = append(chq, tOpt(l))
	}
	var d2q []*ty
	for _, c := range chq {
		d2q = append(d2q, tArr(2, c))
		if c.k != kOpt {
			d2q = append(d2q, tOpt(c))
		}
	}
	d2q = append(d2q, oneComposite(chq, leavesOf("i8"), 2)...)
	var d3 []*ty
	for _, c := range d2q {
		d3 = append(d3, tArr(2, c), tStruct(c), tStruct(c, tLeaf("i8")))
		if c.k != kOpt {
			d3 = append(d3, tOpt(c))
		}
	}
	uns := leavesOf("u8", "byte", "u16", "u32", "u64")
	d1 = append(d1, depth1(uns, 2)...)
	d1 = append(d1, structsK(leavesOf("byte", "u8", "i64"), 3)...)
	d1 = append(d1, structsK(leavesOf("byte", "u16", "bool"), 3)...)
	d2 = append(d2, wrap(depth1(leavesOf("byte", "u32"), 2), leavesOf("byte"), 2)...)
	fine = depth1(two, 2)
	fine = append(fine, tStruct(tLeaf("byte"), tLeaf("u8")), tArr(3, tLeaf("byte")), tStruct(tLeaf("byte"), tLeaf("bool"), tLeaf("byte")))
	fine = append(fine, tStruct(tStruct(two[0], two[1]), two[0]), tArr(2, tStruct(two[0], two[1])), tStruct(tOpt(two[1]), two[0]), tOpt(tStruct(two[0], two[1])))
	lean = append(append(append(append(lean, d1...), d2...), d2q...), d3...)
	lean = append(lean, wideTypes()...)
	res = append(results(nil, all7), results(ch, two)...)
	bound = fmt.Sprintf("behavioural (thorough): depth1 complete over {i8,i16,i32,i64,i128,bool,str}, structs 1-3 fields: %d; depth2 = [2]C, [3]C, C?, {C}, {C,s}, {s,C}, s in {i8,i64}, C in the depth1 over {i8,i64,str} with structs<=2 fields (%d children), the same over the i128 children with s=i8, and the quick tier's depth2: %d; depth3 = [2]D, D?, {D}, {D,i8} over the quick tier's depth2 (%d): %d; fine-grained case set on %d types; results: leaf x leaf over seven leaves and C ! s, s ! C: %d", len(d1), len(ch), len(d2)+len(d2q), len(d2q), len(d3), len(fine), len(res))
	return
}

// structsK returns the structs of exactly k fields over elems.
func structsK(elems []*ty, k int) []*ty {
	var out []*ty
	for _, t := range structsOver(elems, k) {
		if len(t.fs) == k {
			out = append(out, t)
		}
	}
	return out
}

// oneCompositeK returns only the structs of exactly k fields of oneComposite.
func oneCompositeK(comps, leaves []*ty, k int) []*ty {
	var out []*ty
	for _, t := range oneComposite(comps, leaves, k) {
		if len(t.fs) == k {
			out = append(out, t)
		}
	}
	return out
}

func Run(c *vl.Ctx) {
	quick := c.Quick()
	if quick {
		c.SetBudget(360 * time.Second)
	} else {
		c.SetBudget(17 * time.Minute)
	}
	dbg := func(what string) {
		if os.Getenv("VERIF_C18_DEBUG") != "" {
			fmt.Fprintf(os.Stderr, "c18: %6.1fs %s\n", time.Since(c.Start).Seconds(), what)
		}
	}
	st, lbound := layoutPart(c)
	dbg("layout done")
	c.Count("layout_types_x_pointer_sizes", st.states)
	c.Count("layout_invariant_evaluations", st.invariants)

	var evals int64 = st.invariants
	extra := map[string]any{}
	bbound := "behavioural part skipped (VERIF_C18_LAYOUT_ONLY)"
	if os.Getenv("VERIF_C18_LAYOUT_ONLY") == "" {
		fine, lean, res, bb := behaviouralTypes(quick)
		bbound = bb
		filter := os.Getenv("VERIF_FILTER")
		var cases []*bcase
		var ntypes int64
		seen := map[string]bool{}
		for _, t := range lean {
			if seen[t.key()] {
				continue
			}
			seen[t.key()] = true
			if t.nLeaves() > maxLeaves {
				c.Count("types_skipped_too_many_leaves", 1)
				continue
			}
			ntypes++
			cases = append(cases, leanCases(t)...)
		}
		seenF := map[string]bool{}
		for _, t := range fine {
			if seenF[t.key()] {
				continue
			}
			seenF[t.key()] = true
			if !seen[t.key()] {
				ntypes++
			}
			cases = append(cases, fineCases(t)...)
		}
		for _, t := range res {
			ntypes++
			cases = append(cases, casesForResult(t)...)
		}
		if filter != "" {
			var f []*bcase
			for _, k := range cases {
				if strings.Contains(k.id, filter) {
					f = append(f, k)
				}
			}
			cases = f
		}
		var nst int64
		for _, k := range cases {
			nst += int64(k.size())
		}
		c.Count("behavioural_source_lines_per_target", nst)
		if os.Getenv("VERIF_C18_DEBUG") != "" {
			by := map[string]int{}
			for _, k := range cases {
				by[fmt.Sprintf("%s d%d %s", k.phase, k.t.depth(), k.t.rootName())] += k.size()
			}
			var ks []string
			for k := range by {
				ks = append(ks, k)
			}
			sort.Strings(ks)
			for _, k := range ks {
				fmt.Fprintf(os.Stderr, "c18:   lines %-40s %d\n", k, by[k])
			}
		}
		dbg(fmt.Sprintf("%d types, %d cases, %d source lines generated", ntypes, len(cases), nst))
		c.Count("behavioural_types", ntypes)
		c.Count("behavioural_cases_per_target", int64(len(cases)))
		for _, i := range []int{0, len(cases) / 5, len(cases) / 2, len(cases) - 1} {
			if i >= 0 && i < len(cases) {
				c.Sample(map[string]any{"id": fmt.Sprintf(cases[i].id, "<target>"), "program": cases[i].source(), "expected": strings.Join(cases[i].want, "|")})
			}
		}
		// the compiler's front end slows down sharply with GC threads competing on a loaded
		// machine; its behaviour does not depend on the setting
		os.Setenv("GOMAXPROCS", "1")
		rn := run.New(c)
		rn.Fast = os.Getenv("VERIF_NOFAST") == ""
		rn.RunTimeout = 60 * time.Second
		dbg("compiler and runtime built")
		pool := fe.NewPool(c.W, filepath.Join(c.Repo, "ferret_libs"), 5)
		var judged, rejected, programs int64
		families := map[string][2]int64{}
		var wg sync.WaitGroup
		var rmu sync.Mutex
		for _, target := range []string{"native", "wasm"} {
			if tg := os.Getenv("VERIF_C18_TARGET"); tg != "" && tg != target {
				continue
			}
			r := &runner{c: c, rn: rn, target: target, workers: 9}
			if target == "wasm" {
				r.workers = 5
			}
			if target == "wasm" && os.Getenv("VERIF_C18_WASM_BINARY") == "" {
				r.pool = pool
			}
			wg.Add(1)
			go func() {
				defer wg.Done()
				tr := runTarget(c, r, cases, 250, 6)
				dbg(fmt.Sprintf("%s done: judged %d rejected %d timeouts %d programs %d", r.target, tr.judged, tr.rejected, tr.timeouts, tr.programs))
				rmu.Lock()
				defer rmu.Unlock()
				judged += tr.judged
				rejected += tr.rejected
				programs += tr.programs
				for k, v := range tr.fam {
					families[k] = v
				}
			}()
		}
		wg.Wait()
		pool.Close()
		evals += judged
		c.Count("behavioural_cases_judged", judged)
		c.Count("behavioural_cases_rejected_by_target", rejected)
		c.Count("programs_compiled", programs)
		var fk []string
		for k := range families {
			fk = append(fk, k)
		}
		sort.Strings(fk)
		fams := map[string]string{}
		for _, k := range fk {
			v := families[k]
			fams[k] = fmt.Sprintf("accepted=%d rejected=%d", v[0], v[1])
			if v[0] == 0 && v[1] > 0 && !c.Capped && strings.HasPrefix(k, "wasm/") {
				// the wasm back end does not implement optionals/results/128-bit integers at all:
				// those programs are outside the quantifier for wasm; counted, not raised
				c.Count("family_not_supported_by_target:"+k, 1)
				fmt.Printf("NOTE: C18 family %s: every program rejected by the target (outside the quantifier)\n", k)
			} else if v[0] == 0 && v[1] > 0 && !c.Capped {
				c.Fail(vl.Fail{Case: "C18/vacuity/" + k, Obs: "no program of this family is accepted by this target: the property is not exercised for it",
					Files: map[string]string{"note.txt": fmt.Sprintf("%s: accepted=0 rejected=%d\n", k, v[1])}})
			}
		}
		extra["families_accepted_rejected"] = fams
	}
	c.Assume = append(c.Assume,
		"expected output comes from a value-semantics tree model: an assignment, an argument, a result, an array/struct literal element all copy",
		"a program a target rejects is outside the quantifier for that target (counted per family; an entirely rejected family is reported as C18/vacuity/...)",
		"leaf widths: the integer/float width in the name; str, &T, []T are one pointer (4 under wasm, 8 natively)",
		"optional flag offset = SizeOf(inner) as used by emit.go, optional.c and map.c; the layout's result tag offset = SizeOf - max(AlignOf,1)")
	c.Finish(vl.Coverage{Evaluations: evals, Exhaustive: true,
		Rule:        "(i) every type expression of the bounded grammar x pointer size laid out by the real mir.DataLayout, all invariants evaluated; (ii) every type expression of the behavioural grammar x every phase (init, each single store, cumulative stores, copy, copy+mutate, pass/return, callee mutates parameter, in array, in struct, methods, inferred let, result ok/err x catch form) x {native, wasm}, output compared line by line with the tree model",
		Bound:       lbound + "; " + bbound,
		States:      st.states,
		Transitions: st.invariants,
		Traces:      st.states,
		Extra:       extra})
}
