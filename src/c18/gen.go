package c18

import (
	"fmt"
	"strconv"
	"strings"
)

// bcase is one behavioural case: a self-contained group of declarations plus one function
// `@@run()`; "@@" is replaced by a per-case prefix when cases are packed into a program.
type bcase struct {
	id     string
	phase  string // init, store, storeall, copy, copy-mut, call, ...
	skind  string // kind of the store(s) involved: <step>-<what>, or "none"
	t      *ty
	group  string // cases of one group share their declarations when packed next to each other
	decls  string
	body   string
	want   []string
	labels []string
	uni    map[string]bool
}

// size is the number of source lines of the case (the compiler's cost grows faster than
// linearly with the size of a program, so packs are bounded by lines, not by cases).
func (k *bcase) size() int { return strings.Count(k.decls, "\n") + strings.Count(k.body, "\n") }

// source renders the case as a program of its own.
func (k *bcase) source() string {
	return packSource([]*bcase{k}, nil)
}

type gen struct {
	t      *ty
	alias  map[string]bool
	names  map[string]string
	order  []*ty
	extra  strings.Builder // helper functions, wrapper types
	b      strings.Builder
	want   []string
	labels []string
	tmp    int
	dfl    map[string]string
	dflV   map[string]*val
	uni    map[string]bool
	// inline makes show() print inline instead of through a function
	inline       bool
	showDeclared bool
	group        string
}

func newGen(t *ty) *gen {
	g := &gen{t: t, alias: map[string]bool{}, names: map[string]string{}, dfl: map[string]string{}, dflV: map[string]*val{}, uni: map[string]bool{"true": true, "false": true}}
	g.scan(t, false)
	g.name(t)
	return g
}

func (g *gen) scan(t *ty, underOpt bool) {
	switch t.k {
	case kStruct:
		for _, f := range t.fs {
			g.scan(f, false)
		}
	case kArr:
		if underOpt {
			g.alias[t.key()] = true
		}
		g.scan(t.el, false)
	case kOpt:
		g.scan(t.in, true)
	case kRes:
		// `[2]i8 ! T` parses as an array of results: an array error type needs a name
		g.scan(t.er, true)
		g.scan(t.ok, false)
	}
}

// name assigns declaration names in post-order (inner types are declared first).
func (g *gen) name(t *ty) {
	switch t.k {
	case kStruct:
		for _, f := range t.fs {
			g.name(f)
		}
		if _, ok := g.names[t.key()]; !ok {
			g.names[t.key()] = fmt.Sprintf("@@S%d", len(g.names))
			g.order = append(g.order, t)
		}
	case kArr:
		g.name(t.el)
		if g.alias[t.key()] {
			if _, ok := g.names[t.key()]; !ok {
				g.names[t.key()] = fmt.Sprintf("@@A%d", len(g.names))
				g.order = append(g.order, t)
			}
		}
	case kOpt:
		g.name(t.in)
	case kRes:
		g.name(t.er)
		g.name(t.ok)
	}
}

func (g *gen) src(t *ty) string {
	switch t.k {
	case kLeaf:
		return t.leaf
	case kStruct:
		return g.names[t.key()]
	case kArr:
		if g.alias[t.key()] {
			return g.names[t.key()]
		}
		return fmt.Sprintf("[%d]%s", t.n, g.src(t.el))
	case kOpt:
		return g.src(t.in) + "?"
	default:
		return g.src(t.er) + " ! " + g.src(t.ok)
	}
}

func (g *gen) typeDecls() string {
	var b strings.Builder
	for _, t := range g.order {
		if t.k == kArr {
			fmt.Fprintf(&b, "type %s [%d]%s;\n", g.names[t.key()], t.n, g.src(t.el))
			continue
		}
		fmt.Fprintf(&b, "type %s struct {\n", g.names[t.key()])
		for i, f := range t.fs {
			sep := ","
			if i == len(t.fs)-1 {
				sep = ""
			}
			fmt.Fprintf(&b, "    .F%d: %s%s\n", i, g.src(f), sep)
		}
		b.WriteString("};\n")
	}
	return b.String()
}

func (g *gen) stmt(format string, a ...any) {
	g.b.WriteString("    " + fmt.Sprintf(format, a...) + "\n")
}

func (g *gen) fresh(p string) string {
	g.tmp++
	return fmt.Sprintf("%s%d", p, g.tmp)
}

func (g *gen) expect(line, label string) {
	g.want = append(g.want, line)
	g.labels = append(g.labels, label)
	g.uni[line] = true
}

func (g *gen) println(expr, want, label string) {
	g.stmt("io::Println(%s);", expr)
	g.expect(want, label)
}

func (g *gen) marker(s string) {
	g.println(strconv.Quote(s), s, "marker")
}

// expr renders a value as an expression usable where its type is known from the context
// (typed let, field of a typed literal, typed assignment). The payload of a present optional
// goes through a typed temporary.
func (g *gen) expr(v *val) string {
	switch v.t.k {
	case kLeaf:
		g.uni[v.leaf] = true
		if v.t.leaf == "str" {
			return strconv.Quote(v.leaf)
		}
		return v.leaf
	case kStruct:
		p := make([]string, len(v.kids))
		for i, k := range v.kids {
			p[i] = fmt.Sprintf(".F%d = %s", i, g.expr(k))
		}
		return "{ " + strings.Join(p, ", ") + " }"
	case kArr:
		p := make([]string, len(v.kids))
		for i, k := range v.kids {
			p[i] = g.expr(k)
		}
		return "[" + strings.Join(p, ", ") + "]"
	case kOpt:
		if !v.some {
			return "none"
		}
		return g.hoist(v.pay)
	}
	panic("c18: expr")
}

// hoist declares a typed temporary holding v and returns its name.
func (g *gen) hoist(v *val) string {
	e := g.expr(v)
	n := g.fresh("x")
	g.stmt("let %s: %s = %s;", n, g.src(v.t), e)
	return n
}

func (g *gen) dflt(t *ty) (string, *val) {
	if n, ok := g.dfl[t.key()]; ok {
		return n, g.dflV[t.key()]
	}
	c := 0
	v := build(t, &c, mDflt)
	e := g.expr(v)
	n := g.fresh("d")
	g.stmt("let %s: %s = %s;", n, g.src(t), e)
	g.dfl[t.key()] = n
	g.dflV[t.key()] = v
	return n, v
}

// printCode emits the statements that print every component of a value of type t at source
// path sp: leaves directly, an optional as its discriminant followed by the components of
// `sp ?? default`.
func (g *gen) printCode(sp string, t *ty) {
	switch t.k {
	case kLeaf:
		if t.leaf == "byte" {
			g.stmt("io::Println(%s as i32);", sp) // a byte prints as a character: show its number
		} else {
			g.stmt("io::Println(%s);", sp)
		}
	case kStruct:
		for i, f := range t.fs {
			g.printCode(fmt.Sprintf("%s.F%d", sp, i), f)
		}
	case kArr:
		for i := 0; i < t.n; i++ {
			g.printCode(fmt.Sprintf("%s[%d]", sp, i), t.el)
		}
	case kOpt:
		g.stmt("tn = %s == none;", sp)
		g.stmt("io::Println(tn);")
		dn, _ := g.dflt(t.in)
		n := g.fresh("u")
		g.stmt("let %s: %s = %s ?? %s;", n, g.src(t.in), sp, dn)
		g.printCode(n, t.in)
	}
}

func dfltOf(t *ty) *val { c := 0; return build(t, &c, mDflt) }

// printWant appends the lines printCode's statements must print for value v (shown as dp).
func (g *gen) printWant(dp string, v *val, tag string) {
	switch v.t.k {
	case kLeaf:
		g.expect(v.leaf, tag+" "+dp)
	case kStruct:
		for i, k := range v.kids {
			g.printWant(fmt.Sprintf("%s.F%d", dp, i), k, tag)
		}
	case kArr:
		for i, k := range v.kids {
			g.printWant(fmt.Sprintf("%s[%d]", dp, i), k, tag)
		}
	case kOpt:
		g.expect(strconv.FormatBool(!v.some), tag+" "+dp+"==none")
		shown := dfltOf(v.t.in)
		if v.some {
			shown = v.pay
		}
		g.printWant("("+dp+"??d)", shown, tag)
	}
}

// printAll prints every component of the value at source path sp inline.
func (g *gen) printAll(sp, dp string, v *val, tag string) {
	g.printCode(sp, v.t)
	g.printWant(dp, v, tag)
}

// show prints every component of the value at sp through the case's `@@show(x: T)` function
// (declared on first use); used by the lean case set to keep programs small. The value is
// passed by value, which the property covers as well ("passes it to a function").
func (g *gen) show(sp, dp string, v *val, tag string) {
	if g.inline {
		g.printAll(sp, dp, v, tag)
		return
	}
	if !g.showDeclared {
		g.showDeclared = true
		save, sdfl, sdflV, stmp := g.b, g.dfl, g.dflV, g.tmp
		g.b = strings.Builder{}
		g.dfl, g.dflV = map[string]string{}, map[string]*val{}
		g.tmp = 1000 // the text must not depend on where in the case the first use is
		if v.t.hasOpt() {
			g.stmt("let tn: bool = false;")
		}
		g.printCode("x", v.t)
		fmt.Fprintf(&g.extra, "fn @@show(x: %s) {\n%s}\n", g.src(v.t), g.b.String())
		g.b, g.dfl, g.dflV, g.tmp = save, sdfl, sdflV, stmp
	}
	g.stmt("@@show(%s);", sp)
	g.printWant(dp, v, tag)
}

func (g *gen) guards(tag string) {
	g.println("g1", "1111", tag+" guard g1")
	g.println("g2", "2222", tag+" guard g2")
}

// ---------------------------------------------------------------- store targets

type target struct {
	path string // relative to the root of the value
	idx  []int
	step string // fld | elem | "" (the root itself)
	what string // leaf | whole | some | none
	t    *ty
}

func (tg target) kind(baseStep string) string {
	s := tg.step
	if s == "" {
		s = baseStep
	}
	return s + "-" + tg.what
}

// targets enumerates what can be stored into inside a value of type t: every leaf, every
// inner struct/array as a whole, every optional (to some / to none). The payload of an optional
// is not addressable in Ferret. The root as a whole is a target only when the value itself is
// a field or an element (wholeRoot).
func targets(t *ty, wholeRoot bool) []target {
	var out []target
	var walk func(t *ty, path string, idx []int, step string, root bool)
	walk = func(t *ty, path string, idx []int, step string, root bool) {
		id := append([]int{}, idx...)
		switch t.k {
		case kLeaf:
			out = append(out, target{path, id, step, "leaf", t})
		case kStruct:
			if !root || wholeRoot {
				out = append(out, target{path, id, step, "whole", t})
			}
			for i, f := range t.fs {
				walk(f, fmt.Sprintf("%s.F%d", path, i), append(id, i), "fld", false)
			}
		case kArr:
			if !root || wholeRoot {
				out = append(out, target{path, id, step, "whole", t})
			}
			for i := 0; i < t.n; i++ {
				walk(t.el, fmt.Sprintf("%s[%d]", path, i), append(id, i), "elem", false)
			}
		case kOpt:
			out = append(out, target{path, id, step, "some", t}, target{path, id, step, "none", t})
		}
	}
	walk(t, "", nil, "", true)
	return out
}

func nav(v *val, idx []int) *val {
	for _, i := range idx {
		v = v.kids[i]
	}
	return v
}

// store emits `base<path> = ...` and updates the model value root.
func (g *gen) store(base string, root, sent *val, tg target) {
	dst, s := nav(root, tg.idx), nav(sent, tg.idx)
	lhs := base + tg.path
	switch tg.what {
	case "leaf":
		g.stmt("%s = %s;", lhs, g.expr(s))
		dst.leaf = s.leaf
	case "whole":
		n := g.hoist(s)
		g.stmt("%s = %s;", lhs, n)
		*dst = *s.clone()
	case "some":
		n := g.hoist(s.pay)
		g.stmt("%s = %s;", lhs, n)
		dst.some = true
		dst.pay = s.pay.clone()
	case "none":
		g.stmt("%s = none;", lhs)
		dst.some = false
	}
}

func (g *gen) finish(id, phase, skind string) *bcase {
	return &bcase{id: id, phase: phase, skind: skind, t: g.t, group: g.group,
		decls: g.typeDecls() + g.extra.String(),
		body:  "fn @@run() {\n" + g.b.String() + "}\n",
		want:  g.want, labels: g.labels, uni: g.uni}
}

func mkInit(t *ty) *val { c := 0; return build(t, &c, mInit) }
func mkSent(t *ty) *val { c := 0; return build(t, &c, mSent) }
func mkAlt(t *ty) *val  { c := 0; return build(t, &c, mAlt) }

// prologue declares the guards around `let v: T = <init>`.
func (g *gen) prologue() *val {
	if g.t.hasOpt() {
		g.stmt("let tn: bool = false;")
	}
	g.stmt("let g1: i64 = 1111;")
	v := mkInit(g.t)
	e := g.expr(v)
	g.stmt("let v: %s = %s;", g.src(g.t), e)
	g.stmt("let g2: i64 = 2222;")
	return v
}

// kindsOf groups targets by kind, in first-appearance order; "whole" targets are left out of
// the groups used by the *-mut phases when skipWhole is set.
func kindsOf(tgs []target, baseStep string) (order []string, by map[string][]target) {
	by = map[string][]target{}
	for _, tg := range tgs {
		k := tg.kind(baseStep)
		if _, ok := by[k]; !ok {
			order = append(order, k)
		}
		by[k] = append(by[k], tg)
	}
	return
}

// nonWhole filters out whole-component targets.
func nonWhole(tgs []target) []target {
	var out []target
	for _, tg := range tgs {
		if tg.what != "whole" {
			out = append(out, tg)
		}
	}
	return out
}

// leanCases generates the compact phase set of a non-result type: every phase of the property
// once, all store kinds of a type together (kind "mixed").
func leanCases(t *ty) []*bcase {
	var out []*bcase
	tk := t.key()
	id := func(phase, skind string) string { return fmt.Sprintf("C18/beh/%%s/%s/%s/%s", phase, skind, tk) }
	tgs := targets(t, false)
	leafTgs := nonWhole(tgs)

	// storeall: the literal read back, then every leaf and optional stored in turn
	// (cumulative), everything and the guards printed after each
	{
		g := newGen(t)
		g.group = "lean:" + tk
		v := g.prologue()
		g.show("v", "v", v, "init")
		g.guards("init")
		s := mkSent(t)
		for _, tg := range leafTgs {
			g.store("v", v, s, tg)
			tag := "after v" + tg.path + "=" + tg.what
			g.show("v", "v", v, tag)
			g.guards(tag)
		}
		out = append(out, g.finish(id("storeall", "mixed"), "storeall", "mixed"))
	}
	// copy-mut: copy, print both, mutate every component of the copy, print both
	{
		g := newGen(t)
		g.group = "lean:" + tk
		v := g.prologue()
		g.stmt("let w: %s = v;", g.src(t))
		g.show("v", "v", v, "copied")
		g.show("w", "w", v, "copied")
		w := v.clone()
		s := mkSent(t)
		for _, tg := range leafTgs {
			g.store("w", w, s, tg)
		}
		g.show("v", "v", v, "copy mutated")
		g.show("w", "w", w, "copy mutated")
		g.guards("copy mutated")
		out = append(out, g.finish(id("copy-mut", "mixed"), "copy-mut", "mixed"))
	}
	// call-mut: the callee stores into every component of its parameter and returns it
	{
		g := newGen(t)
		g.group = "lean:" + tk
		v := g.prologue()
		save := g.b
		g.b = strings.Builder{}
		r := v.clone()
		s := mkSent(t)
		for _, tg := range leafTgs {
			g.store("x", r, s, tg)
		}
		callee := g.b.String()
		g.b = save
		fmt.Fprintf(&g.extra, "fn @@mut(x: %s) -> %s {\n%s    return x;\n}\n", g.src(t), g.src(t), callee)
		g.stmt("let r: %s = @@mut(v);", g.src(t))
		g.show("v", "v", v, "callee mutated its parameter")
		g.show("r", "r", r, "callee mutated its parameter")
		g.guards("callee mutated its parameter")
		out = append(out, g.finish(id("call-mut", "mixed"), "call-mut", "mixed"))
	}
	// inarr-mut: [v, v2], then every component of element 1 stored
	{
		g := newGen(t)
		g.group = "lean:" + tk
		v := g.prologue()
		v2 := mkAlt(t)
		g.stmt("let v2: %s = %s;", g.src(t), g.expr(v2))
		g.stmt("let arr: [2]%s = [v, v2];", g.src(t))
		a0, a1 := v.clone(), v2.clone()
		g.show("arr[0]", "arr[0]", a0, "in array")
		g.show("arr[1]", "arr[1]", a1, "in array")
		s := mkSent(t)
		for _, tg := range leafTgs {
			g.store("arr[1]", a1, s, tg)
		}
		g.show("arr[0]", "arr[0]", a0, "array element mutated")
		g.show("arr[1]", "arr[1]", a1, "array element mutated")
		g.show("v", "v", v, "array element mutated")
		g.guards("array element mutated")
		out = append(out, g.finish(id("inarr-mut", "mixed"), "inarr-mut", "mixed"))
	}
	// instruct-mut: { .P, .V = v, .Q }, then every component of .V stored
	{
		g := newGen(t)
		g.group = "lean:" + tk
		fmt.Fprintf(&g.extra, "type @@W struct {\n    .P: i8,\n    .V: %s,\n    .Q: i64\n};\n", g.src(t))
		v := g.prologue()
		g.stmt("let h: @@W = { .P = 77, .V = v, .Q = 8888888888 };")
		hv := v.clone()
		g.println("h.P", "77", "in struct h.P")
		g.show("h.V", "h.V", hv, "in struct")
		g.println("h.Q", "8888888888", "in struct h.Q")
		s := mkSent(t)
		for _, tg := range leafTgs {
			g.store("h.V", hv, s, tg)
		}
		g.println("h.P", "77", "struct field mutated h.P")
		g.show("h.V", "h.V", hv, "struct field mutated")
		g.println("h.Q", "8888888888", "struct field mutated h.Q")
		g.show("v", "v", v, "struct field mutated")
		g.guards("struct field mutated")
		out = append(out, g.finish(id("instruct-mut", "mixed"), "instruct-mut", "mixed"))
	}
	// whole: inner structs/arrays replaced as a whole; the value replaced as a whole where it
	// is an array element and a struct field
	{
		g := newGen(t)
		g.group = "lean:" + tk
		fmt.Fprintf(&g.extra, "type @@W struct {\n    .P: i8,\n    .V: %s,\n    .Q: i64\n};\n", g.src(t))
		v := g.prologue()
		v2 := mkAlt(t)
		g.stmt("let v2: %s = %s;", g.src(t), g.expr(v2))
		g.stmt("let arr: [2]%s = [v, v2];", g.src(t))
		g.stmt("let h: @@W = { .P = 77, .V = v, .Q = 8888888888 };")
		a0, a1, hv := v.clone(), v2.clone(), v.clone()
		s := mkSent(t)
		for _, tg := range tgs {
			if tg.what != "whole" {
				continue
			}
			g.store("v", v, s, tg)
			tag := "after v" + tg.path + "=whole"
			g.show("v", "v", v, tag)
		}
		g.stmt("arr[0] = v2;")
		a0 = v2.clone()
		g.show("arr[0]", "arr[0]", a0, "after arr[0]=v2")
		g.show("arr[1]", "arr[1]", a1, "after arr[0]=v2")
		g.stmt("h.V = v2;")
		hv = v2.clone()
		g.println("h.P", "77", "after h.V=v2 h.P")
		g.show("h.V", "h.V", hv, "after h.V=v2")
		g.println("h.Q", "8888888888", "after h.V=v2 h.Q")
		g.show("v2", "v2", v2, "after h.V=v2")
		g.guards("whole")
		out = append(out, g.finish(id("whole", "whole"), "whole", "whole"))
	}
	if t.k == kStruct {
		leafs := leafOnly(tgs)
		if len(leafs) > 0 {
			g := newGen(t)
			g.group = "lean:" + tk
			g.methods(leafs)
			v := g.prologue()
			g.methodCalls(leafs, v, "method")
			g.guards("method")
			out = append(out, g.finish(id("method", "none"), "method", "none"))
		}
		// inferred: `let v := { ... } as T;` read back, stored into, read through a method
		{
			g := newGen(t)
			g.group = "lean:" + tk
			g.methods(leafs)
			v := g.inferredPrologue()
			g.show("v", "v", v, "inferred")
			g.methodCalls(leafs, v, "inferred")
			s := mkSent(t)
			for _, tg := range leafTgs {
				g.store("v", v, s, tg)
			}
			g.show("v", "v", v, "inferred, all stored")
			g.guards("inferred")
			out = append(out, g.finish(id("inferred", "mixed"), "inferred", "mixed"))
		}
	}
	return out
}

func leafOnly(tgs []target) []target {
	var out []target
	for _, tg := range tgs {
		if tg.what == "leaf" {
			out = append(out, tg)
		}
	}
	return out
}

// methods declares one value-receiver method per leaf, returning that leaf.
func (g *gen) methods(leafs []target) {
	for i, tg := range leafs {
		fmt.Fprintf(&g.extra, "fn (s: %s) m%d() -> %s {\n    return s%s;\n}\n", g.src(g.t), i, tg.t.leaf, tg.path)
	}
}

func (g *gen) methodCalls(leafs []target, v *val, tag string) {
	for i, tg := range leafs {
		n := g.fresh("m")
		g.stmt("let %s: %s = v.m%d();", n, tg.t.leaf, i)
		shown := n
		if tg.t.leaf == "byte" {
			shown = n + " as i32" // a byte prints as a character
		}
		g.println(shown, nav(v, tg.idx).leaf, tag+" v.m"+strconv.Itoa(i)+"() = v"+tg.path)
	}
}

func (g *gen) inferredPrologue() *val {
	if g.t.hasOpt() {
		g.stmt("let tn: bool = false;")
	}
	g.stmt("let g1: i64 = 1111;")
	v := mkInit(g.t)
	e := g.expr(v)
	g.stmt("let v := %s as %s;", e, g.src(g.t))
	g.stmt("let g2: i64 = 2222;")
	return v
}

// fineCases generates the fine-grained set: one case per store target and per store kind, and
// the phases without any store (so that a defect of one store kind does not hide the others).
func fineCases(t *ty) []*bcase {
	var out []*bcase
	tk := t.key()
	id := func(phase, skind string, more ...string) string {
		s := fmt.Sprintf("C18/beh/%%s/%s/%s/%s", phase, skind, tk)
		for _, m := range more {
			s += "/" + m
		}
		return s
	}
	tgs := targets(t, false)
	{
		g := newGen(t)
		v := g.prologue()
		g.printAll("v", "v", v, "init")
		g.guards("init")
		out = append(out, g.finish(id("init", "none"), "init", "none"))
	}
	for _, tg := range tgs {
		g := newGen(t)
		v := g.prologue()
		g.store("v", v, mkSent(t), tg)
		tag := "after v" + tg.path + "=" + tg.what
		g.printAll("v", "v", v, tag)
		g.guards(tag)
		p := tg.path
		if p == "" {
			p = "."
		}
		out = append(out, g.finish(id("store", tg.kind("var"), p+"="+tg.what), "store", tg.kind("var")))
	}
	korder, kby := kindsOf(tgs, "var")
	{
		g := newGen(t)
		v := g.prologue()
		g.stmt("let w: %s = v;", g.src(t))
		g.printAll("v", "v", v, "copied")
		g.printAll("w", "w", v, "copied")
		g.guards("copied")
		out = append(out, g.finish(id("copy", "none"), "copy", "none"))
	}
	for _, kd := range korder {
		g := newGen(t)
		v := g.prologue()
		g.stmt("let w: %s = v;", g.src(t))
		w := v.clone()
		s := mkSent(t)
		for _, tg := range kby[kd] {
			g.store("w", w, s, tg)
		}
		g.printAll("v", "v", v, "copy mutated")
		g.printAll("w", "w", w, "copy mutated")
		g.guards("copy mutated")
		out = append(out, g.finish(id("copy-mut", kd), "copy-mut", kd))
	}
	{
		g := newGen(t)
		fmt.Fprintf(&g.extra, "fn @@id(x: %s) -> %s {\n    return x;\n}\n", g.src(t), g.src(t))
		v := g.prologue()
		g.stmt("let r: %s = @@id(v);", g.src(t))
		g.printAll("r", "r", v, "returned")
		g.printAll("v", "v", v, "returned")
		g.guards("returned")
		out = append(out, g.finish(id("call", "none"), "call", "none"))
	}
	for _, kd := range korder {
		if strings.HasSuffix(kd, "-whole") {
			continue
		}
		g := newGen(t)
		v := g.prologue()
		save := g.b
		g.b = strings.Builder{}
		r := v.clone()
		s := mkSent(t)
		for _, tg := range kby[kd] {
			g.store("x", r, s, tg)
		}
		callee := g.b.String()
		g.b = save
		fmt.Fprintf(&g.extra, "fn @@mut(x: %s) -> %s {\n%s    return x;\n}\n", g.src(t), g.src(t), callee)
		g.stmt("let r: %s = @@mut(v);", g.src(t))
		g.printAll("v", "v", v, "callee mutated its parameter")
		g.printAll("r", "r", r, "callee mutated its parameter")
		g.guards("callee mutated its parameter")
		out = append(out, g.finish(id("call-mut", kd), "call-mut", kd))
	}
	etgs := targets(t, true)
	eorder, eby := kindsOf(etgs, "elem")
	inarr := func(kd string) {
		g := newGen(t)
		v := g.prologue()
		v2 := mkAlt(t)
		g.stmt("let v2: %s = %s;", g.src(t), g.expr(v2))
		g.stmt("let arr: [2]%s = [v, v2];", g.src(t))
		a0, a1 := v.clone(), v2.clone()
		phase, tag := "inarr", "in array"
		if kd != "none" {
			phase, tag = "inarr-mut", "array element mutated"
			s := mkSent(t)
			for _, tg := range eby[kd] {
				g.store("arr[1]", a1, s, tg)
			}
		}
		g.printAll("arr[0]", "arr[0]", a0, tag)
		g.printAll("arr[1]", "arr[1]", a1, tag)
		g.printAll("v", "v", v, tag)
		g.printAll("v2", "v2", v2, tag)
		g.guards(tag)
		out = append(out, g.finish(id(phase, kd), phase, kd))
	}
	inarr("none")
	for _, kd := range eorder {
		inarr(kd)
	}
	forder, fby := kindsOf(etgs, "fld")
	instruct := func(kd string) {
		g := newGen(t)
		fmt.Fprintf(&g.extra, "type @@W struct {\n    .P: i8,\n    .V: %s,\n    .Q: i64\n};\n", g.src(t))
		v := g.prologue()
		g.stmt("let h: @@W = { .P = 77, .V = v, .Q = 8888888888 };")
		hv := v.clone()
		phase, tag := "instruct", "in struct"
		if kd != "none" {
			phase, tag = "instruct-mut", "struct field mutated"
			s := mkSent(t)
			for _, tg := range fby[kd] {
				g.store("h.V", hv, s, tg)
			}
		}
		g.println("h.P", "77", tag+" h.P")
		g.printAll("h.V", "h.V", hv, tag)
		g.println("h.Q", "8888888888", tag+" h.Q")
		g.printAll("v", "v", v, tag)
		g.guards(tag)
		out = append(out, g.finish(id(phase, kd), phase, kd))
	}
	instruct("none")
	for _, kd := range forder {
		instruct(kd)
	}
	if t.k == kStruct {
		leafs := leafOnly(tgs)
		{
			g := newGen(t)
			v := g.inferredPrologue()
			g.printAll("v", "v", v, "inferred")
			g.guards("inferred")
			out = append(out, g.finish(id("inferred-init", "none"), "inferred-init", "none"))
		}
		if len(leafs) > 0 {
			g := newGen(t)
			g.methods(leafs)
			v := g.inferredPrologue()
			g.methodCalls(leafs, v, "inferred-method")
			g.guards("inferred-method")
			out = append(out, g.finish(id("inferred-method", "none"), "inferred-method", "none"))
		}
	}
	return out
}

// casesForResult generates the cases of E ! T (function results only: a result cannot be
// stored in a variable in Ferret — T0023 "error is not handled").
func casesForResult(t *ty) []*bcase {
	var out []*bcase
	tk := t.key()
	for _, fail := range []bool{false, true} {
		for _, form := range []string{"ret", "fb"} {
			g := newGen(t)
			g.group = "res:" + tk
			// the producer
			save := g.b
			g.b = strings.Builder{}
			c := 0
			ev := build(t.er, &c, mInit)
			ov := build(t.ok, &c, mInit)
			g.stmt("let ev: %s = %s;", g.src(t.er), g.expr(ev))
			g.stmt("let ov: %s = %s;", g.src(t.ok), g.expr(ov))
			g.stmt("if fail {")
			g.stmt("    return ev!;")
			g.stmt("}")
			g.stmt("return ov;")
			fmt.Fprintf(&g.extra, "fn @@mk(fail: bool) -> %s {\n%s}\n", g.src(t), g.b.String())
			g.b = save
			g.dfl, g.dflV = map[string]string{}, map[string]*val{}
			if t.hasOpt() {
				g.stmt("let tn: bool = false;")
			}
			g.stmt("let g1: i64 = 1111;")
			g.stmt("let g2: i64 = 2222;")
			var fb *val
			fbn := ""
			if form == "fb" {
				cc := 0
				fb = build(t.ok, &cc, mDflt)
				// a none default would be indistinguishable from a lost payload only for
				// optionals; use the alt value for those
				if t.ok.k == kOpt {
					cc = 0
					fb = build(t.ok, &cc, mAlt)
				}
				fbn = g.fresh("f")
				g.stmt("let %s: %s = %s;", fbn, g.src(t.ok), g.expr(fb))
			}
			// everything the handler needs must be declared before the catch
			g.stmt("let r: %s = @@mk(%v) catch e {", g.src(t.ok), fail)
			inner := &gen{t: g.t, alias: g.alias, names: g.names, order: g.order, dfl: g.dfl, dflV: g.dflV, uni: g.uni, tmp: g.tmp + 100}
			handler := func() {
				inner.marker("err")
				inner.printAll("e", "e", ev, "handler")
				inner.guards("handler")
				if form == "ret" {
					inner.stmt("return;")
				}
			}
			if fail {
				handler()
			} else {
				// the handler text is the same; it must not run
				w, l := inner.want, inner.labels
				handler()
				inner.want, inner.labels = w, l
			}
			for _, ln := range strings.Split(strings.TrimRight(inner.b.String(), "\n"), "\n") {
				g.b.WriteString("    " + ln + "\n")
			}
			g.want = append(g.want, inner.want...)
			g.labels = append(g.labels, inner.labels...)
			g.dfl, g.dflV = map[string]string{}, map[string]*val{} // defaults declared in the handler are out of scope
			if form == "fb" {
				g.stmt("} %s;", fbn)
			} else {
				g.stmt("};")
			}
			if !(fail && form == "ret") {
				g.marker("after")
				shown := ov
				if fail {
					shown = fb
				}
				g.printAll("r", "r", shown, "after catch")
				g.guards("after catch")
			}
			phase := map[bool]string{false: "result-ok", true: "result-err"}[fail]
			out = append(out, g.finish(fmt.Sprintf("C18/beh/%%s/%s/%s/%s", phase, form, tk), phase, form))
		}
	}
	return out
}

// declChunks splits declaration text into its top-level declarations.
func declChunks(decls string) []string {
	var out []string
	var cur strings.Builder
	for _, l := range strings.SplitAfter(decls, "\n") {
		if (strings.HasPrefix(l, "type ") || strings.HasPrefix(l, "fn ")) && cur.Len() > 0 {
			out = append(out, cur.String())
			cur.Reset()
		}
		cur.WriteString(l)
	}
	if cur.Len() > 0 {
		out = append(out, cur.String())
	}
	return out
}

// packSource renders cases into one program. Neighbouring cases of the same group share one
// name prefix and their identical declarations are emitted once. lines[i] receives the source
// line ranges that belong to case i (its function and every declaration it uses).
func packSource(cases []*bcase, lines *[][][2]int) string {
	var b strings.Builder
	ln := 1
	w := func(s string) [2]int {
		first := ln
		b.WriteString(s)
		ln += strings.Count(s, "\n")
		return [2]int{first, ln - 1}
	}
	w("import \"std/io\";\n\n")
	if lines != nil {
		*lines = make([][][2]int, len(cases))
	}
	leader := make([]int, len(cases))
	emitted := map[string][2]int{}
	for i, k := range cases {
		if i > 0 && k.group != "" && cases[i-1].group == k.group {
			leader[i] = leader[i-1]
		} else {
			leader[i] = i
			emitted = map[string][2]int{}
		}
		pfx := fmt.Sprintf("K%d_", leader[i])
		for _, ch := range declChunks(k.decls) {
			r, ok := emitted[ch]
			if !ok {
				r = w(strings.ReplaceAll(ch, "@@", pfx))
				emitted[ch] = r
			}
			if lines != nil {
				(*lines)[i] = append((*lines)[i], r)
			}
		}
		body := strings.ReplaceAll(k.body, "@@run(", fmt.Sprintf("@@run%d(", i))
		r := w(strings.ReplaceAll(body, "@@", pfx))
		if lines != nil {
			(*lines)[i] = append((*lines)[i], r)
		}
		w("\n")
	}
	w("fn main() {\n")
	for i := range cases {
		w(fmt.Sprintf("    io::Println(\"#case %d\");\n    K%d_run%d();\n", i, leader[i], i))
	}
	w("    io::Println(\"#end\");\n}\n")
	return b.String()
}
