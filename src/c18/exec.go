package c18

import (
	"fmt"
	"os"
	"path/filepath"
	"regexp"
	"sort"
	"strconv"
	"strings"
	"sync"

	"compiler/verifh/fe"
	"compiler/verifh/run"
	"compiler/verifh/vl"
)

// obs is what one case did on one target.
type obs struct {
	rejected bool
	reason   string   // canonical first error of the rejection
	lines    []string // printed lines of the case
	term     string   // ok | crash:<how> (the program ended inside this case)
	alone    bool
}

type runner struct {
	c        *vl.Ctx
	rn       *run.Runner
	pool     *fe.Pool // wasm only: the compiler's own pipeline in worker processes (no process start per program)
	target   string
	workers  int
	mu       sync.Mutex
	programs int64
}

var reLoc = regexp.MustCompile(`main\.fer:(\d+):\d+`)
var rePathish = regexp.MustCompile(`(/[A-Za-z0-9_.\-]+)+/`)
var reKname = regexp.MustCompile(`K\d+_`)

// canonReason makes a compiler message independent of the case prefix and temp paths.
func canonReason(s string) string {
	s = strings.TrimSpace(run.StripANSI(s))
	s = rePathish.ReplaceAllString(s, "")
	s = reKname.ReplaceAllString(s, "")
	s = regexp.MustCompile(`struct \{[^}]*\}`).ReplaceAllString(s, "struct{..}")
	s = regexp.MustCompile(`\.ssa:\d+`).ReplaceAllString(s, ".ssa:N")
	s = regexp.MustCompile(`%t\d+`).ReplaceAllString(s, "%t")
	s = regexp.MustCompile(`Import #\d+`).ReplaceAllString(s, "Import #N")
	if len(s) > 120 {
		s = s[:120]
	}
	return s
}

// compile builds the pack; on failure it returns, per case index, the first error message
// located inside that case's lines (attr), and a general message.
func (r *runner) compile(src string, lines [][][2]int, real bool) (b run.Built, dir string, attr map[int]string, msg string) {
	r.mu.Lock()
	r.programs++
	r.mu.Unlock()
	dir = r.rn.NewDir()
	if r.target == "wasm" && r.pool != nil && !real {
		res := r.pool.Do(&fe.Project{Files: map[string]string{"main.fer": src}, Entry: "main.fer", Mode: "wasm", NoRender: true})
		if res.Success && len(res.Wasm) > 0 && res.Panic == "" && res.Crash == "" && !res.Timeout {
			out := filepath.Join(dir, "out.wasm")
			os.WriteFile(out, res.Wasm, 0o644)
			return run.Built{Dir: dir, Artifact: out, Exists: true}, dir, nil, ""
		}
		attr = map[int]string{}
		for _, d := range res.Errors() {
			if msg == "" {
				msg = canonReason("error: " + d.Msg)
			}
			for i, lrs := range lines {
				for _, lr := range lrs {
					if d.Line >= lr[0] && d.Line <= lr[1] {
						if _, ok := attr[i]; !ok {
							attr[i] = canonReason("error: " + d.Msg)
						}
					}
				}
			}
		}
		if msg == "" {
			msg = canonReason(fmt.Sprintf("compiler failed: panic=%q crash=%q timeout=%v runerr=%q", res.Panic, res.Crash, res.Timeout, res.RunErr))
		}
		return run.Built{Dir: dir}, dir, attr, msg
	}
	run.WriteFiles(dir, map[string]string{"main.fer": src})
	if r.target == "wasm" {
		b = r.rn.CompileWasm(dir, "main.fer")
	} else if real {
		b = r.rn.Real().CompileNative(dir, "main.fer")
	} else {
		b = r.rn.CompileNative(dir, "main.fer")
	}
	if b.Compile.OK() && b.Exists {
		return b, dir, nil, ""
	}
	out := run.StripANSI(b.Compile.Stderr + "\n" + b.Compile.Stdout)
	attr = map[int]string{}
	lastErr := ""
	for _, l := range strings.Split(out, "\n") {
		t := strings.TrimSpace(l)
		if strings.HasPrefix(t, "error") || strings.HasPrefix(t, "panic:") || strings.HasPrefix(t, "fatal error") {
			if lastErr == "" || strings.HasPrefix(t, "error") {
				lastErr = t
			}
			if msg == "" {
				msg = t
			}
		}
		if m := reLoc.FindStringSubmatch(t); m != nil && strings.HasPrefix(t, "-->") {
			n, _ := strconv.Atoi(m[1])
			for i, lrs := range lines {
				for _, lr := range lrs {
					if n >= lr[0] && n <= lr[1] {
						if _, ok := attr[i]; !ok {
							attr[i] = canonReason(lastErr)
						}
					}
				}
			}
		}
	}
	if msg == "" {
		msg = "compiler failed: " + b.Compile.Term()
		for _, l := range strings.Split(out, "\n") {
			if t := strings.TrimSpace(l); t != "" && !strings.HasPrefix(t, "ld:") {
				msg += ": " + t
				break
			}
		}
		if b.Compile.OK() {
			msg = "exit status 0 but no artefact"
		}
	}
	msg = canonReason(msg)
	return
}

// execute runs a built pack and returns stdout lines and how it ended.
func (r *runner) execute(b run.Built) ([]string, string) {
	if r.target == "wasm" {
		n := r.rn.Node([]string{b.Artifact})[0]
		term := "ok"
		if n.Kind != "ok" {
			term = "crash:" + n.Kind + ":" + canonReason(n.Message)
		}
		return splitLines(n.Stdout), term
	}
	p := r.rn.Exec(b)
	term := "ok"
	switch {
	case p.Timeout:
		term = "crash:timeout"
	case p.Signal != "":
		term = "crash:signal:" + p.Signal
	case p.Exit != 0:
		term = fmt.Sprintf("crash:exit:%d", p.Exit)
		for _, l := range strings.Split(p.Stderr, "\n") {
			if strings.HasPrefix(l, "panic") {
				term += ":" + canonReason(l)
				break
			}
		}
	}
	return splitLines(p.Stdout), term
}

func splitLines(s string) []string {
	s = strings.TrimRight(s, "\n")
	if s == "" {
		return nil
	}
	return strings.Split(s, "\n")
}

// observe fills res[i] for the cases idx (indices into cases) by packing them into one
// program; rejected cases are attributed by source line and the rest is re-packed; a pack that
// dies inside a case gives that case a crash observation and the remaining ones are re-packed.
func (r *runner) observe(cases []*bcase, idx []int, res []obs, real bool) {
	if len(idx) == 0 {
		return
	}
	sub := make([]*bcase, len(idx))
	for j, i := range idx {
		sub[j] = cases[i]
	}
	var lines [][][2]int
	src := packSource(sub, &lines)
	if d := os.Getenv("VERIF_C18_DUMP"); d != "" {
		r.mu.Lock()
		n := r.programs
		r.mu.Unlock()
		if n < 400 {
			os.MkdirAll(d, 0o755)
			os.WriteFile(fmt.Sprintf("%s/%s_%d_%d.fer", d, r.target, len(idx), n), []byte(src), 0o644)
		}
	}
	b, dir, attr, msg := r.compile(src, lines, real)
	defer os.RemoveAll(dir)
	if attr != nil {
		if len(idx) == 1 {
			reason := msg
			if a, ok := attr[0]; ok {
				reason = a
			}
			res[idx[0]] = obs{rejected: true, reason: reason, alone: true}
			return
		}
		if len(attr) == 0 {
			// no error could be attributed: halve
			h := len(idx) / 2
			r.observe(cases, idx[:h], res, real)
			r.observe(cases, idx[h:], res, real)
			return
		}
		var rest []int
		for j, i := range idx {
			if a, ok := attr[j]; ok {
				res[i] = obs{rejected: true, reason: a}
			} else {
				rest = append(rest, i)
			}
		}
		r.observe(cases, rest, res, real)
		return
	}
	out, term := r.execute(b)
	cur := -1
	segs := make([][]string, len(idx))
	ended := false
	for _, l := range out {
		if l == "#end" && cur == len(idx)-1 {
			ended = true
			break
		}
		if cur+1 < len(idx) && l == fmt.Sprintf("#case %d", cur+1) {
			cur++
			continue
		}
		if cur >= 0 {
			segs[cur] = append(segs[cur], l)
		}
	}
	if term == "ok" && !ended {
		term = "crash:output ended early"
	}
	if ended {
		for j, i := range idx {
			res[i] = obs{lines: segs[j], term: "ok", alone: len(idx) == 1}
		}
		return
	}
	if strings.HasPrefix(term, "crash:invalid") && strings.Contains(term, "Import #") {
		// the module cannot even be instantiated with the shipped runtime.js (an import is
		// missing): the target does not support a construct all cases of this pack share (packs
		// are homogeneous in root constructor, optional-ness and i128 use). Nothing ran; the
		// cases are outside the quantifier for this target, like a compile-time rejection.
		for _, i := range idx {
			res[i] = obs{rejected: true, reason: "module cannot be instantiated: " + strings.TrimPrefix(term, "crash:invalid:"), alone: len(idx) == 1}
		}
		return
	}
	if len(idx) == 1 {
		res[idx[0]] = obs{lines: segs[0], term: term, alone: true}
		return
	}
	// the program ended inside some case at or after `cur` (output printed before a native crash
	// may be lost in the pipe buffer, so only the cases whose successor's marker was seen are
	// known to be complete). Keep those, and search the rest.
	if cur < 0 {
		cur = 0
	}
	for j := 0; j < cur; j++ {
		res[idx[j]] = obs{lines: segs[j], term: "ok"}
	}
	rest := idx[cur:]
	if cur > 0 {
		r.observe(cases, rest, res, real)
		return
	}
	h := len(rest) / 2
	r.observe(cases, rest[:h], res, real)
	r.observe(cases, rest[h:], res, real)
}

// judge compares an observation with the model; "" = agrees.
func judge(k *bcase, o obs) string {
	if o.term == "ok" && len(o.lines) == len(k.want) {
		same := true
		for i := range k.want {
			if o.lines[i] != k.want[i] {
				same = false
				break
			}
		}
		if same {
			return ""
		}
	}
	var b strings.Builder
	n := 0
	for i := range k.want {
		if i >= len(o.lines) {
			break
		}
		if o.lines[i] != k.want[i] {
			n++
			if n <= 3 {
				got := o.lines[i]
				if !k.uni[got] {
					got = "<a value that occurs nowhere in the program>"
				}
				fmt.Fprintf(&b, "line %d (%s): want %s, got %s; ", i+1, k.labels[i], k.want[i], got)
			}
		}
	}
	if n > 3 {
		fmt.Fprintf(&b, "%d lines differ in all; ", n)
	}
	if len(o.lines) != len(k.want) {
		fmt.Fprintf(&b, "%d lines printed, %d expected; ", len(o.lines), len(k.want))
	}
	if o.term != "ok" {
		fmt.Fprintf(&b, "ended with %s; ", o.term)
	}
	return strings.TrimSuffix(b.String(), "; ")
}

// targetResult is the summary of one target.
type targetResult struct {
	judged, rejected, programs, timeouts int64
	fam                                  map[string][2]int64
}

// runTarget observes and judges all cases on one target.
func runTarget(c *vl.Ctx, r *runner, cases []*bcase, packSize, confirmCap int) targetResult {
	target := r.target
	res := make([]obs, len(cases))
	// packs: cases of the same (phase, kind, optional-ness, root constructor) class — rejections
	// are per construct, so they concentrate in few packs — simplest types first
	order := make([]int, len(cases))
	for i := range order {
		order[i] = i
	}
	cls := func(k *bcase) string {
		if k.group != "" {
			// grouped cases stay next to each other (generation order), simplest types first
			return fmt.Sprintf("%d/grouped/%v%v/%s", k.t.depth(), k.t.hasOpt(), k.t.hasLeaf("i128"), k.t.rootName())
		}
		return fmt.Sprintf("%d/%s/%s/%v%v/%s", k.t.depth(), k.phase, k.skind, k.t.hasOpt(), k.t.hasLeaf("i128"), k.t.rootName())
	}
	sort.SliceStable(order, func(a, b int) bool { return cls(cases[order[a]]) < cls(cases[order[b]]) })
	var packs [][]int
	for i := 0; i < len(order); {
		j, sz := i, 0
		for j < len(order) && cls(cases[order[j]]) == cls(cases[order[i]]) {
			k := cases[order[j]]
			add := k.size()
			if j > i && k.group != "" && cases[order[j-1]].group == k.group {
				add = strings.Count(k.body, "\n") + 4 // declarations are shared
			}
			if j > i && sz+add > packSize {
				break
			}
			sz += add
			j++
		}
		packs = append(packs, order[i:j])
		i = j
	}
	// breadth first: the first pack of every class, then the second of every class, ... so that a
	// run stopped by the budget has still exercised every class of types and phases
	{
		rank := make([]int, len(packs))
		seenCls := map[string]int{}
		for pi, p := range packs {
			c0 := cls(cases[p[0]])
			rank[pi] = seenCls[c0]
			seenCls[c0]++
		}
		ord := make([]int, len(packs))
		for i := range ord {
			ord[i] = i
		}
		sort.SliceStable(ord, func(a, b int) bool { return rank[ord[a]] < rank[ord[b]] })
		np := make([][]int, len(packs))
		for i, pi := range ord {
			np[i] = packs[pi]
		}
		packs = np
	}
	done := make([]bool, len(cases))
	vl.ParDo(len(packs), r.workers, func(pi int) {
		if c.OverBudget() {
			return
		}
		r.observe(cases, packs[pi], res, false)
		for _, i := range packs[pi] {
			done[i] = true
		}
	})
	// judge; disagreeing packed observations are confirmed on a program of their own, built by
	// the real compiler binary (up to confirmCap per class)
	type pend struct {
		i   int
		msg string
	}
	var pending []pend
	out := targetResult{fam: map[string][2]int64{}}
	confirmed := map[string]int{}
	for i, k := range cases {
		if !done[i] {
			c.Count("cases_not_reached_within_budget/"+target, 1)
			continue
		}
		o := res[i]
		f := target + "/" + k.t.rootName()
		if k.t.k != kOpt && k.t.k != kRes && k.t.hasOpt() {
			f += "+opt"
		}
		if k.t.hasLeaf("i128") {
			f += "+i128"
		}
		e := out.fam[f]
		if o.rejected {
			out.rejected++
			e[1]++
			out.fam[f] = e
			c.Outcome(fmt.Sprintf("%s/%s/%s rejected: %s", target, k.phase, k.skind, o.reason))
			c.Count("rejected/"+target+"/"+k.t.rootName(), 1)
			continue
		}
		e[0]++
		out.fam[f] = e
		if strings.HasPrefix(o.term, "crash:timeout") {
			// a time-out on a shared machine is not an observation of the program
			pending = append(pending, pend{i, "timeout"})
			continue
		}
		msg := judge(k, o)
		if msg == "" {
			out.judged++
			c.Distinct(fmt.Sprintf(k.id, target))
			c.Outcome(fmt.Sprintf("%s/%s/%s agrees", target, k.phase, k.skind))
			continue
		}
		key := target + "/" + k.phase + "/" + k.skind
		if confirmed[key] < confirmCap {
			confirmed[key]++
			pending = append(pending, pend{i, msg})
			continue
		}
		out.judged++
		c.Distinct(fmt.Sprintf(k.id, target))
		c.Count("failing_cases_observed_in_pack_only", 1)
		r.fail(k, o, msg)
	}
	var mu sync.Mutex
	vl.ParDo(len(pending), r.workers, func(pi int) {
		p := pending[pi]
		k := cases[p.i]
		one := make([]obs, len(cases))
		r.observe(cases, []int{p.i}, one, true)
		o := one[p.i]
		mu.Lock()
		defer mu.Unlock()
		if strings.HasPrefix(o.term, "crash:timeout") {
			out.timeouts++
			c.Count("timeouts_not_judged/"+target, 1)
			c.Outcome(target + " timeout (not judged)")
			return
		}
		out.judged++
		c.Distinct(fmt.Sprintf(k.id, target))
		if o.rejected {
			r.fail(k, o, "accepted when packed with other cases but rejected as a program of its own: "+o.reason)
			return
		}
		msg := judge(k, o)
		if msg == "" {
			if p.msg == "timeout" {
				c.Outcome(fmt.Sprintf("%s/%s/%s agrees", target, k.phase, k.skind))
				return
			}
			r.fail(k, res[p.i], "differs only when packed with other cases (agrees as a program of its own): "+p.msg)
			return
		}
		r.fail(k, o, msg)
	})
	out.programs = r.programs
	return out
}

func (r *runner) fail(k *bcase, o obs, msg string) {
	r.c.Outcome(fmt.Sprintf("%s/%s/%s DIFFERS", r.target, k.phase, k.skind))
	r.c.Fail(vl.Fail{Case: fmt.Sprintf(k.id, r.target), Obs: msg,
		Files: map[string]string{"main.fer": k.source(), "expected.txt": strings.Join(k.want, "\n") + "\n",
			"observed_" + r.target + ".txt": strings.Join(o.lines, "\n") + "\n[" + o.term + "]\n"}})
}
