package c18

import (
	"fmt"
	"math/big"
	"strings"
)

// ---------------------------------------------------------------- behavioural type model

type kind int

const (
	kLeaf kind = iota
	kStruct
	kArr
	kOpt
	kRes
)

// ty is a type expression of the behavioural family.
type ty struct {
	k    kind
	leaf string // i8 i16 i32 i64 i128 bool str
	fs   []*ty  // struct fields
	n    int    // array length
	el   *ty    // array element
	in   *ty    // optional payload
	er   *ty    // result: error payload
	ok   *ty    // result: success payload
	key_ string
}

func tLeaf(n string) *ty       { return &ty{k: kLeaf, leaf: n} }
func tStruct(fs ...*ty) *ty    { return &ty{k: kStruct, fs: fs} }
func tArr(n int, el *ty) *ty   { return &ty{k: kArr, n: n, el: el} }
func tOpt(in *ty) *ty          { return &ty{k: kOpt, in: in} }
func tRes(er, ok *ty) *ty      { return &ty{k: kRes, er: er, ok: ok} }
func (t *ty) composite() bool  { return t.k != kLeaf }
func (t *ty) rootName() string { return [...]string{"leaf", "struct", "array", "opt", "result"}[t.k] }

// key is the canonical, human readable spelling used in case ids:
// {a,b} struct, [n]T array, T? optional (an optional of an array is written ([n]T)?), (E!T) result.
func (t *ty) key() string {
	if t.key_ != "" {
		return t.key_
	}
	var s string
	switch t.k {
	case kLeaf:
		s = t.leaf
	case kStruct:
		p := make([]string, len(t.fs))
		for i, f := range t.fs {
			p[i] = f.key()
		}
		s = "{" + strings.Join(p, ",") + "}"
	case kArr:
		s = fmt.Sprintf("[%d]%s", t.n, t.el.key())
	case kOpt:
		if t.in.k == kArr {
			s = "(" + t.in.key() + ")?"
		} else {
			s = t.in.key() + "?"
		}
	case kRes:
		s = "(" + t.er.key() + "!" + t.ok.key() + ")"
	}
	t.key_ = s
	return s
}

func (t *ty) depth() int {
	switch t.k {
	case kLeaf:
		return 0
	case kStruct:
		d := 0
		for _, f := range t.fs {
			if x := f.depth(); x > d {
				d = x
			}
		}
		return d + 1
	case kArr:
		return t.el.depth() + 1
	case kOpt:
		return t.in.depth() + 1
	default:
		d := t.er.depth()
		if x := t.ok.depth(); x > d {
			d = x
		}
		return d + 1
	}
}

// hasOpt reports whether an optional occurs anywhere in t.
func (t *ty) hasOpt() bool {
	switch t.k {
	case kLeaf:
		return false
	case kStruct:
		for _, f := range t.fs {
			if f.hasOpt() {
				return true
			}
		}
		return false
	case kArr:
		return t.el.hasOpt()
	case kOpt:
		return true
	default:
		return t.er.hasOpt() || t.ok.hasOpt()
	}
}

// hasLeaf reports whether leaf type n occurs in t.
func (t *ty) hasLeaf(n string) bool {
	switch t.k {
	case kLeaf:
		return t.leaf == n
	case kStruct:
		for _, f := range t.fs {
			if f.hasLeaf(n) {
				return true
			}
		}
		return false
	case kArr:
		return t.el.hasLeaf(n)
	case kOpt:
		return t.in.hasLeaf(n)
	default:
		return t.er.hasLeaf(n) || t.ok.hasLeaf(n)
	}
}

// nLeaves counts leaf positions (payloads of optionals included).
func (t *ty) nLeaves() int {
	switch t.k {
	case kLeaf:
		return 1
	case kStruct:
		n := 0
		for _, f := range t.fs {
			n += f.nLeaves()
		}
		return n
	case kArr:
		return t.n * t.el.nLeaves()
	case kOpt:
		return t.in.nLeaves()
	default:
		return t.er.nLeaves() + t.ok.nLeaves()
	}
}

// ---------------------------------------------------------------- enumeration

// structsOver returns all structs of 1..maxFields fields whose fields are drawn from elems.
func structsOver(elems []*ty, maxFields int) []*ty {
	var out []*ty
	for k := 1; k <= maxFields; k++ {
		idx := make([]int, k)
		for {
			fs := make([]*ty, k)
			for i, j := range idx {
				fs[i] = elems[j]
			}
			out = append(out, tStruct(fs...))
			i := k - 1
			for i >= 0 {
				idx[i]++
				if idx[i] < len(elems) {
					break
				}
				idx[i] = 0
				i--
			}
			if i < 0 {
				break
			}
		}
	}
	return out
}

// oneComposite returns all structs of 1..maxFields fields with exactly one field drawn from
// comps (at every position) and the other fields drawn from leaves.
func oneComposite(comps, leaves []*ty, maxFields int) []*ty {
	var out []*ty
	for k := 1; k <= maxFields; k++ {
		others := [][]*ty{{}}
		for i := 1; i < k; i++ {
			var nx [][]*ty
			for _, o := range others {
				for _, l := range leaves {
					nx = append(nx, append(append([]*ty{}, o...), l))
				}
			}
			others = nx
		}
		for pos := 0; pos < k; pos++ {
			for _, c := range comps {
				for _, o := range others {
					fs := make([]*ty, 0, k)
					fs = append(fs, o[:pos]...)
					fs = append(fs, c)
					fs = append(fs, o[pos:]...)
					out = append(out, tStruct(fs...))
				}
			}
		}
	}
	return out
}

func leavesOf(names ...string) []*ty {
	out := make([]*ty, len(names))
	for i, n := range names {
		out[i] = tLeaf(n)
	}
	return out
}

// depth1 returns the non-result composite types of depth 1 over leaves: structs of
// 1..maxFields fields, [2]T, [3]T, T?.
func depth1(leaves []*ty, maxFields int) []*ty {
	out := structsOver(leaves, maxFields)
	for _, l := range leaves {
		out = append(out, tArr(2, l), tArr(3, l))
	}
	for _, l := range leaves {
		out = append(out, tOpt(l))
	}
	return out
}

// wrap applies the unary constructors and the one-composite-child struct constructor to comps.
// An optional of an optional cannot be written in Ferret (`T??` lexes as the `??` operator).
func wrap(comps, siblings []*ty, maxFields int, optOfOpt ...bool) []*ty {
	var out []*ty
	for _, c := range comps {
		out = append(out, tArr(2, c), tArr(3, c))
		if c.k != kOpt || len(optOfOpt) > 0 {
			out = append(out, tOpt(c))
		}
	}
	out = append(out, oneComposite(comps, siblings, maxFields)...)
	return out
}

// results returns E ! T for all pairs with exactly one side from comps (other side a leaf),
// or both leaves when comps is nil.
func results(comps, leaves []*ty) []*ty {
	var out []*ty
	if comps == nil {
		for _, e := range leaves {
			for _, o := range leaves {
				out = append(out, tRes(e, o))
			}
		}
		return out
	}
	for _, c := range comps {
		for _, l := range leaves {
			out = append(out, tRes(c, l), tRes(l, c))
		}
	}
	return out
}

// ---------------------------------------------------------------- values

// val is a value of the reference model: plain trees, value semantics (deep copies).
type val struct {
	t    *ty
	leaf string // printed form: decimal integer, true/false, string content
	kids []*val
	some bool
	pay  *val
}

func (v *val) clone() *val {
	c := &val{t: v.t, leaf: v.leaf, some: v.some}
	for _, k := range v.kids {
		c.kids = append(c.kids, k.clone())
	}
	if v.pay != nil {
		c.pay = v.pay.clone()
	}
	return c
}

const (
	mInit = iota // the value a variable is initialised with
	mSent        // the sentinel stored into a component
	mAlt         // a second, different value (second array element, ...)
	mDflt        // the right operand of `??`
)

var intBase = map[string][4]string{
	// every byte of the wider types is non-zero and differs per mode, so that a store or load
	// of the wrong width shows.
	"i8":   {"1", "-1", "50", "-100"},
	"i16":  {"0x1100", "-0x2200", "0x3300", "-0x7000"},
	"i32":  {"0x11220000", "-0x22330000", "0x33440000", "-0x70000000"},
	"i64":  {"0x1122334455660000", "-0x2233445566770000", "0x3344556677880000", "-0x7000000000000000"},
	// unsigned leaves: the sentinel has the top bit set, so a sign-extending load shows too
	"u8":   {"10", "150", "60", "200"},
	"byte": {"10", "150", "60", "200"},
	"u16":  {"0x1100", "0xa200", "0x3300", "0xf000"},
	"u32":  {"0x11220000", "0xa2330000", "0x33440000", "0xf0000000"},
	"u64":  {"0x1122334455660000", "0xa233445566770000", "0x3344556677880000", "0xf000000000000000"},
	"i128": {"0x112233445566778899aabbccddee0000", "-0x2233445566778899aabbccddeeff0000", "0x33445566778899aabbccddeeff110000", "-0x70000000000000000000000000000000"},
}

const maxLeaves = 40

func leafValue(name string, i, mode int) string {
	if i >= maxLeaves {
		panic("c18: too many leaves for distinct i8 sentinels")
	}
	switch name {
	case "bool":
		b := i%2 == 0
		switch mode {
		case mSent:
			b = !b
		case mAlt:
			b = i%3 == 0
		case mDflt:
			b = false
		}
		if b {
			return "true"
		}
		return "false"
	case "str":
		switch mode {
		case mInit:
			return fmt.Sprintf("s%d", i)
		case mSent:
			return fmt.Sprintf("T%d", i)
		case mAlt:
			return fmt.Sprintf("a%d", i)
		}
		return "dflt"
	}
	bs, ok := intBase[name]
	if !ok {
		panic("c18: leaf " + name)
	}
	s := bs[mode]
	neg := strings.HasPrefix(s, "-")
	s = strings.TrimPrefix(s, "-")
	b := new(big.Int)
	if _, ok := b.SetString(s, 0); !ok {
		panic("c18: base " + s)
	}
	if mode != mDflt {
		b.Add(b, big.NewInt(int64(i)))
	}
	if neg {
		b.Neg(b)
	}
	return b.String()
}

// build makes a value of t; leaf positions are numbered by *ctr (pre-order), optionals by
// their own counter parity: even ones start as some, odd ones as none; the sentinel of an
// optional is the opposite state.
func build(t *ty, ctr *int, mode int) *val {
	v := &val{t: t}
	switch t.k {
	case kLeaf:
		v.leaf = leafValue(t.leaf, *ctr, mode)
		*ctr++
	case kStruct:
		for _, f := range t.fs {
			v.kids = append(v.kids, build(f, ctr, mode))
		}
	case kArr:
		for i := 0; i < t.n; i++ {
			v.kids = append(v.kids, build(t.el, ctr, mode))
		}
	case kOpt:
		even := *ctr%2 == 0
		switch mode {
		case mInit:
			v.some = even
		case mSent:
			v.some = !even
		case mAlt:
			v.some = true
		case mDflt:
			v.some = false
		}
		v.pay = build(t.in, ctr, mode)
	default:
		panic("c18: build result")
	}
	return v
}
