// Command schedmain is the explorer worker of Engine C. It is built twice by the C14/C15
// checks: as `vsched` against the INSTRUMENTED view of /repo (rewriter overlay; sync ->
// vsync, atomic -> vatomic, go -> vsync.Go), and, for the thorough tier, as `vfree` with
// -race against the un-instrumented tree (only the "free" op is meaningful there).
package main

import (
	"fmt"
	"os"

	"compiler/verifh/sched"
)

func main() {
	if len(os.Args) < 3 {
		fmt.Fprintln(os.Stderr, "usage: vsched <project-dir> <ferret_libs>")
		os.Exit(2)
	}
	sched.WorkerMain(os.Args[1], os.Args[2])
}
