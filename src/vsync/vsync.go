// Package vsync is the controlled scheduler of Engine C and the shim for package sync.
//
// The rewriter (tools/rewriter) replaces `import "sync"` by this package in the concurrent
// part of the compiler, `"sync/atomic"` by vatomic and `go f(x)` by vsync.Go. Every managed
// goroutine owns a wake channel and runs only while it holds the token (Sched.cur); exactly
// one managed goroutine runs at any time, so the shim types are plain state machines.
//
// Scheduling points are placed BEFORE acquisitions and other visible operations
// (Mutex.Lock, RWMutex.Lock/RLock, WaitGroup.Add(n>0)/Wait, every sync.Map and atomic
// operation, Go, goroutine exit). Pure releases (Unlock, RUnlock, Done) are not points
// unless ReleasePoints is set (a switch after a release is equivalent to one before the
// thread's next visible operation; DESIGN 3.2). Enabledness is modelled: Lock on a held
// mutex and Wait on a non-zero group are disabled. No enabled goroutine while one is
// unfinished = deadlock.
//
// A schedule is the list of choices taken at the CHOICE POINTS (scheduling points with at
// least two enabled goroutines). The options at a point are ordered: the running
// goroutine first if it is enabled, then the others by ascending id; choice 0 is therefore
// "keep running, else lowest id". A non-zero choice while the running goroutine is enabled
// costs one preemption.
package vsync

import (
	"fmt"
	"os"
	"runtime/debug"
	"sort"
	"strings"
)

// Choice is one recorded/replayed decision.
type Choice struct {
	C   int    // index into the ordered option list
	N   int    // number of options (>=2)
	Cur bool   // the running goroutine was among the options (so C!=0 is a preemption)
	Map bool   // a map-order choice point (vmap.Keys): C!=0 is an order deviation
	Sig uint32 // hash of (running goroutine, its pending operation, option ids)
}

// Cost is the number of preemptions this choice costs (0 or 1).
func (c Choice) Cost() int {
	if c.Cur && !c.Map && c.C != 0 {
		return 1
	}
	return 0
}

// MapCost is the number of map-order deviations this choice costs (0 or 1).
func (c Choice) MapCost() int {
	if c.Map && c.C != 0 {
		return 1
	}
	return 0
}

// Result of one controlled execution.
type Result struct {
	Trace      []Choice
	Steps      int64 // scheduling points executed (all, including forced ones)
	Goroutines int
	Abort      string // "" | "deadlock" | "step-budget" | "panic"
	AbortInfo  string // deterministic description (blocked goroutines / panic value)
	Diverged   string // non-empty: replay divergence (HARD harness error)
	Counts     map[string]int
}

type g struct {
	id   int
	name string
	wake chan struct{}
	done bool
	cond func() bool
	op   string
}

type sched struct {
	gs       []*g
	cur      *g
	live     int
	prefix   []Choice
	res      *Result
	maxSteps int64
	aborting bool
	finished chan struct{}
	relPts   bool
}

// s is the active scheduler; nil outside Run. Only the token holder touches it.
var s *sched

type abortT struct{}

var abortSentinel = &abortT{}

// ReleasePoints makes Unlock/RUnlock/Done scheduling points too (cross-check knob).
var ReleasePoints = os.Getenv("VSYNC_RELEASE_POINTS") == "1"

// Active reports whether a controlled execution is in progress.
func Active() bool { return s != nil }

// Run executes body on managed goroutine 0 under the schedule `prefix` (then choice 0).
func Run(prefix []Choice, maxSteps int64, body func()) *Result {
	if s != nil {
		panic("vsync.Run: nested")
	}
	if maxSteps <= 0 {
		maxSteps = 1 << 40
	}
	sc := &sched{prefix: prefix, maxSteps: maxSteps, finished: make(chan struct{}), relPts: ReleasePoints,
		res: &Result{Counts: map[string]int{}}}
	g0 := &g{id: 0, name: "main", wake: make(chan struct{}, 1)}
	sc.gs = []*g{g0}
	sc.live = 1
	sc.cur = g0
	s = sc
	go sc.wrapper(g0, body)
	g0.wake <- struct{}{}
	<-sc.finished
	s = nil
	sc.res.Goroutines = len(sc.gs)
	return sc.res
}

func (sc *sched) wrapper(me *g, f func()) {
	<-me.wake
	defer func() {
		if r := recover(); r != nil && r != any(abortSentinel) {
			if !sc.aborting {
				sc.aborting = true
				sc.res.Abort = "panic"
				sc.res.AbortInfo = fmt.Sprintf("goroutine %d (%s): %v @ %s", me.id, me.name, r, topFrame(string(debug.Stack())))
			}
		}
		sc.exit(me)
	}()
	if sc.aborting {
		return
	}
	f()
}

func topFrame(st string) string {
	for _, l := range strings.Split(st, "\n") {
		if strings.HasPrefix(l, "compiler/") && !strings.HasPrefix(l, "compiler/verifh/") {
			if i := strings.LastIndex(l, "("); i > 0 {
				l = l[:i]
			}
			return l
		}
	}
	return "?"
}

// exit: the goroutine is finished; hand the token on.
func (sc *sched) exit(me *g) {
	me.done = true
	sc.live--
	if sc.live == 0 {
		close(sc.finished)
		return
	}
	if !sc.aborting {
		sc.res.Steps++
		next := sc.choose(me)
		if next != nil {
			sc.cur = next
			next.wake <- struct{}{}
			return
		}
		sc.declareDeadlock()
	}
	// aborting: unwind the remaining goroutines one at a time
	for _, o := range sc.gs {
		if !o.done {
			sc.cur = o
			o.wake <- struct{}{}
			return
		}
	}
}

func (sc *sched) declareDeadlock() {
	sc.aborting = true
	if sc.res.Abort == "" {
		sc.res.Abort = "deadlock"
		var b []string
		for _, o := range sc.gs {
			if !o.done {
				b = append(b, fmt.Sprintf("g%d(%s) blocked at %s", o.id, o.name, o.op))
			}
		}
		sc.res.AbortInfo = strings.Join(b, "; ")
	}
}

func fnv(h uint32, x uint32) uint32 {
	for i := 0; i < 4; i++ {
		h ^= x & 0xff
		h *= 16777619
		x >>= 8
	}
	return h
}

// choose picks the next goroutine to run; nil = nothing enabled.
func (sc *sched) choose(me *g) *g {
	var en [16]*g
	opts := en[:0]
	if !me.done && (me.cond == nil || me.cond()) {
		opts = append(opts, me)
	}
	curEnabled := len(opts) == 1
	for _, o := range sc.gs {
		if o != me && !o.done && (o.cond == nil || o.cond()) {
			opts = append(opts, o)
		}
	}
	switch len(opts) {
	case 0:
		return nil
	case 1:
		return opts[0]
	}
	h := uint32(2166136261)
	h = fnv(h, uint32(me.id))
	for i := 0; i < len(me.op); i++ {
		h ^= uint32(me.op[i])
		h *= 16777619
	}
	if me.done {
		h = fnv(h, 0xdead)
	}
	for _, o := range opts {
		h = fnv(h, uint32(o.id)+1000)
	}
	k := len(sc.res.Trace)
	ch := Choice{C: 0, N: len(opts), Cur: curEnabled, Sig: h}
	if k < len(sc.prefix) {
		p := sc.prefix[k]
		if p.C < 0 || p.C >= len(opts) {
			sc.diverge(fmt.Sprintf("choice %d at point %d out of range (options %d)", p.C, k, len(opts)))
			return opts[0]
		}
		if p.N != 0 && (p.N != ch.N || p.Sig != ch.Sig || p.Cur != ch.Cur || p.Map) {
			sc.diverge(fmt.Sprintf("point %d differs from the recorded one: recorded n=%d cur=%v sig=%08x, now n=%d cur=%v sig=%08x (g%d %s)",
				k, p.N, p.Cur, p.Sig, ch.N, ch.Cur, ch.Sig, me.id, me.op))
			return opts[0]
		}
		ch.C = p.C
	}
	sc.res.Trace = append(sc.res.Trace, ch)
	return opts[ch.C]
}

func (sc *sched) diverge(msg string) {
	if sc.res.Diverged == "" {
		sc.res.Diverged = msg
	}
}

// point is a scheduling point of the running goroutine before operation op, which is
// enabled iff cond() (nil = always).
func point(op string, cond func() bool) {
	sc := s
	if sc == nil || sc.aborting {
		return
	}
	me := sc.cur
	sc.res.Steps++
	if sc.res.Steps > sc.maxSteps {
		sc.aborting = true
		sc.res.Abort = "step-budget"
		sc.res.AbortInfo = fmt.Sprintf("more than %d scheduling points", sc.maxSteps)
		panic(abortSentinel)
	}
	if sc.live == 1 {
		if cond == nil || cond() {
			return
		}
		me.op = op
		sc.declareDeadlock()
		panic(abortSentinel)
	}
	me.cond, me.op = cond, op
	next := sc.choose(me)
	if next == nil {
		sc.declareDeadlock()
		panic(abortSentinel)
	}
	if next != me {
		sc.cur = next
		next.wake <- struct{}{}
		<-me.wake
		if sc.aborting {
			panic(abortSentinel)
		}
	}
	me.cond = nil
}

func relPoint(op string) {
	if s != nil && s.relPts {
		point(op, nil)
	}
}

// Go replaces the go statement.
func Go(f func()) {
	sc := s
	if sc == nil {
		panic("vsync.Go outside a controlled execution")
	}
	if sc.aborting {
		return
	}
	point("go", nil)
	ng := &g{id: len(sc.gs), wake: make(chan struct{}, 1)}
	ng.name = fmt.Sprintf("spawned-by-g%d", sc.cur.id)
	sc.gs = append(sc.gs, ng)
	sc.live++
	go sc.wrapper(ng, f)
}

// Choose is a data choice point of the running goroutine (used by vmap.Keys): n options,
// option 0 is the default. It never switches goroutines.
func Choose(label string, n int) int {
	sc := s
	if sc == nil || sc.aborting || n < 2 {
		return 0
	}
	h := uint32(2166136261)
	for i := 0; i < len(label); i++ {
		h ^= uint32(label[i])
		h *= 16777619
	}
	h = fnv(h, uint32(n))
	k := len(sc.res.Trace)
	ch := Choice{C: 0, N: n, Map: true, Sig: h}
	if k < len(sc.prefix) {
		p := sc.prefix[k]
		if p.C < 0 || p.C >= n {
			sc.diverge(fmt.Sprintf("map choice %d at point %d out of range (options %d)", p.C, k, n))
		} else if p.N != 0 && (p.N != n || p.Sig != h || !p.Map) {
			sc.diverge(fmt.Sprintf("point %d differs from the recorded one: recorded n=%d map=%v sig=%08x, now %s n=%d sig=%08x", k, p.N, p.Map, p.Sig, label, n, h))
		} else {
			ch.C = p.C
		}
	}
	sc.res.Trace = append(sc.res.Trace, ch)
	return ch.C
}

// Count bumps a named per-execution counter (rewriter hook; not a scheduling point).
func Count(key string) {
	if s != nil {
		s.res.Counts[key]++
	}
}

// Name names the running goroutine (diagnostic only).
func Name(n string) {
	if s != nil {
		s.cur.name = n
	}
}

func aborting() bool { return s != nil && s.aborting }

// ---------------------------------------------------------------------------------
// sync shims

type Locker interface {
	Lock()
	Unlock()
}

type Mutex struct {
	held bool
}

func (m *Mutex) Lock() {
	if aborting() {
		return
	}
	point("Mutex.Lock", func() bool { return !m.held })
	m.held = true
}

func (m *Mutex) TryLock() bool {
	if aborting() {
		return true
	}
	point("Mutex.TryLock", nil)
	if m.held {
		return false
	}
	m.held = true
	return true
}

func (m *Mutex) Unlock() {
	if aborting() {
		return
	}
	relPoint("Mutex.Unlock")
	if !m.held {
		panic("sync: unlock of unlocked mutex")
	}
	m.held = false
}

type RWMutex struct {
	w bool
	r int
}

func (m *RWMutex) Lock() {
	if aborting() {
		return
	}
	point("RWMutex.Lock", func() bool { return !m.w && m.r == 0 })
	m.w = true
}

func (m *RWMutex) Unlock() {
	if aborting() {
		return
	}
	relPoint("RWMutex.Unlock")
	if !m.w {
		panic("sync: Unlock of unlocked RWMutex")
	}
	m.w = false
}

func (m *RWMutex) RLock() {
	if aborting() {
		return
	}
	point("RWMutex.RLock", func() bool { return !m.w })
	m.r++
}

func (m *RWMutex) RUnlock() {
	if aborting() {
		return
	}
	relPoint("RWMutex.RUnlock")
	if m.r <= 0 {
		panic("sync: RUnlock of unlocked RWMutex")
	}
	m.r--
}

func (m *RWMutex) RLocker() Locker { return (*rlocker)(m) }

type rlocker RWMutex

func (r *rlocker) Lock()   { (*RWMutex)(r).RLock() }
func (r *rlocker) Unlock() { (*RWMutex)(r).RUnlock() }

type WaitGroup struct {
	n int
}

func (wg *WaitGroup) Add(delta int) {
	if aborting() {
		return
	}
	if delta > 0 {
		point("WaitGroup.Add", nil)
	} else {
		relPoint("WaitGroup.Done")
	}
	wg.n += delta
	if wg.n < 0 {
		panic("sync: negative WaitGroup counter")
	}
}

func (wg *WaitGroup) Done() { wg.Add(-1) }

func (wg *WaitGroup) Wait() {
	if aborting() {
		return
	}
	point("WaitGroup.Wait", func() bool { return wg.n == 0 })
}

func (wg *WaitGroup) Go(f func()) {
	wg.Add(1)
	Go(func() {
		defer wg.Done()
		f()
	})
}

type Once struct {
	done bool
	m    Mutex
}

func (o *Once) Do(f func()) {
	point("Once.Do", nil)
	if o.done {
		return
	}
	o.m.Lock()
	defer o.m.Unlock()
	if !o.done {
		defer func() { o.done = true }()
		f()
	}
}

// Map is the shim for sync.Map: a plain map plus insertion order (Range is deterministic).
type Map struct {
	m    map[any]any
	keys []any
}

func (m *Map) Load(key any) (any, bool) {
	point("Map.Load", nil)
	v, ok := m.m[key]
	return v, ok
}

func (m *Map) store(key, value any) {
	if m.m == nil {
		m.m = map[any]any{}
	}
	if _, ok := m.m[key]; !ok {
		m.keys = append(m.keys, key)
	}
	m.m[key] = value
}

func (m *Map) Store(key, value any) {
	point("Map.Store", nil)
	m.store(key, value)
}

func (m *Map) LoadOrStore(key, value any) (any, bool) {
	point("Map.LoadOrStore", nil)
	if v, ok := m.m[key]; ok {
		return v, true
	}
	m.store(key, value)
	return value, false
}

func (m *Map) del(key any) {
	if _, ok := m.m[key]; ok {
		delete(m.m, key)
		for i, k := range m.keys {
			if k == key {
				m.keys = append(m.keys[:i:i], m.keys[i+1:]...)
				break
			}
		}
	}
}

func (m *Map) LoadAndDelete(key any) (any, bool) {
	point("Map.LoadAndDelete", nil)
	v, ok := m.m[key]
	m.del(key)
	return v, ok
}

func (m *Map) Delete(key any) {
	point("Map.Delete", nil)
	m.del(key)
}

func (m *Map) Swap(key, value any) (any, bool) {
	point("Map.Swap", nil)
	v, ok := m.m[key]
	m.store(key, value)
	return v, ok
}

func (m *Map) CompareAndSwap(key, old, new any) bool {
	point("Map.CompareAndSwap", nil)
	if v, ok := m.m[key]; ok && v == old {
		m.m[key] = new
		return true
	}
	return false
}

func (m *Map) Range(f func(key, value any) bool) {
	point("Map.Range", nil)
	ks := append([]any(nil), m.keys...)
	for _, k := range ks {
		v, ok := m.m[k]
		if !ok {
			continue
		}
		if !f(k, v) {
			return
		}
	}
}

func (m *Map) Clear() {
	point("Map.Clear", nil)
	m.m, m.keys = nil, nil
}

// AtomicPoint is the scheduling point used by package vatomic.
func AtomicPoint(op string) { point(op, nil) }

// CountsText renders counters deterministically.
func CountsText(c map[string]int) string {
	var ks []string
	for k := range c {
		ks = append(ks, k)
	}
	sort.Strings(ks)
	var b strings.Builder
	for _, k := range ks {
		fmt.Fprintf(&b, "%s=%d\n", k, c[k])
	}
	return b.String()
}
