package vsync

import (
	"runtime"
	"testing"
)

// explore runs the DFS of the sched package in miniature (all schedules, no bound).
func explore(t *testing.T, body func(), maxRuns int) (runs int, aborts map[string]int) {
	aborts = map[string]int{}
	stack := [][]Choice{nil}
	for len(stack) > 0 {
		p := stack[len(stack)-1]
		stack = stack[:len(stack)-1]
		r := Run(p, 10000, body)
		if r.Diverged != "" {
			t.Fatalf("diverged: %s", r.Diverged)
		}
		runs++
		aborts[r.Abort]++
		if runs > maxRuns {
			t.Fatalf("too many runs")
		}
		for i := len(p); i < len(r.Trace); i++ {
			for alt := 1; alt < r.Trace[i].N; alt++ {
				q := append(append([]Choice(nil), r.Trace[:i]...), r.Trace[i])
				q[i].C = alt
				stack = append(stack, q)
			}
		}
	}
	return
}

func TestLockOrderDeadlock(t *testing.T) {
	before := runtime.NumGoroutine()
	body := func() {
		var a, b Mutex
		var wg WaitGroup
		wg.Add(2)
		Go(func() { defer wg.Done(); a.Lock(); b.Lock(); b.Unlock(); a.Unlock() })
		Go(func() { defer wg.Done(); b.Lock(); a.Lock(); a.Unlock(); b.Unlock() })
		wg.Wait()
	}
	runs, ab := explore(t, body, 100000)
	if ab["deadlock"] == 0 || ab[""] == 0 {
		t.Fatalf("runs %d aborts %v: want both deadlocking and clean schedules", runs, ab)
	}
	runtime.Gosched()
	if n := runtime.NumGoroutine(); n > before+2 {
		t.Fatalf("goroutines leaked: %d -> %d", before, n)
	}
	t.Logf("runs %d aborts %v", runs, ab)
}

func TestCounterRace(t *testing.T) {
	// lost update: load; store(load+1) from two goroutines - some schedule must give 1
	results := map[int]bool{}
	body := func() {
		x := 0
		var mu Mutex
		var wg WaitGroup
		wg.Add(2)
		for i := 0; i < 2; i++ {
			Go(func() {
				defer wg.Done()
				mu.Lock()
				v := x
				mu.Unlock()
				mu.Lock()
				x = v + 1
				mu.Unlock()
			})
		}
		wg.Wait()
		results[x] = true
	}
	explore(t, body, 100000)
	if !results[1] || !results[2] {
		t.Fatalf("results %v: want both 1 and 2", results)
	}
}

func TestPanicAndBudget(t *testing.T) {
	r := Run(nil, 1000, func() {
		var wg WaitGroup
		wg.Add(1)
		Go(func() { defer wg.Done(); panic("boom") })
		wg.Wait()
	})
	if r.Abort != "panic" {
		t.Fatalf("abort %q %q", r.Abort, r.AbortInfo)
	}
	r = Run(nil, 50, func() {
		var m Mutex
		for {
			m.Lock()
			m.Unlock()
		}
	})
	if r.Abort != "step-budget" {
		t.Fatalf("abort %q", r.Abort)
	}
	r = Run(nil, 1000, func() {
		var wg WaitGroup
		wg.Add(1)
		wg.Wait()
	})
	if r.Abort != "deadlock" {
		t.Fatalf("abort %q", r.Abort)
	}
}

func TestDivergence(t *testing.T) {
	body := func() {
		var wg WaitGroup
		wg.Add(2)
		Go(func() { wg.Done() })
		Go(func() { wg.Done() })
		wg.Wait()
	}
	r := Run([]Choice{{C: 7}}, 1000, body)
	if r.Diverged == "" {
		t.Fatal("out-of-range choice not detected")
	}
	r0 := Run(nil, 1000, body)
	bad := append([]Choice(nil), r0.Trace...)
	bad[0].Sig ^= 1
	if r := Run(bad, 1000, body); r.Diverged == "" {
		t.Fatal("signature mismatch not detected")
	}
	if r := Run(r0.Trace, 1000, body); r.Diverged != "" || len(r.Trace) != len(r0.Trace) {
		t.Fatal("faithful replay diverged")
	}
}
