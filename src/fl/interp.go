package fl

import (
	"fmt"
	"math/big"
	"strings"
)

// ---------------------------------------------------------------- values

type Value interface{}

type IntV struct {
	T TInt
	V *big.Int
}
type BoolV bool
type StrV string
type ByteV byte // element of a string
type StructV struct {
	T *TStruct
	F []Value
}
type ArrV struct{ E []Value }
type DynV struct{ P *DynObj }
type DynObj struct{ E []Value }
type EnumV struct {
	T *TEnum
	I int
}
type RefV struct {
	Pl  Place
	Mut bool
}
type FuncV struct {
	Lit   *FuncLit
	Named *Func
	Env   *Env
}
type ResultV struct {
	Ok bool
	V  Value
}
type UnitV struct{}
type OptV struct {
	Some bool
	V    Value
}

// Copy implements by-value transfer: structs and fixed arrays are copied deeply;
// dynamic arrays, references and closures are shared.
func Copy(v Value) Value {
	switch v := v.(type) {
	case *StructV:
		n := &StructV{T: v.T, F: make([]Value, len(v.F))}
		for i, f := range v.F {
			n.F[i] = Copy(f)
		}
		return n
	case *ArrV:
		n := &ArrV{E: make([]Value, len(v.E))}
		for i, e := range v.E {
			n.E[i] = Copy(e)
		}
		return n
	case ResultV:
		return ResultV{v.Ok, Copy(v.V)}
	case OptV:
		return OptV{v.Some, Copy(v.V)}
	}
	return v
}

// ---------------------------------------------------------------- places

type Place interface {
	Get() Value
	Set(Value)
}
type Cell struct{ V Value }

func (c *Cell) Get() Value  { return c.V }
func (c *Cell) Set(v Value) { c.V = v }

type fieldPlace struct {
	s *StructV
	i int
}

func (p fieldPlace) Get() Value  { return p.s.F[p.i] }
func (p fieldPlace) Set(v Value) { p.s.F[p.i] = v }

type elemPlace struct {
	e *[]Value
	i int
}

func (p elemPlace) Get() Value  { return (*p.e)[p.i] }
func (p elemPlace) Set(v Value) { (*p.e)[p.i] = v }

// ---------------------------------------------------------------- environment

type Env struct {
	vars   map[string]*Cell
	parent *Env
}

func newEnv(parent *Env) *Env { return &Env{vars: map[string]*Cell{}, parent: parent} }
func (e *Env) lookup(n string) *Cell {
	for s := e; s != nil; s = s.parent {
		if c, ok := s.vars[n]; ok {
			return c
		}
	}
	return nil
}

// ---------------------------------------------------------------- outcome

// Outcome is the observable behaviour of a program.
type Outcome struct {
	Lines []string
	Term  string // "exit0" | "panic:<msg>" | "fault:<kind>" (fault = outside defined semantics / harness error)
}

func (o Outcome) String() string { return strings.Join(o.Lines, "\n") + "\n[" + o.Term + "]" }

type panicSig struct{ msg string }
type faultSig struct{ kind string }

type ctl int

const (
	cNone ctl = iota
	cBreak
	cContinue
	cReturn
)

type interp struct {
	prog    *Program
	out     []string
	steps   int
	maxStep int
	global  *Env
	methods map[string]*Func // "Type.name"
	funcs   map[string]*Func
}

// Run interprets the program from main().
func Run(p *Program) (o Outcome) {
	in := &interp{prog: p, maxStep: 2_000_000, methods: map[string]*Func{}, funcs: map[string]*Func{}}
	in.global = newEnv(nil)
	for _, f := range p.Funcs {
		if f.Recv != nil {
			in.methods[recvTypeName(f.Recv.T)+"."+f.Name] = f
		} else {
			in.funcs[f.Name] = f
		}
	}
	defer func() {
		if r := recover(); r != nil {
			o.Lines = in.out
			switch s := r.(type) {
			case panicSig:
				o.Term = "panic:" + s.msg
			case faultSig:
				o.Term = "fault:" + s.kind
			default:
				panic(r)
			}
		}
	}()
	for _, c := range p.Consts {
		in.exec(c, in.global, nil)
	}
	m := in.funcs["main"]
	if m == nil {
		panic(faultSig{"no main"})
	}
	in.callFunc(m.Params, m.Ret, m.Body, in.global, nil, nil)
	return Outcome{Lines: in.out, Term: "exit0"}
}

func recvTypeName(t Type) string {
	if r, ok := t.(TRef); ok {
		t = r.Elem
	}
	return t.String()
}

func fault(kind string, a ...any) { panic(faultSig{fmt.Sprintf(kind, a...)}) }

func (in *interp) tick() {
	in.steps++
	if in.steps > in.maxStep {
		fault("step budget exceeded")
	}
}

// callFunc binds parameters and runs a body. retT != nil and falling off the end = fault.
func (in *interp) callFunc(params []Param, retT Type, body []Stmt, closure *Env, recv *Param, args []Value) Value {
	env := newEnv(closure)
	all := params
	if recv != nil {
		all = append([]Param{*recv}, params...)
	}
	if len(all) != len(args) {
		fault("arity %d vs %d", len(all), len(args))
	}
	for i, p := range all {
		env.vars[p.Name] = &Cell{args[i]}
	}
	c, v := in.block(body, env, retT)
	if c == cReturn {
		if res, ok := retT.(TResult); ok {
			_ = res
			if _, isRes := v.(ResultV); !isRes {
				v = ResultV{true, v}
			}
		}
		return v
	}
	if retT != nil {
		fault("FellOffEnd")
	}
	return UnitV{}
}

func (in *interp) block(body []Stmt, env *Env, retT Type) (ctl, Value) {
	scope := newEnv(env)
	for _, s := range body {
		if c, v := in.exec(s, scope, retT); c != cNone {
			return c, v
		}
	}
	return cNone, nil
}

func (in *interp) exec(s Stmt, env *Env, retT Type) (ctl, Value) {
	in.tick()
	switch s := s.(type) {
	case *Let:
		var v Value
		if _, isRef := s.T.(TRef); isRef {
			v = in.evalKeepRef(s.Init, env)
		} else {
			v = in.coerce(Copy(in.eval(s.Init, env)), s.T)
		}
		env.vars[s.Name] = &Cell{v}
	case *Assign:
		pl := in.place(s.LHS, env)
		v := Copy(in.eval(s.RHS, env))
		if _, isDyn := pl.Get().(DynV); isDyn {
			// an array literal assigned to a dynamic array variable is a fresh dynamic array
			if a, ok := v.(*ArrV); ok {
				v = DynV{&DynObj{E: a.E}}
			}
		}
		pl.Set(v)
	case *OpAssign:
		pl := in.place(s.LHS, env)
		r := in.eval(s.RHS, env)
		pl.Set(in.binop(strings.TrimSuffix(s.Op, "="), pl.Get(), r))
	case *IncDec:
		pl := in.place(s.LHS, env)
		cur := pl.Get().(IntV)
		d := int64(1)
		if !s.Inc {
			d = -1
		}
		pl.Set(IntV{cur.T, cur.T.Wrap(new(big.Int).Add(cur.V, big.NewInt(d)))})
	case *If:
		if in.evalBool(s.Cond, env) {
			return in.block(s.Then, env, retT)
		} else if s.Else != nil {
			return in.block(s.Else, env, retT)
		}
	case *While:
		for in.evalBool(s.Cond, env) {
			in.tick()
			c, v := in.block(s.Body, env, retT)
			if c == cBreak {
				break
			}
			if c == cReturn {
				return c, v
			}
		}
	case *ForRange:
		lo := in.eval(s.Lo, env).(IntV)
		hi := in.eval(s.Hi, env).(IntV)
		i := new(big.Int).Set(lo.V)
		step := big.NewInt(1)
		if s.Step != nil {
			step = in.eval(s.Step, env).(IntV).V
		}
		for {
			cmp := i.Cmp(hi.V)
			if step.Sign() == 0 {
				break
			}
			if step.Sign() < 0 {
				cmp = -cmp
			}
			if cmp > 0 || (cmp == 0 && !s.Incl) {
				break
			}
			in.tick()
			scope := newEnv(env)
			scope.vars[s.Var] = &Cell{IntV{lo.T, new(big.Int).Set(i)}}
			c, v := in.block(s.Body, scope, retT)
			if c == cBreak {
				break
			}
			if c == cReturn {
				return c, v
			}
			i.Add(i, step)
		}
	case *ForIn:
		x := in.eval(s.X, env)
		var elems []Value
		switch a := x.(type) {
		case *ArrV:
			elems = a.E
		case DynV:
			elems = a.P.E
		default:
			fault("for-in over %T", x)
		}
		for i := 0; i < len(elems); i++ {
			in.tick()
			scope := newEnv(env)
			if s.Idx != "_" {
				scope.vars[s.Idx] = &Cell{IntV{I32, big.NewInt(int64(i))}}
			}
			if s.Val != "_" {
				scope.vars[s.Val] = &Cell{Copy(elems[i])}
			}
			c, v := in.block(s.Body, scope, retT)
			if c == cBreak {
				break
			}
			if c == cReturn {
				return c, v
			}
		}
	case *Match:
		subj := in.eval(s.Subj, env)
		for _, a := range s.Arms {
			if a.Pat == nil || valueEq(subj, in.eval(a.Pat, env)) {
				return in.block(a.Body, env, retT)
			}
		}
	case *Return:
		if s.X == nil {
			return cReturn, UnitV{}
		}
		if _, isRef := retT.(TRef); isRef {
			return cReturn, in.evalKeepRef(s.X, env)
		}
		v := Copy(in.eval(s.X, env))
		if res, ok := retT.(TResult); ok {
			v = in.coerce(v, res.Ok)
			return cReturn, ResultV{true, v}
		}
		return cReturn, in.coerce(v, retT)
	case *ReturnErr:
		return cReturn, ResultV{false, Copy(in.eval(s.X, env))}
	case *ExprStmt:
		if c, ok := s.X.(*Catch); ok {
			if ctlc, v, returned := in.evalCatch(c, env, retT); returned {
				return ctlc, v
			}
			return cNone, nil
		}
		in.eval(s.X, env)
	case *Print:
		in.out = append(in.out, format(in.eval(s.X, env)))
	case *Block:
		return in.block(s.Body, env, retT)
	case *Break:
		return cBreak, nil
	case *Continue:
		return cContinue, nil
	case *Panic:
		panic(panicSig{s.Msg})
	case *Append:
		pl := in.place(s.Arr, env)
		d := pl.Get().(DynV)
		d.P.E = append(d.P.E, Copy(in.eval(s.Val, env)))
	case *Raw:
	default:
		fault("exec: unknown stmt %T", s)
	}
	return cNone, nil
}

// coerce applies implicit lossless integer widening to the declared type.
func (in *interp) coerce(v Value, t Type) Value {
	switch tt := t.(type) {
	case TInt:
		if iv, ok := v.(IntV); ok && iv.T != tt {
			return IntV{tt, tt.Wrap(iv.V)}
		}
	case TDyn:
		// an array literal in a []T context is a dynamic array
		if a, ok := v.(*ArrV); ok {
			return DynV{&DynObj{E: a.E}}
		}
	case TOpt:
		if _, ok := v.(OptV); !ok {
			return OptV{Some: true, V: in.coerce(v, tt.Elem)}
		}
	}
	return v
}

func format(v Value) string {
	switch v := v.(type) {
	case IntV:
		return v.V.String()
	case BoolV:
		if v {
			return "true"
		}
		return "false"
	case StrV:
		return string(v)
	case ByteV:
		return string([]byte{byte(v)})
	}
	fault("print of %T", v)
	return ""
}

func valueEq(a, b Value) bool {
	switch a := a.(type) {
	case IntV:
		return a.V.Cmp(b.(IntV).V) == 0
	case BoolV:
		return a == b.(BoolV)
	case StrV:
		return a == b.(StrV)
	case EnumV:
		return a.I == b.(EnumV).I
	case ByteV:
		return a == b.(ByteV)
	}
	fault("eq on %T", a)
	return false
}

func (in *interp) evalBool(e Expr, env *Env) bool {
	b, ok := in.eval(e, env).(BoolV)
	if !ok {
		fault("non-bool condition")
	}
	return bool(b)
}

// eval evaluates an rvalue; a reference is read through.
func (in *interp) eval(e Expr, env *Env) Value {
	v := in.evalKeepRef(e, env)
	for {
		r, ok := v.(RefV)
		if !ok {
			return v
		}
		v = r.Pl.Get()
	}
}

func (in *interp) evalKeepRef(e Expr, env *Env) Value {
	in.tick()
	switch e := e.(type) {
	case *IntLit:
		if !e.T.Fits(e.V) {
			fault("literal %s out of range of %s", e.V, e.T)
		}
		return IntV{e.T, e.V}
	case *BoolLit:
		return BoolV(e.V)
	case *StrLit:
		return StrV(e.V)
	case *Var:
		c := env.lookup(e.Name)
		if c == nil {
			if f, ok := in.funcs[e.Name]; ok {
				return FuncV{Named: f, Env: in.global}
			}
			fault("undefined %s", e.Name)
		}
		return c.V
	case *Paren:
		return in.evalKeepRef(e.X, env)
	case *Bin:
		l := in.eval(e.L, env)
		switch e.Op {
		case "&&":
			if !bool(l.(BoolV)) {
				return BoolV(false)
			}
			return in.eval(e.R, env).(BoolV)
		case "||":
			if bool(l.(BoolV)) {
				return BoolV(true)
			}
			return in.eval(e.R, env).(BoolV)
		}
		r := in.eval(e.R, env)
		return in.binop(e.Op, l, r)
	case *Un:
		x := in.eval(e.X, env)
		switch e.Op {
		case "-":
			iv := x.(IntV)
			return IntV{iv.T, iv.T.Wrap(new(big.Int).Neg(iv.V))}
		case "!":
			return !x.(BoolV)
		}
		fault("unary %s", e.Op)
	case *Call:
		return in.evalCall(e, env)
	case *MCall:
		return in.evalMCall(e, env)
	case *FieldX, *Index:
		return in.place(e, env).Get()
	case *StructLit:
		s := &StructV{T: e.T, F: make([]Value, len(e.Vals))}
		for i, x := range e.Vals {
			s.F[i] = in.coerce(Copy(in.eval(x, env)), e.T.Fields[i].T)
		}
		return s
	case *ArrLit:
		a := &ArrV{E: make([]Value, len(e.Elems))}
		for i, x := range e.Elems {
			a.E[i] = Copy(in.eval(x, env))
		}
		return a
	case *Cast:
		x := in.eval(e.X, env)
		switch t := e.T.(type) {
		case TInt:
			return IntV{t, t.Wrap(x.(IntV).V)}
		case TDyn:
			if a, ok := x.(*ArrV); ok {
				return DynV{&DynObj{E: a.E}}
			}
			return x
		default:
			return x
		}
	case *EnumVal:
		for i, v := range e.T.Variants {
			if v == e.V {
				return EnumV{e.T, i}
			}
		}
		fault("enum variant")
	case *Borrow:
		pl := in.place(e.X, env)
		return RefV{Pl: pl, Mut: e.Mut}
	case *FuncLit:
		return FuncV{Lit: e, Env: env}
	case *Catch:
		_, v, returned := in.evalCatch(e, env, nil)
		if returned {
			panic(catchReturn{v})
		}
		return v
	case *NoneLit:
		return OptV{}
	case *Coalesce:
		o, ok := in.eval(e.X, env).(OptV)
		if !ok {
			fault("?? on non-optional")
		}
		if o.Some {
			return o.V
		}
		return in.eval(e.D, env)
	case *Len:
		switch x := in.eval(e.X, env).(type) {
		case *ArrV:
			return IntV{I32, big.NewInt(int64(len(x.E)))}
		case DynV:
			return IntV{I32, big.NewInt(int64(len(x.P.E)))}
		case StrV:
			return IntV{I32, big.NewInt(int64(len(x)))}
		}
		fault("len")
	}
	fault("eval: unknown expr %T", e)
	return nil
}

// catchReturn carries a `return` executed inside a catch handler that sits inside an
// expression (e.g. a let initialiser) up to the enclosing function call.
type catchReturn struct{ v Value }

func (in *interp) evalCatch(e *Catch, env *Env, retT Type) (ctl, Value, bool) {
	r, ok := in.eval(e.X, env).(ResultV)
	if !ok {
		fault("catch on non-result")
	}
	if r.Ok {
		return cNone, r.V, false
	}
	if e.ErrName != "" {
		scope := newEnv(env)
		scope.vars[e.ErrName] = &Cell{r.V}
		c, v := in.block(e.Handler, scope, retT)
		if c == cReturn {
			return c, v, true
		}
	}
	if e.Fallback == nil {
		return cNone, UnitV{}, false
	}
	return cNone, in.eval(e.Fallback, env), false
}

func (in *interp) binop(op string, l, r Value) Value {
	switch a := l.(type) {
	case IntV:
		b, ok := r.(IntV)
		if !ok {
			fault("int op with %T", r)
		}
		if a.T != b.T {
			fault("mixed int types %s %s %s", a.T, op, b.T)
		}
		switch op {
		case "+":
			return IntV{a.T, a.T.Wrap(new(big.Int).Add(a.V, b.V))}
		case "-":
			return IntV{a.T, a.T.Wrap(new(big.Int).Sub(a.V, b.V))}
		case "*":
			return IntV{a.T, a.T.Wrap(new(big.Int).Mul(a.V, b.V))}
		case "/", "%":
			if b.V.Sign() == 0 {
				fault("division by zero")
			}
			q, m := new(big.Int).QuoRem(a.V, b.V, new(big.Int)) // truncating
			if op == "/" {
				return IntV{a.T, a.T.Wrap(q)}
			}
			return IntV{a.T, a.T.Wrap(m)}
		case "==":
			return BoolV(a.V.Cmp(b.V) == 0)
		case "!=":
			return BoolV(a.V.Cmp(b.V) != 0)
		case "<":
			return BoolV(a.V.Cmp(b.V) < 0)
		case "<=":
			return BoolV(a.V.Cmp(b.V) <= 0)
		case ">":
			return BoolV(a.V.Cmp(b.V) > 0)
		case ">=":
			return BoolV(a.V.Cmp(b.V) >= 0)
		}
	case BoolV:
		switch op {
		case "==":
			return BoolV(a == r.(BoolV))
		case "!=":
			return BoolV(a != r.(BoolV))
		}
	case StrV:
		switch op {
		case "+":
			return StrV(string(a) + format(r))
		case "==":
			return BoolV(a == r.(StrV))
		case "!=":
			return BoolV(a != r.(StrV))
		}
	case EnumV:
		switch op {
		case "==":
			return BoolV(a.I == r.(EnumV).I)
		case "!=":
			return BoolV(a.I != r.(EnumV).I)
		}
	}
	fault("binop %s on %T", op, l)
	return nil
}

func (in *interp) bindArgs(params []Param, args []Expr, env *Env) []Value {
	if len(params) != len(args) {
		fault("call arity")
	}
	vals := make([]Value, len(args))
	for i, a := range args {
		if _, isRef := params[i].T.(TRef); isRef {
			vals[i] = in.evalKeepRef(a, env)
			if _, ok := vals[i].(RefV); !ok {
				fault("non-reference passed to reference parameter")
			}
		} else {
			vals[i] = in.coerce(Copy(in.eval(a, env)), params[i].T)
		}
	}
	return vals
}

func (in *interp) invoke(params []Param, ret Type, body []Stmt, closure *Env, recv *Param, vals []Value) (v Value) {
	defer func() {
		if r := recover(); r != nil {
			if cr, ok := r.(catchReturn); ok {
				v = cr.v
				if _, isRes := ret.(TResult); isRes {
					if _, ok := v.(ResultV); !ok {
						v = ResultV{true, v}
					}
				}
				return
			}
			panic(r)
		}
	}()
	return in.callFunc(params, ret, body, closure, recv, vals)
}

func (in *interp) evalCall(e *Call, env *Env) Value {
	var fv FuncV
	if e.FnX != nil {
		f, ok := in.eval(e.FnX, env).(FuncV)
		if !ok {
			fault("call of non-function")
		}
		fv = f
	} else if c := env.lookup(e.Fn); c != nil {
		f, ok := c.V.(FuncV)
		if !ok {
			fault("call of non-function variable %s", e.Fn)
		}
		fv = f
	} else if f, ok := in.funcs[e.Fn]; ok {
		fv = FuncV{Named: f, Env: in.global}
	} else {
		fault("undefined function %s", e.Fn)
	}
	if fv.Named != nil {
		vals := in.bindArgs(fv.Named.Params, e.Args, env)
		return in.invoke(fv.Named.Params, fv.Named.Ret, fv.Named.Body, in.global, nil, vals)
	}
	vals := in.bindArgs(fv.Lit.Params, e.Args, env)
	return in.invoke(fv.Lit.Params, fv.Lit.Ret, fv.Lit.Body, fv.Env, nil, vals)
}

func (in *interp) evalMCall(e *MCall, env *Env) Value {
	// receiver first, then arguments
	rv := in.evalKeepRef(e.Recv, env)
	var tname string
	base := rv
	if r, ok := rv.(RefV); ok {
		base = r.Pl.Get()
	}
	switch b := base.(type) {
	case *StructV:
		tname = b.T.Name
	case EnumV:
		tname = b.T.Name
	default:
		fault("method call on %T", base)
	}
	m := in.methods[tname+"."+e.Name]
	if m == nil {
		fault("no method %s.%s", tname, e.Name)
	}
	var recvVal Value
	if rt, isRef := m.Recv.T.(TRef); isRef {
		if r, ok := rv.(RefV); ok {
			recvVal = r
		} else {
			recvVal = RefV{Pl: in.place(e.Recv, env), Mut: rt.Mut} // auto-borrow
		}
	} else {
		recvVal = Copy(base)
	}
	vals := in.bindArgs(m.Params, e.Args, env)
	return in.invoke(m.Params, m.Ret, m.Body, in.global, m.Recv, append([]Value{recvVal}, vals...))
}

// place evaluates an assignable location; a variable holding a reference denotes the
// referent (write-through).
func (in *interp) place(e Expr, env *Env) Place {
	switch e := e.(type) {
	case *Var:
		c := env.lookup(e.Name)
		if c == nil {
			fault("undefined %s", e.Name)
		}
		if r, ok := c.V.(RefV); ok {
			return r.Pl
		}
		return c
	case *Paren:
		return in.place(e.X, env)
	case *FieldX:
		var base Value
		if isPlaceExpr(e.X) {
			base = in.place(e.X, env).Get()
		} else {
			base = in.eval(e.X, env)
		}
		if r, ok := base.(RefV); ok {
			base = r.Pl.Get()
		}
		s, ok := base.(*StructV)
		if !ok {
			fault("field of %T", base)
		}
		for i, f := range s.T.Fields {
			if f.Name == e.Name {
				return fieldPlace{s, i}
			}
		}
		fault("no field %s", e.Name)
	case *Index:
		var base Value
		if isPlaceExpr(e.X) {
			base = in.place(e.X, env).Get()
		} else {
			base = in.eval(e.X, env)
		}
		if r, ok := base.(RefV); ok {
			base = r.Pl.Get()
		}
		iv, ok := in.eval(e.I, env).(IntV)
		if !ok {
			fault("non-int index")
		}
		var elems *[]Value
		switch b := base.(type) {
		case *ArrV:
			elems = &b.E
		case DynV:
			elems = &b.P.E
		case StrV:
			n := int64(len(b))
			i := iv.V.Int64()
			if !iv.V.IsInt64() || i < -n || i >= n {
				panic(panicSig{"index out of bounds"})
			}
			if i < 0 {
				i += n
			}
			return &Cell{ByteV(b[i])}
		default:
			fault("index of %T", base)
		}
		n := int64(len(*elems))
		if !iv.V.IsInt64() {
			panic(panicSig{"index out of bounds"})
		}
		i := iv.V.Int64()
		if i < -n || i >= n {
			panic(panicSig{"index out of bounds"})
		}
		if i < 0 {
			i += n
		}
		return elemPlace{elems, int(i)}
	}
	// an rvalue used as a base: materialise
	return &Cell{in.eval(e, env)}
}

func isPlaceExpr(e Expr) bool {
	switch e.(type) {
	case *Var, *FieldX, *Index, *Paren:
		return true
	}
	return false
}
