package fl

import "fmt"

// ---------------------------------------------------------------- deep clone

func CloneProgram(p *Program) *Program {
	q := &Program{Structs: p.Structs, Enums: p.Enums}
	for _, c := range p.Consts {
		q.Consts = append(q.Consts, cloneStmt(c).(*Let))
	}
	for _, f := range p.Funcs {
		if f.Shared {
			q.Funcs = append(q.Funcs, f)
			continue
		}
		g := *f
		g.Body = cloneStmts(f.Body)
		q.Funcs = append(q.Funcs, &g)
	}
	return q
}

func cloneStmts(l []Stmt) []Stmt {
	if l == nil {
		return nil
	}
	out := make([]Stmt, len(l))
	for i, s := range l {
		out[i] = cloneStmt(s)
	}
	return out
}

func cloneExprs(l []Expr) []Expr {
	if l == nil {
		return nil
	}
	out := make([]Expr, len(l))
	for i, e := range l {
		out[i] = CloneExpr(e)
	}
	return out
}

func cloneStmt(s Stmt) Stmt {
	switch s := s.(type) {
	case *Let:
		c := *s
		c.Init = CloneExpr(s.Init)
		return &c
	case *Assign:
		return &Assign{CloneExpr(s.LHS), CloneExpr(s.RHS)}
	case *OpAssign:
		return &OpAssign{s.Op, CloneExpr(s.LHS), CloneExpr(s.RHS)}
	case *IncDec:
		return &IncDec{CloneExpr(s.LHS), s.Inc}
	case *If:
		return &If{CloneExpr(s.Cond), cloneStmts(s.Then), cloneStmts(s.Else)}
	case *While:
		return &While{CloneExpr(s.Cond), cloneStmts(s.Body)}
	case *ForRange:
		var st Expr
		if s.Step != nil {
			st = CloneExpr(s.Step)
		}
		return &ForRange{s.Var, CloneExpr(s.Lo), CloneExpr(s.Hi), s.Incl, cloneStmts(s.Body), st}
	case *ForIn:
		return &ForIn{s.Idx, s.Val, CloneExpr(s.X), cloneStmts(s.Body)}
	case *Match:
		m := &Match{Subj: CloneExpr(s.Subj)}
		for _, a := range s.Arms {
			var pat Expr
			if a.Pat != nil {
				pat = CloneExpr(a.Pat)
			}
			m.Arms = append(m.Arms, Arm{pat, cloneStmts(a.Body)})
		}
		return m
	case *Return:
		if s.X == nil {
			return &Return{}
		}
		return &Return{CloneExpr(s.X)}
	case *ReturnErr:
		return &ReturnErr{CloneExpr(s.X)}
	case *ExprStmt:
		return &ExprStmt{CloneExpr(s.X)}
	case *Print:
		return &Print{CloneExpr(s.X)}
	case *Block:
		return &Block{cloneStmts(s.Body)}
	case *Break:
		return &Break{}
	case *Continue:
		return &Continue{}
	case *Panic:
		return &Panic{s.Msg}
	case *Append:
		return &Append{Arr: CloneExpr(s.Arr), Val: CloneExpr(s.Val), Ref: s.Ref}
	case *Raw:
		return &Raw{s.Text}
	}
	panic(fmt.Sprintf("clone: stmt %T", s))
}

func CloneExpr(e Expr) Expr {
	switch e := e.(type) {
	case nil:
		return nil
	case *IntLit:
		c := *e
		return &c
	case *BoolLit:
		c := *e
		return &c
	case *StrLit:
		c := *e
		return &c
	case *Var:
		return &Var{e.Name}
	case *Bin:
		return &Bin{e.Op, CloneExpr(e.L), CloneExpr(e.R)}
	case *Un:
		return &Un{e.Op, CloneExpr(e.X)}
	case *Call:
		return &Call{Fn: e.Fn, FnX: CloneExpr(e.FnX), Args: cloneExprs(e.Args)}
	case *MCall:
		return &MCall{CloneExpr(e.Recv), e.Name, cloneExprs(e.Args)}
	case *FieldX:
		return &FieldX{CloneExpr(e.X), e.Name}
	case *Index:
		return &Index{CloneExpr(e.X), CloneExpr(e.I)}
	case *StructLit:
		return &StructLit{T: e.T, Vals: cloneExprs(e.Vals), Bare: e.Bare}
	case *ArrLit:
		return &ArrLit{cloneExprs(e.Elems)}
	case *Cast:
		return &Cast{CloneExpr(e.X), e.T}
	case *EnumVal:
		return &EnumVal{e.T, e.V}
	case *Borrow:
		return &Borrow{CloneExpr(e.X), e.Mut}
	case *FuncLit:
		return &FuncLit{Params: e.Params, Ret: e.Ret, Body: cloneStmts(e.Body)}
	case *Catch:
		return &Catch{CloneExpr(e.X), e.ErrName, cloneStmts(e.Handler), CloneExpr(e.Fallback)}
	case *Len:
		return &Len{CloneExpr(e.X)}
	case *NoneLit:
		return &NoneLit{}
	case *Coalesce:
		return &Coalesce{CloneExpr(e.X), CloneExpr(e.D)}
	case *Paren:
		return &Paren{CloneExpr(e.X)}
	}
	panic(fmt.Sprintf("clone: expr %T", e))
}

// ---------------------------------------------------------------- walking

// Visitor callbacks. Block is called for every statement list (function bodies, nested
// blocks, loop bodies, arms, handlers) with a pointer to the slice so it can be edited.
// Expr is called for every expression slot (pre-order) with a pointer to the slot, the
// statement list and index that contain it (the innermost enclosing statement), and a
// role: "pattern" for match-arm patterns, "const-init" for const initialisers,
// "place" for assignment/borrow/append targets and index bases, "index" for index
// expressions, "" otherwise.
type Visitor struct {
	Block func(list *[]Stmt)
	Expr  func(slot *Expr, list *[]Stmt, at int, role string)
}

func Walk(p *Program, v Visitor) {
	for _, f := range p.Funcs {
		if f.Shared {
			continue
		}
		walkList(&f.Body, v)
	}
}

func walkList(list *[]Stmt, v Visitor) {
	if v.Block != nil {
		v.Block(list)
	}
	for i := 0; i < len(*list); i++ {
		walkStmt((*list)[i], list, i, v)
	}
}

func walkStmt(s Stmt, list *[]Stmt, at int, v Visitor) {
	ex := func(slot *Expr, role string) { walkExpr(slot, list, at, role, v) }
	switch s := s.(type) {
	case *Let:
		role := ""
		if s.Const {
			role = "const-init"
		}
		ex(&s.Init, role)
	case *Assign:
		ex(&s.LHS, "place")
		ex(&s.RHS, "")
	case *OpAssign:
		ex(&s.LHS, "place")
		ex(&s.RHS, "")
	case *IncDec:
		ex(&s.LHS, "place")
	case *If:
		ex(&s.Cond, "")
		walkList(&s.Then, v)
		if s.Else != nil {
			walkList(&s.Else, v)
		}
	case *While:
		ex(&s.Cond, "")
		walkList(&s.Body, v)
	case *ForRange:
		ex(&s.Lo, "")
		ex(&s.Hi, "")
		if s.Step != nil {
			ex(&s.Step, "")
		}
		walkList(&s.Body, v)
	case *ForIn:
		ex(&s.X, "")
		walkList(&s.Body, v)
	case *Match:
		ex(&s.Subj, "")
		for i := range s.Arms {
			if s.Arms[i].Pat != nil {
				ex(&s.Arms[i].Pat, "pattern")
			}
			walkList(&s.Arms[i].Body, v)
		}
	case *Return:
		if s.X != nil {
			ex(&s.X, "")
		}
	case *ReturnErr:
		ex(&s.X, "")
	case *ExprStmt:
		ex(&s.X, "")
	case *Print:
		ex(&s.X, "")
	case *Block:
		walkList(&s.Body, v)
	case *Append:
		ex(&s.Arr, "place")
		ex(&s.Val, "")
	}
}

func walkExpr(slot *Expr, list *[]Stmt, at int, role string, v Visitor) {
	if *slot == nil {
		return
	}
	if v.Expr != nil {
		v.Expr(slot, list, at, role)
	}
	sub := func(s *Expr, r string) { walkExpr(s, list, at, r, v) }
	switch e := (*slot).(type) {
	case *Bin:
		sub(&e.L, "")
		sub(&e.R, "")
	case *Un:
		sub(&e.X, "")
	case *Call:
		if e.FnX != nil {
			sub(&e.FnX, "")
		}
		for i := range e.Args {
			sub(&e.Args[i], "")
		}
	case *MCall:
		sub(&e.Recv, "place")
		for i := range e.Args {
			sub(&e.Args[i], "")
		}
	case *FieldX:
		sub(&e.X, role)
	case *Index:
		sub(&e.X, "place")
		sub(&e.I, "index")
	case *StructLit:
		for i := range e.Vals {
			sub(&e.Vals[i], "")
		}
	case *ArrLit:
		for i := range e.Elems {
			sub(&e.Elems[i], "")
		}
	case *Cast:
		sub(&e.X, "")
	case *Borrow:
		sub(&e.X, "place")
	case *FuncLit:
		walkList(&e.Body, v)
	case *Catch:
		sub(&e.X, "")
		if e.Handler != nil {
			walkList(&e.Handler, v)
		}
		if e.Fallback != nil {
			sub(&e.Fallback, "")
		}
	case *Len:
		sub(&e.X, "place")
	case *Coalesce:
		sub(&e.X, "")
		sub(&e.D, "")
	case *Paren:
		sub(&e.X, role)
	}
}

// Pure reports whether evaluating e has no side effect and cannot fail at run time in a way
// that binding it earlier could move (no calls, no division, no indexing, no catch).
func Pure(e Expr) bool {
	switch e := e.(type) {
	case *IntLit, *BoolLit, *StrLit, *Var, *EnumVal:
		return true
	case *Bin:
		if e.Op == "/" || e.Op == "%" || e.Op == "&&" || e.Op == "||" {
			return false
		}
		return Pure(e.L) && Pure(e.R)
	case *Un:
		return Pure(e.X)
	case *Cast:
		return Pure(e.X)
	case *FieldX:
		return Pure(e.X)
	case *Paren:
		return Pure(e.X)
	}
	return false
}

// HasTypedOperand reports whether e mentions a variable or field (so that `const c := e`
// infers exactly the type e has in its context; a literal-only expression would default).
func HasTypedOperand(e Expr) bool {
	switch e := e.(type) {
	case *Var, *FieldX:
		return true
	case *Bin:
		return HasTypedOperand(e.L) || HasTypedOperand(e.R)
	case *Un:
		return HasTypedOperand(e.X)
	case *Cast:
		return true
	case *Paren:
		return HasTypedOperand(e.X)
	}
	return false
}

// RootVar returns the variable at the root of a place expression ("" if none).
func RootVar(e Expr) string {
	switch e := e.(type) {
	case *Var:
		return e.Name
	case *FieldX:
		return RootVar(e.X)
	case *Index:
		return RootVar(e.X)
	case *Paren:
		return RootVar(e.X)
	}
	return ""
}
