package fl

import (
	"fmt"
	"strings"
)

// Render prints the program as Ferret source.
func Render(p *Program) string {
	var b strings.Builder
	b.WriteString("import \"std/io\";\n\n")
	for _, e := range p.Enums {
		fmt.Fprintf(&b, "type %s enum { %s };\n\n", e.Name, strings.Join(e.Variants, ", "))
	}
	for _, s := range p.Structs {
		b.WriteString("type " + s.Name + " struct {\n")
		for i, f := range s.Fields {
			sep := ","
			if i == len(s.Fields)-1 {
				sep = ""
			}
			fmt.Fprintf(&b, "    .%s: %s%s\n", f.Name, f.T, sep)
		}
		b.WriteString("};\n\n")
	}
	for _, c := range p.Consts {
		b.WriteString(stmtLine(c) + "\n")
	}
	for _, f := range p.Funcs {
		b.WriteString(RenderFunc(f))
		b.WriteString("\n")
	}
	return b.String()
}

func params(ps []Param) string {
	var s []string
	for _, p := range ps {
		s = append(s, p.Name+": "+p.T.String())
	}
	return strings.Join(s, ", ")
}

func RenderFunc(f *Func) string {
	var b strings.Builder
	b.WriteString("fn ")
	if f.Recv != nil {
		fmt.Fprintf(&b, "(%s: %s) ", f.Recv.Name, f.Recv.T)
	}
	fmt.Fprintf(&b, "%s(%s)", f.Name, params(f.Params))
	if f.Ret != nil {
		b.WriteString(" -> " + f.Ret.String())
	}
	b.WriteString(" {\n")
	renderBody(&b, f.Body, 1)
	b.WriteString("}\n")
	return b.String()
}

func ind(n int) string { return strings.Repeat("    ", n) }

func renderBody(b *strings.Builder, body []Stmt, d int) {
	for _, s := range body {
		renderStmt(b, s, d)
	}
}

func stmtLine(s Stmt) string {
	var b strings.Builder
	renderStmt(&b, s, 0)
	return strings.TrimRight(b.String(), "\n")
}

func renderStmt(b *strings.Builder, s Stmt, d int) {
	w := func(format string, a ...any) { b.WriteString(ind(d) + fmt.Sprintf(format, a...) + "\n") }
	switch s := s.(type) {
	case *Let:
		kw := "let"
		if s.Const {
			kw = "const"
		}
		if s.T != nil {
			w("%s %s: %s = %s;", kw, s.Name, s.T, X(s.Init))
		} else {
			w("%s %s := %s;", kw, s.Name, X(s.Init))
		}
	case *Assign:
		w("%s = %s;", X(s.LHS), X(s.RHS))
	case *OpAssign:
		w("%s %s %s;", X(s.LHS), s.Op, X(s.RHS))
	case *IncDec:
		if s.Inc {
			w("%s++;", X(s.LHS))
		} else {
			w("%s--;", X(s.LHS))
		}
	case *If:
		renderIf(b, s, d, ind(d))
	case *While:
		w("while %s {", X(s.Cond))
		renderBody(b, s.Body, d+1)
		w("}")
	case *ForRange:
		op := ".."
		if s.Incl {
			op = "..="
		}
		if s.Step != nil {
			st := wrapAtom(s.Step)
			if l, ok := s.Step.(*IntLit); ok && !l.Typed {
				st = X(s.Step) // `3..=0:-1`
			}
			w("for %s in %s%s%s:%s {", s.Var, wrapAtom(s.Lo), op, wrapAtom(s.Hi), st)
		} else {
			w("for %s in %s%s%s {", s.Var, wrapAtom(s.Lo), op, wrapAtom(s.Hi))
		}
		renderBody(b, s.Body, d+1)
		w("}")
	case *ForIn:
		w("for %s, %s in %s {", s.Idx, s.Val, X(s.X))
		renderBody(b, s.Body, d+1)
		w("}")
	case *Match:
		w("match %s {", X(s.Subj))
		for _, a := range s.Arms {
			pat := "_"
			if a.Pat != nil {
				pat = X(a.Pat)
			}
			b.WriteString(ind(d+1) + pat + " => {\n")
			renderBody(b, a.Body, d+2)
			b.WriteString(ind(d+1) + "}\n")
		}
		w("}")
	case *Return:
		if s.X == nil {
			w("return;")
		} else {
			w("return %s;", X(s.X))
		}
	case *ReturnErr:
		w("return %s!;", wrapAtom(s.X))
	case *ExprStmt:
		w("%s;", X(s.X))
	case *Print:
		w("io::Println(%s);", X(s.X))
	case *Block:
		w("{")
		renderBody(b, s.Body, d+1)
		w("}")
	case *Break:
		w("break;")
	case *Continue:
		w("continue;")
	case *Panic:
		w("panic(%s);", quote(s.Msg))
	case *Append:
		if s.Ref {
			w("append(%s, %s);", X(s.Arr), X(s.Val))
		} else {
			w("append(&'%s, %s);", X(s.Arr), X(s.Val))
		}
	case *Raw:
		for _, l := range strings.Split(s.Text, "\n") {
			b.WriteString(ind(d) + l + "\n")
		}
	default:
		panic(fmt.Sprintf("render: unknown stmt %T", s))
	}
}

func renderIf(b *strings.Builder, s *If, d int, prefix string) {
	b.WriteString(prefix + "if " + X(s.Cond) + " {\n")
	renderBody(b, s.Then, d+1)
	if s.Else == nil {
		b.WriteString(ind(d) + "}\n")
		return
	}
	if len(s.Else) == 1 {
		if ei, ok := s.Else[0].(*If); ok {
			renderIf(b, ei, d, ind(d)+"} else ")
			return
		}
	}
	b.WriteString(ind(d) + "} else {\n")
	renderBody(b, s.Else, d+1)
	b.WriteString(ind(d) + "}\n")
}

func quote(s string) string {
	var b strings.Builder
	b.WriteByte('"')
	for i := 0; i < len(s); i++ {
		switch c := s[i]; c {
		case '\n':
			b.WriteString("\\n")
		case '\t':
			b.WriteString("\\t")
		case '\\':
			b.WriteString("\\\\")
		case '"':
			b.WriteString("\\\"")
		default:
			b.WriteByte(c)
		}
	}
	b.WriteByte('"')
	return b.String()
}

// wrapAtom renders e, parenthesised unless it is atomic.
func wrapAtom(e Expr) string {
	switch x := e.(type) {
	case *Bin, *Un, *Cast, *Catch, *Borrow, *FuncLit, *Coalesce:
		return "(" + X(e) + ")"
	case *IntLit:
		if x.V.Sign() < 0 && !x.Typed {
			return "(" + X(e) + ")"
		}
	case *StructLit:
		if !x.Bare {
			return "(" + X(e) + ")"
		}
	}
	return X(e)
}

// X renders an expression.
func X(e Expr) string {
	switch e := e.(type) {
	case *IntLit:
		if e.Typed {
			return "(" + e.V.String() + " as " + e.T.String() + ")"
		}
		return e.V.String()
	case *BoolLit:
		if e.V {
			return "true"
		}
		return "false"
	case *StrLit:
		return quote(e.V)
	case *Var:
		return e.Name
	case *Bin:
		return wrapAtom(e.L) + " " + e.Op + " " + wrapAtom(e.R)
	case *Un:
		return e.Op + wrapAtom(e.X)
	case *Call:
		var a []string
		for _, x := range e.Args {
			a = append(a, X(x))
		}
		fn := e.Fn
		if e.FnX != nil {
			fn = wrapAtom(e.FnX)
		}
		return fn + "(" + strings.Join(a, ", ") + ")"
	case *MCall:
		var a []string
		for _, x := range e.Args {
			a = append(a, X(x))
		}
		return wrapAtom(e.Recv) + "." + e.Name + "(" + strings.Join(a, ", ") + ")"
	case *FieldX:
		return wrapAtom(e.X) + "." + e.Name
	case *Index:
		return wrapAtom(e.X) + "[" + X(e.I) + "]"
	case *StructLit:
		var a []string
		for i, v := range e.Vals {
			a = append(a, "."+e.T.Fields[i].Name+" = "+X(v))
		}
		s := "{ " + strings.Join(a, ", ") + " }"
		if !e.Bare {
			s += " as " + e.T.Name
		}
		return s
	case *ArrLit:
		var a []string
		for _, v := range e.Elems {
			a = append(a, X(v))
		}
		return "[" + strings.Join(a, ", ") + "]"
	case *Cast:
		return wrapAtom(e.X) + " as " + e.T.String()
	case *EnumVal:
		return e.T.Name + "::" + e.V
	case *Borrow:
		if e.Mut {
			return "&'" + wrapAtom(e.X)
		}
		return "&" + wrapAtom(e.X)
	case *FuncLit:
		var b strings.Builder
		fmt.Fprintf(&b, "fn(%s)", params(e.Params))
		if e.Ret != nil {
			b.WriteString(" -> " + e.Ret.String())
		}
		b.WriteString(" {\n")
		renderBody(&b, e.Body, 2)
		b.WriteString("    }")
		return b.String()
	case *Catch:
		s := X(e.X) + " catch "
		if e.ErrName != "" {
			var b strings.Builder
			b.WriteString(e.ErrName + " {\n")
			renderBody(&b, e.Handler, 2)
			b.WriteString("    }")
			s += b.String()
			if e.Fallback != nil {
				s += " " + wrapAtom(e.Fallback)
			}
			return s
		}
		return s + wrapAtom(e.Fallback)
	case *Len:
		return "len(" + X(e.X) + ")"
	case *NoneLit:
		return "none"
	case *Coalesce:
		return wrapAtom(e.X) + " ?? " + wrapAtom(e.D)
	case *Paren:
		return "(" + X(e.X) + ")"
	}
	panic(fmt.Sprintf("render: unknown expr %T", e))
}
