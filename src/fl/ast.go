// Package fl is a small typed AST of Ferret's core language that can be rendered to
// Ferret source (render.go) and interpreted by a definitional interpreter (interp.go):
// the reference model ("refsem") of the run-based checks.
package fl

import (
	"fmt"
	"math/big"
)

// ---------------------------------------------------------------- types

type Type interface{ String() string }

type TInt struct {
	Bits   int
	Signed bool
}
type TBool struct{}
type TStr struct{}
type TStruct struct {
	Name   string
	Fields []Field
}
type Field struct {
	Name string
	T    Type
}
type TArr struct {
	N    int
	Elem Type
}
type TDyn struct{ Elem Type }
type TEnum struct {
	Name     string
	Variants []string
}
type TRef struct {
	Elem Type
	Mut  bool
}
type TFunc struct {
	Params []Type
	Ret    Type // nil = void
}
type TResult struct{ Err, Ok Type }
type TOpt struct{ Elem Type }

func (t TInt) String() string {
	if t.Signed {
		return fmt.Sprintf("i%d", t.Bits)
	}
	return fmt.Sprintf("u%d", t.Bits)
}
func (TBool) String() string      { return "bool" }
func (TStr) String() string       { return "str" }
func (t *TStruct) String() string { return t.Name }
func (t TArr) String() string     { return fmt.Sprintf("[%d]%s", t.N, t.Elem) }
func (t TDyn) String() string     { return "[]" + t.Elem.String() }
func (t *TEnum) String() string   { return t.Name }
func (t TRef) String() string {
	if t.Mut {
		return "&'" + t.Elem.String()
	}
	return "&" + t.Elem.String()
}
func (t TFunc) String() string {
	// Ferret function types name their parameters: fn(a: i64) -> i64
	s := "fn("
	for i, p := range t.Params {
		if i > 0 {
			s += ", "
		}
		s += fmt.Sprintf("a%d: %s", i, p.String())
	}
	s += ")"
	if t.Ret != nil {
		s += " -> " + t.Ret.String()
	}
	return s
}
func (t TResult) String() string { return t.Err.String() + " ! " + t.Ok.String() }
func (t TOpt) String() string    { return t.Elem.String() + "?" }

var (
	I8   = TInt{8, true}
	I16  = TInt{16, true}
	I32  = TInt{32, true}
	I64  = TInt{64, true}
	I128 = TInt{128, true}
	I256 = TInt{256, true}
	U8   = TInt{8, false}
	U16  = TInt{16, false}
	U32  = TInt{32, false}
	U64  = TInt{64, false}
	U128 = TInt{128, false}
	U256 = TInt{256, false}
	Bool = TBool{}
	Str  = TStr{}
)

var IntTypes = []TInt{I8, I16, I32, I64, I128, I256, U8, U16, U32, U64, U128, U256}

func (t TInt) Min() *big.Int {
	if !t.Signed {
		return big.NewInt(0)
	}
	return new(big.Int).Neg(new(big.Int).Lsh(big.NewInt(1), uint(t.Bits-1)))
}
func (t TInt) Max() *big.Int {
	b := t.Bits
	if t.Signed {
		b--
	}
	return new(big.Int).Sub(new(big.Int).Lsh(big.NewInt(1), uint(b)), big.NewInt(1))
}

// Wrap reduces v modulo 2^Bits into the type's range (two's complement).
func (t TInt) Wrap(v *big.Int) *big.Int {
	m := new(big.Int).Lsh(big.NewInt(1), uint(t.Bits))
	r := new(big.Int).Mod(v, m) // Go's Mod is Euclidean: 0 <= r < m
	if t.Signed && r.Cmp(t.Max()) > 0 {
		r.Sub(r, m)
	}
	return r
}
func (t TInt) Fits(v *big.Int) bool { return v.Cmp(t.Min()) >= 0 && v.Cmp(t.Max()) <= 0 }

// ---------------------------------------------------------------- expressions

type Expr interface{}

type IntLit struct {
	T     TInt
	V     *big.Int
	Typed bool // render as `(v as T)` instead of relying on context
}
type BoolLit struct{ V bool }
type StrLit struct{ V string }
type Var struct{ Name string }
type Bin struct {
	Op   string // + - * / % == != < <= > >= && ||
	L, R Expr
}
type Un struct {
	Op string // - !
	X  Expr
}
type Call struct {
	Fn   string // named function, or
	FnX  Expr   // callee expression (closure variable)
	Args []Expr
}
type MCall struct {
	Recv Expr
	Name string
	Args []Expr
}
type FieldX struct {
	X    Expr
	Name string
}
type Index struct{ X, I Expr }
type StructLit struct {
	T    *TStruct
	Vals []Expr
	// Bare renders `{...}` without `as T` (context gives the type)
	Bare bool
}
type ArrLit struct {
	Elems []Expr
}
type Cast struct {
	X Expr
	T Type
}
type EnumVal struct {
	T *TEnum
	V string
}
type Borrow struct {
	X   Expr
	Mut bool
}
type FuncLit struct {
	Params []Param
	Ret    Type
	Body   []Stmt
}
type Catch struct {
	X        Expr
	ErrName  string // "" = no handler block
	Handler  []Stmt
	Fallback Expr // nil = handler must return
}
type Len struct{ X Expr }

// NoneLit is the empty optional `none`; Coalesce is `X ?? D`.
type NoneLit struct{}
type Coalesce struct{ X, D Expr }
type Paren struct{ X Expr }

// ---------------------------------------------------------------- statements

type Stmt interface{}

type Let struct {
	Name  string
	T     Type // nil = inferred (:=)
	Init  Expr
	Const bool
}
type Assign struct{ LHS, RHS Expr }
type OpAssign struct {
	Op       string // += -= *= /= %=
	LHS, RHS Expr
}
type IncDec struct {
	LHS Expr
	Inc bool
}
type If struct {
	Cond Expr
	Then []Stmt
	Else []Stmt // nil = none; a single *If = else-if
}
type While struct {
	Cond Expr
	Body []Stmt
}
type ForRange struct {
	Var    string
	Lo, Hi Expr
	Incl   bool
	Body   []Stmt
	// Step: `lo..hi:step` (nil = 1). A negative step counts down (while i > hi, or >= for ..=),
	// a zero step does not iterate.
	Step Expr
}
type ForIn struct {
	Idx, Val string // "_" allowed
	X        Expr
	Body     []Stmt
}
type Arm struct {
	Pat  Expr // nil = default `_`
	Body []Stmt
}
type Match struct {
	Subj Expr
	Arms []Arm
}
type Return struct{ X Expr } // X nil = bare return
type ReturnErr struct{ X Expr }
type ExprStmt struct{ X Expr }
type Print struct{ X Expr }
type Block struct{ Body []Stmt }
type Break struct{}
type Continue struct{}
type Panic struct{ Msg string }
type Append struct {
	Arr Expr // place
	Val Expr
	// Ref: Arr is a `&'[]T` variable: rendered `append(a, v)` instead of `append(&'a, v)`
	Ref bool
}

// Raw is an escape hatch for source text the renderer emits verbatim and the interpreter
// treats as a no-op (comments, blank lines).
type Raw struct{ Text string }

// ---------------------------------------------------------------- declarations

type Param struct {
	Name string
	T    Type
}
type Func struct {
	Name   string
	Recv   *Param // method receiver
	Params []Param
	Ret    Type
	Body   []Stmt
	// Shared: a helper declared identically (same pointer) by many cases: CloneProgram keeps the
	// pointer, Walk does not enter it (rewrites leave it alone), prog.Pack emits it once.
	Shared bool
}
type Program struct {
	Structs []*TStruct
	Enums   []*TEnum
	Funcs   []*Func // includes main
	Consts  []*Let  // module-level constants
}

// ---------------------------------------------------------------- helpers for building

func N(v int64) *big.Int           { return big.NewInt(v) }
func L(t TInt, v int64) *IntLit    { return &IntLit{T: t, V: big.NewInt(v)} }
func LB(t TInt, v *big.Int) *IntLit { return &IntLit{T: t, V: v} }
func TL(t TInt, v int64) *IntLit   { return &IntLit{T: t, V: big.NewInt(v), Typed: true} }
func V(n string) *Var              { return &Var{n} }
func B(op string, l, r Expr) *Bin  { return &Bin{op, l, r} }
func S(s string) *StrLit           { return &StrLit{s} }
func P(x Expr) *Print              { return &Print{x} }
func C(fn string, args ...Expr) *Call { return &Call{Fn: fn, Args: args} }
func F(x Expr, n string) *FieldX   { return &FieldX{x, n} }
func Ix(x, i Expr) *Index          { return &Index{x, i} }

func (p *Program) Func(name string) *Func {
	for _, f := range p.Funcs {
		if f.Name == name && f.Recv == nil {
			return f
		}
	}
	return nil
}

// Merge appends the declarations of q to p (names must already be distinct).
func (p *Program) Merge(q *Program) {
	p.Structs = append(p.Structs, q.Structs...)
	p.Enums = append(p.Enums, q.Enums...)
	p.Funcs = append(p.Funcs, q.Funcs...)
	p.Consts = append(p.Consts, q.Consts...)
}
