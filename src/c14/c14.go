// Package c14: compilation is deterministic under every schedule.
//
// Engine C (package sched + the vsync/vatomic shims + tools/rewriter): every project below
// is compiled in-process (front end + QBE IL per module + wasm binary) on the INSTRUMENTED
// view of the current tree under every schedule of the concurrently parsed modules up to a
// preemption bound; every execution's observation (success flag, diagnostics in emission
// order as (severity, code, message, file, line, col), IL text per module, wasm bytes) must
// equal that of the default schedule.
//
// Deviations from DESIGN.md C14:
//   - map order is owned (vmap.Keys) only at the string-keyed range sites of the phases
//     that both compiles share: ComputeTopologicalOrder (ctx.Modules x2, ctx.DepGraph x2)
//     and runRuntimeAudit (ctx.Modules); found by a hand list in the rewriter, not go/types.
//     Back-end sites (qbe.go `range TypeIDs`, the pointer-keyed ranges of borrow.go/cfg.go)
//     are not owned; none of the generated projects reaches them with >=2 keys, and if one
//     did, the R3 self-test (same schedule twice) would stop the run as a harness error.
//     Preemptions and map-order deviations have separate bounds (b, m): quick explores
//     (0,0), (1,0) and every single deviation on the default schedule ((-1,1): -1 prunes the
//     free scheduling alternatives too); thorough (2,0), (0,1), (0,2), and (3,0), (1,1) on
//     the single-import projects. The design's shared budget would be b+m <= bound.
//   - the IL and the wasm binary come from two compiles per execution that follow the same
//     schedule (MIR depends on the pointer size, so one pipeline run cannot produce both).
//   - the real `ferret` binary cross-check with GOMAXPROCS 1/16 is not run; the thorough
//     tier runs the -race build of the un-instrumented harness 20x per project.
//   - interface-with-`is` bodies are not generated.
package c14

import (
	"encoding/json"
	"fmt"
	"os"
	"os/exec"
	"path/filepath"
	"regexp"
	"sort"
	"strings"
	"sync"
	"time"

	"compiler/verifh/sched"
	"compiler/verifh/vl"
)

// ---------------------------------------------------------------------------------
// project generator

var konst = map[string]int{"main": 1, "a": 10, "b": 100, "c": 1000}

// module renders module `name` of kind `kind` importing `imps` (project-local module names).
func module(name, kind string, imps []string) string {
	var sb strings.Builder
	if kind == "syn1" {
		sb.WriteString(") ;\n") // syntax error on line 1, before the imports
	}
	for _, i := range imps {
		fmt.Fprintf(&sb, "import \"proj/%s\";\n", i)
	}
	if kind == "miss" {
		sb.WriteString("import \"proj/zz\";\n")
	}
	calls := ""
	for _, i := range imps {
		calls += fmt.Sprintf(" + %s::F%s()", i, i)
	}
	k := konst[name]
	fn := "F" + name
	switch kind {
	case "plain", "miss", "syn1":
		fmt.Fprintf(&sb, "fn %s() -> i32 {\n    return %d%s;\n}\n", fn, k, calls)
	case "lit1":
		fmt.Fprintf(&sb, "fn %s() -> i32 {\n    let f := fn(y: i32) -> i32 { return y + %d; };\n    return f(1)%s;\n}\n", fn, k, calls)
	case "lit2":
		fmt.Fprintf(&sb, "fn %s() -> i32 {\n    let f := fn(y: i32) -> i32 { return y + %d; };\n    let g := fn(y: i32) -> i32 { return y * %d; };\n    return f(1) + g(2)%s;\n}\n", fn, k, k, calls)
	case "anon":
		fmt.Fprintf(&sb, "type E%s enum { A, B };\ntype I%s interface { M() -> i32 };\nfn %s() -> i32 {\n    let p: struct { .X: i32, .Y: i32 } = { .X = %d, .Y = 2 };\n    return p.X%s;\n}\n", name, name, fn, k, calls)
	case "cap3":
		// a closure capturing three locals (and a nested one capturing two of them): the order of
		// the captured variables fixes the layout of the environment
		fmt.Fprintf(&sb, "fn %s() -> i32 {\n    let ca: i32 = %d;\n    let cb: i32 = 2;\n    let cc: i32 = 3;\n    let f := fn(y: i32) -> i32 {\n        let g := fn(z: i32) -> i32 { return z + cc - cb; };\n        return y + ca * 100 + cb * 10 + g(cc);\n    };\n    return f(1)%s;\n}\n", fn, k, calls)
	case "rich":
		// several named and anonymous types, methods, string literals, a match and a result: the
		// tables the back ends emit (type ids, string pool, method sets) all have several entries
		fmt.Fprintf(&sb, "type P%s struct { .X: i32, .Y: i64 };\ntype Q%s struct { .A: str, .B: P%s };\ntype E%s enum { Red, Green, Blue };\n"+
			"fn (p: P%s) sum() -> i64 { return (p.X as i64) + p.Y; }\nfn (p: &'P%s) bump() { p.X = p.X + 1; }\nfn (q: Q%s) name() -> str { return q.A; }\n"+
			"fn r%s(v: i32) -> str ! i32 { if v < 0 { return \"neg-%s\"!; } return v + 1; }\n"+
			"fn %s() -> i32 {\n    let p := { .X = %d, .Y = 2 } as P%s;\n    let q := { .A = \"alpha-%s\", .B = p } as Q%s;\n    p.bump();\n    let e := E%s::Green;\n    let n: i32 = 0;\n    match e { E%s::Red => { n = 1; } E%s::Green => { n = 2; } _ => { n = 3; } }\n    let s1 := \"beta-%s\";\n    let s2 := \"gamma-%s\";\n    let w := r%s(n) catch 0;\n    let t: struct { .U: i32, .V: i32 } = { .U = w, .V = 4 };\n    return p.X + t.U + (p.sum() as i32)%s;\n}\n",
			name, name, name, name, name, name, name, name, name, fn, k, name, name, name, name, name, name, name, name, name, calls)
	case "iface":
		// two interfaces, three implementing types, five interface conversions: several vtables
		// and type ids per module (tables the back end has to emit in some order)
		fmt.Fprintf(&sb, "type Sh%s interface {\n    area() -> i32,\n};\ntype Nm%s interface {\n    tag() -> i32,\n};\n"+
			"type Sq%s struct { .S: i32 };\ntype Rc%s struct { .W: i32, .H: i32 };\ntype Tr%s struct { .B: i32 };\n"+
			"fn (s: Sq%s) area() -> i32 { return s.S * s.S; }\nfn (r: Rc%s) area() -> i32 { return r.W * r.H; }\nfn (t: Tr%s) area() -> i32 { return t.B; }\n"+
			"fn (s: Sq%s) tag() -> i32 { return 1; }\nfn (r: Rc%s) tag() -> i32 { return 2; }\n"+
			"fn tot%s(x: Sh%s) -> i32 { return x.area(); }\nfn wh%s(x: Nm%s) -> i32 { return x.tag(); }\n"+
			"fn %s() -> i32 {\n    let va: Sq%s = { .S = %d };\n    let vb: Rc%s = { .W = 3, .H = 4 };\n    let vc: Tr%s = { .B = 7 };\n"+
			"    let sa: Sh%s = va;\n    let sb: Sh%s = vb;\n    let sc: Sh%s = vc;\n    let na: Nm%s = va;\n    let nb: Nm%s = vb;\n"+
			"    return tot%s(sa) + tot%s(sb) + tot%s(sc) + wh%s(na) + wh%s(nb)%s;\n}\n",
			name, name, name, name, name, name, name, name, name, name, name, name, name, name,
			fn, name, k, name, name, name, name, name, name, name, name, name, name, name, name, calls)
	case "ifacelit":
		// interface types written in place (literals): their ids come from the parser
		fmt.Fprintf(&sb, "type Sq%s struct { .S: i32 };\ntype Rc%s struct { .W: i32, .H: i32 };\n"+
			"fn (s: Sq%s) area() -> i32 { return s.S * s.S; }\nfn (r: Rc%s) area() -> i32 { return r.W * r.H; }\nfn (s: Sq%s) tag() -> i32 { return 1; }\n"+
			"fn tot%s(x: interface { area() -> i32 }) -> i32 { return x.area(); }\nfn wh%s(x: interface { tag() -> i32 }) -> i32 { return x.tag(); }\n"+
			"fn %s() -> i32 {\n    let va: Sq%s = { .S = %d };\n    let vb: Rc%s = { .W = 3, .H = 4 };\n"+
			"    let sa: interface { area() -> i32 } = va;\n    let sb: interface { area() -> i32 } = vb;\n    let na: interface { tag() -> i32 } = va;\n"+
			"    return tot%s(sa) + tot%s(sb) + wh%s(na)%s;\n}\n",
			name, name, name, name, name, name, name, fn, name, k, name, name, name, name, calls)
	case "synb":
		fmt.Fprintf(&sb, "fn %s() -> i32 {\n    return %d +%s;\n    let q := ) 3;\n}\n", fn, k, calls) // syntax errors on lines after the imports
	default:
		panic("kind " + kind)
	}
	if name == "main" {
		sb.WriteString("fn main() {\n    let r := Fmain();\n}\n")
	}
	return sb.String()
}

type modspec struct {
	kind string
	imps []string
}

type pspec struct {
	id    string
	mods  map[string]modspec // "main", "a", ...
	size  int                // ordering key (simplest first)
	b2    bool               // quick tier: explore at bound 2 (the four smallest interesting ones)
	one   bool               // single-import project (thorough: bound 3)
	quick bool
	ctl   bool // every module well-formed: the compile must succeed (control)
}

func (p *pspec) project() *sched.Project {
	files := map[string]string{}
	for n, m := range p.mods {
		files[n+".fer"] = module(n, m.kind, m.imps)
	}
	return &sched.Project{ID: p.id, Files: files, Entry: "main.fer"}
}

var wellFormed = map[string]bool{"plain": true, "lit1": true, "lit2": true, "anon": true, "cap3": true, "rich": true, "iface": true, "ifacelit": true}

func mk(id string, quick bool, mods map[string]modspec) *pspec {
	p := &pspec{id: id, mods: mods, quick: quick, ctl: true}
	for n, m := range mods {
		p.size += 10 + len(m.imps)
		if !wellFormed[m.kind] {
			p.ctl = false
		}
		for _, i := range m.imps {
			if _, ok := mods[i]; !ok {
				panic("bad project " + id + ": " + n + " imports " + i)
			}
		}
	}
	return p
}

func projects() []*pspec {
	var ps []*pspec
	kinds := []string{"plain", "lit1", "lit2", "anon", "synb", "miss", "syn1"}
	ms := func(kind string, imps ...string) modspec { return modspec{kind, imps} }
	// one import
	for _, k := range kinds {
		p := mk(fmt.Sprintf("one(main=plain,a=%s)", k), true, map[string]modspec{"main": ms("plain", "a"), "a": ms(k)})
		p.one = true
		p.b2 = k == "plain" || k == "lit1" || k == "miss"
		ps = append(ps, p)
	}
	for _, k := range []string{"lit1", "anon"} {
		p := mk(fmt.Sprintf("one(main=%s,a=%s)", k, k), true, map[string]modspec{"main": ms(k, "a"), "a": ms(k)})
		p.one = true
		p.b2 = k == "lit1"
		ps = append(ps, p)
	}
	// modules with more in them (multi-capture closures; several types, methods, strings)
	for _, pr := range [][2]string{{"plain", "cap3"}, {"cap3", "rich"}, {"rich", "cap3"}} {
		p := mk(fmt.Sprintf("one(main=%s,a=%s)", pr[0], pr[1]), true, map[string]modspec{"main": ms(pr[0], "a"), "a": ms(pr[1])})
		p.one = true
		ps = append(ps, p)
	}
	for _, pr := range [][2]string{{"plain", "iface"}, {"iface", "iface"}} {
		p := mk(fmt.Sprintf("one(main=%s,a=%s)", pr[0], pr[1]), true, map[string]modspec{"main": ms(pr[0], "a"), "a": ms(pr[1])})
		p.one = true
		ps = append(ps, p)
	}
	ps = append(ps, mk("fork(a=ifacelit,b=ifacelit)", true, map[string]modspec{"main": ms("plain", "a", "b"), "a": ms("ifacelit"), "b": ms("ifacelit")}))
	ps = append(ps, mk("fork(main=ifacelit,a=ifacelit,b=iface)", true, map[string]modspec{"main": ms("ifacelit", "a", "b"), "a": ms("ifacelit"), "b": ms("iface")}))
	ps = append(ps, mk("fork(a=iface,b=rich)", true, map[string]modspec{"main": ms("plain", "a", "b"), "a": ms("iface"), "b": ms("rich")}))
	ps = append(ps, mk("fork(a=cap3,b=rich)", true, map[string]modspec{"main": ms("plain", "a", "b"), "a": ms("cap3"), "b": ms("rich")}))
	// fork: main imports a and b
	for i, ka := range kinds {
		for _, kb := range kinds[i:] {
			quick := ka != "syn1" || kb == "syn1"
			switch ka + "," + kb {
			case "plain,anon", "plain,lit2", "lit2,anon", "lit2,synb", "lit2,miss", "anon,synb", "anon,miss":
				quick = false
			}
			ps = append(ps, mk(fmt.Sprintf("fork(a=%s,b=%s)", ka, kb), quick, map[string]modspec{"main": ms("plain", "a", "b"), "a": ms(ka), "b": ms(kb)}))
		}
	}
	ps = append(ps, mk("fork(main=lit1,a=lit1,b=lit1)", true, map[string]modspec{"main": ms("lit1", "a", "b"), "a": ms("lit1"), "b": ms("lit1")}))
	// chain: main -> a -> b
	for _, pr := range [][2]string{{"plain", "plain"}, {"lit1", "lit1"}, {"lit1", "lit2"}, {"anon", "anon"}, {"synb", "lit1"}, {"lit1", "synb"}, {"miss", "lit1"}, {"lit1", "miss"}, {"syn1", "lit1"}} {
		ps = append(ps, mk(fmt.Sprintf("chain(a=%s,b=%s)", pr[0], pr[1]), pr[0] != "syn1" && pr[0] != "plain", map[string]modspec{"main": ms("plain", "a"), "a": ms(pr[0], "b"), "b": ms(pr[1])}))
	}
	// shared: b is imported by two importers (main and a)
	for _, pr := range [][2]string{{"plain", "plain"}, {"lit1", "lit1"}, {"lit2", "lit1"}, {"anon", "anon"}, {"lit1", "synb"}, {"lit1", "miss"}, {"miss", "miss"}} {
		ps = append(ps, mk(fmt.Sprintf("shared(a=%s,b=%s)", pr[0], pr[1]), pr[0] != "plain", map[string]modspec{"main": ms("plain", "a", "b"), "a": ms(pr[0], "b"), "b": ms(pr[1])}))
	}
	// cycles
	ps = append(ps,
		mk("cycle2(main>a,b;a>b;b>a)", true, map[string]modspec{"main": ms("plain", "a", "b"), "a": ms("plain", "b"), "b": ms("plain", "a")}),
		mk("cycle2(main>a,b;a>b;b>a;lit1)", true, map[string]modspec{"main": ms("plain", "a", "b"), "a": ms("lit1", "b"), "b": ms("lit1", "a")}),
		mk("cycle2(main>a;a>b;b>a)", true, map[string]modspec{"main": ms("plain", "a"), "a": ms("plain", "b"), "b": ms("plain", "a")}),
		mk("cycle2(main>a;a>main)", true, map[string]modspec{"main": ms("plain", "a"), "a": ms("plain", "main")}),
		mk("cycle1(main>a;a>a)", true, map[string]modspec{"main": ms("plain", "a"), "a": ms("plain", "a")}),
		mk("cycle3(main>a,b;a>b;b>main)", true, map[string]modspec{"main": ms("plain", "a", "b"), "a": ms("plain", "b"), "b": ms("plain", "main")}),
	)
	for _, p := range ps {
		if strings.HasPrefix(p.id, "cycle") {
			p.ctl = false
		}
	}
	// std/io in the picture (one more concurrently parsed module)
	{
		p := mk("fork-io(a=lit1,b=lit1)", true, map[string]modspec{"main": ms("plain", "a", "b"), "a": ms("lit1"), "b": ms("lit1")})
		ps = append(ps, p)
	}
	// three imported modules (thorough)
	t := func(id string, mods map[string]modspec) {
		p := mk(id, false, mods)
		if strings.HasPrefix(id, "cycle") {
			p.ctl = false
		}
		ps = append(ps, p)
	}
	t("fork3(a=lit1,b=lit1,c=lit1)", map[string]modspec{"main": ms("plain", "a", "b", "c"), "a": ms("lit1"), "b": ms("lit1"), "c": ms("lit1")})
	t("fork3(a=anon,b=lit2,c=plain)", map[string]modspec{"main": ms("plain", "a", "b", "c"), "a": ms("anon"), "b": ms("lit2"), "c": ms("plain")})
	t("fork3(a=synb,b=miss,c=lit1)", map[string]modspec{"main": ms("plain", "a", "b", "c"), "a": ms("synb"), "b": ms("miss"), "c": ms("lit1")})
	t("chain3(a=lit1,b=lit1,c=lit1)", map[string]modspec{"main": ms("plain", "a"), "a": ms("lit1", "b"), "b": ms("lit1", "c"), "c": ms("lit1")})
	t("diamond(a=lit1,b=lit1,c=lit1)", map[string]modspec{"main": ms("plain", "a", "b"), "a": ms("lit1", "c"), "b": ms("lit1", "c"), "c": ms("lit1")})
	t("diamond(a=plain,b=plain,c=miss)", map[string]modspec{"main": ms("plain", "a", "b"), "a": ms("plain", "c"), "b": ms("plain", "c"), "c": ms("miss")})
	t("cycle3(main>a,b,c;a>b;b>c;c>a)", map[string]modspec{"main": ms("plain", "a", "b", "c"), "a": ms("plain", "b"), "b": ms("plain", "c"), "c": ms("plain", "a")})
	t("cycle3(main>a;a>b;b>c;c>a)", map[string]modspec{"main": ms("plain", "a"), "a": ms("plain", "b"), "b": ms("plain", "c"), "c": ms("plain", "a")})
	sort.SliceStable(ps, func(i, j int) bool { return ps[i].size < ps[j].size })
	return ps
}

// the std/io variant prints from main
func finalProject(p *pspec) *sched.Project {
	pr := p.project()
	if strings.HasPrefix(p.id, "fork-io") {
		pr.Files["main.fer"] = "import \"std/io\";\n" + strings.Replace(pr.Files["main.fer"], "    let r := Fmain();\n", "    io::Println(Fmain());\n", 1)
	}
	return pr
}

// ---------------------------------------------------------------------------------
// oracle

// classOf maps a section name of the canonical observation to the class named in case ids.
func classOf(sec string) string {
	switch {
	case strings.HasPrefix(sec, "status"):
		return "status"
	case strings.HasPrefix(sec, "diagnostics"):
		return "diagnostics"
	case strings.HasPrefix(sec, "il "), sec == "il-order":
		return "il"
	case sec == "wasm":
		return "wasm"
	}
	return "" // counts: not part of C14's observation
}

func whatDiffers(a, b string) string {
	set := map[string]bool{}
	for _, s := range sched.DiffSections(a, b) {
		if c := classOf(s); c != "" {
			set[c] = true
		}
	}
	var l []string
	for k := range set {
		l = append(l, k)
	}
	sort.Strings(l)
	return strings.Join(l, "+")
}

// firstDiffIn renders the first differing line within the sections of class cls.
func firstDiffIn(a, b string) string {
	_, sa := sched.Sections(a)
	ob, sb := sched.Sections(b)
	oa, _ := sched.Sections(a)
	seen := map[string]bool{}
	var out []string
	for _, k := range append(oa, ob...) {
		if seen[k] || classOf(k) == "" {
			continue
		}
		seen[k] = true
		if sa[k] != sb[k] {
			out = append(out, fmt.Sprintf("[%s] %s", k, sched.FirstDiff(sa[k], sb[k])))
		}
	}
	return strings.Join(out, "\n")
}

func schedStr(s []int) string {
	b, _ := json.Marshal(s)
	if s == nil {
		return "[]"
	}
	return string(b)
}

func replayFiles(pr *sched.Project, def, other string, osched []int) map[string]string {
	files := map[string]string{}
	for n, c := range pr.Files {
		files["project/"+n] = c
	}
	pj, _ := json.MarshalIndent(pr, "", " ")
	files["project.json"] = string(pj)
	sj, _ := json.Marshal(map[string]any{"default": []int{}, "other": osched})
	files["schedule.json"] = string(sj)
	files["expected.txt"] = def
	files["observed.txt"] = other
	return files
}

type tally struct {
	mu                       sync.Mutex
	exec, points, steps, cpu int64
	perProj                  map[string]any
	boundDone                map[string]int
	mapDone                  map[string]int
	incomplete               []string
	reported                 map[string]bool
}

func judge(c *vl.Ctx, e *sched.Engine, p *pspec, pr *sched.Project, r *sched.ProjResult, t *tally) {
	t.mu.Lock()
	t.exec += r.Executions
	t.points += r.Points
	t.steps += r.Steps
	t.cpu += r.CPUms
	t.mu.Unlock()
	if r.Nondet {
		// two fresh processes compiled this project differently under the same schedule and the
		// same map orders at every hooked site
		t.mu.Lock()
		dup := t.reported[p.id+"/same-schedule"]
		t.reported[p.id+"/same-schedule"] = true
		t.mu.Unlock()
		if nd := e.Nondet[pr.ID]; nd != nil && !dup {
			w := whatDiffers(nd.A, nd.B)
			c.Outcome("same schedule, different output")
			c.Fail(vl.Fail{Case: "C14/" + p.id + "/same-schedule", Obs: fmt.Sprintf("project %s: two fresh compiler processes running the default schedule (same scheduling decisions, same iteration order at every hooked map range) produced different results (%s differ); seen after %d runs", p.id, w, nd.Runs),
				Files: replayFiles(pr, nd.A, nd.B, nil)})
		}
		c.Distinct(p.id)
		return
	}
	def := r.Obs[r.RootHash].Text
	c.Distinct(p.id)
	// control: well-formed projects must compile on the default schedule
	if p.ctl && (!strings.Contains(def, "==# status il\nsuccess=true") || !strings.Contains(def, "==# il proj/main")) {
		t.mu.Lock()
		dup := t.reported[p.id+"/control"]
		t.reported[p.id+"/control"] = true
		t.mu.Unlock()
		if !dup {
			c.Fail(vl.Fail{Case: "C14/" + p.id + "/control", Obs: "a project of well-formed modules does not compile on the default schedule:\n" + firstLines(def, 12),
				Files: replayFiles(pr, def, def, nil)})
		}
	}
	if strings.Contains(def, "success=true") {
		c.Outcome("default:compiles")
	} else {
		c.Outcome("default:rejected")
	}
	// group the non-default observations by what differs (counts excluded)
	best := map[string]*sched.ObsInfo{}
	ndist := map[string]bool{}
	for _, h := range r.Hashes()[1:] {
		o := r.Obs[h]
		w := whatDiffers(def, o.Text)
		if w == "" {
			continue // differs in the counters only: not C14's business
		}
		ndist[h] = true
		if best[w] == nil {
			best[w] = o // Hashes() is ordered cheapest schedule first
		}
	}
	t.mu.Lock()
	if r.Task.NoSched {
		r.Task.Bound = -1
	}
	t.perProj[fmt.Sprintf("%s@(%d,%d)", p.id, r.Task.Bound, r.Task.MapBound)] = map[string]any{"distinct_observations": len(ndist) + 1, "executions": r.Executions, "complete": r.Complete, "root_points": r.RootPoints, "root_map_points": r.RootMap, "goroutines": r.Goroutines}
	if r.Complete {
		if cur, ok := t.boundDone[p.id]; r.Task.MapBound == 0 && (!ok || r.Task.Bound > cur) {
			t.boundDone[p.id] = r.Task.Bound
		}
		if cur, ok := t.mapDone[p.id]; r.Task.MapBound > 0 && (!ok || r.Task.MapBound > cur) {
			t.mapDone[p.id] = r.Task.MapBound
		}
	} else {
		t.incomplete = append(t.incomplete, fmt.Sprintf("%s@(%d,%d)", p.id, r.Task.Bound, r.Task.MapBound))
	}
	t.mu.Unlock()
	if len(ndist) == 0 {
		c.Outcome("deterministic")
		return
	}
	var ws []string
	for w := range best {
		ws = append(ws, w)
	}
	sort.Strings(ws)
	for _, w := range ws {
		o := best[w]
		c.Outcome("differs:" + w)
		t.mu.Lock()
		dup := t.reported[p.id+"/"+w]
		t.reported[p.id+"/"+w] = true
		t.mu.Unlock()
		if dup {
			continue
		}
		// R5: re-execute the differing schedule five times
		same := 0
		for i := 0; i < 5; i++ {
			if e.Replay(pr, o.Schedule) == o.Text {
				same++
			}
		}
		note := ""
		if same != 5 {
			note = fmt.Sprintf("intermittent %d/5", same)
		}
		obs := fmt.Sprintf("project %s: the observation depends on the schedule (%s differ)\nschedule A = [] (default), schedule B = %s (%d preemption(s) + map-order deviation(s))\nA vs B:\n%s",
			p.id, w, schedStr(o.Schedule), o.Preempt, firstDiffIn(def, o.Text))
		if note != "" {
			obs += "\n" + note
		}
		c.Fail(vl.Fail{Case: "C14/" + p.id + "/" + w, Obs: obs, Files: replayFiles(pr, def, o.Text, o.Schedule), Note: note})
	}
}

func firstLines(s string, n int) string {
	l := strings.Split(s, "\n")
	if len(l) > n {
		l = l[:n]
	}
	return strings.Join(l, "\n")
}

// ---------------------------------------------------------------------------------

func Run(c *vl.Ctx) {
	if len(os.Args) >= 4 && os.Args[2] == "--replay" {
		replay(c, os.Args[3])
		return
	}
	all := projects()
	e := sched.NewEngine(c, 16, true)
	defer e.Close()
	fmt.Print(e.Report)
	fmt.Printf("C14: instrumented build took %.1fs\n", time.Since(c.Start).Seconds())
	if c.Quick() {
		c.SetBudget(time.Since(c.Start) + 300*time.Second)
	} else {
		c.SetBudget(time.Since(c.Start) + 14*time.Minute)
	}
	t := &tally{incomplete: []string{}, perProj: map[string]any{}, boundDone: map[string]int{}, mapDone: map[string]int{}, reported: map[string]bool{}}
	prj := map[string]*sched.Project{}
	var sel []*pspec
	for _, p := range all {
		if c.Quick() && !p.quick {
			continue
		}
		if f := os.Getenv("C1415_ONLY"); f != "" { // development / triage aid
			c.Capped = true
			if !strings.Contains(p.id, f) {
				continue
			}
		}
		sel = append(sel, p)
		prj[p.id] = finalProject(p)
	}
	runPhaseM := func(ps []*pspec, bound, mapBound int) {
		if len(ps) == 0 {
			return
		}
		t0 := time.Now()
		x0 := t.exec
		defer func() {
			fmt.Printf("C14: phase (preemptions<=%d, map deviations<=%d): %d projects, %d executions, %.1fs\n", bound, mapBound, len(ps), t.exec-x0, time.Since(t0).Seconds())
		}()
		var tasks []sched.Task
		for _, p := range ps {
			tasks = append(tasks, sched.Task{Proj: prj[p.id], Bound: max(bound, 0), MapBound: mapBound, NoSched: bound < 0})
		}
		res := e.Explore(tasks, c.Deadline)
		for i, r := range res {
			judge(c, e, ps[i], prj[ps[i].id], r, t)
		}
	}
	runPhase := func(ps []*pspec, bound int) { runPhaseM(ps, bound, 0) }
	// phase A0: every project at bound 0 (all free choices at blocking/exit points: cheap,
	// so that a budget cut never leaves a project unexplored); phase A: bound 1
	runPhase(sel, 0)
	if !c.OverBudget() {
		runPhase(sel, 1)
	}
	// phase M: every single map-order deviation - quick: on the default schedule (bound -1
	// prunes even the free scheduling alternatives); thorough: on every preemption-free one
	if !c.OverBudget() {
		if c.Quick() {
			runPhaseM(sel, -1, 1)
		} else {
			runPhaseM(sel, 0, 1)
		}
	}
	// phase B: bound 2 (quick: the smallest projects; thorough: everything, simplest first)
	var b2 []*pspec
	for _, p := range sel {
		if p.b2 || !c.Quick() {
			b2 = append(b2, p)
		}
	}
	if !c.OverBudget() {
		if c.Quick() {
			runPhase(b2, 2)
		} else {
			// in waves, so that a budget cut leaves whole projects completed
			for i := 0; i < len(b2) && !c.OverBudget(); i += 4 {
				j := i + 4
				if j > len(b2) {
					j = len(b2)
				}
				runPhase(b2[i:j], 2)
			}
		}
	}
	// phase C (thorough): bound 3 on the single-import projects
	if !c.Quick() && !c.OverBudget() {
		var b3 []*pspec
		for _, p := range sel {
			if p.one {
				b3 = append(b3, p)
			}
		}
		runPhase(b3, 3)
		if !c.OverBudget() {
			runPhaseM(b3, 1, 1)
		}
		if !c.OverBudget() {
			runPhaseM(sel, 0, 2)
		}
	}
	c.OverBudget()
	// thorough: natural runs under the race detector on the un-instrumented tree
	raceInfo := map[string]any{"run": false}
	if !c.Quick() {
		raceInfo = racePass(c, e, sel, prj, t)
	}
	nb := map[int]int{}
	for _, p := range sel {
		if b, ok := t.boundDone[p.id]; ok {
			nb[b]++
		} else {
			nb[-1]++
		}
	}
	done := map[string]int{}
	for b, n := range nb {
		if b < 0 {
			done["none"] = n
		} else {
			done[fmt.Sprintf("bound_%d", b)] = n
		}
	}
	sort.Strings(t.incomplete)
	secs := time.Since(c.Start).Seconds()
	c.Sample(map[string]any{"project": sel[len(sel)/2].id, "files": prj[sel[len(sel)/2].id].Files})
	exhaustive := len(t.incomplete) == 0
	e.Close()
	c.Finish(vl.Coverage{
		Evaluations: t.exec, Exhaustive: exhaustive,
		Rule:   "one evaluation = one complete controlled execution (two in-process compiles of the project - QBE IL and wasm - on the instrumented current tree under one schedule); distinct_nontrivial = projects; every schedule with at most `bound` preemptions is executed (stateless DFS, free choices at blocking/exit points all explored); states = choice points visited, transitions = scheduling decisions executed",
		Bound:  fmt.Sprintf("%d projects (entry + <=%d imported modules); preemption bound completed per project: %v (highest bound fully explored -> number of projects); incomplete (budget): %d", len(sel), map[bool]int{true: 2, false: 3}[c.Quick()], done, len(t.incomplete)),
		States: t.points, Transitions: t.steps, Traces: t.exec,
		Extra: map[string]any{
			"executions":                        t.exec,
			"executions_per_second_wall":        int(float64(t.exec) / secs),
			"executions_per_cpu_second":         int(float64(t.exec) / (float64(t.cpu)/1000 + 0.001)),
			"distinct_observations_per_project": t.perProj,
			"preemption_bound_completed":        t.boundDone,
			"incomplete_by_budget":              t.incomplete,
			"race_pass":                         raceInfo,
			"rewriter_report":                   strings.Split(strings.TrimSpace(e.Report), "\n"),
			"map_order_explored":                true,
			"map_deviation_bound_completed":     t.mapDone,
		},
	})
}

// ---------------------------------------------------------------------------------
// -race pass

var raceFrame = regexp.MustCompile(`(?m)^\s+(compiler/[^\s(]+)`)

func racePass(c *vl.Ctx, e *sched.Engine, sel []*pspec, prj map[string]*sched.Project, t *tally) map[string]any {
	info := map[string]any{"run": true}
	bin, err := sched.BuildFree(c)
	if err != nil {
		// the race runtime is not available offline: say so, do not guess
		info["run"] = false
		info["build_error"] = firstLines(err.Error(), 6)
		fmt.Println("C14: the -race harness cannot be built here; the race pass is skipped:", firstLines(err.Error(), 3))
		return info
	}
	var mu sync.Mutex
	races, natural, runs := 0, 0, 0
	vl.ParDo(len(sel), 8, func(i int) {
		p := sel[i]
		pr := prj[p.id]
		dir := filepath.Join(c.W, "free", fmt.Sprintf("f%02d", i), "proj")
		os.MkdirAll(filepath.Dir(dir), 0o755)
		cmd := exec.Command(bin, dir, filepath.Join(c.Repo, "ferret_libs"))
		cmd.Env = append(os.Environ(), "GORACE=halt_on_error=0", "GOMAXPROCS=8")
		j, _ := json.Marshal(&sched.Job{Op: "free", Proj: pr, Runs: 20})
		cmd.Stdin = strings.NewReader(string(j) + "\n")
		var so, se strings.Builder
		cmd.Stdout, cmd.Stderr = &so, &se
		cmd.Run()
		os.RemoveAll(filepath.Dir(dir))
		var rep sched.Reply
		if err := json.Unmarshal([]byte(strings.TrimSpace(so.String())), &rep); err != nil {
			fmt.Fprintf(os.Stderr, "Engine C harness error (not a verdict): race worker for %s gave no reply: %v\n%s\n", p.id, err, firstLines(se.String(), 30))
			os.Exit(2)
		}
		mu.Lock()
		runs += int(rep.Executions)
		mu.Unlock()
		if n := strings.Count(se.String(), "WARNING: DATA RACE"); n > 0 {
			// summarise: the set of repo functions at the top of the racing stacks
			set := map[string]bool{}
			for _, blk := range strings.Split(se.String(), "==================") {
				if !strings.Contains(blk, "DATA RACE") {
					continue
				}
				for _, part := range strings.Split(blk, "\n\n") {
					if m := raceFrame.FindStringSubmatch(part); m != nil && (strings.Contains(part, "rite at") || strings.Contains(part, "ead at")) {
						set[m[1]] = true
					}
				}
			}
			var fs []string
			for f := range set {
				fs = append(fs, f)
			}
			sort.Strings(fs)
			mu.Lock()
			races++
			mu.Unlock()
			c.Fail(vl.Fail{Case: "C14/race/" + p.id, Obs: "data race reported by the Go race detector in natural runs; racing accesses in: " + strings.Join(fs, ", "),
				Files: map[string]string{"race_report.txt": firstLines(se.String(), 200), "project.json": string(j)}, Note: "race reports are not deterministic"})
		}
		if len(rep.Seen) > 1 {
			mu.Lock()
			natural++
			mu.Unlock()
			w := whatDiffers(rep.Seen[0].Text, rep.Seen[1].Text)
			// A project whose nondeterminism the controlled exploration already reported is
			// only counted here. One that the exploration found deterministic but that
			// differs between natural runs means nondeterminism the scheduler does not own
			// (e.g. map order at an unhooked site): that is reported.
			controlled := false
			t.mu.Lock()
			for k := range t.reported {
				if strings.HasPrefix(k, p.id+"/") && !strings.HasSuffix(k, "/control") {
					controlled = true
				}
			}
			t.mu.Unlock()
			if w != "" && !controlled {
				c.Fail(vl.Fail{Case: "C14/natural/" + p.id + "/" + w, Obs: "20 natural (uncontrolled, -race build) compiles of the project gave different observations although every explored schedule gave the same: " + firstDiffIn(rep.Seen[0].Text, rep.Seen[1].Text),
					Files: map[string]string{"expected.txt": rep.Seen[0].Text, "observed.txt": rep.Seen[1].Text, "project.json": string(j)}, Note: "natural runs: not reproducible on demand"})
			}
		}
	})
	info["projects"] = len(sel)
	info["natural_executions"] = runs
	info["projects_with_race_reports"] = races
	info["projects_with_differing_natural_runs"] = natural
	return info
}

// ---------------------------------------------------------------------------------

func replay(c *vl.Ctx, dir string) {
	var pr sched.Project
	b, err := os.ReadFile(filepath.Join(dir, "project.json"))
	if err != nil || json.Unmarshal(b, &pr) != nil {
		fmt.Fprintln(os.Stderr, "replay: cannot read project.json:", err)
		os.Exit(2)
	}
	var sc struct {
		Default []int `json:"default"`
		Other   []int `json:"other"`
	}
	b, err = os.ReadFile(filepath.Join(dir, "schedule.json"))
	if err != nil || json.Unmarshal(b, &sc) != nil {
		fmt.Fprintln(os.Stderr, "replay: cannot read schedule.json:", err)
		os.Exit(2)
	}
	e := sched.NewEngine(c, 1, true)
	defer e.Close()
	a := e.Replay(&pr, sc.Default)
	o := e.Replay(&pr, sc.Other)
	fmt.Printf("C14 replay %s\nschedule A = %s\nschedule B = %s\n", dir, schedStr(sc.Default), schedStr(sc.Other))
	if w := whatDiffers(a, o); w != "" {
		fmt.Printf("observations differ (%s):\n%s\n", w, firstDiffIn(a, o))
		e.Close()
		os.Exit(1)
	}
	fmt.Println("observations are equal")
}
