package c06

// The "alias" family: ACCEPTED programs that never write to the immutable place syntactically.
// They take a by-value COPY of an aggregate reached through the immutable binding (argument of
// a by-value parameter, `let` copy, returned copy, element of a new aggregate, ...) and write
// to the copy. The statement is "no accepted program changes the value seen through an
// immutable binding": the leaves printed through the binding before and after the operation
// (and, for references, through the owner afterwards) have to be the initial constants.
//
// product: place kind x root type x aggregate-typed access path x copy operation x context;
// every point is one function of its own, a native program holds all accepted points of a
// (kind, type, context); a point whose lines differ is re-run in a program of its own.

import (
	"fmt"
	"os"
	"sort"
	"strings"
	"sync"

	"compiler/verifh/fe"
	"compiler/verifh/run"
	"compiler/verifh/vl"
)

const aliasPrelude = `import "std/io";
type In struct { .G: i32 };
type P struct { .F: i32, .In: In, .Arr: [2]i32 };
fn scr_In(p: In) -> i32 { p.G = 9; return p.G; }
fn scr_P(p: P) -> i32 { p.F = 9; p.In.G = 9; p.Arr[0] = 9; p.Arr[1] = 9; return p.F; }
fn scr_arr(p: [2]i32) -> i32 { p[0] = 9; p[1] = 9; return p[0]; }
fn scr_arrP(p: [2]P) -> i32 { p[0].F = 9; p[0].In.G = 9; p[0].Arr[0] = 9; p[1].F = 9; p[1].In.G = 9; p[1].Arr[0] = 9; return p[0].F; }
fn scr2_In(n: i32, p: In) -> i32 { p.G = n; return p.G; }
fn scr2_P(n: i32, p: P) -> i32 { p.F = n; p.In.G = n; p.Arr[0] = n; p.Arr[1] = n; return p.F; }
fn scr2_arr(n: i32, p: [2]i32) -> i32 { p[0] = n; p[1] = n; return p[0]; }
fn scr2_arrP(n: i32, p: [2]P) -> i32 { p[0].F = n; p[0].In.G = n; p[0].Arr[0] = n; p[1].F = n; p[1].In.G = n; p[1].Arr[0] = n; return p[0].F; }
fn id_In(p: In) -> In { return p; }
fn id_P(p: P) -> P { return p; }
fn id_arr(p: [2]i32) -> [2]i32 { return p; }
fn id_arrP(p: [2]P) -> [2]P { return p; }
fn wr_In(m: &'In) { m.G = 9; }
fn wr_P(m: &'P) { m.F = 9; m.In.G = 9; m.Arr[0] = 9; m.Arr[1] = 9; }
fn wr_arr(m: &'[2]i32) { m[0] = 9; m[1] = 9; }
fn wr_arrP(m: &'[2]P) { m[0].F = 9; m[0].In.G = 9; m[0].Arr[0] = 9; m[1].F = 9; m[1].In.G = 9; m[1].Arr[0] = 9; }
fn (p: In) scrm() -> i32 { p.G = 9; return p.G; }
fn (p: P) scrm() -> i32 { p.F = 9; p.In.G = 9; p.Arr[0] = 9; p.Arr[1] = 9; return p.F; }
`

// writeAll writes every scalar leaf of a value of type t spelt y.
func (t ty) writeAll(y string) string {
	var b []string
	for _, l := range t.leaves(y) {
		b = append(b, l+" = 9;")
	}
	return strings.Join(b, " ")
}

type aliasOp struct {
	id  string
	ok  func(t ty) bool
	gen func(pl string, t ty) []string // statements; print exactly one line
}

func anyAgg(t ty) bool { return t != tI }

var aliasOps = []aliasOp{
	{"by_value_arg", anyAgg, func(pl string, t ty) []string { return []string{"io::Println(scr_" + t.id() + "(" + pl + "));"} }},
	{"by_value_arg_second", anyAgg, func(pl string, t ty) []string { return []string{"io::Println(scr2_" + t.id() + "(9, " + pl + "));"} }},
	{"by_value_arg_twice", anyAgg, func(pl string, t ty) []string {
		return []string{"io::Println(scr_" + t.id() + "(" + pl + ") + scr2_" + t.id() + "(8, " + pl + "));"}
	}},
	{"by_value_receiver", func(t ty) bool { return t == tP || t == tIn }, func(pl string, t ty) []string { return []string{"io::Println(" + pl + ".scrm());"} }},
	{"let_copy", anyAgg, func(pl string, t ty) []string {
		return []string{"let y := " + pl + ";", t.writeAll("y"), "io::Println(" + t.leaves("y")[0] + ");"}
	}},
	{"let_copy_typed", anyAgg, func(pl string, t ty) []string {
		return []string{"let y: " + t.src() + " = " + pl + ";", t.writeAll("y"), "io::Println(" + t.leaves("y")[0] + ");"}
	}},
	{"assign_copy", anyAgg, func(pl string, t ty) []string {
		return []string{"let y: " + t.src() + " = " + t.newVal() + ";", "y = " + pl + ";", t.writeAll("y"), "io::Println(" + t.leaves("y")[0] + ");"}
	}},
	{"let_copy_whole_assign", anyAgg, func(pl string, t ty) []string {
		return []string{"let y := " + pl + ";", "y = " + t.newVal() + ";", "io::Println(" + t.leaves("y")[0] + ");"}
	}},
	{"returned_copy", anyAgg, func(pl string, t ty) []string {
		return []string{"let y := id_" + t.id() + "(" + pl + ");", t.writeAll("y"), "io::Println(" + t.leaves("y")[0] + ");"}
	}},
	{"copy_then_pass_mut", anyAgg, func(pl string, t ty) []string {
		return []string{"let y := " + pl + ";", "wr_" + t.id() + "(&'y);", "io::Println(" + t.leaves("y")[0] + ");"}
	}},
	{"copy_then_borrow_mut", anyAgg, func(pl string, t ty) []string {
		return []string{"let y := " + pl + ";", "let m: &'" + t.src() + " = &'y;", t.writeThrough("m"), "io::Println(" + t.leaves("y")[0] + ");"}
	}},
	{"copy_of_copy", anyAgg, func(pl string, t ty) []string {
		return []string{"let y := " + pl + ";", "let z := y;", t.writeAll("z"), t.writeAll("y"), "io::Println(" + t.leaves("z")[0] + ");"}
	}},
	{"into_struct_field", func(t ty) bool { return t == tIn || t == tA }, func(pl string, t ty) []string {
		if t == tIn {
			return []string{"let w: P = { .F = 0, .In = " + pl + ", .Arr = [0, 0] };", "w.In.G = 9;", "io::Println(w.In.G);"}
		}
		return []string{"let w: P = { .F = 0, .In = { .G = 0 }, .Arr = " + pl + " };", "w.Arr[0] = 9; w.Arr[1] = 9;", "io::Println(w.Arr[0]);"}
	}},
	{"assign_into_struct_field", func(t ty) bool { return t == tIn || t == tA }, func(pl string, t ty) []string {
		if t == tIn {
			return []string{"let w: P = " + initP2 + ";", "w.In = " + pl + ";", "w.In.G = 9;", "io::Println(w.In.G);"}
		}
		return []string{"let w: P = " + initP2 + ";", "w.Arr = " + pl + ";", "w.Arr[0] = 9; w.Arr[1] = 9;", "io::Println(w.Arr[0]);"}
	}},
	{"into_array_elem", func(t ty) bool { return t == tP }, func(pl string, t ty) []string {
		return []string{"let w: [2]P = [" + pl + ", " + pl + "];", tAP.writeAll("w"), "io::Println(w[0].F);"}
	}},
	{"assign_into_array_elem", func(t ty) bool { return t == tP }, func(pl string, t ty) []string {
		return []string{"let w: [2]P = [" + initP2 + ", " + initP2 + "];", "w[1] = " + pl + ";", tAP.writeAll("w"), "io::Println(w[1].F);"}
	}},
	{"into_dyn_array", func(t ty) bool { return t == tP || t == tIn }, func(pl string, t ty) []string {
		return []string{"let d: []" + t.src() + " = [" + pl + "];", t.writeAll("d[0]"), "io::Println(" + t.leaves("d[0]")[0] + ");"}
	}},
	{"append_dyn_array", func(t ty) bool { return t == tP || t == tIn }, func(pl string, t ty) []string {
		return []string{"let d: []" + t.src() + " = [];", "append(&'d, " + pl + ");", t.writeAll("d[0]"), "io::Println(" + t.leaves("d[0]")[0] + ");"}
	}},
	{"for_in_value", func(t ty) bool { return t == tAP || t == tA }, func(pl string, t ty) []string {
		if t == tA {
			return []string{"let acc: i32 = 0;", "for i, v in " + pl + " {", "    v = 9;", "    acc = acc + v;", "}", "io::Println(acc);"}
		}
		return []string{"let acc: i32 = 0;", "for i, v in " + pl + " {", "    " + tP.writeAll("v"), "    acc = acc + v.F;", "}", "io::Println(acc);"}
	}},
	{"match_subject_copy", func(t ty) bool { return t == tIn }, func(pl string, t ty) []string {
		return []string{"let y := " + pl + ";", "match y.G {", "    2 => { y.G = 9; }", "    _ => { y.G = 8; }", "}", "io::Println(y.G);"}
	}},
	{"closure_by_value_param", anyAgg, func(pl string, t ty) []string {
		return []string{"let f := fn(p: " + t.src() + ") -> i32 { " + t.writeAll("p") + " return " + t.leaves("p")[0] + "; };", "io::Println(f(" + pl + "));"}
	}},
}

type aliasKind struct {
	id    string
	types []ty
}

var aliasKinds = []aliasKind{
	{"const_local", []ty{tP, tA, tAP}},
	{"ref_param", []ty{tP, tA, tAP}},
	{"ref_param_second", []ty{tP}},
	{"ref_receiver", []ty{tP}},
	{"ref_local", []ty{tP, tA, tAP}},
	{"ref_local_field", []ty{tIn}},
	{"catch_var", []ty{tP}},
	{"const_in_closure", []ty{tP}},   // the const is captured by a function literal that makes the copy
	{"ref_param_forwarded", []ty{tP}}, // &T handed on to a second function that makes the copy
}

var aliasWraps = []string{"plain", "if", "while", "match"}

type aliasItem struct {
	id     string
	k      *aliasKind
	rt     ty
	p      path
	op     *aliasOp
	wrap   string
	feOK   bool
	feMsg  string
	status string
}

// fn renders the item as function(s) named item<n> plus the statements main runs.
func (it *aliasItem) render(n int) (top []string, mainStmts []string) {
	t := it.rt
	sfx := fmt.Sprint(n)
	pl := fmt.Sprintf(it.p.f, "x")
	body := wrapStmts(it.wrap, it.op.gen(pl, it.p.t), sfx)
	var pr []string
	for _, l := range t.leaves("x") {
		pr = append(pr, "io::Println("+l+");")
	}
	body = append(append(append([]string{}, pr...), body...), pr...)
	var ownerPr []string
	for _, l := range t.leaves("c") {
		ownerPr = append(ownerPr, "io::Println("+l+");")
	}
	fn := func(sig string, b []string) {
		top = append(top, sig+" {")
		top = append(top, indent(b, 1)...)
		top = append(top, "}")
	}
	mark := fmt.Sprintf("io::Println(\"#%d\");", n)
	switch it.k.id {
	case "const_local":
		fn("fn item"+sfx+"()", append([]string{fmt.Sprintf("const x: %s = %s;", t.src(), t.init())}, body...))
		mainStmts = []string{mark, "item" + sfx + "();"}
	case "const_in_closure":
		b := []string{fmt.Sprintf("const x: %s = %s;", t.src(), t.init()), "let lit := fn() {"}
		b = append(b, indent(body, 1)...)
		b = append(b, "};", "lit();")
		b = append(b, pr...)
		fn("fn item"+sfx+"()", b)
		mainStmts = []string{mark, "item" + sfx + "();"}
	case "ref_param":
		fn("fn item"+sfx+"(x: &"+t.src()+")", body)
		mainStmts = append([]string{mark, fmt.Sprintf("let c: %s = %s;", t.src(), t.init()), "item" + sfx + "(&c);"}, ownerPr...)
	case "ref_param_second":
		fn("fn item"+sfx+"(n: i32, x: &"+t.src()+")", body)
		mainStmts = append([]string{mark, fmt.Sprintf("let c: %s = %s;", t.src(), t.init()), "item" + sfx + "(0, &c);"}, ownerPr...)
	case "ref_param_forwarded":
		fn("fn item"+sfx+"(x: &"+t.src()+")", body)
		fn("fn fwd"+sfx+"(r: &"+t.src()+")", []string{"item" + sfx + "(r);"})
		mainStmts = append([]string{mark, fmt.Sprintf("let c: %s = %s;", t.src(), t.init()), "fwd" + sfx + "(&c);"}, ownerPr...)
	case "ref_receiver":
		fn("fn (x: &"+t.src()+") item"+sfx+"()", body)
		mainStmts = append([]string{mark, fmt.Sprintf("let c: %s = %s;", t.src(), t.init()), "c.item" + sfx + "();"}, ownerPr...)
	case "ref_local":
		b := []string{fmt.Sprintf("let c: %s = %s;", t.src(), t.init()), "let x: &" + t.src() + " = &c;"}
		b = append(append(b, body...), ownerPr...)
		fn("fn item"+sfx+"()", b)
		mainStmts = []string{mark, "item" + sfx + "();"}
	case "ref_local_field":
		b := []string{fmt.Sprintf("let c: P = %s;", initP), "let x: &In = &c.In;"}
		b = append(append(b, body...), "io::Println(c.In.G);")
		fn("fn item"+sfx+"()", b)
		mainStmts = []string{mark, "item" + sfx + "();"}
	case "catch_var":
		top = append(top, fmt.Sprintf("fn fe%s(a: i32) -> %s ! i32 {", sfx, t.src()), "    if a == 0 {", "        return "+t.init()+"!;", "    }", "    return a;", "}")
		b := []string{"let r := fe" + sfx + "(0) catch x {"}
		b = append(b, indent(body, 1)...)
		b = append(b, "} 0;", "io::Println(r);")
		fn("fn item"+sfx+"()", b)
		mainStmts = []string{mark, "item" + sfx + "();"}
	default:
		panic(it.k.id)
	}
	return
}

// expected lines of one item (after its marker): leaves, one op line (free), leaves [, owner leaves]
func (it *aliasItem) expect() (leaves []string, groups int) {
	var v []string
	switch it.rt {
	case tIn:
		v = []string{"2"}
	case tP:
		v = []string{"1", "2", "3", "4"}
	case tA:
		v = []string{"1", "2"}
	default:
		v = []string{"1", "2", "3", "5", "6", "7"}
	}
	switch it.k.id {
	case "const_local":
		return v, 2
	case "catch_var":
		return v, 2 // + the line of r, skipped below
	}
	return v, 3
}

func aliasProgram(items []*aliasItem) string {
	var b strings.Builder
	b.WriteString(aliasPrelude)
	var mainB []string
	for n, it := range items {
		top, ms := it.render(n)
		for _, l := range top {
			b.WriteString(l + "\n")
		}
		mainB = append(mainB, "{")
		mainB = append(mainB, indent(ms, 1)...)
		mainB = append(mainB, "}")
	}
	b.WriteString("fn main() {\n")
	for _, l := range indent(mainB, 1) {
		b.WriteString(l + "\n")
	}
	b.WriteString("}\n")
	return b.String()
}

// judge compares the lines printed for one item; "" = the value was unchanged.
func (it *aliasItem) judge(lines []string) string {
	v, groups := it.expect()
	n := len(v)
	want := groups*n + 1
	if it.k.id == "catch_var" {
		want++
	}
	if len(lines) != want {
		return fmt.Sprintf("printed %d lines, expected %d", len(lines), want)
	}
	seg := func(from int) string { return strings.Join(lines[from:from+n], " ") }
	init := strings.Join(v, " ")
	before, after := seg(0), seg(n+1)
	msg := ""
	if before != init {
		msg += "; before the operation: " + before
	}
	if after != init {
		msg += "; after the operation: " + after
	}
	if groups == 3 {
		if o := seg(2*n + 1); o != init {
			msg += "; through the owner afterwards: " + o
		}
	}
	if msg == "" {
		return ""
	}
	return "initial " + init + msg
}

func splitMarked(stdout string, n int) [][]string {
	out := make([][]string, n)
	cur := -1
	for _, l := range strings.Split(strings.TrimRight(stdout, "\n"), "\n") {
		if strings.HasPrefix(l, "#") {
			k := -1
			fmt.Sscanf(l, "#%d", &k)
			if k >= 0 && k < n {
				cur = k
				continue
			}
		}
		if cur >= 0 {
			out[cur] = append(out[cur], l)
		}
	}
	return out
}

func aliasEnumerate(quick bool) []*aliasItem {
	var l []*aliasItem
	for ki := range aliasKinds {
		k := &aliasKinds[ki]
		for _, t := range k.types {
			ps := paths(t)
			if t == tP {
				// an element path below an array-in-struct is of scalar type; add nothing
			}
			for _, p := range ps {
				if p.t == tI {
					continue
				}
				if quick && thoroughPaths[p.id] && p.id != "x.Arr" && p.id != "x[1]" && p.id != "x[1].In" {
					continue
				}
				for oi := range aliasOps {
					op := &aliasOps[oi]
					if !op.ok(p.t) {
						continue
					}
					for _, w := range aliasWraps {
						if quick && w != "plain" {
							continue
						}
						l = append(l, &aliasItem{id: fmt.Sprintf("C06/alias/%s/%s/%s/%s/%s", k.id, t.id(), p.id, op.id, w), k: k, rt: t, p: p, op: op, wrap: w})
					}
				}
			}
		}
	}
	return l
}

const aliasPack = 24

// runAlias explores the family; returns the number of judged programs points.
func runAlias(c *vl.Ctx, quick bool, compile func(string) fe.Result, getRunner func() *run.Runner) (int, map[string]any) {
	items := aliasEnumerate(quick)
	c.Count("alias_points", int64(len(items)))
	// 1. front end, every point on its own (an operation the language does not have is counted)
	vl.ParDo(len(items), 16, func(i int) {
		it := items[i]
		r := compile(aliasProgram([]*aliasItem{it}))
		if na := noAnswer(&r); na != "" {
			it.feMsg = "front end did not answer: " + na
			return
		}
		it.feOK = r.Success
		it.feMsg = r.ErrSummary()
	})
	byGroup := map[string][]*aliasItem{}
	var order []string
	rejectedOps := map[string]int{}
	for _, it := range items {
		if !it.feOK {
			rejectedOps[it.op.id+": "+firstMsg(it.feMsg)]++
			it.status = "rejected by the front end"
			continue
		}
		g := it.k.id + "/" + it.rt.id() + "/" + it.wrap
		if _, ok := byGroup[g]; !ok {
			order = append(order, g)
		}
		byGroup[g] = append(byGroup[g], it)
	}
	var packs [][]*aliasItem
	for _, g := range order {
		l := byGroup[g]
		for len(l) > 0 {
			n := aliasPack
			if n > len(l) {
				n = len(l)
			}
			packs = append(packs, l[:n])
			l = l[n:]
		}
	}
	rn := getRunner()
	if rn == nil {
		c.Count("alias_not_run_no_runner", int64(len(items)))
		return 0, nil
	}
	var mu sync.Mutex
	judged, changed, unavailable := 0, 0, 0
	opsJudged := map[string]int{}
	runPackOn := func(rn *run.Runner, l []*aliasItem) (res []string, detail string, ok bool) {
		src := aliasProgram(l)
		dir := rn.NewDir()
		defer os.RemoveAll(dir)
		run.WriteFiles(dir, map[string]string{"main.fer": src})
		c.Count("native_programs", 1)
		b := rn.CompileNative(dir, "main.fer")
		if !b.Compile.OK() || !b.Exists {
			return nil, "native compile failed: " + b.Compile.Term() + "\n" + firstLines(run.StripANSI(b.Compile.Stdout+b.Compile.Stderr), 12), false
		}
		p := rn.Exec(b)
		sp := splitMarked(p.Stdout, len(l))
		res = make([]string, len(l))
		for i, it := range l {
			res[i] = it.judge(sp[i])
		}
		return res, "termination: " + p.Term() + "\nstdout:\n" + p.Stdout, true
	}
	vl.ParDo(len(packs), 16, func(pi int) {
		l := packs[pi]
		if c.OverBudget() {
			c.Count("alias_skipped_tier_budget", int64(len(l)))
			return
		}
		res, _, ok := runPackOn(rn, l)
		for i, it := range l {
			if ok && res[i] == "" {
				mu.Lock()
				judged++
				opsJudged[it.op.id]++
				mu.Unlock()
				c.Distinct(it.id)
				it.status = "unchanged"
				continue
			}
			// on its own
			// on its own, by the ferret binary
			r1, d1, ok1 := runPackOn(rn.Real(), []*aliasItem{it})
			mu.Lock()
			if !ok1 {
				unavailable++
				it.status = "accepted by the front end, no native program: " + firstLines(d1, 2)
				mu.Unlock()
				continue
			}
			judged++
			opsJudged[it.op.id]++
			mu.Unlock()
			c.Distinct(it.id)
			if r1[0] == "" {
				it.status = "unchanged"
				continue
			}
			mu.Lock()
			changed++
			mu.Unlock()
			it.status = "CHANGED"
			c.Outcome("accepted program without a mutation of the place, value seen through the immutable binding changed")
			c.Fail(vl.Fail{Case: it.id,
				Obs:   "accepted program (no mutation of the immutable place, only of a by-value copy) changes the value seen through the immutable binding: " + r1[0],
				Files: map[string]string{"main.fer": aliasProgram([]*aliasItem{it}), "native_run.txt": d1 + "\n"},
				Note:  strings.Join(it.op.gen(fmt.Sprintf(it.p.f, "x"), it.p.t), " ")})
		}
	})
	c.Count("alias_judged_native", int64(judged))
	c.Count("alias_rejected_by_front_end", int64(len(items)-func() int {
		n := 0
		for _, it := range items {
			if it.feOK {
				n++
			}
		}
		return n
	}()))
	c.Count("alias_no_native_program", int64(unavailable))
	if judged > 0 {
		c.Outcome("accepted copy-and-write program, value seen through the immutable binding unchanged")
	}
	var rj []string
	for k, n := range rejectedOps {
		rj = append(rj, fmt.Sprintf("%s x%d", k, n))
	}
	sort.Strings(rj)
	extra := map[string]any{"alias_ops_judged": opsJudged, "alias_ops_rejected_by_front_end": rj}
	if unavailable > 0 {
		for _, it := range items {
			if strings.HasPrefix(it.status, "accepted by the front end, no native") {
				dbg("ALIAS %s: %s", it.id, it.status)
				if d := os.Getenv("VERIF_C06_DUMP"); d != "" {
					os.WriteFile(d+"/"+strings.ReplaceAll(it.id, "/", "_")+".fer", []byte(aliasProgram([]*aliasItem{it})), 0o644)
				}
			}
		}
	}
	return judged, extra
}
