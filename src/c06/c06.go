// Package c06: immutable bindings cannot be modified.
//
// Bounded-exhaustive product
//
//	place kind x root type x access path x mutation form x context
//
// Every point is a MUTANT program (the mutation is applied to a place reached through an
// immutable binding) and a CONTROL twin that differs in the declaration only (`let` for
// `const`, `&'T` for `&T`; for loop-index / catch variables the twin mutates a plain `let`
// copy that both programs declare). Oracle: the control is accepted by the front end, the
// mutant is rejected with at least one error diagnostic. A mutant that is wrongly accepted is
// additionally compiled and run natively; the program prints the scalar leaves seen through
// the immutable binding before and after the mutation and both are put into the replay files
// (the Obs carries the deterministic classification changed / unchanged / not runnable).
//
// Evaluation strategy (a filter only, every verdict that is reported is re-decided on a
// program of its own or on an accepted program that contains it):
//  1. per group (kind, root type, context) one CONTROL PACK with the control statement of every
//     (path, mutation) item and one MUTANT PACK with every mutant statement, one item per line
//     range. An accepted control pack settles all its controls (every single control is a
//     sub-program of an accepted program); a rejected one is re-decided item by item.
//  2. items of the mutant pack whose lines carry one of the mutability diagnostics are rejected.
//     All other items go into a SURVIVOR PACK (only the un-diagnosed mutations); if that program
//     is accepted as a whole, it is itself an accepted program that performs every one of these
//     mutations - each item is a violation; otherwise the items are decided one by one.
//  3. one representative per failure class (kind, type, path, mutation) - the simplest context -
//     is compiled alone (front end again). Native observation: one accepted mutant per class
//     (quick) / per class and syntactic wrapper (thorough), several per native program with the
//     leaves printed around every mutation; the other cases of the class point to that case.
//     (Design: "any accepted mutant is run" - a native compile costs seconds on the shared
//     machine and the defect classes hold thousands of context variants of the same statement.)
//
// Deviations from DESIGN.md "### C06" (all forced by what the pinned compiler accepts):
//   - `for i, v in <fixed array>` is rejected by MIR lowering ("unsupported: array index") even
//     in well-formed programs, so the index-variable kind iterates a dynamic array and a typed
//     range instead. A map key (`for k, v in map`) is explored and counted but not judged: the
//     statement speaks of the "index variable".
//   - Module-level `const`/`let` cannot be read by any accepted program ("MIR lowering
//     unsupported: identifier g"), so module-level places are explored write-only (no printing,
//     no native run) for the assignment-like mutation forms.
//   - `&'r` where r is itself a reference is "reference of a reference" for mutable references
//     too, so on the root path of a `&T` place the two borrow forms are spelt the way the
//     language spells a reborrow: `let m: &'T = r;` and `bump(r)`.
//   - ++/-- exist as statements and as prefix/postfix *expressions* (two different code paths:
//     checkAssignStmt and checkIncDecTarget); both positions are enumerated.
//   - extra access paths beyond the seven of the design: a fixed array inside a struct
//     (x.Arr[0]), (x).F, (x.In).G, (x)[0], x[1].Arr[0]; extra kinds: `&T` local referring to a
//     field / an element, `&T` as second parameter; extra context: function literal that
//     CAPTURES the place (besides the literal that declares it / takes it as its parameter).
//   - cost: the design's "one compile per mutant" is replaced by the pack strategy above (the
//     machine is shared and gives ~50 compiles/s under load).
package c06

import (
	"fmt"
	"os"
	"path/filepath"
	"sort"
	"strconv"
	"strings"
	"sync"
	"time"

	"compiler/verifh/fe"
	"compiler/verifh/run"
	"compiler/verifh/vl"
)

// ---------------------------------------------------------------------------------------
// value types of places

type ty int

const (
	tI ty = iota
	tIn
	tP
	tA
	tAP
)

const (
	initIn = "{ .G = 2 }"
	initP  = "{ .F = 1, .In = { .G = 2 }, .Arr = [3, 4] }"
	initP2 = "{ .F = 5, .In = { .G = 6 }, .Arr = [7, 8] }"
)

func (t ty) src() string { return [...]string{"i32", "In", "P", "[2]i32", "[2]P"}[t] }
func (t ty) id() string  { return [...]string{"i32", "In", "P", "arr", "arrP"}[t] }
func (t ty) init() string {
	return [...]string{"1", initIn, initP, "[1, 2]", "[" + initP + ", " + initP2 + "]"}[t]
}

// newVal is the value written by the plain `=` mutation (differs from init in every leaf).
func (t ty) newVal() string {
	return [...]string{"40", "{ .G = 41 }", "{ .F = 42, .In = { .G = 43 }, .Arr = [44, 45] }", "[46, 47]",
		"[{ .F = 50, .In = { .G = 51 }, .Arr = [52, 53] }, { .F = 54, .In = { .G = 55 }, .Arr = [56, 57] }]"}[t]
}
func (t ty) bump() string { return "bump_" + t.id() }

// writeThrough is a write through a mutable reference m to a value of type t.
func (t ty) writeThrough(m string) string {
	switch t {
	case tI:
		return m + " = 9;"
	case tIn:
		return m + ".G = 9;"
	case tP:
		return m + ".F = 9;"
	case tA:
		return m + "[0] = 9;"
	default:
		return m + "[0].F = 9;"
	}
}

// leaves are the scalar components printed before/after the mutation.
func (t ty) leaves(x string) []string {
	switch t {
	case tI:
		return []string{x}
	case tIn:
		return []string{x + ".G"}
	case tP:
		return []string{x + ".F", x + ".In.G", x + ".Arr[0]", x + ".Arr[1]"}
	case tA:
		return []string{x + "[0]", x + "[1]"}
	default:
		return []string{x + "[0].F", x + "[0].In.G", x + "[0].Arr[0]", x + "[1].F", x + "[1].In.G", x + "[1].Arr[0]"}
	}
}

// ---------------------------------------------------------------------------------------
// access paths

type path struct {
	id   string // stable id, also the spelling with root "x"
	f    string // format with one %s for the root name
	t    ty     // type of the place
	root bool   // the place is the binding itself (x or (x))
}

// thoroughPaths are enumerated in the thorough tier only (the quick tier keeps the seven path
// shapes of the design plus the array-in-struct path).
var thoroughPaths = map[string]bool{"(x).F": true, "(x.In).G": true, "(x.In.G)": true, "x.Arr": true, "(x)[0]": true,
	"x[1]": true, "(x[0])": true, "(x[0]).F": true, "x[1].In": true}

// thoroughMuts / thoroughKinds likewise.
var thoroughMuts = map[string]bool{"div_assign": true, "mod_assign": true, "pre_dec": true, "post_dec": true}
var thoroughKinds = map[string]bool{"ref_param_second": true, "ref_local_elem": true, "const_global": true}

func paths(t ty) []path {
	switch t {
	case tI:
		return []path{{"x", "%s", tI, true}, {"(x)", "(%s)", tI, true}}
	case tIn:
		return []path{{"x", "%s", tIn, true}, {"x.G", "%s.G", tI, false}, {"(x.G)", "(%s.G)", tI, false}}
	case tP:
		return []path{
			{"x", "%s", tP, true}, {"(x)", "(%s)", tP, true},
			{"x.F", "%s.F", tI, false}, {"(x.F)", "(%s.F)", tI, false}, {"(x).F", "(%s).F", tI, false},
			{"x.In", "%s.In", tIn, false}, {"x.In.G", "%s.In.G", tI, false},
			{"(x.In).G", "(%s.In).G", tI, false}, {"(x.In.G)", "(%s.In.G)", tI, false},
			{"x.Arr", "%s.Arr", tA, false}, {"x.Arr[0]", "%s.Arr[0]", tI, false},
		}
	case tA:
		return []path{
			{"x", "%s", tA, true}, {"(x)", "(%s)", tA, true},
			{"x[0]", "%s[0]", tI, false}, {"(x[0])", "(%s[0])", tI, false}, {"(x)[0]", "(%s)[0]", tI, false},
			{"x[1]", "%s[1]", tI, false},
		}
	default:
		return []path{
			{"x", "%s", tAP, true},
			{"x[0]", "%s[0]", tP, false}, {"(x[0])", "(%s[0])", tP, false},
			{"x[0].F", "%s[0].F", tI, false}, {"(x[0].F)", "(%s[0].F)", tI, false}, {"(x[0]).F", "(%s[0]).F", tI, false},
			{"x[1].In", "%s[1].In", tIn, false}, {"x[0].In.G", "%s[0].In.G", tI, false},
			{"x[1].Arr[0]", "%s[1].Arr[0]", tI, false},
		}
	}
}

// ---------------------------------------------------------------------------------------
// mutation forms; sfx makes the helper names of an item unique inside a pack

type mut struct {
	id     string
	scalar bool // applies to i32 places only
	method bool // applies to P / In places only
	write  bool // assignment-like (usable on write-only module-level places)
	prints int  // lines the form prints itself
	gen    func(pl string, t ty, refRoot bool, sfx string) []string
}

func opAssign(op, v string) func(string, ty, bool, string) []string {
	return func(pl string, t ty, _ bool, _ string) []string { return []string{pl + " " + op + " " + v + ";"} }
}

var muts = []mut{
	{id: "assign", write: true, gen: func(pl string, t ty, _ bool, _ string) []string { return []string{pl + " = " + t.newVal() + ";"} }},
	{id: "add_assign", scalar: true, write: true, gen: opAssign("+=", "3")},
	{id: "sub_assign", scalar: true, write: true, gen: opAssign("-=", "3")},
	{id: "mul_assign", scalar: true, write: true, gen: opAssign("*=", "3")},
	{id: "div_assign", scalar: true, write: true, gen: opAssign("/=", "3")},
	{id: "mod_assign", scalar: true, write: true, gen: opAssign("%=", "3")},
	{id: "post_inc", scalar: true, write: true, gen: func(pl string, _ ty, _ bool, _ string) []string { return []string{pl + "++;"} }},
	{id: "post_dec", scalar: true, write: true, gen: func(pl string, _ ty, _ bool, _ string) []string { return []string{pl + "--;"} }},
	{id: "pre_inc", scalar: true, write: true, gen: func(pl string, _ ty, _ bool, _ string) []string { return []string{"++" + pl + ";"} }},
	{id: "pre_dec", scalar: true, write: true, gen: func(pl string, _ ty, _ bool, _ string) []string { return []string{"--" + pl + ";"} }},
	{id: "post_inc_expr", scalar: true, prints: 1, gen: func(pl string, _ ty, _ bool, s string) []string {
		return []string{"let y" + s + ": i32 = " + pl + "++;", "io::Println(y" + s + ");"}
	}},
	{id: "pre_dec_expr", scalar: true, prints: 1, gen: func(pl string, _ ty, _ bool, s string) []string {
		return []string{"let y" + s + ": i32 = --" + pl + ";", "io::Println(y" + s + ");"}
	}},
	{id: "borrow_mut", gen: func(pl string, t ty, refRoot bool, s string) []string {
		b := "&'" + pl
		if refRoot {
			b = pl
		}
		return []string{"let m" + s + ": &'" + t.src() + " = " + b + ";", t.writeThrough("m" + s)}
	}},
	{id: "pass_mut", gen: func(pl string, t ty, refRoot bool, _ string) []string {
		b := "&'" + pl
		if refRoot {
			b = pl
		}
		return []string{t.bump() + "(" + b + ");"}
	}},
	// routes by which a mutable reference could be obtained from the place without `&'` appearing
	// on it directly: a cast, a struct field of type &'T, an array element of type &'T
	{id: "cast_mut", gen: func(pl string, t ty, refRoot bool, s string) []string {
		b := "&" + pl
		if refRoot {
			b = pl
		}
		return []string{"let m" + s + ": &'" + t.src() + " = " + b + " as &'" + t.src() + ";", t.writeThrough("m" + s)}
	}},
	{id: "field_mut", gen: func(pl string, t ty, refRoot bool, s string) []string {
		b := "&" + pl
		if refRoot {
			b = pl
		}
		return []string{"let h" + s + " := { .R = " + b + " } as H_" + t.id() + ";", t.writeThrough("h" + s + ".R")}
	}},
	{id: "elem_mut", gen: func(pl string, t ty, refRoot bool, s string) []string {
		b := "&" + pl
		if refRoot {
			b = pl
		}
		return []string{"let e" + s + ": [1]&'" + t.src() + " = [" + b + "];", t.writeThrough("e" + s + "[0]")}
	}},
	{id: "method_mut", method: true, gen: func(pl string, _ ty, _ bool, _ string) []string { return []string{pl + ".inc();"} }},
}

func (m *mut) applies(t ty) bool {
	if m.scalar {
		return t == tI
	}
	if m.method {
		return t == tP || t == tIn
	}
	return true
}

// ---------------------------------------------------------------------------------------
// place kinds

type kind struct {
	id     string
	types  []ty
	ref    bool // the binding is a reference (&T); the root path writes through it
	judged bool
	global bool // module-level place: write-only programs
}

var kinds = []kind{
	{id: "const_local", types: []ty{tI, tP, tA, tAP}, judged: true},
	{id: "loop_index_array", types: []ty{tI}, judged: true},
	{id: "loop_index_range", types: []ty{tI}, judged: true},
	// the second loop variable blank, a string, a dynamic array variable
	{id: "loop_index_blank", types: []ty{tI}, judged: true},
	{id: "loop_index_str", types: []ty{tI}, judged: true},
	{id: "loop_index_dyn", types: []ty{tI}, judged: true},
	{id: "loop_key_map", types: []ty{tI}, judged: false},
	{id: "catch_var", types: []ty{tI, tP}, judged: true},
	{id: "ref_param", types: []ty{tI, tP, tA, tAP}, ref: true, judged: true},
	{id: "ref_receiver", types: []ty{tP}, ref: true, judged: true},
	{id: "ref_local", types: []ty{tI, tP, tA, tAP}, ref: true, judged: true},
	// a `&T` local that refers to a component of a mutable struct / to an array element,
	// a `&T` parameter in second position, module-level constants
	{id: "ref_local_field", types: []ty{tI, tIn}, ref: true, judged: true},
	{id: "ref_local_elem", types: []ty{tI}, ref: true, judged: true},
	{id: "ref_param_second", types: []ty{tI, tP}, ref: true, judged: true},
	// a `&H` parameter whose field R is a `&'T`: what lies behind R is reached through an immutable
	// reference and is immutable on that path (the twin's parameter is `&'H`)
	{id: "ref_param_holder", types: []ty{tP, tAP}, ref: true, judged: true},
	{id: "const_global", types: []ty{tI, tP}, judged: true, global: true},
}

func (k *kind) copyKind() bool { return strings.HasPrefix(k.id, "loop_") || k.id == "catch_var" }

// ---------------------------------------------------------------------------------------
// contexts

type ctx struct {
	enc  string // fn | method | lit | cap
	wrap string // plain | while | for | match | block | if | else | nested
}

func (c ctx) id() string { return c.enc + "." + c.wrap }

var quickCtx = []ctx{{"fn", "plain"}, {"method", "plain"}, {"lit", "plain"}, {"cap", "plain"},
	{"fn", "while"}, {"fn", "for"}, {"fn", "match"}, {"fn", "block"}}

var allWraps = []string{"plain", "while", "for", "match", "block", "if", "else", "nested"}

func contexts(k *kind, quick bool) []ctx {
	var l []ctx
	if quick {
		l = append(l, quickCtx...)
	} else {
		for _, w := range allWraps {
			for _, e := range []string{"fn", "method", "lit", "cap"} {
				l = append(l, ctx{e, w})
			}
		}
	}
	seen := map[ctx]bool{}
	var out []ctx
	for _, c := range l {
		if k.id == "ref_receiver" {
			// the receiver exists only in a method: fn -> method; a literal cannot declare it
			if c.enc == "fn" {
				c.enc = "method"
			}
			if c.enc == "lit" {
				continue
			}
		}
		if k.global && c.enc == "cap" {
			continue // same program as "lit"
		}
		if !seen[c] {
			seen[c] = true
			out = append(out, c)
		}
	}
	return out
}

func indent(l []string, n int) []string {
	o := make([]string, len(l))
	for i, s := range l {
		o[i] = strings.Repeat("    ", n) + s
	}
	return o
}

// wrapStmts puts the mutation statements into the syntactic context w (each body runs once).
func wrapStmts(w string, inner []string, s string) []string {
	var o []string
	switch w {
	case "plain":
		return inner
	case "while":
		o = append(o, "let w"+s+": i32 = 0;", "while w"+s+" < 1 {", "    w"+s+" += 1;")
		o = append(o, indent(inner, 1)...)
		o = append(o, "}")
	case "for":
		o = append(o, "let itw"+s+" := [0];", "for vw"+s+" in itw"+s+" {", "    io::Println(vw"+s+");")
		o = append(o, indent(inner, 1)...)
		o = append(o, "}")
	case "match":
		o = append(o, "let k"+s+": i32 = 0;", "match k"+s+" {", "    0 => {")
		o = append(o, indent(inner, 2)...)
		o = append(o, "    }", "    _ => { }", "}")
	case "block":
		o = append(o, "{")
		o = append(o, indent(inner, 1)...)
		o = append(o, "}")
	case "if":
		o = append(o, "let k"+s+": i32 = 0;", "if k"+s+" == 0 {")
		o = append(o, indent(inner, 1)...)
		o = append(o, "}")
	case "else":
		o = append(o, "let k"+s+": i32 = 0;", "if k"+s+" != 0 {", "    io::Println(k"+s+");", "} else {")
		o = append(o, indent(inner, 1)...)
		o = append(o, "}")
	case "nested":
		o = append(o, "let k"+s+": i32 = 0;", "let w"+s+": i32 = 0;", "{", "    while w"+s+" < 1 {", "        w"+s+" += 1;",
			"        match k"+s+" {", "            0 => {", "                if w"+s+" == 1 {")
		o = append(o, indent(inner, 5)...)
		o = append(o, "                }", "            }", "            _ => { }", "        }", "    }", "}")
	default:
		panic(w)
	}
	return o
}

// ---------------------------------------------------------------------------------------
// programs

type item struct {
	p  path
	m  *mut
	id string
	// verdicts
	ctlDone, ctlOK bool
	ctlMsg         string
	mutDone, mutOK bool // mutOK: accepted
	mutMsg         string
	mutNoDiag      bool
	via            string // how the mutant verdict was reached: pack | survivors | single
	accProg        string // the accepted program that contains the mutation
	packOnly       string // the single-mutation program of a class representative was rejected
	// native observation
	native, nativeDetail, nativeProg string
}

type group struct {
	k     *kind
	rt    ty
	c     ctx
	items []*item
}

const prelude = `import "std/io";
type In struct { .G: i32 };
type P struct { .F: i32, .In: In, .Arr: [2]i32 };
type S struct { .Z: i32 };
fn bump_i32(p: &'i32) { p += 1; }
fn bump_In(p: &'In) { p.G += 1; }
fn bump_P(p: &'P) { p.F += 1; }
fn bump_arr(p: &'[2]i32) { p[0] += 1; }
fn bump_arrP(p: &'[2]P) { p[0].F += 1; }
fn (p: &'P) inc() { p.F += 1; }
fn (p: &'In) inc() { p.G += 1; }
type H_i32 struct { .R: &'i32 };
type H_In struct { .R: &'In };
type H_P struct { .R: &'P };
type H_arr struct { .R: &'[2]i32 };
type H_arrP struct { .R: &'[2]P };`

func refTy(t ty, control bool) string {
	if control {
		return "&'" + t.src()
	}
	return "&" + t.src()
}
func refOf(e string, control bool) string {
	if control {
		return "&'" + e
	}
	return "&" + e
}

type line struct {
	s     string
	owner int // index into sel, -1 = scaffolding
}

// render builds the program that applies the items sel (indices into g.items) to the place:
// the mutant (control=false) or the control twin. prints surrounds every item with the printing
// of the leaves seen through the binding. spans[i] = first/last line (1-based) of item sel[i].
func (g *group) render(sel []int, control, prints bool) (string, [][2]int) {
	kd, t := g.k, g.rt
	target := "x"
	if kd.copyKind() && control {
		target = "j"
	}
	if kd.id == "ref_param_holder" {
		target = "x.R"
	}
	var inner []line
	var pr []string
	if prints && !kd.global {
		for _, l := range t.leaves(target) {
			pr = append(pr, "io::Println("+l+");")
		}
	}
	for si, ii := range sel {
		it := g.items[ii]
		sfx := ""
		if len(sel) > 1 {
			sfx = fmt.Sprint(si)
		}
		pl := fmt.Sprintf(it.p.f, target)
		st := wrapStmts(g.c.wrap, it.m.gen(pl, it.p.t, kd.ref && it.p.root, sfx), sfx)
		if len(pr) > 0 {
			// leaves before and after every item (inside the capturing literal for "cap")
			st = append(append(append([]string{}, pr...), st...), pr...)
		}
		if g.c.enc == "cap" {
			st = append(append([]string{"let lit" + sfx + " := fn() {"}, indent(st, 1)...), "};", "lit"+sfx+"();")
		}
		for _, s := range st {
			inner = append(inner, line{s, si})
		}
	}

	var top, pre, open, cls, mainPre []string
	var params, args string
	decl := "const"
	if control {
		decl = "let"
	}
	switch kd.id {
	case "const_local":
		pre = append(pre, fmt.Sprintf("%s x: %s = %s;", decl, t.src(), t.init()))
	case "const_global":
		top = append(top, fmt.Sprintf("%s x: %s = %s;", decl, t.src(), t.init()))
	case "loop_index_array":
		open = []string{"let it := [7];", "for x, v in it {", "    io::Println(v);", "    let j := x;", "    io::Println(j);"}
		cls = []string{"}"}
	case "loop_index_blank":
		open = []string{"let it := [7];", "for x, _ in it {", "    io::Println(7);", "    let j := x;", "    io::Println(j);"}
		cls = []string{"}"}
	case "loop_index_str":
		open = []string{"let it: str = \"a\";", "for x, v in it {", "    io::Println(7);", "    let j := x;", "    io::Println(j);"}
		cls = []string{"}"}
	case "loop_index_dyn":
		open = []string{"let it: []i32 = [7];", "for x, v in it {", "    io::Println(v);", "    let j := x;", "    io::Println(j);"}
		cls = []string{"}"}
	case "loop_index_range":
		open = []string{"let lo: i32 = 0;", "let hi: i32 = 1;", "for x, v in lo..hi {", "    io::Println(v);", "    let j := x;", "    io::Println(j);"}
		cls = []string{"}"}
	case "loop_key_map":
		open = []string{"let mp := { 1 => 10 } as map[i32]i32;", "for x, v in mp {", "    io::Println(v);", "    let j := x;", "    io::Println(j);"}
		cls = []string{"}"}
	case "catch_var":
		top = append(top, fmt.Sprintf("fn fe(a: i32) -> %s ! i32 {", t.src()), "    if a == 0 {", "        return "+t.init()+"!;", "    }", "    return a;", "}")
		open = []string{"let r := fe(0) catch x {", "    let j := x;", "    io::Println(" + t.leaves("j")[0] + ");"}
		cls = []string{"} 0;", "io::Println(r);"}
	case "ref_param":
		params, args = "x: "+refTy(t, control), refOf("c", control)
		mainPre = append(mainPre, fmt.Sprintf("let c: %s = %s;", t.src(), t.init()))
	case "ref_param_holder":
		params, args = "x: "+refOf("", control)+"H_"+t.id(), refOf("hh", control)
		mainPre = append(mainPre, fmt.Sprintf("let c: %s = %s;", t.src(), t.init()), fmt.Sprintf("let hh: H_%s = { .R = &'c };", t.id()))
	case "ref_param_second":
		params, args = "n: i32, x: "+refTy(t, control), "0, "+refOf("c", control)
		mainPre = append(mainPre, fmt.Sprintf("let c: %s = %s;", t.src(), t.init()))
	case "ref_receiver":
		mainPre = append(mainPre, fmt.Sprintf("let c: %s = %s;", t.src(), t.init()))
	case "ref_local":
		pre = append(pre, fmt.Sprintf("let c: %s = %s;", t.src(), t.init()),
			fmt.Sprintf("let x: %s = %s;", refTy(t, control), refOf("c", control)))
	case "ref_local_field":
		sub := "c.F"
		if t == tIn {
			sub = "c.In"
		}
		pre = append(pre, fmt.Sprintf("let c: P = %s;", initP),
			fmt.Sprintf("let x: %s = %s;", refTy(t, control), refOf(sub, control)))
	case "ref_local_elem":
		pre = append(pre, "let c: [2]i32 = [1, 2];",
			fmt.Sprintf("let x: %s = %s;", refTy(t, control), refOf("c[0]", control)))
	default:
		panic(kd.id)
	}

	var out []line
	add := func(n int, l ...string) {
		for _, s := range l {
			out = append(out, line{strings.Repeat("    ", n) + s, -1})
		}
	}
	addBody := func(n int) {
		add(n, pre...)
		add(n, open...)
		for _, l := range inner {
			k := n
			if len(open) > 0 {
				k++
			}
			out = append(out, line{strings.Repeat("    ", k) + l.s, l.owner})
		}
		add(n, cls...)
	}
	add(0, strings.Split(prelude, "\n")...)
	add(0, top...)
	enc := g.c.enc
	if enc == "cap" {
		enc = "fn"
	}
	switch {
	case kd.id == "ref_receiver":
		add(0, fmt.Sprintf("fn (x: %s) host() {", refTy(t, control)))
		addBody(1)
		add(0, "}", "fn main() {")
		add(1, mainPre...)
		add(1, "c.host();")
		add(0, "}")
	case enc == "fn":
		add(0, fmt.Sprintf("fn host(%s) {", params))
		addBody(1)
		add(0, "}", "fn main() {")
		add(1, mainPre...)
		add(1, "host("+args+");")
		add(0, "}")
	case enc == "method":
		add(0, fmt.Sprintf("fn (s: S) host(%s) {", params))
		addBody(1)
		add(0, "}", "fn main() {")
		add(1, mainPre...)
		add(1, "let s: S = { .Z = 0 };", "s.host("+args+");")
		add(0, "}")
	case enc == "lit":
		add(0, "fn main() {")
		add(1, mainPre...)
		add(1, fmt.Sprintf("let host := fn(%s) {", params))
		addBody(2)
		add(1, "};", "host("+args+");")
		add(0, "}")
	default:
		panic(enc)
	}
	spans := make([][2]int, len(sel))
	var b strings.Builder
	for i, l := range out {
		b.WriteString(l.s)
		b.WriteByte('\n')
		if l.owner >= 0 {
			if spans[l.owner][0] == 0 {
				spans[l.owner][0] = i + 1
			}
			spans[l.owner][1] = i + 1
		}
	}
	return b.String(), spans
}

func (g *group) single(i int, control bool) string {
	s, _ := g.render([]int{i}, control, true)
	return s
}

// ---------------------------------------------------------------------------------------

var packSize = func() int {
	if v, err := strconv.Atoi(os.Getenv("VERIF_PACK")); err == nil && v > 0 {
		return v
	}
	return 6
}()

func enumerate(quick bool) []*group {
	var l []*group
	for ki := range kinds {
		k := &kinds[ki]
		if quick && thoroughKinds[k.id] {
			continue
		}
		for _, t := range k.types {
			for _, c := range contexts(k, quick) {
				g := &group{k: k, rt: t, c: c}
				for _, p := range paths(t) {
					if quick && thoroughPaths[p.id] && !(t == tA && p.id == "(x[0])") {
						continue
					}
					for mi := range muts {
						m := &muts[mi]
						if quick && thoroughMuts[m.id] {
							continue
						}
						if !m.applies(p.t) || (k.global && !m.write) {
							continue
						}
						if (m.id == "cast_mut" || m.id == "field_mut" || m.id == "elem_mut") && !(k.ref && p.root) {
							continue // only where the place itself is a reference binding (the twin's is &'T)
						}
						if k.id == "ref_param_holder" && p.root {
							continue // `x.R = v` could also mean re-seating the field: the paths below R are unambiguous
						}
						if strings.HasPrefix(k.id, "ref_local") && p.root && m.id == "borrow_mut" && c.enc != "cap" {
							// not typed: `let x: &'T = &'c; let m: &'T = x;` is a second mutable borrow of c
							// for the borrow checker (the control is rejected), except through a capture
							continue
						}
						id := fmt.Sprintf("C06/%s/%s/%s/%s/%s", k.id, t.id(), p.id, m.id, c.id())
						if f := os.Getenv("VERIF_FILTER"); f != "" && !strings.Contains(id, f) {
							continue
						}
						g.items = append(g.items, &item{p: p, m: m, id: id})
					}
				}
				// the front end is super-linear in the number of statements of a function:
				// keep packs small
				for len(g.items) > 0 {
					n := packSize
					if n > len(g.items) {
						n = len(g.items)
					}
					l = append(l, &group{k: k, rt: t, c: c, items: g.items[:n]})
					g.items = g.items[n:]
				}
			}
		}
	}
	return l
}

func clsOf(g *group, it *item) string {
	return fmt.Sprintf("%s %s %s %s", g.k.id, g.rt.id(), it.p.id, it.m.id)
}

func allIdx(g *group) []int {
	s := make([]int, len(g.items))
	for i := range s {
		s[i] = i
	}
	return s
}

const nativePack = 16

var t0 = time.Now()

func dbg(f string, a ...any) {
	if os.Getenv("VERIF_DEBUG") != "" {
		fmt.Fprintf(os.Stderr, "[%6.1fs] "+f+"\n", append([]any{time.Since(t0).Seconds()}, a...)...)
	}
}

func isMutabilityDiag(d fe.Diag) bool {
	return d.Code == "T0007" || d.Code == "T0004" || strings.Contains(d.Msg, "cannot use type '&")
}

func noAnswer(r *fe.Result) string {
	if r.Panic != "" || r.Timeout || r.Crash != "" {
		return fmt.Sprintf("panic=%q frame=%s timeout=%v crash=%q", r.Panic, r.PanicFrame, r.Timeout, r.Crash)
	}
	return ""
}

func Run(c *vl.Ctx) {
	quick := c.Quick()
	if quick {
		c.SetBudget(300 * time.Second)
	} else {
		c.SetBudget(1500 * time.Second)
	}
	groups := enumerate(quick)
	nItems := 0
	for _, g := range groups {
		nItems += len(g.items)
	}
	c.Count("mutants", int64(nItems))
	c.Count("groups", int64(len(groups)))
	pool := fe.NewPool(c.W, filepath.Join(c.Repo, "ferret_libs"), 16)
	defer pool.Close()
	var compiles int64
	var cmu sync.Mutex
	compile := func(src string) fe.Result {
		cmu.Lock()
		compiles++
		cmu.Unlock()
		st := time.Now()
		r := pool.Do(&fe.Project{Files: map[string]string{"main.fer": src}, Entry: "main.fer", Mode: "check", NoRender: true})
		if d := time.Since(st); d > 3*time.Second {
			dbg("slow compile %.1fs (%d bytes)", d.Seconds(), len(src))
		}
		return r
	}
	all := allIdx
	fail := func(f vl.Fail) { c.Fail(f) }
	// the real compiler + runtime are built (in the background) as soon as the first mutant is
	// found to be accepted; nothing is built on a tree without violations
	rnReady := make(chan *run.Runner, 1)
	var rnOnce sync.Once
	needRunner := func() { rnOnce.Do(func() { go func() { rnReady <- run.New(c) }() }) }

	singleControl := func(g *group, i int) {
		it := g.items[i]
		src := g.single(i, true)
		r := compile(src)
		it.ctlDone = true
		if na := noAnswer(&r); na != "" {
			it.ctlMsg = "front end did not answer: " + na
			return
		}
		it.ctlOK = r.Success
		it.ctlMsg = r.ErrSummary()
	}
	singleMutant := func(g *group, i int) {
		it := g.items[i]
		src := g.single(i, false)
		r := compile(src)
		it.mutDone = true
		it.via = "single"
		if na := noAnswer(&r); na != "" {
			it.mutMsg = "front end did not answer: " + na
			it.mutNoDiag = true
			return
		}
		it.mutOK = r.Success
		it.mutMsg = r.ErrSummary()
		it.mutNoDiag = !r.Success && len(r.Errors()) == 0
		if r.Success {
			it.accProg = src
			if !g.k.global && g.k.judged {
				needRunner()
			}
		}
	}

	// the copy-and-write family (accepted programs, native observation) runs beside the
	// front-end product; it needs the real compiler and runtime
	var aliasJudged int
	var aliasExtra map[string]any
	aliasDone := make(chan bool)
	go func() {
		defer close(aliasDone)
		if os.Getenv("VERIF_C06_NOALIAS") != "" {
			return
		}
		aliasJudged, aliasExtra = runAlias(c, quick, compile, func() *run.Runner {
			needRunner()
			rn := <-rnReady
			rnReady <- rn
			return rn
		})
	}()

	vl.ParDo(len(groups), 16, func(gi int) {
		g := groups[gi]
		if c.OverBudget() {
			return
		}
		// 1. controls
		src, _ := g.render(all(g), true, false)
		r := compile(src)
		if noAnswer(&r) == "" && r.Success {
			for _, it := range g.items {
				it.ctlDone, it.ctlOK = true, true
			}
			c.Count("control_packs_accepted", 1)
		} else {
			c.Count("control_packs_redecided_item_by_item", 1)
			for i := range g.items {
				singleControl(g, i)
			}
		}
		// 2. mutants
		src, spans := g.render(all(g), false, false)
		r = compile(src)
		var survivors []int
		if noAnswer(&r) != "" {
			survivors = all(g)
		} else {
			hit := make([]bool, len(g.items))
			msg := make([]string, len(g.items))
			unmapped := false
			for _, d := range r.Errors() {
				found := false
				for i, sp := range spans {
					if d.Line >= sp[0] && d.Line <= sp[1] {
						found = true
						if isMutabilityDiag(d) {
							hit[i] = true
							if msg[i] == "" {
								msg[i] = d.Code + ":" + d.Msg
							}
						}
					}
				}
				if !found {
					unmapped = true
				}
			}
			for i, it := range g.items {
				if hit[i] && !unmapped {
					it.mutDone, it.mutOK, it.mutMsg, it.via = true, false, msg[i], "pack"
				} else {
					survivors = append(survivors, i)
				}
			}
		}
		if len(survivors) == 0 {
			return
		}
		// 3. survivors together, then one by one if the survivor pack is not accepted
		if len(survivors) > 1 {
			src, _ = g.render(survivors, false, false)
			r = compile(src)
			if noAnswer(&r) == "" && r.Success {
				for _, i := range survivors {
					it := g.items[i]
					it.mutDone, it.mutOK, it.via, it.accProg = true, true, "survivors", src
				}
				if !g.k.global && g.k.judged {
					needRunner()
				}
				return
			}
		}
		for _, i := range survivors {
			singleMutant(g, i)
		}
	})

	dbg("front end phase done: compiles=%d", compiles)
	// verdicts
	type acc struct {
		g *group
		i int
	}
	var accepted []acc
	classRep := map[string]acc{}
	classN := map[string]int{}
	var order []string
	var evals int64
	for _, g := range groups {
		for i, it := range g.items {
			if !it.ctlDone || !it.mutDone {
				continue
			}
			evals += 2
			c.Distinct(it.id)
			files := func() map[string]string {
				return map[string]string{"main.fer": g.single(i, false), "control.fer": g.single(i, true)}
			}
			if !g.k.judged {
				c.Outcome(fmt.Sprintf("not judged (%s): control_accepted=%v mutant_accepted=%v", g.k.id, it.ctlOK, it.mutOK))
				c.Count("explored_not_judged", 1)
				continue
			}
			c.Outcome(fmt.Sprintf("control_accepted=%v mutant_accepted=%v via=%s", it.ctlOK, it.mutOK, it.via))
			cls := clsOf(g, it)
			if !it.ctlOK {
				fail(vl.Fail{Case: it.id + "/control", Obs: "control twin (mutable declaration) rejected: " + it.ctlMsg, Files: files()})
				classN["control "+cls]++
			}
			switch {
			case it.mutOK:
				accepted = append(accepted, acc{g, i})
				if _, ok := classRep[cls]; !ok {
					classRep[cls] = acc{g, i}
					order = append(order, cls)
				}
				classN["mutant "+cls]++
			case it.mutNoDiag:
				fail(vl.Fail{Case: it.id + "/mutant", Obs: "mutant neither accepted nor rejected with an error diagnostic: " + it.mutMsg, Files: files()})
			default:
				if it.via == "single" && it.ctlOK {
					c.Count("mutant_rejected_on_its_own_program_only", 1)
					c.Outcome("single mutant rejected by: " + firstMsg(it.mutMsg))
				}
			}
		}
	}

	// class representatives (simplest context) judged inside a pack: their single-mutation
	// program goes through the front end once more
	var reps []acc
	for _, cls := range order {
		if a := classRep[cls]; a.g.items[a.i].via != "single" {
			reps = append(reps, a)
		}
	}
	vl.ParDo(len(reps), 16, func(ri int) {
		a := reps[ri]
		r := compile(a.g.single(a.i, false))
		if noAnswer(&r) != "" || !r.Success {
			c.Count("accepted_in_pack_but_single_program_rejected", 1)
			a.g.items[a.i].packOnly = "the single-mutation program is rejected: " + r.ErrSummary() + noAnswer(&r)
		} else {
			c.Count("representatives_confirmed_on_single_program", 1)
		}
	})
	dbg("representatives done: compiles=%d", compiles)

	// second observation point: accepted mutants are run natively, several per program (all of
	// one place kind / type / context; the leaves are printed around every mutation)
	type npack struct {
		g *group
	}
	var npacks []*npack
	{
		byKey := map[string]*group{}
		var keys []string
		// one native observation per class (kind, type, path, mutation) in its simplest context
		// (quick), per class and syntactic wrapper (thorough); the verdicts do not depend on it
		runKey := func(g *group, it *item) string {
			if quick {
				return clsOf(g, it)
			}
			return clsOf(g, it) + " " + g.c.wrap
		}
		rep := map[string]*item{}
		for _, a := range accepted {
			if k := runKey(a.g, a.g.items[a.i]); rep[k] == nil {
				rep[k] = a.g.items[a.i]
			}
		}
		for _, a := range accepted {
			if a.g.k.global {
				continue
			}
			if it := a.g.items[a.i]; rep[runKey(a.g, it)] != it {
				it.native = "not run natively (the native observation of this class is in case " + rep[runKey(a.g, it)].id + ")"
				continue
			}
			key := a.g.k.id + "/" + a.g.rt.id() + "/" + a.g.c.id()
			if byKey[key] == nil {
				byKey[key] = &group{k: a.g.k, rt: a.g.rt, c: a.g.c}
				keys = append(keys, key)
			}
			byKey[key].items = append(byKey[key].items, a.g.items[a.i])
		}
		for _, key := range keys {
			g := byKey[key]
			for len(g.items) > 0 {
				n := nativePack
				if n > len(g.items) {
					n = len(g.items)
				}
				npacks = append(npacks, &npack{&group{k: g.k, rt: g.rt, c: g.c, items: g.items[:n]}})
				g.items = g.items[n:]
			}
		}
	}
	nativeDeadline := c.Deadline.Add(-100 * time.Second)
	if quick {
		nativeDeadline = c.Deadline
	}
	var rn *run.Runner
	if len(npacks) > 0 {
		needRunner()
		wait := time.Until(nativeDeadline)
		if nativeDeadline.IsZero() {
			wait = time.Hour
		}
		select {
		case rn = <-rnReady:
			rnReady <- rn
		case <-time.After(wait):
			// the compiler could not even be built within the tier budget (loaded machine)
			nativeDeadline = time.Now().Add(-time.Second)
		}
	}
	dbg("runner ready, %d native programs", len(npacks))
	runOne := func(g *group) (ok bool) {
		// returns false if the program could not be observed as a whole
		src, _ := g.render(allIdx(g), false, true)
		dir := rn.NewDir()
		defer os.RemoveAll(dir)
		run.WriteFiles(dir, map[string]string{"main.fer": src})
		c.Count("native_programs", 1)
		b := rn.CompileNative(dir, "main.fer")
		if !b.Compile.OK() || !b.Exists {
			for _, it := range g.items {
				it.native = "native compile failed"
				it.nativeDetail = b.Compile.Term() + "\n" + firstLines(run.StripANSI(b.Compile.Stdout+b.Compile.Stderr), 12)
				it.nativeProg = src
			}
			return false
		}
		p := rn.Exec(b)
		lines := strings.Split(strings.TrimRight(p.Stdout, "\n"), "\n")
		obs := observed(g, lines)
		for i, it := range g.items {
			it.nativeProg = src
			switch {
			case obs == nil && !p.OK():
				it.native = "native run ended abnormally: " + p.Term()
				it.nativeDetail = "stdout:\n" + p.Stdout
			case obs == nil:
				it.native = "native run printed an unexpected number of lines"
				it.nativeDetail = "stdout:\n" + p.Stdout
			default:
				bf, af := strings.Join(obs[i][0], " "), strings.Join(obs[i][1], " ")
				if bf != af {
					it.native = "native run: value seen through the immutable binding CHANGED"
				} else {
					it.native = "native run: value unchanged"
				}
				it.nativeDetail = fmt.Sprintf("statement: %s\nleaves: %s\nbefore:  %s\nafter:   %s\ntermination: %s",
					strings.Join(it.m.gen(fmt.Sprintf(it.p.f, "x"), it.p.t, g.k.ref && it.p.root, ""), " "),
					strings.Join(g.rt.leaves("x"), " "), bf, af, p.Term())
			}
		}
		return obs != nil
	}
	vl.ParDo(len(npacks), 16, func(pi int) {
		g := npacks[pi].g
		if !nativeDeadline.IsZero() && time.Now().After(nativeDeadline) {
			c.Count("native_runs_skipped_tier_budget", int64(len(g.items)))
			for _, it := range g.items {
				it.native = "not run natively (tier budget exhausted)"
			}
			return
		}
		if runOne(g) || len(g.items) == 1 || quick {
			return
		}
		// the pack could not be observed: every mutation on its own
		for _, it := range g.items {
			if !nativeDeadline.IsZero() && time.Now().After(nativeDeadline) {
				return
			}
			runOne(&group{k: g.k, rt: g.rt, c: g.c, items: []*item{it}})
		}
	})
	const obsAccepted = "mutant accepted: the front end reports no error for a mutation of an immutable place"
	for _, a := range accepted {
		g, it := a.g, a.g.items[a.i]
		files := map[string]string{"main.fer": g.single(a.i, false), "control.fer": g.single(a.i, true)}
		if it.via == "survivors" {
			files["accepted_pack.fer"] = it.accProg
		}
		obs := obsAccepted
		if it.packOnly != "" {
			obs += " (inside an accepted program with several such mutations; " + it.packOnly + ")"
		}
		if g.k.global {
			it.native = "not run (module-level values cannot be read by any accepted program)"
		}
		if it.nativeProg != "" {
			files["native_program.fer"] = it.nativeProg
		}
		files["native_run.txt"] = it.native + "\n" + it.nativeDetail + "\n"
		c.Outcome("accepted mutant, " + strings.SplitN(it.native, " (", 2)[0])
		if !strings.Contains(it.native, "CHANGED") {
			dbg("NATIVE %s: %s | %s", it.id, it.native, firstLines(it.nativeDetail, 3))
		}
		fail(vl.Fail{Case: it.id + "/mutant", Obs: obs, Files: files, Note: it.native + "\n" + it.nativeDetail})
	}

	dbg("native phase done")
	<-aliasDone
	evals += int64(aliasJudged)
	var cl []string
	for k, n := range classN {
		cl = append(cl, fmt.Sprintf("%s x%d", k, n))
	}
	sort.Strings(cl)
	for _, gi := range []int{0, len(groups) / 3, 2 * len(groups) / 3, len(groups) - 1} {
		if gi >= 0 && gi < len(groups) {
			g := groups[gi]
			c.Sample(map[string]string{"id": g.items[0].id, "mutant": g.single(0, false)})
		}
	}
	c.Assume = append(c.Assume,
		"the verdict is the front end's (typecheck + analysis pipeline without code generation), reached in-process exactly as compiler.Compile builds it",
		"a mutant counts as rejected only if the compilation fails with at least one error diagnostic; warnings do not count",
		"packs are a filter: a mutant is reported as accepted only if a program of its own or an accepted program made of un-diagnosed mutations contains it; a mutant is taken as rejected from a pack only on a mutability diagnostic (T0007/T0004/reference type mismatch) located on its own lines",
		"the map key of `for k, v in map` is explored without being judged",
		"native before/after values illustrate an already established violation; they are recorded in the replay files and the note, not in the Obs (which stays independent of machine load and of stack garbage)")
	kindSeen, mutSeen := map[string]bool{}, map[string]bool{}
	for _, g := range groups {
		kindSeen[g.k.id] = true
		for _, it := range g.items {
			mutSeen[it.m.id] = true
		}
	}
	nKinds, nMuts := len(kindSeen), len(mutSeen)
	nctx := 0
	for ki := range kinds {
		if n := len(contexts(&kinds[ki], quick)); n > nctx {
			nctx = n
		}
	}
	c.Finish(vl.Coverage{Evaluations: evals, Exhaustive: true,
		Rule: "(a) complete product place kind x root type x access path (where typed) x mutation form (where typed) x context; each point = mutant + control twin differing in the declaration only; " +
			"oracle: control accepted, mutant rejected with >=1 error; evaluations = judged programs (2 per point), decided through packs + single programs; accepted mutants are run natively; (b) alias family: place kind x root type x aggregate-typed path x by-value copy operation x context, every point accepted by the front end is compiled and run natively, oracle: leaves seen through the binding (and through the owner) equal the initial constants before and after; distinct_nontrivial = case ids",
		Bound: fmt.Sprintf("kinds=%d mutation_forms=%d contexts<=%d points=%d front_end_compiles=%d", nKinds, nMuts, nctx, nItems, compiles),
		Extra: func() map[string]any {
			m := map[string]any{"failure_classes_kind_type_path_mutation_xcontexts": cl}
			for k, v := range aliasExtra {
				m[k] = v
			}
			return m
		}()})
}

// observed splits the lines printed by a program rendered with prints into the leaves before
// and after every item; nil if the number of lines is not the expected one.
func observed(g *group, lines []string) [][2][]string {
	n := len(g.rt.leaves("x"))
	pos := 0 // lines printed ahead of the first item by the loop / catch scaffolding
	switch g.k.id {
	case "loop_index_array", "loop_index_range", "loop_key_map", "loop_index_blank", "loop_index_str", "loop_index_dyn":
		pos = 2
	case "catch_var":
		pos = 1
	}
	out := make([][2][]string, len(g.items))
	for i, it := range g.items {
		mid := it.m.prints // lines printed between the two leaf blocks
		if g.c.wrap == "for" {
			mid++
		}
		if len(lines) < pos+2*n+mid {
			return nil
		}
		out[i][0] = lines[pos : pos+n]
		out[i][1] = lines[pos+n+mid : pos+2*n+mid]
		pos += 2*n + mid
	}
	tail := 0
	if g.k.id == "catch_var" {
		tail = 1
	}
	if len(lines) != pos+tail {
		return nil
	}
	return out
}

func firstMsg(s string) string {
	if i := strings.Index(s, " | "); i >= 0 {
		s = s[:i]
	}
	if len(s) > 80 {
		s = s[:80]
	}
	return s
}

func firstLines(s string, n int) string {
	var o []string
	for _, l := range strings.Split(s, "\n") {
		if strings.TrimSpace(l) == "" {
			continue
		}
		o = append(o, l)
		if len(o) >= n {
			break
		}
	}
	return strings.Join(o, "\n")
}
