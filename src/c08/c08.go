// Package c08: dynamic arrays and strings are bounds-checked at run time, not mis-rejected.
// All histories of <=2 (thorough 3) operations over one dynamic array, every boundary index,
// five index forms, several element types; plus string indexing. Native and (where the wasm
// back end accepts the program) wasm.
package c08

import (
	"fmt"
	"os"
	"path/filepath"
	"strings"

	"compiler/verifh/fl"
	"compiler/verifh/run"
	"compiler/verifh/prog"
	"compiler/verifh/vl"
)

type op struct {
	kind string // append | set | read | len | callee-read | append-in-if | append-in-while | reassign-call | reassign-lit
	idx  int64
}

func (o op) String() string {
	switch o.kind {
	case "set", "read", "callee-read":
		return fmt.Sprintf("%s(%d)", o.kind, o.idx)
	}
	return o.kind
}

// boundary indices for a length
func bidx(n int) []int64 {
	m := map[int64]bool{}
	var out []int64
	for _, v := range []int64{int64(-n - 1), int64(-n), -1, 0, int64(n - 1), int64(n)} {
		if !m[v] {
			m[v] = true
			out = append(out, v)
		}
	}
	return out
}

// histories enumerates op sequences; a history ends at the first out-of-range access.
func histories(start, depth int) [][]op {
	var out [][]op
	var rec func(h []op, n int)
	rec = func(h []op, n int) {
		if len(h) > 0 {
			out = append(out, append([]op{}, h...))
		}
		if len(h) == depth {
			return
		}
		for _, kind := range []string{"append", "append-in-if", "append-in-while", "len", "reassign-call", "reassign-lit"} {
			nn := n
			switch kind {
			case "len":
			case "reassign-call":
				nn = 3 // a fresh array built by a callee: one literal element and two appends
			case "reassign-lit":
				nn = 1
			default:
				nn++
			}
			rec(append(h, op{kind: kind}), nn)
		}
		for _, kind := range []string{"read", "set", "callee-read"} {
			for _, i := range bidx(n) {
				h2 := append(h, op{kind, i})
				if i < int64(-n) || i >= int64(n) {
					out = append(out, append([]op{}, h2...)) // panics here: terminal
					continue
				}
				rec(h2, n)
			}
		}
	}
	rec(nil, start)
	return out
}

// "appending-call": the index is the result of a call that first appends to the same array and
// returns the position it created (the array has to be measured after the index is evaluated)
// "sibling-lit": the index variable holds a call's result; the access sits in the else branch of
// an `if` whose (not executed) then branch assigns the variable a literal far outside the array
var idxForms = []string{"literal", "const", "let", "mutated-let", "func-result", "appending-call", "sibling-lit"}

type elemKind struct {
	name string
	t    func(sfx string, p *fl.Program) fl.Type
	val  func(t fl.Type, v int64) fl.Expr
	show func(x fl.Expr) fl.Expr
}

var elemKinds = []elemKind{
	{"i32", func(string, *fl.Program) fl.Type { return fl.I32 }, func(_ fl.Type, v int64) fl.Expr { return fl.L(fl.I32, v) }, func(x fl.Expr) fl.Expr { return x }},
	{"struct", func(sfx string, p *fl.Program) fl.Type {
		st := &fl.TStruct{Name: "El" + sfx, Fields: []fl.Field{{"A", fl.I32}, {"B", fl.I32}}}
		p.Structs = append(p.Structs, st)
		return st
	}, func(t fl.Type, v int64) fl.Expr {
		return &fl.StructLit{T: t.(*fl.TStruct), Vals: []fl.Expr{fl.L(fl.I32, v%100), fl.L(fl.I32, v*1000)}}
	}, func(x fl.Expr) fl.Expr { return fl.F(x, "B") }},
	{"i8", func(string, *fl.Program) fl.Type { return fl.I8 }, func(_ fl.Type, v int64) fl.Expr { return fl.L(fl.I8, v%100) }, func(x fl.Expr) fl.Expr { return x }},
	{"i64", func(string, *fl.Program) fl.Type { return fl.I64 }, func(_ fl.Type, v int64) fl.Expr { return fl.L(fl.I64, v*1000000007) }, func(x fl.Expr) fl.Expr { return x }},
	{"str", func(string, *fl.Program) fl.Type { return fl.Str }, func(_ fl.Type, v int64) fl.Expr { return fl.S(fmt.Sprintf("s%d", v)) }, func(x fl.Expr) fl.Expr { return x }},
}

func build(start int, h []op, form string, ek elemKind, sfx string) *fl.Program {
	p := &fl.Program{}
	t := ek.t(sfx, p)
	var elems []fl.Expr
	for j := 0; j < start; j++ {
		elems = append(elems, ek.val(t, int64(j+1)))
	}
	d := fl.V("d")
	body := []fl.Stmt{&fl.Let{Name: "g1", T: fl.I64, Init: fl.L(fl.I64, 1111)}, &fl.Let{Name: "d", T: fl.TDyn{Elem: t}, Init: &fl.ArrLit{Elems: elems}}, &fl.Let{Name: "g2", T: fl.I64, Init: fl.L(fl.I64, 2222)}}
	p.Funcs = append(p.Funcs, &fl.Func{Name: "yes" + sfx, Params: []fl.Param{{"v", fl.I32}}, Ret: fl.Bool, Body: []fl.Stmt{&fl.Return{X: fl.B(">", fl.V("v"), fl.L(fl.I32, 0))}}})
	next := int64(50)
	calleeDeclared := false
	for step, o := range h {
		body = append(body, fl.P(fl.S(fmt.Sprintf("step %d", step))))
		var pre []fl.Stmt
		var ix fl.Expr = fl.L(fl.I32, o.idx)
		if o.kind == "read" || o.kind == "set" || o.kind == "callee-read" {
			name := fmt.Sprintf("i%d", step)
			switch form {
			case "const":
				pre = []fl.Stmt{&fl.Let{Name: name, T: fl.I32, Init: fl.L(fl.I32, o.idx), Const: true}}
				ix = fl.V(name)
			case "let":
				pre = []fl.Stmt{&fl.Let{Name: name, T: fl.I32, Init: fl.L(fl.I32, o.idx)}}
				ix = fl.V(name)
			case "mutated-let":
				pre = []fl.Stmt{&fl.Let{Name: name, T: fl.I32, Init: fl.L(fl.I32, o.idx-1)}, &fl.IncDec{LHS: fl.V(name), Inc: true}}
				ix = fl.V(name)
			case "func-result":
				fn := fmt.Sprintf("ix%d%s", step, sfx)
				p.Funcs = append(p.Funcs, &fl.Func{Name: fn, Ret: fl.I32, Body: []fl.Stmt{&fl.Return{X: fl.L(fl.I32, o.idx)}}})
				ix = fl.C(fn)
			case "appending-call":
				// appends one element, then returns the requested index shifted by one (so that
				// the history's "last element" / "one past the end" keep their meaning)
				fn := fmt.Sprintf("gr%d%s", step, sfx)
				next++
				shift := o.idx
				if o.idx >= 0 {
					shift = o.idx + 1 // non-negative positions move with the new length
				}
				p.Funcs = append(p.Funcs, &fl.Func{Name: fn, Params: []fl.Param{{"a", fl.TRef{Elem: fl.TDyn{Elem: t}, Mut: true}}}, Ret: fl.I32, Body: []fl.Stmt{
					&fl.Append{Arr: fl.V("a"), Val: ek.val(t, next), Ref: true}, &fl.Return{X: fl.L(fl.I32, shift)}}})
				ix = fl.C(fn, &fl.Borrow{X: d, Mut: true})
			case "sibling-lit":
				fn := fmt.Sprintf("ix%d%s", step, sfx)
				p.Funcs = append(p.Funcs, &fl.Func{Name: fn, Ret: fl.I32, Body: []fl.Stmt{&fl.Return{X: fl.L(fl.I32, o.idx)}}})
				pre = []fl.Stmt{&fl.Let{Name: name, T: fl.I32, Init: fl.C(fn)}}
				ix = fl.V(name)
			}
		}
		body = append(body, pre...)
		accessFrom := len(body)
		switch o.kind {
		case "append":
			next++
			body = append(body, &fl.Append{Arr: d, Val: ek.val(t, next)})
		case "append-in-if":
			next++
			body = append(body, &fl.If{Cond: fl.C("yes"+sfx, fl.L(fl.I32, 1)), Then: []fl.Stmt{&fl.Append{Arr: d, Val: ek.val(t, next)}}})
		case "append-in-while":
			next++
			w := fmt.Sprintf("w%d", step)
			body = append(body, &fl.Let{Name: w, T: fl.I32, Init: fl.L(fl.I32, 0)}, &fl.While{Cond: fl.B("<", fl.V(w), fl.L(fl.I32, 1)), Body: []fl.Stmt{&fl.Append{Arr: d, Val: ek.val(t, next)}, &fl.IncDec{LHS: fl.V(w), Inc: true}}})
		case "reassign-call":
			// plain assignment from a call: what the compiler knew about the old value's length
			// (a literal's) says nothing about the new one
			next += 3
			fn := fmt.Sprintf("mk%d%s", step, sfx)
			p.Funcs = append(p.Funcs, &fl.Func{Name: fn, Ret: fl.TDyn{Elem: t}, Body: []fl.Stmt{
				&fl.Let{Name: "r", T: fl.TDyn{Elem: t}, Init: &fl.ArrLit{Elems: []fl.Expr{ek.val(t, next-2)}}},
				&fl.Append{Arr: fl.V("r"), Val: ek.val(t, next-1)}, &fl.Append{Arr: fl.V("r"), Val: ek.val(t, next)}, &fl.Return{X: fl.V("r")}}})
			body = append(body, &fl.Assign{LHS: d, RHS: fl.C(fn)})
		case "reassign-lit":
			next++
			body = append(body, &fl.Assign{LHS: d, RHS: &fl.ArrLit{Elems: []fl.Expr{ek.val(t, next)}}})
		case "len":
			body = append(body, fl.P(&fl.Len{X: d}))
		case "read":
			body = append(body, fl.P(ek.show(fl.Ix(d, ix))))
		case "set":
			next++
			body = append(body, &fl.Assign{LHS: fl.Ix(d, ix), RHS: ek.val(t, next)})
		case "callee-read":
			if !calleeDeclared {
				calleeDeclared = true
				p.Funcs = append(p.Funcs, &fl.Func{Name: "get" + sfx, Params: []fl.Param{{"a", fl.TDyn{Elem: t}}, {"i", fl.I32}}, Body: []fl.Stmt{fl.P(ek.show(fl.Ix(fl.V("a"), fl.V("i"))))}})
			}
			body = append(body, &fl.ExprStmt{X: fl.C("get"+sfx, d, ix)})
		}
		if v, ok := ix.(*fl.Var); ok && form == "sibling-lit" {
			acc := append([]fl.Stmt{}, body[accessFrom:]...)
			body = append(body[:accessFrom], &fl.If{Cond: fl.C("yes"+sfx, fl.L(fl.I32, 0)), Then: []fl.Stmt{&fl.Assign{LHS: v, RHS: fl.L(fl.I32, 77)}, fl.P(v)}, Else: acc})
		}
	}
	// final dump: length, every element, guards
	body = append(body, fl.P(fl.S("dump")), fl.P(&fl.Len{X: d}),
		&fl.ForIn{Idx: "_", Val: "v", X: d, Body: []fl.Stmt{fl.P(ek.show(fl.V("v")))}}, fl.P(fl.V("g1")), fl.P(fl.V("g2")))
	p.Funcs = append(p.Funcs, &fl.Func{Name: "main", Body: body})
	return p
}

func hid(h []op) string {
	var s []string
	for _, o := range h {
		s = append(s, o.String())
	}
	return strings.Join(s, ",")
}

// everyExecutionOOB: the last access is out of range whatever happens, and no append
// precedes it (then a compile-time rejection T0009 is acceptable).
func noAppendBefore(h []op) bool {
	// the length is known at compile time when the array still is exactly a literal: from the
	// declaration or from the last `d = [..]`, with no append and no assignment from a call since
	known := true
	for _, o := range h[:len(h)-1] {
		switch {
		case strings.HasPrefix(o.kind, "append"), o.kind == "reassign-call":
			known = false
		case o.kind == "reassign-lit":
			known = true
		}
	}
	return known
}

func Run(c *vl.Ctx) {
	quick := c.Quick()
	depth := 2
	starts := []int{0, 2}
	kinds := elemKinds[:2]
	if !quick {
		depth = 3
		starts = []int{0, 1, 2, 3}
		kinds = elemKinds
	}
	var cases []*prog.Case
	var hs [][]op
	seq := 0
	for _, ek := range kinds {
		for _, st := range starts {
			for _, h := range histories(st, depth) {
				for _, form := range idxForms {
					if quick && (form == "const" || form == "mutated-let") {
						continue // quick: literal, let, func-result, appending-call; thorough: all six
					}
					if (form == "appending-call" || form == "sibling-lit") && (ek.name != "i32" || len(h) > 2) {
						continue
					}
					hasIdx := false
					for _, o := range h {
						if o.kind == "read" || o.kind == "set" || o.kind == "callee-read" {
							hasIdx = true
						}
					}
					if !hasIdx && form != "literal" {
						continue
					}
					if !quick && ek.name != "i32" && ek.name != "struct" && form != "literal" && form != "func-result" {
						continue // thorough: the extra element kinds use two index forms
					}
					id := fmt.Sprintf("C08/dyn/%s/start%d/%s/%s", ek.name, st, form, hid(h))
					if f := os.Getenv("VERIF_FILTER"); f != "" && !strings.Contains(id, f) {
						continue
					}
					seq++
					p := build(st, h, form, ek, fmt.Sprintf("_%d", seq))
					cases = append(cases, &prog.Case{ID: id, P: p, Want: fl.Run(p)})
					hs = append(hs, h)
				}
			}
		}
	}
	// strings: literal of length 0-3 (with an escape), every index in [-len-1, len], index forms
	strs := []string{"", "a", "a\nb", "xyz"}
	for si, s := range strs {
		for i := int64(-len(s) - 1); i <= int64(len(s)); i++ {
			for _, form := range idxForms {
				if quick && (form == "const" || form == "mutated-let") {
					continue
				}
				id := fmt.Sprintf("C08/str/%d/%s/%d", si, form, i)
				if f := os.Getenv("VERIF_FILTER"); f != "" && !strings.Contains(id, f) {
					continue
				}
				seq++
				sfx := fmt.Sprintf("_%d", seq)
				p := &fl.Program{}
				var pre []fl.Stmt
				var ix fl.Expr = fl.L(fl.I32, i)
				switch form {
				case "const":
					pre = []fl.Stmt{&fl.Let{Name: "i", T: fl.I32, Init: fl.L(fl.I32, i), Const: true}}
					ix = fl.V("i")
				case "let":
					pre = []fl.Stmt{&fl.Let{Name: "i", T: fl.I32, Init: fl.L(fl.I32, i)}}
					ix = fl.V("i")
				case "mutated-let":
					pre = []fl.Stmt{&fl.Let{Name: "i", T: fl.I32, Init: fl.L(fl.I32, i-1)}, &fl.IncDec{LHS: fl.V("i"), Inc: true}}
					ix = fl.V("i")
				case "func-result":
					p.Funcs = append(p.Funcs, &fl.Func{Name: "ix" + sfx, Ret: fl.I32, Body: []fl.Stmt{&fl.Return{X: fl.L(fl.I32, i)}}})
					ix = fl.C("ix" + sfx)
				}
				body := append([]fl.Stmt{&fl.Let{Name: "s", T: fl.Str, Init: fl.S(s)}, fl.P(&fl.Len{X: fl.V("s")}), fl.P(fl.S("before"))}, pre...)
				body = append(body, &fl.Let{Name: "ch", Init: fl.Ix(fl.V("s"), ix)}, fl.P(fl.V("ch")), fl.P(fl.S("after")))
				p.Funcs = append(p.Funcs, &fl.Func{Name: "main", Body: body})
				cases = append(cases, &prog.Case{ID: id, P: p, Want: fl.Run(p)})
				hs = append(hs, []op{{kind: "read", idx: i}})
			}
		}
	}
	// strings held in a variable that is re-assigned: before the access (the length that counts
	// is the new one) or after it (the length that counts is the old one), from a literal, a
	// call or a concatenation; the index runs over the boundaries of both lengths
	for _, before := range []string{"none", "literal", "call", "concat"} {
		for _, after := range []string{"none", "literal", "call"} {
			if before == "none" && after == "none" {
				continue
			}
			s0, s1, s2 := "hi", "abcdefgh", "xy"
			cur := s0
			switch before {
			case "literal", "call":
				cur = s1
			case "concat":
				cur = s0 + s1
			}
			seen := map[int64]bool{}
			for _, L := range []int{len(cur), len(s0), len(s1), len(s2)} {
				for _, i := range []int64{int64(-L - 1), int64(-L), -1, 0, int64(L - 1), int64(L)} {
					if seen[i] {
						continue
					}
					seen[i] = true
					for _, form := range []string{"literal", "let", "func-result"} {
						id := fmt.Sprintf("C08/strvar/%s/%s/%s/%d", before, after, form, i)
						if f := os.Getenv("VERIF_FILTER"); f != "" && !strings.Contains(id, f) {
							continue
						}
						seq++
						sfx := fmt.Sprintf("_%d", seq)
						p := &fl.Program{}
						p.Funcs = append(p.Funcs, &fl.Func{Name: "mk1" + sfx, Ret: fl.Str, Body: []fl.Stmt{&fl.Return{X: fl.S(s1)}}},
							&fl.Func{Name: "mk2" + sfx, Ret: fl.Str, Body: []fl.Stmt{&fl.Return{X: fl.S(s2)}}})
						var ix fl.Expr = fl.L(fl.I32, i)
						var pre []fl.Stmt
						switch form {
						case "let":
							pre = []fl.Stmt{&fl.Let{Name: "i", T: fl.I32, Init: fl.L(fl.I32, i)}}
							ix = fl.V("i")
						case "func-result":
							p.Funcs = append(p.Funcs, &fl.Func{Name: "ix" + sfx, Ret: fl.I32, Body: []fl.Stmt{&fl.Return{X: fl.L(fl.I32, i)}}})
							ix = fl.C("ix" + sfx)
						}
						body := []fl.Stmt{&fl.Let{Name: "s", T: fl.Str, Init: fl.S(s0)}}
						switch before {
						case "literal":
							body = append(body, &fl.Assign{LHS: fl.V("s"), RHS: fl.S(s1)})
						case "call":
							body = append(body, &fl.Assign{LHS: fl.V("s"), RHS: fl.C("mk1" + sfx)})
						case "concat":
							body = append(body, &fl.Assign{LHS: fl.V("s"), RHS: fl.B("+", fl.V("s"), fl.S(s1))})
						}
						body = append(body, fl.P(&fl.Len{X: fl.V("s")}), fl.P(fl.S("before")))
						body = append(body, pre...)
						body = append(body, &fl.Let{Name: "ch", Init: fl.Ix(fl.V("s"), ix)}, fl.P(fl.V("ch")), fl.P(fl.S("after")))
						switch after {
						case "literal":
							body = append(body, &fl.Assign{LHS: fl.V("s"), RHS: fl.S(s2)})
						case "call":
							body = append(body, &fl.Assign{LHS: fl.V("s"), RHS: fl.C("mk2" + sfx)})
						}
						body = append(body, fl.P(&fl.Len{X: fl.V("s")}))
						p.Funcs = append(p.Funcs, &fl.Func{Name: "main", Body: body})
						cases = append(cases, &prog.Case{ID: id, P: p, Want: fl.Run(p)})
						// reassigned before: the length is not a literal's any more
						hs = append(hs, []op{{kind: "append"}, {kind: "read", idx: i}})
					}
				}
			}
		}
	}
	r := prog.New(c)
	for _, target := range []string{"native", "wasm"} {
		var live []*prog.Case
		var lh [][]op
		for i, k := range cases {
			if strings.HasPrefix(k.Want.Term, "fault:") {
				if target == "native" {
					c.Fail(vl.Fail{Case: k.ID + "/HARNESS", Obs: "reference interpreter fault: " + k.Want.Term, Files: map[string]string{"main.fer": fl.Render(k.P)}})
				}
				continue
			}
			live = append(live, k)
			lh = append(lh, hs[i])
		}
		obs := r.Observe(live, target, func(i int) *prog.Obs { return prog.WantObs(live[i].Want) })
		for i, k := range live {
			o := obs[i]
			id := k.ID
			if target == "wasm" {
				id = strings.Replace(id, "C08/", "C08/wasm/", 1)
			}
			files := map[string]string{"main.fer": fl.Render(k.P), "expected.txt": k.Want.String(), "observed.txt": o.String(), "target.txt": target}
			wantPanic := strings.HasPrefix(k.Want.Term, "panic:")
			c.Distinct(id)
			switch {
			case !o.Accepted && target == "wasm":
				c.Count("wasm_rejected", 1) // the wasm back end supports a subset; only accepted programs are judged
			case !o.Accepted && wantPanic && noAppendBefore(lh[i]) && !strings.Contains(k.ID, "/appending-call/") && strings.Contains(o.Reject, "T0009"):
				c.Outcome(target + ":compile-time-T0009-for-always-oob")
			case !o.Accepted:
				c.Outcome(target + ":rejected")
				c.Fail(vl.Fail{Case: id, Obs: "rejected although every index is valid when it is used or the access must be checked at run time: " + o.Reject, Files: files})
			case !o.SameBehaviour(k.Want):
				c.Outcome(target + ":misbehaves")
				c.Fail(vl.Fail{Case: id, Obs: fmt.Sprintf("want %s got %s", prog.WantObs(k.Want), o), Files: files})
			case wantPanic:
				c.Outcome(target + ":panic-with-lines-delivered")
			default:
				c.Outcome(target + ":agrees")
			}
		}
	}
	for _, i := range []int{0, len(cases) / 2, len(cases) - 1} {
		if i >= 0 && i < len(cases) {
			c.Sample(map[string]string{"id": cases[i].ID, "program": fl.Render(cases[i].P), "expected": cases[i].Want.String()})
		}
	}
	forinShrink(c, r)
	r.Report()
	r.Close()
	c.Assume = append(c.Assume, "an out-of-range index stops with `panic: index out of bounds`, non-zero status, after every earlier line was delivered (stdout is a pipe)",
		"a compile-time T0009 is accepted only when the access is out of range on every execution and no append precedes it",
		"no aliasing of dynamic arrays (a callee only reads the array it receives)")
	c.Finish(vl.Coverage{Evaluations: int64(2 * len(cases)), Exhaustive: true,
		Rule:  fmt.Sprintf("all histories of <=%d operations {append, append in if/while, len, read(i), set(i), read in callee} from literals of length %v, i over the boundary set {-len-1,-len,-1,0,len-1,len}, x 5 index forms x element kinds; strings of length 0-3 x every index x 5 forms; both targets; distinct_nontrivial = unique (target, case) ids", depth, starts),
		Bound: fmt.Sprintf("depth<=%d", depth)})
}


// forinShrink: `for v in xs` while the body replaces xs (a dynamic array or a string) by a
// shorter or longer value at iteration k. What the loop does then is not pinned by the language
// (the length may be read once or on every iteration); what is pinned is that no element
// access leaves the value xs has at that moment. Accepted behaviours: (a) length read once:
// the elements of the current value, and `panic: index out of bounds` at the first position the
// current value does not have; (b) length re-read: the loop ends there without a panic.
func forinShrink(c *vl.Ctx, r *prog.Runner) {
	type sh struct {
		kind    string
		n, k, m int
	}
	var all []sh
	for _, kind := range []string{"dyn-lit", "dyn-call", "str"} {
		for _, n := range []int{3, 6} {
			for _, k := range []int{0, 1, n - 1} {
				for _, m := range []int{0, 1, 2, n + 1} {
					if kind != "str" && m == 0 {
						continue // an empty array literal has no element type of its own
					}
					all = append(all, sh{kind, n, k, m})
				}
			}
		}
	}
	for _, x := range all {
		id := fmt.Sprintf("C08/forin-replace/%s/n%d/at%d/m%d", x.kind, x.n, x.k, x.m)
		if f := os.Getenv("VERIF_FILTER"); f != "" && !strings.Contains(id, f) {
			continue
		}
		old := make([]int, x.n)
		nw := make([]int, x.m)
		for i := range old {
			old[i] = 10 + i
		}
		for i := range nw {
			nw[i] = 70 + i
		}
		lit := func(v []int) string {
			if x.kind == "str" {
				b := make([]byte, len(v))
				for i, e := range v {
					b[i] = byte('A' + e%26)
				}
				return "\"" + string(b) + "\""
			}
			var p []string
			for _, e := range v {
				p = append(p, fmt.Sprint(e))
			}
			return "[" + strings.Join(p, ", ") + "]"
		}
		show := func(e int) string {
			if x.kind == "str" {
				return fmt.Sprint(int('A' + e%26))
			}
			return fmt.Sprint(e)
		}
		ty, repl, pr := "[]i32", lit(nw), "io::Println(v);"
		src := "import \"std/io\";\n"
		if x.kind == "str" {
			ty, pr = "str", "io::Println(v as i32);"
		}
		if x.kind == "dyn-call" {
			src += "fn fresh() -> []i32 { return " + lit(nw) + "; }\n"
			repl = "fresh()"
		}
		src += fmt.Sprintf("fn main() {\n    let xs: %s = %s;\n    let i: i32 = 0;\n    for v in xs {\n        %s\n        if i == %d {\n            xs = %s;\n        }\n        i = i + 1;\n    }\n    io::Println(\"done\");\n    io::Println(len(xs));\n}\n", ty, lit(old), pr, x.k, repl)
		// expected lines under both readings
		var a, b []string
		cur := old
		panicA := false
		for i := 0; i < x.n; i++ {
			if i >= len(cur) {
				panicA = true
				break
			}
			a = append(a, show(cur[i]))
			if i == x.k {
				cur = nw
			}
		}
		cur = old
		for i := 0; i < len(cur); i++ {
			b = append(b, show(cur[i]))
			if i == x.k {
				cur = nw
			}
		}
		tail := []string{"done", fmt.Sprint(x.m)}
		wantA, termA := strings.Join(a, "|"), "panic"
		if !panicA {
			wantA, termA = strings.Join(append(a, tail...), "|"), "exit0"
		}
		wantB := strings.Join(append(b, tail...), "|")
		dir := filepath.Join(r.R.NewDir(), "proj")
		run.WriteFiles(dir, map[string]string{"main.fer": src})
		bl := r.R.RealCompileNative(dir, "main.fer")
		files := map[string]string{"main.fer": src, "accepted_a.txt": wantA + " [" + termA + "]", "accepted_b.txt": wantB + " [exit0]"}
		if !bl.Compile.OK() || !bl.Exists {
			c.Outcome("forin-replace:rejected")
			os.RemoveAll(filepath.Dir(dir))
			continue
		}
		p := r.R.Exec(bl)
		os.RemoveAll(filepath.Dir(dir))
		got := strings.Join(strings.Split(strings.TrimRight(p.Stdout, "\n"), "\n"), "|")
		term := "exit0"
		switch {
		case p.Signal != "" && strings.Contains(p.Stderr, "index out of bounds"), p.Exit != 0 && strings.Contains(p.Stderr+p.Stdout, "index out of bounds"):
			term = "panic"
			got = strings.TrimSuffix(strings.TrimSuffix(got, "|panic: index out of bounds"), "panic: index out of bounds")
		case p.Signal != "" || p.Exit != 0:
			term = "crash:" + p.Signal + fmt.Sprint(p.Exit)
		}
		c.Distinct(id)
		if (got == wantA && term == termA) || (got == wantB && term == "exit0") {
			c.Outcome("forin-replace:" + term)
			continue
		}
		c.Fail(vl.Fail{Case: id, Obs: fmt.Sprintf("got %s [%s]; accepted: %s [%s] or %s [exit0]", got, term, wantA, termA, wantB), Files: files})
	}
}
