// Package c09: behaviour does not depend on what the compiler can evaluate early.
// Base programs x rewrite sites x rewrite kinds, every single rewrite (deviation 1):
//   L  a literal becomes a call to a fresh function returning it
//   B  a pure subexpression is bound to a fresh const just before the statement using it
//   C  a never-reassigned `let` becomes `const`
//   V  a variable that is the operand of a unary minus, a cast or a binary operator in a
//      side-effect-free statement is first copied into a fresh `let` (what the compiler
//      remembers about the variable itself is then not what the operator sees)
//   W  a run of statements of a block (not holding a value return) is wrapped in `if true { }`
// Base and variant must be treated the same (accepted/rejected, except the documented
// "fixed array index must be a compile-time constant" rejection) and print the same.
package c09

import (
	"fmt"
	"os"
	"strings"
	"time"

	"compiler/verifh/c01"
	"compiler/verifh/c04"
	"compiler/verifh/fl"
	"compiler/verifh/prog"
	"compiler/verifh/vl"
)

type variant struct {
	kind string
	site int
	p    *fl.Program
	note string
}

var uniq int

func mutated(p *fl.Program) map[string]bool {
	m := map[string]bool{}
	fl.Walk(p, fl.Visitor{Expr: func(slot *fl.Expr, list *[]fl.Stmt, at int, role string) {
		switch e := (*slot).(type) {
		case *fl.Borrow:
			// also a shared borrow: the language does not let a constant be borrowed at all
			// ("not an addressable value"), so `let` -> `const` is not a rewrite within the
			// language for a variable whose address is taken
			m[fl.RootVar(e.X)] = true
		case *fl.MCall:
			m[fl.RootVar(e.Recv)] = true
		}
	}, Block: func(list *[]fl.Stmt) {
		for _, s := range *list {
			switch s := s.(type) {
			case *fl.Assign:
				m[fl.RootVar(s.LHS)] = true
			case *fl.OpAssign:
				m[fl.RootVar(s.LHS)] = true
			case *fl.IncDec:
				m[fl.RootVar(s.LHS)] = true
			case *fl.Append:
				m[fl.RootVar(s.Arr)] = true
			}
		}
	}})
	return m
}

// variants enumerates every single rewrite of p.
func variants(p *fl.Program, quick bool) []variant {
	var out []variant
	// ---- L
	nL := 0
	fl.Walk(p, fl.Visitor{Expr: func(slot *fl.Expr, _ *[]fl.Stmt, _ int, role string) {
		if _, ok := (*slot).(*fl.IntLit); ok && role != "pattern" && role != "const-init" {
			nL++
		}
	}})
	for i := 0; i < nL; i++ {
		q := fl.CloneProgram(p)
		n := 0
		var note string
		fl.Walk(q, fl.Visitor{Expr: func(slot *fl.Expr, _ *[]fl.Stmt, _ int, role string) {
			lit, ok := (*slot).(*fl.IntLit)
			if !ok || role == "pattern" || role == "const-init" {
				return
			}
			if n == i {
				uniq++
				name := fmt.Sprintf("litfn_%d", uniq)
				q.Funcs = append([]*fl.Func{{Name: name, Ret: lit.T, Body: []fl.Stmt{&fl.Return{X: &fl.IntLit{T: lit.T, V: lit.V}}}}}, q.Funcs...)
				*slot = fl.C(name)
				note = fmt.Sprintf("literal %s (%s, role %q)", lit.V, lit.T, role)
			}
			n++
		}})
		out = append(out, variant{"L", i, q, note})
	}
	// ---- B
	isBindable := func(e fl.Expr, role string, list *[]fl.Stmt, at int) bool {
		switch e.(type) {
		case *fl.Bin, *fl.Cast, *fl.Un:
		default:
			return false
		}
		if role == "place" || role == "pattern" || role == "const-init" {
			return false
		}
		if _, isWhile := (*list)[at].(*fl.While); isWhile {
			return false // the condition is re-evaluated on every iteration
		}
		return fl.Pure(e) && fl.HasTypedOperand(e)
	}
	nB := 0
	fl.Walk(p, fl.Visitor{Expr: func(slot *fl.Expr, list *[]fl.Stmt, at int, role string) {
		if isBindable(*slot, role, list, at) {
			nB++
		}
	}})
	for i := 0; i < nB; i++ {
		q := fl.CloneProgram(p)
		n := 0
		done := false
		var note string
		fl.Walk(q, fl.Visitor{Expr: func(slot *fl.Expr, list *[]fl.Stmt, at int, role string) {
			if done || !isBindable(*slot, role, list, at) {
				return
			}
			if n == i {
				uniq++
				name := fmt.Sprintf("bound_%d", uniq)
				note = "bound " + fl.X(*slot)
				bind := &fl.Let{Name: name, Init: *slot, Const: true}
				*slot = fl.V(name)
				nl := append([]fl.Stmt{}, (*list)[:at]...)
				nl = append(nl, bind)
				nl = append(nl, (*list)[at:]...)
				*list = nl
				done = true
			}
			n++
		}})
		if done {
			out = append(out, variant{"B", i, q, note})
		}
	}
	// ---- V
	{
		// scalar variables with one declared type
		vt := map[string]fl.Type{}
		bad := map[string]bool{}
		note := func(n string, t fl.Type) {
			if _, ok := t.(fl.TInt); !ok || t == nil {
				bad[n] = true
				return
			}
			if o, ok := vt[n]; ok && o != t {
				bad[n] = true
			}
			vt[n] = t
		}
		for _, f := range p.Funcs {
			for _, pa := range f.Params {
				note(pa.Name, pa.T)
			}
		}
		fl.Walk(p, fl.Visitor{Block: func(list *[]fl.Stmt) {
			for _, st := range *list {
				if l, ok := st.(*fl.Let); ok {
					note(l.Name, l.T)
				}
			}
		}})
		pureStmt := func(st fl.Stmt) bool {
			switch x := st.(type) {
			case *fl.Assign:
				return fl.Pure(x.RHS)
			case *fl.OpAssign:
				return fl.Pure(x.RHS)
			case *fl.Let:
				return x.Init != nil && fl.Pure(x.Init)
			case *fl.Print:
				return fl.Pure(x.X)
			}
			return false
		}
		operand := func(e fl.Expr) *fl.Expr {
			var slot *fl.Expr
			switch x := e.(type) {
			case *fl.Un:
				slot = &x.X
			case *fl.Cast:
				slot = &x.X
			case *fl.Bin:
				if quick {
					return nil
				}
				slot = &x.L
			}
			if slot == nil {
				return nil
			}
			if v, ok := (*slot).(*fl.Var); ok && vt[v.Name] != nil && !bad[v.Name] {
				return slot
			}
			return nil
		}
		// a bound or the step of a range loop that is a plain variable: the range is evaluated
		// once, before the first iteration
		rangeSlot := func(slot *fl.Expr, list *[]fl.Stmt, at int) bool {
			fr, ok := (*list)[at].(*fl.ForRange)
			if !ok || (slot != &fr.Lo && slot != &fr.Hi && slot != &fr.Step) {
				return false
			}
			v, ok := (*slot).(*fl.Var)
			return ok && vt[v.Name] != nil && !bad[v.Name]
		}
		isSite := func(e fl.Expr, role string, list *[]fl.Stmt, at int) bool {
			return role != "place" && role != "pattern" && role != "const-init" && operand(e) != nil && pureStmt((*list)[at])
		}
		nV := 0
		fl.Walk(p, fl.Visitor{Expr: func(slot *fl.Expr, list *[]fl.Stmt, at int, role string) {
			if isSite(*slot, role, list, at) || rangeSlot(slot, list, at) {
				nV++
			}
		}})
		for i := 0; i < nV; i++ {
			q := fl.CloneProgram(p)
			n := 0
			done := false
			var note string
			fl.Walk(q, fl.Visitor{Expr: func(slot *fl.Expr, list *[]fl.Stmt, at int, role string) {
				isRange := rangeSlot(slot, list, at)
				if done || !(isRange || isSite(*slot, role, list, at)) {
					return
				}
				if n == i {
					uniq++
					name := fmt.Sprintf("copy_%d", uniq)
					op := slot
					if !isRange {
						op = operand(*slot)
					}
					v := (*op).(*fl.Var)
					note = "copied " + v.Name + " under " + fl.X(*slot)
					bind := &fl.Let{Name: name, T: vt[v.Name], Init: fl.V(v.Name)}
					*op = fl.V(name)
					nl := append([]fl.Stmt{}, (*list)[:at]...)
					nl = append(nl, bind)
					nl = append(nl, (*list)[at:]...)
					*list = nl
					done = true
				}
				n++
			}})
			if done {
				out = append(out, variant{"V", i, q, note})
			}
		}
	}
	// ---- C
	mut := mutated(p)
	nC := 0
	isCand := func(s fl.Stmt) bool {
		l, ok := s.(*fl.Let)
		if !ok || l.Const || mut[l.Name] {
			return false
		}
		if r, ok := l.T.(fl.TRef); ok && r.Mut {
			return false // written through: not "never reassigned" in the reader's eyes
		}
		if _, isLit := l.Init.(*fl.FuncLit); isLit {
			return false
		}
		return true
	}
	fl.Walk(p, fl.Visitor{Block: func(list *[]fl.Stmt) {
		for _, s := range *list {
			if isCand(s) {
				nC++
			}
		}
	}})
	for i := 0; i < nC; i++ {
		q := fl.CloneProgram(p)
		n := 0
		var note string
		fl.Walk(q, fl.Visitor{Block: func(list *[]fl.Stmt) {
			for _, s := range *list {
				if isCand(s) {
					if n == i {
						s.(*fl.Let).Const = true
						note = "const " + s.(*fl.Let).Name
					}
					n++
				}
			}
		}})
		out = append(out, variant{"C", i, q, note})
	}
	// ---- W
	// The wrapped range runs from statement `at` up to (not including) the first statement
	// that returns a value: `if true { return v; }` does not return on all paths by the
	// language's (purely syntactic) rule, so a range holding such a return is not an applicable
	// site. A range that stops before the end of the list must not hold a declaration either
	// (the statements after it would lose the name).
	type wsite struct{ list, at, end int }
	var ws []wsite
	li := 0
	fl.Walk(p, fl.Visitor{Block: func(list *[]fl.Stmt) {
		for at := range *list {
			end := at
			for end < len(*list) && !returnsValue((*list)[end]) {
				end++
			}
			if end < len(*list) {
				for k := at; k < end; k++ {
					if _, isLet := (*list)[k].(*fl.Let); isLet {
						end = k
						break
					}
				}
			}
			if end == at {
				continue
			}
			if quick && at != 0 && end != len(*list) && !(end < len(*list) && returnsValue((*list)[end]) && (at == end-1)) {
				continue
			}
			if quick && len(*list) > 8 && !(at == 0 || at == len(*list)/2 || at >= len(*list)-2) {
				continue // long statement lists (the operation sequences): whole, second half, last two
			}
			ws = append(ws, wsite{li, at, end})
		}
		li++
	}})
	for i, w := range ws {
		q := fl.CloneProgram(p)
		li := 0
		fl.Walk(q, fl.Visitor{Block: func(list *[]fl.Stmt) {
			if li == w.list {
				mid := append([]fl.Stmt{}, (*list)[w.at:w.end]...)
				rest := append([]fl.Stmt{}, (*list)[w.end:]...)
				*list = append(append(append([]fl.Stmt{}, (*list)[:w.at]...), &fl.If{Cond: &fl.BoolLit{V: true}, Then: mid}), rest...)
			}
			li++
		}})
		out = append(out, variant{"W", i, q, fmt.Sprintf("list %d statements %d..%d", w.list, w.at, w.end-1)})
	}
	return out
}

// returnsValue reports whether s contains (outside function literals) a return.
func returnsValue(s fl.Stmt) bool {
	found := false
	l := []fl.Stmt{s}
	var visit func(list []fl.Stmt)
	visit = func(list []fl.Stmt) {
		for _, s := range list {
			switch s := s.(type) {
			case *fl.Return:
				found = true // also a bare `return;`: a catch handler without fallback has to leave
			case *fl.ReturnErr:
				found = true
			case *fl.If:
				visit(s.Then)
				visit(s.Else)
			case *fl.While:
				visit(s.Body)
			case *fl.ForRange:
				visit(s.Body)
			case *fl.ForIn:
				visit(s.Body)
			case *fl.Block:
				visit(s.Body)
			case *fl.Match:
				for _, a := range s.Arms {
					visit(a.Body)
				}
			case *fl.Let:
				if c, ok := s.Init.(*fl.Catch); ok {
					visit(c.Handler)
				}
			case *fl.ExprStmt:
				if c, ok := s.X.(*fl.Catch); ok {
					visit(c.Handler)
				}
			}
		}
	}
	visit(l)
	return found
}

func hasFixedArrayIndex(p *fl.Program) bool {
	found := false
	fl.Walk(p, fl.Visitor{Expr: func(slot *fl.Expr, _ *[]fl.Stmt, _ int, _ string) {
		if _, ok := (*slot).(*fl.Index); ok {
			found = true
		}
	}})
	return found
}

func Run(c *vl.Ctx) {
	quick := c.Quick()
	bases := c01.Bases(quick)
	bases = append(bases, c04.Bases(quick)...)
	bases = append(bases, c01.SeqBases(quick)...)
	if f := os.Getenv("VERIF_FILTER"); f != "" {
		var b2 []*prog.Case
		for _, b := range bases {
			if strings.Contains(b.ID, f) {
				b2 = append(b2, b)
			}
		}
		bases = b2
	}
	type pair struct {
		base, basePos, varPos int
		v                     variant
	}
	var all []*prog.Case
	var pairs []pair
	for bi, b := range bases {
		bp := len(all)
		all = append(all, b)
		for _, v := range variants(b.P, quick) {
			id := strings.Replace(b.ID, "C01/", "C09/", 1)
			id = strings.Replace(id, "C04/", "C09/idx/", 1)
			id = fmt.Sprintf("%s#%s%d", id, v.kind, v.site)
			pairs = append(pairs, pair{bi, bp, len(all), v})
			all = append(all, &prog.Case{ID: id, P: v.p, Want: b.Want})
		}
	}
	r := prog.New(c)
	r.Prefilter = true
	t0 := time.Now()
	defer func() { c.Count("seconds_total", int64(time.Since(t0).Seconds())) }()
	// A base and its variants declare the same names, so they cannot share a packed program:
	// cases are observed in the order (rank within the base, base), which puts 48 different
	// bases into every pack.
	perm := make([]int, 0, len(all))
	{
		// a base keeps its C01/ or C04/ id, its variants are renamed C09/...
		bp := 0
		var groups [][]int
		for i := range all {
			if i == 0 || strings.HasPrefix(all[i].ID, "C01/") || strings.HasPrefix(all[i].ID, "C04/") {
				groups = append(groups, nil)
				bp = len(groups) - 1
			}
			groups[bp] = append(groups[bp], i)
		}
		for rank := 0; ; rank++ {
			any := false
			for _, g := range groups {
				if rank < len(g) {
					perm = append(perm, g[rank])
					any = true
				}
			}
			if !any {
				break
			}
		}
	}
	permCases := make([]*prog.Case, len(perm))
	for j, i := range perm {
		permCases[j] = all[i]
	}
	pobs := r.Observe(permCases, "native", nil)
	obs := make([]prog.Obs, len(all))
	for j, i := range perm {
		obs[i] = pobs[j]
	}
	same := func(a, b prog.Obs) bool {
		if a.Accepted != b.Accepted {
			return false
		}
		if !a.Accepted {
			return true
		}
		return prog.Equal(a, b)
	}
	baseAlone := map[int]prog.Obs{}
	for _, pr := range pairs {
		v := pr.v
		k := all[pr.varPos]
		bo, vo := obs[pr.basePos], obs[pr.varPos]
		c.Count("rewrite:"+v.kind, 1)
		c.Distinct(k.ID)
		if bo.Accepted && !vo.Accepted && strings.Contains(vo.Reject, "fixed array index must be a compile-time constant") && hasFixedArrayIndex(k.P) {
			// the documented exception, as the front end states it: nothing to confirm
			c.Outcome(v.kind + ":documented-constant-index-rejection")
			continue
		}
		if !same(bo, vo) {
			// confirm on single-case programs before believing it
			if !bo.Alone {
				if o, ok := baseAlone[pr.base]; ok {
					bo = o
				} else {
					bo = r.ObserveAlone(bases[pr.base], "native")
					baseAlone[pr.base] = bo
				}
			}
			if !vo.Alone {
				vo = r.ObserveAlone(k, "native")
			}
		}
		switch {
		case same(bo, vo):
			c.Outcome(v.kind + ":same")
		case bo.Accepted && !vo.Accepted && strings.Contains(vo.Reject, "fixed array index must be a compile-time constant") && hasFixedArrayIndex(k.P):
			c.Outcome(v.kind + ":documented-constant-index-rejection")
		default:
			c.Outcome(v.kind + ":differs")
			c.Fail(vl.Fail{Case: k.ID, Obs: fmt.Sprintf("base: %s || variant (%s): %s", bo, v.kind, vo),
				Files: map[string]string{"base.fer": fl.Render(bases[pr.base].P), "variant.fer": fl.Render(k.P), "rewrite.txt": v.kind + ": " + v.note}})
		}
	}
	for _, i := range []int{1, len(all) / 2, len(all) - 1} {
		if i >= 0 && i < len(all) {
			c.Sample(map[string]string{"id": all[i].ID, "program": fl.Render(all[i].P)})
		}
	}
	c.Count("bases", int64(len(bases)))
	r.Report()
	r.Close()
	c.Assume = append(c.Assume, "differential oracle: base vs variant on the same compiler; the reference interpreter is not consulted",
		"B binds only pure expressions that mention a typed operand (so `const b := e` has e's contextual type) and never a loop condition; C only touches lets whose name is never assigned, incremented, mutably borrowed or used as a method receiver anywhere in the function")
	c.Finish(vl.Coverage{Evaluations: int64(len(pairs)), Exhaustive: true,
		Rule:  "every single rewrite (L at every non-pattern literal, B at every bindable pure subexpression, C at every never-mutated let, W at every block suffix; quick: first/last suffix only) of every base program (reduced-alphabet C01 families arith/cmp/cast/flow/enum/byvalue + C04 index patterns); distinct_nontrivial = unique variant ids",
		Bound: "deviation 1 (single rewrites)"})
}
