// Package c05: a non-void function always returns a value from a `return` statement.
// All bodies of a small statement grammar x {function, method, function literal, nested
// literal}. (i) a body with a syntactic path to its end must be rejected; (ii) accepted
// bodies are executed on every argument in {-1,0,1,2,3}: the reference interpreter must not
// fall off the end, and the executable must print the interpreter's return values.
package c05

import (
	"fmt"
	"os"
	"path/filepath"
	"strings"

	"compiler/verifh/fe"
	"compiler/verifh/fl"
	"compiler/verifh/prog"
	"compiler/verifh/vl"
)

// ---- the grammar: generators return a statement list and a short description

type gen struct {
	desc string
	mk   func(ret *int) []fl.Stmt // ret numbers the return statements so that each returns a distinct literal
	enum bool                     // uses the enum Col3 and the helper pick3 (declared by build)
}

// the enum of the enum-match bodies; pick3(v) maps v <= 0, 1, >= 2 to A, B, C
var col3 = &fl.TEnum{Name: "Col3", Variants: []string{"A", "B", "C"}}
var pick3 = &fl.Func{Name: "pick3", Shared: true, Params: []fl.Param{{"v", fl.I32}}, Ret: col3, Body: []fl.Stmt{
	&fl.If{Cond: fl.B("<=", fl.V("v"), c(0)), Then: []fl.Stmt{&fl.Return{X: &fl.EnumVal{T: col3, V: "A"}}}},
	&fl.If{Cond: fl.B("==", fl.V("v"), c(1)), Then: []fl.Stmt{&fl.Return{X: &fl.EnumVal{T: col3, V: "B"}}}},
	&fl.Return{X: &fl.EnumVal{T: col3, V: "C"}}}}

// enumMatchGens: `match pick3(x) { arms }` for every sequence of 1..4 arms over the three
// variants (repetitions included) with and without a default arm; every arm returns.
func enumMatchGens() []gen {
	var out []gen
	var rec func(seq []int)
	rec = func(seq []int) {
		if len(seq) > 0 {
			for _, def := range []bool{false, true} {
				seq, def := append([]int{}, seq...), def
				d := "ematch["
				for _, v := range seq {
					d += col3.Variants[v]
				}
				d += "]"
				if def {
					d += "+_"
				}
				out = append(out, gen{desc: d, enum: true, mk: func(n *int) []fl.Stmt {
					m := &fl.Match{Subj: fl.C("pick3", x())}
					for _, v := range seq {
						m.Arms = append(m.Arms, fl.Arm{Pat: &fl.EnumVal{T: col3, V: col3.Variants[v]}, Body: []fl.Stmt{retStmt(n)}})
					}
					if def {
						m.Arms = append(m.Arms, fl.Arm{Body: []fl.Stmt{retStmt(n)}})
					}
					return []fl.Stmt{m}
				}})
			}
		}
		if len(seq) == 4 {
			return
		}
		for v := 0; v < 3; v++ {
			rec(append(seq, v))
		}
	}
	rec(nil)
	return out
}

// loopCondGens: a loop whose condition is a local bool the compiler might think it knows.
func loopCondGens() []gen {
	b := func(v bool) fl.Expr { return &fl.BoolLit{V: v} }
	f := fl.V("f")
	letf := func(v bool, konst bool) fl.Stmt { return &fl.Let{Name: "f", T: fl.Bool, Init: b(v), Const: konst} }
	var out []gen
	add := func(d string, mk func(n *int) []fl.Stmt) { out = append(out, gen{desc: d, mk: mk}) }
	// the loop is skipped (f is false when it is reached), nothing returns after it
	add("f=false;while-f{ret};f=true", func(n *int) []fl.Stmt {
		return []fl.Stmt{letf(false, false), &fl.While{Cond: f, Body: []fl.Stmt{retStmt(n)}}, &fl.Assign{LHS: f, RHS: b(true)}}
	})
	add("f=false;while-f{ret}", func(n *int) []fl.Stmt {
		return []fl.Stmt{letf(false, false), &fl.While{Cond: f, Body: []fl.Stmt{retStmt(n)}}}
	})
	add("const-f=false;while-f{ret}", func(n *int) []fl.Stmt {
		return []fl.Stmt{letf(false, true), &fl.While{Cond: f, Body: []fl.Stmt{retStmt(n)}}}
	})
	add("f=true;f=false;while-f{ret}", func(n *int) []fl.Stmt {
		return []fl.Stmt{letf(true, false), &fl.Assign{LHS: f, RHS: b(false)}, &fl.While{Cond: f, Body: []fl.Stmt{retStmt(n)}}}
	})
	add("f=true;if{f=false};while-f{ret}", func(n *int) []fl.Stmt {
		return []fl.Stmt{letf(true, false), &fl.If{Cond: fl.B("<", x(), c(1)), Then: []fl.Stmt{&fl.Assign{LHS: f, RHS: b(false)}}}, &fl.While{Cond: f, Body: []fl.Stmt{retStmt(n)}}}
	})
	add("f=x<1;while-f{ret}", func(n *int) []fl.Stmt {
		return []fl.Stmt{&fl.Let{Name: "f", T: fl.Bool, Init: fl.B("<", x(), c(1))}, &fl.While{Cond: f, Body: []fl.Stmt{retStmt(n)}}}
	})
	add("while-1<2{if{ret}};", func(n *int) []fl.Stmt {
		return []fl.Stmt{&fl.Let{Name: "i", T: fl.I32, Init: c(0)}, &fl.While{Cond: fl.B("<", fl.V("i"), c(2)), Body: []fl.Stmt{&fl.IncDec{LHS: fl.V("i"), Inc: true}, &fl.If{Cond: fl.B("<", x(), c(1)), Then: []fl.Stmt{retStmt(n)}}}}}
	})
	add("if-f{ret}else-if-not-f{ret}", func(n *int) []fl.Stmt {
		return []fl.Stmt{&fl.Let{Name: "f", T: fl.Bool, Init: fl.B("<", x(), c(1))}, &fl.If{Cond: f, Then: []fl.Stmt{retStmt(n)}, Else: []fl.Stmt{&fl.If{Cond: &fl.Un{Op: "!", X: f}, Then: []fl.Stmt{retStmt(n)}}}}}
	})
	return out
}

// loopBodyGens: loop bodies of two and three statements over guard clauses (`if c { break }`,
// `if c { continue }`, `if c { return }`) and plain statements, in the three loop forms, with
// nothing / a return after the loop: the return analysis has to keep the edge of every guard.
func loopBodyGens(maxLen int) []gen {
	at := atoms(true)
	var parts []gen
	for _, a := range at {
		a := a
		parts = append(parts, a, gen{desc: "if{" + a.desc + "}", mk: func(n *int) []fl.Stmt { return []fl.Stmt{&fl.If{Cond: fl.B("<", x(), c(1)), Then: a.mk(n)}} }})
	}
	var bodies []gen
	var rec func(pre gen, k int)
	rec = func(pre gen, k int) {
		if k >= 2 {
			bodies = append(bodies, pre)
		}
		if k == maxLen {
			return
		}
		for _, p := range parts {
			p, pre := p, pre
			d := p.desc
			if pre.desc != "" {
				d = pre.desc + ";" + p.desc
			}
			rec(gen{desc: d, mk: func(n *int) []fl.Stmt {
				var o []fl.Stmt
				if pre.mk != nil {
					o = pre.mk(n)
				}
				return append(o, p.mk(n)...)
			}}, k+1)
		}
	}
	rec(gen{}, 0)
	var out []gen
	for _, b := range bodies {
		for _, after := range []string{"", "ret"} {
			b, after := b, after
			tail := func(n *int, st []fl.Stmt) []fl.Stmt {
				if after == "ret" {
					return append(st, retStmt(n))
				}
				return st
			}
			sfx := ""
			if after != "" {
				sfx = ";" + after
			}
			out = append(out,
				gen{desc: "whiletrue{" + b.desc + "}" + sfx, mk: func(n *int) []fl.Stmt {
					return tail(n, []fl.Stmt{&fl.Let{Name: "i", T: fl.I32, Init: c(0)}, &fl.While{Cond: &fl.BoolLit{V: true}, Body: append([]fl.Stmt{&fl.IncDec{LHS: fl.V("i"), Inc: true},
						&fl.If{Cond: fl.B(">", fl.V("i"), c(3)), Then: []fl.Stmt{retStmt(n)}}}, b.mk(n)...)}})
				}},
				gen{desc: "while{" + b.desc + "}" + sfx, mk: func(n *int) []fl.Stmt {
					return tail(n, []fl.Stmt{&fl.Let{Name: "i", T: fl.I32, Init: c(0)}, &fl.While{Cond: fl.B("<", fl.V("i"), x()), Body: append([]fl.Stmt{&fl.IncDec{LHS: fl.V("i"), Inc: true}}, b.mk(n)...)}})
				}},
				gen{desc: "for{" + b.desc + "}" + sfx, mk: func(n *int) []fl.Stmt {
					return tail(n, []fl.Stmt{&fl.Let{Name: "lo", T: fl.I32, Init: c(0)}, &fl.ForRange{Var: "i", Lo: fl.V("lo"), Hi: x(), Body: b.mk(n)}})
				}})
		}
	}
	return out
}

func x() fl.Expr          { return fl.V("x") }
func c(v int64) fl.Expr   { return fl.L(fl.I32, v) }
func retStmt(n *int) fl.Stmt {
	*n++
	return &fl.Return{X: c(int64(100 + *n))}
}

func atoms(inLoop bool) []gen {
	a := []gen{
		{desc: "ret", mk: func(n *int) []fl.Stmt { return []fl.Stmt{retStmt(n)} }},
		{desc: "inc", mk: func(n *int) []fl.Stmt { return []fl.Stmt{&fl.Assign{LHS: fl.V("y"), RHS: fl.B("+", fl.V("y"), c(1))}} }},
	}
	if inLoop {
		a = append(a, gen{desc: "brk", mk: func(n *int) []fl.Stmt { return []fl.Stmt{&fl.Break{}} }},
			gen{desc: "cont", mk: func(n *int) []fl.Stmt {
				return []fl.Stmt{&fl.Assign{LHS: fl.V("y"), RHS: fl.B("+", fl.V("y"), c(1))}, &fl.If{Cond: fl.B("<", fl.V("y"), c(50)), Then: []fl.Stmt{&fl.Continue{}}}}
			}})
	}
	return a
}

func blocks(depth int, inLoop bool, maxLen int) []gen {
	st := stmts(depth, inLoop)
	out := append([]gen{}, st...)
	if maxLen >= 2 {
		for _, a := range st {
			for _, b := range st {
				a, b := a, b
				out = append(out, gen{desc: a.desc + ";" + b.desc, mk: func(n *int) []fl.Stmt { return append(a.mk(n), b.mk(n)...) }})
			}
		}
	}
	return out
}

func stmts(depth int, inLoop bool) []gen {
	out := atoms(inLoop)
	if depth == 0 {
		return out
	}
	inner := blocks(depth-1, inLoop, 1)
	if depth >= 2 {
		inner = blocks(depth-1, inLoop, 1)
	}
	for _, b := range inner {
		b := b
		out = append(out,
			gen{desc: "if{" + b.desc + "}", mk: func(n *int) []fl.Stmt { return []fl.Stmt{&fl.If{Cond: fl.B("<", x(), c(1)), Then: b.mk(n)}} }},
		)
		for _, b2 := range inner {
			b2 := b2
			out = append(out,
				gen{desc: "if{" + b.desc + "}else{" + b2.desc + "}", mk: func(n *int) []fl.Stmt {
					return []fl.Stmt{&fl.If{Cond: fl.B("<", x(), c(1)), Then: b.mk(n), Else: b2.mk(n)}}
				}})
		}
		// else-if chain with final else
		out = append(out, gen{desc: "if{" + b.desc + "}elif{ret}else{" + b.desc + "}", mk: func(n *int) []fl.Stmt {
			return []fl.Stmt{&fl.If{Cond: fl.B("<", x(), c(0)), Then: b.mk(n), Else: []fl.Stmt{&fl.If{Cond: fl.B("==", x(), c(0)), Then: []fl.Stmt{retStmt(n)}, Else: b.mk(n)}}}}
		}})
		// match on x with arms subset of {1,2}, with/without default
		for _, arms := range [][]int64{{1}, {1, 2}} {
			for _, def := range []bool{false, true} {
				arms, def := arms, def
				d := fmt.Sprintf("match%v", arms)
				if def {
					d += "+_"
				}
				out = append(out, gen{desc: d + "{" + b.desc + "}", mk: func(n *int) []fl.Stmt {
					m := &fl.Match{Subj: x()}
					for _, a := range arms {
						m.Arms = append(m.Arms, fl.Arm{Pat: c(a), Body: b.mk(n)})
					}
					if def {
						m.Arms = append(m.Arms, fl.Arm{Body: b.mk(n)})
					}
					return []fl.Stmt{m}
				}})
			}
		}
	}
	if !inLoop {
		for _, b := range blocks(depth-1, true, 1) {
			b := b
			out = append(out,
				gen{desc: "while{" + b.desc + "}", mk: func(n *int) []fl.Stmt {
					return []fl.Stmt{&fl.Block{Body: []fl.Stmt{&fl.Let{Name: "i", T: fl.I32, Init: c(0)}, &fl.While{Cond: fl.B("<", fl.V("i"), x()), Body: append([]fl.Stmt{&fl.IncDec{LHS: fl.V("i"), Inc: true}}, b.mk(n)...)}}}}
				}},
				gen{desc: "whiletrue{" + b.desc + "}", mk: func(n *int) []fl.Stmt {
					// `while true` leaves only through break/return; the counter bounds runs that do neither
					return []fl.Stmt{&fl.Block{Body: []fl.Stmt{&fl.Let{Name: "i", T: fl.I32, Init: c(0)}, &fl.While{Cond: &fl.BoolLit{V: true}, Body: append([]fl.Stmt{&fl.IncDec{LHS: fl.V("i"), Inc: true},
						&fl.If{Cond: fl.B(">", fl.V("i"), c(3)), Then: []fl.Stmt{retStmt(n)}}}, b.mk(n)...)}}}}
				}},
				gen{desc: "for{" + b.desc + "}", mk: func(n *int) []fl.Stmt {
					return []fl.Stmt{&fl.Block{Body: []fl.Stmt{&fl.Let{Name: "lo", T: fl.I32, Init: c(0)}, &fl.ForRange{Var: "i", Lo: fl.V("lo"), Hi: x(), Body: b.mk(n)}}}}
				}})
		}
	}
	return out
}

// ---- structural analysis: can control reach the end of the list?

type flow struct{ falls, breaks bool }

func analyse(body []fl.Stmt) flow {
	f := flow{falls: true}
	for _, s := range body {
		if !f.falls {
			break // unreachable rest
		}
		r := analyseStmt(s)
		f.falls = r.falls
		f.breaks = f.breaks || r.breaks
	}
	return f
}

func analyseStmt(s fl.Stmt) flow {
	switch s := s.(type) {
	case *fl.Return:
		return flow{}
	case *fl.Break:
		return flow{breaks: true}
	case *fl.Continue:
		return flow{}
	case *fl.If:
		t := analyse(s.Then)
		if s.Else == nil {
			return flow{falls: true, breaks: t.breaks}
		}
		e := analyse(s.Else)
		return flow{falls: t.falls || e.falls, breaks: t.breaks || e.breaks}
	case *fl.Match:
		hasDefault := false
		f := flow{}
		named := map[string]bool{}
		var en *fl.TEnum
		for _, a := range s.Arms {
			if ev, ok := a.Pat.(*fl.EnumVal); ok {
				named[ev.V] = true
				en = ev.T
			}
		}
		if en != nil && len(named) == len(en.Variants) {
			hasDefault = true // every variant is named: some arm is always taken
		}
		for _, a := range s.Arms {
			if a.Pat == nil {
				hasDefault = true
			}
			r := analyse(a.Body)
			f.falls = f.falls || r.falls
			f.breaks = f.breaks || r.breaks
		}
		if !hasDefault {
			f.falls = true
		}
		return f
	case *fl.While:
		b := analyse(s.Body)
		if bl, ok := s.Cond.(*fl.BoolLit); ok && bl.V {
			return flow{falls: b.breaks}
		}
		return flow{falls: true}
	case *fl.ForRange:
		return flow{falls: true}
	case *fl.Block:
		return analyse(s.Body)
	}
	return flow{falls: true}
}

// ---- programs

var kinds = []string{"func", "method", "funclit", "nested-funclit"}

// placements of a function literal inside other statements (the analysis has to find the
// literal wherever it is written); explored with the single-statement bodies
var placedKinds = []string{"funclit-in-if", "funclit-in-elseif", "funclit-in-else", "funclit-in-while", "funclit-in-for", "funclit-in-match-arm", "funclit-in-catch-handler", "funclit-as-argument", "funclit-returned"}

func build(g gen, kind, sfx string) (*fl.Program, []fl.Stmt) {
	n := 0
	body := append([]fl.Stmt{&fl.Let{Name: "y", T: fl.I32, Init: c(0)}}, g.mk(&n)...)
	p := &fl.Program{}
	if g.enum {
		p.Enums = append(p.Enums, col3)
		p.Funcs = append(p.Funcs, pick3)
	}
	var mainBody []fl.Stmt
	args := []int64{-1, 0, 1, 2, 3}
	switch kind {
	case "func":
		p.Funcs = append(p.Funcs, &fl.Func{Name: "f" + sfx, Params: []fl.Param{{"x", fl.I32}}, Ret: fl.I32, Body: body})
		for _, a := range args {
			mainBody = append(mainBody, fl.P(fl.C("f"+sfx, c(a))))
		}
	case "method":
		st := &fl.TStruct{Name: "R" + sfx, Fields: []fl.Field{{"V", fl.I32}}}
		p.Structs = append(p.Structs, st)
		p.Funcs = append(p.Funcs, &fl.Func{Name: "m", Recv: &fl.Param{"s", st}, Params: []fl.Param{{"x", fl.I32}}, Ret: fl.I32, Body: body})
		mainBody = append(mainBody, &fl.Let{Name: "r", Init: &fl.StructLit{T: st, Vals: []fl.Expr{c(1)}}})
		for _, a := range args {
			mainBody = append(mainBody, fl.P(&fl.MCall{Recv: fl.V("r"), Name: "m", Args: []fl.Expr{c(a)}}))
		}
	case "funclit":
		mainBody = append(mainBody, &fl.Let{Name: "f", Init: &fl.FuncLit{Params: []fl.Param{{"x", fl.I32}}, Ret: fl.I32, Body: body}})
		for _, a := range args {
			mainBody = append(mainBody, fl.P(&fl.Call{Fn: "f", Args: []fl.Expr{c(a)}}))
		}
	case "funclit-in-if", "funclit-in-elseif", "funclit-in-else", "funclit-in-while", "funclit-in-for", "funclit-in-match-arm", "funclit-in-catch-handler":
		inner := []fl.Stmt{&fl.Let{Name: "f", Init: &fl.FuncLit{Params: []fl.Param{{"x", fl.I32}}, Ret: fl.I32, Body: body}}}
		for _, a := range args {
			inner = append(inner, fl.P(&fl.Call{Fn: "f", Args: []fl.Expr{c(a)}}))
		}
		one := &fl.Let{Name: "one", T: fl.I32, Init: c(1)}
		mainBody = append(mainBody, one)
		switch kind {
		case "funclit-in-if":
			mainBody = append(mainBody, &fl.If{Cond: fl.B("==", fl.V("one"), c(1)), Then: inner})
		case "funclit-in-elseif":
			mainBody = append(mainBody, &fl.If{Cond: fl.B("==", fl.V("one"), c(0)), Then: []fl.Stmt{fl.P(fl.S("no"))},
				Else: []fl.Stmt{&fl.If{Cond: fl.B("==", fl.V("one"), c(1)), Then: inner, Else: []fl.Stmt{fl.P(fl.S("no"))}}}})
		case "funclit-in-else":
			mainBody = append(mainBody, &fl.If{Cond: fl.B("==", fl.V("one"), c(0)), Then: []fl.Stmt{fl.P(fl.S("no"))}, Else: inner})
		case "funclit-in-while":
			mainBody = append(mainBody, &fl.Let{Name: "w", T: fl.I32, Init: c(0)}, &fl.While{Cond: fl.B("<", fl.V("w"), c(1)), Body: append(inner, &fl.IncDec{LHS: fl.V("w"), Inc: true})})
		case "funclit-in-for":
			mainBody = append(mainBody, &fl.Let{Name: "z", T: fl.I32, Init: c(0)}, &fl.ForRange{Var: "it", Lo: fl.V("z"), Hi: fl.V("one"), Body: inner})
		case "funclit-in-match-arm":
			mainBody = append(mainBody, &fl.Match{Subj: fl.V("one"), Arms: []fl.Arm{{Pat: c(1), Body: inner}, {Body: []fl.Stmt{fl.P(fl.S("no"))}}}})
		case "funclit-in-catch-handler":
			p.Funcs = append(p.Funcs, &fl.Func{Name: "fails" + sfx, Ret: fl.TResult{Err: fl.Str, Ok: fl.I32}, Body: []fl.Stmt{&fl.ReturnErr{X: fl.S("e")}}})
			mainBody = append(mainBody, &fl.Let{Name: "cv", Init: &fl.Catch{X: fl.C("fails" + sfx), ErrName: "e", Handler: inner, Fallback: c(0)}}, fl.P(fl.V("cv")))
		}
	case "funclit-as-argument":
		ft := fl.TFunc{Params: []fl.Type{fl.I32}, Ret: fl.I32}
		p.Funcs = append(p.Funcs, &fl.Func{Name: "apply" + sfx, Params: []fl.Param{{"g", ft}, {"v", fl.I32}}, Ret: fl.I32, Body: []fl.Stmt{&fl.Return{X: &fl.Call{Fn: "g", Args: []fl.Expr{fl.V("v")}}}}})
		for _, a := range args {
			mainBody = append(mainBody, fl.P(fl.C("apply"+sfx, &fl.FuncLit{Params: []fl.Param{{"x", fl.I32}}, Ret: fl.I32, Body: body}, c(a))))
		}
	case "funclit-returned":
		ft := fl.TFunc{Params: []fl.Type{fl.I32}, Ret: fl.I32}
		p.Funcs = append(p.Funcs, &fl.Func{Name: "mk" + sfx, Ret: ft, Body: []fl.Stmt{&fl.Return{X: &fl.FuncLit{Params: []fl.Param{{"x", fl.I32}}, Ret: fl.I32, Body: body}}}})
		mainBody = append(mainBody, &fl.Let{Name: "f", Init: fl.C("mk" + sfx)})
		for _, a := range args {
			mainBody = append(mainBody, fl.P(&fl.Call{Fn: "f", Args: []fl.Expr{c(a)}}))
		}
	case "nested-funclit":
		inner := &fl.FuncLit{Params: []fl.Param{{"x", fl.I32}}, Ret: fl.I32, Body: body}
		outer := &fl.FuncLit{Params: []fl.Param{{"z", fl.I32}}, Ret: fl.I32, Body: []fl.Stmt{&fl.Let{Name: "g", Init: inner}, &fl.Return{X: &fl.Call{Fn: "g", Args: []fl.Expr{fl.V("z")}}}}}
		mainBody = append(mainBody, &fl.Let{Name: "f", Init: outer})
		for _, a := range args {
			mainBody = append(mainBody, fl.P(&fl.Call{Fn: "f", Args: []fl.Expr{c(a)}}))
		}
	}
	p.Funcs = append(p.Funcs, &fl.Func{Name: "main", Body: mainBody})
	return p, body
}

func Run(ctx *vl.Ctx) {
	quick := ctx.Quick()
	depth := 1
	if !quick {
		depth = 2
	}
	gens := blocks(depth, false, 2)
	gens = append(gens, enumMatchGens()...)
	gens = append(gens, loopCondGens()...)
	gens = append(gens, loopBodyGens(map[bool]int{true: 2, false: 3}[quick])...)
	type item struct {
		id       string
		p        *fl.Program
		mustRej  bool
		kind     string
	}
	var items []item
	seen := map[string]bool{}
	seq := 0
	for _, g := range gens {
		if seen[g.desc] {
			continue
		}
		seen[g.desc] = true
		ks := kinds
		if !strings.Contains(g.desc, ";") {
			ks = append(append([]string{}, kinds...), placedKinds...) // single-statement bodies also in every placement
		}
		for _, kind := range ks {
			id := fmt.Sprintf("C05/%s/%s", kind, g.desc)
			if f := os.Getenv("VERIF_FILTER"); f != "" && !strings.Contains(id, f) {
				continue
			}
			seq++
			p, body := build(g, kind, fmt.Sprintf("_%d", seq))
			items = append(items, item{id, p, analyse(body).falls, kind})
		}
	}
	pool := fe.NewPool(ctx.W, filepath.Join(ctx.Repo, "ferret_libs"), 16)
	accepted := make([]bool, len(items))
	answered := make([]bool, len(items))
	pool.Map(len(items), func(i int) *fe.Project {
		return &fe.Project{Files: map[string]string{"main.fer": fl.Render(items[i].p)}, Entry: "main.fer", Mode: "check", NoRender: true}
	}, func(i int, r *fe.Result) {
		it := items[i]
		if r.Panic != "" || r.Timeout || r.Crash != "" {
			ctx.Fail(vl.Fail{Case: it.id + "/no-answer", Obs: "front end did not answer: panic=" + r.Panic + " " + r.PanicFrame + " crash=" + r.Crash, Files: map[string]string{"main.fer": fl.Render(it.p)}})
			return
		}
		answered[i] = true
		accepted[i] = r.Success
		ctx.Outcome(fmt.Sprintf("kind=%s falls_off=%v accepted=%v", it.kind, it.mustRej, r.Success))
		ctx.Distinct(it.id)
		if it.mustRej && r.Success {
			ctx.Fail(vl.Fail{Case: it.id + "/accepted-fallthrough", Obs: "accepted although a path reaches the end of the body without returning", Files: map[string]string{"main.fer": fl.Render(it.p)}})
		}
		if !it.mustRej && !r.Success {
			ctx.Count("over_rejected_all_paths_return", 1) // counted, not judged
		}
	})
	pool.Close()
	// (ii) run what was accepted (including wrongly accepted bodies: the witness argument goes into the replay)
	var live []*prog.Case
	for i, it := range items {
		if answered[i] && accepted[i] {
			live = append(live, &prog.Case{ID: it.id, P: it.p, Want: fl.Run(it.p)})
		}
	}
	r := prog.New(ctx)
	var runnable []*prog.Case
	for _, k := range live {
		if strings.HasPrefix(k.Want.Term, "fault:FellOffEnd") {
			// already reported by (i) when the structural analysis saw it; if the interpreter falls off
			// where the analysis said it cannot, the analysis is wrong: harness error
			continue
		}
		if strings.HasPrefix(k.Want.Term, "fault:") {
			ctx.Fail(vl.Fail{Case: k.ID + "/HARNESS", Obs: "reference interpreter fault: " + k.Want.Term, Files: map[string]string{"main.fer": fl.Render(k.P)}})
			continue
		}
		runnable = append(runnable, k)
	}
	obs := r.Observe(runnable, "native", func(i int) *prog.Obs { return prog.WantObs(runnable[i].Want) })
	for i, k := range runnable {
		o := obs[i]
		files := map[string]string{"main.fer": fl.Render(k.P), "expected.txt": k.Want.String(), "observed.txt": o.String()}
		switch {
		case !o.Accepted:
			ctx.Count("accepted_by_front_end_rejected_later", 1)
			if strings.HasPrefix(o.Reject, "exit status 0") {
				ctx.Fail(vl.Fail{Case: k.ID + "/no-executable", Obs: o.Reject, Files: files})
			}
		case !o.SameBehaviour(k.Want):
			ctx.Fail(vl.Fail{Case: k.ID + "/wrong-return", Obs: fmt.Sprintf("want %s got %s", prog.WantObs(k.Want), o), Files: files})
		default:
			ctx.Outcome("returns-agree")
		}
	}
	for _, i := range []int{0, len(items) / 2, len(items) - 1} {
		if i >= 0 && i < len(items) {
			ctx.Sample(map[string]string{"id": items[i].id, "program": fl.Render(items[i].p), "falls_off": fmt.Sprint(items[i].mustRej)})
		}
	}
	r.Report()
	r.Close()
	ctx.Count("bodies_executed", int64(len(runnable)))
	ctx.Assume = append(ctx.Assume, "falls-off is syntactic: every non-constant condition may go either way, a loop may run zero times, `while true` is left only by break/return, a match without `_` may match nothing",
		"over-rejection (all paths return, yet rejected) is counted, not judged")
	ctx.Finish(vl.Coverage{Evaluations: int64(len(items)), Exhaustive: true,
		Rule:  fmt.Sprintf("all blocks of <=2 statements, nesting depth %d, over {return, assignment, if, if/else, else-if chain, match with arms {1},{1,2} with/without default, while, while true, for-range, break, continue} x 4 body kinds; distinct_nontrivial = unique (kind, body) pairs answered by the front end", depth),
		Bound: fmt.Sprintf("depth=%d len<=2", depth)})
}
