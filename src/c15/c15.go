// Package c15: import graphs - cycles rejected, DAGs built, under all schedules.
//
// (i) real pipeline, all interleavings (Engine C, see packages sched/vsync and
// tools/rewriter): every directed graph on the node sets {main}, {main,a}, {main,a,b} with
// self-loops allowed and every node reachable from main. Each module exports
// `fn Fn() -> i32` returning its constant plus the sum of its imports' Fn(). Acyclic graphs
// additionally come in the styles `alias` (every import aliased) and `repeat` (every import
// written twice, the second time under another alias). Every schedule up to the preemption
// bound is executed on the instrumented current tree; EVERY distinct observation is judged:
//
//	cyclic  => both compiles fail, >=1 diagnostic "circular import detected", no deadlock, no
//	           IL section, no wasm bytes, no module parsed twice
//	acyclic => both compiles succeed, parseModule entered exactly once per module (rewriter
//	           hook), IL for every module, wasm bytes; and (default schedule, real `ferret`
//	           binary, native) the program prints the closed-form sum.
//
// (ii) explicit-state BFS over the real context_v2.CompilerContext (un-instrumented): per
// module the program of parse.go - AddDependency(m, "global"), AddDependency(m, imp) for
// every import, then processModule(imp) for every import (a module runs only once spawned) -
// all interleavings, for every loop-free digraph on 4 nodes up to renaming of the three
// non-entry nodes and every digraph WITH self-loops on <=3 nodes, all nodes reachable from
// the entry. State = (DepGraph, program counters, spawned set). Invariant in every state:
// DepGraph acyclic and a sub-graph of the input; in every final state: cyclic input => some
// AddDependency returned a "circular import detected" error; acyclic input => none did,
// DepGraph = input graph, and ComputeTopologicalOrder lists every module exactly once and
// after all its imports.
//
// Deviations from DESIGN.md C15: graphs are enumerated over the three node sets (the design
// says {main,a,b}; with "every node reachable" that alone would leave 5 acyclic graphs);
// (ii) restores a state by building a CompilerContext value with copied exported maps
// (Modules, DepGraph) instead of replaying the history - the methods under test run on it
// unchanged.
package c15

import (
	"encoding/json"
	"fmt"
	"os"
	"path/filepath"
	"sort"
	"strconv"
	"strings"
	"sync"
	"time"

	"compiler/internal/context_v2"
	"compiler/verifh/run"
	"compiler/verifh/sched"
	"compiler/verifh/vl"
)

var names = []string{"main", "a", "b"}
var konst = []int{1, 10, 100}

type graph struct {
	n     int
	adj   [3][3]bool
	style string // plain | alias | repeat
	id    string
	edges int
	cyc   bool
}

func (g *graph) reach() bool {
	seen := [3]bool{true}
	st := []int{0}
	for len(st) > 0 {
		x := st[len(st)-1]
		st = st[:len(st)-1]
		for y := 0; y < g.n; y++ {
			if g.adj[x][y] && !seen[y] {
				seen[y] = true
				st = append(st, y)
			}
		}
	}
	for i := 0; i < g.n; i++ {
		if !seen[i] {
			return false
		}
	}
	return true
}

func (g *graph) cyclic() bool {
	// Kahn
	indeg := [3]int{}
	for x := 0; x < g.n; x++ {
		for y := 0; y < g.n; y++ {
			if g.adj[x][y] {
				indeg[y]++
			}
		}
	}
	done := 0
	var q []int
	for i := 0; i < g.n; i++ {
		if indeg[i] == 0 {
			q = append(q, i)
		}
	}
	for len(q) > 0 {
		x := q[0]
		q = q[1:]
		done++
		for y := 0; y < g.n; y++ {
			if g.adj[x][y] {
				indeg[y]--
				if indeg[y] == 0 {
					q = append(q, y)
				}
			}
		}
	}
	return done != g.n
}

func graphs() []*graph {
	var out []*graph
	for n := 1; n <= 3; n++ {
		for m := 0; m < 1<<(n*n); m++ {
			g := &graph{n: n, style: "plain"}
			var es []string
			for x := 0; x < n; x++ {
				for y := 0; y < n; y++ {
					if m>>(x*n+y)&1 == 1 {
						g.adj[x][y] = true
						g.edges++
						es = append(es, names[x]+">"+names[y])
					}
				}
			}
			if !g.reach() {
				continue
			}
			g.cyc = g.cyclic()
			g.id = strings.Join(es, "+")
			if g.id == "" {
				g.id = "none"
			}
			out = append(out, g)
			if !g.cyc && g.edges > 0 {
				for _, st := range []string{"alias", "repeat"} {
					h := *g
					h.style = st
					h.id = g.id + ";" + st
					out = append(out, &h)
				}
			}
		}
	}
	sort.SliceStable(out, func(i, j int) bool {
		if out[i].edges != out[j].edges {
			return out[i].edges < out[j].edges
		}
		return out[i].n < out[j].n
	})
	return out
}

// value is the closed-form result of Fn() of node x (acyclic graphs).
func (g *graph) value(x int) int {
	v := konst[x]
	for y := 0; y < g.n; y++ {
		if g.adj[x][y] {
			k := 1
			if g.style == "repeat" {
				k = 2
			}
			v += k * g.value(y)
		}
	}
	return v
}

func (g *graph) files(print bool) map[string]string {
	files := map[string]string{}
	for x := 0; x < g.n; x++ {
		var sb strings.Builder
		if x == 0 && print {
			sb.WriteString("import \"std/io\";\n")
		}
		expr := strconv.Itoa(konst[x])
		for y := 0; y < g.n; y++ {
			if !g.adj[x][y] {
				continue
			}
			switch g.style {
			case "plain":
				fmt.Fprintf(&sb, "import \"proj/%s\";\n", names[y])
				expr += fmt.Sprintf(" + %s::Fn()", names[y])
			case "alias":
				fmt.Fprintf(&sb, "import \"proj/%s\" as x%s;\n", names[y], names[y])
				expr += fmt.Sprintf(" + x%s::Fn()", names[y])
			case "repeat":
				fmt.Fprintf(&sb, "import \"proj/%s\";\nimport \"proj/%s\" as r%s;\n", names[y], names[y], names[y])
				expr += fmt.Sprintf(" + %s::Fn() + r%s::Fn()", names[y], names[y])
			}
		}
		fmt.Fprintf(&sb, "fn Fn() -> i32 {\n    return %s;\n}\n", expr)
		if x == 0 {
			if print {
				sb.WriteString("fn main() {\n    io::Println(Fn());\n}\n")
			} else {
				sb.WriteString("fn main() {\n    let r := Fn();\n}\n")
			}
		}
		files[names[x]+".fer"] = sb.String()
	}
	return files
}

// ---------------------------------------------------------------------------------
// oracle over canonical observations

type half struct {
	present bool
	success bool
	status  string
	abort   string
	diags   []string
	counts  map[string]int
}

type obs struct {
	il, wasm half
	ilMods   map[string]bool
	wasmLen  int
	wasmDisk bool
}

func parseHalf(sec map[string]string, name string) half {
	h := half{counts: map[string]int{}}
	if _, ok := sec["status "+name]; !ok {
		return h
	}
	h.present = true
	st := strings.Split(sec["status "+name], "\n")
	if len(st) > 0 {
		h.status = st[0]
		h.success = strings.HasPrefix(st[0], "success=true")
	}
	if len(st) > 1 {
		h.abort = strings.TrimSuffix(strings.TrimPrefix(st[1], "abort=\""), "\"")
	}
	for _, l := range strings.Split(sec["diagnostics "+name], "\n") {
		if l != "" {
			h.diags = append(h.diags, l)
		}
	}
	for _, l := range strings.Split(sec["counts "+name], "\n") {
		if i := strings.LastIndex(l, "="); i > 0 {
			n, _ := strconv.Atoi(l[i+1:])
			h.counts[l[:i]] = n
		}
	}
	return h
}

func parseObs(text string) *obs {
	order, sec := sched.Sections(text)
	o := &obs{il: parseHalf(sec, "il"), wasm: parseHalf(sec, "wasm"), ilMods: map[string]bool{}}
	for _, k := range order {
		if strings.HasPrefix(k, "il ") {
			o.ilMods[strings.TrimPrefix(k, "il ")] = true
		}
	}
	fmt.Sscanf(sec["wasm"], "len=%d", &o.wasmLen)
	o.wasmDisk = strings.Contains(sec["wasm"], "ondisk=true")
	return o
}

type verdict struct {
	what, detail string
}

func hasCircular(h half) bool {
	for _, d := range h.diags {
		if strings.HasPrefix(d, "error|") && strings.Contains(d, "circular import detected") {
			return true
		}
	}
	return false
}

func judgeObs(g *graph, text string) []verdict {
	o := parseObs(text)
	var v []verdict
	add := func(w, d string) { v = append(v, verdict{w, d}) }
	for _, hh := range []struct {
		n string
		h half
	}{{"il", o.il}, {"wasm", o.wasm}} {
		h := hh.h
		if !h.present {
			continue
		}
		if strings.HasPrefix(h.abort, "deadlock") || strings.HasPrefix(h.abort, "step-budget") {
			add("deadlock", hh.n+" compile: "+h.abort)
			continue
		}
		if h.abort != "" || strings.Contains(h.status, "panic=\"") && !strings.Contains(h.status, "panic=\"\"") {
			add("panic", hh.n+" compile: "+h.abort+" "+h.status)
			continue
		}
		// no module is ever parsed twice
		var ks []string
		for k := range h.counts {
			ks = append(ks, k)
		}
		sort.Strings(ks)
		for _, k := range ks {
			if h.counts[k] > 1 {
				add("parsed-more-than-once", fmt.Sprintf("%s compile: %s entered %d times", hh.n, k, h.counts[k]))
			}
		}
		if g.cyc {
			if h.success {
				add("cycle-accepted", hh.n+" compile succeeds")
			} else if !hasCircular(h) {
				add("no-circular-import-error", hh.n+" compile fails without a circular-import diagnostic: "+strings.Join(h.diags, " / "))
			}
		} else {
			if !h.success {
				add("dag-rejected", hh.n+" compile fails: "+strings.Join(h.diags, " / ")+" "+h.status)
				continue
			}
			want := []string{"global"}
			for x := 0; x < g.n; x++ {
				want = append(want, "proj/"+names[x])
			}
			for _, m := range want {
				if h.counts["parseModule:"+m] != 1 {
					add("not-parsed-exactly-once", fmt.Sprintf("%s compile: parseModule(%s) entered %d times", hh.n, m, h.counts["parseModule:"+m]))
				}
			}
			if len(h.counts) != len(want) {
				add("not-parsed-exactly-once", fmt.Sprintf("%s compile: modules parsed: %v", hh.n, ks))
			}
		}
	}
	if g.cyc {
		if len(o.ilMods) > 0 || o.wasmLen > 0 || o.wasmDisk {
			add("partial-compile", fmt.Sprintf("code emitted for a cyclic project: il modules %d, wasm bytes %d, wasm on disk %v", len(o.ilMods), o.wasmLen, o.wasmDisk))
		}
	} else if o.il.success && (o.wasm.success || !o.wasm.present) {
		for x := 0; x < g.n; x++ {
			if !o.ilMods["proj/"+names[x]] {
				add("il-missing", "no IL for module proj/"+names[x])
			}
		}
		if o.wasm.present && o.wasmLen == 0 {
			add("wasm-missing", "no wasm bytes")
		}
	}
	return v
}

func schedStr(s []int) string {
	if s == nil {
		return "[]"
	}
	b, _ := json.Marshal(s)
	return string(b)
}

func replayFiles(pr *sched.Project, text string, sc []int) map[string]string {
	files := map[string]string{}
	for n, c := range pr.Files {
		files["project/"+n] = c
	}
	pj, _ := json.MarshalIndent(pr, "", " ")
	files["project.json"] = string(pj)
	sj, _ := json.Marshal(map[string]any{"schedule": sc})
	files["schedule.json"] = string(sj)
	files["observed.txt"] = text
	return files
}

type tally struct {
	mu                       sync.Mutex
	exec, points, steps, cpu int64
	graphsDone               map[int]int // bound -> graphs completed
	incomplete               []string
	reported                 map[string]bool
	distinctObs              int
	maxObs                   int
}

func judgeGraph(c *vl.Ctx, e *sched.Engine, g *graph, pr *sched.Project, r *sched.ProjResult, t *tally) {
	if r.Nondet {
		// the compiler's output for this project varies between fresh processes under one
		// schedule: that is property C14's business; this graph is counted as not explored here
		c.Count("graphs_not_explored_output_varies_under_one_schedule(C14)", 1)
		return
	}
	t.mu.Lock()
	t.exec += r.Executions
	t.points += r.Points
	t.steps += r.Steps
	t.cpu += r.CPUms
	t.distinctObs += len(r.Obs)
	if len(r.Obs) > t.maxObs {
		t.maxObs = len(r.Obs)
	}
	if r.Complete {
		t.graphsDone[r.Task.Bound]++
	} else {
		t.incomplete = append(t.incomplete, fmt.Sprintf("%s@%d", g.id, r.Task.Bound))
	}
	t.mu.Unlock()
	c.Distinct(g.id)
	if g.cyc {
		c.Outcome("cyclic")
	} else {
		c.Outcome("acyclic/" + g.style)
	}
	first := map[string]bool{}
	for _, h := range r.Hashes() { // default first, then cheapest schedule first
		o := r.Obs[h]
		vs := judgeObs(g, o.Text)
		if len(vs) == 0 {
			if g.cyc {
				c.Outcome("obs:cycle-rejected")
			} else {
				c.Outcome("obs:dag-built")
			}
		}
		for _, v := range vs {
			c.Outcome("obs:" + v.what)
			if first[v.what] {
				continue
			}
			first[v.what] = true
			key := g.id + "/" + v.what
			t.mu.Lock()
			dup := t.reported[key]
			t.reported[key] = true
			t.mu.Unlock()
			if dup {
				continue
			}
			same := 0
			for i := 0; i < 5; i++ {
				if e.Replay(pr, o.Schedule) == o.Text {
					same++
				}
			}
			note := ""
			if same != 5 {
				note = fmt.Sprintf("intermittent %d/5", same)
			}
			kind := "acyclic"
			if g.cyc {
				kind = "cyclic"
			}
			ob := fmt.Sprintf("import graph %s (%s): %s: %s\nschedule %s (%d preemption(s))", g.id, kind, v.what, v.detail, schedStr(o.Schedule), o.Preempt)
			if note != "" {
				ob += "\n" + note
			}
			c.Fail(vl.Fail{Case: "C15/graph/" + g.id + "/" + v.what, Obs: ob, Files: replayFiles(pr, o.Text, o.Schedule), Note: note})
		}
	}
}

// ---------------------------------------------------------------------------------

func Run(c *vl.Ctx) {
	if len(os.Args) >= 4 && os.Args[2] == "--replay" {
		replay(c, os.Args[3])
		return
	}
	gs := graphs()
	e := sched.NewEngine(c, 16, false)
	fmt.Print(e.Report)
	if c.Quick() {
		c.SetBudget(time.Since(c.Start) + 300*time.Second)
	} else {
		c.SetBudget(time.Since(c.Start) + 13*time.Minute)
	}
	t := &tally{incomplete: []string{}, graphsDone: map[int]int{}, reported: map[string]bool{}}

	// (ii) first: cheap, both tiers
	t0 := time.Now()
	bfs := runBFS(c)
	fmt.Printf("C15: (ii) BFS: %d graphs, %d states, %d transitions in %.1fs; (i) %d graphs to explore; instrumented build took %.1fs\n", bfs.graphs, bfs.states, bfs.transitions, time.Since(t0).Seconds(), len(gs), t0.Sub(c.Start).Seconds())

	if f := os.Getenv("C1415_ONLY"); f != "" { // development / triage aid: restrict to matching graphs
		var l []*graph
		for _, g := range gs {
			if strings.Contains(g.id, f) {
				l = append(l, g)
			}
		}
		gs = l
		c.Capped = true
	}
	// Each graph is explored twice: with both back ends (IL + wasm) over every schedule
	// without preemption (bound 0: all free choices), and IL-only at the preemption bound.
	// The schedule only acts on the discovery/parse phase, which both halves share.
	prj := map[string]*sched.Project{}
	prjNW := map[string]*sched.Project{}
	for _, g := range gs {
		prj[g.id] = &sched.Project{ID: g.id, Files: g.files(false), Entry: "main.fer"}
		prjNW[g.id] = &sched.Project{ID: g.id, Files: g.files(false), Entry: "main.fer", NoWasm: true}
	}
	runPhase := func(sel []*graph, bound int, pm map[string]*sched.Project) {
		// in waves of 48 graphs so that a budget cut leaves whole graphs completed
		for i := 0; i < len(sel) && !c.OverBudget(); i += 48 {
			j := i + 48
			if j > len(sel) {
				j = len(sel)
			}
			var tasks []sched.Task
			for _, g := range sel[i:j] {
				tasks = append(tasks, sched.Task{Proj: pm[g.id], Bound: bound})
			}
			res := e.Explore(tasks, c.Deadline)
			for k, r := range res {
				judgeGraph(c, e, sel[i+k], pm[sel[i+k].id], r, t)
			}
		}
	}
	var small, large []*graph
	for _, g := range gs {
		if g.edges <= 4 {
			small = append(small, g)
		} else {
			large = append(large, g)
		}
	}
	planned := 0
	runPhase(gs, 0, prj)
	if c.Quick() {
		// quick: graphs with <=4 edges at bound 1, then the rest as far as the budget goes
		runPhase(small, 1, prjNW)
		runPhase(large, 1, prjNW)
		planned = 2 * len(gs)
	} else {
		runPhase(gs, 1, prjNW)
		runPhase(small, 2, prjNW)
		planned = 2*len(gs) + len(small)
	}
	explored := 0
	for _, n := range t.graphsDone {
		explored += n
	}
	skipped := planned - explored - len(t.incomplete)

	// native runs of the acyclic graphs (natural schedule, real binary)
	t1 := time.Now()
	fmt.Printf("C15: (i) %d executions in %.1fs (%d cpu-s)\n", t.exec, t1.Sub(t0).Seconds(), t.cpu/1000)
	nat := nativeRuns(c, gs)
	nLarge := largeGraphRuns(c)
	c.Count("large_graphs_through_the_binary", int64(nLarge))
	fmt.Printf("C15: %d native builds in %.1fs\n", nat, time.Since(t1).Seconds())

	sort.Strings(t.incomplete)
	secs := time.Since(c.Start).Seconds()
	mid := gs[len(gs)/2]
	c.Sample(map[string]any{"graph": mid.id, "files": mid.files(false)})
	ncyc, nacyc := 0, 0
	for _, g := range gs {
		if g.cyc {
			ncyc++
		} else {
			nacyc++
		}
	}
	done := map[string]int{}
	for b, n := range t.graphsDone {
		done[fmt.Sprintf("bound_%d", b)] = n
	}
	e.Close()
	c.Finish(vl.Coverage{
		Evaluations: t.exec + bfs.transitions + int64(nat),
		Exhaustive:  len(t.incomplete) == 0 && skipped == 0,
		Rule: "evaluations = controlled executions (two in-process compiles each, every distinct observation judged) + BFS transitions on the real CompilerContext + native runs; " +
			"distinct_nontrivial = import graphs (with style); states/transitions are those of the explicit-state BFS (ii); the interleaving exploration (i) is reported under sched_*",
		Bound: fmt.Sprintf("(i) %d graphs on {main},{main,a},{main,a,b} (%d cyclic, %d acyclic incl. alias/repeat styles); completed per preemption bound: %v; not completed (budget): %d cut + %d not started; (ii) %d graphs (loop-free N=4 up to renaming, with loops N<=3), all interleavings",
			len(gs), ncyc, nacyc, done, len(t.incomplete), skipped, bfs.graphs),
		States: bfs.states, Transitions: bfs.transitions, Traces: bfs.transitions,
		Extra: map[string]any{
			"sched_executions":                   t.exec,
			"sched_choice_points":                t.points,
			"sched_decisions":                    t.steps,
			"sched_executions_per_second_wall":   int(float64(t.exec) / secs),
			"sched_executions_per_cpu_second":    int(float64(t.exec) / (float64(t.cpu)/1000 + 0.001)),
			"sched_graphs_completed_per_bound":   done,
			"sched_incomplete_by_budget":         t.incomplete,
			"sched_graphs_not_started":           skipped,
			"sched_distinct_observations_total":  t.distinctObs,
			"sched_max_distinct_obs_for_a_graph": t.maxObs,
			"bfs":                                bfs.extra(),
			"native_runs":                        nat,
			"rewriter_report":                    strings.Split(strings.TrimSpace(e.Report), "\n"),
		},
	})
}

// ---------------------------------------------------------------------------------
// large import graphs through the real binary: trees, chains, stars, ladders of 40-90 modules
// and long cycles. The three- and four-module graphs above cannot show a limit on how many
// modules may be in flight at once; these can. A compile that does not finish in 120 s (it
// takes under a second) is repeated twice with 300 s before it is called a hang.

type bigGraph struct {
	id    string
	edges map[int][]int // module index -> imported module indices (0 = main)
	n     int
	cyc   bool
}

func bigGraphs() []bigGraph {
	var out []bigGraph
	tree := func(fan, depth int) bigGraph {
		g := bigGraph{id: fmt.Sprintf("tree(fan=%d,depth=%d)", fan, depth), edges: map[int][]int{}}
		level := []int{0}
		g.n = 1
		for d := 0; d < depth; d++ {
			var next []int
			for _, m := range level {
				for k := 0; k < fan; k++ {
					g.edges[m] = append(g.edges[m], g.n)
					next = append(next, g.n)
					g.n++
				}
			}
			level = next
		}
		return g
	}
	out = append(out, tree(4, 3), tree(2, 6), tree(8, 2), tree(3, 4))
	chain := bigGraph{id: "chain(64)", edges: map[int][]int{}, n: 64}
	for i := 0; i+1 < 64; i++ {
		chain.edges[i] = []int{i + 1}
	}
	out = append(out, chain)
	star := bigGraph{id: "star(64)", edges: map[int][]int{}, n: 65}
	for i := 1; i <= 64; i++ {
		star.edges[0] = append(star.edges[0], i)
	}
	out = append(out, star)
	ladder := bigGraph{id: "ladder(2x24)", edges: map[int][]int{0: {1, 2}}, n: 49}
	for r := 0; r+1 < 24; r++ {
		a, b := 1+2*r, 2+2*r
		ladder.edges[a] = []int{a + 2, b + 2}
		ladder.edges[b] = []int{a + 2, b + 2}
	}
	out = append(out, ladder)
	cyc := bigGraph{id: "cycle(40)", edges: map[int][]int{}, n: 40, cyc: true}
	for i := 0; i < 40; i++ {
		cyc.edges[i] = []int{(i + 1) % 40}
	}
	out = append(out, cyc)
	deep := tree(3, 4)
	deep.id = "tree(fan=3,depth=4)+back-edge-from-a-leaf"
	deep.cyc = true
	{
		// the last leaf imports its own ancestor at depth 1 (found by walking up)
		parent := map[int]int{}
		for m, kids := range deep.edges {
			for _, k := range kids {
				parent[k] = m
			}
		}
		a := deep.n - 1
		for parent[a] != 0 {
			a = parent[a]
		}
		deep.edges[deep.n-1] = []int{a}
	}
	out = append(out, deep)
	wide := tree(4, 3)
	wide.id = "tree(fan=4,depth=3)+self-import-in-a-leaf"
	wide.cyc = true
	wide.edges[wide.n-1] = []int{wide.n - 1}
	out = append(out, wide)
	return out
}

func (g bigGraph) name(i int) string {
	if i == 0 {
		return "main"
	}
	return fmt.Sprintf("m%d", i)
}

func (g bigGraph) files() map[string]string {
	files := map[string]string{}
	for i := 0; i < g.n; i++ {
		var b strings.Builder
		if i == 0 {
			b.WriteString("import \"std/io\";\n")
		}
		for _, j := range g.edges[i] {
			fmt.Fprintf(&b, "import \"proj/%s\";\n", g.name(j))
		}
		fmt.Fprintf(&b, "fn V%d() -> i64 {\n    return %d", i, i+1)
		for _, j := range g.edges[i] {
			fmt.Fprintf(&b, " + %s::V%d()", g.name(j), j)
		}
		b.WriteString(";\n}\n")
		if i == 0 {
			b.WriteString("fn main() {\n    io::Println(V0());\n}\n")
		}
		files[g.name(i)+".fer"] = b.String()
	}
	return files
}

func (g bigGraph) value() int64 {
	memo := map[int]int64{}
	var v func(i int) int64
	v = func(i int) int64 {
		if x, ok := memo[i]; ok {
			return x
		}
		s := int64(i + 1)
		for _, j := range g.edges[i] {
			s += v(j)
		}
		memo[i] = s
		return s
	}
	return v(0)
}

func largeGraphRuns(c *vl.Ctx) int {
	gs := bigGraphs()
	rn := run.New(c)
	rn.CompileTimeout = 120 * time.Second
	for _, g := range gs {
		if f := os.Getenv("VERIF_FILTER"); f != "" && !strings.Contains("C15/large/"+g.id, f) {
			continue
		}
		for _, procs := range []string{"", "GOMAXPROCS=1", "GOMAXPROCS=3"} {
			base := rn.NewDir()
			dir := filepath.Join(base, "proj")
			files := g.files()
			run.WriteFiles(dir, files)
			compile := func() run.Built {
				if procs == "" {
					return rn.RealCompileNative(dir, "main.fer")
				}
				old := os.Getenv("GOMAXPROCS")
				os.Setenv("GOMAXPROCS", strings.TrimPrefix(procs, "GOMAXPROCS="))
				defer os.Setenv("GOMAXPROCS", old)
				return rn.RealCompileNative(dir, "main.fer")
			}
			b := compile()
			if b.Compile.Timeout {
				rn.CompileTimeout = 300 * time.Second
				n := 1
				for k := 0; k < 2 && b.Compile.Timeout; k++ {
					b = compile()
					if b.Compile.Timeout {
						n++
					}
				}
				rn.CompileTimeout = 120 * time.Second
				if n < 3 {
					c.Count("large_graph_slow_but_terminating", 1)
				}
			}
			id := "C15/large/" + g.id
			if procs != "" {
				id += "/" + procs
			}
			rf := map[string]string{"main.fer": files["main.fer"], "shape.txt": fmt.Sprintf("%s: %d modules\n", g.id, g.n)}
			c.Distinct(id)
			out := run.StripANSI(b.Compile.Stdout + b.Compile.Stderr)
			switch {
			case b.Compile.Timeout:
				c.Outcome("large:hang")
				c.Fail(vl.Fail{Case: id, Obs: fmt.Sprintf("import graph %s (%d modules): the compiler did not finish (120 s, then 300 s twice)", g.id, g.n), Files: rf})
			case g.cyc:
				if b.Compile.OK() || b.Exists || !strings.Contains(out, "circular import") {
					c.Outcome("large:cycle-not-rejected")
					c.Fail(vl.Fail{Case: id, Obs: fmt.Sprintf("import graph %s has a cycle: expected a circular-import error and no executable, got %s, executable=%v: %s", g.id, b.Compile.Term(), b.Exists, firstLine(out)), Files: rf})
				} else {
					c.Outcome("large:cycle-rejected")
				}
			case !b.Compile.OK() || !b.Exists:
				c.Outcome("large:dag-not-built")
				c.Fail(vl.Fail{Case: id, Obs: fmt.Sprintf("import graph %s (acyclic, %d modules): not built: %s: %s", g.id, g.n, b.Compile.Term(), firstLine(out)), Files: rf})
			default:
				p := rn.Exec(b)
				want := fmt.Sprintf("%d\n", g.value())
				if !p.OK() || p.Stdout != want {
					c.Outcome("large:wrong-sum")
					c.Fail(vl.Fail{Case: id, Obs: fmt.Sprintf("import graph %s: expected output %q, got %q (%s)", g.id, want, p.Stdout, p.Term()), Files: rf})
				} else {
					c.Outcome("large:sum-correct")
				}
			}
			os.RemoveAll(base)
		}
	}
	return len(gs)
}

// nativeRuns builds every acyclic graph with the real binary and checks the printed sum.
func nativeRuns(c *vl.Ctx, gs []*graph) int {
	var ac []*graph
	for _, g := range gs {
		if !g.cyc {
			ac = append(ac, g)
		}
	}
	rn := run.New(c)
	vl.ParDo(len(ac), 8, func(i int) {
		g := ac[i]
		base := rn.NewDir()
		dir := filepath.Join(base, "proj")
		files := g.files(true)
		run.WriteFiles(dir, files)
		b := rn.CompileNative(dir, "main.fer")
		want := fmt.Sprintf("%d\n", g.value(0))
		rf := map[string]string{}
		for n, s := range files {
			rf["project/"+n] = s
		}
		if !b.Compile.OK() || !b.Exists {
			c.Fail(vl.Fail{Case: "C15/graph/" + g.id + "/native-build", Obs: fmt.Sprintf("import graph %s (acyclic): the real compiler does not build it: %s: %s", g.id, b.Compile.Term(), firstLine(run.StripANSI(b.Compile.Stdout+b.Compile.Stderr))), Files: rf})
		} else {
			p := rn.Exec(b)
			if !p.OK() || p.Stdout != want {
				c.Fail(vl.Fail{Case: "C15/graph/" + g.id + "/native-output", Obs: fmt.Sprintf("import graph %s (acyclic): expected output %q, got %q (%s)", g.id, want, p.Stdout, p.Term()), Files: rf})
			} else {
				c.Outcome("native:sum-correct")
			}
		}
		os.RemoveAll(base)
	})
	return len(ac)
}

func firstLine(s string) string {
	for _, l := range strings.Split(s, "\n") {
		if strings.TrimSpace(l) != "" {
			return strings.TrimSpace(l)
		}
	}
	return ""
}

// ---------------------------------------------------------------------------------
// (ii) explicit-state BFS over the real CompilerContext

type bfsStats struct {
	graphs, cyclicGraphs   int
	states, transitions    int64
	finals                 int64
	maxStates              int64
	addDepCalls, topoCalls int64
	rejections             int64
}

func (b *bfsStats) extra() map[string]any {
	return map[string]any{"graphs": b.graphs, "cyclic_graphs": b.cyclicGraphs, "states": b.states, "transitions": b.transitions, "final_states": b.finals,
		"max_states_per_graph": b.maxStates, "AddDependency_calls": b.addDepCalls, "ComputeTopologicalOrder_calls": b.topoCalls, "AddDependency_rejections": b.rejections}
}

type dgraph struct {
	n   int
	adj [4][4]bool
}

func (g *dgraph) id() string {
	var es []string
	for x := 0; x < g.n; x++ {
		for y := 0; y < g.n; y++ {
			if g.adj[x][y] {
				es = append(es, fmt.Sprintf("m%d>m%d", x, y))
			}
		}
	}
	if len(es) == 0 {
		return fmt.Sprintf("n%d:none", g.n)
	}
	return fmt.Sprintf("n%d:%s", g.n, strings.Join(es, "+"))
}

func (g *dgraph) reach() bool {
	seen := [4]bool{true}
	st := []int{0}
	for len(st) > 0 {
		x := st[len(st)-1]
		st = st[:len(st)-1]
		for y := 0; y < g.n; y++ {
			if g.adj[x][y] && !seen[y] {
				seen[y] = true
				st = append(st, y)
			}
		}
	}
	for i := 0; i < g.n; i++ {
		if !seen[i] {
			return false
		}
	}
	return true
}

func cyclicAdj(n int, has func(x, y int) bool) bool {
	color := make([]int, n)
	var dfs func(x int) bool
	dfs = func(x int) bool {
		color[x] = 1
		for y := 0; y < n; y++ {
			if has(x, y) {
				if color[y] == 1 || (color[y] == 0 && dfs(y)) {
					return true
				}
			}
		}
		color[x] = 2
		return false
	}
	for i := 0; i < n; i++ {
		if color[i] == 0 && dfs(i) {
			return true
		}
	}
	return false
}

func bfsGraphs() []*dgraph {
	var out []*dgraph
	// loops allowed, n <= 3
	for n := 1; n <= 3; n++ {
		for m := 0; m < 1<<(n*n); m++ {
			g := &dgraph{n: n}
			for x := 0; x < n; x++ {
				for y := 0; y < n; y++ {
					g.adj[x][y] = m>>(x*n+y)&1 == 1
				}
			}
			if g.reach() {
				out = append(out, g)
			}
		}
	}
	// loop-free, n = 4, canonical under permutations of nodes 1..3
	perms := [][3]int{{1, 2, 3}, {1, 3, 2}, {2, 1, 3}, {2, 3, 1}, {3, 1, 2}, {3, 2, 1}}
	code := func(g *dgraph, p [3]int) int {
		mp := [4]int{0, p[0], p[1], p[2]}
		c := 0
		for x := 0; x < 4; x++ {
			for y := 0; y < 4; y++ {
				if g.adj[x][y] {
					c |= 1 << (mp[x]*4 + mp[y])
				}
			}
		}
		return c
	}
	for m := 0; m < 1<<12; m++ {
		g := &dgraph{n: 4}
		k := 0
		for x := 0; x < 4; x++ {
			for y := 0; y < 4; y++ {
				if x != y {
					g.adj[x][y] = m>>k&1 == 1
					k++
				}
			}
		}
		if !g.reach() {
			continue
		}
		c0 := code(g, perms[0])
		canon := true
		for _, p := range perms[1:] {
			if code(g, p) < c0 {
				canon = false
				break
			}
		}
		if canon {
			out = append(out, g)
		}
	}
	return out
}

const globalMod = context_v2.GlobalModuleImport

type bstate struct {
	dep     [4][]int8 // DepGraph[m] as node indices; -1 = global
	pc      [4]int8
	spawned [4]bool
	errs    [4]int8 // rejected AddDependency calls so far
}

func (s *bstate) key() string {
	var sb strings.Builder
	for m := 0; m < 4; m++ {
		fmt.Fprintf(&sb, "%d.%v.%d.%v|", s.pc[m], s.spawned[m], s.errs[m], s.dep[m])
	}
	return sb.String()
}

func mname(i int) string { return fmt.Sprintf("proj/m%d", i) }

func (s *bstate) ctx(n int) *context_v2.CompilerContext {
	ctx := &context_v2.CompilerContext{Modules: map[string]*context_v2.Module{}, DepGraph: map[string][]string{}}
	ctx.Modules[globalMod] = &context_v2.Module{ImportPath: globalMod}
	for m := 0; m < n; m++ {
		if s.spawned[m] {
			ctx.Modules[mname(m)] = &context_v2.Module{ImportPath: mname(m)}
		}
		if len(s.dep[m]) > 0 {
			var l []string
			for _, d := range s.dep[m] {
				if d < 0 {
					l = append(l, globalMod)
				} else {
					l = append(l, mname(int(d)))
				}
			}
			ctx.DepGraph[mname(m)] = l
		}
	}
	return ctx
}

func runBFS(c *vl.Ctx) *bfsStats {
	st := &bfsStats{}
	gs := bfsGraphs()
	var mu sync.Mutex
	vl.ParDo(len(gs), 8, func(gi int) {
		g := gs[gi]
		imps := [4][]int{}
		for x := 0; x < g.n; x++ {
			for y := 0; y < g.n; y++ {
				if g.adj[x][y] {
					imps[x] = append(imps[x], y)
				}
			}
		}
		inputCyclic := cyclicAdj(g.n, func(x, y int) bool { return g.adj[x][y] })
		var local bfsStats
		fail := func(what, detail string, hist []string) {
			c.Fail(vl.Fail{Case: "C15/bfs/" + g.id() + "/" + what, Obs: fmt.Sprintf("graph %s: %s: %s\nhistory: %s", g.id(), what, detail, strings.Join(hist, " ; ")),
				Files: map[string]string{"history.txt": strings.Join(hist, "\n") + "\n"}})
		}
		init := &bstate{}
		init.spawned[0] = true
		type node struct {
			s    *bstate
			hist []string
		}
		seen := map[string]bool{init.key(): true}
		queue := []node{{init, nil}}
		reported := map[string]bool{}
		for len(queue) > 0 {
			cur := queue[0]
			queue = queue[1:]
			local.states++
			s := cur.s
			moved := false
			for m := 0; m < g.n; m++ {
				if !s.spawned[m] {
					continue
				}
				k := len(imps[m])
				pc := int(s.pc[m])
				if pc >= 2*k+1 {
					continue
				}
				moved = true
				ns := *s
				for i := range ns.dep {
					ns.dep[i] = append([]int8(nil), s.dep[i]...)
				}
				ns.pc[m]++
				ev := ""
				if pc <= k {
					// the real AddDependency on a context holding exactly this state
					ctx := s.ctx(g.n)
					target, ti := globalMod, -1
					if pc > 0 {
						ti = imps[m][pc-1]
						target = mname(ti)
					}
					err := ctx.AddDependency(mname(m), target)
					local.addDepCalls++
					ev = fmt.Sprintf("m%d:AddDependency(%s)", m, target)
					if err != nil {
						ev += "=ERR"
						local.rejections++
						ns.errs[m]++
						if !strings.Contains(err.Error(), "circular import detected") {
							if !reported["err"] {
								reported["err"] = true
								fail("unexpected-error", err.Error(), append(cur.hist, ev))
							}
						}
					}
					// read the real DepGraph back
					for i := 0; i < g.n; i++ {
						ns.dep[i] = ns.dep[i][:0]
						for _, d := range ctx.DepGraph[mname(i)] {
							if d == globalMod {
								ns.dep[i] = append(ns.dep[i], -1)
							} else {
								x, _ := strconv.Atoi(strings.TrimPrefix(d, "proj/m"))
								ns.dep[i] = append(ns.dep[i], int8(x))
							}
						}
					}
					// invariant: acyclic, and a sub-graph of the input
					has := func(x, y int) bool {
						for _, d := range ns.dep[x] {
							if int(d) == y {
								return true
							}
						}
						return false
					}
					if cyclicAdj(g.n, has) && !reported["cyc"] {
						reported["cyc"] = true
						fail("depgraph-cyclic", fmt.Sprintf("DepGraph contains a cycle: %v", ctx.DepGraph), append(cur.hist, ev))
					}
					for x := 0; x < g.n; x++ {
						for _, d := range ns.dep[x] {
							if d >= 0 && !g.adj[x][d] && !reported["extra"] {
								reported["extra"] = true
								fail("depgraph-extra-edge", fmt.Sprintf("edge m%d>m%d is not an import", x, d), append(cur.hist, ev))
							}
						}
					}
				} else {
					ti := imps[m][pc-k-1]
					ns.spawned[ti] = true
					ev = fmt.Sprintf("m%d:processModule(m%d)", m, ti)
				}
				local.transitions++
				key := ns.key()
				if !seen[key] {
					seen[key] = true
					h := append(append([]string(nil), cur.hist...), ev)
					queue = append(queue, node{&ns, h})
				}
			}
			if moved {
				continue
			}
			// final state
			local.finals++
			nerr := 0
			for m := 0; m < g.n; m++ {
				nerr += int(s.errs[m])
			}
			ctx := s.ctx(g.n)
			ctx.ComputeTopologicalOrder()
			local.topoCalls++
			order := ctx.GetModuleNames()
			if inputCyclic {
				if nerr == 0 && !reported["noerr"] {
					reported["noerr"] = true
					fail("cycle-not-reported", "a cyclic import graph went through without any AddDependency error", cur.hist)
				}
				continue
			}
			if nerr != 0 && !reported["fp"] {
				reported["fp"] = true
				fail("dag-rejected", fmt.Sprintf("%d AddDependency call(s) failed on an acyclic graph", nerr), cur.hist)
			}
			pos := map[string]int{}
			bad := ""
			for i, m := range order {
				if _, dup := pos[m]; dup {
					bad = "module listed twice: " + m
				}
				pos[m] = i
			}
			for m := 0; m < g.n; m++ {
				if _, ok := pos[mname(m)]; !ok {
					bad = "module missing from the order: " + mname(m)
				}
				for _, d := range imps[m] {
					if pos[mname(d)] >= pos[mname(m)] {
						bad = fmt.Sprintf("%s is not after its import %s", mname(m), mname(d))
					}
				}
				if len(s.dep[m]) != len(imps[m])+1 {
					bad = fmt.Sprintf("DepGraph[%s] has %d entries, want %d", mname(m), len(s.dep[m]), len(imps[m])+1)
				}
			}
			if len(order) != g.n+1 {
				bad = fmt.Sprintf("order has %d entries, want %d", len(order), g.n+1)
			}
			if bad != "" && !reported["topo"] {
				reported["topo"] = true
				fail("topological-order", bad+fmt.Sprintf(" (order %v)", order), cur.hist)
			}
		}
		mu.Lock()
		st.graphs++
		if inputCyclic {
			st.cyclicGraphs++
		}
		st.states += local.states
		st.transitions += local.transitions
		st.finals += local.finals
		st.addDepCalls += local.addDepCalls
		st.topoCalls += local.topoCalls
		st.rejections += local.rejections
		if local.states > st.maxStates {
			st.maxStates = local.states
		}
		mu.Unlock()
	})
	c.Count("bfs_states", st.states)
	return st
}

// ---------------------------------------------------------------------------------

func replay(c *vl.Ctx, dir string) {
	var pr sched.Project
	b, err := os.ReadFile(filepath.Join(dir, "project.json"))
	if err != nil || json.Unmarshal(b, &pr) != nil {
		fmt.Fprintln(os.Stderr, "replay: cannot read project.json (BFS and native cases carry history.txt / project files only):", err)
		os.Exit(2)
	}
	var sc struct {
		Schedule []int `json:"schedule"`
	}
	b, err = os.ReadFile(filepath.Join(dir, "schedule.json"))
	if err != nil || json.Unmarshal(b, &sc) != nil {
		fmt.Fprintln(os.Stderr, "replay: cannot read schedule.json:", err)
		os.Exit(2)
	}
	e := sched.NewEngine(c, 1, false)
	o := e.Replay(&pr, sc.Schedule)
	e.Close()
	fmt.Printf("C15 replay %s\nschedule %s\n%s", dir, schedStr(sc.Schedule), o)
	want, _ := os.ReadFile(filepath.Join(dir, "observed.txt"))
	if string(want) == o {
		fmt.Println("the recorded (violating) observation reproduces")
		os.Exit(1)
	}
	fmt.Println("the observation differs from the recorded one")
}
