// Package c10: integer literals are range-checked exactly and keep their value.
// Complete product spelling x value x type x position; verdicts through the real front
// end, accepted literals compiled natively and their printed value compared with math/big.
package c10

import (
	"fmt"
	"os"
	"math/big"
	"path/filepath"
	"sort"
	"strings"
	"sync"

	"compiler/verifh/fe"
	"compiler/verifh/run"
	"compiler/verifh/vl"
)

type ity struct {
	name   string
	bits   uint
	signed bool
}

var itypes = []ity{{"i8", 8, true}, {"i16", 16, true}, {"i32", 32, true}, {"i64", 64, true}, {"i128", 128, true}, {"i256", 256, true},
	{"u8", 8, false}, {"u16", 16, false}, {"u32", 32, false}, {"u64", 64, false}, {"u128", 128, false}, {"u256", 256, false}}

func (t ity) min() *big.Int {
	if !t.signed {
		return big.NewInt(0)
	}
	return new(big.Int).Neg(new(big.Int).Lsh(big.NewInt(1), t.bits-1))
}
func (t ity) max() *big.Int {
	b := t.bits
	if t.signed {
		b--
	}
	return new(big.Int).Sub(new(big.Int).Lsh(big.NewInt(1), b), big.NewInt(1))
}
func (t ity) fits(v *big.Int) bool { return v.Cmp(t.min()) >= 0 && v.Cmp(t.max()) <= 0 }

func valueSet() []*big.Int {
	m := map[string]*big.Int{}
	add := func(v *big.Int) { m[v.String()] = new(big.Int).Set(v) }
	one := big.NewInt(1)
	for _, t := range itypes {
		mn, mx := t.min(), t.max()
		add(new(big.Int).Sub(mn, one))
		add(mn)
		add(new(big.Int).Add(mn, one))
		add(new(big.Int).Sub(mx, one))
		add(mx)
		add(new(big.Int).Add(mx, one))
	}
	for _, s := range []int64{-1, 0, 1, 7, -8, 9, 10, 255, 256} {
		add(big.NewInt(s))
	}
	// round decimal numbers (the text-to-limb conversions work on groups of decimal digits):
	// 10^k, 12*10^k and -(10^k) around every digit-group size up to the 78 digits of u256
	for _, k := range []int64{8, 9, 10, 17, 18, 19, 20, 27, 36, 37, 38, 39, 45, 54, 63, 72, 76, 77} {
		p := new(big.Int).Exp(big.NewInt(10), big.NewInt(k), nil)
		add(p)
		add(new(big.Int).Neg(p))
		add(new(big.Int).Mul(p, big.NewInt(12)))
		add(new(big.Int).Add(p, big.NewInt(1)))
	}
	for _, e := range []uint{63, 64, 127, 128, 255, 256} {
		p := new(big.Int).Lsh(one, e)
		for _, d := range []int64{-1, 0, 1} {
			v := new(big.Int).Add(p, big.NewInt(d))
			add(v)
			add(new(big.Int).Neg(v))
		}
	}
	var l []*big.Int
	for _, v := range m {
		l = append(l, v)
	}
	sort.Slice(l, func(i, j int) bool {
		a, b := new(big.Int).Abs(l[i]), new(big.Int).Abs(l[j])
		if c := a.Cmp(b); c != 0 {
			return c < 0
		}
		return l[i].Sign() > l[j].Sign()
	})
	return l
}

type spelling struct {
	base   int
	upper  bool // 0X / 0O / 0B and upper-case hex digits
	sign   string // "", "att" (-lit), "sp" (- lit), "par" (-(lit))
	sep    int    // 0 none, 1 one '_' after the first digit, 2 between every digit
	zeros  int
}

func (s spelling) id() string {
	b := map[int]string{10: "dec", 16: "hex", 8: "oct", 2: "bin"}[s.base]
	if s.upper {
		b = strings.ToUpper(b)
	}
	return fmt.Sprintf("%s.%s.sep%d.z%d", b, map[string]string{"": "pos", "att": "neg", "sp": "neg_sp", "par": "neg_par"}[s.sign], s.sep, s.zeros)
}

// render spells value v (sign(v) must match s.sign) per the documented literal grammar.
func (s spelling) render(v *big.Int) string {
	mag := new(big.Int).Abs(v)
	digits := mag.Text(s.base)
	if s.upper {
		digits = strings.ToUpper(digits)
	}
	digits = strings.Repeat("0", s.zeros) + digits
	switch s.sep {
	case 1:
		if len(digits) > 1 {
			digits = digits[:1] + "_" + digits[1:]
		}
	case 2:
		digits = strings.Join(strings.Split(digits, ""), "_")
	}
	prefix := ""
	switch s.base {
	case 16:
		prefix = "0x"
	case 8:
		prefix = "0o"
	case 2:
		prefix = "0b"
	}
	if s.upper {
		prefix = strings.ToUpper(prefix)
	}
	lit := prefix + digits
	switch s.sign {
	case "att":
		return "-" + lit
	case "sp":
		return "- " + lit
	case "par":
		return "-(" + lit + ")"
	}
	return lit
}

func spellings(quick bool) []spelling {
	var l []spelling
	uppers := []bool{false, true}
	seps := []int{0, 1, 2}
	zeros := []int{0, 1, 3}
	if quick {
		seps = []int{0, 2}
		zeros = []int{0, 1}
	}
	for _, base := range []int{10, 16, 8, 2} {
		for _, up := range uppers {
			if base == 10 && up {
				continue
			}
			if quick && up && base != 16 {
				continue
			}
			for _, sign := range []string{"", "att", "sp", "par"} {
				for _, sep := range seps {
					for _, z := range zeros {
						l = append(l, spelling{base, up, sign, sep, z})
					}
				}
			}
		}
	}
	return l
}

var allPositions = []string{"let", "arg", "return", "assign", "field", "elem", "operand"}

type lcase struct {
	id     string
	t      ity
	pos    string
	lit    string
	v      *big.Int
	accept bool
	judged bool // false: recorded only (the `-(lit)` form, see DESIGN C10)
}

// line renders the one-line statement (inside main) or declaration (top level) for a case.
func (k *lcase) decl(i int) string {
	if k.pos == "return" {
		return fmt.Sprintf("fn r%d() -> %s { return %s; }", i, k.t.name, k.lit)
	}
	return ""
}
func (k *lcase) stmt(i int) string {
	t := k.t.name
	switch k.pos {
	case "let":
		return fmt.Sprintf("let v%d: %s = %s; io::Println(v%d);", i, t, k.lit, i)
	case "arg":
		return fmt.Sprintf("io::Println(id(%s));", k.lit)
	case "return":
		return fmt.Sprintf("io::Println(r%d());", i)
	case "assign":
		return fmt.Sprintf("w = %s; io::Println(w);", k.lit)
	case "field":
		return fmt.Sprintf("let s%d := { .V = %s } as Box; io::Println(s%d.V);", i, k.lit, i)
	case "elem":
		return fmt.Sprintf("let a%d: [1]%s = [%s]; io::Println(a%d[0]);", i, t, k.lit, i)
	case "operand":
		return fmt.Sprintf("let o%d: %s = z + %s; io::Println(o%d);", i, t, k.lit, i)
	}
	panic(k.pos)
}

// program packs cases (all of one type) one per line; returns source and the line of each case.
func program(t ity, ks []*lcase) (string, []int) {
	var b strings.Builder
	lines := make([]int, len(ks))
	ln := 1
	w := func(s string) { b.WriteString(s + "\n"); ln++ }
	w(`import "std/io";`)
	w(fmt.Sprintf("type Box struct { .V: %s };", t.name))
	w(fmt.Sprintf("fn id(x: %s) -> %s { return x; }", t.name, t.name))
	w(fmt.Sprintf("fn zero() -> %s { return 0; }", t.name))
	for i, k := range ks {
		if d := k.decl(i); d != "" {
			lines[i] = ln
			w(d)
		}
	}
	w("fn main() {")
	w(fmt.Sprintf("let w: %s = 0;", t.name))
	w("let z := zero();")
	for i, k := range ks {
		if k.pos != "return" {
			lines[i] = ln
		}
		w(k.stmt(i))
	}
	w("}")
	return b.String(), lines
}

func Run(c *vl.Ctx) {
	quick := c.Quick()
	vals := valueSet()
	sps := spellings(quick)
	positions := allPositions
	if quick {
		positions = []string{"let", "arg", "return", "operand"}
	}
	var cases []*lcase
	for _, t := range itypes {
		for _, pos := range positions {
			for _, v := range vals {
				for _, sp := range sps {
					if (sp.sign == "") != (v.Sign() >= 0) {
						if !(v.Sign() == 0 && sp.sign != "") { // -0 spellings are kept
							continue
						}
					}
					if sp.zeros > 0 && sp.base == 10 && v.Sign() == 0 && sp.sep == 1 {
						continue // same text as another spelling; keep ids unique below anyway
					}
					k := &lcase{t: t, pos: pos, lit: sp.render(v), v: v, accept: t.fits(v), judged: sp.sign != "par"}
					k.id = fmt.Sprintf("C10/%s/%s/%s/%s", t.name, pos, sp.id(), v.String())
					if f := os.Getenv("VERIF_FILTER"); f != "" && !strings.Contains(k.id, f) {
						continue
					}
					cases = append(cases, k)
				}
			}
		}
	}
	c.Count("cases", int64(len(cases)))
	// group by (type, expected verdict), chunk
	type pack struct {
		t  ity
		ks []*lcase
	}
	var packs []pack
	const chunk = 48
	group := map[string][]*lcase{}
	var order []string
	for _, k := range cases {
		key := fmt.Sprintf("%s/%v", k.t.name, k.accept)
		if _, ok := group[key]; !ok {
			order = append(order, key)
		}
		group[key] = append(group[key], k)
	}
	for _, key := range order {
		ks := group[key]
		for i := 0; i < len(ks); i += chunk {
			j := i + chunk
			if j > len(ks) {
				j = len(ks)
			}
			packs = append(packs, pack{ks[0].t, ks[i:j]})
		}
	}
	pool := fe.NewPool(c.W, filepath.Join(c.Repo, "ferret_libs"), 16)
	defer pool.Close()
	rn := run.New(c)
	rn.Fast = os.Getenv("VERIF_NOFAST") == ""
	var evals int64
	var mu sync.Mutex
	single := func(k *lcase) *fe.Result {
		src, _ := program(k.t, []*lcase{k})
		r := pool.Do(&fe.Project{Files: map[string]string{"main.fer": src}, Entry: "main.fer", Mode: "check", NoRender: true})
		return &r
	}
	report := func(k *lcase, obs string) {
		src, _ := program(k.t, []*lcase{k})
		if !k.judged {
			c.Count("paren_form_recorded_not_judged", 1)
			return
		}
		c.Fail(vl.Fail{Case: k.id, Obs: obs, Files: map[string]string{"main.fer": src, "literal.txt": k.lit + " : " + k.t.name + " = " + k.v.String()}})
	}
	vl.ParDo(len(packs), 16, func(pi int) {
		if c.OverBudget() {
			return
		}
		p := packs[pi]
		src, lines := program(p.t, p.ks)
		r := pool.Do(&fe.Project{Files: map[string]string{"main.fer": src}, Entry: "main.fer", Mode: "check", NoRender: true})
		mu.Lock()
		evals += int64(len(p.ks))
		mu.Unlock()
		if r.Panic != "" || r.Timeout || r.Crash != "" {
			c.Fail(vl.Fail{Case: fmt.Sprintf("C10/pack/%s", p.ks[0].id), Obs: "front end did not answer: panic=" + r.Panic + " crash=" + r.Crash, Files: map[string]string{"main.fer": src}})
			return
		}
		errLines := map[int]string{}
		unmapped := false
		caseLine := map[int]bool{}
		for _, l := range lines {
			caseLine[l] = true
		}
		for _, d := range r.Errors() {
			if !caseLine[d.Line] {
				unmapped = true
			}
			errLines[d.Line] = d.Msg
		}
		var runnable []*lcase
		for i, k := range p.ks {
			msg, rejected := errLines[lines[i]]
			if unmapped {
				// an error outside the case lines: take nothing from the pack, decide each case alone
				rs := single(k)
				rejected = !rs.Success
				msg = rs.ErrSummary()
			} else if rejected == k.accept {
				// disagreement in the pack: confirm alone before believing it
				rs := single(k)
				rejected = !rs.Success
				msg = rs.ErrSummary()
			}
			c.Outcome(fmt.Sprintf("expect_accept=%v accepted=%v", k.accept, !rejected))
			if k.v.Sign() != 0 {
				c.Distinct(k.id)
			}
			switch {
			case k.accept && rejected:
				report(k, "rejected although the value is in range: "+msg)
			case !k.accept && !rejected:
				report(k, "accepted although the value is out of range")
			case k.accept:
				runnable = append(runnable, k)
			}
		}
		if len(runnable) == 0 {
			return
		}
		// run the accepted literals natively and compare the printed values line by line;
		// a mismatching line is confirmed on a single-literal program before it is reported;
		// if the pack as a whole cannot be judged (compile failure, wrong line count) every
		// literal is decided alone.
		execOn := func(rn *run.Runner, ks []*lcase) (out []string, detail string) {
			src, _ := program(p.t, ks)
			dir := rn.NewDir()
			defer os.RemoveAll(dir)
			run.WriteFiles(dir, map[string]string{"main.fer": src})
			c.Count("native_programs", 1)
			b := rn.CompileNative(dir, "main.fer")
			if !b.Compile.OK() || !b.Exists {
				return nil, "native compile failed: " + b.Compile.Term() + " " + firstErr(run.StripANSI(b.Compile.Stderr+b.Compile.Stdout))
			}
			pr := rn.Exec(b)
			out = strings.Split(strings.TrimRight(pr.Stdout, "\n"), "\n")
			if !pr.OK() || len(out) != len(ks) {
				return nil, fmt.Sprintf("run: %s, %d lines for %d literals; stderr=%q", pr.Term(), len(out), len(ks), firstErr(pr.Stderr))
			}
			return out, ""
		}
		alone := func(k *lcase) {
			// decided by the ferret binary
			out, detail := execOn(rn.Real(), []*lcase{k})
			if out != nil && out[0] != k.v.String() {
				detail = fmt.Sprintf("want %s got %s", k.v.String(), out[0])
			}
			if detail != "" {
				c.Outcome("value-mismatch")
				report(k, "accepted, but the running program does not observe the value: "+detail)
			} else {
				c.Count("values_observed", 1)
			}
		}
		out, _ := execOn(rn, runnable)
		for i, k := range runnable {
			if out == nil || out[i] != k.v.String() {
				alone(k)
			} else {
				c.Count("values_observed", 1)
			}
		}
	})
	for _, i := range []int{0, len(cases) / 3, len(cases) / 2, len(cases) - 1} {
		c.Sample(map[string]string{"id": cases[i].id, "literal": cases[i].lit, "type": cases[i].t.name, "expected_accept": fmt.Sprint(cases[i].accept)})
	}
	c.Assume = append(c.Assume, "literal grammar as documented in internal/utils/numeric (0x/0o/0b prefixes, '_' between digits, optional '-'); a leading-zero decimal is decimal",
		"packed programs are a filter only: every disagreement is re-decided on a single-literal program before it is reported",
		"`-(lit)` spellings are explored and counted but not judged (the statement says 'optionally negated' literal; a parenthesised operand is an expression)")
	c.Finish(vl.Coverage{Evaluations: evals, Exhaustive: true,
		Rule:  fmt.Sprintf("complete product of %d boundary values x %d spellings (base, prefix case, sign form, separators, leading zeros) x 12 integer types x %d positions; oracle accept <=> min(T)<=v<=max(T) by math/big, accepted literals printed by the native executable must equal v; distinct_nontrivial = unique case ids with v != 0", len(vals), len(sps), len(positions)),
		Bound: fmt.Sprintf("values=%d spellings=%d positions=%v", len(vals), len(sps), positions)})
}

func firstErr(s string) string {
	for _, l := range strings.Split(s, "\n") {
		l = strings.TrimSpace(l)
		if strings.Contains(l, "error") || strings.Contains(l, "panic") {
			if len(l) > 200 {
				l = l[:200]
			}
			return l
		}
	}
	if len(s) > 200 {
		s = s[:200]
	}
	return strings.TrimSpace(s)
}
